(* C16 correspondence, round 2: Baum-Welch traces of vectorEstimator.HmmEstimator (categorical
   emissions) against the linear-scale model ModelHmm.v run in Q.

   hook record: (iteration, log Pi, log Tr row-major, log theta per emission class, likelihood, change).
   For every pair of consecutive hook calls h0, h1: the model step (expected counts gamma / xi from
   forward-backward in Q, Pi / Tr normalisation, categorical M-step with gamma[c] as weights) started
   from Go's state at h0 must give Go's state at h1 (1e-9, decided in Q; exp of Go's log values through
   the Interval-certified table), and the likelihood handed to h1 must be the likelihood of the state
   at h0; the driver (iteration numbers, change, stopping) is the model of emAlgorithm /
   baumWelchAlgorithm (the two loops have the same text); the reported likelihoods must not decrease. *)
From Coq Require Import ZArith QArith Qabs Floats List Bool.
From ADV Require Import Base.Num Base.Corr C16.Model C16.Corr C16.ModelHmm.
Import ListNotations.

Definition hhook := (nat * list float * list float * list (list float) * float * float)%type.
Definition hh_iter (h : hhook) := let '(i, _, _, _, _, _) := h in i.
Definition hh_pi (h : hhook) := let '(_, p, _, _, _, _) := h in p.
Definition hh_tr (h : hhook) := let '(_, _, t, _, _, _) := h in t.
Definition hh_th (h : hhook) := let '(_, _, _, t, _, _) := h in t.
Definition hh_lik (h : hhook) := let '(_, _, _, _, l, _) := h in l.
Definition hh_eps (h : hhook) := let '(_, _, _, _, _, e) := h in e.

Definition hstate (A : Type) := (list A * list A * list (list A))%type.

(* Go's state on the linear scale through the certified exp table: exact rationals / the table's floats *)
Definition hlin_state (tab : exptab) (h : hhook) : option (hstate Q) :=
  match all_some (map (wq tab) (hh_pi h)), all_some (map (wq tab) (hh_tr h)),
        all_some (map (fun p => all_some (map (wq tab) p)) (hh_th h)) with
  | Some p, Some t, Some th => Some (p, t, th)
  | _, _, _ => None
  end.
Definition hlin_state_f (tab : exptab) (h : hhook) : hstate float :=
  (map (tabexp tab) (hh_pi h), map (tabexp tab) (hh_tr h), map (map (tabexp tab)) (hh_th h)).

(* one step of the model ModelHmm.v, carrier-generic: run with the 100-bit rounded rationals NumQr
   (exact up to 2^-100 per operation) or with binary64 NumF (all operations are + * / on non-negative
   numbers, so the relative error of every computed quantity is below (number of operations) * 2^-53
   << the comparison tolerance 1e-9; this standard bound is not machine-checked, which is why a part
   of the cases of every run is decided with NumQr) *)
Section StepG.
Context {A : Type} (N : Num A).
Definition hmm_step_g (M C J : nat) (smap : list nat) (seqs : list (list nat)) (st : hstate A)
  : hstate A * A (* likelihood of all sequences, linear scale *) :=
  let '(pis, trs, ths) := st in
  let z := zero N in
  let nseq := length seqs in
  let len := fun s => length (nth s seqs []) in
  let pi := fun i => nth i pis z in
  let tr := fun i j => nth (i * M + j) trs z in
  let sm := fun j => nth j smap O in
  let obs := fun s k => nth k (nth s seqs []) O in
  let e := fun s j k => nth (obs s k) (nth (sm j) ths []) z in
  let npi := map (bw_pi_new N M nseq len pi tr e) (seq 0 M) in
  let ntr := flat_map (fun i => map (bw_tr_new N M nseq len pi tr e i) (seq 0 M)) (seq 0 M) in
  (* Emissions(): the categorical estimator of class c on all positions with gamma[c] as weights *)
  let pos := flat_map (fun s => map (fun k => (s, k)) (seq 0 (len s))) (seq 0 nseq) in
  let nth_ := map (fun c =>
                let w := map (fun sk => (bw_eweight N M len pi tr e sm c (fst sk) (snd sk), obs (fst sk) (snd sk))) pos in
                match cf_categorical N J w with Some th => th | None => repeat z J end) (seq 0 C) in
  let lik := fold_left (fun a s => mul N a (bw_lik N M len pi tr e s)) (seq 0 nseq) (one N) in
  ((npi, ntr, nth_), lik).
End StepG.

Definition qclose (x y : Q) : bool := closeQ tolQ x y || closeQ_abs x y.
Definition fqclose (x : Q) (y : float) : bool := match F2Q y with Some q => qclose x q | None => false end.

Definition hstate_close {B} (cl : Q -> B -> bool) (a : hstate Q) (b : hstate B) : bool :=
  let '(p1, t1, th1) := a in let '(p2, t2, th2) := b in
  list_eqb2 cl p1 p2 && list_eqb2 cl t1 t2 && list_eqb2 (list_eqb2 cl) th1 th2.

Definition hcheck_transition (exact : bool) (tab : exptab) (M C J : nat) smap seqs (h0 h1 : hhook) : bool :=
  match hlin_state tab h0, hlin_state tab h1, wq tab (hh_lik h1) with
  | Some st0, Some st1, Some lik1 =>
      if exact then
        let '(st, lik) := hmm_step_g NumQr M C J smap seqs st0 in
        hstate_close qclose st1 st && closeQ tolQ lik1 lik
      else
        let '(st, lik) := hmm_step_g NumF M C J smap seqs (hlin_state_f tab h0) in
        hstate_close fqclose st1 st && match F2Q lik with Some l => closeQ tolQ lik1 l | None => false end
  | _, _, _ => false
  end.

Fixpoint hcheck_transitions exact tab M C J smap seqs (hs : list hhook) : bool :=
  match hs with
  | h0 :: ((h1 :: _) as r) => hcheck_transition exact tab M C J smap seqs h0 h1 && hcheck_transitions exact tab M C J smap seqs r
  | _ => true
  end.

Definition hook_of (h : hhook) : hook := (hh_iter h, [], [], hh_lik h, hh_eps h).

Inductive case2 :=
| C2Hmm (exact : bool) (M C J : nat) (smap : list nat) (seqs : list (list nat)) (eps : float) (max_steps : option nat)
        (trace : list hhook).

Definition check2 (tab : exptab) (c : case2) : bool :=
  match c with
  | C2Hmm exact M C J smap seqs eps ms tr =>
      hcheck_transitions exact tab M C J smap seqs tr && check_driver eps ms (map hook_of tr)
      && check_monotone (map hh_lik (tl tr))
  end.

Definition mism2 (tab : exptab) (cs : list case2) : list nat := mismatches (check2 tab) cs.
