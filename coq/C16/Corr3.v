(* C16 correspondence, round 3.

   - vector normal estimator (vectorEstimator/normal.go): bit-exact replay of the accumulation and of
     estimateParameters on primitive floats (one exp per observation through the Interval-certified table);
     the certified perturbation check at Go's returned (mu, Sigma), decided in Q: with S = the exact weighted
     scatter matrix around Go's mu, Lambda = the exact inverse of (the symmetric part of) Go's Sigma and
     P = Lambda S,
        mu_i -> mu_i +- dm          changes  tr(Lambda S)  by  dm^2 Lambda_ii +- 2 dm (Lambda v)_i  (v = mu - exact mean),
        Sigma -> D Sigma D          (coordinate i scaled by c = 1 +- 2^-10): det changes by c^2 exactly,
                                     tr by 2 (1/c - 1) P_ii + (1/c - 1)^2 Lambda_ii S_ii,
        Sigma -> T Sigma T^T        (shear x_i += e x_j, det unchanged): tr by  -2 e P_ij + e^2 Lambda_ii S_jj;
     no admissible one of them may increase  -ln det Sigma - tr(Sigma^-1 S)  (ln(1 +- 2^-10) through the bounds
     certified in ProofsCorr.v).  The scalings and shears generate every direction of the covariance.
   - scalarId / scalarIid: the component checks of Corr.v on the columns / on the pooled coordinates.
   - negative binomial: closed form M / (r W + M) in Q (1e-9) and the multiplicative perturbation check.      *)
From Coq Require Import ZArith QArith Qabs Floats List Bool.
From ADV Require Import Base.Num Base.Corr C16.Model C16.Corr C16.ModelVec.
Import ListNotations.

Definition qnth (l : list Q) (i : nat) : Q := nth i l 0.
Definition qmat := list (list Q).
Definition qent (m : qmat) (i j : nat) : Q := qnth (nth i m []) j.
Definition qtab (d : nat) (f : nat -> nat -> Q) : qmat := map (fun i => map (fun j => Qred (f i j)) (seq 0 d)) (seq 0 d).
Definition qsum (d : nat) (f : nat -> Q) : Q := fold_left (fun a i => Qred (a + f i)) (seq 0 d) 0.

(* Gauss-Jordan without pivoting on [A | I]; None when a pivot is <= 0 (A not positive definite);
   returns the inverse and the pivots *)
Definition gj_step (d k : nat) (st : option (list (list Q) * list Q)) : option (list (list Q) * list Q) :=
  match st with
  | None => None
  | Some (m, piv) =>
      let rk := nth k m [] in
      let p := qnth rk k in
      if Qle_bool p 0 then None else
      let rk' := map (fun v => Qred (v / p)) rk in
      Some (map (fun i => let ri := nth i m [] in
                          if Nat.eqb i k then rk'
                          else let f := qnth ri k in map (fun vw => Qred (fst vw - f * snd vw)) (combine ri rk'))
                (seq 0 d), piv ++ [p])
  end.
Definition qinverse (d : nat) (a : qmat) : option (qmat * list Q) :=
  let aug := map (fun i => nth i a [] ++ map (fun j => if Nat.eqb i j then 1 else 0) (seq 0 d)) (seq 0 d) in
  match fold_left (fun st k => gj_step d k st) (seq 0 d) (Some (aug, [])) with
  | Some (m, piv) => Some (map (fun r => skipn d r) m, piv)
  | None => None
  end.

Fixpoint all_some2 {X} (l : list (list (option X))) : option (list (list X)) :=
  match l with
  | [] => Some []
  | r :: t => match all_some r, all_some2 t with Some r', Some t' => Some (r' :: t') | _, _ => None end
  end.

(* 2^floor(log2(q)/2): a power of two within a factor 2 of sqrt q (q > 0) *)
Definition sqrt_pow2 (q : Q) : Q :=
  let e := (Z.log2 (Qnum q) - Z.log2 (Zpos (Qden q)))%Z in
  let h := (e / 2)%Z in
  if (0 <=? h)%Z then inject_Z (2 ^ h) else 1 # (Z.to_pos (2 ^ (- h))).

Definition flist_eqb (a b : list float) := list_eqb feqb a b.
Definition fmat_eqb (a b : list (list float)) := list_eqb flist_eqb a b.

Definition le2 (a b : Q) := Qle_bool a b.

(* the perturbation check proper; ws = weights, xq = data, mu / sg = Go's parameters (sg symmetrised),
   clamped i = Go's Sigma_ii sits on SigmaMin *)
Definition perturb_vnormal (d : nat) (smin : Q) (ws : list Q) (xq : list (list Q)) (mu : list Q) (sg : qmat)
    (clamped : nat -> bool) : bool :=
  let W := fold_left (fun a w => Qred (a + w)) ws 0 in
  let wx := combine ws xq in
  let M := map (fun i => fold_left (fun a p => Qred (a + fst p * qnth (snd p) i)) wx 0) (seq 0 d) in
  let Q2 := qtab d (fun i j => fold_left (fun a p => Qred (a + fst p * qnth (snd p) i * qnth (snd p) j)) wx 0) in
  if Qle_bool W 0 then true else
  let mstar := map (fun m => Qred (m / W)) M in
  (* conditioning: exact variance of every coordinate against its second moment *)
  let cond1 := forallb (fun i => let q := qent Q2 i i / W in let m := qnth mstar i in
                                 Qle_bool (q * (1 # 1048576)) (q - m * m) && negb (Qeq_bool q 0)) (seq 0 d) in
  if negb cond1 then true else
  match qinverse d sg with
  | None => true      (* numerically singular (Go's Cholesky accepted pivots at rounding level): conditioning rule, not judged *)
  | Some (lam, piv) =>
      let cond2 := forallb (fun k => Qle_bool (qent sg k k * (1 # 65536)) (qnth piv k)) (seq 0 d) in
      if negb cond2 then true else
      let S := qtab d (fun i j => (qent Q2 i j - qnth mu i * qnth M j - qnth mu j * qnth M i
                                   + qnth mu i * qnth mu j * W) / W) in
      let P := qtab d (fun i j => qsum d (fun k => qent lam i k * qent S k j)) in
      let v := map (fun i => Qred (qnth mu i - qnth mstar i)) (seq 0 d) in
      let lv := map (fun i => qsum d (fun k => qent lam i k * qnth v k)) (seq 0 d) in
      let anyclamp := existsb clamped (seq 0 d) in
      (* the mean: optimal for every covariance, clamped or not *)
      forallb (fun i => let dm := delta * sqrt_pow2 (qent sg i i) in
                        le2 (2 * Qabs (qnth lv i)) (dm * qent lam i i)) (seq 0 d) &&
      (* the covariance; with an active clamp in dimension >= 2 the returned matrix is the clamped moment
         matrix, not the constrained optimum (finding F-VNORMAL-CLAMP): only the scaling of a clamped
         coordinate in dimension 1 is checked then *)
      (if anyclamp && negb (Nat.eqb d 1) then true else
       forallb (fun i =>
         let lii_sii := qent lam i i * qent S i i in
         let pii := qent P i i in
         let up := let c1 := 1 / (1 + delta) - 1 in - (2 * lnp_lo) - (2 * c1 * pii + c1 * c1 * lii_sii) in
         let dn := let c1 := 1 / (1 - delta) - 1 in - (2 * lnm_lo) - (2 * c1 * pii + c1 * c1 * lii_sii) in
         le2 up 0 &&
         (if le2 smin (qent sg i i * (1 - delta) * (1 - delta)) then le2 dn 0 else true)) (seq 0 d) &&
       forallb (fun i => forallb (fun j =>
         if Nat.eqb i j then true else
         let e := delta * sqrt_pow2 (qent sg i i) / sqrt_pow2 (qent sg j j) in
         let quad := e * e * (qent lam i i * qent S j j) in
         let adm := fun s : Q => le2 smin (qent sg i i + 2 * s * e * qent sg i j + e * e * qent sg j j) in
         (if adm 1 then le2 0 (quad - 2 * e * qent P i j) else true) &&
         (if adm (-1) then le2 0 (quad + 2 * e * qent P i j) else true)) (seq 0 d)) (seq 0 d))
  end.

Definition sym_part (d : nat) (m : qmat) : qmat := qtab d (fun i j => (qent m i j + qent m j i) / 2).

(* Go refused to build the distribution: the model's matrix must be (numerically) not positive definite —
   a NaN / infinite entry, or a Gauss pivot below 2^-40 of its diagonal entry *)
Definition not_clearly_pd (d : nat) (si : list (list float)) : bool :=
  match all_some2 (map (map F2Q) si) with
  | None => true
  | Some sq =>
      match qinverse d (sym_part d sq) with
      | None => true
      | Some (_, piv) =>
          existsb (fun k => Qle_bool (qnth piv k) (Qabs (qent sq k k) * (1 # 1099511627776))) (seq 0 d) ||
          (* the determinant (product of the pivots) underflows in binary64: the constructor's test det == 0 fires *)
          Qle_bool (fold_left (fun a p => Qred (a * p)) piv 1) (1 # (2 ^ 1070))
      end
  end.

Definition check_vnormal (tab : exptab) (pert : bool) (d : nat) (smin : float) (xs : list (list float))
    (g : option (list float)) (res : option (list float * list (list float))) : bool :=
  let '(mmu, msi) := vn_est NumF (tabexp tab) d smin xs (option_map (map f2lw) g) in
  match res with
  | None => not_clearly_pd d msi || existsb (fun m => negb (PrimFloat.eqb m m)) mmu
  | Some (gmu, gsi) =>
      flist_eqb mmu gmu && fmat_eqb msi gsi &&
      (negb pert ||
       match weights tab (length xs) g, all_some2 (map (map F2Q) xs), all_some (map F2Q gmu),
             all_some2 (map (map F2Q) gsi), F2Q smin with
       | Some ws, Some xq, Some mu, Some sg, Some sq =>
           perturb_vnormal d sq ws xq mu (sym_part d sg)
             (fun i => feqb (nth i (nth i gsi []) nan) smin)
       | _, _, _, _, _ => true      (* weights outside the Q table / non-finite data: float replay only *)
       end)
  end.

(* ---------------- products ---------------- *)
Definition check_comp (tab : exptab) (pert : bool) (c : Z * float) (col : list float) (g : option (list float))
    (res : option (list float)) : bool :=
  let '(fam, bound) := c in
  if (fam =? 10)%Z then
    match res with
    | None => check_normal tab pert bound col g None
    | Some [m; s] => check_normal tab pert bound col g (Some (m, s))
    | Some _ => false
    end
  else
    match res with
    | None => check_rate tab fam bound col g None
    | Some [v] => check_rate tab fam bound col g (Some v)
    | Some _ => false
    end.

Definition check_sid (tab : exptab) pert (comps : list (Z * float)) (xs : list (list float)) g
    (res : option (list (list float))) : bool :=
  let cols := map (fun i => column i xs) (seq 0 (length comps)) in
  match all_some cols with
  | None => match res with None => true | Some _ => false end     (* a vector of the wrong dimension: rejected *)
  | Some cs =>
      match res with
      | Some rs => Nat.eqb (length rs) (length comps) &&
                   forallb (fun t => check_comp tab pert (fst (fst t)) (snd (fst t)) g (Some (snd t)))
                           (combine (combine comps cs) rs)
      | None => existsb (fun t => check_comp tab false (fst t) (snd t) g None) (combine comps cs)
      end
  end.

Definition check_siid (tab : exptab) pert (comps : list (Z * float)) (xs : list (list float)) g
    (res : option (list (list float))) : bool :=
  match comps with
  | [c] => match res with
           | None => check_comp tab false c (concat xs) g None
           | Some [r] => check_comp tab pert c (concat xs) g (Some r)
           | Some _ => false
           end
  | _ => false
  end.

(* ---------------- negative binomial ---------------- *)
Definition perturb_negbin (r : Q) (d : list (Q * Q)) (p : Q) : bool :=
  let W := qW d in let M := qM d in
  if Qle_bool 1 p then false else
  if Qle_bool p 0 then Qeq_bool M 0 else
  (if Qlt_le_dec (p * (1 + delta)) 1 then Qle_bool (M * lnp_hi - r * W * (delta * p / (1 - p))) 0 else true) &&
  Qle_bool (M * lnm_hi + r * W * (delta * p / (1 - p))) 0.

Definition check_negbin (tab : exptab) (r : float) xs g (res : option float) : bool :=
  match qdata tab xs g, F2Q r with
  | Some d, Some rq =>
      opt_closeQ res (cf_negbin NumQ rq d) &&
      match res with
      | Some p => match F2Q p with Some pq => perturb_negbin rq d pq | None => false end
      | None => true
      end
  | _, _ => false
  end.


(* ---------------- EM with normal components: single-step replay ---------------- *)
(* hook record as in Corr.v: (iteration, log-weights, [mu; sigma] per component, likelihood, change).
   Densities without the factor 1/sqrt(2 pi) (it cancels in the responsibilities):
       f k l = exp(a_kl) / sigma_k,   a_kl = -((x_l - mu_k)^2 / (2 sigma_k^2)),
   a_kl evaluated in binary64 exactly as the harness does (the table key), checked against its exact rational
   value (|difference| <= 2^-40, so exp changes by less than 1e-12 relative); exp through the certified table.
   inv_sqrt_2pi_q encloses 1/sqrt(2 pi) (ProofsCorr3.v).                                                     *)
Definition inv_sqrt_2pi_q : Q := 3989422804014327 # 10000000000000000.

Definition en_arg (x mu s : float) : float := (- (((x - mu) * (x - mu)) / (2 * (s * s))))%float.

Definition en_dens (tab : exptab) (x mu s : float) : option Q :=
  match F2Q x, F2Q mu, F2Q s, F2Q (en_arg x mu s), wq tab (en_arg x mu s) with
  | Some xq, Some mq, Some sq, Some aq, Some e =>
      if Qle_bool sq 0 then None else
      let exact := - (((xq - mq) * (xq - mq)) / (2 * (sq * sq))) in
      if Qle_bool (Qabs (exact - aq)) (1 # 1099511627776) then Some (rndQ (e / sq)) else None
  | _, _, _, _, _ => None
  end.

Definition en_step (tab : exptab) (K : nat) (smin : float) (xs : list float) (h0 h1 : hook) : bool :=
  let n := length xs in
  match all_some (map (wq tab) (hk_lw h0)), all_some (map (wq tab) (hk_lw h1)), all_some (map F2Q xs),
        all_some2 (map (fun p => map (fun x => en_dens tab x (nth 0 p nan) (nth 1 p nan)) xs) (hk_ps h0)),
        wq tab (hk_lik h1), F2Q smin with
  | Some pis0, Some pis1, Some xq, Some ftab, Some lik1, Some sminq =>
      let pi := nthQ pis0 in
      let f := fun k l => nthQ (nth k ftab []) l in
      let c := fun _ : nat => 1%Q in
      let rtab := map (fun k => map (fun l => g_resp NumQr K c pi f k l) (seq 0 n)) (seq 0 K) in
      let r := fun k l => nthQ (nth k rtab []) l in
      let rs := map (fun k => gsum NumQr n (r k)) (seq 0 K) in
      let tot := gsum NumQr K (nthQ rs) in
      let x := nthQ xq in
      (* likelihood handed to hook 1 = likelihood of the state at hook 0 *)
      closeQ tolQ lik1 (mul NumQr (g_lik NumQr n K pi f) (qpow inv_sqrt_2pi_q n)) &&
      Nat.eqb (length pis1) K && Nat.eqb (length (hk_ps h1)) K &&
      forallb (fun k =>
        let rk := nthQ rs k in
        let npi := div NumQr rk tot in
        let m := div NumQr (gsum NumQr n (fun l => mul NumQr (r k l) (x l))) rk in
        let q := div NumQr (gsum NumQr n (fun l => mul NumQr (mul NumQr (r k l) (x l)) (x l))) rk in
        let var := q - m * m in
        let scale := q + 1 in
        match F2Q (nth 0 (nth k (hk_ps h1) []) nan), F2Q (nth 1 (nth k (hk_ps h1) []) nan) with
        | Some gm, Some gs =>
            (closeQ tolQ (nthQ pis1 k) npi || closeQ_abs (nthQ pis1 k) npi) &&
            Qle_bool (Qabs (gm - m)) (tolQ * (Qabs m + 1)) &&
            (* sigma: sqrt(var) where var >= SigmaMin^2, SigmaMin otherwise (either one within the tolerance band) *)
            ((Qle_bool (sminq * sminq - tolQ * scale) var && Qle_bool (Qabs (gs * gs - var)) (tolQ * scale)) ||
             (Qle_bool var (sminq * sminq + tolQ * scale) && Qeq_bool gs sminq))
        | _, _ => false
        end) (seq 0 K)
  | _, _, _, _, _, _ => false
  end.

Fixpoint en_steps tab K smin xs (hs : list hook) : bool :=
  match hs with
  | h0 :: ((h1 :: _) as r) => en_step tab K smin xs h0 h1 && en_steps tab K smin xs r
  | _ => true
  end.

Definition check_em_normal tab K smin xs eps max_steps (hs : list hook) : bool :=
  en_steps tab K smin xs hs && check_driver eps max_steps hs && check_monotone (map hk_lik (tl hs)).

(* ---------------- cases ---------------- *)
Inductive case3 :=
| C3VNormal (pert : bool) (d : nat) (smin : float) (xs : list (list float)) (g : option (list float))
            (res : option (list float * list (list float)))
| C3Sid (pert : bool) (comps : list (Z * float)) (xs : list (list float)) (g : option (list float))
        (res : option (list (list float)))
| C3Siid (pert : bool) (comps : list (Z * float)) (xs : list (list float)) (g : option (list float))
         (res : option (list (list float)))
| C3NegBin (r : float) (xs : list float) (g : option (list float)) (res : option float)
| C3Logreg      (* decided by the gradient certificate file of the shard (Coq-Interval) *)
| C3EmNormal (K : nat) (smin : float) (xs : list float) (eps : float) (max_steps : option nat) (trace : list hook).

Definition check3 (tab : exptab) (c : case3) : bool :=
  match c with
  | C3VNormal pert d smin xs g res => check_vnormal tab pert d smin xs g res
  | C3Sid pert comps xs g res => check_sid tab pert comps xs g res
  | C3Siid pert comps xs g res => check_siid tab pert comps xs g res
  | C3NegBin r xs g res => check_negbin tab r xs g res
  | C3Logreg => true
  | C3EmNormal K smin xs eps ms tr => check_em_normal tab K smin xs eps ms tr
  end.

Definition mism3 (tab : exptab) (cs : list case3) : list nat := mismatches (check3 tab) cs.
