(* C16 — facts about the executable model: the bookkeeping invariant of the EM
   driver loop (which likelihood is handed to which hook call), and the link from
   the carrier-generic closed forms (run in Q by the correspondence) to the
   specification's sums over R. *)
From Coq Require Import Reals List Lra Lia Bool.
From ADV Require Import Base.Num C16.Model C16.Spec C16.ProofsMax.
Import ListNotations.

(* ---------------- driver loop ---------------- *)
Section DriverFacts.
Context {P L : Type}.
Variables (ell : P -> L) (upd : P -> P).
Variables (lsubL : L -> L -> L) (conv : L -> bool).

(* Step computes the likelihood under the parameters it is started from and returns the updated ones *)
Definition step_of (th : P) : option (L * P) := Some (ell th, upd th).

Fixpoint iter_l (i : nat) (th : P) : P := match i with O => th | S j => iter_l j (upd th) end.

Lemma em_loop_spec fuel : forall k ms th lold hs thf ex,
  em_loop step_of lsubL conv fuel k ms th lold = (hs, thf, ex) ->
  forall i h, nth_error hs i = Some h ->
    h_iter h = S (k + i) /\ h_mix h = iter_l (S i) th /\ h_lik h = ell (iter_l i th) /\
    h_eps h = lsubL (ell (iter_l i th)) (match i with O => lold | S j => ell (iter_l j th) end).
Proof.
  induction fuel as [|fuel IH]; intros k ms th lold hs thf ex H i h Hn; simpl in H.
  - inversion H; subst. destruct i; discriminate.
  - destruct (match ms with None => false | Some ms0 => Nat.leb ms0 k end).
    + inversion H; subst. destruct i; discriminate.
    + unfold step_of in H; fold step_of in H.
      destruct (conv (lsubL (ell th) lold)) eqn:Hc.
      * inversion H; subst. destruct i as [|i]; simpl in Hn; [|destruct i; discriminate].
        inversion Hn; subst. simpl. rewrite Nat.add_0_r. repeat split; reflexivity.
      * destruct (em_loop step_of lsubL conv fuel (S k) ms (upd th) (ell th)) as [[hs' thf'] ex'] eqn:Hr.
        inversion H; subst. destruct i as [|i]; simpl in Hn.
        -- inversion Hn; subst. simpl. rewrite Nat.add_0_r. repeat split; reflexivity.
        -- destruct (IH _ _ _ _ _ _ _ Hr i h Hn) as (A & B & C & D).
           split; [rewrite A; f_equal; lia|]. split; [exact B|]. split; [exact C|].
           rewrite D. destruct i; reflexivity.
Qed.

(* the hook calls of the whole algorithm: call 0 carries the initial mixture; call t >= 1 carries the
   mixture after t updates, the iteration index t, and the likelihood of the mixture after t-1 updates *)
Theorem em_algorithm_hooks fuel nested ms th0 nanL neg_inf hs thf ex :
  em_algorithm step_of lsubL conv neg_inf nanL fuel nested ms th0 = (hs, thf, ex) ->
  forall t h, nth_error hs t = Some h ->
    h_iter h = t /\ h_mix h = iter_l t th0 /\
    (forall j, t = S j -> h_lik h = ell (iter_l j th0) /\
       h_eps h = lsubL (ell (iter_l j th0)) (match j with O => neg_inf | S j' => ell (iter_l j' th0) end)).
Proof.
  unfold em_algorithm. intros H t h Hn.
  destruct (em_loop step_of lsubL conv fuel 0 (if nested then Some 1%nat else ms) th0 neg_inf) as [[hs' thf'] ex'] eqn:Hr.
  inversion H; subst. destruct t as [|t]; simpl in Hn.
  - inversion Hn; subst. simpl. split; [reflexivity|]. split; [reflexivity|]. intros j Hj; discriminate.
  - destruct (em_loop_spec _ _ _ _ _ _ _ _ Hr t h Hn) as (A & B & C & D).
    split; [rewrite A; reflexivity|]. split; [exact B|]. intros j Hj. inversion Hj; subst. split; [exact C|exact D].
Qed.
End DriverFacts.

(* The reading "the likelihood handed to a hook call is the log-likelihood of the mixture handed to the same
   call" is refuted by the model (and by the code: finding F-EMHOOK-LAG): it belongs to the previous mixture. *)
Lemma hook_likelihood_of_same_call_refuted :
  exists (hs : list (hookcall (P:=nat) (L:=nat))) thf ex,
    em_algorithm (step_of (fun th => th) S) Nat.sub (fun _ => false) 0%nat 0%nat 3 false (Some 2%nat) 7%nat = (hs, thf, ex) /\
    exists h, nth_error hs 1 = Some h /\ h_lik h <> (fun th => th) (h_mix h).
Proof.
  eexists _, _, _. split; [vm_compute; reflexivity|]. eexists. split; [reflexivity|]. simpl. discriminate.
Qed.

(* ---------------- closed forms over R are the specification's sums ---------------- *)
Open Scope R_scope.
Lemma fold_lsum (f : R * R -> R) d a : fold_left (fun a p => a + f p) d a = a + lsum f d.
Proof. revert a. induction d as [|p r IH]; intros a; simpl; [lra|]. rewrite IH. lra. Qed.

Lemma cf_W_R d : cf_W NumR d = sumw d.
Proof. unfold cf_W, sumw. simpl. rewrite (fold_lsum (fun p => fst p)). lra. Qed.
Lemma cf_M_R d : cf_M NumR d = sumwx d.
Proof. unfold cf_M, sumwx. simpl. rewrite (fold_lsum (fun p => fst p * snd p)). lra. Qed.

(* the exponential closed form run by the correspondence is the constrained maximiser *)
Theorem cf_exponential_is_max lam_max d v :
  nonneg_w d -> nonneg_x d -> cf_exponential NumR lam_max d = Some v ->
  0 < v /\ v <= lam_max /\
  forall lam, 0 < lam -> lam <= lam_max -> ll_exponential d lam <= ll_exponential d v.
Proof.
  intros Hw Hx. unfold cf_exponential. rewrite cf_W_R, cf_M_R. simpl.
  pose proof (sumwx_nonneg d Hw Hx) as HM.
  destruct (Rleb (sumw d) 0) eqn:EW; [discriminate|].
  assert (HW : 0 < sumw d). { destruct (Rle_or_lt (sumw d) 0) as [Hc|Hc]; [apply Rleb_true in Hc; congruence|exact Hc]. }
  destruct (Rleb (sumwx d) 0) eqn:EM.
  - apply Rleb_true in EM. assert (HM0 : sumwx d = 0) by lra.
    destruct (Rleb lam_max 0) eqn:EL; [discriminate|]. intros E. injection E as Ev.
    assert (Hlm : 0 < lam_max). { destruct (Rle_or_lt lam_max 0) as [Hc|Hc]; [apply Rleb_true in Hc; congruence|exact Hc]. }
    rewrite <- Ev. split; [assumption|]. split; [lra|]. intros lam Hl Hle. apply exponential_max_degenerate; assumption.
  - assert (HMp : 0 < sumwx d). { destruct (Rle_or_lt (sumwx d) 0) as [Hc|Hc]; [apply Rleb_true in Hc; congruence|exact Hc]. }
    set (u := if Rltb lam_max (sumw d / sumwx d) then lam_max else sumw d / sumwx d).
    destruct (Rleb u 0) eqn:EU; [discriminate|]. intros E. injection E as Ev.
    assert (Hu : u = mle_exp_rate lam_max d).
    { unfold u, mle_exp_rate, Rmin. destruct (Rltb lam_max (sumw d / sumwx d)) eqn:El.
      - apply Rltb_true in El. destruct (Rle_dec (sumw d / sumwx d) lam_max); lra.
      - destruct (Rle_dec (sumw d / sumwx d) lam_max) as [|Hn]; [reflexivity|].
        exfalso. assert (Hlt : lam_max < sumw d / sumwx d) by lra. apply Rltb_true in Hlt. congruence. }
    assert (Hv : 0 < u). { destruct (Rle_or_lt u 0) as [Hc|Hc]; [apply Rleb_true in Hc; congruence|exact Hc]. }
    assert (Hvle : u <= lam_max). { rewrite Hu. unfold mle_exp_rate. apply Rmin_r. }
    rewrite <- Ev. split; [assumption|]. split; [assumption|].
    intros lam Hl Hle. rewrite Hu. apply exponential_max; try assumption. lra.
Qed.

(* ---------------- log-scale accumulation (LogAdd) computes linear sums over R ---------------- *)
Definition LOG1P_R (x : R) : R := ln (1 + x).
Definition lexpR (a : option R) : R := match a with None => 0 | Some x => exp x end.

Lemma logadd_R a b : lexpR (logadd NumR exp LOG1P_R a b) = lexpR a + lexpR b.
Proof.
  assert (core : forall x y, exp (y + LOG1P_R (exp (x - y))) = exp x + exp y).
  { intros x y. unfold LOG1P_R. rewrite exp_plus, exp_ln.
    - unfold Rminus. rewrite exp_plus, exp_Ropp. field. apply Rgt_not_eq, exp_pos.
    - pose proof (exp_pos (x - y)). lra. }
  unfold logadd. destruct a as [x|], b as [y|]; simpl.
  - destruct (Rltb y x); simpl; rewrite core; lra.
  - lra.
  - lra.
  - lra.
Qed.

Lemma logsum_R ts acc :
  lexpR (fold_left (logadd NumR exp LOG1P_R) ts acc) = lexpR acc + fold_right (fun t s => lexpR t + s) 0 ts.
Proof.
  revert acc. induction ts as [|t r IH]; intros acc; simpl; [lra|]. rewrite IH, logadd_R. lra.
Qed.
