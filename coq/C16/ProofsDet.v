(* C16 round 4 — the full-covariance statement for the vector normal estimator, EVERY dimension.

   Matrices are index functions nat -> nat -> R read on indices < d.  The log-determinant of a symmetric positive
   definite matrix is taken through a triangular factor: for T upper triangular with positive diagonal,
       det (T^t T) = det (T T^t) = prod_i T_ii^2,     ln det = sum_i 2 ln T_ii         ([logdet_tri]).
   Every symmetric positive definite matrix has both factorisations ([chol_upper_exists]: M = G G^t,
   [chol_std_exists]: M = U^t U, G and U upper triangular with positive diagonal — proved here by induction on
   the dimension through the Schur complement, no eigenvalues, no Leibniz determinant).

   Core inequality ([logdet_trace_ineq]):  for L = U^t U and S = G G^t
       ln det L + ln det S  <=  tr (L S) - d
   because tr (U^t U G G^t) = |U G|_F^2 >= sum_k (U G)_kk^2 = sum_k (U_kk G_kk)^2 (U G is upper triangular) and
   ln t <= t - 1 at t = (U_kk G_kk)^2. *)
From Coq Require Import Reals List Lra Lia Psatz Bool Arith.
From ADV Require Import Base.Num C16.Model C16.ModelVec C16.Spec C16.ProofsMax C16.ProofsEM C16.ProofsModel C16.ProofsVec.
Import ListNotations.
Open Scope R_scope.

Definition utri (d : nat) (G : nat -> nat -> R) : Prop := forall i j, (i < d)%nat -> (j < d)%nat -> (j < i)%nat -> G i j = 0.
Definition posdiag (d : nat) (G : nat -> nat -> R) : Prop := forall i, (i < d)%nat -> 0 < G i i.
Definition GGt (d : nat) (G : nat -> nat -> R) (i j : nat) : R := rsum d (fun k => G i k * G j k).   (* G G^t *)
Definition GtG (d : nat) (U : nat -> nat -> R) (i j : nat) : R := rsum d (fun k => U k i * U k j).   (* U^t U *)
Definition mmul (d : nat) (A B : nat -> nat -> R) (i j : nat) : R := rsum d (fun k => A i k * B k j).
Definition delta (i j : nat) : R := if Nat.eqb i j then 1 else 0.
(* ln det (T^t T) = ln det (T T^t) for a triangular T with positive diagonal *)
Definition logdet_tri (d : nat) (T : nat -> nat -> R) : R := rsum d (fun i => 2 * ln (T i i)).
Definition msym (d : nat) (M : nat -> nat -> R) : Prop := forall i j, (i < d)%nat -> (j < d)%nat -> M i j = M j i.
(* positive definite: strictly positive on every vector that is non-zero on the indices < d *)
Definition pdef (d : nat) (M : nat -> nat -> R) : Prop := forall u, (exists i, (i < d)%nat /\ u i <> 0) -> 0 < quad d M u.

(* ---------------- small sum lemmas ---------------- *)
Lemma rsum_single d f k : (k < d)%nat -> (forall i, (i < d)%nat -> i <> k -> f i = 0) -> rsum d f = f k.
Proof.
  induction d as [|d IH]; intros Hk Hz; [lia|]. simpl.
  destruct (Nat.eq_dec k d) as [->|Hne].
  - rewrite rsum_zero; [lra|]. intros i Hi. apply Hz; lia.
  - rewrite IH by (try lia; intros; apply Hz; lia). rewrite (Hz d) by lia. lra.
Qed.
Lemma rsum_const1 d : rsum d (fun _ => 1) = INR d.
Proof. induction d as [|d IH]; [reflexivity|]. rewrite S_INR. simpl. rewrite IH. reflexivity. Qed.
Lemma rsum_mul d e f g : rsum d f * rsum e g = rsum d (fun i => rsum e (fun j => f i * g j)).
Proof. rewrite <- rsum_scal_r. apply rsum_ext. intros i _. rewrite <- rsum_scal. reflexivity. Qed.
Lemma rsum_delta_r d f k : (k < d)%nat -> rsum d (fun i => f i * delta i k) = f k.
Proof.
  intros Hk. rewrite (rsum_single d _ k Hk).
  - unfold delta. rewrite Nat.eqb_refl. ring.
  - intros i _ Hne. unfold delta. destruct (Nat.eqb_spec i k); [contradiction|ring].
Qed.

Lemma trLS_ext d L S S' : (forall i j, (i < d)%nat -> (j < d)%nat -> S i j = S' i j) -> trLS d L S = trLS d L S'.
Proof. intros H. unfold trLS. apply rsum_ext. intros i Hi. apply rsum_ext. intros j Hj. rewrite H by assumption. reflexivity. Qed.
Lemma quad_ext d M u u' : (forall i, (i < d)%nat -> u i = u' i) -> quad d M u = quad d M u'.
Proof. intros H. unfold quad, bil. apply rsum_ext. intros i Hi. apply rsum_ext. intros j Hj. rewrite (H i Hi), (H j Hj). reflexivity. Qed.

(* ---------------- tr (U^t U G G^t) = |U G|_F^2 ---------------- *)
Lemma trace_factor d U G :
  trLS d (GtG d U) (GGt d G) = rsum d (fun k => rsum d (fun m => mmul d U G k m * mmul d U G k m)).
Proof.
  unfold trLS, GtG, GGt, mmul.
  set (T := fun i j k m : nat => U k i * U k j * G i m * G j m).
  transitivity (rsum d (fun i => rsum d (fun j => rsum d (fun k => rsum d (fun m => T i j k m))))).
  { apply rsum_ext. intros i _. apply rsum_ext. intros j _. rewrite rsum_mul.
    apply rsum_ext. intros k _. apply rsum_ext. intros m _. unfold T. ring. }
  transitivity (rsum d (fun k => rsum d (fun m => rsum d (fun i => rsum d (fun j => T i j k m))))).
  2:{ apply rsum_ext. intros k _. apply rsum_ext. intros m _. rewrite rsum_mul.
      apply rsum_ext. intros i _. apply rsum_ext. intros j _. unfold T. ring. }
  transitivity (rsum d (fun i => rsum d (fun k => rsum d (fun j => rsum d (fun m => T i j k m))))).
  { apply rsum_ext. intros i _. apply rsum_swap. }
  rewrite rsum_swap. apply rsum_ext. intros k _.
  transitivity (rsum d (fun i => rsum d (fun m => rsum d (fun j => T i j k m)))).
  { apply rsum_ext. intros i _. apply rsum_swap. }
  apply rsum_swap.
Qed.

(* the product of two upper triangular matrices has the product of the diagonals on its diagonal *)
Lemma mmul_tri_diag d U G k : utri d U -> utri d G -> (k < d)%nat -> mmul d U G k k = U k k * G k k.
Proof.
  intros HU HG Hk. unfold mmul. apply (rsum_single d (fun i => U k i * G i k) k Hk).
  intros i Hi Hne. destruct (Nat.lt_ge_cases i k) as [Hlt|Hge].
  - rewrite (HU k i Hk Hi Hlt). ring.
  - rewrite (HG i k Hi Hk) by lia. ring.
Qed.

(* ---------------- the log-det inequality, every dimension ---------------- *)
Theorem logdet_trace_ineq d U G :
  utri d U -> posdiag d U -> utri d G -> posdiag d G ->
  logdet_tri d U + logdet_tri d G <= trLS d (GtG d U) (GGt d G) - INR d.
Proof.
  intros HU HUp HG HGp. rewrite trace_factor.
  apply Rle_trans with (rsum d (fun k => (U k k * G k k) * (U k k * G k k)) - INR d).
  - unfold logdet_tri. rewrite <- rsum_plus, <- rsum_const1, <- rsum_minus. apply rsum_le. intros k Hk.
    pose proof (HUp k Hk) as Hu. pose proof (HGp k Hk) as Hg.
    assert (Ht : 0 < U k k * G k k) by (apply Rmult_lt_0_compat; assumption).
    pose proof (ln_le_sub1 ((U k k * G k k) * (U k k * G k k)) (Rmult_lt_0_compat _ _ Ht Ht)) as Hl.
    rewrite ln_mult in Hl by assumption. rewrite ln_mult in Hl by assumption. lra.
  - apply Rplus_le_compat_r. apply rsum_le. intros k Hk.
    rewrite <- (mmul_tri_diag d U G k HU HG Hk).
    apply (rsum_term_le d (fun m => mmul d U G k m * mmul d U G k m) k); [|exact Hk].
    intros m _. apply Rle_0_sqr.
Qed.

(* U^t U is positive semi-definite *)
Lemma quad_GtG d U u : quad d (GtG d U) u = rsum d (fun k => rsum d (fun i => U k i * u i) * rsum d (fun i => U k i * u i)).
Proof.
  unfold quad, bil, GtG.
  transitivity (rsum d (fun i => rsum d (fun j => rsum d (fun k => (U k i * u i) * (U k j * u j))))).
  { apply rsum_ext. intros i _. apply rsum_ext. intros j _.
    transitivity (rsum d (fun k => U k i * U k j) * (u i * u j)); [ring|]. rewrite <- rsum_scal_r.
    apply rsum_ext. intros k _. ring. }
  transitivity (rsum d (fun i => rsum d (fun k => rsum d (fun j => (U k i * u i) * (U k j * u j))))).
  { apply rsum_ext. intros i _. apply rsum_swap. }
  rewrite rsum_swap. apply rsum_ext. intros k _. rewrite rsum_mul. reflexivity.
Qed.
Lemma psd_GtG d U : psd d (GtG d U).
Proof. intros u. rewrite quad_GtG. apply rsum_nonneg. intros k _. apply Rle_0_sqr. Qed.

Lemma vcov_sym n w x i j : vcov n w x i j = vcov n w x j i.
Proof. unfold vcov. rewrite (Rmult_comm (vmean n w x i)). f_equal. f_equal. apply rsum_ext. intros l _. ring. Qed.

(* tr (L' S) = d when L' is a left inverse of the symmetric S *)
Lemma trace_of_inverse d L' S :
  msym d S -> (forall i k, (i < d)%nat -> (k < d)%nat -> mmul d L' S i k = delta i k) -> trLS d L' S = INR d.
Proof.
  intros Hs Hinv. unfold trLS. rewrite <- rsum_const1. apply rsum_ext. intros i Hi.
  transitivity (mmul d L' S i i).
  - unfold mmul. apply rsum_ext. intros j Hj. rewrite (Hs i j Hi Hj). reflexivity.
  - rewrite (Hinv i i Hi Hi). unfold delta. rewrite Nat.eqb_refl. reflexivity.
Qed.

(* ---------------- the full covariance theorem, given the factors ---------------- *)
(* candidate: mean mu, precision L = U^t U (U upper triangular, positive diagonal: the Cholesky factor of L), ln det L =
   logdet_tri U.  Estimate: weighted mean, moment matrix S = vcov = G G^t (so ln det S = logdet_tri G), precision L' a
   left inverse of S, ln det L' = - ln det S. *)
Theorem vnormal_full_max_factored n d w x U G L' mu :
  0 < rsum n w ->
  utri d U -> posdiag d U -> utri d G -> posdiag d G ->
  (forall i j, (i < d)%nat -> (j < d)%nat -> vcov n w x i j = GGt d G i j) ->
  (forall i k, (i < d)%nat -> (k < d)%nat -> mmul d L' (vcov n w x) i k = delta i k) ->
  vll n d w x (logdet_tri d U) (GtG d U) mu <= vll n d w x (- logdet_tri d G) L' (vmean n w x).
Proof.
  intros HW HU HUp HG HGp HS Hinv. apply vnormal_full_max_partial; [exact HW|apply psd_GtG|].
  rewrite (trace_of_inverse d L' (vcov n w x)); [|intros i j _ _; apply vcov_sym|exact Hinv].
  rewrite (trLS_ext d (GtG d U) (vcov n w x) (GGt d G) HS).
  pose proof (logdet_trace_ineq d U G HU HUp HG HGp). lra.
Qed.

(* ---------------- existence of the factors: Cholesky by induction on the dimension ---------------- *)
Lemma quad_last d M u :
  quad (S d) M u = quad d M u + u d * rsum d (fun i => (M i d + M d i) * u i) + M d d * u d * u d.
Proof.
  unfold quad, bil. simpl. rewrite rsum_plus.
  replace (u d * rsum d (fun i => (M i d + M d i) * u i))
    with (rsum d (fun i => u i * M i d * u d) + rsum d (fun j => u d * M d j * u j)).
  - ring.
  - rewrite <- rsum_scal, <- rsum_plus. apply rsum_ext. intros i _. ring.
Qed.

Lemma pdef_last_pos d M : pdef (S d) M -> 0 < M d d.
Proof.
  intros Hp. pose proof (Hp (fun i => delta i d)) as H.
  assert (E : quad (S d) M (fun i => delta i d) = M d d).
  { rewrite quad_last. rewrite (quad_ext d M _ (fun _ => 0)).
    - unfold quad. rewrite bil_zero_l. rewrite rsum_zero.
      + unfold delta. rewrite Nat.eqb_refl. ring.
      + intros i Hi. unfold delta. destruct (Nat.eqb_spec i d); [lia|ring].
    - intros i Hi. unfold delta. destruct (Nat.eqb_spec i d); [lia|reflexivity]. }
  rewrite <- E. apply H. exists d. split; [lia|]. unfold delta. rewrite Nat.eqb_refl. lra.
Qed.

(* Schur complement of the last diagonal entry *)
Definition schur (d : nat) (M : nat -> nat -> R) (i j : nat) : R := M i j - M i d * M j d / M d d.

Lemma quad_schur d M u : M d d <> 0 ->
  quad d (schur d M) u = quad d M u - rsum d (fun i => M i d * u i) * rsum d (fun i => M i d * u i) / M d d.
Proof.
  intros Ha. unfold quad, bil, schur.
  transitivity (rsum d (fun i => rsum d (fun j => u i * M i j * u j))
                - rsum d (fun i => rsum d (fun j => (M i d * u i) * (M j d * u j))) / M d d).
  - unfold Rdiv. rewrite <- rsum_scal_r, <- rsum_minus. apply rsum_ext. intros i _.
    rewrite <- rsum_scal_r, <- rsum_minus. apply rsum_ext. intros j _. field. exact Ha.
  - rewrite <- rsum_mul. reflexivity.
Qed.

Lemma schur_pdef d M : msym (S d) M -> pdef (S d) M -> msym d (schur d M) /\ pdef d (schur d M).
Proof.
  intros Hs Hp. pose proof (pdef_last_pos d M Hp) as Ha. split.
  - intros i j Hi Hj. unfold schur. rewrite (Hs i j) by lia. field. lra.
  - intros u (i0 & Hi0 & Hu).
    set (beta := rsum d (fun i => M i d * u i)).
    set (t := - beta / M d d).
    set (u' := fun i => if Nat.eqb i d then t else u i).
    assert (Eu : forall i, (i < d)%nat -> u' i = u i).
    { intros i Hi. unfold u'. destruct (Nat.eqb_spec i d); [lia|reflexivity]. }
    assert (Hq : 0 < quad (S d) M u').
    { apply Hp. exists i0. split; [lia|]. rewrite Eu by exact Hi0. exact Hu. }
    rewrite quad_last in Hq. rewrite (quad_ext d M u' u Eu) in Hq.
    assert (Ed : u' d = t) by (unfold u'; rewrite Nat.eqb_refl; reflexivity).
    assert (Es : rsum d (fun i => (M i d + M d i) * u' i) = 2 * beta).
    { unfold beta. rewrite <- rsum_scal. apply rsum_ext. intros i Hi. rewrite (Eu i Hi), (Hs d i) by lia. ring. }
    rewrite Ed, Es in Hq. rewrite quad_schur by lra. fold beta.
    replace (quad d M u - beta * beta / M d d) with (quad d M u + t * (2 * beta) + M d d * t * t); [exact Hq|].
    unfold t. field. lra.
Qed.

(* M = G G^t with G upper triangular, positive diagonal, together with a left inverse Gi of G (upper triangular) *)
Theorem chol_upper_exists d : forall M, msym d M -> pdef d M ->
  exists G Gi, utri d G /\ posdiag d G /\ utri d Gi /\
    (forall i j, (i < d)%nat -> (j < d)%nat -> M i j = GGt d G i j) /\
    (forall k m, (k < d)%nat -> (m < d)%nat -> mmul d Gi G k m = delta k m).
Proof.
  induction d as [|d IH]; intros M Hs Hp.
  - exists (fun _ _ => 0), (fun _ _ => 0). split; [|split; [|split; [|split]]]; intros i; intros; exfalso; lia.
  - pose proof (pdef_last_pos d M Hp) as Ha.
    destruct (schur_pdef d M Hs Hp) as [HsN HpN].
    destruct (IH (schur d M) HsN HpN) as (H & Hi & HHu & HHp & HHiu & HHf & HHinv).
    set (s := sqrt (M d d)).
    assert (Hs0 : 0 < s) by (apply sqrt_lt_R0; exact Ha).
    assert (Hss : s * s = M d d) by (apply sqrt_sqrt; lra).
    set (G := fun i j => if Nat.eqb j d then (if Nat.eqb i d then s else M i d / s)
                         else (if Nat.eqb i d then 0 else H i j)).
    set (Gi := fun i j => if Nat.eqb j d then (if Nat.eqb i d then / s else - rsum d (fun k => Hi i k * (M k d / s)) / s)
                          else (if Nat.eqb i d then 0 else Hi i j)).
    assert (Glt : forall i j, (i < d)%nat -> (j < d)%nat -> G i j = H i j).
    { intros i j Hi' Hj. unfold G. destruct (Nat.eqb_spec j d); [lia|]. destruct (Nat.eqb_spec i d); [lia|reflexivity]. }
    assert (Gid : forall i, (i < d)%nat -> G i d = M i d / s).
    { intros i Hi'. unfold G. rewrite Nat.eqb_refl. destruct (Nat.eqb_spec i d); [lia|reflexivity]. }
    assert (Gdj : forall j, (j < d)%nat -> G d j = 0).
    { intros j Hj. unfold G. rewrite Nat.eqb_refl. destruct (Nat.eqb_spec j d); [lia|reflexivity]. }
    assert (Gdd : G d d = s) by (unfold G; rewrite Nat.eqb_refl; reflexivity).
    assert (Gilt : forall i j, (i < d)%nat -> (j < d)%nat -> Gi i j = Hi i j).
    { intros i j Hi' Hj. unfold Gi. destruct (Nat.eqb_spec j d); [lia|]. destruct (Nat.eqb_spec i d); [lia|reflexivity]. }
    assert (Giid : forall i, (i < d)%nat -> Gi i d = - rsum d (fun k => Hi i k * (M k d / s)) / s).
    { intros i Hi'. unfold Gi. rewrite Nat.eqb_refl. destruct (Nat.eqb_spec i d); [lia|reflexivity]. }
    assert (Gidj : forall j, (j < d)%nat -> Gi d j = 0).
    { intros j Hj. unfold Gi. rewrite Nat.eqb_refl. destruct (Nat.eqb_spec j d); [lia|reflexivity]. }
    assert (Gidd : Gi d d = / s) by (unfold Gi; rewrite Nat.eqb_refl; reflexivity).
    exists G, Gi. split; [|split; [|split; [|split]]].
    + intros i j Hi' Hj Hji. destruct (Nat.eq_dec i d) as [->|Hne].
      * apply Gdj. lia.
      * rewrite Glt by lia. apply HHu; lia.
    + intros i Hi'. destruct (Nat.eq_dec i d) as [->|Hne]; [rewrite Gdd; exact Hs0|].
      rewrite Glt by lia. apply HHp. lia.
    + intros i j Hi' Hj Hji. destruct (Nat.eq_dec i d) as [->|Hne].
      * apply Gidj. lia.
      * rewrite Gilt by lia. apply HHiu; lia.
    + intros i j Hi' Hj. unfold GGt. simpl.
      destruct (Nat.eq_dec i d) as [->|Hni]; destruct (Nat.eq_dec j d) as [->|Hnj].
      * rewrite Gdd. rewrite rsum_zero; [lra|]. intros k Hk. rewrite Gdj by exact Hk. ring.
      * rewrite Gdd, Gid by lia. rewrite rsum_zero; [|intros k Hk; rewrite Gdj by exact Hk; ring].
        rewrite (Hs d j) by lia. field. lra.
      * rewrite Gdd, Gid by lia. rewrite rsum_zero; [|intros k Hk; rewrite (Gdj k) by exact Hk; ring].
        field. lra.
      * rewrite !Gid by lia.
        rewrite (rsum_ext d _ (fun k => H i k * H j k)) by (intros k Hk; rewrite !Glt by lia; reflexivity).
        pose proof (HHf i j ltac:(lia) ltac:(lia)) as E. unfold GGt in E. rewrite <- E. unfold schur.
        rewrite <- Hss. field. lra.
    + intros k m Hk Hm. unfold mmul. simpl.
      destruct (Nat.eq_dec k d) as [->|Hnk]; destruct (Nat.eq_dec m d) as [->|Hnm].
      * rewrite Gidd, Gdd. rewrite rsum_zero; [|intros i Hi'; rewrite Gidj by exact Hi'; ring].
        unfold delta. rewrite Nat.eqb_refl. field. lra.
      * rewrite Gdj by lia. rewrite rsum_zero; [|intros i Hi'; rewrite Gidj by exact Hi'; ring].
        unfold delta. destruct (Nat.eqb_spec d m); [lia|ring].
      * rewrite Giid, Gdd by lia.
        rewrite (rsum_ext d _ (fun i => Hi k i * (M i d / s))) by (intros i Hi'; rewrite Gilt, Gid by lia; reflexivity).
        unfold delta. destruct (Nat.eqb_spec k d); [lia|]. field. lra.
      * rewrite (Gdj m) by lia.
        rewrite (rsum_ext d _ (fun i => Hi k i * H i m)) by (intros i Hi'; rewrite Gilt, Glt by lia; reflexivity).
        pose proof (HHinv k m ltac:(lia) ltac:(lia)) as E. unfold mmul in E. rewrite E.
        unfold delta. destruct (Nat.eqb_spec k m); ring.
Qed.

(* the inverse factor has the inverse diagonal: ln det of Gi^t Gi is - ln det of G G^t *)
Lemma logdet_tri_inverse d G Gi :
  utri d G -> posdiag d G -> utri d Gi ->
  (forall k m, (k < d)%nat -> (m < d)%nat -> mmul d Gi G k m = delta k m) ->
  posdiag d Gi /\ logdet_tri d Gi = - logdet_tri d G.
Proof.
  intros HG HGp HGi Hinv.
  assert (E : forall k, (k < d)%nat -> Gi k k * G k k = 1).
  { intros k Hk. rewrite <- (mmul_tri_diag d Gi G k HGi HG Hk), (Hinv k k Hk Hk). unfold delta. rewrite Nat.eqb_refl. reflexivity. }
  assert (Hp : posdiag d Gi).
  { intros k Hk. pose proof (E k Hk) as Ek. pose proof (HGp k Hk) as Hg.
    destruct (Rle_or_lt (Gi k k) 0) as [Hle|Hlt]; [|exact Hlt]. nra. }
  split; [exact Hp|].
  unfold logdet_tri. transitivity (rsum d (fun i => -1 * (2 * ln (G i i)))); [|rewrite rsum_scal; lra].
  apply rsum_ext. intros k Hk.
  pose proof (E k Hk) as Ek. pose proof (HGp k Hk) as Hg. pose proof (Hp k Hk) as Hgi.
  assert (El : ln (Gi k k) + ln (G k k) = 0) by (rewrite <- ln_mult by assumption; rewrite Ek; apply ln_1).
  lra.
Qed.

(* tr (Gi^t Gi G G^t) = d *)
Lemma trace_inverse_factor d G Gi :
  (forall k m, (k < d)%nat -> (m < d)%nat -> mmul d Gi G k m = delta k m) -> trLS d (GtG d Gi) (GGt d G) = INR d.
Proof.
  intros Hinv. rewrite trace_factor. rewrite <- rsum_const1. apply rsum_ext. intros k Hk.
  rewrite (rsum_ext d _ (fun m => 1 * delta m k)).
  - rewrite (rsum_delta_r d (fun _ => 1) k Hk). reflexivity.
  - intros m Hm. rewrite (Hinv k m Hk Hm). unfold delta. rewrite (Nat.eqb_sym m k). destruct (Nat.eqb k m); ring.
Qed.

(* THE FULL COVARIANCE THEOREM, every dimension, every data set with a positive definite moment matrix:
   the moment matrix S = vcov has a factor G (S = G G^t) with inverse Gi; the estimate (weighted mean, covariance S,
   i.e. precision Gi^t Gi = S^-1 with ln det = logdet_tri Gi = - ln det S) beats every candidate (mu, precision U^t U). *)
Theorem vnormal_full_max n d w x :
  0 < rsum n w -> pdef d (vcov n w x) ->
  exists G Gi, utri d G /\ posdiag d G /\ utri d Gi /\ posdiag d Gi /\
    (forall i j, (i < d)%nat -> (j < d)%nat -> vcov n w x i j = GGt d G i j) /\
    (forall k m, (k < d)%nat -> (m < d)%nat -> mmul d Gi G k m = delta k m) /\
    forall U mu, utri d U -> posdiag d U ->
      vll n d w x (logdet_tri d U) (GtG d U) mu <= vll n d w x (logdet_tri d Gi) (GtG d Gi) (vmean n w x).
Proof.
  intros HW Hpd.
  destruct (chol_upper_exists d (vcov n w x)) as (G & Gi & HG & HGp & HGi & HS & Hinv);
    [intros i j _ _; apply vcov_sym|exact Hpd|].
  destruct (logdet_tri_inverse d G Gi HG HGp HGi Hinv) as [HGip Hld].
  exists G, Gi. repeat (split; [assumption|]).
  intros U mu HU HUp. apply vnormal_full_max_partial; [exact HW|apply psd_GtG|].
  rewrite (trLS_ext d (GtG d U) (vcov n w x) (GGt d G) HS), (trLS_ext d (GtG d Gi) (vcov n w x) (GGt d G) HS).
  rewrite (trace_inverse_factor d G Gi Hinv), Hld.
  pose proof (logdet_trace_ineq d U G HU HUp HG HGp). lra.
Qed.

(* ---------------- every symmetric positive definite precision matrix is U^t U ---------------- *)
Lemma rsum_shift0 n g : rsum (S n) g = g 0%nat + rsum n (fun t => g (S t)).
Proof.
  induction n as [|n IH]; [simpl; lra|].
  change (rsum (S (S n)) g) with (rsum (S n) g + g (S n)). rewrite IH. simpl. lra.
Qed.
Lemma rsum_rev d f : rsum d f = rsum d (fun i => f (d - 1 - i)%nat).
Proof.
  induction d as [|d IH]; [reflexivity|].
  rewrite (rsum_shift0 d (fun i => f (S d - 1 - i)%nat)). simpl rsum at 1.
  replace (S d - 1 - 0)%nat with d by lia.
  rewrite (rsum_ext d (fun t => f (S d - 1 - S t)%nat) (fun t => f (d - 1 - t)%nat)) by (intros t Ht; f_equal; lia).
  rewrite <- IH. lra.
Qed.

Theorem chol_std_exists d L : msym d L -> pdef d L ->
  exists U, utri d U /\ posdiag d U /\ forall i j, (i < d)%nat -> (j < d)%nat -> L i j = GtG d U i j.
Proof.
  intros Hs Hp.
  set (rv := fun i => (d - 1 - i)%nat).
  assert (Hrr : forall i, (i < d)%nat -> rv (rv i) = i) by (intros i Hi; unfold rv; lia).
  assert (Hrl : forall i, (i < d)%nat -> (rv i < d)%nat) by (intros i Hi; unfold rv; lia).
  set (Lr := fun i j => L (rv i) (rv j)).
  assert (HsR : msym d Lr) by (intros i j Hi Hj; unfold Lr; apply Hs; apply Hrl; assumption).
  assert (HpR : pdef d Lr).
  { intros u (i0 & Hi0 & Hu).
    assert (E : quad d Lr u = quad d L (fun i => u (rv i))).
    { unfold quad, bil. rewrite (rsum_rev d (fun i => rsum d (fun j => u (rv i) * L i j * u (rv j)))).
      apply rsum_ext. intros i Hi.
      rewrite (rsum_rev d (fun j => u (rv (d - 1 - i)%nat) * L (d - 1 - i)%nat j * u (rv j))).
      apply rsum_ext. intros j Hj. fold (rv i). fold (rv j). rewrite (Hrr i Hi), (Hrr j Hj). reflexivity. }
    rewrite E. apply Hp. exists (rv i0). split; [apply Hrl; exact Hi0|]. rewrite Hrr by exact Hi0. exact Hu. }
  destruct (chol_upper_exists d Lr HsR HpR) as (G & _ & HG & HGp & _ & HF & _).
  exists (fun k i => G (rv i) (rv k)). split; [|split].
  - intros k i Hk Hi Hik. apply HG; try (apply Hrl; assumption). unfold rv. lia.
  - intros k Hk. apply HGp. apply Hrl. exact Hk.
  - intros i j Hi Hj. unfold GtG.
    rewrite (rsum_rev d (fun k => G (rv i) (rv k) * G (rv j) (rv k))).
    pose proof (HF (rv i) (rv j) (Hrl i Hi) (Hrl j Hj)) as E. unfold Lr, GGt in E. rewrite (Hrr i Hi), (Hrr j Hj) in E.
    rewrite E. apply rsum_ext. intros k Hk. fold (rv k). rewrite (Hrr k Hk). reflexivity.
Qed.

Lemma vll_ext_L n d w x ld L L' mu :
  (forall i j, (i < d)%nat -> (j < d)%nat -> L i j = L' i j) -> vll n d w x ld L mu = vll n d w x ld L' mu.
Proof.
  intros H. unfold vll, quad, bil. apply rsum_ext. intros l _. f_equal. f_equal. f_equal.
  apply rsum_ext. intros i Hi. apply rsum_ext. intros j Hj. rewrite (H i j Hi Hj). reflexivity.
Qed.

(* the same with the candidate given as ANY symmetric positive definite precision matrix L: it has a Cholesky factor U
   (L = U^t U on the indices < d), and with ln det L read off that factor the candidate loses against the estimate *)
Theorem vnormal_full_max_spd n d w x :
  0 < rsum n w -> pdef d (vcov n w x) ->
  exists G Gi, utri d G /\ posdiag d G /\ utri d Gi /\ posdiag d Gi /\
    (forall i j, (i < d)%nat -> (j < d)%nat -> vcov n w x i j = GGt d G i j) /\
    (forall k m, (k < d)%nat -> (m < d)%nat -> mmul d Gi G k m = delta k m) /\
    forall L mu, msym d L -> pdef d L ->
      exists U, utri d U /\ posdiag d U /\ (forall i j, (i < d)%nat -> (j < d)%nat -> L i j = GtG d U i j) /\
        vll n d w x (logdet_tri d U) L mu <= vll n d w x (logdet_tri d Gi) (GtG d Gi) (vmean n w x).
Proof.
  intros HW Hpd. destruct (vnormal_full_max n d w x HW Hpd) as (G & Gi & H1 & H2 & H3 & H4 & H5 & H6 & Hmax).
  exists G, Gi. repeat (split; [assumption|]).
  intros L mu HLs HLp. destruct (chol_std_exists d L HLs HLp) as (U & HU & HUp & HLU).
  exists U. repeat (split; [assumption|]).
  rewrite (vll_ext_L n d w x (logdet_tri d U) L (GtG d U) mu HLU). apply Hmax; assumption.
Qed.

(* ---------------- the SigmaMin clamp of vectorEstimator/normal.go: where it IS the constrained maximiser ------------- *)
(* the matrix estimateParameters returns, index form: the moment matrix with diagonal entries below SigmaMin (or NaN; no NaN
   over R) overwritten by SigmaMin — [vn_clamp] at R is Rmax *)
Definition vn_returned (smin : R) (S : nat -> nat -> R) (i j : nat) : R := if Nat.eqb i j then Rmax (S i i) smin else S i j.

Lemma vn_clamp_R smin s : vn_clamp NumR smin s = Rmax s smin.
Proof.
  unfold vn_clamp. simpl. unfold Rltb, Rmax. destruct (Rlt_dec s smin) as [H|H]; destruct (Rle_dec s smin) as [H'|H']; try reflexivity; lra.
Qed.

(* (a) clamp inactive (every diagonal entry of the moment matrix is >= SigmaMin): the returned matrix IS the moment matrix,
   which by [vnormal_full_max] is the unconstrained — hence also the constrained — maximiser among ALL positive definite
   covariances, every dimension *)
Lemma vn_returned_inactive d smin S :
  (forall i, (i < d)%nat -> smin <= S i i) -> forall i j, (i < d)%nat -> (j < d)%nat -> vn_returned smin S i j = S i j.
Proof.
  intros H i j Hi Hj. unfold vn_returned. destruct (Nat.eqb_spec i j) as [->|Hne]; [|reflexivity].
  apply Rmax_left. apply H. exact Hj.
Qed.

Theorem vnormal_clamp_inactive_max n d w x smin :
  0 < rsum n w -> (forall i, (i < d)%nat -> smin <= vcov n w x i i) -> pdef d (vn_returned smin (vcov n w x)) ->
  exists G Gi, utri d G /\ posdiag d G /\ utri d Gi /\ posdiag d Gi /\
    (forall i j, (i < d)%nat -> (j < d)%nat -> vn_returned smin (vcov n w x) i j = GGt d G i j) /\
    (forall k m, (k < d)%nat -> (m < d)%nat -> mmul d Gi G k m = delta k m) /\
    forall U mu, utri d U -> posdiag d U ->
      vll n d w x (logdet_tri d U) (GtG d U) mu <= vll n d w x (logdet_tri d Gi) (GtG d Gi) (vmean n w x).
Proof.
  intros HW Hin Hpd.
  assert (Hpd' : pdef d (vcov n w x)).
  { intros u Hu. pose proof (Hpd u Hu) as H. unfold quad, bil in *.
    erewrite rsum_ext; [exact H|]. intros i Hi. apply rsum_ext. intros j Hj. cbv beta.
    rewrite (vn_returned_inactive d smin (vcov n w x) Hin i j Hi Hj). reflexivity. }
  destruct (vnormal_full_max n d w x HW Hpd') as (G & Gi & H1 & H2 & H3 & H4 & H5 & H6 & Hmax).
  exists G, Gi. repeat (split; [assumption|]). split; [|split; [exact H6|exact Hmax]].
  intros i j Hi Hj. rewrite (vn_returned_inactive d smin (vcov n w x) Hin i j Hi Hj). apply H5; assumption.
Qed.

(* (b) diagonal moment matrix (uncorrelated coordinates): the returned matrix is diagonal with entries max(S_ii, SigmaMin), the
   point that [vnormal_diagonal_max] proves optimal among all DIAGONAL covariances with v_i >= SigmaMin (for any data).
   Optimality of that point against correlated competitors with Sigma_ii >= SigmaMin is not proved; with a non-diagonal
   moment matrix and an active clamp it is false ([vnormal_clamp_refuted]). *)
Theorem vnormal_clamp_diagonal_max n d w x smin :
  (forall l, (l < n)%nat -> 0 <= w l) -> 0 < rsum n w -> 0 <= smin ->
  (forall i j, (i < d)%nat -> (j < d)%nat -> i <> j -> vcov n w x i j = 0) ->
  (forall i, (i < d)%nat -> 0 < Rmax (vcov n w x i i) smin) ->
  (forall i j, (i < d)%nat -> (j < d)%nat -> i <> j -> vn_returned smin (vcov n w x) i j = 0) /\
  forall mu v, (forall i, (i < d)%nat -> 0 < v i /\ smin <= v i) ->
    vll_diag n d w x mu v <= vll_diag n d w x (vmean n w x) (fun i => vn_returned smin (vcov n w x) i i).
Proof.
  intros Hw HW Hs Hdiag Hpos. split.
  - intros i j Hi Hj Hne. unfold vn_returned. destruct (Nat.eqb_spec i j); [contradiction|]. apply Hdiag; assumption.
  - intros mu v Hv.
    apply Rle_trans with (vll_diag n d w x (vmean n w x) (fun i => Rmax (vcov n w x i i) smin)).
    + apply vnormal_diagonal_max; assumption.
    + right. unfold vll_diag. apply rsum_ext. intros i _. unfold vn_returned. rewrite Nat.eqb_refl. reflexivity.
Qed.
