(* C16 round 5 — proofs about nested EM estimators on summarised data (ModelNest.v). *)
From Coq Require Import Reals List Lra Lia Arith Bool.
From ADV Require Import Base.Num C16.Model C16.ModelNest C16.Spec C16.ProofsEM C16.ProofsBW.
Import ListNotations.
Open Scope R_scope.

(* ---------------- the summary (any element type, any SOUND key equality) ---------------- *)
Section SummaryCorrect.
Context {X : Type} (eqbX : X -> X -> bool).
Hypothesis eqb_sound : forall a b, eqbX a b = true -> a = b.

Lemma summ_lookup_some v vals i d : summ_lookup eqbX v vals = Some i -> (i < length vals)%nat /\ nth i vals d = v.
Proof.
  revert i. induction vals as [|u r IH]; intros i H; simpl in H; [discriminate|].
  destruct (eqbX u v) eqn:E.
  - inversion H; subst. simpl. split; [lia|apply eqb_sound; exact E].
  - destruct (summ_lookup eqbX v r) as [j|] eqn:L; simpl in H; [|discriminate].
    inversion H; subst. destruct (IH j eq_refl) as [H1 H2]. simpl. split; [lia|exact H2].
Qed.

Lemma summ_idx_spec d : forall xs vals is vs, summ_idx eqbX xs vals = (is, vs) ->
  (exists ext, vs = vals ++ ext) /\ length is = length xs /\
  forall l, (l < length xs)%nat -> (nth l is O < length vs)%nat /\ nth (nth l is O) vs d = nth l xs d.
Proof.
  induction xs as [|x r IH]; intros vals is vs H; simpl in H.
  - inversion H; subst. split; [exists []; rewrite app_nil_r; reflexivity|]. split; [reflexivity|]. intros l Hl; simpl in Hl; lia.
  - destruct (summ_lookup eqbX x vals) as [i|] eqn:L.
    + destruct (summ_idx eqbX r vals) as [is' vs'] eqn:R. inversion H; subst.
      destruct (IH vals is' vs R) as ((ext & He) & Hlen & Hn).
      destruct (summ_lookup_some x vals i d L) as [Hi Hv].
      split; [exists ext; exact He|]. split; [simpl; lia|].
      intros [|l] Hl; simpl.
      * subst vs. rewrite app_length. split; [lia|]. rewrite app_nth1 by exact Hi. exact Hv.
      * apply Hn. simpl in Hl. lia.
    + destruct (summ_idx eqbX r (vals ++ [x])) as [is' vs'] eqn:R. inversion H; subst.
      destruct (IH (vals ++ [x]) is' vs R) as ((ext & He) & Hlen & Hn).
      split; [exists ([x] ++ ext); rewrite He, <- app_assoc; reflexivity|]. split; [simpl; lia|].
      intros [|l] Hl; simpl.
      * subst vs. rewrite !app_length. simpl. split; [lia|].
        rewrite <- app_assoc. rewrite app_nth2 by lia. rewrite Nat.sub_diag. reflexivity.
      * apply Hn. simpl in Hl. lia.
Qed.

(* every observation is the unique value its index points to *)
Theorem summary_is_sound xs d :
  length (summ_index eqbX xs) = length xs /\
  forall l, (l < length xs)%nat ->
    (nth l (summ_index eqbX xs) O < length (summ_values eqbX xs))%nat /\
    nth (nth l (summ_index eqbX xs) O) (summ_values eqbX xs) d = nth l xs d.
Proof.
  unfold summ_index, summ_values. destruct (summ_idx eqbX xs []) as [is vs] eqn:E.
  destruct (summ_idx_spec d xs [] is vs E) as (_ & H1 & H2). simpl. split; assumption.
Qed.
End SummaryCorrect.

(* ---------------- regrouping a sum over observations by unique value ---------------- *)
Definition aggR := agg NumR.
Lemma aggR_eq n idx w u : aggR n idx w u = rsum n (fun l => if Nat.eqb (idx l) u then w l else 0).
Proof. unfold aggR, agg. rewrite gsum_R. reflexivity. Qed.

Lemma delta_sum m a (cst : R) (G : nat -> R) : (a < m)%nat ->
  rsum m (fun u => (if Nat.eqb a u then cst else 0) * G u) = cst * G a.
Proof.
  induction m as [|m IH]; intros Ha; [lia|]. simpl.
  destruct (Nat.eq_dec a m) as [->|Hne].
  - rewrite Nat.eqb_refl. rewrite rsum_zero; [lra|].
    intros u Hu. cbv beta. replace (Nat.eqb m u) with false by (symmetry; apply Nat.eqb_neq; lia). lra.
  - replace (Nat.eqb a m) with false by (symmetry; apply Nat.eqb_neq; exact Hne). rewrite IH by lia. lra.
Qed.

Theorem regroup n m idx (w F : nat -> R) : (forall l, (l < n)%nat -> (idx l < m)%nat) ->
  rsum n (fun l => w l * F (idx l)) = rsum m (fun u => aggR n idx w u * F u).
Proof.
  intros Hidx.
  transitivity (rsum m (fun u => rsum n (fun l => (if Nat.eqb (idx l) u then w l else 0) * F u))).
  - rewrite (rsum_swap m n (fun u l => (if Nat.eqb (idx l) u then w l else 0) * F u)).
    apply rsum_ext. intros l Hl. cbv beta. symmetry. apply delta_sum. apply Hidx; exact Hl.
  - apply rsum_ext. intros u Hu. cbv beta. rewrite aggR_eq. rewrite rsum_scal_r. reflexivity.
Qed.

Lemma aggR_nonneg n idx w u : (forall l, (l < n)%nat -> 0 <= w l) -> 0 <= aggR n idx w u.
Proof.
  intros Hw. rewrite aggR_eq. apply rsum_nonneg. intros l Hl. cbv beta. destruct (Nat.eqb (idx l) u); [apply Hw; exact Hl|lra].
Qed.

(* with all weights 1 the aggregated weight is the count *)
Lemma aggR_ones_is_count n idx u :
  aggR n idx (fun _ => 1) u = INR (count_occ Nat.eq_dec (map idx (seq 0 n)) u).
Proof.
  rewrite aggR_eq. induction n as [|n IH]; [reflexivity|].
  rewrite seq_S, map_app, count_occ_app. simpl rsum. rewrite IH, plus_INR. simpl.
  destruct (Nat.eq_dec (idx n) u) as [E|E].
  - rewrite E, Nat.eqb_refl. simpl. lra.
  - replace (Nat.eqb (idx n) u) with false by (symmetry; apply Nat.eqb_neq; exact E). simpl. lra.
Qed.

(* ---------------- summarised E-/M-step = unsummarised E-/M-step ---------------- *)
Section Summarised.
Context {X : Type}.
Variables (n m : nat) (x v : nat -> X) (idx : nat -> nat).
Hypothesis Hidx : forall l, (l < n)%nat -> (idx l < m)%nat.
Hypothesis Hval : forall l, (l < n)%nat -> x l = v (idx l).
Variables (K : nat) (pi : nat -> R) (phi : nat -> X -> R) (w : nat -> R).

Let f := fun k l => phi k (x l).        (* densities per observation *)
Let fs := fun k u => phi k (v u).       (* densities per unique value *)
Let ws := aggR n idx w.                 (* aggregated weights *)

Lemma mix_summ l : (l < n)%nat -> mix K pi f l = mix K pi fs (idx l).
Proof. intros Hl. unfold mix, f, fs. rewrite (Hval l Hl). reflexivity. Qed.

(* any responsibility-weighted statistic T (T = 1: responsibility sums; T = value: Poisson / normal means;
   T = value^2; T = indicator of a category ...) *)
Theorem stat_summ k (T : X -> R) :
  rsum n (fun l => resp K w pi f k l * T (x l)) = rsum m (fun u => resp K ws pi fs k u * T (v u)).
Proof.
  set (G := fun u => pi k * fs k u / mix K pi fs u * T (v u)).
  transitivity (rsum n (fun l => w l * G (idx l))).
  - apply rsum_ext. intros l Hl. unfold G. cbv beta. unfold resp. rewrite (mix_summ l Hl). unfold f, fs. rewrite (Hval l Hl). ring.
  - rewrite (regroup n m idx w G Hidx). apply rsum_ext. intros u Hu. unfold G. cbv beta. unfold resp, ws. ring.
Qed.

Theorem resp_sum_summ k : resp_sum n K w pi f k = resp_sum m K ws pi fs k.
Proof.
  unfold resp_sum. pose proof (stat_summ k (fun _ => 1)) as H.
  erewrite rsum_ext; [erewrite (rsum_ext m); [exact H|]|]; intros; cbv beta; ring.
Qed.

Theorem new_pi_summ k : new_pi n K w pi f k = new_pi m K ws pi fs k.
Proof.
  unfold new_pi. rewrite resp_sum_summ.
  replace (rsum K (fun j => resp_sum n K w pi f j)) with (rsum K (fun j => resp_sum m K ws pi fs j)); [reflexivity|].
  apply rsum_ext. intros j Hj. symmetry. apply resp_sum_summ.
Qed.

Theorem loglik_summ : loglik n K w pi f = loglik m K ws pi fs.
Proof.
  unfold loglik.
  set (G := fun u => ln (mix K pi fs u)).
  transitivity (rsum n (fun l => w l * G (idx l))).
  - apply rsum_ext. intros l Hl. unfold G. cbv beta. rewrite (mix_summ l Hl). reflexivity.
  - rewrite (regroup n m idx w G Hidx). reflexivity.
Qed.

(* the component log-likelihood the leaf M-steps maximise, for any candidate leaf density psi *)
Theorem comp_ll_summ k (psi : X -> R) :
  comp_ll n (resp K w pi f k) (fun l => psi (x l)) = comp_ll m (resp K ws pi fs k) (fun u => psi (v u)).
Proof. unfold comp_ll. exact (stat_summ k (fun y => ln (psi y))). Qed.

(* NESTED: the weights a summarised outer E-step hands to the estimator of component k (indexed by unique
   value, log counts included) are the correctly aggregated per-observation responsibilities *)
Theorem nested_weights_are_aggregated k u : (u < m)%nat ->
  resp K ws pi fs k u = aggR n idx (resp K w pi f k) u.
Proof.
  intros Hu. rewrite aggR_eq.
  transitivity (rsum n (fun l => (if Nat.eqb (idx l) u then w l else 0) * (pi k * fs k u / mix K pi fs u))).
  - rewrite rsum_scal_r. unfold resp, ws. rewrite aggR_eq. reflexivity.
  - apply rsum_ext. intros l Hl. cbv beta. destruct (Nat.eqb (idx l) u) eqn:E; [|ring].
    apply Nat.eqb_eq in E. unfold resp. rewrite (mix_summ l Hl). unfold f, fs. rewrite (Hval l Hl), E. ring.
Qed.
End Summarised.

(* the inner level of a nested estimator: statistics of the INNER responsibilities (inner mixture of component k with Kin leaves,
   weights pin, leaf densities phin j) computed on the summary with the weights the summarised outer E-step hands down
   equal the ones computed observation by observation *)
Lemma stat_ext_c m K (c c' : nat -> R) pi f k (G : nat -> R) : (forall u, (u < m)%nat -> c u = c' u) ->
  rsum m (fun u => resp K c pi f k u * G u) = rsum m (fun u => resp K c' pi f k u * G u).
Proof. intros H. apply rsum_ext. intros u Hu. cbv beta. unfold resp. rewrite (H u Hu). reflexivity. Qed.

Theorem nested_stat_summ {X : Type} n m (x v : nat -> X) idx :
  (forall l, (l < n)%nat -> (idx l < m)%nat) -> (forall l, (l < n)%nat -> x l = v (idx l)) ->
  forall K pi (phi : nat -> X -> R) w Kin pin (phin : nat -> X -> R) k j (T : X -> R),
  rsum n (fun l => resp Kin (resp K w pi (fun k l => phi k (x l)) k) pin (fun j l => phin j (x l)) j l * T (x l))
  = rsum m (fun u => resp Kin (resp K (aggR n idx w) pi (fun k u => phi k (v u)) k) pin (fun j u => phin j (v u)) j u * T (v u)).
Proof.
  intros Hidx Hval K pi phi w Kin pin phin k j T.
  rewrite (stat_summ n m x v idx Hidx Hval Kin pin phin (resp K w pi (fun k l => phi k (x l)) k) j T).
  apply stat_ext_c. intros u Hu. symmetry. apply (nested_weights_are_aggregated n m x v idx Hval). exact Hu.
Qed.

(* ---------------- what the guard excludes ---------------- *)
(* observations a, a, b (index 0, 0, 1; counts 2, 1) with outer weights 1, 0, 1: the aggregated weights of the two
   unique values are 1, 1; reading the per-observation weights at the unique index gives 2, 0 *)
Lemma misindexed_refuted :
  let idx := fun l => match l with 2%nat => 1%nat | _ => 0%nat end in
  let w := fun l => match l with 1%nat => 0 | _ => 1 end in
  let cnt := aggR 3 idx (fun _ => 1) in
  aggR 3 idx w 0 = 1 /\ aggR 3 idx w 1 = 1 /\
  misindexed NumR cnt w 0 = 2 /\ misindexed NumR cnt w 1 = 0.
Proof. cbv zeta. unfold misindexed. rewrite !aggR_eq. simpl. repeat split; lra. Qed.

(* ---------------- the guard ---------------- *)
Lemma refuses_summarised_nested cs : refuses true (NMix true cs) = true.
Proof. reflexivity. Qed.
Lemma refuses_mix_inv nested s cs : refuses nested (NMix s cs) = false ->
  (s && nested = false)%bool /\ forall e, In e cs -> refuses true e = false.
Proof.
  simpl. intros H. apply orb_false_iff in H. destruct H as [H1 H2]. split; [exact H1|].
  intros e He. destruct (refuses true e) eqn:E; [|reflexivity].
  assert (existsb (refuses true) cs = true) by (apply existsb_exists; exists e; split; assumption). congruence.
Qed.
Lemma plain_never_refuses : forall e nested, refuses nested (plain e) = false.
Proof.
  fix IH 1. intros [|s cs] nested; [reflexivity|]. simpl.
  induction cs as [|e r IHr]; [reflexivity|]. simpl. rewrite IH. exact IHr.
Qed.

(* ---------------- nested EM ascent: mixture of mixtures ---------------- *)
Lemma g_mix_R K pi f l : g_mix NumR K pi f l = mix K pi f l.
Proof. unfold g_mix. rewrite gsum_R. reflexivity. Qed.
Lemma g_resp_R K c pi f k l : g_resp NumR K c pi f k l = resp K c pi f k l.
Proof. unfold g_resp, resp. rewrite g_mix_R. reflexivity. Qed.
Lemma g_new_pi_R n K c pi f k : g_new_pi NumR n K c pi f k = new_pi n K c pi f k.
Proof.
  unfold g_new_pi, new_pi.
  assert (E : forall j, g_resp_sum NumR n K c pi f j = resp_sum n K c pi f j).
  { intros j. unfold g_resp_sum, resp_sum. rewrite gsum_R. apply rsum_ext. intros; apply g_resp_R. }
  rewrite (E k), gsum_R.
  rewrite (rsum_ext K (fun j => g_resp_sum NumR n K c pi f j) (fun j => resp_sum n K c pi f j)); [reflexivity|].
  intros j Hj. apply E.
Qed.

Section NestedAscent.
Variables (n K : nat) (c pi pi' : nat -> R).
Variables (Kin : nat -> nat) (pin pin' : nat -> nat -> R) (fin fin' : nat -> nat -> nat -> R).
Let f := fun k l => mix (Kin k) (pin k) (fin k) l.
Let f' := fun k l => mix (Kin k) (pin' k) (fin' k) l.
Let r := resp K c pi f.                                   (* outer responsibilities *)
Let rin := fun k => resp (Kin k) (r k) (pin k) (fin k).   (* inner responsibilities of component k *)

Hypothesis Hc : forall l, (l < n)%nat -> 0 <= c l.
Hypothesis Hpi : forall k, (k < K)%nat -> 0 <= pi k.
Hypothesis Hpi1 : rsum K pi <= 1.
Hypothesis Hpin : forall k j, (k < K)%nat -> (j < Kin k)%nat -> 0 <= pin k j.
Hypothesis Hpin1 : forall k, (k < K)%nat -> rsum (Kin k) (pin k) <= 1.
Hypothesis Hfin : forall k j l, (k < K)%nat -> (j < Kin k)%nat -> (l < n)%nat -> 0 <= fin k j l.
Hypothesis Hfin' : forall k j l, (k < K)%nat -> (j < Kin k)%nat -> (l < n)%nat -> 0 <= fin' k j l.
(* every inner mixture has positive density on every datum (otherwise its EvaluateLogPdf returns an error) *)
Hypothesis Hmixin : forall k l, (k < K)%nat -> (l < n)%nat -> 0 < f k l.
Hypothesis Hmix : forall l, (l < n)%nat -> 0 < mix K pi f l.
Hypothesis Hmass : 0 < rsum K (resp_sum n K c pi f).
Hypothesis Hmassin : forall k, (k < K)%nat -> 0 < rsum (Kin k) (resp_sum n (Kin k) (r k) (pin k) (fin k)).
(* outer and inner weight updates as coded *)
Hypothesis Hnew : forall k, (k < K)%nat -> pi' k = new_pi n K c pi f k.
Hypothesis Hnewin : forall k j, (k < K)%nat -> (j < Kin k)%nat -> pin' k j = new_pi n (Kin k) (r k) (pin k) (fin k) j.
(* leaves: exact M-steps with the INNER responsibilities as weights *)
Hypothesis Hsupp : forall k j l, (k < K)%nat -> (j < Kin k)%nat -> (l < n)%nat -> 0 < rin k j l -> 0 < fin' k j l.
Hypothesis Hleaf : forall k j, (k < K)%nat -> (j < Kin k)%nat ->
  comp_ll n (rin k j) (fin k j) <= comp_ll n (rin k j) (fin' k j).

Lemma outer_r_nonneg k l : (k < K)%nat -> (l < n)%nat -> 0 <= r k l.
Proof.
  intros Hk Hl. apply (r_nonneg n K c pi f); try assumption.
  intros k0 l0 Hk0 Hl0. left. apply Hmixin; assumption.
Qed.

(* one inner EM step with the outer responsibilities as weights does not decrease the component's weighted log-likelihood *)
Lemma inner_ascent k : (k < K)%nat -> comp_ll n (r k) (f k) <= comp_ll n (r k) (f' k).
Proof.
  intros Hk.
  change (loglik n (Kin k) (r k) (pin k) (fin k) <= loglik n (Kin k) (r k) (pin' k) (fin' k)).
  apply em_ascent_main.
  - intros l Hl. apply outer_r_nonneg; assumption.
  - intros j Hj. apply Hpin; assumption.
  - apply Hpin1; assumption.
  - intros j l Hj Hl. apply Hfin; assumption.
  - intros j l Hj Hl. apply Hfin'; assumption.
  - intros l Hl. apply Hmixin; assumption.
  - apply Hmassin; assumption.
  - intros j Hj. apply Hnewin; assumption.
  - intros j l Hj Hl. apply Hsupp; assumption.
  - intros j Hj. apply Hleaf; assumption.
Qed.

Lemma inner_support k l : (k < K)%nat -> (l < n)%nat -> 0 < r k l -> 0 < f' k l.
Proof.
  intros Hk Hl Hr.
  assert (Hrn : forall l0, (l0 < n)%nat -> 0 <= r k l0) by (intros; apply outer_r_nonneg; assumption).
  assert (Hfk : forall j l0, (j < Kin k)%nat -> (l0 < n)%nat -> 0 <= fin k j l0) by (intros; apply Hfin; assumption).
  assert (Hpk : forall j, (j < Kin k)%nat -> 0 <= pin k j) by (intros; apply Hpin; assumption).
  assert (Hmk : forall l0, (l0 < n)%nat -> 0 < mix (Kin k) (pin k) (fin k) l0) by (intros; apply Hmixin; assumption).
  (* some leaf carries mass at l *)
  destruct (rsum_pos_exists (Kin k) (fun j => pin k j * fin k j l) (Hmixin k l Hk Hl)) as (j & Hj & Hpos).
  { intros j Hj. apply Rmult_le_pos; [apply Hpk|apply Hfk]; assumption. }
  assert (Hrin : 0 < rin k j l).
  { unfold rin, resp. apply Rmult_lt_0_compat; [exact Hr|]. apply Rdiv_lt_0_compat; [exact Hpos|apply Hmk; exact Hl]. }
  assert (Hp' : 0 < pin' k j).
  { apply (pi'_pos n (Kin k) (r k) (pin k) (pin' k) (fin k) Hrn Hpk Hfk Hmk (Hmassin k Hk)
             (fun j0 Hj0 => Hnewin k j0 Hk Hj0) j l Hj Hl Hrin). }
  assert (Hf' : 0 < fin' k j l) by (apply Hsupp; assumption).
  unfold f', mix.
  apply Rlt_le_trans with (pin' k j * fin' k j l); [apply Rmult_lt_0_compat; assumption|].
  apply (rsum_term_le (Kin k) (fun j0 => pin' k j0 * fin' k j0 l)); [|exact Hj].
  intros j0 Hj0. apply Rmult_le_pos; [|apply Hfin'; assumption].
  apply (pi'_nonneg n (Kin k) (r k) (pin k) (pin' k) (fin k) Hrn Hpk Hfk Hmk (Hmassin k Hk)
           (fun j1 Hj1 => Hnewin k j1 Hk Hj1) j0 Hj0).
Qed.

Theorem nested_em_ascent : loglik n K c pi f <= loglik n K c pi' f'.
Proof.
  apply em_ascent_main; try assumption.
  - intros k l Hk Hl. left. apply Hmixin; assumption.
  - intros k l Hk Hl. unfold f', mix. apply rsum_nonneg. intros j Hj. apply Rmult_le_pos; [|apply Hfin'; assumption].
    apply (pi'_nonneg n (Kin k) (r k) (pin k) (pin' k) (fin k)); try assumption.
    + intros; apply outer_r_nonneg; assumption.
    + intros; apply Hpin; assumption.
    + intros; apply Hfin; assumption.
    + intros; apply Hmixin; assumption.
    + apply Hmassin; assumption.
    + intros j0 Hj0. apply Hnewin; assumption.
  - intros k l Hk Hl Hr. apply inner_support; assumption.
  - intros k Hk. apply inner_ascent; assumption.
Qed.
End NestedAscent.
