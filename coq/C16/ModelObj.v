(* C16 (round 6) — the estimator OBJECT as a state machine.

   Every closed-form estimator of statistics/scalarEstimator (normal, exponential, Poisson, geometric,
   categorical, negative binomial) and the vector normal estimator is the same text around a family-specific
   core (struct fields `sum_*` = per-thread accumulators, `gamma_max`):

     SetData(x, n)            obj.x = x                        (StdEstimator: a REFERENCE, no copy)
     Initialize(p)            accumulators := fresh; gamma_max := 0.0
     NewObservation(x, g, p)  accumulators[id] updated (panics on nil accumulators)
     updateEstimate()         params := f(accumulators); constructor error -> return err (accumulators KEPT)
                              otherwise *obj.Distribution = *t; accumulators := nil
     Estimate(gamma, p)       x := obj.x; Initialize; pre-pass over gamma (gamma_max); NewObservation(x[i], gamma[i])
                              for all i (x.Dim() on a nil x panics AFTER Initialize ran); updateEstimate
     EstimateOnData(x, g, p)  SetData(x, x.Dim()); Estimate(g, p)
     GetEstimate()            if accumulators != nil { updateEstimate (error -> return it) }; return distribution

   The caller may keep the vector handed to SetData and write into it between calls: the heap maps vector
   handles to their current contents and [OpWrite] models such a write.  ONE worker thread (id = 0).
   No proofs in this file. *)
From Coq Require Import ZArith List Bool.
From ADV Require Import Base.Num C16.Model.
Import ListNotations.

Section Obj.
Context {D G ACC PRE P : Type}.

Record family := mkFam {
  f_init : ACC;                                   (* Initialize: fresh accumulators *)
  f_pre0 : PRE;                                   (* Initialize: gamma_max = 0.0 *)
  f_pre : list G -> PRE;                          (* Estimate: pre-pass over gamma (gamma_max) *)
  f_obs : PRE -> ACC -> D -> option G -> ACC;     (* NewObservation *)
  f_update : ACC -> option P                      (* updateEstimate: None = the constructor refuses *)
}.
Variable F : family.

Definition heap := list (list D).

Record obj := mkObj {
  o_x : option nat;          (* obj.x: handle of the installed data vector, None = nil *)
  o_acc : option ACC;        (* sum_* : None = nil *)
  o_pre : PRE;               (* gamma_max *)
  o_dist : P                 (* the embedded distribution's parameters *)
}.

Inductive op :=
| OpSetData (v : nat)
| OpWrite (v i : nat) (x : D)                     (* the caller overwrites element i of vector v in place *)
| OpEstimate (g : option (list G))
| OpEstimateOnData (v : nat) (g : option (list G))
| OpInitialize
| OpNewObservation (x : D) (g : option G)
| OpGetEstimate.

(* what a call lets the caller observe: nothing, a panic, an error, or the parameters read afterwards *)
Inductive outcome := RNone | RPanic | RErr | RParams (p : P).

(* Estimate's loop over the data (AddRangeJob 0..x.Dim() on one thread, in index order) *)
Fixpoint obs_all (pre : PRE) (acc : ACC) (xs : list D) (gs : option (list G)) : ACC :=
  match xs with
  | [] => acc
  | x :: xs' =>
      match gs with
      | None => obs_all pre (f_obs F pre acc x None) xs' None
      | Some [] => acc                                  (* gamma shorter than x: index panic, never generated *)
      | Some (g :: gs') => obs_all pre (f_obs F pre acc x (Some g)) xs' (Some gs')
      end
  end.

Definition pre_of (g : option (list G)) : PRE :=
  match g with None => f_pre0 F | Some gs => f_pre F gs end.

(* updateEstimate on accumulators [acc] *)
Definition update_estimate (st : obj) (acc : ACC) : obj * outcome :=
  match f_update F acc with
  | Some p => (mkObj (o_x st) None (o_pre st) p, RParams p)
  | None => (mkObj (o_x st) (Some acc) (o_pre st) (o_dist st), RErr)
  end.

Definition estimate (h : heap) (st : obj) (g : option (list G)) : obj * outcome :=
  let pre := pre_of g in
  let st1 := mkObj (o_x st) (Some (f_init F)) pre (o_dist st) in
  match o_x st with
  | None => (st1, RPanic)
  | Some v =>
      match nth_error h v with
      | None => (st1, RPanic)
      | Some xs => update_estimate st1 (obs_all pre (f_init F) xs g)
      end
  end.

Definition set_data (st : obj) (v : nat) : obj := mkObj (Some v) (o_acc st) (o_pre st) (o_dist st).

Fixpoint write_at {X} (l : list X) (i : nat) (x : X) : list X :=
  match l, i with
  | [], _ => []
  | _ :: r, O => x :: r
  | y :: r, S j => y :: write_at r j x
  end.
Definition heap_write (h : heap) (v i : nat) (x : D) : heap :=
  match nth_error h v with
  | Some xs => write_at h v (write_at xs i x)
  | None => h
  end.

Definition step (hs : heap * obj) (o : op) : (heap * obj) * outcome :=
  let '(h, st) := hs in
  match o with
  | OpSetData v => ((h, set_data st v), RNone)
  | OpWrite v i x => ((heap_write h v i x, st), RNone)
  | OpEstimate g => let '(st', r) := estimate h st g in ((h, st'), r)
  | OpEstimateOnData v g => let '(st', r) := estimate h (set_data st v) g in ((h, st'), r)
  | OpInitialize => ((h, mkObj (o_x st) (Some (f_init F)) (f_pre0 F) (o_dist st)), RNone)
  | OpNewObservation x g =>
      match o_acc st with
      | None => ((h, st), RPanic)                     (* index into a nil slice *)
      | Some acc => ((h, mkObj (o_x st) (Some (f_obs F (o_pre st) acc x g)) (o_pre st) (o_dist st)), RNone)
      end
  | OpGetEstimate =>
      match o_acc st with
      | None => ((h, st), RParams (o_dist st))
      | Some acc => let '(st', r) := update_estimate st acc in ((h, st'), r)
      end
  end.

Fixpoint run (hs : heap * obj) (ops : list op) : (heap * obj) * list outcome :=
  match ops with
  | [] => (hs, [])
  | o :: r => let '(hs1, x) := step hs o in let '(hs2, xs) := run hs1 r in (hs2, x :: xs)
  end.

(* a newly constructed estimator: no data, nil accumulators, the parameters it was constructed with *)
Definition fresh (pre : PRE) (p0 : P) : obj := mkObj None None pre p0.

(* the PURE estimator: what one Estimate(gamma) computes from the current contents of the data vector *)
Definition pure_estimate (xs : list D) (g : option (list G)) : option P :=
  f_update F (obs_all (pre_of g) (f_init F) xs g).
(* ... and what Initialize; NewObservation(x1,g1); ...; GetEstimate computes *)
Definition pure_batch (obs : list (D * option G)) : option P :=
  f_update F (fold_left (fun acc xg => f_obs F (f_pre0 F) acc (fst xg) (snd xg)) obs (f_init F)).

Definition outcome_of (r : option P) : outcome := match r with Some p => RParams p | None => RErr end.

End Obj.

Arguments family : clear implicits.
Arguments obj : clear implicits.
Arguments op : clear implicits.
Arguments outcome : clear implicits.

(* ------------------------------------------------------------------ *)
(* the families: normal.go, exponential.go, geometric.go, poisson.go, categorical.go *)
Section Families.
Context {A : Type} (N : Num A).
Variables (EXP LOG LOG1P : A -> A).

(* normal.go: gamma_max lives in [lw]; Initialize sets it to 0.0 *)
Definition normal_family (sigma_min : A) : family A (lw (A:=A)) (nacc (A:=A)) (lw (A:=A)) (A * A) :=
  mkFam (mkNacc (zero N) (zero N) (zero N)) (Some (zero N)) (gamma_max N)
        (fun pre acc x g => normal_obs N acc x (option_map (rescaled N EXP pre) g))
        (normal_update N sigma_min).

(* the log-scale families share lacc's step *)
Definition lstep (f : A -> lw (A:=A)) (acc : lw (A:=A) * lw (A:=A) * Z) (x : A) (g : option (lw (A:=A))) :=
  let '(m, s, c) := acc in
  match g with
  | None => (logadd N EXP LOG1P m (f x), s, (c + 1)%Z)
  | Some w => (logadd N EXP LOG1P m (ladd N w (f x)), logadd N EXP LOG1P s w, c)
  end.

Definition exponential_update (lambda_max : A) (acc : lw (A:=A) * lw (A:=A) * Z) : option A :=
  let '(m, g) := lmerge N EXP LOG LOG1P acc in
  match lratio N EXP g m with
  | inr v => let v := if ltb N lambda_max v then lambda_max else v in
             if leb N v (zero N) then None else Some v
  | inl true => if leb N lambda_max (zero N) then None else Some lambda_max
  | inl false => None
  end.
Definition exponential_family (lambda_max : A) : family A (lw (A:=A)) (lw (A:=A) * lw (A:=A) * Z) unit A :=
  mkFam (None, None, 0%Z) tt (fun _ => tt) (fun _ => lstep (logx N LOG)) (exponential_update lambda_max).

Definition geometric_update (acc : lw (A:=A) * lw (A:=A) * Z) : option A :=
  let '(m, g) := lmerge N EXP LOG LOG1P acc in
  match lratio_min0 N EXP g m with
  | inr v => if leb N v (zero N) || ltb N (one N) v then None else Some v
  | inl _ => None
  end.
Definition geometric_family : family A (lw (A:=A)) (lw (A:=A) * lw (A:=A) * Z) unit A :=
  mkFam (None, None, 0%Z) tt (fun _ => tt) (fun _ => lstep (fun x => logx N LOG (add N x (one N)))) geometric_update.

(* poisson.go: NewObservation returns early for x < 0 *)
Definition poisson_update (acc : lw (A:=A) * lw (A:=A) * Z) : option A :=
  let '(m, g) := lmerge N EXP LOG LOG1P acc in
  match lratio N EXP m g with
  | inr v => if leb N v (zero N) then None else Some v
  | inl _ => None
  end.
Definition poisson_family : family A (lw (A:=A)) (lw (A:=A) * lw (A:=A) * Z) unit A :=
  mkFam (None, None, 0%Z) tt (fun _ => tt)
        (fun _ acc x g => if ltb N x (zero N) then acc else lstep (logx N LOG) acc x g) poisson_update.

End Families.

(* ------------------------------------------------------------------ *)
(* the RECORDING family: accumulators = the gamma list of the running Estimate (None: batch use / no gamma)
   and the observations seen since Initialize, in order.  [judge] plays updateEstimate: the correspondence
   check instantiates it with "Go's outcome, provided it is the family's estimate of exactly these
   observations". *)
Section Recording.
Context {D G P : Type}.
Definition rec_acc := (option (list G) * list (D * option G))%type.
Definition rec_family (judge : rec_acc -> option P) : family D G rec_acc (option (list G)) P :=
  mkFam (None, []) None (fun gs => Some gs) (fun pre acc x g => (pre, snd acc ++ [(x, g)])) judge.
End Recording.
