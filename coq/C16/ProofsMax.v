(* C16 — closed forms are (constrained) maximisers of the weighted log-likelihood. *)
From Coq Require Import Reals List Lra Psatz.
From ADV Require Import C16.Spec.
Import ListNotations.
Open Scope R_scope.

Lemma ln_le_sub1 t : 0 < t -> ln t <= t - 1.
Proof. intros Ht. pose proof (exp_ineq1_le (ln t)) as H. rewrite exp_ln in H by assumption. lra. Qed.

(* ---- lsum algebra ---- *)
Lemma lsum_ext f g d : (forall p, In p d -> f p = g p) -> lsum f d = lsum g d.
Proof.
  induction d as [|p r IH]; simpl; intros H; [reflexivity|].
  rewrite H by (left; reflexivity). rewrite IH; [reflexivity|]. intros q Hq. apply H. right; exact Hq.
Qed.
Lemma lsum_plus f g d : lsum (fun p => f p + g p) d = lsum f d + lsum g d.
Proof. induction d as [|p r IH]; simpl; [lra|]. rewrite IH. lra. Qed.
Lemma lsum_scal a f d : lsum (fun p => a * f p) d = a * lsum f d.
Proof. induction d as [|p r IH]; simpl; [lra|]. rewrite IH. lra. Qed.
Lemma lsum_le f g d : (forall p, In p d -> f p <= g p) -> lsum f d <= lsum g d.
Proof.
  induction d as [|p r IH]; simpl; intros H; [lra|].
  assert (f p <= g p) by (apply H; left; reflexivity).
  assert (lsum f r <= lsum g r) by (apply IH; intros q Hq; apply H; right; exact Hq). lra.
Qed.
Lemma lsum_nonneg f d : (forall p, In p d -> 0 <= f p) -> 0 <= lsum f d.
Proof.
  induction d as [|p r IH]; simpl; intros H; [lra|].
  assert (0 <= f p) by (apply H; left; reflexivity).
  assert (0 <= lsum f r) by (apply IH; intros q Hq; apply H; right; exact Hq). lra.
Qed.

Lemma sumwx_nonneg d : nonneg_w d -> nonneg_x d -> 0 <= sumwx d.
Proof. intros Hw Hx. apply lsum_nonneg. intros p Hp. apply Rmult_le_pos; [apply Hw|apply Hx]; exact Hp. Qed.

(* ---- normal ---- *)
Definition sq_dev (d : wdata) (mu : R) := lsum (fun p => fst p * ((snd p - mu) * (snd p - mu))) d.

Lemma sq_dev_expand d mu : sq_dev d mu = sumwxx d - 2 * mu * sumwx d + mu * mu * sumw d.
Proof.
  unfold sq_dev, sumwxx, sumwx, sumw. induction d as [|p r IH]; simpl; [lra|]. rewrite IH. lra.
Qed.

(* the identity  sum w (x - mu)^2 = W (var* + (mu - mu* )^2) *)
Lemma sq_dev_identity d mu : sumw d <> 0 ->
  sq_dev d mu = sumw d * (mle_var d + (mu - mle_mu d) * (mu - mle_mu d)).
Proof. intros HW. rewrite sq_dev_expand. unfold mle_var, mle_mu. field. exact HW. Qed.

Lemma sq_dev_nonneg d mu : nonneg_w d -> 0 <= sq_dev d mu.
Proof.
  intros Hw. apply lsum_nonneg. intros p Hp. apply Rmult_le_pos; [apply Hw; exact Hp|]. apply Rle_0_sqr.
Qed.

Lemma mle_var_nonneg d : nonneg_w d -> 0 < sumw d -> 0 <= mle_var d.
Proof.
  intros Hw HW. pose proof (sq_dev_identity d (mle_mu d) ltac:(lra)) as H.
  pose proof (sq_dev_nonneg d (mle_mu d) Hw) as H0. rewrite H in H0.
  replace (mle_var d + (mle_mu d - mle_mu d) * (mle_mu d - mle_mu d)) with (mle_var d) in H0 by ring.
  destruct (Rle_or_lt 0 (mle_var d)) as [?|Hn]; [assumption|]. exfalso. nra.
Qed.

Lemma ll_normal_closed d mu sigma : sigma <> 0 ->
  ll_normal d mu sigma = - sumw d * ln sigma - sq_dev d mu / (2 * (sigma * sigma)).
Proof.
  intros Hs. unfold ll_normal, sumw, sq_dev. induction d as [|p r IH]; simpl; [field; exact Hs|].
  rewrite IH. field. exact Hs.
Qed.

(* h(sigma) = - ln sigma - v / (2 sigma^2) is maximal at s when s^2 >= v and (s^2 = v or sigma >= s) *)
Lemma normal_h_max v s sigma : 0 <= v -> 0 < s -> 0 < sigma -> v <= s * s -> (v = s * s \/ s <= sigma) ->
  - ln sigma - v / (2 * (sigma * sigma)) <= - ln s - v / (2 * (s * s)).
Proof.
  intros Hv Hs Hsig Hvs Hcase.
  set (t := (s * s) / (sigma * sigma)).
  assert (Hss : 0 < s * s) by nra. assert (Hgg : 0 < sigma * sigma) by nra.
  assert (Ht : 0 < t) by (unfold t; apply Rdiv_lt_0_compat; assumption).
  assert (Hln : ln t = 2 * ln s - 2 * ln sigma).
  { unfold t. unfold Rdiv. rewrite ln_mult; [|assumption|apply Rinv_0_lt_compat; assumption].
    rewrite ln_Rinv by assumption. rewrite !ln_mult by assumption. lra. }
  pose proof (ln_le_sub1 t Ht) as Hl.
  set (a := v / (s * s)).
  assert (Ha0 : 0 <= a) by (unfold a; apply Rmult_le_pos; [assumption|left; apply Rinv_0_lt_compat; assumption]).
  assert (Ha1 : a <= 1).
  { unfold a. apply (Rmult_le_reg_r (s * s)); [assumption|]. unfold Rdiv. rewrite Rmult_assoc, Rinv_l by lra. lra. }
  assert (Hvt : v / (2 * (sigma * sigma)) = a * t / 2) by (unfold a, t; field; lra).
  assert (Hvs2 : v / (2 * (s * s)) = a / 2) by (unfold a; field; lra).
  rewrite Hvt, Hvs2.
  assert (Hgoal : (t - 1) * (1 - a) <= 0).
  { destruct Hcase as [He|Hle].
    - assert (a = 1) by (unfold a; rewrite He; field; lra). nra.
    - assert (t <= 1).
      { unfold t. apply (Rmult_le_reg_r (sigma * sigma)); [assumption|].
        unfold Rdiv. rewrite Rmult_assoc, Rinv_l by lra. nra. }
      nra. }
  nra.
Qed.

Theorem normal_max (sigma_min : R) (d : wdata) :
  nonneg_w d -> 0 < sumw d -> 0 <= sigma_min -> 0 < mle_sigma sigma_min d ->
  forall mu sigma, 0 < sigma -> sigma_min <= sigma ->
    ll_normal d mu sigma <= ll_normal d (mle_mu d) (mle_sigma sigma_min d).
Proof.
  intros Hw HW Hmin Hpos mu sigma Hsig Hadm.
  set (s := mle_sigma sigma_min d) in *.
  rewrite !ll_normal_closed by lra.
  rewrite !sq_dev_identity by lra.
  pose proof (mle_var_nonneg d Hw HW) as Hv.
  set (v := mle_var d) in *.
  replace (mle_mu d - mle_mu d) with 0 by ring.
  assert (Hs2 : v <= s * s /\ (v = s * s \/ s <= sigma)).
  { unfold s, mle_sigma. fold v. unfold Rmax. destruct (Rle_dec (sqrt v) sigma_min) as [Hc|Hc].
    - split.
      + rewrite <- (sqrt_sqrt v Hv). pose proof (sqrt_pos v). nra.
      + right. exact Hadm.
    - split; [rewrite sqrt_sqrt by exact Hv; lra|left; rewrite sqrt_sqrt by exact Hv; reflexivity]. }
  destruct Hs2 as [Hvs Hcase].
  pose proof (normal_h_max v s sigma Hv Hpos Hsig Hvs Hcase) as Hh.
  assert (Hgg : 0 < sigma * sigma) by (apply Rmult_lt_0_compat; assumption). assert (Hss : 0 < s * s) by (apply Rmult_lt_0_compat; assumption).
  assert (Hm : 0 <= (mu - mle_mu d) * (mu - mle_mu d)) by apply Rle_0_sqr.
  assert (E1 : sumw d * (v + (mu - mle_mu d) * (mu - mle_mu d)) / (2 * (sigma * sigma))
               = sumw d * (v / (2 * (sigma * sigma))) + sumw d * ((mu - mle_mu d) * (mu - mle_mu d)) / (2 * (sigma * sigma)))
    by (field; lra).
  assert (E2 : sumw d * (v + 0 * 0) / (2 * (s * s)) = sumw d * (v / (2 * (s * s)))) by (field; lra).
  rewrite E1, E2.
  assert (Hq : 0 <= sumw d * ((mu - mle_mu d) * (mu - mle_mu d)) / (2 * (sigma * sigma))).
  { apply Rmult_le_pos; [nra|]. left. apply Rinv_0_lt_compat. lra. }
  nra.
Qed.

(* ---- exponential ---- *)
Lemma ll_exponential_closed d lam : ll_exponential d lam = sumw d * ln lam - lam * sumwx d.
Proof. unfold ll_exponential, sumw, sumwx. induction d as [|p r IH]; simpl; [lra|]. rewrite IH. lra. Qed.

(* constrained optimum: l is admissible, and either stationary (W = l M) or at the bound with W >= l M *)
Lemma exponential_core W M l lam : 0 < l -> 0 < lam ->
  (W = l * M \/ (lam <= l /\ l * M <= W)) -> 0 <= W ->
  W * ln lam - lam * M <= W * ln l - l * M.
Proof.
  intros Hl Hlam Hc HW.
  assert (Ht : 0 < lam / l) by (apply Rdiv_lt_0_compat; assumption).
  pose proof (ln_le_sub1 _ Ht) as H.
  assert (Hln : ln (lam / l) = ln lam - ln l).
  { unfold Rdiv. rewrite ln_mult; [|assumption|apply Rinv_0_lt_compat; assumption]. rewrite ln_Rinv by assumption. lra. }
  rewrite Hln in H.
  assert (H2 : W * (ln lam - ln l) <= W * (lam / l - 1)) by (apply Rmult_le_compat_l; assumption).
  assert (H3 : W * (lam / l - 1) = (lam - l) * (W / l)) by (field; lra).
  assert (Hgoal : (lam - l) * (W / l) <= (lam - l) * M).
  { destruct Hc as [He|[Hle Hb]].
    - rewrite He. right. field. lra.
    - assert (M <= W / l).
      { apply (Rmult_le_reg_r l); [assumption|]. unfold Rdiv. rewrite Rmult_assoc, Rinv_l by lra. lra. }
      nra. }
  lra.
Qed.

Theorem exponential_max (lam_max : R) (d : wdata) :
  nonneg_w d -> nonneg_x d -> 0 < sumw d -> 0 < sumwx d -> 0 < lam_max ->
  forall lam, 0 < lam -> lam <= lam_max ->
    ll_exponential d lam <= ll_exponential d (mle_exp_rate lam_max d).
Proof.
  intros Hw Hx HW HM Hmax lam Hlam Hadm.
  rewrite !ll_exponential_closed. unfold mle_exp_rate.
  assert (Hr : 0 < sumw d / sumwx d) by (apply Rdiv_lt_0_compat; assumption).
  unfold Rmin. destruct (Rle_dec (sumw d / sumwx d) lam_max) as [Hc|Hc].
  - apply exponential_core; try lra. left; field; lra.
  - apply exponential_core; try lra. right. split; [assumption|].
    assert (lam_max < sumw d / sumwx d) by lra.
    apply (Rmult_lt_compat_r (sumwx d)) in H; [|assumption].
    unfold Rdiv in H. rewrite Rmult_assoc, Rinv_l in H by lra. lra.
Qed.

(* all observations zero: the likelihood increases with lambda, the bound is the optimum *)
Theorem exponential_max_degenerate (lam_max : R) (d : wdata) :
  0 < sumw d -> sumwx d = 0 -> 0 < lam_max ->
  forall lam, 0 < lam -> lam <= lam_max ->
    ll_exponential d lam <= ll_exponential d lam_max.
Proof.
  intros HW HM Hmax lam Hlam Hadm. rewrite !ll_exponential_closed, HM.
  apply exponential_core; lra.
Qed.

(* ---- Poisson ---- *)
Lemma ll_poisson_closed d lam : ll_poisson d lam = sumwx d * ln lam - lam * sumw d.
Proof. unfold ll_poisson, sumw, sumwx. induction d as [|p r IH]; simpl; [lra|]. rewrite IH. lra. Qed.

Theorem poisson_max (d : wdata) :
  nonneg_w d -> nonneg_x d -> 0 < sumw d -> 0 < sumwx d ->
  forall lam, 0 < lam -> ll_poisson d lam <= ll_poisson d (mle_poisson d).
Proof.
  intros Hw Hx HW HM lam Hlam. rewrite !ll_poisson_closed. unfold mle_poisson.
  assert (Hr : 0 < sumwx d / sumw d) by (apply Rdiv_lt_0_compat; assumption).
  apply exponential_core; try lra. left; field; lra.
Qed.

(* ---- geometric (support 0,1,2,..;  P(k) = p (1-p)^k) ---- *)
Lemma ll_geometric_closed d p : ll_geometric d p = sumw d * ln p + sumwx d * ln (1 - p).
Proof. unfold ll_geometric, sumw, sumwx. induction d as [|q r IH]; simpl; [lra|]. rewrite IH. lra. Qed.

Theorem geometric_max (d : wdata) :
  nonneg_w d -> nonneg_x d -> 0 < sumw d ->
  forall p, 0 < p -> p <= 1 -> (0 < sumwx d -> p < 1) ->
    ll_geometric d p <= ll_geometric d (mle_geometric d).
Proof.
  intros Hw Hx HW p Hp0 Hp1 Hp. rewrite !ll_geometric_closed. unfold mle_geometric.
  pose proof (sumwx_nonneg d Hw Hx) as HM.
  set (W := sumw d) in *. set (M := sumwx d) in *.
  destruct (Rle_lt_or_eq_dec 0 M HM) as [HMp|HM0].
  - specialize (Hp HMp).
    assert (Hq : 0 < W / (W + M)) by (apply Rdiv_lt_0_compat; lra).
    assert (Hq1 : 1 - W / (W + M) = M / (W + M)) by (field; lra).
    assert (Hq1p : 0 < M / (W + M)) by (apply Rdiv_lt_0_compat; lra).
    (* first term *)
    pose proof (exponential_core W (W + M) (W / (W + M)) p Hq Hp0) as H1.
    assert (H1' : W * ln p - p * (W + M) <= W * ln (W / (W + M)) - W / (W + M) * (W + M)).
    { apply H1; [|lra]. left; field; lra. }
    pose proof (exponential_core M (W + M) (M / (W + M)) (1 - p) Hq1p ltac:(lra)) as H2.
    assert (H2' : M * ln (1 - p) - (1 - p) * (W + M) <= M * ln (M / (W + M)) - M / (W + M) * (W + M)).
    { apply H2; [|lra]. left; field; lra. }
    rewrite Hq1.
    assert (E1 : W / (W + M) * (W + M) = W) by (field; lra).
    assert (E2 : M / (W + M) * (W + M) = M) by (field; lra).
    lra.
  - rewrite <- HM0. replace (W / (W + 0)) with 1 by (field; lra). rewrite ln_1.
    assert (ln p <= 0).
    { destruct (Rle_lt_or_eq_dec p 1 Hp1) as [Hlt|He]; [|rewrite He, ln_1; lra].
      left. rewrite <- ln_1. apply ln_increasing; assumption. }
    nra.
Qed.

(* ---- categorical (Gibbs' inequality) ---- *)
Definition cat_counts (ct : list (R * R)) := lsum (fun q => fst q) ct.
Definition cat_theta_sum (ct : list (R * R)) := lsum (fun q => snd q) ct.
(* the estimate: theta_j = c_j / C *)
Definition cat_mle (ct : list (R * R)) : list (R * R) := map (fun q => (fst q, fst q / cat_counts ct)) ct.

Lemma gibbs_list (C : R) (ct : list (R * R)) : 0 < C ->
  (forall q, In q ct -> 0 <= fst q /\ 0 <= snd q /\ (0 < fst q -> 0 < snd q)) ->
  lsum (fun q => fst q * ln (snd q)) ct - lsum (fun q => fst q * ln (fst q / C)) ct
    <= C * lsum (fun q => snd q) ct - lsum (fun q => fst q) ct.
Proof.
  intros HC. induction ct as [|q r IH]; simpl; intros H; [lra|].
  assert (Hq := H q (or_introl eq_refl)). destruct Hq as (Hc & Ht & Hpos).
  assert (IH' := IH (fun q' Hq' => H q' (or_intror Hq'))).
  assert (fst q * ln (snd q) - fst q * ln (fst q / C) <= C * snd q - fst q).
  { destruct (Rle_lt_or_eq_dec 0 (fst q) Hc) as [Hcp|Hc0].
    - specialize (Hpos Hcp).
      assert (Hd : 0 < fst q / C) by (apply Rdiv_lt_0_compat; assumption).
      pose proof (exponential_core (fst q) C (fst q / C) (snd q) Hd Hpos) as HH.
      assert (fst q * ln (snd q) - snd q * C <= fst q * ln (fst q / C) - fst q / C * C).
      { apply HH; [|lra]. left; field; lra. }
      assert (fst q / C * C = fst q) by (field; lra). lra.
    - rewrite <- Hc0. nra. }
  lra.
Qed.

Lemma lsum_map_mle C ct :
  lsum (fun q => fst q * ln (snd q)) (map (fun q => (fst q, fst q / C)) ct)
  = lsum (fun q => fst q * ln (fst q / C)) ct.
Proof. induction ct as [|q r IH]; simpl; [reflexivity|]. rewrite IH. reflexivity. Qed.

Theorem categorical_max (ct : list (R * R)) :
  0 < cat_counts ct ->
  (forall q, In q ct -> 0 <= fst q /\ 0 <= snd q /\ (0 < fst q -> 0 < snd q)) ->
  cat_theta_sum ct <= 1 ->
  ll_categorical ct <= ll_categorical (cat_mle ct).
Proof.
  intros HC H Hs. unfold ll_categorical, cat_mle.
  pose proof (gibbs_list (cat_counts ct) ct HC H) as G.
  rewrite (lsum_map_mle (cat_counts ct) ct).
  unfold cat_theta_sum, cat_counts in *.
  assert (cat_counts ct * lsum (fun q => snd q) ct <= cat_counts ct * 1)
    by (apply Rmult_le_compat_l; [unfold cat_counts; lra|exact Hs]).
  unfold cat_counts in *. lra.
Qed.
