(* C16 — specification: weighted log-likelihoods of the families, what
   "maximiser within the configured bounds" means, the mixture log-likelihood
   and the abstract EM step (linear scale).  Additive constants that do not
   depend on the parameters (ln sqrt(2 pi), ln x!) are dropped. *)
From Coq Require Import Reals List.
Import ListNotations.
Open Scope R_scope.

(* weighted data: list of (weight, observation) *)
Definition wdata := list (R * R).

Fixpoint lsum (f : R * R -> R) (d : wdata) : R :=
  match d with [] => 0 | p :: r => f p + lsum f r end.

Definition sumw (d : wdata) := lsum (fun p => fst p) d.
Definition sumwx (d : wdata) := lsum (fun p => fst p * snd p) d.
Definition sumwxx (d : wdata) := lsum (fun p => fst p * (snd p * snd p)) d.

Definition nonneg_w (d : wdata) := forall p, In p d -> 0 <= fst p.
Definition nonneg_x (d : wdata) := forall p, In p d -> 0 <= snd p.

(* weighted log-likelihoods *)
Definition ll_normal (d : wdata) (mu sigma : R) :=
  lsum (fun p => fst p * (- ln sigma - (snd p - mu) * (snd p - mu) / (2 * (sigma * sigma)))) d.
Definition ll_exponential (d : wdata) (lam : R) := lsum (fun p => fst p * (ln lam - lam * snd p)) d.
Definition ll_poisson (d : wdata) (lam : R) := lsum (fun p => fst p * (snd p * ln lam - lam)) d.
Definition ll_geometric (d : wdata) (p : R) := lsum (fun q => fst q * (ln p + snd q * ln (1 - p))) d.
(* categorical: list of (weighted count of category j, theta_j) *)
Definition ll_categorical (ct : list (R * R)) := lsum (fun q => fst q * ln (snd q)) ct.

(* closed forms (what the estimators are meant to return) *)
Definition mle_mu (d : wdata) := sumwx d / sumw d.
Definition mle_var (d : wdata) := sumwxx d / sumw d - mle_mu d * mle_mu d.
Definition mle_sigma (sigma_min : R) (d : wdata) := Rmax (sqrt (mle_var d)) sigma_min.
Definition mle_exp_rate (lam_max : R) (d : wdata) := Rmin (sumw d / sumwx d) lam_max.
Definition mle_poisson (d : wdata) := sumwx d / sumw d.
Definition mle_geometric (d : wdata) := sumw d / (sumw d + sumwx d).

(* ---------------- finite sums over index ranges, mixtures ---------------- *)
Fixpoint rsum (n : nat) (f : nat -> R) : R :=
  match n with O => 0 | S m => rsum m f + f m end.

(* mixture with K components on n data points: pi k = weight, f k l = density of
   component k at datum l, c l = multiplicity / outer weight of datum l *)
Definition mix (K : nat) (pi : nat -> R) (f : nat -> nat -> R) (l : nat) := rsum K (fun k => pi k * f k l).
Definition loglik (n K : nat) (c : nat -> R) (pi : nat -> R) (f : nat -> nat -> R) :=
  rsum n (fun l => c l * ln (mix K pi f l)).
(* E-step: responsibility of component k for datum l, times the datum weight *)
Definition resp (K : nat) (c : nat -> R) (pi : nat -> R) (f : nat -> nat -> R) (k l : nat) :=
  c l * (pi k * f k l / mix K pi f l).
(* M-step for the weights: normalised column sums *)
Definition resp_sum (n K : nat) c pi f (k : nat) := rsum n (fun l => resp K c pi f k l).
Definition new_pi (n K : nat) c pi f (k : nat) :=
  resp_sum n K c pi f k / rsum K (fun j => resp_sum n K c pi f j).
(* weighted log-likelihood of component k under densities f' with the responsibilities as weights *)
Definition comp_ll (n : nat) (r : nat -> R) (fk : nat -> R) := rsum n (fun l => r l * ln (fk l)).
