(* C16 round 3 — vector normal estimator, product estimators, negative binomial: specification and proofs. *)
From Coq Require Import Reals List Lra Lia Psatz Bool.
From ADV Require Import Base.Num C16.Model C16.ModelVec C16.Spec C16.ProofsMax C16.ProofsEM C16.ProofsModel.
Import ListNotations.
Open Scope R_scope.

(* ================= negative binomial (r fixed) ================= *)
(* log pmf = x ln p + r ln (1 - p) + terms without p *)
Definition ll_negbin (d : wdata) (r p : R) := lsum (fun q => fst q * (snd q * ln p + r * ln (1 - p))) d.
Definition mle_negbin (r : R) (d : wdata) := sumwx d / (r * sumw d + sumwx d).

Lemma ll_negbin_closed d r p : ll_negbin d r p = sumwx d * ln p + r * sumw d * ln (1 - p).
Proof. unfold ll_negbin, sumw, sumwx. induction d as [|q t IH]; simpl; [lra|]. rewrite IH. lra. Qed.

Theorem negbin_max (r : R) (d : wdata) :
  nonneg_w d -> nonneg_x d -> 0 < sumw d -> 0 < r ->
  forall p, 0 < p -> p < 1 -> ll_negbin d r p <= ll_negbin d r (mle_negbin r d).
Proof.
  intros Hw Hx HW Hr p Hp0 Hp1. rewrite !ll_negbin_closed. unfold mle_negbin.
  pose proof (sumwx_nonneg d Hw Hx) as HM.
  set (W := sumw d) in *. set (M := sumwx d) in *.
  assert (HrW : 0 < r * W) by (apply Rmult_lt_0_compat; assumption).
  destruct (Rle_lt_or_eq_dec 0 M HM) as [HMp|HM0].
  - assert (Hq : 0 < M / (r * W + M)) by (apply Rdiv_lt_0_compat; lra).
    assert (Hq1 : 1 - M / (r * W + M) = r * W / (r * W + M)) by (field; lra).
    assert (Hq1p : 0 < r * W / (r * W + M)) by (apply Rdiv_lt_0_compat; lra).
    pose proof (exponential_core M (r * W + M) (M / (r * W + M)) p Hq Hp0) as H1.
    assert (H1' : M * ln p - p * (r * W + M) <= M * ln (M / (r * W + M)) - M / (r * W + M) * (r * W + M)).
    { apply H1; [|lra]. left; field; lra. }
    pose proof (exponential_core (r * W) (r * W + M) (r * W / (r * W + M)) (1 - p) Hq1p ltac:(lra)) as H2.
    assert (H2' : r * W * ln (1 - p) - (1 - p) * (r * W + M)
                  <= r * W * ln (r * W / (r * W + M)) - r * W / (r * W + M) * (r * W + M)).
    { apply H2; [|lra]. left; field; lra. }
    rewrite Hq1.
    assert (E1 : M / (r * W + M) * (r * W + M) = M) by (field; lra).
    assert (E2 : r * W / (r * W + M) * (r * W + M) = r * W) by (field; lra).
    lra.
  - rewrite <- HM0. replace (0 / (r * W + 0)) with 0 by (field; lra).
    replace (1 - 0) with 1 by ring. rewrite ln_1.
    assert (ln (1 - p) < 0) by (rewrite <- ln_1; apply ln_increasing; lra).
    nra.
Qed.

(* the closed form the correspondence executes in Q, read over R *)
Lemma cf_negbin_R r d v : cf_negbin NumR r d = Some v -> 0 < r * sumw d + sumwx d /\ v = mle_negbin r d.
Proof.
  unfold cf_negbin. rewrite cf_W_R, cf_M_R. simpl.
  destruct (Rleb (r * sumw d + sumwx d) 0) eqn:E; [discriminate|].
  intros H. injection H as <-. split; [|reflexivity].
  destruct (Rle_or_lt (r * sumw d + sumwx d) 0) as [Hle|Hlt]; [|exact Hlt].
  apply Rleb_true in Hle. congruence.
Qed.

(* ================= products ================= *)
Section ProductMax.
Context {X P G : Type}.
Variable ll : nat -> list X -> G -> P -> R.        (* log-likelihood of component i on its column *)
Variable adm : nat -> P -> Prop.                    (* admissible parameters of component i *)
Variables (xs : list (list X)) (g : G).

Definition cll (i : nat) (p : P) : R := match column i xs with Some col => ll i col g p | None => 0 end.
Fixpoint sum_from (k : nat) (ps : list P) : R := match ps with [] => 0 | p :: r => cll k p + sum_from (S k) r end.
(* log-likelihood of the product distribution with independent components = sum of the component log-likelihoods *)
Definition prod_ll (ps : list P) : R := sum_from 0 ps.

Lemma scalar_id_aux : forall (es : list (list X -> G -> option P)) k ps,
  all_some_p (map (fun ie => match column (fst ie) xs with Some c => snd ie c g | None => None end)
                  (combine (seq k (length es)) es)) = Some ps ->
  (forall j est col p, nth_error es j = Some est -> column (k + j) xs = Some col -> est col g = Some p ->
     forall q, adm (k + j)%nat q -> ll (k + j)%nat col g q <= ll (k + j)%nat col g p) ->
  length ps = length es /\
  forall qs, length qs = length es -> (forall j q, nth_error qs j = Some q -> adm (k + j)%nat q) ->
    sum_from k qs <= sum_from k ps.
Proof.
  induction es as [|e es IH]; intros k ps Hall Hmax; simpl in Hall.
  - injection Hall as <-. split; [reflexivity|]. intros [|q qs] Hl _; [simpl; lra|discriminate].
  - destruct (column k xs) as [col|] eqn:Ec; [|discriminate].
    destruct (e col g) as [p|] eqn:Ep; [|discriminate].
    destruct (all_some_p _) as [ps'|] eqn:Er; [|discriminate]. injection Hall as <-.
    destruct (IH (S k) ps' Er) as [Hlen Hrest].
    { intros j est c p' Hn Hc He q Hq. replace (S k + j)%nat with (k + S j)%nat in * by lia.
      apply (Hmax (S j) est c p' Hn Hc He q Hq). }
    split; [simpl; rewrite Hlen; reflexivity|].
    intros [|q qs] Hl Hadm; [discriminate|]. simpl. injection Hl as Hl.
    assert (H0 : cll k q <= cll k p).
    { unfold cll. rewrite Ec. pose proof (Hmax O e col p eq_refl) as H. rewrite Nat.add_0_r in H.
      apply (H Ec Ep). pose proof (Hadm O q eq_refl) as Ha. rewrite Nat.add_0_r in Ha. exact Ha. }
    assert (H1 : sum_from (S k) qs <= sum_from (S k) ps').
    { apply Hrest; [exact Hl|]. intros j q' Hn. replace (S k + j)%nat with (k + S j)%nat by lia. apply (Hadm (S j) q' Hn). }
    lra.
Qed.

(* scalarId: if every component estimator returns a maximiser of its own weighted log-likelihood on its column,
   the tuple the product estimator returns maximises the product's log-likelihood over all admissible tuples *)
Theorem scalar_id_max (ests : list (list X -> G -> option P)) ps :
  (forall i est col p, nth_error ests i = Some est -> column i xs = Some col -> est col g = Some p ->
     forall q, adm i q -> ll i col g q <= ll i col g p) ->
  scalar_id_est ests xs g = Some ps ->
  length ps = length ests /\
  forall qs, length qs = length ests -> (forall i q, nth_error qs i = Some q -> adm i q) -> prod_ll qs <= prod_ll ps.
Proof. intros Hmax H. unfold scalar_id_est in H. exact (scalar_id_aux ests O ps H Hmax). Qed.
End ProductMax.

(* scalarIid: the log-likelihood of n i.i.d. coordinates is the scalar log-likelihood of the pooled data *)
Lemma lsum_concat f (vs : list wdata) : lsum f (concat vs) = fold_right (fun v s => lsum f v + s) 0 vs.
Proof. induction vs as [|v r IH]; simpl; [reflexivity|]. rewrite lsum_app, IH. reflexivity. Qed.

Theorem scalar_iid_max {X P G} (ll : list X -> G -> P -> R) (adm : P -> Prop) (est : list X -> G -> option P) xs g p :
  (forall col p, est col g = Some p -> forall q, adm q -> ll col g q <= ll col g p) ->
  scalar_iid_est est xs g = Some p -> forall q, adm q -> ll (concat xs) g q <= ll (concat xs) g p.
Proof. intros Hmax H q Hq. unfold scalar_iid_est in H. exact (Hmax _ _ H q Hq). Qed.

(* ================= vector normal ================= *)
(* n observations x l (i < d) with weights w l; precision matrix L (= Sigma^-1), ld = ln det L;
   weighted log-likelihood up to the constant  -(d/2) ln(2 pi) sum w *)
Definition bil (d : nat) (L : nat -> nat -> R) (u v : nat -> R) : R := rsum d (fun i => rsum d (fun j => u i * L i j * v j)).
Definition quad (d : nat) (L : nat -> nat -> R) (u : nat -> R) : R := bil d L u u.
Definition vll (n d : nat) (w : nat -> R) (x : nat -> nat -> R) (ld : R) (L : nat -> nat -> R) (mu : nat -> R) : R :=
  rsum n (fun l => w l * (ld / 2 - quad d L (fun i => x l i - mu i) / 2)).
Definition vmean (n : nat) (w : nat -> R) (x : nat -> nat -> R) (i : nat) : R := rsum n (fun l => w l * x l i) / rsum n w.
(* the moment matrix the estimator returns: E[x_i x_j] - mu_i mu_j *)
Definition vcov (n : nat) (w : nat -> R) (x : nat -> nat -> R) (i j : nat) : R :=
  rsum n (fun l => w l * x l i * x l j) / rsum n w - vmean n w x i * vmean n w x j.
Definition psd (d : nat) (L : nat -> nat -> R) : Prop := forall u, 0 <= quad d L u.

Lemma bil_add_l d L a b c : bil d L (fun i => a i + b i) c = bil d L a c + bil d L b c.
Proof.
  unfold bil. rewrite <- rsum_plus. apply rsum_ext. intros i _. rewrite <- rsum_plus. apply rsum_ext. intros j _. ring.
Qed.
Lemma bil_add_r d L a b c : bil d L c (fun i => a i + b i) = bil d L c a + bil d L c b.
Proof.
  unfold bil. rewrite <- rsum_plus. apply rsum_ext. intros i _. rewrite <- rsum_plus. apply rsum_ext. intros j _. ring.
Qed.
Lemma bil_ext d L a a' b b' : (forall i, a i = a' i) -> (forall i, b i = b' i) -> bil d L a b = bil d L a' b'.
Proof. intros Ha Hb. unfold bil. apply rsum_ext. intros i _. apply rsum_ext. intros j _. rewrite Ha, Hb. reflexivity. Qed.
Lemma bil_zero_l d L c : bil d L (fun _ => 0) c = 0.
Proof. unfold bil. apply rsum_zero. intros i _. apply rsum_zero. intros j _. ring. Qed.
Lemma bil_zero_r d L c : bil d L c (fun _ => 0) = 0.
Proof. unfold bil. apply rsum_zero. intros i _. apply rsum_zero. intros j _. ring. Qed.

(* weighted sums commute with the bilinear form *)
Lemma bil_wsum_l n d L (w : nat -> R) (a : nat -> nat -> R) c :
  rsum n (fun l => w l * bil d L (a l) c) = bil d L (fun i => rsum n (fun l => w l * a l i)) c.
Proof.
  unfold bil.
  transitivity (rsum n (fun l => rsum d (fun i => rsum d (fun j => w l * a l i * L i j * c j)))).
  { apply rsum_ext. intros l _. rewrite <- rsum_scal. apply rsum_ext. intros i _. rewrite <- rsum_scal.
    apply rsum_ext. intros j _. ring. }
  rewrite rsum_swap. apply rsum_ext. intros i _. rewrite rsum_swap. apply rsum_ext. intros j _.
  rewrite <- !rsum_scal_r. apply rsum_ext. intros l _. ring.
Qed.
Lemma bil_wsum_r n d L (w : nat -> R) (a : nat -> nat -> R) c :
  rsum n (fun l => w l * bil d L c (a l)) = bil d L c (fun i => rsum n (fun l => w l * a l i)).
Proof.
  unfold bil.
  transitivity (rsum n (fun l => rsum d (fun i => rsum d (fun j => c i * L i j * (w l * a l j))))).
  { apply rsum_ext. intros l _. rewrite <- rsum_scal. apply rsum_ext. intros i _. rewrite <- rsum_scal.
    apply rsum_ext. intros j _. ring. }
  rewrite rsum_swap. apply rsum_ext. intros i _. rewrite rsum_swap. apply rsum_ext. intros j _.
  rewrite <- rsum_scal. reflexivity.
Qed.

Lemma centred_sum_zero n w x i : rsum n w <> 0 -> rsum n (fun l => w l * (x l i - vmean n w x i)) = 0.
Proof.
  intros HW. transitivity (rsum n (fun l => w l * x l i) - rsum n (fun l => vmean n w x i * w l)).
  { rewrite <- rsum_minus. apply rsum_ext. intros l _. ring. }
  rewrite rsum_scal. unfold vmean. field. exact HW.
Qed.

(* the vector form of  sum w (x - mu)^2 = sum w (x - mu* )^2 + W (mu* - mu)^2,  for every matrix L *)
Lemma wquad_identity n d w x L mu : rsum n w <> 0 ->
  rsum n (fun l => w l * quad d L (fun i => x l i - mu i))
  = rsum n (fun l => w l * quad d L (fun i => x l i - vmean n w x i))
    + rsum n w * quad d L (fun i => vmean n w x i - mu i).
Proof.
  intros HW. set (m := vmean n w x). set (c := fun i => m i - mu i).
  assert (E : forall l, quad d L (fun i => x l i - mu i)
     = quad d L (fun i => x l i - m i) + bil d L (fun i => x l i - m i) c + bil d L c (fun i => x l i - m i) + quad d L c).
  { intros l. unfold quad.
    rewrite (bil_ext d L (fun i => x l i - mu i) (fun i => (x l i - m i) + c i)
                         (fun i => x l i - mu i) (fun i => (x l i - m i) + c i)) by (intros; unfold c; ring).
    rewrite bil_add_l, !bil_add_r. ring. }
  transitivity (rsum n (fun l => w l * quad d L (fun i => x l i - m i))
                + rsum n (fun l => w l * bil d L (fun i => x l i - m i) c)
                + rsum n (fun l => w l * bil d L c (fun i => x l i - m i))
                + rsum n (fun l => quad d L c * w l)).
  { rewrite <- !rsum_plus. apply rsum_ext. intros l _. rewrite E. ring. }
  rewrite (bil_wsum_l n d L w (fun l i => x l i - m i) c), (bil_wsum_r n d L w (fun l i => x l i - m i) c).
  rewrite (bil_ext d L (fun i => rsum n (fun l => w l * (x l i - m i))) (fun _ => 0) c c)
    by (intros; try reflexivity; apply centred_sum_zero; exact HW).
  rewrite (bil_ext d L c c (fun i => rsum n (fun l => w l * (x l i - m i))) (fun _ => 0))
    by (intros; try reflexivity; apply centred_sum_zero; exact HW).
  rewrite bil_zero_l, bil_zero_r, rsum_scal. ring.
Qed.

(* the mean part, every dimension, EVERY covariance (precision L positive semi-definite, any ld):
   the weighted mean maximises the weighted Gaussian log-likelihood *)
Theorem vnormal_mean_max n d w x ld L mu :
  0 < rsum n w -> psd d L -> vll n d w x ld L mu <= vll n d w x ld L (vmean n w x).
Proof.
  intros HW HL. unfold vll.
  assert (E : forall m, rsum n (fun l => w l * (ld / 2 - quad d L (fun i => x l i - m i) / 2))
              = ld / 2 * rsum n w - rsum n (fun l => w l * quad d L (fun i => x l i - m i)) / 2).
  { intros m.
    transitivity (rsum n (fun l => ld / 2 * w l - w l * quad d L (fun i => x l i - m i) * / 2)).
    { apply rsum_ext. intros l _. field. }
    rewrite rsum_minus, rsum_scal, rsum_scal_r. reflexivity. }
  rewrite (E mu), (E (vmean n w x)). rewrite (wquad_identity n d w x L mu) by lra.
  pose proof (HL (fun i => vmean n w x i - mu i)) as Hq. nra.
Qed.

(* ---- dimension 1 and diagonal covariances: the clamp of the VARIANCE at SigmaMin ---- *)
Lemma sqrt_Rmax a b : sqrt (Rmax a b) = Rmax (sqrt a) (sqrt b).
Proof.
  unfold Rmax. destruct (Rle_dec a b) as [H|H]; destruct (Rle_dec (sqrt a) (sqrt b)) as [H'|H']; try reflexivity.
  - exfalso. apply H'. apply sqrt_le_1_alt. exact H.
  - assert (sqrt b <= sqrt a) by (apply sqrt_le_1_alt; lra). lra.
Qed.

(* scalar data, parameters (mu, VARIANCE v) as the vector estimator stores them *)
Definition ll_normal_var (dt : wdata) (mu v : R) := ll_normal dt mu (sqrt v).
Definition mle_var_clamped (smin : R) (dt : wdata) := Rmax (mle_var dt) smin.

Theorem vnormal_dim1_max smin dt :
  nonneg_w dt -> 0 < sumw dt -> 0 <= smin -> 0 < mle_var_clamped smin dt ->
  forall mu v, 0 < v -> smin <= v -> ll_normal_var dt mu v <= ll_normal_var dt (mle_mu dt) (mle_var_clamped smin dt).
Proof.
  intros Hw HW Hs Hpos mu v Hv Hle. unfold ll_normal_var, mle_var_clamped in *.
  rewrite sqrt_Rmax. change (Rmax (sqrt (mle_var dt)) (sqrt smin)) with (mle_sigma (sqrt smin) dt).
  apply normal_max; try assumption.
  - apply sqrt_pos.
  - unfold mle_sigma. rewrite <- sqrt_Rmax. apply sqrt_lt_R0. exact Hpos.
  - apply sqrt_lt_R0. exact Hv.
  - apply sqrt_le_1_alt. exact Hle.
Qed.

(* coordinate i of vector data as scalar weighted data *)
Definition coord (n : nat) (w : nat -> R) (x : nat -> nat -> R) (i : nat) : wdata := map (fun l => (w l, x l i)) (seq 0 n).
(* log-likelihood of the diagonal-covariance Gaussian diag(v): sum of the coordinate log-likelihoods *)
Definition vll_diag (n d : nat) w x (mu v : nat -> R) : R := rsum d (fun i => ll_normal_var (coord n w x i) (mu i) (v i)).

Lemma coord_nonneg n w x i : (forall l, (l < n)%nat -> 0 <= w l) -> nonneg_w (coord n w x i).
Proof.
  intros Hw p Hp. unfold coord in Hp. apply in_map_iff in Hp. destruct Hp as (l & <- & Hl). apply in_seq in Hl. simpl. apply Hw. lia.
Qed.
Lemma coord_sumw n w x i : sumw (coord n w x i) = rsum n w.
Proof. unfold sumw, coord. rewrite (lsum_seq (fun l => (w l, x l i))). reflexivity. Qed.
Lemma coord_mean n w x i : mle_mu (coord n w x i) = vmean n w x i.
Proof. unfold mle_mu, vmean. rewrite coord_sumw. unfold sumwx, coord. rewrite (lsum_seq (fun l => (w l, x l i))). reflexivity. Qed.
Lemma coord_var n w x i : mle_var (coord n w x i) = vcov n w x i i.
Proof.
  unfold mle_var, vcov. rewrite coord_mean, coord_sumw. unfold sumwxx, coord. rewrite (lsum_seq (fun l => (w l, x l i))). simpl.
  f_equal. f_equal. apply rsum_ext. intros l _. ring.
Qed.

(* every dimension, diagonal covariances: (weighted mean, diagonal of the moment matrix clamped at SigmaMin) —
   exactly the mean and the diagonal the estimator returns — beats every (mu, diag v) with v_i >= SigmaMin *)
Theorem vnormal_diagonal_max n d w x smin :
  (forall l, (l < n)%nat -> 0 <= w l) -> 0 < rsum n w -> 0 <= smin ->
  (forall i, (i < d)%nat -> 0 < Rmax (vcov n w x i i) smin) ->
  forall mu v, (forall i, (i < d)%nat -> 0 < v i /\ smin <= v i) ->
    vll_diag n d w x mu v <= vll_diag n d w x (vmean n w x) (fun i => Rmax (vcov n w x i i) smin).
Proof.
  intros Hw HW Hs Hpos mu v Hv. unfold vll_diag. apply rsum_le. intros i Hi.
  rewrite <- coord_mean, <- coord_var. apply vnormal_dim1_max.
  - apply coord_nonneg. exact Hw.
  - rewrite coord_sumw. exact HW.
  - exact Hs.
  - unfold mle_var_clamped. rewrite coord_var. apply Hpos. exact Hi.
  - apply Hv. exact Hi.
  - apply Hv. exact Hi.
Qed.

(* ---- the full covariance statement, reduced to the log-det inequality ---- *)
(* Sigma part at the optimal mean: vll at (ld, L) is  W/2 (ld - tr(L S)) with S the moment matrix *)
Definition trLS (d : nat) (L S : nat -> nat -> R) : R := rsum d (fun i => rsum d (fun j => L i j * S i j)).

Lemma wquad_is_trace n d w x L : rsum n w <> 0 ->
  rsum n (fun l => w l * quad d L (fun i => x l i - vmean n w x i)) = rsum n w * trLS d L (vcov n w x).
Proof.
  intros HW. unfold quad, bil, trLS.
  transitivity (rsum d (fun i => rsum d (fun j => L i j *
                  rsum n (fun l => w l * (x l i - vmean n w x i) * (x l j - vmean n w x j))))).
  { transitivity (rsum n (fun l => rsum d (fun i => rsum d (fun j =>
        L i j * (w l * (x l i - vmean n w x i) * (x l j - vmean n w x j)))))).
    { apply rsum_ext. intros l _. rewrite <- rsum_scal. apply rsum_ext. intros i _. rewrite <- rsum_scal.
      apply rsum_ext. intros j _. ring. }
    rewrite rsum_swap. apply rsum_ext. intros i _. rewrite rsum_swap. apply rsum_ext. intros j _.
    rewrite rsum_scal. reflexivity. }
  rewrite <- rsum_scal. apply rsum_ext. intros i _. rewrite <- rsum_scal. apply rsum_ext. intros j _.
  assert (E : rsum n (fun l => w l * (x l i - vmean n w x i) * (x l j - vmean n w x j)) = rsum n w * vcov n w x i j).
  { transitivity (rsum n (fun l => w l * x l i * x l j) - vmean n w x j * rsum n (fun l => w l * x l i)
                  - vmean n w x i * rsum n (fun l => w l * x l j) + vmean n w x i * vmean n w x j * rsum n w).
    { rewrite <- !rsum_scal, <- !rsum_minus, <- rsum_plus. apply rsum_ext. intros l _. ring. }
    unfold vcov, vmean. field. exact HW. }
  rewrite E. ring.
Qed.

(* PARTIAL (full covariance, every dimension): given the matrix inequality
       ld - tr(L S) <= ld* - tr(L* S)      for the candidate precision (L, ld = ln det L)
   (for L* = S^-1 this is  ln det(L S) <= tr(L S) - d, which is NOT proved here for general d),
   the estimator's (weighted mean, moment matrix) beats (mu, L).  Proved below without the hypothesis for
   d = 1 and for diagonal covariances; the mean part holds unconditionally (vnormal_mean_max). *)
Theorem vnormal_full_max_partial n d w x ld L ld' L' mu :
  0 < rsum n w -> psd d L ->
  ld - trLS d L (vcov n w x) <= ld' - trLS d L' (vcov n w x) ->
  vll n d w x ld L mu <= vll n d w x ld' L' (vmean n w x).
Proof.
  intros HW HL Hineq. apply Rle_trans with (vll n d w x ld L (vmean n w x)); [apply vnormal_mean_max; assumption|].
  unfold vll.
  assert (E : forall ld0 L0, rsum n (fun l => w l * (ld0 / 2 - quad d L0 (fun i => x l i - vmean n w x i) / 2))
              = rsum n w / 2 * (ld0 - trLS d L0 (vcov n w x))).
  { intros ld0 L0.
    transitivity (ld0 / 2 * rsum n w - rsum n (fun l => w l * quad d L0 (fun i => x l i - vmean n w x i)) / 2).
    { transitivity (rsum n (fun l => ld0 / 2 * w l - w l * quad d L0 (fun i => x l i - vmean n w x i) * / 2)).
      { apply rsum_ext. intros l _. field. }
      rewrite rsum_minus, rsum_scal, rsum_scal_r. reflexivity. }
    rewrite wquad_is_trace by lra. field. }
  rewrite (E ld L), (E ld' L'). nra.
Qed.

(* ---- the diagonal clamp with correlated data is NOT the constrained optimum (finding F-VNORMAL-CLAMP) ---- *)
(* two observations (2,1), (-2,-1), unit weights, SigmaMin = 2 *)
Definition cw_x (l i : nat) : R :=
  match l, i with O, O => 2 | O, _ => 1 | _, O => -2 | _, _ => -1 end.
Definition cw_w (_ : nat) : R := 1.
(* returned covariance [[4,2],[2,2]] (entry (1,1) clamped from 1), its inverse: *)
Definition cw_L (i j : nat) : R := match i, j with O, O => 1/2 | O, _ => -1/2 | _, O => -1/2 | _, _ => 1 end.
(* the admissible alternative [[10,4],[4,2]] (same determinant 4, both variances >= 2), its inverse: *)
Definition cw_L' (i j : nat) : R := match i, j with O, O => 1/2 | O, _ => -1 | _, O => -1 | _, _ => 5/2 end.

Lemma vnormal_clamp_refuted :
  (* the model returns mean (0,0) and covariance [[4,2],[2,2]] *)
  vn_est NumR exp 2 2 [[2; 1]; [-2; -1]] None = ([0; 0], [[4; 2]; [2; 2]]) /\
  (* L, L' are the inverses of [[4,2],[2,2]] and [[10,4],[4,2]] *)
  (4 * cw_L 0 0 + 2 * cw_L 1 0 = 1 /\ 4 * cw_L 0 1 + 2 * cw_L 1 1 = 0 /\ 2 * cw_L 0 0 + 2 * cw_L 1 0 = 0 /\ 2 * cw_L 0 1 + 2 * cw_L 1 1 = 1) /\
  (10 * cw_L' 0 0 + 4 * cw_L' 1 0 = 1 /\ 10 * cw_L' 0 1 + 4 * cw_L' 1 1 = 0 /\ 4 * cw_L' 0 0 + 2 * cw_L' 1 0 = 0 /\ 4 * cw_L' 0 1 + 2 * cw_L' 1 1 = 1) /\
  (* both covariances have determinant 4 (so ld is the same), both respect SigmaMin = 2 on the diagonal,
     and the alternative has the strictly higher log-likelihood *)
  4 * 2 - 2 * 2 = 10 * 2 - 4 * 4 /\
  forall ld, vll 2 2 cw_w cw_x ld cw_L (fun _ => 0) < vll 2 2 cw_w cw_x ld cw_L' (fun _ => 0).
Proof.
  split; [|split; [|split; [|split]]].
  - unfold vn_est, vn_params, vn_acc, vn_obs, vacc0, vn_clamp. simpl.
    unfold Rltb. repeat match goal with |- context [Rlt_dec ?a ?b] => destruct (Rlt_dec a b); try lra end.
    all: simpl; repeat f_equal; try field; try lra.
  - unfold cw_L. repeat split; lra.
  - unfold cw_L'. repeat split; lra.
  - lra.
  - intros ld. unfold vll, quad, bil, cw_w, cw_x, cw_L, cw_L'. simpl. lra.
Qed.
