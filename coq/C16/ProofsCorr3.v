(* C16 round 3: the constant used by the normal-mixture EM replay (Corr3.inv_sqrt_2pi_q) encloses 1/sqrt(2 pi). *)
From Coq Require Import Reals QArith Qreals.
From Interval Require Import Tactic.
From ADV Require Import C16.Corr3.
Open Scope R_scope.

Lemma inv_sqrt_2pi_q_certified : Rabs (1 / sqrt (2 * PI) - Q2R inv_sqrt_2pi_q) <= 1 / 10 ^ 15.
Proof. unfold inv_sqrt_2pi_q, Q2R. simpl. interval with (i_prec 80). Qed.
