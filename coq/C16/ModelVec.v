(* C16 round 3 — executable models of
     statistics/vectorEstimator/normal.go      (NormalEstimator: mean vector + covariance, ONE worker thread),
     statistics/vectorEstimator/scalarId.go    (product of independent scalar estimators, one per coordinate),
     statistics/vectorEstimator/scalarIid.go   (one scalar estimator on the pooled coordinates),
     statistics/scalarEstimator/negativeBinomial.go (closed form for p with r fixed; linear-scale closed form).
   Carrier-generic (ADV.Base.Num): floats for the bit-exact replay, Q for closed forms, R for the theorems.
   No proofs in this file. *)
From Coq Require Import ZArith List Bool.
From ADV Require Import Base.Num C16.Model.
Import ListNotations.

Section VecNormal.
Context {A : Type} (N : Num A).
Local Notation "x +! y" := (add N x y) (at level 50, left associativity).
Local Notation "x -! y" := (sub N x y) (at level 50, left associativity).
Local Notation "x *! y" := (mul N x y) (at level 40, left associativity).
Local Notation "x /! y" := (div N x y) (at level 40, left associativity).

(* state of one thread: sum_g, sum_m[i], sum_s[i][j] *)
Record vacc := mkVacc { v_g : A; v_m : list A; v_s : list (list A) }.

(* Initialize: zeros of dimension n *)
Definition vacc0 (n : nat) : vacc := mkVacc (zero N) (repeat (zero N) n) (repeat (repeat (zero N) n) n).

Fixpoint map2 {X Y Z} (f : X -> Y -> Z) (a : list X) (b : list Y) : list Z :=
  match a, b with x :: a', y :: b' => f x y :: map2 f a' b' | _, _ => [] end.

(* NewObservation (dimension already checked):
     gamma == nil:  sum_g += 1; sum_m[i] += xi;   sum_s[i][j] += xi*xj
     else        :  sum_g += g; sum_m[i] += g*xi; sum_s[i][j] += g*xi*xj     (= (g*xi)*xj)          *)
Definition vn_obs (acc : vacc) (x : list A) (g : option A) : vacc :=
  match g with
  | None =>
      mkVacc (v_g acc +! one N)
             (map2 (fun m xi => m +! xi) (v_m acc) x)
             (map2 (fun row xi => map2 (fun s xj => s +! xi *! xj) row x) (v_s acc) x)
  | Some g =>
      mkVacc (v_g acc +! g)
             (map2 (fun m xi => m +! g *! xi) (v_m acc) x)
             (map2 (fun row xi => map2 (fun s xj => s +! g *! xi *! xj) row x) (v_s acc) x)
  end.

Fixpoint vn_acc (acc : vacc) (xs : list (list A)) (gs : option (list A)) : vacc :=
  match xs with
  | [] => acc
  | x :: xs' =>
      match gs with
      | None => vn_acc (vn_obs acc x None) xs' None
      | Some [] => acc
      | Some (g :: gs') => vn_acc (vn_obs acc x (Some g)) xs' (Some gs')
      end
  end.

(* estimateParameters (one thread: no merge arithmetic):
     mu[i]   = sum_m[i]/sum_g
     si[i,j] = sum_s[i][j]/sum_g - sum_m[i]/sum_g*sum_m[j]/sum_g       (Go parses the last term as ((mi/g)*mj)/g)
     diagonal: if NaN or < SigmaMin then SigmaMin                                                        *)
Definition vn_clamp (smin s : A) : A := if is_nan N s || ltb N s smin then smin else s.

Definition vn_params (smin : A) (acc : vacc) : list A * list (list A) :=
  let sg := v_g acc in
  let mu := map (fun m => m /! sg) (v_m acc) in
  let si :=
    map (fun irow =>
           let '(i, mi, row) := irow in
           map (fun jms =>
                  let '(j, mj, s) := jms in
                  let v := s /! sg -! mi /! sg *! mj /! sg in
                  if Nat.eqb i j then vn_clamp smin v else v)
               (combine (combine (seq 0 (length row)) (v_m acc)) row))
        (combine (combine (seq 0 (length (v_s acc))) (v_m acc)) (v_s acc)) in
  (mu, si).

(* Estimate up to (and excluding) the constructor of the distribution, whose Cholesky-based guards are not
   modelled: the correspondence decides positive definiteness of the returned matrix in exact arithmetic *)
Definition vn_est (EXP : A -> A) (n : nat) (smin : A) (xs : list (list A)) (gamma : option (list (option A)))
  : list A * list (list A) :=
  match gamma with
  | None => vn_params smin (vn_acc (vacc0 n) xs None)
  | Some g =>
      let gm := gamma_max N g in
      vn_params smin (vn_acc (vacc0 n) xs (Some (map (rescaled N EXP gm) g)))
  end.
End VecNormal.

(* ------------------------------------------------------------------ *)
(* scalarId.go: estimator i sees column i of the data and the SAME gamma; the estimate is the tuple of the
   component estimates, an error of any component is an error of the product.
   scalarIid.go: ONE estimator sees all coordinates of all vectors, concatenated in data order.          *)
Section Products.
Context {X P : Type}.

Fixpoint column (i : nat) (xs : list (list X)) : option (list X) :=
  match xs with
  | [] => Some []
  | x :: r => match nth_error x i, column i r with
              | Some v, Some c => Some (v :: c)
              | _, _ => None end
  end.

Fixpoint all_some_p {Y} (l : list (option Y)) : option (list Y) :=
  match l with
  | [] => Some []
  | Some x :: r => match all_some_p r with Some r' => Some (x :: r') | None => None end
  | None :: _ => None
  end.

(* est i = the i-th component estimator as a function of (column, gamma) *)
Definition scalar_id_est {G} (ests : list (list X -> G -> option P)) (xs : list (list X)) (gamma : G)
  : option (list P) :=
  all_some_p (map (fun ie => match column (fst ie) xs with
                             | Some c => snd ie c gamma
                             | None => None end)
                  (combine (seq 0 (length ests)) ests)).

Definition scalar_iid_est {G} (est : list X -> G -> option P) (xs : list (list X)) (gamma : G) : option P :=
  est (concat xs) gamma.
End Products.

(* ------------------------------------------------------------------ *)
(* negativeBinomial.go: r is fixed; sum_k = LogAdd-fold of g + Log(x), sum_r = LogAdd-fold of g + Log(r);
   p = exp(sum_k - LogAdd(sum_r, sum_k)); error when both sums are -Inf; the constructor rejects p < 0, p > 1
   (p = 0 and p = 1 pass).  Linear-scale closed form: p = M / (r W + M).                                   *)
Section NegBin.
Context {A : Type} (N : Num A).
Definition cf_negbin (r : A) (d : list (A * A)) : option A :=
  let W := cf_W N d in let M := cf_M N d in
  let den := add N (mul N r W) M in
  if leb N den (zero N) then None else Some (div N M den).
End NegBin.
