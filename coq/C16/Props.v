(* C16 — property theorems (statements only; proofs in ProofsMax / ProofsEM / ProofsModel).
   Over exact real arithmetic, for ALL data sets of every size, all non-negative
   weights with positive total, all admissible parameters. *)
From Coq Require Import Reals List Lra.
From ADV Require Import Base.Num C16.Model C16.ModelHmm C16.Spec C16.ProofsMax C16.ProofsEM C16.ProofsModel
  C16.ProofsBW C16.ProofsBW2 C16.ProofsBW3 C16.ProofsClamp C16.ModelVec C16.ProofsVec C16.ProofsDet
  C16.ModelNest C16.ProofsNest C16.ModelObj C16.ProofsObj C16.ProofsBatch C16.ModelNum C16.ProofsNum.
Import ListNotations.
Open Scope R_scope.

(* (1) closed forms are maximisers of the weighted log-likelihood within the configured bounds *)

(* the identity behind the normal case:  sum w (x - mu)^2 = W (var* + (mu - mu* )^2) *)
Theorem normal_sq_dev_identity : forall d mu, sumw d <> 0 ->
  sq_dev d mu = sumw d * (mle_var d + (mu - mle_mu d) * (mu - mle_mu d)).
Proof. exact sq_dev_identity. Qed.

(* normal: (mu*, max(sqrt var*, SigmaMin)) beats every (mu, sigma) with sigma >= SigmaMin *)
Theorem normal_estimate_is_constrained_maximiser : forall sigma_min d,
  nonneg_w d -> 0 < sumw d -> 0 <= sigma_min -> 0 < mle_sigma sigma_min d ->
  forall mu sigma, 0 < sigma -> sigma_min <= sigma ->
    ll_normal d mu sigma <= ll_normal d (mle_mu d) (mle_sigma sigma_min d).
Proof. exact normal_max. Qed.

(* exponential: min(W / sum w x, LambdaMax) beats every rate in (0, LambdaMax] *)
Theorem exponential_estimate_is_constrained_maximiser : forall lam_max d,
  nonneg_w d -> nonneg_x d -> 0 < sumw d -> 0 < sumwx d -> 0 < lam_max ->
  forall lam, 0 < lam -> lam <= lam_max ->
    ll_exponential d lam <= ll_exponential d (mle_exp_rate lam_max d).
Proof. exact exponential_max. Qed.

(* ... and with all observations zero the bound itself is the optimum *)
Theorem exponential_all_zero_bound_is_maximiser : forall lam_max d,
  0 < sumw d -> sumwx d = 0 -> 0 < lam_max ->
  forall lam, 0 < lam -> lam <= lam_max -> ll_exponential d lam <= ll_exponential d lam_max.
Proof. exact exponential_max_degenerate. Qed.

(* the same for the closed form the correspondence executes (carrier-generic cf_exponential at R) *)
Theorem exponential_model_is_constrained_maximiser : forall lam_max d v,
  nonneg_w d -> nonneg_x d -> cf_exponential NumR lam_max d = Some v ->
  0 < v /\ v <= lam_max /\
  forall lam, 0 < lam -> lam <= lam_max -> ll_exponential d lam <= ll_exponential d v.
Proof. exact cf_exponential_is_max. Qed.

Theorem poisson_estimate_is_maximiser : forall d,
  nonneg_w d -> nonneg_x d -> 0 < sumw d -> 0 < sumwx d ->
  forall lam, 0 < lam -> ll_poisson d lam <= ll_poisson d (mle_poisson d).
Proof. exact poisson_max. Qed.

(* geometric on {0,1,2,..}: p* = W / (W + sum w x); p = 1 only competes when no mass lies above 0 *)
Theorem geometric_estimate_is_maximiser : forall d,
  nonneg_w d -> nonneg_x d -> 0 < sumw d ->
  forall p, 0 < p -> p <= 1 -> (0 < sumwx d -> p < 1) ->
    ll_geometric d p <= ll_geometric d (mle_geometric d).
Proof. exact geometric_max. Qed.

(* categorical (Gibbs): ct = list of (weighted count c_j, candidate theta_j); candidates are sub-probability
   vectors that are positive wherever a count is positive (otherwise their likelihood is -infinity) *)
Theorem categorical_estimate_is_maximiser : forall ct,
  0 < cat_counts ct ->
  (forall q, In q ct -> 0 <= fst q /\ 0 <= snd q /\ (0 < fst q -> 0 < snd q)) ->
  cat_theta_sum ct <= 1 ->
  ll_categorical ct <= ll_categorical (cat_mle ct).
Proof. exact categorical_max. Qed.

(* the log-scale accumulation of exponential.go / poisson.go / geometric.go / categorical.go / EmStep
   (LogAdd folds starting at -Inf = None) computes, over R, exactly the linear sums the closed forms use:
   exp(LogAdd(a, b)) = exp a + exp b with exp(-Inf) = 0, and the fold is the sum *)
Theorem logadd_is_addition_on_linear_scale : forall a b,
  lexpR (logadd NumR exp LOG1P_R a b) = lexpR a + lexpR b.
Proof. exact logadd_R. Qed.
Theorem logadd_fold_is_linear_sum : forall ts acc,
  lexpR (fold_left (logadd NumR exp LOG1P_R) ts acc) = lexpR acc + fold_right (fun t s => lexpR t + s) 0 ts.
Proof. exact logsum_R. Qed.

(* (2) EM ascent for finite mixtures: n data with multiplicities / outer weights c, K components,
   old weights pi and densities f k l, new weights = normalised responsibility sums, new densities f'
   such that no component's responsibility-weighted log-likelihood decreased (by (1) for the exact
   M-steps) and f' is positive wherever a responsibility is.  Zeros allowed everywhere else. *)
Theorem em_step_never_decreases_likelihood : forall n K c pi pi' f f',
  (forall l, (l < n)%nat -> 0 <= c l) ->
  (forall k, (k < K)%nat -> 0 <= pi k) -> rsum K pi <= 1 ->
  (forall k l, (k < K)%nat -> (l < n)%nat -> 0 <= f k l) ->
  (forall k l, (k < K)%nat -> (l < n)%nat -> 0 <= f' k l) ->
  (forall l, (l < n)%nat -> 0 < mix K pi f l) ->
  0 < rsum K (resp_sum n K c pi f) ->
  (forall k, (k < K)%nat -> pi' k = new_pi n K c pi f k) ->
  (forall k l, (k < K)%nat -> (l < n)%nat -> 0 < resp K c pi f k l -> 0 < f' k l) ->
  (forall k, (k < K)%nat -> comp_ll n (resp K c pi f k) (f k) <= comp_ll n (resp K c pi f k) (f' k)) ->
  loglik n K c pi f <= loglik n K c pi' f'.
Proof. exact em_ascent_main. Qed.

(* the weight part of the M-step on its own: normalised responsibility sums maximise sum_k R_k ln pi_k *)
Theorem em_weight_update_is_maximiser : forall K (c t : nat -> R),
  (forall k, (k < K)%nat -> 0 <= c k /\ 0 <= t k /\ (0 < c k -> 0 < t k)) ->
  0 < rsum K c -> rsum K t <= 1 ->
  rsum K (fun k => c k * ln (t k)) <= rsum K (fun k => c k * ln (c k / rsum K c)).
Proof. exact gibbs_index. Qed.

(* (3) likelihood bookkeeping of emAlgorithm, for every step function of the shape the code has
   (Step returns the likelihood under the parameters it starts from, then the parameters are updated):
   hook call t carries iteration index t and the mixture after t updates; for t = j+1 >= 1 its likelihood is
   the likelihood of the mixture after j updates and its change is the difference to the previous value. *)
Theorem em_hook_bookkeeping : forall (P L : Type) (ell : P -> L) (upd : P -> P) (lsubL : L -> L -> L) (conv : L -> bool)
    fuel nested ms th0 nanL neg_inf hs thf ex,
  em_algorithm (step_of ell upd) lsubL conv neg_inf nanL fuel nested ms th0 = (hs, thf, ex) ->
  forall t h, nth_error hs t = Some h ->
    h_iter h = t /\ h_mix h = iter_l upd t th0 /\
    (forall j, t = S j -> h_lik h = ell (iter_l upd j th0) /\
       h_eps h = lsubL (ell (iter_l upd j th0)) (match j with O => neg_inf | S j' => ell (iter_l upd j' th0) end)).
Proof. intros P L ell upd lsubL conv. exact (em_algorithm_hooks ell upd lsubL conv). Qed.

(* ... hence the stronger reading "the likelihood of a hook call is that of the mixture handed to the SAME call"
   does not hold (finding F-EMHOOK-LAG; the Go witness is corpus/C16/lag_witness.json) *)
Theorem em_hook_likelihood_of_same_call_refuted :
  exists (hs : list (hookcall (P:=nat) (L:=nat))) thf ex,
    em_algorithm (step_of (fun th => th) S) Nat.sub (fun _ => false) 0%nat 0%nat 3 false (Some 2%nat) 7%nat = (hs, thf, ex) /\
    exists h, nth_error hs 1 = Some h /\ h_lik h <> (fun th => th) (h_mix h).
Proof. exact hook_likelihood_of_same_call_refuted. Qed.

(* hypotheses of (1)/(2) are satisfiable by non-trivial instances *)
Example normal_hypotheses_satisfiable :
  let d := [(1, 0); (2, 3); (0, 100)] in
  nonneg_w d /\ 0 < sumw d /\ 0 < mle_sigma (1/2) d.
Proof.
  simpl. split; [|split].
  - intros p [<-|[<-|[<-|[]]]]; simpl; lra.
  - unfold sumw; simpl; lra.
  - unfold mle_sigma. apply Rlt_le_trans with (1/2); [lra|apply Rmax_r].
Qed.
Example em_hypotheses_satisfiable :
  let pi := fun _ : nat => 1/2 in let f := fun k l : nat => 1 in
  (forall l, (l < 2)%nat -> 0 < mix 2 pi f l) /\ rsum 2 pi <= 1.
Proof. simpl. split; [intros l _; unfold mix; simpl; lra|simpl; lra]. Qed.

(* The latent-variable bound every EM step rests on, for ANY finite latent space (K = number of latent
   values, a z = p(x, z | theta), a' z = p(x, z | theta')):
     ln p(x | theta') - ln p(x | theta) >= sum_z posterior(z) (ln a' z - ln a z). *)
Theorem latent_variable_bound : forall K (a a' : nat -> R),
  (forall k, (k < K)%nat -> 0 <= a k) -> (forall k, (k < K)%nat -> 0 <= a' k) ->
  0 < rsum K a -> (forall k, (k < K)%nat -> 0 < a k -> 0 < a' k) ->
  0 < rsum K a' /\
  rsum K (fun k => a k / rsum K a * (ln (a' k) - ln (a k))) <= ln (rsum K a') - ln (rsum K a).
Proof. exact em_datum. Qed.

(* (2') Baum-Welch.  ModelHmm.v is the linear-scale model of BaumWelchStep (one worker thread, no start /
   final states): forward / backward vectors of the chain a_0(i) = Pi(i) e(i,0), f_t(i,j) = Tr(i,j) e(j,t+1);
   gamma_k = alpha_k beta_k / sum_i alpha_k(i) beta_k(i); xi_t(i,j) = alpha_t(i) Tr(i,j) beta_{t+1}(j) e(j,t+1)
   / (its sum over i,j); Pi' = normalised sum_s gamma^s_0, Tr' = row-normalised sum_{s,t} xi^s_t (a row
   without expected transitions becomes the identity row); likelihood of a sequence = sum_i alpha_{n-1}(i)
   (= the sum over all state paths of the path weight: coq/C15 forward_is_path_sum / logpdf_is_enumeration).

   The bound for a chain of non-negative factors, proved by induction along the chain with one Jensen step per
   position (no path enumeration): the quantities on the left are the unnormalised expected counts. *)
Theorem hmm_chain_jensen_bound : forall M fs fs' a a', length fs = length fs' ->
  nonneg1 M a -> nonneg1 M a' -> Forall (nonneg2 M) fs -> Forall (nonneg2 M) fs' ->
  (forall i, (i < M)%nat -> 0 < a i * c_bwd NumR M fs i -> 0 < a' i) ->
  c_supp M a fs fs' ->
  rsum M (fun i => a i * c_bwd NumR M fs i * (ln (a' i) - ln (a i))) + c_Q M a fs fs'
  <= c_L M a fs * (ln (c_L M a' fs') - ln (c_L M a fs)).
Proof. exact chain_bound. Qed.

(* the two normalisers BaumWelchStep computes (sum_i alpha_k(i) beta_k(i) at every position, sum_ij xi0_t(i,j) at
   every transition) and the reported likelihood sum_i alpha_{n-1}(i) are one and the same number *)
Theorem baum_welch_normalisers_are_the_likelihood : forall M n pi tr e,
  (1 <= n)%nat ->
  (forall k, (k <= n - 1)%nat -> rsum M (sq_g0 M n pi tr e k) = rsum M (sq_al M n pi tr e (n - 1))) /\
  (forall t, (t < n - 1)%nat -> rsum M (fun i => rsum M (fun j => sq_x0 M n pi tr e t i j)) = rsum M (sq_al M n pi tr e (n - 1))).
Proof.
  intros M n pi tr e Hn. split.
  - intros k Hk. rewrite lik_is_L. apply g0_total. exact Hk.
  - intros t Ht. rewrite lik_is_L. apply x0_total; assumption.
Qed.

(* Baum-Welch ascent: for every number of states M, every data set (nseq sequences of lengths len s >= 1),
   every sub-stochastic initialisation with zeros anywhere (as long as every sequence has positive likelihood),
   one step of the model with emission densities e' that come from M-steps which do not decrease the
   gamma-weighted log-likelihood (exact M-steps: theorems (1)) and are positive where gamma is, never decreases
   the data log-likelihood. *)
Theorem baum_welch_step_never_decreases_likelihood : forall M nseq len pi tr e e',
  (forall s, (s < nseq)%nat -> (1 <= len s)%nat) ->
  nonneg1 M pi -> rsum M pi <= 1 ->
  nonneg2 M tr -> (forall i, (i < M)%nat -> rsum M (tr i) <= 1) ->
  (forall s j k, (j < M)%nat -> 0 <= e s j k) -> (forall s j k, (j < M)%nat -> 0 <= e' s j k) ->
  (forall s, (s < nseq)%nat -> 0 < bw_lik NumR M len pi tr e s) ->
  (forall s k j, (s < nseq)%nat -> (k < len s)%nat -> (j < M)%nat ->
     0 < bw_gamma NumR M len pi tr e s k j -> 0 < e' s j k) ->
  rsum nseq (fun s => rsum (len s) (fun k => rsum M (fun j => bw_gamma NumR M len pi tr e s k j * ln (e s j k))))
  <= rsum nseq (fun s => rsum (len s) (fun k => rsum M (fun j => bw_gamma NumR M len pi tr e s k j * ln (e' s j k)))) ->
  rsum nseq (fun s => ln (bw_lik NumR M len pi tr e s))
  <= rsum nseq (fun s => ln (bw_lik NumR M len (bw_pi_new NumR M nseq len pi tr e) (bw_tr_new NumR M nseq len pi tr e) e' s)).
Proof. exact baum_welch_ascent. Qed.

(* the hypotheses are satisfiable: two states, one sequence of length 2, uniform parameters *)
Example baum_welch_hypotheses_satisfiable :
  let pi := fun _ : nat => 1/2 in let tr := fun _ _ : nat => 1/2 in let e := fun _ _ _ : nat => 1/2 in
  nonneg1 2 pi /\ rsum 2 pi <= 1 /\ (forall i, (i < 2)%nat -> rsum 2 (tr i) <= 1) /\
  0 < bw_lik NumR 2 (fun _ => 2%nat) pi tr e 0.
Proof.
  simpl. split; [intros i _; lra|]. split; [lra|]. split; [intros i _; lra|].
  unfold bw_lik. rewrite gsum_R. simpl. unfold bw_alpha. simpl. unfold c_step, tabn. simpl. lra.
Qed.

(* (1') the SigmaMin clamp as coded: normal.go's updateEstimate (model [normal_update], read over R) compares the
   STANDARD DEVIATION with SigmaMin and returns max(sqrt(E[x^2] - E[x]^2), SigmaMin) — exactly the sigma* of
   normal_estimate_is_constrained_maximiser; the float instance of the same text is replayed bit-exactly. *)
Theorem normal_update_returns_clamped_std_dev : forall smin acc mu sg,
  normal_update NumR smin acc = Some (mu, sg) ->
  let s1 := (0 + sum_m acc) / (0 + sum_g acc) in
  let s2 := (0 + sum_s acc) / (0 + sum_g acc) in
  mu = s1 /\ sg = Rmax (sqrt (s2 - s1 * s1)) smin /\ 0 < sg.
Proof. exact normal_update_clamps_std_dev. Qed.

(* (2'') normal components inside EM: with responsibilities r as weights, the clamped normal estimate satisfies the
   component hypothesis of em_step_never_decreases_likelihood against every (mu, sigma >= SigmaMin), densities included *)
Theorem em_normal_component_mstep_is_exact : forall n (r x : nat -> R) smin mu sigma,
  (forall l, (l < n)%nat -> 0 <= r l) -> 0 < rsum n r -> 0 <= smin ->
  let d := map (fun l => (r l, x l)) (seq 0 n) in
  0 < mle_sigma smin d -> 0 < sigma -> smin <= sigma ->
  comp_ll n r (fun l => normal_pdf mu sigma (x l))
  <= comp_ll n r (fun l => normal_pdf (mle_mu d) (mle_sigma smin d) (x l)).
Proof. exact em_normal_mstep_is_exact. Qed.

(* ------------------------------------------------------------------------------------------------------------ *)
(* Round 3: negative binomial, product estimators, vector normal.                                                *)

(* (1.nb) negative binomial with r fixed (negativeBinomial.go is a closed form, not a numeric estimator):
   p* = sum w x / (r W + sum w x) beats every p in (0,1) *)
Theorem negative_binomial_estimate_is_maximiser : forall r d,
  nonneg_w d -> nonneg_x d -> 0 < sumw d -> 0 < r ->
  forall p, 0 < p -> p < 1 -> ll_negbin d r p <= ll_negbin d r (mle_negbin r d).
Proof. exact negbin_max. Qed.
(* ... and the closed form the correspondence executes (cf_negbin at R) is that p* *)
Theorem negative_binomial_model_is_the_closed_form : forall r d v,
  cf_negbin NumR r d = Some v -> 0 < r * sumw d + sumwx d /\ v = mle_negbin r d.
Proof. exact cf_negbin_R. Qed.

(* (1.id) scalarId (model [scalar_id_est]: component i estimates on column i with the same log-weights): whenever
   every component estimator returns a maximiser of its own weighted log-likelihood (theorems (1)), the returned
   tuple maximises the log-likelihood of the product distribution (= sum of the component log-likelihoods) over
   all admissible tuples; for every number of components, data set and component families *)
Theorem scalar_id_estimate_is_componentwise_maximiser :
  forall (X P G : Type) (ll : nat -> list X -> G -> P -> R) (adm : nat -> P -> Prop) (xs : list (list X)) (g : G)
         (ests : list (list X -> G -> option P)) ps,
  (forall i est col p, nth_error ests i = Some est -> column i xs = Some col -> est col g = Some p ->
     forall q, adm i q -> ll i col g q <= ll i col g p) ->
  scalar_id_est ests xs g = Some ps ->
  length ps = length ests /\
  forall qs, length qs = length ests -> (forall i q, nth_error qs i = Some q -> adm i q) ->
    prod_ll ll xs g qs <= prod_ll ll xs g ps.
Proof. intros X P G ll adm xs g. exact (scalar_id_max ll adm xs g). Qed.

(* (1.iid) scalarIid (model [scalar_iid_est]: ONE estimator on the coordinates of all vectors, pooled in data order):
   the i.i.d. log-likelihood of the vectors is the scalar log-likelihood of the pooled data (lsum over a
   concatenation is the sum of the lsums), so the scalar maximiser is the maximiser *)
Theorem scalar_iid_estimate_is_pooled_maximiser :
  forall (X P G : Type) (ll : list X -> G -> P -> R) (adm : P -> Prop) (est : list X -> G -> option P) xs g p,
  (forall col p, est col g = Some p -> forall q, adm q -> ll col g q <= ll col g p) ->
  scalar_iid_est est xs g = Some p -> forall q, adm q -> ll (concat xs) g q <= ll (concat xs) g p.
Proof. intros X P G. exact (@scalar_iid_max X P G). Qed.
Theorem iid_loglikelihood_is_additive_over_vectors : forall f (vs : list wdata),
  lsum f (concat vs) = fold_right (fun v s => lsum f v + s) 0 vs.
Proof. exact lsum_concat. Qed.

(* (1.vn) vector normal.  n observations x l in R^d with weights w l, candidate (mu, precision matrix L = Sigma^-1,
   ld = ln det L); vll = weighted log-likelihood up to the constant.  The estimator returns the weighted mean
   [vmean] and the moment matrix [vcov] with diagonal entries below SigmaMin overwritten by SigmaMin. *)

(* the mean: for EVERY dimension, data set, weights and EVERY covariance (positive semi-definite precision) *)
Theorem vector_normal_mean_is_maximiser_for_every_covariance : forall n d w x ld L mu,
  0 < rsum n w -> psd d L -> vll n d w x ld L mu <= vll n d w x ld L (vmean n w x).
Proof. exact vnormal_mean_max. Qed.

(* dimension 1 coincides with the scalar theorem, the clamp acting on the VARIANCE *)
Theorem vector_normal_dimension_one_is_constrained_maximiser : forall smin dt,
  nonneg_w dt -> 0 < sumw dt -> 0 <= smin -> 0 < mle_var_clamped smin dt ->
  forall mu v, 0 < v -> smin <= v -> ll_normal_var dt mu v <= ll_normal_var dt (mle_mu dt) (mle_var_clamped smin dt).
Proof. exact vnormal_dim1_max. Qed.

(* diagonal covariances, every dimension: (mean, clamped diagonal of the moment matrix) is the constrained optimum *)
Theorem vector_normal_diagonal_is_constrained_maximiser : forall n d w x smin,
  (forall l, (l < n)%nat -> 0 <= w l) -> 0 < rsum n w -> 0 <= smin ->
  (forall i, (i < d)%nat -> 0 < Rmax (vcov n w x i i) smin) ->
  forall mu v, (forall i, (i < d)%nat -> 0 < v i /\ smin <= v i) ->
    vll_diag n d w x mu v <= vll_diag n d w x (vmean n w x) (fun i => Rmax (vcov n w x i i) smin).
Proof. exact vnormal_diagonal_max. Qed.

(* full covariance, every dimension — the reduction step (round 3): given the matrix inequality
   ld - tr(L S) <= ld' - tr(L' S) the estimate beats the candidate.  The inequality itself is discharged below. *)
Theorem vector_normal_full_covariance_reduction : forall n d w x ld L ld' L' mu,
  0 < rsum n w -> psd d L ->
  ld - trLS d L (vcov n w x) <= ld' - trLS d L' (vcov n w x) ->
  vll n d w x ld L mu <= vll n d w x ld' L' (vmean n w x).
Proof. exact vnormal_full_max_partial. Qed.

(* Round 4.  Matrices are index functions read on indices < d.  ln det of a symmetric positive definite matrix is read off a
   triangular factor T (upper triangular, positive diagonal):  ln det (T^t T) = ln det (T T^t) = sum_i 2 ln T_ii = [logdet_tri d T]
   (no Leibniz determinant and no multiplicativity of det is formalised; every symmetric positive definite matrix has both
   factorisations: the two existence theorems below, by induction on d through the Schur complement). *)

(* the log-det inequality  ln det L + ln det S <= tr (L S) - d  for L = U^t U, S = G G^t, EVERY dimension *)
Theorem logdet_trace_inequality : forall d U G,
  utri d U -> posdiag d U -> utri d G -> posdiag d G ->
  logdet_tri d U + logdet_tri d G <= trLS d (GtG d U) (GGt d G) - INR d.
Proof. exact logdet_trace_ineq. Qed.

(* Cholesky: every symmetric positive definite M is G G^t with G upper triangular, positive diagonal, and G has an (upper
   triangular) left inverse Gi; every such M is also U^t U (the standard Cholesky factorisation) *)
Theorem spd_has_upper_factor_and_inverse : forall d M, msym d M -> pdef d M ->
  exists G Gi, utri d G /\ posdiag d G /\ utri d Gi /\
    (forall i j, (i < d)%nat -> (j < d)%nat -> M i j = GGt d G i j) /\
    (forall k m, (k < d)%nat -> (m < d)%nat -> mmul d Gi G k m = delta k m).
Proof. exact chol_upper_exists. Qed.
Theorem spd_has_cholesky_factor : forall d L, msym d L -> pdef d L ->
  exists U, utri d U /\ posdiag d U /\ forall i j, (i < d)%nat -> (j < d)%nat -> L i j = GtG d U i j.
Proof. exact chol_std_exists. Qed.

(* FULL covariance, every dimension, every data set whose weighted moment matrix S = vcov is positive definite (the unclamped
   estimator returns exactly (vmean, S)): S = G G^t, Gi = G^-1, so the returned distribution has precision Gi^t Gi = S^-1 with
   ln det = logdet_tri Gi = - ln det S, and it beats EVERY candidate (mu, precision U^t U), U ranging over all upper triangular
   matrices with positive diagonal, i.e. (second theorem) over the Cholesky factors of all symmetric positive definite L. *)
Theorem vector_normal_full_covariance_is_maximiser : forall n d w x,
  0 < rsum n w -> pdef d (vcov n w x) ->
  exists G Gi, utri d G /\ posdiag d G /\ utri d Gi /\ posdiag d Gi /\
    (forall i j, (i < d)%nat -> (j < d)%nat -> vcov n w x i j = GGt d G i j) /\
    (forall k m, (k < d)%nat -> (m < d)%nat -> mmul d Gi G k m = delta k m) /\
    forall U mu, utri d U -> posdiag d U ->
      vll n d w x (logdet_tri d U) (GtG d U) mu <= vll n d w x (logdet_tri d Gi) (GtG d Gi) (vmean n w x).
Proof. exact vnormal_full_max. Qed.
Theorem vector_normal_full_covariance_is_maximiser_over_spd_precisions : forall n d w x,
  0 < rsum n w -> pdef d (vcov n w x) ->
  exists G Gi, utri d G /\ posdiag d G /\ utri d Gi /\ posdiag d Gi /\
    (forall i j, (i < d)%nat -> (j < d)%nat -> vcov n w x i j = GGt d G i j) /\
    (forall k m, (k < d)%nat -> (m < d)%nat -> mmul d Gi G k m = delta k m) /\
    forall L mu, msym d L -> pdef d L ->
      exists U, utri d U /\ posdiag d U /\ (forall i j, (i < d)%nat -> (j < d)%nat -> L i j = GtG d U i j) /\
        vll n d w x (logdet_tri d U) L mu <= vll n d w x (logdet_tri d Gi) (GtG d Gi) (vmean n w x).
Proof. exact vnormal_full_max_spd. Qed.
(* ... and with the factors and an inverse L' of S supplied by the caller (any left inverse, ln det L' = - ln det S) *)
Theorem vector_normal_full_covariance_is_maximiser_given_factors : forall n d w x U G L' mu,
  0 < rsum n w ->
  utri d U -> posdiag d U -> utri d G -> posdiag d G ->
  (forall i j, (i < d)%nat -> (j < d)%nat -> vcov n w x i j = GGt d G i j) ->
  (forall i k, (i < d)%nat -> (k < d)%nat -> mmul d L' (vcov n w x) i k = delta i k) ->
  vll n d w x (logdet_tri d U) (GtG d U) mu <= vll n d w x (- logdet_tri d G) L' (vmean n w x).
Proof. exact vnormal_full_max_factored. Qed.

(* the SigmaMin clamp as coded ([vn_clamp] at R is Rmax; [vn_returned] = moment matrix with the diagonal clamped), positive part:
   (a) clamp inactive (S_ii >= SigmaMin for all i): the returned matrix is S and is the maximiser among ALL positive definite
       covariances, constrained or not, every dimension;
   (b) S diagonal: the returned matrix is diag(max(S_ii, SigmaMin)), the optimum among all DIAGONAL covariances with
       v_i >= SigmaMin (optimality against correlated competitors is not proved).
   Outside (a) and (b) the claim is false: next theorem (finding F-VNORMAL-CLAMP). *)
Theorem vector_normal_clamp_value : forall smin s, vn_clamp NumR smin s = Rmax s smin.
Proof. exact vn_clamp_R. Qed.
Theorem vector_normal_inactive_clamp_is_maximiser : forall n d w x smin,
  0 < rsum n w -> (forall i, (i < d)%nat -> smin <= vcov n w x i i) -> pdef d (vn_returned smin (vcov n w x)) ->
  exists G Gi, utri d G /\ posdiag d G /\ utri d Gi /\ posdiag d Gi /\
    (forall i j, (i < d)%nat -> (j < d)%nat -> vn_returned smin (vcov n w x) i j = GGt d G i j) /\
    (forall k m, (k < d)%nat -> (m < d)%nat -> mmul d Gi G k m = delta k m) /\
    forall U mu, utri d U -> posdiag d U ->
      vll n d w x (logdet_tri d U) (GtG d U) mu <= vll n d w x (logdet_tri d Gi) (GtG d Gi) (vmean n w x).
Proof. exact vnormal_clamp_inactive_max. Qed.
Theorem vector_normal_clamp_on_uncorrelated_data_is_diagonal_constrained_maximiser : forall n d w x smin,
  (forall l, (l < n)%nat -> 0 <= w l) -> 0 < rsum n w -> 0 <= smin ->
  (forall i j, (i < d)%nat -> (j < d)%nat -> i <> j -> vcov n w x i j = 0) ->
  (forall i, (i < d)%nat -> 0 < Rmax (vcov n w x i i) smin) ->
  (forall i j, (i < d)%nat -> (j < d)%nat -> i <> j -> vn_returned smin (vcov n w x) i j = 0) /\
  forall mu v, (forall i, (i < d)%nat -> 0 < v i /\ smin <= v i) ->
    vll_diag n d w x mu v <= vll_diag n d w x (vmean n w x) (fun i => vn_returned smin (vcov n w x) i i).
Proof. exact vnormal_clamp_diagonal_max. Qed.

(* ... and with an active clamp on correlated data the returned matrix is NOT the optimum under Sigma_ii >= SigmaMin
   (finding F-VNORMAL-CLAMP): the model returns [[4,2],[2,2]] for the data (2,1), (-2,-1) with SigmaMin = 2; the
   admissible [[10,4],[4,2]] (same determinant) has the strictly higher likelihood *)
Theorem vector_normal_diagonal_clamp_is_constrained_maximiser_refuted :
  vn_est NumR exp 2 2 [[2; 1]; [-2; -1]] None = ([0; 0], [[4; 2]; [2; 2]]) /\
  (4 * cw_L 0 0 + 2 * cw_L 1 0 = 1 /\ 4 * cw_L 0 1 + 2 * cw_L 1 1 = 0 /\ 2 * cw_L 0 0 + 2 * cw_L 1 0 = 0 /\ 2 * cw_L 0 1 + 2 * cw_L 1 1 = 1) /\
  (10 * cw_L' 0 0 + 4 * cw_L' 1 0 = 1 /\ 10 * cw_L' 0 1 + 4 * cw_L' 1 1 = 0 /\ 4 * cw_L' 0 0 + 2 * cw_L' 1 0 = 0 /\ 4 * cw_L' 0 1 + 2 * cw_L' 1 1 = 1) /\
  4 * 2 - 2 * 2 = 10 * 2 - 4 * 4 /\
  forall ld, vll 2 2 cw_w cw_x ld cw_L (fun _ => 0) < vll 2 2 cw_w cw_x ld cw_L' (fun _ => 0).
Proof. exact vnormal_clamp_refuted. Qed.

Example vector_normal_hypotheses_satisfiable :
  let L := fun i j : nat => if Nat.eqb i j then 1 else 0 in
  psd 2 L /\ 0 < rsum 3 (fun _ => 1).
Proof.
  simpl. split; [|lra]. intros u. unfold quad, bil. simpl.
  pose proof (Rle_0_sqr (u 0%nat)). pose proof (Rle_0_sqr (u 1%nat)). unfold Rsqr in *. lra.
Qed.

(* the positive definiteness hypothesis is satisfiable: four observations (1,2), (-1,-2), (1,-2), (-1,2) with weights 1, 2, 1, 2
   have the mean (-1/3, 0) and the moment matrix [[8/9, 0], [0, 4]] *)
Example vector_normal_pdef_hypothesis_satisfiable :
  let x := fun l i : nat => match l, i with O, O => 1 | O, _ => 2 | 1%nat, O => -1 | 1%nat, _ => -2
                                          | 2%nat, O => 1 | 2%nat, _ => -2 | _, O => -1 | _, _ => 2 end in
  let w := fun l : nat => match l with O => 1 | 1%nat => 2 | 2%nat => 1 | _ => 2 end in
  0 < rsum 4 w /\ pdef 2 (vcov 4 w x).
Proof.
  simpl. split; [lra|]. intros u (i & Hi & Hu).
  assert (H : u 0%nat <> 0 \/ u 1%nat <> 0).
  { destruct i as [|[|i]]; [left; exact Hu|right; exact Hu|exfalso]. do 2 apply Nat.succ_lt_mono in Hi. inversion Hi. }
  unfold quad, bil, vcov, vmean. simpl.
  set (a := u 0%nat) in *. set (b := u 1%nat) in *.
  match goal with |- 0 < ?e => replace e with (8/9 * (a * a) + 4 * (b * b)) by field end.
  pose proof (Rle_0_sqr a) as Ha. pose proof (Rle_0_sqr b) as Hb. unfold Rsqr in Ha, Hb.
  destruct H as [H|H]; apply Rsqr_pos_lt in H; unfold Rsqr in H; lra.
Qed.

(* ------------------------------------------------------------------------------------------------------------ *)
(* Round 5: NESTED EM estimators and SUMMARISED data (ModelNest.v).                                               *)

(* (5.a) the summary of NewMixtureSummarizedDataSet (model [summ_idx]: unique values in first-occurrence order, index map
   observation -> unique value), for every element type with a sound key equality and every data set: every observation IS
   the unique value its index points to *)
Theorem summary_index_is_sound : forall (X : Type) (eqbX : X -> X -> bool),
  (forall a b, eqbX a b = true -> a = b) ->
  forall (xs : list X) (d : X),
  length (summ_index eqbX xs) = length xs /\
  forall l, (l < length xs)%nat ->
    (nth l (summ_index eqbX xs) O < length (summ_values eqbX xs))%nat /\
    nth (nth l (summ_index eqbX xs) O) (summ_values eqbX xs) d = nth l xs d.
Proof. intros X eqbX H. exact (summary_is_sound eqbX H). Qed.

(* (5.b) index conventions: w l = weight of OBSERVATION l < n; [aggR n idx w u] = sum of the weights of the occurrences of
   UNIQUE value u < m (the count when all weights are 1).  A sum over observations of a quantity that depends on the
   observation only through its value is the sum over unique values with aggregated weights. *)
Theorem sum_over_observations_regroups_by_unique_value : forall n m idx (w F : nat -> R),
  (forall l, (l < n)%nat -> (idx l < m)%nat) ->
  rsum n (fun l => w l * F (idx l)) = rsum m (fun u => aggR n idx w u * F u).
Proof. exact regroup. Qed.
Theorem aggregated_unit_weights_are_the_counts : forall n idx u,
  aggR n idx (fun _ => 1) u = INR (count_occ Nat.eq_dec (map idx (seq 0 n)) u).
Proof. exact aggR_ones_is_count. Qed.

(* (5.c) the summarised E-/M-step equals the unsummarised one, for every data set, summary (idx, v), K, weights pi,
   component densities phi (functions of the VALUE), per-observation outer weights w: every responsibility-weighted
   statistic (T = 1: responsibility sums; T = x, x^2, category indicators: the sufficient statistics of the Poisson /
   normal / categorical M-steps), the new mixture weights, the log-likelihood EmStep reports and the component
   log-likelihoods the leaf M-steps maximise *)
Theorem summarised_step_statistics_equal_unsummarised : forall (X : Type) n m (x v : nat -> X) idx,
  (forall l, (l < n)%nat -> (idx l < m)%nat) -> (forall l, (l < n)%nat -> x l = v (idx l)) ->
  forall K pi (phi : nat -> X -> R) w k (T : X -> R),
  rsum n (fun l => resp K w pi (fun k l => phi k (x l)) k l * T (x l))
  = rsum m (fun u => resp K (aggR n idx w) pi (fun k u => phi k (v u)) k u * T (v u)).
Proof. exact @stat_summ. Qed.
Theorem summarised_weight_update_equals_unsummarised : forall (X : Type) n m (x v : nat -> X) idx,
  (forall l, (l < n)%nat -> (idx l < m)%nat) -> (forall l, (l < n)%nat -> x l = v (idx l)) ->
  forall K pi (phi : nat -> X -> R) w k,
  new_pi n K w pi (fun k l => phi k (x l)) k = new_pi m K (aggR n idx w) pi (fun k u => phi k (v u)) k.
Proof. exact @new_pi_summ. Qed.
Theorem summarised_loglikelihood_equals_unsummarised : forall (X : Type) n m (x v : nat -> X) idx,
  (forall l, (l < n)%nat -> (idx l < m)%nat) -> (forall l, (l < n)%nat -> x l = v (idx l)) ->
  forall K pi (phi : nat -> X -> R) w,
  loglik n K w pi (fun k l => phi k (x l)) = loglik m K (aggR n idx w) pi (fun k u => phi k (v u)).
Proof. exact @loglik_summ. Qed.
Theorem summarised_component_loglikelihood_equals_unsummarised : forall (X : Type) n m (x v : nat -> X) idx,
  (forall l, (l < n)%nat -> (idx l < m)%nat) -> (forall l, (l < n)%nat -> x l = v (idx l)) ->
  forall K pi (phi : nat -> X -> R) w k (psi : X -> R),
  comp_ll n (resp K w pi (fun k l => phi k (x l)) k) (fun l => psi (x l))
  = comp_ll m (resp K (aggR n idx w) pi (fun k u => phi k (v u)) k) (fun u => psi (v u)).
Proof. exact @comp_ll_summ. Qed.

(* (5.d) NESTED on summarised data: the weights a summarised outer E-step hands to the estimator of component k (indexed
   by unique value, log counts included) ARE the aggregated per-observation responsibilities; hence every statistic of
   the inner E-step (inner mixture: Kin leaves, weights pin, leaf densities phin) on the summary equals the one computed
   observation by observation: the nested summarised trajectory is the reference trajectory *)
Theorem nested_weights_on_summarised_data_are_aggregated : forall (X : Type) n m (x v : nat -> X) idx,
  (forall l, (l < n)%nat -> x l = v (idx l)) ->
  forall K pi (phi : nat -> X -> R) w k u, (u < m)%nat ->
  resp K (aggR n idx w) pi (fun k u => phi k (v u)) k u = aggR n idx (resp K w pi (fun k l => phi k (x l)) k) u.
Proof. exact @nested_weights_are_aggregated. Qed.
Theorem nested_inner_statistics_on_summarised_data_equal_unsummarised : forall (X : Type) n m (x v : nat -> X) idx,
  (forall l, (l < n)%nat -> (idx l < m)%nat) -> (forall l, (l < n)%nat -> x l = v (idx l)) ->
  forall K pi (phi : nat -> X -> R) w Kin pin (phin : nat -> X -> R) k j (T : X -> R),
  rsum n (fun l => resp Kin (resp K w pi (fun k l => phi k (x l)) k) pin (fun j l => phin j (x l)) j l * T (x l))
  = rsum m (fun u => resp Kin (resp K (aggR n idx w) pi (fun k u => phi k (v u)) k) pin (fun j u => phin j (v u)) j u * T (v u)).
Proof. exact @nested_stat_summ. Qed.

(* (5.e) what the guard excludes.  An estimator in nested position that summarises its input AGAIN would read the outer
   weights (indexed like its input) at its own unique-value index: [misindexed] = w u * count u.  That is not the aggregated
   weight: observations a, a, b with outer weights 1, 0, 1 have aggregated weights 1, 1 and mis-indexed weights 2, 0. *)
Theorem misindexed_weights_are_not_the_aggregated_weights :
  let idx := fun l => match l with 2%nat => 1%nat | _ => 0%nat end in
  let w := fun l => match l with 1%nat => 0 | _ => 1 end in
  let cnt := aggR 3 idx (fun _ => 1) in
  aggR 3 idx w 0 = 1 /\ aggR 3 idx w 1 = 1 /\ misindexed NumR cnt w 0 = 2 /\ misindexed NumR cnt w 1 = 0.
Proof. exact misindexed_refuted. Qed.
(* the guard of MixtureEstimator.Estimate (model [refuses]): a summarised mixture in nested position is refused whatever its
   components are; a configuration that is not refused has no summarised mixture below the root (recursively: apply the
   second theorem to the components); the reference configuration (every summary erased) is never refused *)
Theorem nested_summarised_mixture_is_refused : forall cs, refuses true (NMix true cs) = true.
Proof. exact refuses_summarised_nested. Qed.
Theorem unrefused_mixture_is_plain_if_nested_and_has_unrefused_components : forall nested s cs,
  refuses nested (NMix s cs) = false ->
  (s && nested = false)%bool /\ forall e, In e cs -> refuses true e = false.
Proof. exact refuses_mix_inv. Qed.
Theorem reference_configuration_is_never_refused : forall e nested, refuses nested (plain e) = false.
Proof. exact plain_never_refuses. Qed.

(* (5.f) NESTED EM ascent, mixture of mixtures: n data with outer weights c, K outer components, component k a mixture of
   Kin k leaves.  One outer step = outer weights by normalised responsibility sums, and for every component ONE inner EM
   step with the outer responsibilities as weights (inner weights by normalised inner responsibility sums, leaves by exact
   M-steps with the INNER responsibilities as weights: theorems (1)).  Never decreases the log-likelihood, for every n, K,
   Kin, zeros allowed wherever the code allows them (every inner mixture must have positive density on every datum,
   otherwise its EvaluateLogPdf returns an error).  With (5.c)/(5.d) the same holds for the run on summarised data. *)
Theorem nested_em_step_never_decreases_likelihood : forall n K (c pi pi' : nat -> R) (Kin : nat -> nat)
    (pin pin' : nat -> nat -> R) (fin fin' : nat -> nat -> nat -> R),
  let f := fun k l => mix (Kin k) (pin k) (fin k) l in
  let f' := fun k l => mix (Kin k) (pin' k) (fin' k) l in
  let r := resp K c pi f in
  (forall l, (l < n)%nat -> 0 <= c l) ->
  (forall k, (k < K)%nat -> 0 <= pi k) -> rsum K pi <= 1 ->
  (forall k j, (k < K)%nat -> (j < Kin k)%nat -> 0 <= pin k j) ->
  (forall k, (k < K)%nat -> rsum (Kin k) (pin k) <= 1) ->
  (forall k j l, (k < K)%nat -> (j < Kin k)%nat -> (l < n)%nat -> 0 <= fin k j l) ->
  (forall k j l, (k < K)%nat -> (j < Kin k)%nat -> (l < n)%nat -> 0 <= fin' k j l) ->
  (forall k l, (k < K)%nat -> (l < n)%nat -> 0 < f k l) ->
  (forall l, (l < n)%nat -> 0 < mix K pi f l) ->
  0 < rsum K (resp_sum n K c pi f) ->
  (forall k, (k < K)%nat -> 0 < rsum (Kin k) (resp_sum n (Kin k) (r k) (pin k) (fin k))) ->
  (forall k, (k < K)%nat -> pi' k = new_pi n K c pi f k) ->
  (forall k j, (k < K)%nat -> (j < Kin k)%nat -> pin' k j = new_pi n (Kin k) (r k) (pin k) (fin k) j) ->
  (forall k j l, (k < K)%nat -> (j < Kin k)%nat -> (l < n)%nat ->
     0 < resp (Kin k) (r k) (pin k) (fin k) j l -> 0 < fin' k j l) ->
  (forall k j, (k < K)%nat -> (j < Kin k)%nat ->
     comp_ll n (resp (Kin k) (r k) (pin k) (fin k) j) (fin k j)
     <= comp_ll n (resp (Kin k) (r k) (pin k) (fin k) j) (fin' k j)) ->
  loglik n K c pi f <= loglik n K c pi' f'.
Proof. exact nested_em_ascent. Qed.

(* ... and the inner step on its own is what an HMM needs from a mixture used as emission estimator: with ANY non-negative
   weights g (the Baum-Welch gamma of the emission class) one inner EM step does not decrease the g-weighted log-likelihood
   of the emission, which is the emission hypothesis of baum_welch_step_never_decreases_likelihood (this is
   em_step_never_decreases_likelihood read with c := g; the composition over the two-level index (sequence, position) of
   the Baum-Welch theorem is not carried out in Coq: nested_hmm_ascent is _partial in that sense) *)
Theorem nested_hmm_emission_step_partial : forall n Kin (g pin pin' : nat -> R) (fin fin' : nat -> nat -> R),
  (forall l, (l < n)%nat -> 0 <= g l) ->
  (forall j, (j < Kin)%nat -> 0 <= pin j) -> rsum Kin pin <= 1 ->
  (forall j l, (j < Kin)%nat -> (l < n)%nat -> 0 <= fin j l) ->
  (forall j l, (j < Kin)%nat -> (l < n)%nat -> 0 <= fin' j l) ->
  (forall l, (l < n)%nat -> 0 < mix Kin pin fin l) ->
  0 < rsum Kin (resp_sum n Kin g pin fin) ->
  (forall j, (j < Kin)%nat -> pin' j = new_pi n Kin g pin fin j) ->
  (forall j l, (j < Kin)%nat -> (l < n)%nat -> 0 < resp Kin g pin fin j l -> 0 < fin' j l) ->
  (forall j, (j < Kin)%nat -> comp_ll n (resp Kin g pin fin j) (fin j) <= comp_ll n (resp Kin g pin fin j) (fin' j)) ->
  comp_ll n g (mix Kin pin fin) <= comp_ll n g (mix Kin pin' fin').
Proof. intros n Kin g pin pin' fin fin'. exact (em_ascent_main n Kin g pin pin' fin fin'). Qed.

(* hypotheses of (5.c) are satisfiable: the summary of 2, 2, 5 *)
Example summary_hypotheses_satisfiable :
  summ_values Nat.eqb [2; 2; 5]%nat = [2; 5]%nat /\ summ_index Nat.eqb [2; 2; 5]%nat = [0; 0; 1]%nat /\
  summ_counts Nat.eqb [2; 2; 5]%nat = [2; 1]%nat /\ top_refuses (TMix false [NMix true [NLeaf]; NLeaf]) = true /\
  top_refuses (TMix true [NMix false [NLeaf; NLeaf]]) = false /\ top_refuses (THmm [NMix true [NLeaf]]) = true.
Proof. repeat split. Qed.

(* ------------------------------------------------------------------ *)
(* (6) estimator OBJECTS re-used across calls (round 6; model ModelObj.v: SetData keeps a reference, Estimate =
   Initialize + pre-pass + NewObservation over the CURRENT contents + updateEstimate, which keeps the accumulators
   when the constructor refuses; GetEstimate finishes pending accumulators).  For EVERY family (accumulator type,
   observation step, update), every heap of data vectors and every call history: *)

(* after any history, SetData(v); caller writes into any vectors; Estimate(g) returns the pure estimate of the
   current contents of v under g *)
Theorem reused_estimator_object_returns_the_estimate_of_the_current_data :
  forall (D G ACC PRE P : Type) (F : family D G ACC PRE P) (prefix ws : list (op D G)) h0 (st0 : obj ACC PRE P) v g xs,
  forallb is_write ws = true ->
  nth_error (heap_of (prefix ++ ws) h0) v = Some xs ->
  last_outcome (run F (h0, st0) (prefix ++ OpSetData v :: ws ++ [OpEstimate g])) = outcome_of (pure_estimate F xs g).
Proof. intros D G ACC PRE P F. exact (history_does_not_survive F). Qed.

(* ... which is what a NEW estimator object returns on the same calls *)
Theorem reused_estimator_object_equals_new_object :
  forall (D G ACC PRE P : Type) (F : family D G ACC PRE P) (prefix ws : list (op D G)) h0 (st0 : obj ACC PRE P) v g xs pre p0,
  forallb is_write ws = true ->
  nth_error (heap_of (prefix ++ ws) h0) v = Some xs ->
  last_outcome (run F (h0, st0) (prefix ++ OpSetData v :: ws ++ [OpEstimate g])) =
  last_outcome (run F (heap_of prefix h0, fresh pre p0) (OpSetData v :: ws ++ [OpEstimate g])).
Proof. intros D G ACC PRE P F. exact (reused_object_equals_fresh_object F). Qed.

Theorem estimate_on_data_after_any_history_is_the_pure_estimate :
  forall (D G ACC PRE P : Type) (F : family D G ACC PRE P) (prefix : list (op D G)) h0 (st0 : obj ACC PRE P) v g xs,
  nth_error (heap_of prefix h0) v = Some xs ->
  last_outcome (run F (h0, st0) (prefix ++ [OpEstimateOnData v g])) = outcome_of (pure_estimate F xs g).
Proof. intros D G ACC PRE P F. exact (estimate_on_data_after_any_history F). Qed.

(* a second Estimate with other weights (data untouched or rewritten in place in between) forgets the first *)
Theorem second_estimate_with_other_weights_forgets_the_first :
  forall (D G ACC PRE P : Type) (F : family D G ACC PRE P) (prefix ws : list (op D G)) h0 (st0 : obj ACC PRE P) v g1 g2 xs,
  forallb is_write ws = true ->
  nth_error (heap_of (prefix ++ ws) h0) v = Some xs ->
  last_outcome (run F (h0, st0) (prefix ++ OpSetData v :: OpEstimate g1 :: ws ++ [OpEstimate g2]))
  = outcome_of (pure_estimate F xs g2).
Proof. intros D G ACC PRE P F. exact (second_estimate_with_other_weights F). Qed.

(* batch variant: Initialize; NewObservation ...; GetEstimate after any history *)
Theorem batch_estimate_after_any_history_is_the_pure_batch_estimate :
  forall (D G ACC PRE P : Type) (F : family D G ACC PRE P) (prefix : list (op D G)) h0 (st0 : obj ACC PRE P) obs,
  last_outcome (run F (h0, st0) (prefix ++ batch_ops obs)) = outcome_of (pure_batch F obs).
Proof. intros D G ACC PRE P F. exact (batch_estimate_after_any_history F). Qed.

(* GetEstimate after a successful estimate hands out that estimate and changes nothing; after a FAILED estimate it
   fails again (the parameters of an earlier estimate are not handed out as the new one) *)
Theorem get_estimate_repeats_the_last_outcome :
  forall (D G ACC PRE P : Type) (F : family D G ACC PRE P) h (st st' : obj ACC PRE P) g,
  (forall p, estimate F h st g = (st', RParams p) -> step F (h, st') OpGetEstimate = ((h, st'), RParams p)) /\
  (estimate F h st g = (st', RErr) -> snd (step F (h, st') OpGetEstimate) = RErr).
Proof. intros D G ACC PRE P F. exact (get_estimate_repeats F). Qed.

(* the pure estimates of the object's families ARE the estimator functions of Model.v that (1) and the per-case
   checks are about, on every carrier (R for the theorems, binary64 for the bit-exact replay) *)
Theorem object_families_are_the_estimator_functions :
  forall (A : Type) (N : Num A) (EXP LOG LOG1P : A -> A) xs g,
  (forall smin, pure_estimate (normal_family N EXP smin) xs g = normal_est N EXP smin xs g) /\
  (forall lmax, pure_estimate (exponential_family N EXP LOG LOG1P lmax) xs g = exponential_est N EXP LOG LOG1P lmax xs g) /\
  pure_estimate (geometric_family N EXP LOG LOG1P) xs g = geometric_est N EXP LOG LOG1P xs g /\
  (match g with Some gs => length gs = length xs | None => True end ->
   pure_estimate (poisson_family N EXP LOG LOG1P) xs g = poisson_est N EXP LOG LOG1P xs g).
Proof. exact @families_are_estimator_functions. Qed.

(* (3') the mixture emAlgorithm leaves in the estimator is the one handed to the LAST hook call (convergence test
   fired, maxSteps reached or fuel of the model exhausted) ... *)
Theorem em_returns_the_mixture_of_the_last_hook_call :
  forall (P L : Type) (ell : P -> L) (upd : P -> P) (lsubL : L -> L -> L) (conv : L -> bool)
    fuel nested ms th0 nanL neg_inf hs thf ex,
  em_algorithm (step_of ell upd) lsubL conv neg_inf nanL fuel nested ms th0 = (hs, thf, ex) ->
  exists h, nth_error hs (length hs - 1) = Some h /\ h_mix h = thf /\ thf = iter_l upd (length hs - 1) th0.
Proof. intros P L ell upd lsubL conv. exact (em_returns_the_last_hooked_mixture ell upd lsubL conv). Qed.

(* ... and with a step that never decreases the likelihood ((2), Baum-Welch, nested) the RETURNED mixture is at least
   as likely as every likelihood reported to a hook, the one whose increment stopped the loop included *)
Theorem em_returned_mixture_is_at_least_as_likely_as_every_reported_likelihood :
  forall (P : Type) (ell : P -> R) (upd : P -> P) (lsubL : R -> R -> R) (conv : R -> bool),
  (forall th, ell th <= ell (upd th)) ->
  forall fuel nested ms th0 nanL neg_inf hs thf ex,
  em_algorithm (step_of ell upd) lsubL conv neg_inf nanL fuel nested ms th0 = (hs, thf, ex) ->
  forall t h, nth_error hs (S t) = Some h -> h_lik h <= ell thf.
Proof. intros P ell upd lsubL conv Hasc. exact (em_returned_mixture_is_at_least_as_likely_as_reported ell upd lsubL conv Hasc). Qed.

(* non-vacuity: a history with a failed estimate, a batch use left unfinished and an in-place write on a toy family
   (accumulator = sum, the constructor refuses 0); the hypotheses hold and both sides are the estimate 12 of (5, 7) *)
Example object_history_hypotheses_satisfiable :
  let F := mkFam 0%nat tt (fun _ : list unit => tt) (fun _ acc (x : nat) (_ : option unit) => (acc + x)%nat)
                 (fun acc => match acc with O => None | S _ => Some acc end) in
  let prefix := [OpSetData 1; OpEstimate None; OpInitialize; OpNewObservation 9%nat None; OpEstimateOnData 0 (Some [tt; tt])] in
  let ws := [OpWrite 0 1 7%nat] in
  let h0 := [[5; 6]; [0]]%nat in
  forallb (is_write (D:=nat) (G:=unit)) ws = true /\
  nth_error (heap_of (prefix ++ ws) h0) 0 = Some [5; 7]%nat /\
  snd (run F (h0, fresh tt 1%nat) (prefix ++ OpSetData 0 :: ws ++ [OpEstimate None])) =
    [RNone; RErr; RNone; RNone; RParams 11%nat; RNone; RNone; RParams 12%nat] /\
  outcome_of (pure_estimate F [5; 7]%nat None) = RParams 12%nat.
Proof. repeat split; reflexivity. Qed.

Example em_return_hypotheses_satisfiable :
  let ell := fun n : nat => INR n in
  (forall th, ell th <= ell (S th)) /\
  exists hs thf ex, em_algorithm (step_of ell S) Rminus (fun _ => false) 0 0 5 false (Some 2%nat) 3%nat = (hs, thf, ex) /\
                    thf = 5%nat /\ length hs = 3%nat.
Proof.
  intros ell. split.
  - intros th. unfold ell. rewrite S_INR. lra.
  - eexists _, _, _. split; [reflexivity|]. split; reflexivity.
Qed.

(* (round 7) BATCH interface with unweighted (gamma == nil) and weighted observations MIXED in one batch: the object
   model's Initialize; NewObservation ...; GetEstimate of the log-scale families (count of unweighted observations
   COMBINED with the LogAdd-accumulated log-weight mass by updateEstimate) returns, over exact reals, the weighted closed
   form of the observations with effective weight 1 for a nil gamma and exp(gamma) (0 for -Inf) otherwise ... *)
Theorem geometric_mixed_batch_returns_the_weighted_closed_form : forall obs,
  nonneg_obs obs -> 0 < sumw (eff_data obs) ->
  pure_batch (geometric_family NumR exp ln LOG1P_R) obs = Some (mle_geometric (eff_data obs)).
Proof. exact geometric_mixed_batch. Qed.

Theorem poisson_mixed_batch_returns_the_weighted_closed_form : forall obs,
  nonneg_obs obs -> 0 < sumw (eff_data obs) -> 0 < sumwx (eff_data obs) ->
  pure_batch (poisson_family NumR exp ln LOG1P_R) obs = Some (mle_poisson (eff_data obs)).
Proof. exact poisson_mixed_batch. Qed.

Theorem exponential_mixed_batch_returns_the_clamped_weighted_closed_form : forall lmax obs,
  nonneg_obs obs -> 0 < sumw (eff_data obs) -> 0 < sumwx (eff_data obs) -> 0 < lmax ->
  pure_batch (exponential_family NumR exp ln LOG1P_R lmax) obs = Some (mle_exp_rate lmax (eff_data obs)).
Proof. exact exponential_mixed_batch. Qed.

(* ... hence (with (1)) a maximiser of the weighted log-likelihood under the effective weights, after ANY history of the
   object (batch_estimate_after_any_history_is_the_pure_batch_estimate) *)
Theorem geometric_mixed_batch_estimate_is_maximiser : forall obs,
  nonneg_obs obs -> 0 < sumw (eff_data obs) ->
  exists v, pure_batch (geometric_family NumR exp ln LOG1P_R) obs = Some v /\ forall p, 0 < p -> p <= 1 -> (0 < sumwx (eff_data obs) -> p < 1) ->
    ll_geometric (eff_data obs) p <= ll_geometric (eff_data obs) v.
Proof. exact geometric_mixed_batch_max. Qed.

(* non-vacuity: x = 3 unweighted, x = 1 with log-weight ln 2, x = 0 unweighted: W = 4, sum w x = 5 (p = 4/9) *)
Example mixed_batch_hypotheses_satisfiable :
  let obs := [(3, None); (1, Some (Some (ln 2))); (0, None)] in
  nonneg_obs obs /\ sumw (eff_data obs) = 4 /\ sumwx (eff_data obs) = 5.
Proof. exact mixed_batch_example. Qed.

(* (round 7) scalarEstimator/numeric.go: the value NumericEstimator's objective hands to its Hook is the weighted
   log-likelihood sum_k exp(gamma_k) log f(x_k) (weight 1 without gamma, 0 = SKIPPED for log-weight -Inf) whenever every
   observation outside the support (log-density -Inf) carries log-weight -Inf; the objective is its negative over n ... *)
Theorem numeric_objective_hook_value_is_the_weighted_loglikelihood : forall lps gs, supported lps gs ->
  num_hook NumR exp lps gs = Some (sumwx (num_data lps gs)).
Proof. exact num_hook_is_weighted_loglik. Qed.

Theorem numeric_objective_is_the_scaled_negative_loglikelihood : forall n lps gs, supported lps gs ->
  num_objective NumR exp n lps gs = Some (- sumwx (num_data lps gs) / IZR n).
Proof. exact num_objective_is_scaled_negative_loglik. Qed.

(* ... so the optimizers' order on parameter values is the reversed order of the weighted log-likelihood.
   _partial: NO theorem about the optimizers' iteration (newton / bfgs / rprop) or about stationarity of the returned point *)
Theorem numeric_objective_orders_parameters_by_loglikelihood_partial : forall n lps1 lps2 gs o1 o2, (0 < n)%Z ->
  supported lps1 gs -> supported lps2 gs ->
  num_objective NumR exp n lps1 gs = Some o1 -> num_objective NumR exp n lps2 gs = Some o2 ->
  (o1 <= o2 <-> sumwx (num_data lps2 gs) <= sumwx (num_data lps1 gs)).
Proof. exact num_objective_orders_parameters_by_loglik. Qed.

(* non-vacuity: a zero-weight observation outside the support is skipped (value -3); with positive weight the value is -Inf *)
Example numeric_objective_hypotheses_satisfiable :
  let lps := [Some (-2); None; Some (-1)] in
  let gs := Some [Some 0; None; Some 0] in
  supported lps gs /\ num_hook NumR exp lps gs = Some (sumwx (num_data lps gs)) /\ sumwx (num_data lps gs) = -3 /\
  num_hook NumR exp lps (Some [Some 0; Some 0; Some 0]) = None.
Proof. exact num_hook_example. Qed.
