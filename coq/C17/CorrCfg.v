(* C17 (round 2) correspondence for the option matrix of BaumWelchStep / EmStep: per case
   (site, configuration of the optional accumulators, pool size, schedule, per-job contributions of
   EVERY accumulator obtained from sequential single-job runs of the Go code under the same
   configuration) the configuration model ModelCfg.ostep recomputes the step and every observable
   the Go step returned is compared:
     which accumulators exist (gamma handed to Emissions or not, Tr / LogWeights recomputed or left)
     likelihood          exact rationals (equal when all partial sums are representable, else n u sum|c|)
     gamma               one-writer cells, exact
     pi / tr / weights   the model is run on bags of job ids (nothing lost, nothing twice); the
                         values are compared with the sequential run and, for one pool per
                         configuration, certified against the contributions by Coq-Interval (tol shards)
     panic               the Baum-Welch configuration without tr dereferences nil (known finding) *)
From Coq Require Import ZArith List Bool QArith.
From ADV Require Import Base.Corr C17.Model C17.ModelCfg C17.Corr C17.ModelSaga.
Import ListNotations.

Record ocase := mkOCase {
  oc_bw : bool;                        (* true: BaumWelchStep (one AddJob per record); false: EmStep (AddRangeJob(0,n)) *)
  oc_hasF : bool;
  oc_hasI : bool;
  oc_nilpanics : bool;
  oc_k : Z;
  oc_n : Z;                            (* elementary jobs: records / observations *)
  oc_staleflag : bool;
  oc_stale : Q;
  oc_sch : list (nat * nat);
  oc_lik : list Q;                     (* likelihood contribution per elementary job *)
  oc_gam : list (list (cellv Q));      (* gamma table contributed per elementary job, flattened ([] when gamma is nil) *)
  oc_glen : nat;                       (* number of gamma cells (0 when nil) *)
  oc_go_panic : bool;
  oc_go_lik : Q;
  oc_go_gam : option (list (cellv Q)); (* None: Emissions was not called (tmp[0].gamma == nil) *)
  oc_go_F : bool;                      (* hmm1.Tr / mixture1.LogWeights were recomputed by the step *)
  oc_near : list (Q * Q * Q)           (* (value, reference, tolerance) *)
}.

Definition bag := list nat.
Definition is_all (n : nat) (b : bag) : bool :=
  Nat.eqb (length b) n && forallb (fun j => Nat.eqb (count j b) 1) (seq 0 n).

Definition ocontrib (c : ocase) (i : nat) : contrib bag bag (list (cellv Q)) Q :=
  mkC [i] [i] (nth i (oc_gam c) (repeat NegInf (oc_glen c))) (nth i (oc_lik c) 0%Q).

Definition ocheck (c : ocase) : bool :=
  let range := negb (oc_bw c) in
  let k := oc_k c in let n := oc_n c in
  let cfg := mkOcfg (oc_hasF c) (oc_hasI c) (oc_nilpanics c) in
  let st := repeat (mkO (oc_staleflag c) [999%nat] [999%nat] (repeat (Val (oc_stale c)) (oc_glen c)) (oc_stale c)) (Z.to_nat k) in
  let ev := events_for range k n (oc_sch c) (ocontrib c) in
  valid_sch range k n (oc_sch c) &&
  Z.eqb (Z.of_nat (length (oc_lik c))) n &&
  forallb (fun g => Nat.eqb (length g) (oc_glen c)) (oc_gam c) &&
  match ostep bag bag (list (cellv Q)) Q (@app nat) [] (@app nat) [] (zipop cell_op) (repeat NegInf (oc_glen c)) Qplus 0%Q cfg st ev with
  | None => oc_go_panic c
  | Some r =>
    negb (oc_go_panic c) &&
    is_all (Z.to_nat n) (r_1 r) &&
    match r_2 r with
    | Some b => oc_go_F c && is_all (Z.to_nat n) b
    | None => negb (oc_go_F c)
    end &&
    match r_3 r, oc_go_gam c with
    | Some g, Some g' => list_eqb cell_eqb g g'
    | None, None => true
    | _, _ => false
    end &&
    Qeq_bool (r_4 r) (qsum (oc_lik c)) && plus_ok (oc_lik c) (oc_go_lik c) &&
    forallb (fun t => let '(a, b, tol) := t in Qle_bool (Qabs' (a - b)%Q) tol) (oc_near c)
  end.

Definition omism (cs : list ocase) : list nat := mismatches ocheck cs.

(* ---- SAGA (vectorEstimator sagaLogisticRegressionL1): the worker slices observed in Go are the
   model's partition; the estimate of the run on a real pool equals the estimate of the same
   partition executed sequentially (compared bit for bit by the harness, flag passed here) *)
Record sagacase := mkSaga {
  sg_k : Z; sg_n : Z;
  sg_go_parts : list (Z * Z);
  sg_same_as_sequential : bool;
  (* round 7: per epoch (the list drawn - recomputed by the harness from the seed with math/rand, independently of the
     library -, the evaluation log f(j, x1) of the workers iterated on the nil pool, the log on the real pool) *)
  sg_epochs : list (list Z * list Z * list Z)
}.
Definition sagaepochcheck (k : Z) (e : list Z * list Z * list Z) : bool :=
  let '(idx, seqlog, parlog) := e in
  match saga_epoch_log_sequential k idx with
  | Some l => list_eqb Z.eqb l seqlog        (* nil pool: workers in order, exactly the model's concatenation *)
  | None => false
  end && same_bag parlog idx.                (* real pool: some interleaving - the same multiset as drawn *)
Definition sagacheck (c : sagacase) : bool :=
  match saga_partition (sg_k c) (sg_n c) with
  | Some l => list_eqb pair_eqb l (sg_go_parts c) && sg_same_as_sequential c
  | None => false
  end && negb (Nat.eqb (length (sg_epochs c)) 0) &&
  forallb (fun e => Z.eqb (Z.of_nat (length (fst (fst e)))) (sg_n c) && sagaepochcheck (sg_k c) e) (sg_epochs c).
Definition sagamism (cs : list sagacase) : list nat := mismatches sagacheck cs.
