(* C17 (round 2) — write-set disjointness re-checked on the access lists generated from the Go
   source (Sites_gen.v is rewritten by /verif/go2coq_c17 on every run of the check). *)
From Coq Require Import List String Bool.
From ADV Require Import C17.Spec C17.Sites C17.SitesGenDefs C17.Sites_gen.
Import ListNotations.

Lemma gen_all_ok : forallb gsite_ok gen_sites = true.
Proof. vm_compute. reflexivity. Qed.

Lemma gen_sites_ok : forall s, In s gen_sites -> gsite_ok s = true.
Proof. apply forallb_forall. exact gen_all_ok. Qed.

Lemma gen_coverage : coverage_ok gen_sites = true.
Proof. vm_compute. reflexivity. Qed.

(* what the decision procedure means: an accepted mutating access is job local or carries an
   index that separates two different (thread, job) instances, never a foreign thread id, and no
   foreign pool handle is handed on *)
Lemma gacc_ok_sound a : gacc_ok a = true ->
  (forall i, In i (g_idx a) -> i <> ITid false) /\ g_handle a <> HForeign /\
  (g_write a = true -> g_local a = true \/ exists i, In i (g_idx a) /\ (i = IJob \/ i = ITid true)).
Proof.
  unfold gacc_ok. intro H. apply andb_true_iff in H. destruct H as [H H3]. apply andb_true_iff in H. destruct H as [H1 H2].
  split; [|split].
  - intros i Hi E. subst i. apply negb_true_iff in H1.
    assert (X : existsb idx_foreign (g_idx a) = true) by (apply existsb_exists; exists (ITid false); auto).
    congruence.
  - intro E. rewrite E in H2. discriminate.
  - intro W. unfold gacc_owned in H3. rewrite W in H3. cbn [negb andb] in H3. rewrite !orb_false_r in H3.
    apply orb_true_iff in H3. destruct H3 as [L|E]; [left; exact L|right].
    apply existsb_exists in E. destruct E as [i [Hi Ho]]. exists i. split; [exact Hi|].
    destruct i as [|[|]|]; simpl in Ho; try discriminate; auto.
Qed.

(* two different threads running two different jobs never write the same instance of an accepted
   assignment target: instantiate the owning index with (thread, job) *)
Definition inst_idx (t : nat) (j : nat) (i : idx) : option nat :=
  match i with IJob => Some j | ITid true => Some t | _ => None end.

Lemma accepted_write_separates a : gacc_ok a = true -> g_write a = true -> g_local a = false ->
  forall t1 t2 j1 j2 : nat, t1 <> t2 -> j1 <> j2 ->
  map (inst_idx t1 j1) (g_idx a) <> map (inst_idx t2 j2) (g_idx a).
Proof.
  intros H W L t1 t2 j1 j2 Ht Hj. destruct (gacc_ok_sound a H) as [_ [_ H3]].
  destruct (H3 W) as [X|[i [Hi Hc]]]; [congruence|].
  intro E. assert (G : inst_idx t1 j1 i = inst_idx t2 j2 i).
  { clear -Hi E. induction (g_idx a) as [|x l IH]; [destruct Hi|]. simpl in E. inversion E.
    destruct Hi as [->|Hi]; auto. }
  destruct Hc as [->| ->]; simpl in G; inversion G; contradiction.
Qed.
