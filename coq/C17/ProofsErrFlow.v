(* C17, round 5 — error flow through the pool: proofs. *)
From Coq Require Import List Bool String Permutation Lia.
From ADV Require Import C17.ModelErrFlow.
Import ListNotations.

Lemma run_jobs_spec polls order : forall slot,
  run_jobs polls order slot = slot || existsb (fun b => b) order.
Proof.
  induction order as [|j r IH]; intro slot; simpl.
  - now rewrite orb_false_r.
  - destruct polls; simpl.
    + destruct slot; simpl.
      * rewrite IH. reflexivity.
      * rewrite IH. reflexivity.
    + rewrite IH. now rewrite orb_assoc.
Qed.

Lemma existsb_perm (l1 l2 : list bool) :
  Permutation l1 l2 -> existsb (fun b => b) l1 = existsb (fun b => b) l2.
Proof.
  induction 1 as [|x l l' _ IH|x y l|l l' l'' _ IH1 _ IH2]; simpl.
  - reflexivity.
  - now rewrite IH.
  - destruct x, y; reflexivity.
  - now rewrite IH1.
Qed.

(* a schedule is an execution order of the queued jobs *)
Definition scheduled (o : xop) : Prop :=
  match o with
  | XAdd _ jobs order | XRange _ jobs order => Permutation jobs order
  | _ => True
  end.

(* the zero-value pool: every error is yielded by the call itself *)
Lemma flow_one polls ops : forall slot,
  Forall (fun o => xprop o = true) ops ->
  flow true polls ops slot = some_failure ops.
Proof.
  induction ops as [|o r IH]; intros slot H; [reflexivity|].
  inversion H as [|x l Ho Hr]; subst.
  unfold some_failure in *. simpl.
  destruct o as [p f|p jobs order|p|p jobs order]; simpl in *; subst p.
  - rewrite andb_true_r. destruct f; simpl; [reflexivity|]. now apply IH.
  - rewrite andb_true_r. destruct (existsb (fun b => b) jobs); simpl; [reflexivity|]. now apply IH.
  - now apply IH.
  - rewrite andb_true_r. destruct (existsb (fun b => b) jobs); simpl; [reflexivity|]. now apply IH.
Qed.

(* a real pool: the slot carries the error to the next Wait *)
Lemma flow_many polls ops : forall slot pending,
  Forall (fun o => xprop o = true) ops -> Forall scheduled ops ->
  (slot = true -> pending = true) -> closed ops pending = true ->
  flow false polls ops slot = slot || some_failure ops.
Proof.
  induction ops as [|o r IH]; intros slot pending H HS Hsp Hc.
  - simpl in *. destruct pending; [discriminate|]. destruct slot; [now specialize (Hsp eq_refl)|reflexivity].
  - inversion H as [|x l Ho Hr]; subst. inversion HS as [|x l So Sr]; subst.
    unfold some_failure in *. simpl.
    destruct o as [p f|p jobs order|p|p jobs order]; simpl in *; subst p.
    + rewrite andb_true_r. destruct f; simpl.
      * now rewrite orb_true_r.
      * now apply (IH slot pending).
    + rewrite (IH (run_jobs polls order slot) true); auto.
      rewrite run_jobs_spec, (existsb_perm _ _ So). now rewrite orb_assoc.
    + rewrite andb_true_r. destruct slot; simpl; [reflexivity|].
      now apply (IH false false).
    + rewrite andb_true_r. rewrite run_jobs_spec. simpl. rewrite <- (existsb_perm _ _ So).
      destruct (existsb (fun b => b) jobs); simpl.
      * now rewrite orb_true_r.
      * now apply (IH slot pending).
Qed.

(* THE THEOREM: when every error result of the scope is propagated and every queued group is waited for,
   the scope returns an error iff some job or callee failed - on the zero-value pool and on every real
   pool, for every schedule, whether or not the jobs poll erf() *)
Lemma errflow_exact one polls ops :
  Forall (fun o => xprop o = true) ops -> Forall scheduled ops -> closed ops false = true ->
  flow one polls ops false = some_failure ops.
Proof.
  intros H HS Hc. destruct one.
  - now apply flow_one.
  - rewrite (flow_many polls ops false false); auto.
Qed.

Lemma same_op_fails o1 o2 : same_op o1 o2 -> xfails o1 = xfails o2 /\ xprop o1 = xprop o2.
Proof. destruct 1; simpl; auto. Qed.

Lemma same_some_failure ops1 ops2 : Forall2 same_op ops1 ops2 -> some_failure ops1 = some_failure ops2.
Proof.
  unfold some_failure. induction 1 as [|a b l1 l2 Hab _ IH]; simpl; [reflexivity|].
  destruct (same_op_fails _ _ Hab) as [E _]. now rewrite E, IH.
Qed.

Lemma same_props ops1 ops2 : Forall2 same_op ops1 ops2 ->
  Forall (fun o => xprop o = true) ops1 -> Forall (fun o => xprop o = true) ops2.
Proof.
  induction 1 as [|a b l1 l2 Hab _ IH]; intro H; [constructor|].
  inversion H; subst. constructor; [|now apply IH].
  destruct (same_op_fails _ _ Hab) as [_ E]. now rewrite <- E.
Qed.

Lemma same_closed ops1 ops2 : Forall2 same_op ops1 ops2 -> forall p, closed ops1 p = closed ops2 p.
Proof.
  induction 1 as [|a b l1 l2 Hab _ IH]; intro p; [reflexivity|].
  destruct Hab; simpl; apply IH.
Qed.

(* hence: the error status does not depend on the pool size, the schedule or the polling *)
Lemma errflow_pool_independent ops1 ops2 one1 one2 polls1 polls2 :
  Forall2 same_op ops1 ops2 ->
  Forall (fun o => xprop o = true) ops1 -> Forall scheduled ops1 -> Forall scheduled ops2 -> closed ops1 false = true ->
  flow one1 polls1 ops1 false = flow one2 polls2 ops2 false.
Proof.
  intros S H S1 S2 Hc.
  rewrite (errflow_exact one1 polls1 ops1 H S1 Hc).
  rewrite (errflow_exact one2 polls2 ops2 (same_props _ _ S H) S2); [now apply same_some_failure|].
  now rewrite <- (same_closed _ _ S).
Qed.

(* ------------------------------------------------------------------ the losses *)

(* the missed class: Wait's result dropped.  For EVERY failing job list the sequential run reports the
   error and EVERY real pool, under every schedule, returns nil *)
Lemma wait_discarded polls jobs order :
  existsb (fun b => b) jobs = true ->
  flow true polls [XAdd true jobs order; XWait false] false = true /\
  flow false polls [XAdd true jobs order; XWait false] false = false.
Proof.
  intro E. simpl. rewrite E. simpl. split; [reflexivity|].
  now rewrite andb_false_r.
Qed.

(* matrixEstimator/shapeHmm_data.go: AddRangeJob's result dropped, Wait's propagated: the other way round *)
Lemma add_discarded polls jobs order :
  Permutation jobs order -> existsb (fun b => b) jobs = true ->
  flow true polls [XAdd false jobs order; XWait true] false = false /\
  flow false polls [XAdd false jobs order; XWait true] false = true.
Proof.
  intros P E. simpl. rewrite E. simpl. split; [reflexivity|].
  rewrite run_jobs_spec, <- (existsb_perm _ _ P), E. reflexivity.
Qed.

(* scalarEstimator/numeric.go: both dropped: silent on every pool *)
Lemma both_discarded one polls jobs order :
  flow one polls [XAdd false jobs order; XWait false] false = false.
Proof. destruct one; simpl; now rewrite !andb_false_r. Qed.

(* a callee's error dropped (inside a job closure: the job does not fail; above the pool: the chain is cut) *)
Lemma call_discarded one polls f r slot :
  flow one polls (XCall false f :: r) slot = flow one polls r slot.
Proof. simpl. now rewrite andb_false_r. Qed.

(* in general: a scope in which no error result is propagated never returns an error *)
Lemma nothing_propagated_never_fails one polls ops : forall slot,
  Forall (fun o => xprop o = false) ops -> flow one polls ops slot = false.
Proof.
  induction ops as [|o r IH]; intros slot H; [reflexivity|].
  inversion H as [|x l Ho Hr]; subst. simpl.
  destruct o as [p f|p jobs order|p|p jobs order]; simpl in *; subst p; destruct one; rewrite ?andb_false_r; now apply IH.
Qed.

(* ------------------------------------------------------------------ static list -> dynamic model *)

Lemma instantiate_prop fs on : xprop (instantiate_op fs on) = propagated (fst on).
Proof. destruct on as [o n]. unfold instantiate_op. simpl. destruct (eo_kind o); reflexivity. Qed.

Lemma instantiate_scheduled fs on : scheduled (instantiate_op fs on).
Proof. destruct on as [o n]. unfold instantiate_op. destruct (eo_kind o); simpl; auto. Qed.

Lemma number_ops_fst ops : forall seen, map fst (number_ops ops seen) = ops.
Proof. induction ops as [|o r IH]; intro seen; simpl; [reflexivity|]. now rewrite IH. Qed.

(* a scope of the inventory all of whose calls are `returned`: whatever fails at run time, the scope
   reports it, on every pool *)
Lemma returned_scope_exact s fs one polls :
  forallb propagated (es_ops s) = true ->
  closed (instantiate_scope s fs) false = true ->
  flow one polls (instantiate_scope s fs) false = some_failure (instantiate_scope s fs).
Proof.
  intros H Hc. apply errflow_exact; auto.
  - unfold instantiate_scope. apply Forall_forall. intros x Hx. apply in_map_iff in Hx. destruct Hx as [on [E Hin]]. subst x.
    rewrite instantiate_prop. rewrite forallb_forall in H. apply H.
    rewrite <- (number_ops_fst (es_ops s) []). now apply in_map.
  - unfold instantiate_scope. apply Forall_forall. intros x Hx. apply in_map_iff in Hx. destruct Hx as [on [E _]]. subst x.
    apply instantiate_scheduled.
Qed.

Lemma emissions_error_example_proof :
  flow true true [XAdd true [false; true; false] [false; false; true]; XWait true] false = true /\
  flow false true [XAdd true [false; true; false] [false; false; true]; XWait true] false = true /\
  flow false true [XAdd true [false; true; false] [false; false; true]; XWait false] false = false.
Proof. vm_compute. auto. Qed.
