(* C17 (round 6) — read/write interleavings: with thread-owned cells no update is lost, whatever the interleaving. *)
From Coq Require Import List Arith Bool Lia ZArith.
From ADV Require Import C17.ModelThreads.
Import ListNotations.
Local Arguments upd : simpl never.

Section RWProofs.
  Variable A : Type.
  Variable op : A -> A -> A.

  Notation rw_step := (rw_step A op).
  Notation rw_run := (rw_run A op).

  (* what cell t will hold once thread t has finished, seen from an intermediate state *)
  Definition eventual (s : mstate A) (t : nat) : A :=
    fold_left op (map snd (prog (ths s t))) (match reg (ths s t) with Some v => v | None => cells s t end).

  Definition inv (s : mstate A) : Prop :=
    owned A s /\ forall t v, reg (ths s t) = Some v -> v = cells s t /\ prog (ths s t) <> [].

  Lemma upd_same {X} (f : nat -> X) i x : upd f i x i = x.
  Proof. unfold upd. now rewrite Nat.eqb_refl. Qed.
  Lemma upd_other {X} (f : nat -> X) i x j : j <> i -> upd f i x j = f j.
  Proof. unfold upd. intro H. apply Nat.eqb_neq in H. now rewrite H. Qed.

  Lemma step_inv u s s' : inv s -> rw_step u s = Some s' ->
    inv s' /\ forall t, eventual s' t = eventual s t.
  Proof.
    intros [Ho Hr] E. unfold ModelThreads.rw_step in E.
    destruct (prog (ths s u)) as [|[i x] rest] eqn:Ep; [discriminate|].
    assert (Hi : i = u). { apply (Ho u i x). rewrite Ep. now left. }
    subst i.
    destruct (reg (ths s u)) as [v|] eqn:Er; inversion E; subst s'; clear E.
    - (* write *)
      destruct (Hr u v Er) as [Hv _]. split; [split|].
      + intros t i x0 Hin. simpl in Hin. destruct (Nat.eq_dec t u) as [->|Hn].
        * rewrite upd_same in Hin. simpl in Hin. apply (Ho u i x0). rewrite Ep. now right.
        * rewrite upd_other in Hin by exact Hn. now apply (Ho t i x0).
      + intros t w Hw. simpl in Hw. destruct (Nat.eq_dec t u) as [->|Hn].
        * rewrite upd_same in Hw. discriminate.
        * rewrite upd_other in Hw by exact Hn. simpl. rewrite upd_other by exact Hn.
          rewrite upd_other by exact Hn. now apply Hr.
      + intro t. unfold eventual. simpl. destruct (Nat.eq_dec t u) as [->|Hn].
        * rewrite !upd_same. simpl. rewrite Ep, Er. simpl. reflexivity.
        * rewrite !upd_other by exact Hn. reflexivity.
    - (* read *)
      split; [split|].
      + intros t i x0 Hin. simpl in Hin. destruct (Nat.eq_dec t u) as [->|Hn].
        * rewrite upd_same in Hin. simpl in Hin. apply (Ho u i x0). rewrite Ep. exact Hin.
        * rewrite upd_other in Hin by exact Hn. now apply (Ho t i x0).
      + intros t w Hw. simpl in Hw. simpl. destruct (Nat.eq_dec t u) as [->|Hn].
        * rewrite upd_same in Hw. simpl in Hw. inversion Hw; subst w. rewrite upd_same. simpl.
          split; [reflexivity|]. discriminate.
        * rewrite upd_other in Hw by exact Hn. rewrite upd_other by exact Hn. now apply Hr.
      + intro t. unfold eventual. simpl. destruct (Nat.eq_dec t u) as [->|Hn].
        * rewrite !upd_same. simpl. rewrite Er, Ep. reflexivity.
        * rewrite !upd_other by exact Hn. reflexivity.
  Qed.

  Lemma run_inv il : forall s s', inv s -> rw_run il s = Some s' ->
    inv s' /\ forall t, eventual s' t = eventual s t.
  Proof.
    induction il as [|u il IH]; intros s s' Hi E; simpl in E.
    - inversion E; subst. split; [exact Hi|reflexivity].
    - destruct (rw_step u s) as [s1|] eqn:E1; [|discriminate].
      destruct (step_inv u s s1 Hi E1) as [Hi1 He1].
      destruct (IH s1 s' Hi1 E) as [Hi' He']. split; [exact Hi'|].
      intro t. now rewrite He', He1.
  Qed.

  (* THE interleaving theorem: programs that address only their own thread's cell, started between statements, run under
     ANY interleaving of their read and write steps to completion: every cell holds exactly what its thread computes alone *)
  Theorem owned_cells_no_lost_update s0 il s' :
    owned A s0 -> quiescent A s0 -> rw_run il s0 = Some s' -> finished A s' ->
    forall t, cells s' t = alone A op s0 t.
  Proof.
    intros Ho Hq E Hf t.
    assert (Hi : inv s0).
    { split; [exact Ho|]. intros u v Hv. rewrite (Hq u) in Hv. discriminate. }
    destruct (run_inv il s0 s' Hi E) as [[_ Hr'] He].
    specialize (He t). unfold eventual in He. rewrite (Hf t) in He. simpl in He.
    rewrite (Hq t) in He. unfold alone. rewrite <- He.
    destruct (reg (ths s' t)) as [v|] eqn:Er; [|reflexivity].
    destruct (Hr' t v Er) as [_ Hne]. now rewrite (Hf t) in Hne.
  Qed.

  (* hence the final memory does not depend on the interleaving *)
  Corollary interleaving_independent s0 il1 il2 s1 s2 :
    owned A s0 -> quiescent A s0 -> rw_run il1 s0 = Some s1 -> rw_run il2 s0 = Some s2 ->
    finished A s1 -> finished A s2 -> forall t, cells s1 t = cells s2 t.
  Proof.
    intros Ho Hq E1 E2 F1 F2 t.
    rewrite (owned_cells_no_lost_update s0 il1 s1 Ho Hq E1 F1 t).
    now rewrite (owned_cells_no_lost_update s0 il2 s2 Ho Hq E2 F2 t).
  Qed.

  (* no deadlock at this level: a thread that has not finished can always move *)
  Lemma unfinished_thread_can_step s t : prog (ths s t) <> [] -> exists s', rw_step t s = Some s'.
  Proof.
    intro H. unfold ModelThreads.rw_step. destruct (prog (ths s t)) as [|[i x] rest]; [congruence|].
    destruct (reg (ths s t)); eexists; reflexivity.
  Qed.
End RWProofs.

(* without ownership the theorem fails: two threads adding 10 and 20 to the SAME cell 0 (an accumulator indexed by a
   constant / by another handle's thread id), interleaved read-read-write-write: the update of thread 0 is lost *)
Definition shared_start : mstate Z :=
  mkM (fun _ => 0%Z) (fun t => match t with 0 => mkT [(0, 10%Z)] None | 1 => mkT [(0, 20%Z)] None | _ => mkT [] None end).
Definition owned_start : mstate Z :=
  mkM (fun _ => 0%Z) (fun t => match t with 0 => mkT [(0, 10%Z)] None | 1 => mkT [(1, 20%Z)] None | _ => mkT [] None end).

Lemma shared_cell_lost_update :
  option_map (fun s => cells s 0) (rw_run Z Z.add [0; 1; 0; 1] shared_start) = Some 20%Z /\
  option_map (fun s => cells s 0) (rw_run Z Z.add [0; 0; 1; 1] shared_start) = Some 30%Z /\
  option_map (fun s => (cells s 0, cells s 1)) (rw_run Z Z.add [0; 1; 0; 1] owned_start) = Some (10%Z, 20%Z) /\
  option_map (fun s => (cells s 0, cells s 1)) (rw_run Z Z.add [1; 0; 0; 1] owned_start) = Some (10%Z, 20%Z).
Proof. vm_compute. repeat split. Qed.

Lemma owned_start_hyps : owned Z owned_start /\ quiescent Z owned_start /\ ~ owned Z shared_start.
Proof.
  split; [|split].
  - intros t i x H. destruct t as [|[|t]]; simpl in H; try contradiction;
      destruct H as [H|[]]; inversion H; reflexivity.
  - intro t. destruct t as [|[|t]]; reflexivity.
  - intro H. specialize (H 1 0 20%Z). simpl in H. assert (0 = 1) by (apply H; now left). discriminate.
Qed.
