(* C17, round 5 — ERROR FLOW through the thread pool.

   threadpool.AddJob / AddRangeJob on the zero-value pool (k = 1) run the jobs inline and return the
   first job error themselves; Wait returns nil.  On a real pool (k >= 2) they queue the jobs and
   return nil; a job's error is stored in the error slot of its job group and reaches the caller ONLY
   through the value returned by Wait(g) (which also clears the slot).  RangeJob / Job are
   AddRangeJob + Wait inside the threadpool package, both results propagated there.
   A SCOPE (a function, a job closure, a function literal) is the list of its error-carrying calls in
   source order, each with a disposition: is the error, when it is not nil, returned by the scope?
   The error status of a scope: it returns an error iff some call yields a non-nil error that is
   propagated; calls after that point are not executed.

   Timely setError is assumed (the known finding F-TP-ERRLATE of the pinned threadpool is modelled
   separately in Model.v, step_with_errors_late).

   The static side (ErrFlow_gen.v, regenerated on every run by go2coq_c17 -errflow): the same lists as
   data, derived from the Go source.  No proofs in this file. *)
From Coq Require Import List Bool String.
Import ListNotations.
Open Scope string_scope.

(* ------------------------------------------------------------------ dynamic model *)

Inductive xop :=
| XCall  (prop : bool) (fails : bool)               (* an error-returning callee; fails = it returns a non-nil error *)
| XAdd   (prop : bool) (jobs order : list bool)     (* AddJob loop / AddRangeJob: per job "returns an error", in queue order
                                                       and in the order in which a real pool happens to execute them *)
| XWait  (prop : bool)                              (* Wait(g) *)
| XRange (prop : bool) (jobs order : list bool).    (* RangeJob / Job *)

Definition xprop (o : xop) : bool :=
  match o with XCall p _ | XAdd p _ _ | XWait p | XRange p _ _ => p end.

(* k >= 2: the jobs of a group in execution order; a job that polls erf() returns nil at once when the slot is set *)
Fixpoint run_jobs (polls : bool) (order : list bool) (slot : bool) : bool :=
  match order with
  | [] => slot
  | j :: r => if polls && slot then run_jobs polls r slot else run_jobs polls r (slot || j)
  end.

(* one : the pool is the zero-value pool (k = 1).  slot : error slot of the scope's job group.
   Result: does the scope return an error? *)
Fixpoint flow (one polls : bool) (ops : list xop) (slot : bool) : bool :=
  match ops with
  | [] => false
  | o :: r =>
    let '(yield, slot') :=
      match o with
      | XCall _ f => (f, slot)
      | XAdd _ jobs order => if one then (existsb (fun b => b) jobs, slot) else (false, run_jobs polls order slot)
      | XWait _ => if one then (false, slot) else (slot, false)
      | XRange _ jobs order => if one then (existsb (fun b => b) jobs, slot) else (run_jobs polls order false, slot)
      end in
    if yield && xprop o then true else flow one polls r slot'
  end.

(* "some job / callee of the scope failed" *)
Definition xfails (o : xop) : bool :=
  match o with
  | XCall _ f => f
  | XAdd _ jobs _ | XRange _ jobs _ => existsb (fun b => b) jobs
  | XWait _ => false
  end.
Definition some_failure (ops : list xop) : bool := existsb xfails ops.

(* every queued group is waited for: after an Add (or with a set slot) a Wait follows *)
Fixpoint closed (ops : list xop) (pending : bool) : bool :=
  match ops with
  | [] => negb pending
  | XWait _ :: r => closed r false
  | XAdd _ _ _ :: r => closed r true
  | _ :: r => closed r pending
  end.

(* two runs of the same scope: same calls, same dispositions, same failing callees and jobs;
   only the execution order of the jobs (the schedule) differs *)
Inductive same_op : xop -> xop -> Prop :=
| SameCall p f : same_op (XCall p f) (XCall p f)
| SameAdd p jobs o1 o2 : same_op (XAdd p jobs o1) (XAdd p jobs o2)
| SameWait p : same_op (XWait p) (XWait p)
| SameRange p jobs o1 o2 : same_op (XRange p jobs o1) (XRange p jobs o2).

(* ------------------------------------------------------------------ static inventory *)

Inductive ekind := KAdd | KWait | KRange | KCall.
Inductive edisp := DReturned | DStored | DDiscarded.
Inductive srel := SJob | SChain | SJobCallee.

Record eop := mkEOp {
  eo_kind : ekind;
  eo_name : string;       (* callee *)
  eo_disp : edisp;
  eo_chain : bool;        (* pool operation, or a callee that (transitively) contains pool operations *)
  eo_nil : bool           (* the callee returns the literal nil as its error on every path: it cannot fail *)
}.
Record escope := mkEScope {
  es_name : string;       (* file:Func or file:Func#lit<n> *)
  es_rel : srel;          (* job closure / on the call chain above a pool operation / called from a job *)
  es_reterr : bool;       (* the scope's last result is `error` *)
  es_ops : list eop
}.

Definition propagated (o : eop) : bool := match eo_disp o with DReturned => true | _ => false end.

(* the obligation on one call: its error is returned, or it cannot fail; a scope that has no error result
   cannot propagate the error of an ordinary callee (hooks, constraint predicates) - but a pool operation
   or a chain callee whose error is dropped there is still a loss *)
Definition eop_ok (s : escope) (o : eop) : bool :=
  propagated o || eo_nil o || (negb (eo_chain o) && negb (es_reterr s)).

(* losses present in the unchanged library, each demonstrated by a failing run of the harness
   (stream errflow, corpus/C17/errflow_*.json) and filed as a known finding; matched by scope and callee *)
Definition known_losses : list (string * string * string) := [
  ("statistics/scalarEstimator/numeric.go:NumericEstimator.Estimate#lit2", "AddRangeJob", "F-NUMERIC-ERR-DISCARDED");
  ("statistics/scalarEstimator/numeric.go:NumericEstimator.Estimate#lit2", "Wait", "F-NUMERIC-ERR-DISCARDED");
  ("statistics/scalarEstimator/numeric.go:NumericEstimator.Estimate", "SetParameters", "F-NUMERIC-ERR-DISCARDED");
  ("statistics/matrixEstimator/shapeHmm_data.go:ShapeHmmDataSet.EvaluateLogPdf", "AddRangeJob", "F-SHAPEHMM-ADDJOB-DISCARDED");
  ("statistics/scalarEstimator/logTransform.go:LogTransformEstimator.Estimate", "Initialize", "F-BATCH-ERR-DISCARDED");
  ("statistics/scalarEstimator/logTransform.go:LogTransformEstimator.Estimate", "GetEstimate", "F-BATCH-ERR-DISCARDED");
  ("statistics/scalarEstimator/logTransform.go:LogTransformEstimator.Estimate#lit1", "NewObservation", "F-BATCH-ERR-DISCARDED");
  ("statistics/scalarEstimator/logTransform.go:LogTransformEstimator.Estimate#lit2", "NewObservation", "F-BATCH-ERR-DISCARDED");
  ("statistics/scalarEstimator/translation.go:TranslationEstimator.Estimate", "Initialize", "F-BATCH-ERR-DISCARDED");
  ("statistics/scalarEstimator/translation.go:TranslationEstimator.Estimate", "GetEstimate", "F-BATCH-ERR-DISCARDED");
  ("statistics/scalarEstimator/translation.go:TranslationEstimator.Estimate#lit1", "NewObservation", "F-BATCH-ERR-DISCARDED");
  ("statistics/scalarEstimator/translation.go:TranslationEstimator.Estimate#lit2", "NewObservation", "F-BATCH-ERR-DISCARDED");
  ("statistics/vectorEstimator/normal.go:NormalEstimator.Estimate#lit1", "NewObservation", "F-BATCH-ERR-DISCARDED");
  ("statistics/vectorEstimator/normal.go:NormalEstimator.Estimate#lit2", "NewObservation", "F-BATCH-ERR-DISCARDED");
  (* classified harmless (read): the discarded callee cannot return an error on the path taken / the error is not about the data *)
  ("statistics/generic/hmm_baumWelch.go:Hmm.baumWelchThread", "float64ForwardBackward", "harmless for C17: the job returns the same for every pool size; the data records of the estimators (HmmStdDataRecord.LogPdf ...) read a table and return nil; the xi loop repeats the LogPdf calls at positions >= 1 and returns their error");
  ("statistics/generic/hmm.go:Hmm.SetParameters", "normalizeTf", "harmless: not reached from an estimation job with a pool (SetParameters of the HMM distribution)");
  ("statistics/generic/constrainedHmm.go:ChmmTransitionMatrix.computeLambda#lit1", "EvalConstraints", "harmless for C17: objective of a root finder, no pool below it, identical for every pool size");
  ("statistics/vectorEstimator/logisticRegression.go:sagaLogisticRegressionL1.Execute", "EvalStopping", "harmless: `if stop, delta, err := EvalStopping(..); stop { return .., err }` returns the error together with the stop flag");
  ("statistics/vectorEstimator/logisticRegression.go:sagaLogisticRegressionL1worker.Iterate", "jitUpdates", "harmless for C17: the SAGA worker job swallows a jitUpdates error (`return nil`) identically for every pool size; the worker count itself depends on the pool by design")
].

Definition known (s : escope) (o : eop) : bool :=
  existsb (fun k => String.eqb (fst (fst k)) (es_name s) && String.eqb (snd (fst k)) (eo_name o)) known_losses.

Definition escope_ok (s : escope) : bool := forallb (fun o => eop_ok s o || known s o) (es_ops s).
Definition escope_offenders (s : escope) : list (string * string) :=
  map (fun o => (es_name s, eo_name o)) (filter (fun o => negb (eop_ok s o || known s o)) (es_ops s)).

(* every entry of known_losses still names an existing loss (so the list cannot go stale silently) *)
Definition known_present (l : list escope) (k : string * string * string) : bool :=
  existsb (fun s => String.eqb (fst (fst k)) (es_name s) &&
                    existsb (fun o => String.eqb (snd (fst k)) (eo_name o) && negb (eop_ok s o)) (es_ops s)) l.

(* pool call sites of the anchored packages that must be in the inventory (coverage) *)
Definition required_scopes : list string := [
  "statistics/generic/hmm_baumWelch.go:Hmm.BaumWelchStep";
  "statistics/generic/mixture_em.go:Mixture.EmStep";
  "statistics/generic/hmm_baumWelch_generic.go:baumWelchAlgorithm";
  "statistics/generic/mixture_em_generic.go:emAlgorithm";
  "statistics/vectorEstimator/hmm.go:HmmEstimator.Emissions";
  "statistics/vectorEstimator/hmm.go:HmmEstimator.Emissions#lit1";
  "statistics/vectorEstimator/hmm_data.go:HmmStdDataSet.EvaluateLogPdf";
  "statistics/vectorEstimator/mixture.go:MixtureEstimator.Emissions";
  "statistics/scalarEstimator/mixture.go:MixtureEstimator.Emissions";
  "statistics/matrixEstimator/hmm.go:HmmEstimator.Emissions";
  "statistics/matrixEstimator/mixture.go:MixtureEstimator.Emissions";
  "statistics/matrixEstimator/shapeHmm.go:ShapeHmmEstimator.Emissions";
  "statistics/scalarEstimator/normal.go:NormalEstimator.Estimate";
  "statistics/vectorEstimator/normal.go:NormalEstimator.Estimate";
  "statistics/vectorEstimator/logisticRegression.go:sagaLogisticRegressionL1.Execute"
].
Definition has_pool_op (s : escope) : bool :=
  existsb (fun o => match eo_kind o with KCall => eo_chain o | _ => true end) (es_ops s).
Definition errflow_coverage (l : list escope) : bool :=
  forallb (fun n => existsb (fun s => String.eqb n (es_name s) && negb (match es_ops s with [] => true | _ => false end)) l) required_scopes.

(* ------------------------------------------------------------------ the tie: static list + run-time facts -> dynamic model *)

(* run-time facts of one executed scope: for the i-th call of the scope, which of its jobs fail (pool
   operations) or whether the callee fails (calls); calls not mentioned do not fail *)
Inductive rfact := RJobs (callee : string) (nth : nat) (jobs : list bool) | RFails (callee : string) (nth : nat).

Fixpoint find_fact (name : string) (n : nat) (fs : list rfact) : option rfact :=
  match fs with
  | [] => None
  | RJobs c k j :: r => if String.eqb c name && Nat.eqb k n then Some (RJobs c k j) else find_fact name n r
  | RFails c k :: r => if String.eqb c name && Nat.eqb k n then Some (RFails c k) else find_fact name n r
  end.

(* occurrence number of each op among the ops with the same callee name *)
Fixpoint number_ops (ops : list eop) (seen : list string) : list (eop * nat) :=
  match ops with
  | [] => []
  | o :: r => (o, List.length (filter (String.eqb (eo_name o)) seen)) :: number_ops r (eo_name o :: seen)
  end.

Definition instantiate_op (fs : list rfact) (on : eop * nat) : xop :=
  let (o, n) := on in
  let f := find_fact (eo_name o) n fs in
  let jobs := match f with Some (RJobs _ _ j) => j | _ => [] end in
  match eo_kind o with
  | KCall => XCall (propagated o) (match f with Some (RFails _ _) => true | _ => false end)
  | KAdd => XAdd (propagated o) jobs jobs
  | KWait => XWait (propagated o)
  | KRange => XRange (propagated o) jobs jobs
  end.

Definition instantiate_scope (s : escope) (fs : list rfact) : list xop :=
  map (instantiate_op fs) (number_ops (es_ops s) []).

Definition find_scope (l : list escope) (name : string) : option escope :=
  find (fun s => String.eqb name (es_name s)) l.

(* a failure path, innermost scope first: the failure is injected into the first scope by its facts; the
   status of each scope becomes the `fails` of the named call of the next (outer) scope.
   Job closures: their status is the job's error, placed by the caller of eval_path into the jobs of
   the enclosing Add through the `via` of the next element. *)
Inductive via := ViaCall (callee : string) (nth : nat) | ViaJob (callee : string) (nth : nat) (njobs : nat) (job : nat).

Definition facts_of (v : via) (st : bool) : list rfact :=
  if st then
    match v with
    | ViaCall c n => [RFails c n]
    | ViaJob c n nj j => [RJobs c n (map (fun i => Nat.eqb i j) (seq 0 nj))]
    end
  else [].

(* None: a scope of the path is not in the inventory (the tie is lost) *)
Fixpoint eval_path (l : list escope) (one polls : bool) (st : bool) (path : list (via * string)) : option bool :=
  match path with
  | [] => Some st
  | (v, name) :: r =>
    match find_scope l name with
    | None => None
    | Some s =>
      (* the callee named by `via` must exist in the scope, otherwise the path is stale *)
      let nm := match v with ViaCall c _ | ViaJob c _ _ _ => c end in
      if existsb (fun o => String.eqb nm (eo_name o)) (es_ops s)
      then eval_path l one polls (flow one polls (instantiate_scope s (facts_of v st)) false) r
      else None
    end
  end.
