(* C17 — property theorems (statements only; proofs live in Proofs*.v). *)
From Coq Require Import ZArith List Bool Permutation Reals QArith.
From ADV Require Import C17.Model C17.Spec C17.Carriers C17.ProofsMerge C17.ProofsChunks C17.ProofsErr C17.ProofsSites.
From ADV Require Import C17.ModelCfg C17.ProofsCfg C17.SitesGenDefs C17.Sites_gen C17.ProofsSitesGen.
From ADV Require Import C17.ModelSaga C17.ProofsSaga.
Import ListNotations.

(* (1) nothing lost, nothing counted twice: for EVERY pool size k >= 1 (also k larger than the
   number of jobs), every content the accumulators held before the step, every schedule of the
   job list, each of the four merge loops of /repo returns the monoid sum of the contributions.
   merge_fresh: hmm1.Pi, hmm1.Tr, mixture1.LogWeights; merge_into0: tmp[0].gamma, tmp[0].likelihood;
   eager_fresh: scalar NormalEstimator; eager_into0: vector NormalEstimator. *)
Theorem merge_no_loss_no_duplicate :
  forall (A : Type) (op : A -> A -> A) (e : A), commutative_monoid A op e ->
  forall (J : Type) (c : J -> A) (k : nat) (stale : pool A) (jobs : list J) (sch : list (nat * J)),
    (1 <= k)%nat -> length stale = k -> schedule_of J k jobs sch ->
    step_lazy_fresh A op e stale (events A J c sch) = Some (sum_of A op e J c jobs) /\
    step_lazy_into0 A op e stale (events A J c sch) = Some (sum_of A op e J c jobs) /\
    step_eager_fresh A op e k (events A J c sch) = Some (sum_of A op e J c jobs) /\
    step_eager_into0 A op e k (events A J c sch) = Some (sum_of A op e J c jobs).
Proof. exact merge_all_styles. Qed.

(* hence: independent of the schedule, of the pool size and of stale accumulator contents,
   and equal to the sequential run (pool of one thread, jobs in list order) *)
Theorem schedule_independent :
  forall (A : Type) (op : A -> A -> A) (e : A), commutative_monoid A op e ->
  forall (J : Type) (c : J -> A) (jobs : list J)
         (k1 k2 : nat) (st1 st2 : pool A) (sch1 sch2 : list (nat * J)),
    (1 <= k1)%nat -> (1 <= k2)%nat -> length st1 = k1 -> length st2 = k2 ->
    schedule_of J k1 jobs sch1 -> schedule_of J k2 jobs sch2 ->
    step_lazy_fresh A op e st1 (events A J c sch1) = step_lazy_fresh A op e st2 (events A J c sch2) /\
    step_lazy_into0 A op e st1 (events A J c sch1) = step_lazy_into0 A op e st2 (events A J c sch2) /\
    step_eager_fresh A op e k1 (events A J c sch1) = step_eager_fresh A op e k2 (events A J c sch2) /\
    step_eager_into0 A op e k1 (events A J c sch1) = step_eager_into0 A op e k2 (events A J c sch2).
Proof. exact schedule_independence. Qed.

Theorem equals_sequential :
  forall (A : Type) (op : A -> A -> A) (e : A), commutative_monoid A op e ->
  forall (J : Type) (c : J -> A) (jobs : list J) (k : nat) (stale : pool A) (sch : list (nat * J)) (t0 : thr A),
    (1 <= k)%nat -> length stale = k -> schedule_of J k jobs sch ->
    step_lazy_into0 A op e stale (events A J c sch) =
    step_lazy_into0 A op e [t0] (events A J c (sequential J jobs)).
Proof. exact parallel_equals_sequential. Qed.

(* AddRangeJob: the queued chunks partition [from,to) for all from <= to and every pool size *)
Theorem range_chunks_partition :
  forall threads iFrom iTo, (1 <= threads)%Z -> (iFrom <= iTo)%Z ->
  exists l, chunks threads iFrom iTo = Some l /\
            concat (map zr l) = zrange iFrom iTo /\
            Forall (fun ch => (iFrom <= fst ch /\ fst ch < snd ch /\ snd ch <= iTo)%Z) l.
Proof. exact chunks_partition. Qed.

(* ... so a range job merged over any assignment of its chunks to threads is the sum over [from,to) *)
Theorem range_job_merge :
  forall (A : Type) (op : A -> A -> A) (e : A), commutative_monoid A op e ->
  forall (c : Z -> A) (k : nat) (stale : pool A) (iFrom iTo : Z) (sch : list (nat * (Z * Z))),
    (1 <= k)%nat -> length stale = k -> (iFrom <= iTo)%Z -> range_schedule_of k iFrom iTo sch ->
    step_lazy_fresh A op e stale (expand A c sch) = Some (bigop A op e (map c (zrange iFrom iTo))) /\
    step_lazy_into0 A op e stale (expand A c sch) = Some (bigop A op e (map c (zrange iFrom iTo))) /\
    step_eager_fresh A op e k (expand A c sch) = Some (bigop A op e (map c (zrange iFrom iTo))) /\
    step_eager_into0 A op e k (expand A c sch) = Some (bigop A op e (map c (zrange iFrom iTo))).
Proof. exact range_merge_all_styles. Qed.

(* the carriers of /repo's accumulators are commutative monoids: + on R (likelihood, moment sums),
   log-add on R u {-inf} (gamma, xi, pi, weights), the one-writer cells, and products of these *)
Theorem carriers_are_monoids :
  commutative_monoid R Rplus 0%R /\ commutative_monoid lval logadd None /\
  (forall V, commutative_monoid (cellv V) cell_op NegInf).
Proof. exact carriers_monoids. Qed.

(* what the log-domain merge denotes: exp(merged) = sum of exp(contribution) *)
Theorem logadd_merge_denotes :
  forall cs : list lval, lexp (bigop lval logadd None cs) = fold_right Rplus 0%R (map lexp cs).
Proof. exact lexp_bigop. Qed.

(* a thread id outside tmp is a panic, not a silent loss *)
Theorem thread_id_out_of_range_panics :
  forall (A : Type) (op : A -> A -> A) (e : A) (stale : pool A) tr1 i c tr2,
    Forall (fun ev => (fst ev < length stale)%nat) tr1 -> (length stale <= i)%nat ->
    step_lazy_into0 A op e stale (tr1 ++ (i, c) :: tr2) = None.
Proof. exact out_of_range_panics. Qed.

(* (3) error propagation, k = 1 (nil pool) and k > 1, jobs that poll erf() or not *)
Theorem error_propagates :
  forall (A : Type) (op : A -> A -> A) (e : A) (polls : bool) (k : nat) (stale : pool A) (tr : list (jevent A)),
    (1 <= length stale)%nat -> Forall (fun ev => (fst ev < length stale)%nat) tr ->
    (exists i, In (i, JErr) tr) ->
    step_with_errors A op e polls k stale tr = SErr.
Proof. exact step_error_exact. Qed.

(* KNOWN FINDING F-TP-ERRLATE (threadpool package, outside the library): the job wrapper signals
   wg.Done() before the worker stores the job's error, so Wait may return nil although a job failed.
   error_propagates above is the statement under the assumption that the error is stored in time;
   with late failures it is refuted, and it holds again as soon as one failing job is timely. *)
Theorem threadpool_late_error_refuted :
  exists (tr : list (jevent Z * bool)) (a : Z),
    (exists i l, In ((i, JErr), l) tr) /\
    step_with_errors_late Z Z.add 0%Z true 2 [mkThr false 0%Z; mkThr false 0%Z] tr = SOk a.
Proof. exact late_error_lost. Qed.

Theorem timely_error_propagates :
  forall (A : Type) (op : A -> A -> A) (e : A) (polls : bool) (tr : list (jevent A * bool)) p err p' b,
    (exists i, In ((i, JErr), false) tr) ->
    par_run_late A op e polls tr p err = Some (p', b) -> b = true.
Proof. exact ProofsSites.timely_error_propagates. Qed.

(* the code before fix 3a744c6 (Wait's error dropped) did not have this property *)
Theorem prefix_code_drops_error_refuted :
  exists (k : nat) (tr : list (jevent Z)) (a : Z),
    (exists i, In (i, JErr) tr) /\
    step_with_errors_prefix Z Z.add 0%Z true k [mkThr false 0%Z; mkThr false 0%Z] tr = SOk a.
Proof. exact prefix_drops_error. Qed.

(* call sites outside the anchored files that discard the result of AddRangeJob and test only Wait
   (matrixEstimator/shapeHmm_data.go:115; read, not exercised by the harness): the same failing job
   list gives "no error" on the pool of one thread and an error on two threads *)
Theorem addjob_result_ignored_refuted :
  exists (tr1 tr2 : list (jevent Z)) (a : Z),
    map snd tr1 = map snd tr2 /\ (exists i, In (i, JErr) tr1) /\
    step_addjob_result_ignored Z Z.add 0%Z true 1 [mkThr false 0%Z] tr1 = SOk a /\
    step_addjob_result_ignored Z Z.add 0%Z true 2 [mkThr false 0%Z; mkThr false 0%Z] tr2 = SErr.
Proof. exact addjob_ignored_pool_dependent. Qed.

(* (2) write-set disjointness, decided per job closure on the access lists DERIVED from the Go
   source by /verif/go2coq_c17 (Sites_gen.v, regenerated on every run): every assignment and every
   method call on a non-job-local object inside a closure handed to AddJob / AddRangeJob / RangeJob
   (callees of the same package followed) is job local, or indexed by the job's index, or by
   GetThreadId() of the closure's OWN pool handle, or a read-only call on shared data; no thread id
   of another handle indexes an accumulator and no foreign pool handle is passed to a nested estimate *)
Theorem sites_write_only_owned_cells :
  forall s, In s gen_sites -> gsite_ok s = true.
Proof. exact gen_sites_ok. Qed.

(* every modelled call site has its closures in the generated list and every closure found in the
   library belongs to a modelled call site *)
Theorem generated_sites_cover_the_model : coverage_ok gen_sites = true.
Proof. exact gen_coverage. Qed.

(* hence two different threads running two different jobs never assign the same instance *)
Theorem generated_writes_never_conflict :
  forall a, gacc_ok a = true -> g_write a = true -> g_local a = false ->
  forall t1 t2 j1 j2 : nat, t1 <> t2 -> j1 <> j2 ->
    map (inst_idx t1 j1) (g_idx a) <> map (inst_idx t2 j2) (g_idx a).
Proof. exact accepted_write_separates. Qed.

(* the same statement on the access lists transcribed by hand in round 1 (Sites.v) *)
Theorem transcribed_sites_write_only_owned_cells :
  forall s, In s all_sites -> site_ok s = true.
Proof. exact all_sites_ok. Qed.

Theorem owned_writes_never_conflict :
  forall s, site_ok s = true ->
  forall (t1 t2 : nat) (j1 j2 : Z), t1 <> t2 -> j1 <> j2 ->
  forall w a, In w (job_writes s) -> In a (job_writes s ++ job_reads s) ->
    instantiate t1 j1 w <> instantiate t2 j2 a.
Proof. exact frame_disjoint. Qed.

(* SAGA logistic regression: the index partition covers [0,n) with min(threads,n) slices
   (its result depends on the pool size by design: one worker per slice, averaged) *)
Theorem saga_partition_covers :
  forall threads n, (1 <= threads)%Z -> (1 <= n)%Z ->
  exists l, saga_partition threads n = Some l /\ concat (map zr l) = zrange 0 n /\
            Z.of_nat (length l) = Z.min threads n.
Proof. exact saga_partition_spec. Qed.

(* round 7 - which samples a SAGA epoch evaluates (sagaLogisticRegressionL1.Initialize's sub-slices of Indices read by
   the workers' Iterate loops): for EVERY pool size, EVERY drawn list (any n >= 1, divisible by the worker count or
   not, repetitions allowed) the workers' evaluation sequences concatenate to the drawn list - no sample of the epoch
   is dropped (the remainder n mod p goes to the last worker), none is evaluated twice, min(threads, n) workers *)
Theorem saga_workers_evaluate_the_drawn_list :
  forall (threads : Z) (idx : list Z), (1 <= threads)%Z -> idx <> [] ->
  exists ws, saga_epoch_evals threads idx = Some ws /\ concat ws = idx /\
             Z.of_nat (length ws) = Z.min threads (Z.of_nat (length idx)).
Proof. exact saga_workers_spec. Qed.

(* the nil pool (workers in order) logs exactly the drawn list *)
Theorem saga_sequential_epoch_log :
  forall (threads : Z) (idx : list Z), (1 <= threads)%Z -> idx <> [] ->
  saga_epoch_log_sequential threads idx = Some idx.
Proof. exact saga_sequential_log_spec. Qed.

(* and on a real pool: EVERY complete interleaving of the workers' sequences is a permutation of the drawn list -
   the multiset of evaluated sample indices of an epoch is the multiset drawn, whatever the schedule *)
Theorem saga_every_interleaving_evaluates_the_drawn_multiset :
  forall (threads : Z) (idx : list Z) (sched : list nat) (ws : list (list Z)) (log : list Z),
    saga_epoch_evals threads idx = Some ws -> (1 <= threads)%Z -> idx <> [] ->
    saga_interleave sched ws = Some log -> length sched = length idx ->
    Permutation log idx /\ forall j, countZ j log = countZ j idx.
Proof. exact saga_interleaving_both. Qed.

(* the decision used by the correspondence is sound *)
Theorem same_bag_decides_counts :
  forall a b, same_bag a b = true -> forall x, countZ x a = countZ x b.
Proof. exact same_bag_sound. Qed.

(* non-vacuity: n = 7, 3 threads (7 mod 3 = 1: slices 2, 2, 3), a complete interleaving; a log without the
   remainder is rejected; an interleaving that over-draws a worker does not exist *)
Example saga_epoch_example :
  saga_epoch_evals 3 ex_idx = Some [[5; 0]; [5; 3]; [6; 1; 1]]%Z /\
  saga_interleave [2; 0; 2; 1; 1; 0; 2]%nat [[5; 0]; [5; 3]; [6; 1; 1]]%Z = Some [6; 5; 1; 5; 3; 0; 1]%Z /\
  same_bag [6; 5; 1; 5; 3; 0; 1]%Z ex_idx = true /\
  same_bag (concat [[5; 0]; [5; 3]; [6; 1]]%Z) ex_idx = false /\
  saga_interleave [0; 0; 0]%nat [[5; 0]; [5; 3]; [6; 1; 1]]%Z = None.
Proof. exact saga_example. Qed.

(* (1') the merge theorem PER ACCUMULATOR and PER CONFIGURATION of the optional accumulators of
   BaumWelchStep (pi, tr iff OptimizeTransitions, gamma iff OptimizeEmissions, likelihood) and
   EmStep (logWeights iff OptimizeWeights, gamma iff OptimizeEmissions, likelihood): in every
   configuration that does not dereference a nil accumulator, for every pool size, stale
   content and schedule, the step returns exactly the accumulators the configuration allocates,
   each the monoid sum of its contributions - the likelihood whether or not gamma is nil. *)
Theorem optional_accumulators_merge_per_configuration :
  forall (A1 A2 A3 A4 : Type) op1 e1 op2 e2 op3 e3 op4 e4,
    commutative_monoid A1 op1 e1 -> commutative_monoid A2 op2 e2 ->
    commutative_monoid A3 op3 e3 -> commutative_monoid A4 op4 e4 ->
  forall (J : Type) (cf : J -> contrib A1 A2 A3 A4) (c : ocfg) (k : nat) (stale : list (othr A1 A2 A3 A4))
         (jobs : list J) (sch : list (nat * J)),
    cfg_safe c = true -> (1 <= k)%nat -> length stale = k -> schedule_of J k jobs sch ->
    ostep A1 A2 A3 A4 op1 e1 op2 e2 op3 e3 op4 e4 c stale (oevents A1 A2 A3 A4 J cf sch) =
      Some (mkR (bigop A1 op1 e1 (map (fun j => c_1 (cf j)) jobs))
                (if has_F c then Some (bigop A2 op2 e2 (map (fun j => c_2 (cf j)) jobs)) else None)
                (if has_I c then Some (bigop A3 op3 e3 (map (fun j => c_3 (cf j)) jobs)) else None)
                (bigop A4 op4 e4 (map (fun j => c_4 (cf j)) jobs))).
Proof. exact ostep_schedule. Qed.

(* the configurations of the two steps: all four of EM, the two of Baum-Welch that allocate tr *)
Theorem em_and_baum_welch_configurations_are_covered :
  (forall oe ow, cfg_safe (em_cfg oe ow) = true) /\ (forall oe, cfg_safe (bw_cfg oe true) = true).
Proof. exact (conj em_cfg_safe bw_cfg_safe). Qed.

(* round 6: at /repo HEAD (fix 25c790a: `if tr != nil` around the reset) all four Baum-Welch configurations are safe, so
   optional_accumulators_merge_per_configuration covers BaumWelchOptimizeTransitions{false} as well *)
Theorem baum_welch_at_head_all_configurations_are_covered :
  forall oe ot, cfg_safe (bw_cfg_head oe ot) = true.
Proof. exact bw_cfg_head_safe. Qed.

(* KNOWN FINDING F-BW-NOTRANS-NILDEREF (the code BEFORE fix 25c790a; selected by the harness probe only while the panic is observed): with BaumWelchOptimizeTransitions{false} tmp[.].tr is a nil
   *DenseFloat64Matrix and the reset block of baumWelchThread calls tr.Map on it: the first job
   of every step panics, for every pool size (on a worker goroutine this kills the process) *)
Theorem baum_welch_without_transitions_panics_refuted :
  forall (A1 A2 A3 A4 : Type) op1 e1 op2 e2 op3 e3 op4 e4 (oe : bool)
         (stale : list (othr A1 A2 A3 A4)) i x tr,
    (i < length stale)%nat ->
    ostep A1 A2 A3 A4 op1 e1 op2 e2 op3 e3 op4 e4 (bw_cfg oe false) stale ((i, x) :: tr) = None.
Proof. exact bw_notrans_panics. Qed.

(* the regression class "the loop merging gamma AND the likelihood is guarded by gamma != nil":
   distinguished by the model exactly in the configuration without gamma *)
Example guarded_merge_loses_likelihood :
  let st := [mkO false 0 0 0 0; mkO false 0 0 0 0]%Z in
  let tr := [(0%nat, mkC 1 1 1 10); (1%nat, mkC 1 1 1 20)]%Z in
  option_map r_4 (ostep Z Z Z Z Z.add 0%Z Z.add 0%Z Z.add 0%Z Z.add 0%Z (bw_cfg false true) st tr) = Some 30%Z /\
  option_map r_4 (ostep_guarded Z Z Z Z Z.add 0%Z Z.add 0%Z Z.add 0%Z Z.add 0%Z (bw_cfg false true) st tr) = Some 10%Z /\
  option_map r_4 (ostep_guarded Z Z Z Z Z.add 0%Z Z.add 0%Z Z.add 0%Z Z.add 0%Z (bw_cfg true true) st tr) = Some 30%Z.
Proof. exact guarded_loses. Qed.

(* the hypotheses are satisfiable by a non-trivial instance: 3 jobs on 4 threads, thread 0 and 3 never used *)
Example schedule_example :
  schedule_of nat 4 [0; 1; 2]%nat [(2, 1); (1, 0); (2, 2)]%nat /\
  step_lazy_into0 Z Z.add 0%Z [mkThr true 99; mkThr true 98; mkThr false 97; mkThr true 96]%Z
     (events Z nat (fun j => Z.of_nat (10 ^ j)) [(2, 1); (1, 0); (2, 2)]%nat) = Some 111%Z.
Proof. exact schedule_example_proof. Qed.

(* ======================================================================================
   Round 3 — the CLASS "per-thread clones that are not deep".
   The batch evaluation routines (XxxDataSet.EvaluateLogPdf) clone every emission once per thread
   and call LogPdf on the clones concurrently; LogPdf writes the scratch cells of the objects it
   evaluates.  The write-set model is extended by these cells (ModelScratch.v). *)
From ADV Require Import C17.ModelScratch C17.ScratchGenDefs C17.Scratch_gen C17.ProofsScratch.

(* (2') a job's footprint = its thread's accumulator cells + its own output cells + (any part of) the
   scratch cells reachable from its thread's clones.  If the per-thread clones are FRESH (the
   footprints of different threads are disjoint), then for every pool size, every assignment of jobs
   to threads and every selection of scratch cells the evaluations touch, two jobs on different
   threads have disjoint write sets. *)
Theorem fresh_clones_give_disjoint_write_sets :
  forall (fp : clone_table) (k : nat) (sigma : nat -> nat) (used : nat -> list scell -> list scell) (nacc nout : nat),
    fresh_table fp k ->
    (forall j l c, In c (used j l) -> In c l) ->
    forall j1 j2, (sigma j1 < k)%nat -> (sigma j2 < k)%nat -> sigma j1 <> sigma j2 -> j1 <> j2 ->
    forall x, In x (job_footprint fp sigma used nacc nout j1) -> ~ In x (job_footprint fp sigma used nacc nout j2).
Proof. exact fresh_footprints_disjoint. Qed.

(* a DEEP Clone() (every scratch cell newly allocated, as generic.Mixture.Clone() does with
   t1.CloneScalar() ...) yields a fresh table for every pool size, every object size and every
   allocator position - and the clones do not touch the original either *)
Theorem deep_clones_are_fresh :
  forall (orig : list scell) (n0 k : nat),
    fresh_table (table_of (deep (length orig)) orig n0) k /\
    ((forall c, In c orig -> (c < n0)%nat) -> forall t c, In c (table_of (deep (length orig)) orig n0 t) -> ~ In c orig).
Proof. exact deep_clones_fresh_both. Qed.

(* a Clone() that copies even ONE scratch field instead of allocating it (mask i = true: `r := *obj`)
   is not fresh on any pool of >= 2 threads, and any two jobs on any two threads that use their whole
   footprint then write a common cell: the seeded regression of generic.Mixture.Clone() as a theorem *)
Theorem shallow_clone_refuted :
  forall (mask : list bool) (orig : list scell) (n0 i : nat),
    nth i mask false = true -> (i < length orig)%nat ->
    (forall k, (2 <= k)%nat -> ~ fresh_table (table_of mask orig n0) k) /\
    (forall sigma nacc nout j1 j2,
        exists x, In x (job_footprint (table_of mask orig n0) sigma (fun _ l => l) nacc nout j1) /\
                  In x (job_footprint (table_of mask orig n0) sigma (fun _ l => l) nacc nout j2)).
Proof. exact shallow_clone_both. Qed.

(* the hypotheses are satisfiable: the (t1, t2, t3) of a mixture at addresses 10..12, eight threads *)
Example deep_and_struct_copy_clone_of_a_mixture :
  fresh_tableb (table_of [false; false; false] [10; 11; 12]%nat 20) 8 = true /\
  fresh_tableb (table_of [true; true; true] [10; 11; 12]%nat 20) 2 = false.
Proof. exact (conj mixture_clone_deep_example mixture_clone_struct_copy_example). Qed.

(* (2'') decided on the SOURCE (Scratch_gen.v, regenerated by go2coq_c17 on every run): the evaluation
   calls of the job closures, followed one level into every LogPdf / Likelihood / Posterior body of the
   distribution types (the generic Mixture's t1, t2, t3 among them), write only receiver fields that
   (a) are reached through the closure's own thread id or the job index, and (b) the type's Clone()
   allocates afresh. *)
Theorem generated_scratch_writes_are_thread_owned_and_fresh :
  forallb gsite_ok (map (expand_site gen_scratch) gen_sites) = true /\
  scratch_ok gen_scratch gen_clone_fields = true /\
  follows_generic_mixture gen_scratch = true /\
  (1 <= expanded_writes gen_scratch gen_sites)%nat.
Proof. exact (conj gen_expanded_ok (conj gen_scratch_fresh (conj gen_scratch_followed gen_expanded_nonempty))). Qed.

Theorem generated_scratch_write_separates :
  forall s a, In s gen_sites -> In a (flat_map (expand_call gen_scratch) (gs_acc s)) -> g_local a = false ->
  forall t1 t2 j1 j2 : nat, t1 <> t2 -> j1 <> j2 ->
    map (inst_idx t1 j1) (g_idx a) <> map (inst_idx t2 j2) (g_idx a).
Proof. exact expanded_write_separates. Qed.

(* ======================================================================================
   Round 5 — the CLASS "an error does not come back through the pool".
   On the zero-value pool AddJob / AddRangeJob run the jobs inline and return the job's error; on a real
   pool they return nil and the error reaches the caller ONLY through the result of Wait(g); from there
   it travels up the call chain, and below the pool out of the job closure.  ModelErrFlow.flow is the
   error status of one scope (function, job closure) given what happens to each error result. *)
From ADV Require Import C17.ModelErrFlow C17.ProofsErrFlow C17.ErrFlow_gen C17.ProofsErrFlowGen.

(* (3') if every error result of the scope is propagated and every queued group is waited for, the scope
   returns an error IFF some job or callee failed - on the zero-value pool and on every real pool, for
   every execution order of the jobs, whether or not they poll erf() (timely setError assumed, see
   threadpool_late_error_refuted) *)
Theorem error_status_is_some_job_failed :
  forall (one polls : bool) (ops : list xop),
    Forall (fun o => xprop o = true) ops -> Forall scheduled ops -> closed ops false = true ->
    flow one polls ops false = some_failure ops.
Proof. exact errflow_exact. Qed.

(* hence the error status of the parallel run is that of the sequential run: independent of the pool
   (zero-value or real), of the schedule and of polling *)
Theorem error_status_is_pool_and_schedule_independent :
  forall (ops1 ops2 : list xop) (one1 one2 polls1 polls2 : bool),
    Forall2 same_op ops1 ops2 ->
    Forall (fun o => xprop o = true) ops1 -> Forall scheduled ops1 -> Forall scheduled ops2 -> closed ops1 false = true ->
    flow one1 polls1 ops1 false = flow one2 polls2 ops2 false.
Proof. exact errflow_pool_independent. Qed.

(* the regression class as theorems.  Wait's result dropped: for EVERY failing job list the sequential
   run reports the error and every real pool, under every schedule, returns nil *)
Theorem wait_result_discarded_refuted :
  forall (polls : bool) (jobs order : list bool),
    existsb (fun b => b) jobs = true ->
    flow true polls [XAdd true jobs order; XWait false] false = true /\
    flow false polls [XAdd true jobs order; XWait false] false = false.
Proof. exact wait_discarded. Qed.

(* KNOWN FINDING F-SHAPEHMM-ADDJOB-DISCARDED (matrixEstimator/shapeHmm_data.go:115): AddRangeJob's result
   dropped, Wait's tested - the other way round: silent on the zero-value pool, an error on every real pool *)
Theorem addjob_result_discarded_refuted :
  forall (polls : bool) (jobs order : list bool),
    Permutation jobs order -> existsb (fun b => b) jobs = true ->
    flow true polls [XAdd false jobs order; XWait true] false = false /\
    flow false polls [XAdd false jobs order; XWait true] false = true.
Proof. exact add_discarded. Qed.

(* KNOWN FINDING F-NUMERIC-ERR-DISCARDED (scalarEstimator/numeric.go:117,143): both dropped - silent on every pool *)
Theorem both_results_discarded_refuted :
  forall (one polls : bool) (jobs order : list bool),
    flow one polls [XAdd false jobs order; XWait false] false = false.
Proof. exact both_discarded. Qed.

(* a scope that propagates none of its error results never fails (a job closure that drops the error of the
   component estimator; KNOWN FINDING F-BATCH-ERR-DISCARDED: logTransform.go / translation.go / vector normal.go) *)
Theorem nothing_propagated_refuted :
  forall (one polls : bool) (ops : list xop) (slot : bool),
    Forall (fun o => xprop o = false) ops -> flow one polls ops slot = false.
Proof. exact nothing_propagated_never_fails. Qed.

(* decided on the SOURCE (ErrFlow_gen.v, regenerated by go2coq_c17 -errflow on every run): in every job closure,
   every function above a pool operation and every error-returning function called from a job, each call that
   carries an error returns it (tested != nil and returned, or operand of a return) or cannot fail (its
   declaration returns the literal nil on every path) - except the losses listed in ModelErrFlow.known_losses,
   each of which is still present; the pool call sites of the anchored files are in the inventory *)
Theorem generated_error_results_are_propagated :
  forallb escope_ok gen_errscopes = true /\
  errflow_coverage gen_errscopes = true /\
  forallb (known_present gen_errscopes) known_losses = true.
Proof. exact (conj gen_errscopes_ok (conj gen_errflow_coverage gen_known_present)). Qed.

(* so for every scope of the inventory whose results are all returned (at least 40 scopes with pool operations
   are), whatever fails at run time: the scope reports it, on every pool and schedule *)
Theorem generated_clean_scopes_report_every_failure :
  Nat.leb 40 (List.length clean_pool_scopes) = true /\
  forallb (fun s => forallb propagated (es_ops s)) clean_pool_scopes = true /\
  forall s, forallb propagated (es_ops s) = true ->
    forall fs one polls, closed (instantiate_scope s fs) false = true ->
      flow one polls (instantiate_scope s fs) false = some_failure (instantiate_scope s fs).
Proof. exact (conj gen_clean_pool_scopes_many (conj clean_pool_scopes_are_clean gen_clean_scope_exact)). Qed.

(* the hypotheses are satisfiable: Emissions of the vector HMM (AddRangeJob; Wait, both returned), component 1 of 3
   fails, executed last on a real pool: reported on both pools; with Wait dropped only sequentially *)
Example emissions_error_example :
  flow true true [XAdd true [false; true; false] [false; false; true]; XWait true] false = true /\
  flow false true [XAdd true [false; true; false] [false; false; true]; XWait true] false = true /\
  flow false true [XAdd true [false; true; false] [false; false; true]; XWait false] false = false.
Proof. exact emissions_error_example_proof. Qed.

(* ======================================================================================
   Round 6 — the per-thread partial sums of ALL batch estimators (scalarEstimator: Categorical, Exponential, Geometric,
   NegativeBinomial, Normal, Poisson; vectorEstimator: Normal), from a description REGENERATED from the Go source.
   go2coq_c17 -accum prints, per slice that Initialize allocates with make(T, p.NumberOfThreads()): its initial value and
   the loop storing it, every update in NewObservation (operator, first index) and every statement of another method that
   folds field[i] inside a counting loop (operator, transfer function, first index, bound, initial target): Accum_gen.v.
   ModelAccum.acc_run is the semantics of such a description (cells, jobs on their threads = Model.job_eager, the fold);
   ModelAccum.gaccum_ok the decision. *)
From Coq Require Import String.
From ADV Require Import C17.ModelAccum C17.Accum_gen C17.ProofsAccum C17.ProofsAccumGen.

(* (1'') an accepted description returns the (transferred) monoid sum of the contributions - for EVERY pool size k >= 1
   (also larger than the number of jobs), every schedule, every commutative monoid and every homomorphism between them,
   whatever junk values zA zB stand for "not the neutral element" *)
Theorem accepted_accumulator_returns_the_sum :
  forall a, gaccum_ok a = true ->
  exists s, shape_of a = Some s /\
  forall (A B : Type) opA eA opB eB (h : A -> B) zA zB,
    commutative_monoid A opA eA -> commutative_monoid B opB eB -> monoid_hom A B opA eA opB eB h ->
  forall (J : Type) (c : J -> A) (k : nat) (jobs : list J) (sch : list (nat * J)),
    (1 <= k)%nat -> schedule_of J k jobs sch ->
    acc_run A B opA eA opB eB h zA zB s k (events A J c sch) = Some (h (sum_of A opA eA J c jobs)).
Proof. exact accepted_accumulator_sound. Qed.

(* decided on the SOURCE on every run: every slice of per-thread partial sums found in the library is accepted, the 19
   accumulators the check was built on are all still there *)
Theorem generated_accumulators_are_accepted :
  forallb gest_ok gen_estimators = true /\
  accum_coverage gen_estimators = true /\
  Nat.leb 19 (List.length (accumulators gen_estimators)) = true /\
  (forall e a, In e gen_estimators -> In a (e_acc e) -> is_accumulator a = true -> gaccum_ok a = true).
Proof. exact (conj gen_estimators_ok (conj gen_accum_coverage (conj gen_accumulators_many gen_accumulator_ok))). Qed.

(* the three accepted (update operator, transfer, fold operator) combinations are homomorphisms between the carriers of
   Carriers.v: identity on (R,+) and on the log domain; n |-> log n from the counts (N,+,0) into the log domain
   (sum_g = LogAdd(sum_g, math.Log(float64(sum_c[i]))): exp of the merged value = sum of the weights + number of
   unweighted observations) *)
Theorem accepted_transfers_are_homomorphisms :
  (forall uop t mop, transfer_ok uop t mop = true ->
     (uop = OPlus /\ t = TId /\ mop = OPlus) \/ (uop = OLogAdd /\ t = TId /\ mop = OLogAdd) \/
     (uop = OPlus /\ t = TLogCount /\ mop = OLogAdd)) /\
  commutative_monoid nat Nat.add 0%nat /\ monoid_hom nat lval Nat.add 0%nat logadd None logcount /\
  (forall n, lexp (logcount n) = INR n) /\
  (forall (A : Type) (op : A -> A -> A) (e : A), monoid_hom A A op e op e (fun a => a)).
Proof. exact (conj transfer_ok_cases accumulator_carriers). Qed.

(* the decision accepts exactly the two folds the library codes (s := e; i from 0  |  s := F[0]; i from 1) ... *)
Theorem accepted_shapes_are_the_two_coded :
  forall s, shape_ok s = true -> s = mkShape true 0 TinIdentity \/ s = mkShape true 1 TinAcc0.
Proof. exact shape_ok_only_two. Qed.

(* ... and what it rejects loses or duplicates a contribution: the regression classes "the fold starts at 1", "s := F[0]
   and the fold starts at 0", "a cell / the target is not initialised to the neutral element" on (Z,+,0), jobs 10 and 20 *)
Theorem rejected_accumulator_shapes_refuted :
  let tr := [(0%nat, 10%Z); (1%nat, 20%Z)] in
  zrun (mkShape true 0 TinIdentity) 2 tr = Some 30%Z /\
  zrun (mkShape true 1 TinAcc0) 2 tr = Some 30%Z /\
  zrun (mkShape true 1 TinIdentity) 2 tr = Some 20%Z /\
  zrun (mkShape true 0 TinAcc0) 2 tr = Some 40%Z /\
  zrun (mkShape true 2 TinAcc0) 2 tr = Some 10%Z /\
  zrun (mkShape false 0 TinIdentity) 2 tr = Some 32%Z /\
  zrun (mkShape true 0 TinOther) 2 tr = Some 31%Z.
Proof. exact rejected_shapes_lose_or_duplicate. Qed.

(* an accumulator that is never folded, folded twice, or updated at an index that is not GetThreadId() of the
   method's own pool handle is rejected *)
Theorem unmerged_or_unowned_accumulator_rejected :
  (forall a, a_merge a = [] -> gaccum_ok a = false) /\
  (forall a m1 m2 r, a_merge a = m1 :: m2 :: r -> gaccum_ok a = false) /\
  (forall a, existsb (fun u => negb (u_tid u)) (a_upd a) = true -> gaccum_ok a = false).
Proof. exact rejected_descriptions. Qed.

(* the hypotheses are satisfiable: the count accumulator sum_c as generated, and the vector NormalEstimator's fold on
   3 jobs and 4 threads (threads 0 and 3 never used) *)
Example accumulator_example :
  gaccum_ok (mkGAccum "sum_c"%string "[]int"%string true VZero true [mkGUpd OPlus true]
                      [mkGMerge "updateEstimate"%string "sum_g"%string OLogAdd TLogCount 0 BLen INegInf]) = true /\
  schedule_of nat 4 [0; 1; 2]%nat [(2, 1); (1, 0); (2, 2)]%nat /\
  acc_run nat nat Nat.add 0%nat Nat.add 0%nat (fun x => x) 7%nat 7%nat (mkShape true 1 TinAcc0) 4
          (events nat nat (fun j => (10 ^ j)%nat) [(2, 1); (1, 0); (2, 2)]%nat) = Some 111%nat.
Proof. exact accumulator_example_proof. Qed.

(* ======================================================================================
   Round 6 — BELOW the job-atomic schedule model: `acc[i] (+)= x` as a read step and a write step of a thread-local
   register, the threads interleaved arbitrarily on sequentially consistent memory (ModelThreads.v).  This is the link
   between (2) write-set disjointness and (1) the merge theorems: the schedule model treats a job as one atomic event;
   that is justified exactly when every statement addresses the executing thread's own cell. *)
From ADV Require Import C17.ModelThreads C17.ProofsThreads.

(* programs that address only their own thread's cell (what (2) decides for the library's closures), run to completion
   under ANY interleaving of their read and write steps: every cell holds what its thread computes alone - no lost update *)
Theorem owned_cells_lose_no_update_under_any_interleaving :
  forall (A : Type) (op : A -> A -> A) (s0 : mstate A) (il : list nat) (s' : mstate A),
    owned A s0 -> quiescent A s0 -> rw_run A op il s0 = Some s' -> finished A s' ->
    forall t, cells s' t = alone A op s0 t.
Proof. exact owned_cells_no_lost_update. Qed.

Theorem final_memory_is_interleaving_independent :
  forall (A : Type) (op : A -> A -> A) (s0 : mstate A) (il1 il2 : list nat) (s1 s2 : mstate A),
    owned A s0 -> quiescent A s0 -> rw_run A op il1 s0 = Some s1 -> rw_run A op il2 s0 = Some s2 ->
    finished A s1 -> finished A s2 -> forall t, cells s1 t = cells s2 t.
Proof. exact interleaving_independent. Qed.

(* no thread that still has work is ever blocked at this level (the accumulators take no lock) *)
Theorem unfinished_thread_is_never_blocked :
  forall (A : Type) (op : A -> A -> A) (s : mstate A) (t : nat),
    prog (ths s t) <> [] -> exists s', rw_step A op t s = Some s'.
Proof. exact unfinished_thread_can_step. Qed.

(* the regression class "an accumulator indexed by a constant / a foreign thread id" at this level: two threads adding
   10 and 20 to the same cell, read-read-write-write: 20 instead of 30; with owned cells both interleavings agree *)
Theorem shared_cell_loses_an_update_refuted :
  option_map (fun s => cells s 0%nat) (rw_run Z Z.add [0; 1; 0; 1]%nat shared_start) = Some 20%Z /\
  option_map (fun s => cells s 0%nat) (rw_run Z Z.add [0; 0; 1; 1]%nat shared_start) = Some 30%Z /\
  option_map (fun s => (cells s 0%nat, cells s 1%nat)) (rw_run Z Z.add [0; 1; 0; 1]%nat owned_start) = Some (10%Z, 20%Z) /\
  option_map (fun s => (cells s 0%nat, cells s 1%nat)) (rw_run Z Z.add [1; 0; 0; 1]%nat owned_start) = Some (10%Z, 20%Z).
Proof. exact shared_cell_lost_update. Qed.

(* the hypotheses are satisfiable (and distinguish the two programs) *)
Example owned_interleaving_example :
  owned Z owned_start /\ quiescent Z owned_start /\ ~ owned Z shared_start.
Proof. exact owned_start_hyps. Qed.
