(* C17 — the parallel call sites of /repo and what their job closures touch.
   Transcribed by reading each closure at /repo HEAD (file:line in the comments); a name
   stands for one Go object, its owner class says how the closure reaches it.  This is
   model-level data (no proofs here); the race detector runs of the check sample the real
   accesses. *)
From Coq Require Import ZArith List Bool String.
From ADV Require Import C17.Spec.
Import ListNotations.
Open Scope string_scope.

Inductive site :=
| S_EmStep | S_BaumWelchStep | S_ScalarNormal | S_VectorNormal
| S_HmmEvaluateLogPdf | S_MixtureEvaluateLogPdf | S_HmmEmissions | S_MixtureEmissions
| S_ScalarBatchEstimators | S_NumericEstimator | S_SagaLogistic.

Definition all_sites : list site :=
  [S_EmStep; S_BaumWelchStep; S_ScalarNormal; S_VectorNormal; S_HmmEvaluateLogPdf;
   S_MixtureEvaluateLogPdf; S_HmmEmissions; S_MixtureEmissions; S_ScalarBatchEstimators;
   S_NumericEstimator; S_SagaLogistic].

(* names are numbered through this table so that Spec.instantiate can stay first order *)
Definition names : list string :=
  [ (* 0 *) "tmp[id].gammaTmp"; "tmp[id].gamma"; "tmp[id].logWeights"; "tmp[id].likelihood"; "tmp[id].init";
    (* 5 *) "t1,t2,t3,xiz (NullFloat64 in the closure)";
    (* 6 *) "mixture2.LogWeights"; "data (LogPdf table p, read through data.LogPdf)"; "meta"; "counts";
    (* 10 *) "tmp[id].alpha"; "tmp[id].beta"; "tmp[id].xi"; "tmp[id].gamma0"; "tmp[id].pi"; "tmp[id].tr";
    (* 16 *) "hmm2.Pi"; "hmm2.Tr"; "hmm2.Tf"; "obj.StateMap,obj.M,obj.finalStates";
    (* 20 *) "hmm1.Pi"; "hmm1.Tr";
    (* 22 *) "sum_m[id]"; "sum_s[id]"; "sum_g[id]"; "x (observations)"; "gamma (weights)"; "obj.gamma_max,obj.n";
    (* 28 *) "s[id]"; "d[id][j] (distributions cloned per thread)"; "p[.,i] (column i of the probability table)";
    (* 31 *) "hmm1.Edist[c] / mixture1.Edist[c]"; "estimators[c] (with its own per-thread sums)";
             "hmm2.Edist[c] / mixture2.Edist[c]"; "gamma[c] (= tmp[0].gamma[c] after the merge)";
    (* 35 *) "f[id],t[id],s[id],r[id]"; "Workers[i]"; "Indices[k_i:k_i+m]"; "objective f (data)";
    (* 39 *) "job group error slot (threadpool, mutex protected)";
    (* 40 *) "other sum_x[id] / y[id] arrays of the scalar batch estimators" ].

Definition T (n : nat) := (n, ThreadOwned).
Definition Jo (n : nat) := (n, JobOwned).
Definition L (n : nat) := (n, JobLocal).
Definition Sh (n : nat) := (n, Shared).

(* cells the job closure assigns to *)
Definition job_writes (s : site) : list (nat * owner) :=
  match s with
  | S_EmStep =>                 (* statistics/generic/mixture_em.go:38-91 *)
    [T 0; T 1; T 2; T 3; T 4; L 5]
  | S_BaumWelchStep =>          (* statistics/generic/hmm_baumWelch.go:163-169 and baumWelchThread 27-147 *)
    [T 10; T 11; T 12; T 1; T 13; T 0; T 14; T 15; T 3; T 4; L 5]
  | S_ScalarNormal =>           (* statistics/scalarEstimator/normal.go:91-107, 161-173 *)
    [T 22; T 23; T 24]
  | S_VectorNormal =>           (* statistics/vectorEstimator/normal.go:106-139, 199-211 *)
    [T 22; T 23; T 24]
  | S_HmmEvaluateLogPdf =>      (* statistics/vectorEstimator/hmm_data.go:136-154 and 265-283 *)
    [T 28; T 29; Jo 30]
  | S_MixtureEvaluateLogPdf =>  (* statistics/vectorEstimator/mixture_data.go:91-111, scalarEstimator/mixture_data.go:91-111,184-204 *)
    [L 28; T 29; Jo 30]
  | S_HmmEmissions =>           (* statistics/vectorEstimator/hmm.go:116-137 *)
    [Jo 31; Jo 32]
  | S_MixtureEmissions =>       (* statistics/vectorEstimator/mixture.go:110-131, scalarEstimator/mixture.go:110-131 *)
    [Jo 31; Jo 32]
  | S_ScalarBatchEstimators =>  (* exponential, poisson, geometric, categorical, negativeBinomial, logTransform, translation *)
    [T 22; T 24; T 40]
  | S_NumericEstimator =>       (* statistics/scalarEstimator/numeric.go:117-142 *)
    [T 35]
  | S_SagaLogistic =>           (* statistics/vectorEstimator/logisticRegression.go:792-794 *)
    [Jo 36]
  end.

(* cells the job closure reads *)
Definition job_reads (s : site) : list (nat * owner) :=
  match s with
  | S_EmStep => [T 0; T 1; T 2; T 3; T 4; L 5; Sh 6; Sh 7; Sh 8; Sh 9]
  | S_BaumWelchStep => [T 10; T 11; T 12; T 1; T 13; T 0; T 14; T 15; T 3; T 4; L 5; Sh 16; Sh 17; Sh 18; Sh 19; Sh 7; Sh 8; Sh 39]
  | S_ScalarNormal => [T 22; T 23; T 24; Sh 25; Sh 26; Sh 27]
  | S_VectorNormal => [T 22; T 23; T 24; Sh 25; Sh 26; Sh 27]
  | S_HmmEvaluateLogPdf => [T 28; T 29; Jo 30; Sh 25; Sh 39]
  | S_MixtureEvaluateLogPdf => [L 28; T 29; Jo 30; Sh 25; Sh 39]
  | S_HmmEmissions => [Jo 31; Jo 32; Jo 33; Jo 34; Sh 25]
  | S_MixtureEmissions => [Jo 31; Jo 32; Jo 33; Jo 34; Sh 25]
  | S_ScalarBatchEstimators => [T 22; T 24; T 40; Sh 25; Sh 26; Sh 27]
  | S_NumericEstimator => [T 35; Sh 25; Sh 26; Sh 39]
  | S_SagaLogistic => [Jo 36; Jo 37; Sh 38]
  end.

(* objects the submitting thread writes between queueing the jobs and Wait returning *)
Definition main_writes (s : site) : list nat :=
  match s with
  | S_BaumWelchStep => [20; 21]     (* hmm_baumWelch.go:174-177: hmm1.Pi / hmm1.Tr are reset while jobs may already run *)
  | _ => []
  end.

Definition owner_eqb (a b : owner) : bool :=
  match a, b with
  | ThreadOwned, ThreadOwned | JobOwned, JobOwned | JobLocal, JobLocal | Shared, Shared => true
  | _, _ => false
  end.

Definition is_shared (o : owner) : bool := owner_eqb o Shared.

(* one owner class per name, within the site *)
Definition consistent (l : list (nat * owner)) : bool :=
  forallb (fun a => forallb (fun b => negb (Nat.eqb (fst a) (fst b)) || owner_eqb (snd a) (snd b)) l) l.

Definition site_ok (s : site) : bool :=
  forallb (fun w => negb (is_shared (snd w))) (job_writes s) &&
  consistent (job_writes s ++ job_reads s) &&
  forallb (fun m => negb (existsb (fun a => Nat.eqb (fst a) m) (job_writes s ++ job_reads s))) (main_writes s) &&
  forallb (fun a => Nat.ltb (fst a) (List.length names)) (job_writes s ++ job_reads s).
