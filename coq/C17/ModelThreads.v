(* C17 (round 6) — below the job-atomic schedule model: the statement `acc[i] (+)= x` as TWO atomic steps (read the
   cell into a thread-local register, write register (+) x back), threads interleaved arbitrarily (sequentially
   consistent shared memory - what the Go memory model guarantees for data-race-free programs).
   A thread's program is the list of the `acc[i] (+)= x` statements its jobs execute, in program order.
   No proofs in this file. *)
From Coq Require Import List Arith Bool.
Import ListNotations.

Section RW.
  Variable A : Type.
  Variable op : A -> A -> A.

  Record tstate := mkT { prog : list (nat * A); reg : option A }.   (* reg = Some v: between the read and the write of the head statement *)
  Record mstate := mkM { cells : nat -> A; ths : nat -> tstate }.

  Definition upd {X} (f : nat -> X) (i : nat) (x : X) : nat -> X := fun j => if Nat.eqb j i then x else f j.

  (* one atomic step of thread t; None = the thread has finished (not enabled) *)
  Definition rw_step (t : nat) (s : mstate) : option mstate :=
    let th := ths s t in
    match prog th with
    | [] => None
    | (i, x) :: rest =>
      match reg th with
      | None => Some (mkM (cells s) (upd (ths s) t (mkT (prog th) (Some (cells s i)))))
      | Some v => Some (mkM (upd (cells s) i (op v x)) (upd (ths s) t (mkT rest None)))
      end
    end.

  (* an interleaving = which thread moves next *)
  Fixpoint rw_run (il : list nat) (s : mstate) : option mstate :=
    match il with
    | [] => Some s
    | t :: r => match rw_step t s with Some s' => rw_run r s' | None => None end
    end.

  (* every statement of thread t addresses cell t: what the write-set theorems decide for the library's closures
     (index = GetThreadId() of the closure's own pool handle) *)
  Definition owned (s : mstate) : Prop := forall t i x, In (i, x) (prog (ths s t)) -> i = t.
  Definition quiescent (s : mstate) : Prop := forall t, reg (ths s t) = None.
  Definition finished (s : mstate) : Prop := forall t, prog (ths s t) = [].

  (* the partial sum thread t holds when it has executed its program alone *)
  Definition alone (s : mstate) (t : nat) : A := fold_left op (map snd (prog (ths s t))) (cells s t).
End RW.

Arguments mkT {A}. Arguments mkM {A}. Arguments prog {A}. Arguments reg {A}. Arguments cells {A}. Arguments ths {A}.
