(* C17 (round 6) — the per-thread partial sums of the BATCH ESTIMATORS
   (scalarEstimator: Categorical, Exponential, Geometric, NegativeBinomial, Normal, Poisson; vectorEstimator: Normal).

   As coded in /repo, every one of them
     Initialize(p):            obj.F = make([]T, p.NumberOfThreads());  for i := 0; i < p.NumberOfThreads(); i++ { obj.F[i] = v0 }
     NewObservation(x, g, p):  id := p.GetThreadId();  obj.F[id] = LogAdd(obj.F[id], c)   |  obj.F[id] += c  |  obj.F[id]++
     updateEstimate():         s := t0;  for i := a; i < len(obj.F); i++ { s = LogAdd(s, obj.F[i]) | s += obj.F[i] |
                                                                          s = LogAdd(s, math.Log(float64(obj.F[i]))) }
   The description of these three pieces per field (gaccum) is GENERATED from the Go source by go2coq_c17 -accum
   (Accum_gen.v, on every run).  This file gives the description a semantics (acc_run: the cells, the jobs on their
   threads, the fold - parameterised by what the description says about initial value, first index and initial target)
   and the decision gaccum_ok.  No proofs in this file. *)
From Coq Require Import List String Bool Arith.
From ADV Require Import C17.Model.
Import ListNotations.

Inductive gop := OPlus | OLogAdd | OOther.
Inductive gval := VNegInf | VZero | VOther.
Inductive gtransfer := TId | TLogCount | TOther.      (* s (+)= F[i]  |  s (+)= math.Log(float64(F[i])) *)
Inductive gbound := BLen | BThreads | BOther.         (* i < len(obj.G) with G of length NumberOfThreads | i < p.NumberOfThreads() *)
Inductive gtinit := INegInf | IZero | IAcc0 | IOther. (* the target before the loop: a literal, or s := obj.F[0] *)

Record gupd := mkGUpd { u_op : gop; u_tid : bool }.
Record gmerge := mkGMerge { m_method : string; m_target : string; m_op : gop; m_transfer : gtransfer;
                            m_start : nat; m_bound : gbound; m_tinit : gtinit }.
Record gaccum := mkGAccum { a_field : string; a_elem : string; a_len_threads : bool; a_init : gval; a_init_all : bool;
                            a_upd : list gupd; a_merge : list gmerge }.
Record gest := mkGEst { e_pkg : string; e_type : string; e_acc : list gaccum }.

Definition gop_eqb (a b : gop) : bool :=
  match a, b with OPlus, OPlus | OLogAdd, OLogAdd | OOther, OOther => true | _, _ => false end.
Definition gval_eqb (a b : gval) : bool :=
  match a, b with VNegInf, VNegInf | VZero, VZero | VOther, VOther => true | _, _ => false end.

(* the neutral element of the operator, as the literal Go writes *)
Definition identity_of (o : gop) : gval := match o with OPlus => VZero | OLogAdd => VNegInf | OOther => VOther end.

(* the operator of the updates (all alike) *)
Definition upd_op (a : gaccum) : gop :=
  match a_upd a with
  | [] => OOther
  | u :: r => if forallb (fun v => gop_eqb (u_op v) (u_op u)) r then u_op u else OOther
  end.

(* update operator, transfer function and merge operator fit: the transfer is a monoid homomorphism
   (identity; n |-> log n from (N,+,0) to the log domain) *)
Definition transfer_ok (uop : gop) (t : gtransfer) (mop : gop) : bool :=
  match uop, t, mop with
  | OPlus, TId, OPlus => true
  | OLogAdd, TId, OLogAdd => true
  | OPlus, TLogCount, OLogAdd => true
  | _, _, _ => false
  end.

(* ---------------------------------------------------------------- the shape: what decides the VALUE *)
Inductive tin := TinIdentity | TinAcc0 | TinOther.
Record shape := mkShape { s_init_identity : bool; s_start : nat; s_tinit : tin }.

Definition tin_of (m : gmerge) : tin :=
  match m_tinit m, m_op m with
  | INegInf, OLogAdd => TinIdentity
  | IZero, OPlus => TinIdentity
  | IAcc0, _ => TinAcc0
  | _, _ => TinOther
  end.

Definition shape_of (a : gaccum) : option shape :=
  match a_merge a with
  | [m] => Some (mkShape (a_len_threads a && a_init_all a && gval_eqb (a_init a) (identity_of (upd_op a))) (m_start m) (tin_of m))
  | _ => None          (* never folded (contributions lost) or folded twice (counted twice) *)
  end.

Definition shape_ok (s : shape) : bool :=
  s_init_identity s &&
  match s_start s, s_tinit s with
  | 0, TinIdentity => true        (* s := e;        for i := 0 .. *)
  | 1, TinAcc0 => true            (* s := obj.F[0]; for i := 1 .. *)
  | _, _ => false
  end.

Definition is_accumulator (a : gaccum) : bool := a_len_threads a || negb (Nat.eqb (List.length (a_upd a)) 0).

Definition gaccum_ok (a : gaccum) : bool :=
  negb (Nat.eqb (List.length (a_upd a)) 0) &&
  negb (gop_eqb (upd_op a) OOther) &&
  forallb u_tid (a_upd a) &&
  match a_merge a, shape_of a with
  | [m], Some s =>
    transfer_ok (upd_op a) (m_transfer m) (m_op m) &&
    match m_bound m with BLen | BThreads => true | BOther => false end &&
    shape_ok s
  | _, _ => false
  end.

Definition gest_ok (e : gest) : bool := forallb (fun a => negb (is_accumulator a) || gaccum_ok a) (e_acc e).

Definition accumulators (l : list gest) : list (string * string * string) :=
  flat_map (fun e => map (fun a => (e_pkg e, e_type e, a_field a)) (filter is_accumulator (e_acc e))) l.

(* the accumulators the check was built on: all must still be found (a renamed / removed one is reported) *)
Definition expected_accumulators : list (string * string * string) :=
  [("scalarEstimator", "CategoricalEstimator", "sum_t"); ("scalarEstimator", "CategoricalEstimator", "sum_c");
   ("scalarEstimator", "ExponentialEstimator", "sum_m"); ("scalarEstimator", "ExponentialEstimator", "sum_g");
   ("scalarEstimator", "ExponentialEstimator", "sum_c");
   ("scalarEstimator", "GeometricEstimator", "sum_m"); ("scalarEstimator", "GeometricEstimator", "sum_g");
   ("scalarEstimator", "GeometricEstimator", "sum_c");
   ("scalarEstimator", "NegativeBinomialEstimator", "sum_r"); ("scalarEstimator", "NegativeBinomialEstimator", "sum_k");
   ("scalarEstimator", "NormalEstimator", "sum_g"); ("scalarEstimator", "NormalEstimator", "sum_m");
   ("scalarEstimator", "NormalEstimator", "sum_s");
   ("scalarEstimator", "PoissonEstimator", "sum_m"); ("scalarEstimator", "PoissonEstimator", "sum_g");
   ("scalarEstimator", "PoissonEstimator", "sum_c");
   ("vectorEstimator", "NormalEstimator", "sum_g"); ("vectorEstimator", "NormalEstimator", "sum_m");
   ("vectorEstimator", "NormalEstimator", "sum_s")]%string.

Definition triple_eqb (x y : string * string * string) : bool :=
  String.eqb (fst (fst x)) (fst (fst y)) && String.eqb (snd (fst x)) (snd (fst y)) && String.eqb (snd x) (snd y).

Definition accum_coverage (l : list gest) : bool :=
  forallb (fun x => existsb (triple_eqb x) (accumulators l)) expected_accumulators.

Definition accum_offenders (l : list gest) : list (string * string * string) :=
  flat_map (fun e => map (fun a => (e_pkg e, e_type e, a_field a))
                         (filter (fun a => is_accumulator a && negb (gaccum_ok a)) (e_acc e))) l ++
  filter (fun x => negb (existsb (triple_eqb x) (accumulators l))) expected_accumulators.

(* ---------------------------------------------------------------- semantics of a shape *)
Section AccRun.
  Variables A B : Type.
  Variable opA : A -> A -> A.  Variable eA : A.
  Variable opB : B -> B -> B.  Variable eB : B.
  Variable h : A -> B.          (* the transfer function *)
  Variable zA : A.              (* what a cell holds when Initialize does not store the neutral element *)
  Variable zB : B.              (* what the target holds when it is not initialised to the neutral element *)

  (* Initialize *)
  Definition acc_cells (s : shape) (k : nat) : pool A :=
    repeat (mkThr true (if s_init_identity s then eA else zA)) k.

  (* the fold of updateEstimate / estimateParameters; None = obj.F[0] on an empty slice panics *)
  Definition acc_merge (s : shape) (p : pool A) : option B :=
    let t0 := match s_tinit s with
              | TinIdentity => Some eB
              | TinOther => Some zB
              | TinAcc0 => match p with [] => None | t :: _ => Some (h (acc t)) end
              end in
    match t0 with
    | None => None
    | Some b => Some (fold_left (fun r t => opB r (h (acc t))) (skipn (s_start s) p) b)
    end.

  (* Initialize; the jobs (thread id, contribution) in execution order, NewObservation = Model.job_eager; the fold *)
  Definition acc_run (s : shape) (k : nat) (tr : list (event A)) : option B :=
    match run A (job_eager A opA) tr (acc_cells s k) with
    | Some p => acc_merge s p
    | None => None
    end.
End AccRun.
