(* C17 (round 2) — the merge theorem per accumulator, for every configuration of the optional
   accumulators of BaumWelchStep / EmStep. *)
From Coq Require Import ZArith List Bool Permutation Lia.
From ADV Require Import C17.Model C17.Spec C17.ModelCfg C17.ProofsMerge.
Import ListNotations.

Section Cfg.
  Variables A1 A2 A3 A4 : Type.
  Variable op1 : A1 -> A1 -> A1.  Variable e1 : A1.
  Variable op2 : A2 -> A2 -> A2.  Variable e2 : A2.
  Variable op3 : A3 -> A3 -> A3.  Variable e3 : A3.
  Variable op4 : A4 -> A4 -> A4.  Variable e4 : A4.
  Hypothesis M1 : commutative_monoid A1 op1 e1.
  Hypothesis M2 : commutative_monoid A2 op2 e2.
  Hypothesis M3 : commutative_monoid A3 op3 e3.
  Hypothesis M4 : commutative_monoid A4 op4 e4.

  Notation othr := (othr A1 A2 A3 A4).
  Notation contrib := (contrib A1 A2 A3 A4).
  Notation ojobT := (ojobT A1 A2 A3 A4 op1 e1 op2 e2 op3 e3 op4 e4).
  Notation ojob := (ojob A1 A2 A3 A4 op1 e1 op2 e2 op3 e3 op4 e4).
  Notation orun := (orun A1 A2 A3 A4 op1 e1 op2 e2 op3 e3 op4 e4).
  Notation omerge := (omerge A1 A2 A3 A4 op1 e1 op2 e2 op3 e3 op4 e4).
  Notation ostep := (ostep A1 A2 A3 A4 op1 e1 op2 e2 op3 e3 op4 e4).
  Notation oupd := (oupd A1 A2 A3 A4).
  Notation oclear := (oclear A1 A2 A3 A4).
  Notation opanics := (opanics A1 A2 A3 A4).

  (* the configuration never dereferences a nil accumulator *)
  Definition cfg_safe (c : ocfg) : bool := has_F c || negb (nilF_panics c).

  Lemma safe_no_panic c t : cfg_safe c = true -> opanics c t = false.
  Proof.
    unfold cfg_safe, opanics. destruct (o_init t), (has_F c), (nilF_panics c); simpl; intro H; try reflexivity; discriminate.
  Qed.

  (* ---- one accumulator at a time *)
  Section One.
    Variable A : Type.
    Variable op : A -> A -> A.
    Variable e : A.
    Hypothesis M : commutative_monoid A op e.
    Variable c : ocfg.
    Variable v : othr -> A.            (* the accumulator's field *)
    Variable g : contrib -> A.         (* the accumulator's part of a contribution *)
    Definition oval (t : othr) : A := if o_init t then v t else e.
    Hypothesis job_spec : forall x t, oval (ojobT c x t) = op (oval t) (g x).

    Let assoc := proj1 M.
    Let comm := proj1 (proj2 M).
    Let e_l := proj2 (proj2 M).

    Definition ototal (p : list othr) : A := fold_right (fun t r => op (oval t) r) e p.

    Lemma oupd_total i x : forall p p', oupd i (ojob c x) p = Some p' ->
      ototal p' = op (ototal p) (g x) /\ length p' = length p.
    Proof.
      induction i as [|i IH]; intros [|t r] p' H; simpl in H; try discriminate.
      - unfold ModelCfg.ojob in H. destruct (opanics c t); [discriminate|]. inversion H; subst; clear H.
        simpl. split; [|reflexivity]. rewrite job_spec.
        rewrite !assoc. f_equal. apply comm.
      - destruct (oupd i (ojob c x) r) as [r'|] eqn:E; [|discriminate]. inversion H; subst; clear H.
        destruct (IH _ _ E) as [H1 H2]. simpl. split; [|now rewrite H2].
        rewrite H1. now rewrite assoc.
    Qed.

    Lemma orun_total tr : forall p p', orun c tr p = Some p' ->
      ototal p' = op (ototal p) (bigop A op e (map (fun ev => g (snd ev)) tr)) /\ length p' = length p.
    Proof.
      induction tr as [|[i x] tr IH]; intros p p' H; simpl in H.
      - inversion H; subst. split; [|reflexivity]. unfold bigop. simpl.
        rewrite comm. symmetry. apply e_l.
      - destruct (oupd i (ojob c x) p) as [p1|] eqn:E; [|discriminate].
        destruct (oupd_total _ _ _ _ E) as [H1 H2]. destruct (IH _ _ H) as [H3 H4].
        split; [|congruence]. rewrite H3, H1. cbn [map snd].
        rewrite (bigop_cons A op e assoc comm e_l). now rewrite assoc.
    Qed.

    Lemma oskip_val a t : oskip A1 A2 A3 A4 op v a t = op a (oval t).
    Proof. unfold oskip, oval. destruct (o_init t); [reflexivity|]. rewrite comm. symmetry. apply e_l. Qed.

    Lemma fold_oskip p : forall a, fold_left (oskip A1 A2 A3 A4 op v) p a = op a (ototal p).
    Proof.
      induction p as [|t p IH]; intro a; simpl.
      - rewrite comm. symmetry. apply e_l.
      - rewrite IH, oskip_val. apply assoc.
    Qed.

    Lemma ototal_clear p : ototal (oclear p) = e.
    Proof.
      induction p as [|t p IH]; [reflexivity|].
      change (oclear (t :: p)) with (mkO false (o_1 t) (o_2 t) (o_3 t) (o_4 t) :: oclear p).
      cbn [ototal fold_right]. fold (ototal (oclear p)). rewrite IH.
      unfold oval. simpl. apply e_l.
    Qed.
  End One.

  Lemma oclear_length p : length (oclear p) = length p.
  Proof. apply map_length. Qed.

  Lemma oupd_some c i x : cfg_safe c = true -> forall p, (i < length p)%nat -> exists p', oupd i (ojob c x) p = Some p'.
  Proof.
    intro S. induction i as [|i IH]; intros [|t r] H; simpl in H; try lia.
    - simpl. unfold ModelCfg.ojob. rewrite (safe_no_panic c t S). eexists; reflexivity.
    - destruct (IH r) as [r' E]; [lia|]. simpl. rewrite E. eexists; reflexivity.
  Qed.

  Lemma oupd_len c i x : forall p p', oupd i (ojob c x) p = Some p' -> length p' = length p.
  Proof.
    induction i as [|i IH]; intros [|t r] p' H; simpl in H; try discriminate.
    - destruct (ojob c x t); [|discriminate]. inversion H; reflexivity.
    - destruct (oupd i (ojob c x) r) as [r'|] eqn:E; [|discriminate]. inversion H; subst. simpl. f_equal. eauto.
  Qed.

  Lemma orun_some c tr : cfg_safe c = true -> forall p, Forall (fun ev => (fst ev < length p)%nat) tr ->
    exists p', orun c tr p = Some p'.
  Proof.
    intro S. induction tr as [|[i x] tr IH]; intros p H; simpl; [eexists; reflexivity|].
    inversion H as [|? ? Hi Ht]; subst. simpl in Hi.
    destruct (oupd_some c i x S p Hi) as [p1 E]. rewrite E.
    apply IH. rewrite (oupd_len _ _ _ _ _ E). exact Ht.
  Qed.

  (* field specifications of the job *)
  Lemma spec1 c x t : oval A1 e1 o_1 (ojobT c x t) = op1 (oval A1 e1 o_1 t) (c_1 x).
  Proof.
    unfold oval, ModelCfg.ojobT, oreset. simpl. destruct (o_init t); simpl; reflexivity.
  Qed.
  Lemma spec4 c x t : oval A4 e4 o_4 (ojobT c x t) = op4 (oval A4 e4 o_4 t) (c_4 x).
  Proof.
    unfold oval, ModelCfg.ojobT, oreset. simpl. destruct (o_init t); simpl; reflexivity.
  Qed.
  Lemma spec2 c x t : has_F c = true -> oval A2 e2 o_2 (ojobT c x t) = op2 (oval A2 e2 o_2 t) (c_2 x).
  Proof.
    intro H. unfold oval, ModelCfg.ojobT, oreset. simpl. rewrite H. destruct (o_init t); simpl; rewrite ?H; reflexivity.
  Qed.
  Lemma spec3 c x t : has_I c = true -> oval A3 e3 o_3 (ojobT c x t) = op3 (oval A3 e3 o_3 t) (c_3 x).
  Proof.
    intro H. unfold oval, ModelCfg.ojobT, oreset. simpl. rewrite H. destruct (o_init t); simpl; rewrite ?H; reflexivity.
  Qed.

  Definition sum1 (tr : list (oevent A1 A2 A3 A4)) := bigop A1 op1 e1 (map (fun ev => c_1 (snd ev)) tr).
  Definition sum2 (tr : list (oevent A1 A2 A3 A4)) := bigop A2 op2 e2 (map (fun ev => c_2 (snd ev)) tr).
  Definition sum3 (tr : list (oevent A1 A2 A3 A4)) := bigop A3 op3 e3 (map (fun ev => c_3 (snd ev)) tr).
  Definition sum4 (tr : list (oevent A1 A2 A3 A4)) := bigop A4 op4 e4 (map (fun ev => c_4 (snd ev)) tr).

  (* every accumulator of every safe configuration is the monoid sum of its contributions; the
     result has exactly the accumulators the configuration allocates; the likelihood is merged
     independently of gamma being nil *)
  Lemma ostep_sum c stale tr :
    cfg_safe c = true -> (1 <= length stale)%nat ->
    Forall (fun ev => (fst ev < length stale)%nat) tr ->
    ostep c stale tr =
      Some (mkR (sum1 tr) (if has_F c then Some (sum2 tr) else None)
                (if has_I c then Some (sum3 tr) else None) (sum4 tr)).
  Proof.
    intros S Hk H. unfold ModelCfg.ostep.
    destruct (orun_some c tr S (oclear stale)) as [p' E]; [now rewrite oclear_length|].
    rewrite E.
    destruct (orun_total A1 op1 e1 M1 c o_1 c_1 (spec1 c) tr _ _ E) as [T1 L].
    destruct (orun_total A4 op4 e4 M4 c o_4 c_4 (spec4 c) tr _ _ E) as [T4 _].
    rewrite ototal_clear in T1 by exact M1. rewrite ototal_clear in T4 by exact M4.
    rewrite (proj2 (proj2 M1)) in T1. rewrite (proj2 (proj2 M4)) in T4.
    destruct p' as [|t0 rest]; [rewrite oclear_length in L; simpl in L; lia|].
    unfold ModelCfg.omerge. f_equal. f_equal.
    - rewrite (fold_oskip A1 op1 e1 M1 o_1). rewrite (proj2 (proj2 M1)). exact T1.
    - destruct (has_F c) eqn:HF; [|reflexivity]. f_equal.
      destruct (orun_total A2 op2 e2 M2 c o_2 c_2 (fun x t => spec2 c x t HF) tr _ _ E) as [T2 _].
      rewrite ototal_clear in T2 by exact M2. rewrite (proj2 (proj2 M2)) in T2.
      rewrite (fold_oskip A2 op2 e2 M2 o_2). rewrite (proj2 (proj2 M2)). exact T2.
    - destruct (has_I c) eqn:HI; [|reflexivity]. f_equal.
      destruct (orun_total A3 op3 e3 M3 c o_3 c_3 (fun x t => spec3 c x t HI) tr _ _ E) as [T3 _].
      rewrite ototal_clear in T3 by exact M3. rewrite (proj2 (proj2 M3)) in T3.
      rewrite (fold_oskip A3 op3 e3 M3 o_3). exact T3.
    - rewrite (fold_oskip A4 op4 e4 M4 o_4). exact T4.
  Qed.

  (* the configuration without tr of Baum-Welch: the first job of the first thread panics *)
  Lemma ostep_nil_deref c stale i x tr :
    has_F c = false -> nilF_panics c = true -> (i < length stale)%nat ->
    ostep c stale ((i, x) :: tr) = None.
  Proof.
    intros HF HP Hi. unfold ModelCfg.ostep. simpl.
    assert (G : forall p, (i < length p)%nat -> oupd i (ojob c x) (oclear p) = None).
    { clear Hi. induction i as [|i IH]; intros [|t r] H; simpl in H; try lia;
        change (oclear (t :: r)) with (mkO false (o_1 t) (o_2 t) (o_3 t) (o_4 t) :: oclear r); cbn [ModelCfg.oupd].
      - unfold ModelCfg.ojob, ModelCfg.opanics. simpl. now rewrite HF, HP.
      - rewrite IH by lia. reflexivity. }
    now rewrite G.
  Qed.

  (* schedules of a job list *)
  Section Jobs.
    Variable J : Type.
    Variable cf : J -> contrib.
    Definition oevents (sch : list (nat * J)) : list (oevent A1 A2 A3 A4) := map (fun tj => (fst tj, cf (snd tj))) sch.

    Lemma oevents_sum {A} (op : A -> A -> A) (e : A) (M : commutative_monoid A op e) (g : contrib -> A) jobs sch :
      Permutation (map snd sch) jobs ->
      bigop A op e (map (fun ev => g (snd ev)) (oevents sch)) = bigop A op e (map (fun j => g (cf j)) jobs).
    Proof.
      intro P. destruct M as [a [b c0]]. unfold oevents. rewrite map_map. simpl.
      rewrite <- (map_map snd (fun j => g (cf j))).
      apply (bigop_perm A op e a b c0). now apply Permutation_map.
    Qed.

    Lemma ostep_schedule c k stale jobs sch :
      cfg_safe c = true -> (1 <= k)%nat -> length stale = k -> schedule_of J k jobs sch ->
      ostep c stale (oevents sch) =
        Some (mkR (bigop A1 op1 e1 (map (fun j => c_1 (cf j)) jobs))
                  (if has_F c then Some (bigop A2 op2 e2 (map (fun j => c_2 (cf j)) jobs)) else None)
                  (if has_I c then Some (bigop A3 op3 e3 (map (fun j => c_3 (cf j)) jobs)) else None)
                  (bigop A4 op4 e4 (map (fun j => c_4 (cf j)) jobs))).
    Proof.
      intros S Hk Hl [HP HF].
      rewrite ostep_sum; auto; [|lia|].
      - unfold sum1, sum2, sum3, sum4.
        rewrite (oevents_sum op1 e1 M1 c_1 jobs sch HP), (oevents_sum op2 e2 M2 c_2 jobs sch HP),
                (oevents_sum op3 e3 M3 c_3 jobs sch HP), (oevents_sum op4 e4 M4 c_4 jobs sch HP).
        reflexivity.
      - unfold oevents. apply Forall_map. rewrite Hl. exact HF.
    Qed.
  End Jobs.
End Cfg.

(* all eight configurations, by name *)
Lemma bw_cfg_safe oe : cfg_safe (bw_cfg oe true) = true.
Proof. reflexivity. Qed.
Lemma em_cfg_safe oe ow : cfg_safe (em_cfg oe ow) = true.
Proof. destruct ow; reflexivity. Qed.

Lemma bw_notrans_panics :
  forall (A1 A2 A3 A4 : Type) op1 e1 op2 e2 op3 e3 op4 e4 (oe : bool)
         (stale : list (othr A1 A2 A3 A4)) i x tr,
    (i < length stale)%nat ->
    ostep A1 A2 A3 A4 op1 e1 op2 e2 op3 e3 op4 e4 (bw_cfg oe false) stale ((i, x) :: tr) = None.
Proof. intros. now apply ostep_nil_deref. Qed.

(* the guarded merge (likelihood merged only when gamma exists) loses the workers' likelihood *)
Lemma guarded_loses :
  let st := [mkO false 0 0 0 0; mkO false 0 0 0 0]%Z in
  let tr := [(0%nat, mkC 1 1 1 10); (1%nat, mkC 1 1 1 20)]%Z in
  option_map r_4 (ostep Z Z Z Z Z.add 0%Z Z.add 0%Z Z.add 0%Z Z.add 0%Z (bw_cfg false true) st tr) = Some 30%Z /\
  option_map r_4 (ostep_guarded Z Z Z Z Z.add 0%Z Z.add 0%Z Z.add 0%Z Z.add 0%Z (bw_cfg false true) st tr) = Some 10%Z /\
  option_map r_4 (ostep_guarded Z Z Z Z Z.add 0%Z Z.add 0%Z Z.add 0%Z Z.add 0%Z (bw_cfg true true) st tr) = Some 30%Z.
Proof. repeat split. Qed.

Lemma bw_cfg_head_safe oe ot : cfg_safe (bw_cfg_head oe ot) = true.
Proof. unfold cfg_safe, bw_cfg_head. simpl. now rewrite orb_true_r. Qed.
