(* C17 — AddRangeJob's chunks partition [from,to) for every pool size. *)
From Coq Require Import ZArith List Bool Lia.
From ADV Require Import C17.Model.
Import ListNotations.
Open Scope Z_scope.

Definition zr (ch : Z * Z) : list Z := zrange (fst ch) (snd ch).

Lemma zrange_empty a b : b <= a -> zrange a b = [].
Proof. intro H. unfold zrange. replace (Z.to_nat (b - a)) with 0%nat by lia. reflexivity. Qed.

Lemma map_seq_off {X} n : forall s (g : nat -> X), map g (seq s n) = map (fun i => g (s + i)%nat) (seq 0 n).
Proof.
  induction n as [|n IH]; intros s g; simpl; [reflexivity|].
  rewrite Nat.add_0_r. f_equal. rewrite <- (seq_shift n 0), map_map. rewrite IH.
  apply map_ext. intro i. now rewrite Nat.add_succ_r.
Qed.

Lemma zrange_split a b c : a <= b -> b <= c -> zrange a c = zrange a b ++ zrange b c.
Proof.
  intros H1 H2. unfold zrange.
  replace (Z.to_nat (c - a)) with (Z.to_nat (b - a) + Z.to_nat (c - b))%nat by lia.
  rewrite seq_app, map_app. f_equal. simpl.
  rewrite map_seq_off. apply map_ext. intro i. lia.
Qed.

Lemma zrange_length a b : length (zrange a b) = Z.to_nat (b - a).
Proof. unfold zrange. now rewrite map_length, seq_length. Qed.

Lemma zrange_In a b x : In x (zrange a b) <-> a <= x < b.
Proof.
  unfold zrange. rewrite in_map_iff. split.
  - intros [i [Hi Hin]]. apply in_seq in Hin. lia.
  - intro H. exists (Z.to_nat (x - a)). split; [lia|]. apply in_seq. lia.
Qed.

Lemma chunk_loop_spec fuel : forall j n iTo, 0 < n -> iTo - j <= Z.of_nat fuel ->
  exists l, chunk_loop fuel j n iTo = Some l /\ concat (map zr l) = zrange j iTo /\
            Forall (fun ch => j <= fst ch /\ fst ch < snd ch /\ snd ch <= iTo /\ snd ch - fst ch <= n) l.
Proof.
  induction fuel as [|f IH]; intros j n iTo Hn Hf.
  - simpl. destruct (j <? iTo) eqn:E; [apply Z.ltb_lt in E; lia|].
    apply Z.ltb_ge in E. exists []. rewrite zrange_empty by lia. auto.
  - simpl. destruct (j <? iTo) eqn:E.
    + apply Z.ltb_lt in E.
      destruct (IH (j + n) n iTo Hn) as [l [Hl [Hc Hall]]]; [lia|].
      rewrite Hl. eexists; split; [reflexivity|]. split.
      * simpl. rewrite Hc. unfold zr; simpl.
        destruct (j + n >? iTo) eqn:G.
        -- apply Z.gtb_lt in G. rewrite (zrange_empty (j + n) iTo) by lia. now rewrite app_nil_r.
        -- assert (j + n <= iTo) by (destruct (Z.gtb_spec (j + n) iTo); [discriminate|lia]).
           symmetry. apply zrange_split; lia.
      * constructor.
        -- simpl. destruct (j + n >? iTo) eqn:G.
           ++ apply Z.gtb_lt in G. lia.
           ++ assert (j + n <= iTo) by (destruct (Z.gtb_spec (j + n) iTo); [discriminate|lia]). lia.
        -- eapply Forall_impl; [|exact Hall]. simpl. intros ch H. lia.
    + apply Z.ltb_ge in E. exists []. rewrite zrange_empty by lia. auto.
Qed.

Lemma chunks_partition threads iFrom iTo : 1 <= threads -> iFrom <= iTo ->
  exists l, chunks threads iFrom iTo = Some l /\
            concat (map zr l) = zrange iFrom iTo /\
            Forall (fun ch => iFrom <= fst ch /\ fst ch < snd ch /\ snd ch <= iTo) l.
Proof.
  intros Ht Hle. unfold chunks.
  destruct (iFrom >=? iTo) eqn:E.
  - assert (iFrom = iTo) by (destruct (Z.geb_spec iFrom iTo); [lia|discriminate]). subst.
    exists []. rewrite zrange_empty by lia. auto.
  - assert (Hlt : iFrom < iTo) by (destruct (Z.geb_spec iFrom iTo); [discriminate|lia]).
    set (m := if threads >? iTo - iFrom then iTo - iFrom else threads).
    assert (Hm : 1 <= m <= iTo - iFrom).
    { unfold m. destruct (Z.gtb_spec threads (iTo - iFrom)); lia. }
    destruct (m =? 0) eqn:M0; [apply Z.eqb_eq in M0; lia|].
    assert (Hn : 0 < Z.quot (iTo - iFrom) m).
    { rewrite Z.quot_div_nonneg by lia. apply Z.div_str_pos. lia. }
    destruct (chunk_loop_spec (Z.to_nat (iTo - iFrom)) iFrom _ iTo Hn) as [l [Hl [Hc Hall]]]; [lia|].
    exists l. split; [exact Hl|]. split; [exact Hc|].
    eapply Forall_impl; [|exact Hall]. simpl. intros ch H. lia.
Qed.

(* number of queued jobs: at least one per non-empty range, and every chunk at most n wide *)
Lemma chunks_nonempty threads iFrom iTo l : 1 <= threads -> iFrom < iTo ->
  chunks threads iFrom iTo = Some l -> l <> [].
Proof.
  intros Ht Hlt Hl. destruct (chunks_partition threads iFrom iTo Ht) as [l' [Hl' [Hc _]]]; [lia|].
  rewrite Hl in Hl'. inversion Hl'; subst. intro; subst. simpl in Hc.
  assert (L := zrange_length iFrom iTo). rewrite <- Hc in L. simpl in L. lia.
Qed.

(* the pool with one thread queues exactly the whole range as one job *)
Lemma chunks_one iFrom iTo : iFrom < iTo -> chunks 1 iFrom iTo = Some [(iFrom, iTo)].
Proof.
  intro H. unfold chunks.
  destruct (Z.geb_spec iFrom iTo); [lia|].
  destruct (Z.gtb_spec 1 (iTo - iFrom)); [lia|]. simpl (1 =? 0).
  cbv iota. rewrite Z.quot_1_r.
  destruct (Z.to_nat (iTo - iFrom)) as [|f] eqn:F; [lia|]. simpl.
  destruct (Z.ltb_spec iFrom iTo); [|lia].
  destruct (Z.gtb_spec (iFrom + (iTo - iFrom)) iTo); [lia|].
  replace (iFrom + (iTo - iFrom)) with iTo by lia.
  destruct f; simpl; rewrite Z.ltb_irrefl; reflexivity.
Qed.

(* saga partition (logisticRegression.go): consecutive slices covering [0,n) *)
Lemma saga_loop_spec i : forall p k m n, (1 <= i)%nat -> 0 <= m -> k + Z.of_nat (i - 1) * m <= n ->
  concat (map zr (saga_loop i p k m n)) = zrange k n /\ length (saga_loop i p k m n) = i.
Proof.
  induction i as [|i IH]; intros p k m n Hi Hm Hk; [lia|].
  destruct i as [|i'].
  - simpl. unfold zr; simpl. now rewrite app_nil_r.
  - change (saga_loop (S (S i')) p k m n) with ((k, k + m) :: saga_loop (S i') p (k + m) m n).
    destruct (IH p (k + m) m n) as [H1 H2]; [lia|lia| |].
    { replace (Z.of_nat (S i' - 1)) with (Z.of_nat (S (S i') - 1) - 1) by lia. lia. }
    split; [|cbn [length]; now rewrite H2].
    cbn [map concat]. rewrite H1. unfold zr; cbn [fst snd]. symmetry. apply zrange_split; [lia|].
    assert (0 <= Z.of_nat (S (S i') - 1 - 1) * m) by (apply Z.mul_nonneg_nonneg; lia).
    replace (Z.of_nat (S (S i') - 1)) with (Z.of_nat (S (S i') - 1 - 1) + 1) in Hk by lia. lia.
Qed.

Lemma saga_partition_spec threads n : 1 <= threads -> 1 <= n ->
  exists l, saga_partition threads n = Some l /\ concat (map zr l) = zrange 0 n /\
            Z.of_nat (length l) = Z.min threads n.
Proof.
  intros Ht Hn. unfold saga_partition.
  set (p := if threads >? n then n else threads).
  assert (Hp : 1 <= p <= n /\ p = Z.min threads n).
  { unfold p. destruct (Z.gtb_spec threads n); lia. }
  destruct (p =? 0) eqn:P0; [apply Z.eqb_eq in P0; lia|].
  eexists; split; [reflexivity|].
  destruct (saga_loop_spec (Z.to_nat p) (Z.to_nat p) 0 (Z.quot n p) n) as [H1 H2].
  - lia.
  - rewrite Z.quot_div_nonneg by lia. apply Z.div_pos; lia.
  - rewrite Z.quot_div_nonneg by lia.
    assert (p * (n / p) <= n) by (apply Z.mul_div_le; lia).
    assert (0 <= n / p) by (apply Z.div_pos; lia).
    replace (Z.of_nat (Z.to_nat p - 1)) with (p - 1) by lia. nia.
  - split; [exact H1|]. rewrite H2. lia.
Qed.
