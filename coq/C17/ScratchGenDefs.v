(* C17 (round 3) — the scratch pass of /verif/go2coq_c17 (Scratch_gen.v) and the decisions on it.
   No proofs in this file.

   gen_scratch      : for every struct type with a Clone method in statistics/{generic,scalarDistribution,
                      vectorDistribution,matrixDistribution} and every evaluation method (LogPdf, Likelihood,
                      Posterior, ...) the receiver fields the method body writes;
   gen_clone_fields : for each such field, whether the type's Clone() produces it by a call (a fresh
                      object) or copies the original's value (for a pointer-like field: the same object).

   The job closures call LogPdf on d[tid][*] through an interface; `expand` follows that call one level into
   EVERY listed implementation and adds the field writes to the closure's access list, with the
   classification of the call's receiver path (so they are thread owned iff the receiver is indexed by the
   closure's own thread id).  That ownership is real only if the per-thread clones are fresh: scratch_ok. *)
From Coq Require Import List String Bool.
From ADV Require Import C17.SitesGenDefs.
Import ListNotations.
Open Scope string_scope.

Record scratch_rec := mkScratch { sc_pkg : string; sc_type : string; sc_method : string; sc_fields : list string }.
Record clone_field := mkCloneField { cf_pkg : string; cf_type : string; cf_field : string; cf_fresh : bool; cf_how : string }.

Definition field_fresh (cfs : list clone_field) (p t f : string) : bool :=
  existsb (fun c => String.eqb (cf_pkg c) p && String.eqb (cf_type c) t && String.eqb (cf_field c) f && cf_fresh c) cfs.

Definition scratch_rec_ok (cfs : list clone_field) (s : scratch_rec) : bool :=
  forallb (field_fresh cfs (sc_pkg s) (sc_type s)) (sc_fields s).

(* every field an evaluation method writes is a fresh object in the clone *)
Definition scratch_ok (scr : list scratch_rec) (cfs : list clone_field) : bool := forallb (scratch_rec_ok cfs) scr.

Definition scratch_offenders (scr : list scratch_rec) (cfs : list clone_field) : list string :=
  flat_map (fun s => map (fun f => (sc_pkg s ++ "." ++ sc_type s ++ "." ++ sc_method s ++ " writes ." ++ f ++
                                     " which Clone() does not allocate afresh")%string)
                         (filter (fun f => negb (field_fresh cfs (sc_pkg s) (sc_type s) f)) (sc_fields s))) scr.

(* the pass did follow the call into the generic mixture (a pass that lists nothing proves nothing) *)
Definition follows_generic_mixture (scr : list scratch_rec) : bool :=
  existsb (fun s => String.eqb (sc_pkg s) "generic" && String.eqb (sc_type s) "Mixture" && String.eqb (sc_method s) "LogPdf" &&
                    existsb (String.eqb "t1") (sc_fields s) && existsb (String.eqb "t2") (sc_fields s)) scr &&
  existsb (fun s => String.eqb (sc_pkg s) "generic" && String.eqb (sc_type s) "Mixture" && String.eqb (sc_method s) "Posterior" &&
                    existsb (String.eqb "t3") (sc_fields s)) scr.

(* evaluation calls inside job closures: a LogPdf-like method on an object that is not one of the
   read-only tables (data.LogPdf reads the table filled before the step) *)
Definition eval_methods : list string := ["LogPdf"; "Pdf"; "Likelihood"; "Posterior"; "LogCdf"; "Cdf"].

Definition is_eval_call (a : gaccess) : bool :=
  negb (g_write a) && existsb (String.eqb (g_method a)) eval_methods && negb (pair_in (g_root a) (g_method a) shared_readonly).

(* the field writes behind one evaluation call: one per listed implementation of the method and field *)
Definition expand_call (scr : list scratch_rec) (a : gaccess) : list gaccess :=
  if is_eval_call a then
    flat_map (fun s => if String.eqb (sc_method s) (g_method a)
                       then map (fun f => mkGAcc true (g_root a)
                                            (g_path a ++ ".<" ++ sc_pkg s ++ "." ++ sc_type s ++ ">." ++ f)%string
                                            (g_local a) (g_idx a) "=" HNone false) (sc_fields s)
                       else []) scr
  else [].

Definition expand_site (scr : list scratch_rec) (s : gsite) : gsite :=
  mkGSite (gs_name s) (gs_kind s) (gs_acc s ++ flat_map (expand_call scr) (gs_acc s)).

Definition expanded_writes (scr : list scratch_rec) (gen : list gsite) : nat :=
  List.length (flat_map (fun s => flat_map (expand_call scr) (gs_acc s)) gen).

(* evaluation calls found in the closures (the batch evaluation routines must be among them) *)
Definition eval_call_sites (gen : list gsite) : list string :=
  map gs_name (filter (fun s => existsb is_eval_call (gs_acc s)) gen).
