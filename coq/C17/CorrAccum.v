(* C17 (round 6) correspondence of the batch estimators: the real Initialize / NewObservation / GetEstimate methods are
   driven on a real pool; every job appends its observation index to the log of ITS thread (p.GetThreadId()), so the
   harness hands over the OBSERVED schedule (assignment of the observations to the threads and the order on each thread).
     * validity: every observation exactly once, every thread id inside the pool   (what the threadpool promises)
     * scalar / vector NormalEstimator: Model.step_eager_fresh / step_eager_into0 - the functions the merge theorem is
       about - instantiated with binary64 addition replay the observed schedule; the estimate must be BIT-IDENTICAL
       (no tolerance, no exactness side condition: the reduction order is the observed one)
     * log-domain estimators: the estimate on the pool against the sequential one (exact rationals, 1e-9). *)
From Coq Require Import ZArith List Bool QArith Floats.
From ADV Require Import Base.Corr C17.Model C17.Corr.
Import ListNotations.

(* ---------------- scalar NormalEstimator: cells (sum_m, sum_s, sum_g) *)
Definition f3 := (float * float * float)%type.
Definition f3add (a b : f3) : f3 :=
  let '(a1, a2, a3) := a in let '(b1, b2, b3) := b in
  (PrimFloat.add a1 b1, PrimFloat.add a2 b2, PrimFloat.add a3 b3).
Definition f3zero : f3 := (0%float, 0%float, 0%float).

(* NewObservation: gamma == nil: (x, x*x, 1.0);  else g := exp(gamma - 0): (g*x, g*x*x, g)  [g*x*x = (g*x)*x] *)
Definition sn_contrib (weighted : bool) (x w : float) : f3 :=
  if weighted then (PrimFloat.mul w x, PrimFloat.mul (PrimFloat.mul w x) x, w)
  else (x, PrimFloat.mul x x, 1%float).

(* ---------------- vector NormalEstimator: cells (sum_g, sum_m[i], sum_s[i][j]) *)
Definition vcell := (float * list float * list (list float))%type.
Fixpoint zipf (a b : list float) : list float :=
  match a, b with x :: a', y :: b' => PrimFloat.add x y :: zipf a' b' | _, _ => [] end.
Fixpoint zipff (a b : list (list float)) : list (list float) :=
  match a, b with x :: a', y :: b' => zipf x y :: zipff a' b' | _, _ => [] end.
Definition vadd (a b : vcell) : vcell :=
  let '(g1, m1, s1) := a in let '(g2, m2, s2) := b in (PrimFloat.add g1 g2, zipf m1 m2, zipff s1 s2).
Definition vzero (d : nat) : vcell := (0%float, repeat 0%float d, repeat (repeat 0%float d) d).
Definition vn_contrib (weighted : bool) (x : list float) (w : float) : vcell :=
  if weighted then (w, map (PrimFloat.mul w) x, map (fun xi => map (fun xj => PrimFloat.mul (PrimFloat.mul w xi) xj) x) x)
  else (1%float, x, map (fun xi => map (fun xj => PrimFloat.mul xi xj) x) x).

(* estimateParameters: mu_i = m_i/g;  si_ij = s_ij/g - m_i/g*m_j/g  [((m_i/g)*m_j)/g];  diagonal clamped to SigmaMin *)
Definition vn_params (d : nat) (c : vcell) (sigmaMin : float) : list float :=
  let '(g, m, s) := c in
  let mu := map (fun mi => PrimFloat.div mi g) m in
  let si := map (fun i =>
              map (fun j =>
                let v := PrimFloat.sub (PrimFloat.div (nth j (nth i s []) 0%float) g)
                           (PrimFloat.div (PrimFloat.mul (PrimFloat.div (nth i m 0%float) g) (nth j m 0%float)) g) in
                if Nat.eqb i j then (if PrimFloat.is_nan v || PrimFloat.ltb v sigmaMin then sigmaMin else v) else v)
                (seq 0 d)) (seq 0 d) in
  mu ++ concat si.

Inductive achk :=
| ANormal (xs ws : list float) (sigmaMin : float) (go_mu go_sigma : float)       (* ws = [] : gamma == nil *)
| AVNormal (d : nat) (xs : list (list float)) (ws : list float) (sigmaMin : float) (go : list float)
| ANear (a b tol : Q).

Record acase := mkACase {
  ac_k : Z;                   (* pool size *)
  ac_n : Z;                   (* number of observations = jobs *)
  ac_sch : list (nat * nat);  (* observed (thread, observation): thread 0's log, then thread 1's, ... *)
  ac_checks : list achk
}.

Definition acheck_one (c : acase) (x : achk) : bool :=
  let k := ac_k c in let n := ac_n c in let sch := ac_sch c in
  match x with
  | ANormal xs ws sigmaMin go_mu go_sigma =>
    let weighted := negb (Nat.eqb (length ws) 0) in
    Z.eqb (Z.of_nat (length xs)) n &&
    match step_eager_fresh f3 f3add f3zero (Z.to_nat k)
            (events_for false k n sch (fun i => sn_contrib weighted (nth i xs 0%float) (nth i ws 0%float))) with
    | Some (sm, ss, sg) =>
      let '(mu, sigma) := normal_update sm ss sg sigmaMin in feqb mu go_mu && feqb sigma go_sigma
    | None => false
    end
  | AVNormal d xs ws sigmaMin go =>
    let weighted := negb (Nat.eqb (length ws) 0) in
    Z.eqb (Z.of_nat (length xs)) n && forallb (fun x => Nat.eqb (length x) d) xs &&
    match step_eager_into0 vcell vadd (vzero d) (Z.to_nat k)
            (events_for false k n sch (fun i => vn_contrib weighted (nth i xs []) (nth i ws 0%float))) with
    | Some r => list_eqb feqb (vn_params d r sigmaMin) go
    | None => false
    end
  | ANear a b tol => Qle_bool (Qabs' (a - b)%Q) tol
  end.

Definition acheck (c : acase) : bool :=
  valid_sch false (ac_k c) (ac_n c) (ac_sch c) && forallb (acheck_one c) (ac_checks c).

Definition amism (cs : list acase) : list nat := mismatches acheck cs.
