(* C17 (round 7) — every SAGA epoch evaluates exactly the drawn samples, for every pool size, every n
   (divisible by the worker count or not) and every interleaving of the workers. *)
From Coq Require Import ZArith List Bool Lia Permutation.
From ADV Require Import C17.Model C17.ProofsChunks C17.ModelSaga.
Import ListNotations.
Open Scope Z_scope.

Lemma nth_seq_id (d : Z) : forall (idx : list Z) (s : nat),
  map (fun i => nth (i - s)%nat idx d) (seq s (length idx)) = idx.
Proof.
  induction idx as [|a idx IH]; intro s; simpl; [reflexivity|].
  rewrite Nat.sub_diag. f_equal.
  etransitivity; [|apply (IH (S s))].
  apply map_ext_in. intros i Hi. apply in_seq in Hi.
  replace (i - s)%nat with (S (i - S s)) by lia. reflexivity.
Qed.

Lemma read_all (d : Z) (idx : list Z) :
  map (fun i => nth (Z.to_nat i) idx d) (zrange 0 (Z.of_nat (length idx))) = idx.
Proof.
  unfold zrange. rewrite map_map.
  replace (Z.to_nat (Z.of_nat (length idx) - 0)) with (length idx) by lia.
  etransitivity; [|apply (nth_seq_id d idx 0)].
  apply map_ext. intro i. f_equal. lia.
Qed.

Lemma evals_concat idx (l : list (Z * Z)) :
  concat (map (saga_worker_evals idx) l) =
  map (fun i => nth (Z.to_nat i) idx (-1)) (concat (map zr l)).
Proof.
  rewrite concat_map, map_map. reflexivity.
Qed.

Lemma saga_sequential_log_spec threads (idx : list Z) :
  1 <= threads -> idx <> [] -> saga_epoch_log_sequential threads idx = Some idx.
Proof.
  intros Ht Hne.
  assert (Hn : 1 <= Z.of_nat (length idx)) by (destruct idx; [congruence | simpl length; lia]).
  destruct (saga_partition_spec threads (Z.of_nat (length idx)) Ht Hn) as [l [Hl [Hc _]]].
  unfold saga_epoch_log_sequential, saga_epoch_evals. rewrite Hl.
  rewrite evals_concat, Hc, read_all. reflexivity.
Qed.

Lemma saga_workers_spec threads (idx : list Z) :
  1 <= threads -> idx <> [] ->
  exists ws, saga_epoch_evals threads idx = Some ws /\ concat ws = idx /\
             Z.of_nat (length ws) = Z.min threads (Z.of_nat (length idx)).
Proof.
  intros Ht Hne.
  assert (Hn : 1 <= Z.of_nat (length idx)) by (destruct idx; [congruence | simpl length; lia]).
  destruct (saga_partition_spec threads (Z.of_nat (length idx)) Ht Hn) as [l [Hl [Hc Hlen]]].
  unfold saga_epoch_evals. rewrite Hl. eexists. split; [reflexivity|]. split.
  - rewrite evals_concat, Hc, read_all. reflexivity.
  - now rewrite map_length.
Qed.

Lemma nth_split_ne (w : nat) : forall (ws : list (list Z)) x rest,
  nth w ws [] = x :: rest -> ws = firstn w ws ++ (x :: rest) :: skipn (S w) ws.
Proof.
  induction w as [|w IH]; intros ws x rest H; destruct ws as [|a ws]; simpl in *; try discriminate.
  - now subst.
  - f_equal. now apply IH.
Qed.

Lemma interleave_perm : forall sched ws log,
  saga_interleave sched ws = Some log -> length sched = length (concat ws) ->
  Permutation log (concat ws).
Proof.
  induction sched as [|w r IH]; intros ws log H Hlen; cbn [saga_interleave length] in *.
  - inversion H; subst. symmetry in Hlen. apply length_zero_iff_nil in Hlen. rewrite Hlen. constructor.
  - destruct (nth w ws []) as [|x rest] eqn:Hn; [discriminate|].
    destruct (saga_interleave r (firstn w ws ++ rest :: skipn (S w) ws)) as [l|] eqn:Hr; [|discriminate].
    inversion H; subst log.
    pose proof (nth_split_ne w ws x rest Hn) as Hs.
    assert (Hc : concat ws = concat (firstn w ws) ++ x :: rest ++ concat (skipn (S w) ws)).
    { rewrite Hs at 1. rewrite concat_app. simpl. reflexivity. }
    rewrite Hc. apply Permutation_cons_app.
    replace (concat (firstn w ws) ++ rest ++ concat (skipn (S w) ws))
      with (concat (firstn w ws ++ rest :: skipn (S w) ws)) by (rewrite concat_app; reflexivity).
    apply IH; [exact Hr|].
    rewrite concat_app. simpl. rewrite Hc in Hlen. rewrite !app_length in *. simpl in Hlen. rewrite app_length in Hlen. lia.
Qed.

Lemma saga_interleaving_spec threads (idx : list Z) sched ws log :
  saga_epoch_evals threads idx = Some ws -> 1 <= threads -> idx <> [] ->
  saga_interleave sched ws = Some log -> length sched = length idx ->
  Permutation log idx.
Proof.
  intros Hws Ht Hne Hi Hlen.
  destruct (saga_workers_spec threads idx Ht Hne) as [ws' [Hws' [Hc _]]].
  rewrite Hws in Hws'. inversion Hws'; subst ws'.
  rewrite <- Hc. apply (interleave_perm sched); [exact Hi|]. now rewrite Hc.
Qed.

Lemma countZ_perm x : forall a b, Permutation a b -> countZ x a = countZ x b.
Proof. induction 1; simpl; lia. Qed.

Lemma saga_counts_spec threads (idx : list Z) sched ws log :
  saga_epoch_evals threads idx = Some ws -> 1 <= threads -> idx <> [] ->
  saga_interleave sched ws = Some log -> length sched = length idx ->
  forall j, countZ j log = countZ j idx.
Proof.
  intros. apply countZ_perm. eapply saga_interleaving_spec; eauto.
Qed.

(* non-vacuity: n = 7 drawn samples (with repetitions), 3 threads => slices of 2, 2, 3 (the remainder goes to
   the last worker); a complete interleaving; and what the class "remainder dropped" would evaluate *)
Definition ex_idx : list Z := [5; 0; 5; 3; 6; 1; 1].
Lemma saga_example :
  saga_epoch_evals 3 ex_idx = Some [[5; 0]; [5; 3]; [6; 1; 1]] /\
  saga_interleave [2; 0; 2; 1; 1; 0; 2]%nat [[5; 0]; [5; 3]; [6; 1; 1]] = Some [6; 5; 1; 5; 3; 0; 1] /\
  same_bag [6; 5; 1; 5; 3; 0; 1] ex_idx = true /\
  same_bag (concat [[5; 0]; [5; 3]; [6; 1]]) ex_idx = false /\
  saga_interleave [0; 0; 0]%nat [[5; 0]; [5; 3]; [6; 1; 1]] = None.
Proof. repeat split; vm_compute; reflexivity. Qed.

Lemma same_bag_sound a b : same_bag a b = true -> forall x, countZ x a = countZ x b.
Proof.
  unfold same_bag. intros H x. apply andb_true_iff in H. destruct H as [_ H].
  rewrite forallb_forall in H.
  destruct (in_dec Z.eq_dec x (a ++ b)) as [Hin|Hnin].
  - apply Nat.eqb_eq. now apply H.
  - assert (Hz : forall l, ~ In x l -> countZ x l = 0%nat).
    { induction l as [|y l IH]; simpl; intro Hn; [reflexivity|].
      destruct (Z.eqb_spec x y) as [->|Hne]; [exfalso; apply Hn; now left|].
      simpl. apply IH. intro Hc. apply Hn. now right. }
    rewrite (Hz a), (Hz b); [reflexivity| |]; intro Hc; apply Hnin; apply in_or_app; auto.
Qed.

Lemma saga_interleaving_both threads (idx : list Z) sched ws log :
  saga_epoch_evals threads idx = Some ws -> 1 <= threads -> idx <> [] ->
  saga_interleave sched ws = Some log -> length sched = length idx ->
  Permutation log idx /\ forall j, countZ j log = countZ j idx.
Proof.
  intros H H0 H1 H2 H3. split.
  - exact (saga_interleaving_spec _ _ _ _ _ H H0 H1 H2 H3).
  - exact (saga_counts_spec _ _ _ _ _ H H0 H1 H2 H3).
Qed.
