(* C17 (round 3) — the write-set model EXTENDED by the scratch cells of the distribution objects.

   A job of the batch evaluation routines (XxxDataSet.EvaluateLogPdf) running on thread t calls
   LogPdf on the clones d[t][*]; LogPdf writes the scratch cells of the object it is called on
   and of every object below it (a mixture's t1..t3, a transform's work cell x, ...).  The
   footprint of a job therefore is: its thread's accumulator cells, its own output cells
   (p[., i]) and (a part of) the scratch cells reachable from its thread's clones.

   Clone() is modelled on the level of cells: the clone of an object with scratch cells `orig`
   made at allocator position `base` has, at position i, either a newly allocated cell (base + i)
   or - where the clone is not deep (mask i = true) - the ORIGINAL's cell.  The library's
   generic.Mixture.Clone() is the mask [false; false; false] over (t1, t2, t3); the regression
   `r := *obj; r.LogWeights = ...` is the mask [true; true; true].  No proofs in this file. *)
From Coq Require Import List Arith Bool.
Import ListNotations.

Definition scell := nat.    (* an address *)

(* locations a job may write *)
Inductive sloc :=
| LAcc (tid : nat) (i : nat)     (* accumulator cell i of thread tid: s[tid], tmp[tid].x *)
| LOut (job : nat) (i : nat)     (* output cell i of the job: p[i, job] *)
| LScr (c : scell).              (* a scratch cell of a distribution object *)

(* per-thread clone table: fp t = the scratch cells reachable from the clones of thread t *)
Definition clone_table := nat -> list scell.

(* freshness: the footprints of different threads are disjoint *)
Definition fresh_table (fp : clone_table) (k : nat) : Prop :=
  forall t1 t2, t1 < k -> t2 < k -> t1 <> t2 -> forall c, In c (fp t1) -> ~ In c (fp t2).

(* the write set of job j when it runs on thread sigma j: `used j` selects the scratch cells this
   job's evaluation actually touches (any part of its thread's footprint) *)
Definition job_footprint (fp : clone_table) (sigma : nat -> nat) (used : nat -> list scell -> list scell)
           (nacc nout : nat) (j : nat) : list sloc :=
  map (LAcc (sigma j)) (seq 0 nacc) ++ map (LOut j) (seq 0 nout) ++ map LScr (used j (fp (sigma j))).

(* Clone() on cells *)
Fixpoint clone_cells (mask : list bool) (orig : list scell) (base : nat) : list scell :=
  match mask, orig with
  | m :: ms, o :: os => (if m then o else base) :: clone_cells ms os (S base)
  | _, _ => []
  end.

(* the table the evaluation routines build: thread t gets the t-th clone of the same original,
   the allocator advancing by the size of the object for every clone *)
Definition table_of (mask : list bool) (orig : list scell) (n0 : nat) : clone_table :=
  fun t => clone_cells mask orig (n0 + t * length orig).

Definition deep (n : nat) : list bool := repeat false n.

(* boolean decision of freshness for a concrete table (used on examples) *)
Definition disjointb (a b : list scell) : bool := forallb (fun c => negb (existsb (Nat.eqb c) b)) a.
Fixpoint fresh_tableb_aux (fp : clone_table) (t : nat) (k : nat) : bool :=
  match k with
  | 0 => true
  | S k' => (Nat.eqb t k' || disjointb (fp t) (fp k')) && fresh_tableb_aux fp t k'
  end.
Definition fresh_tableb (fp : clone_table) (k : nat) : bool :=
  forallb (fun t => fresh_tableb_aux fp t k) (seq 0 k).
