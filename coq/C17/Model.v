(* C17 — scheduling model of the worker-pool use in pbenner/autodiff.

   Not a thread model.  What is modelled, per call site, exactly as coded:
     * threadpool.AddRangeJob's chunking arithmetic            (chunks)
     * per-thread accumulators tmp[p.GetThreadId()] with the lazy `init` flag
       (generic.EmStep, generic.baumWelchThread) or eagerly initialised
       (scalarEstimator/vectorEstimator NormalEstimator.Initialize)
     * the merge loops after p.Wait(g):
         merge_fresh        hmm1.Pi / hmm1.Tr in BaumWelchStep, mixture1.LogWeights in EmStep
                            (fresh result, threads 0..k-1, `init == false` => continue)
         merge_into0        tmp[0].gamma / tmp[0].likelihood in BaumWelchStep and EmStep
                            (tmp[0] lazily reset if never used, then threads 1..k-1)
         merge_eager_fresh  scalarEstimator.NormalEstimator.updateEstimate (sum := 0; sum += acc[i])
         merge_eager_into0  vectorEstimator.NormalEstimator.estimateParameters (sum := acc[0]; += acc[k])
     * error propagation: the k = 1 (nil pool) path of AddJob/Wait and the k > 1 path
       (error slot of the job group, erf() polling, Wait returns the slot).
   A schedule is the global execution order of (thread id, job) events; since
   every thread only touches its own accumulator this represents exactly an
   assignment jobs -> threads, a per-thread order, and the set of never-used
   threads (those that do not occur).  The threadpool package itself (every
   queued job is executed exactly once, by one thread at a time per thread id)
   is outside /repo: modelled, not verified.

   No proofs in this file. *)
From Coq Require Import ZArith List Bool Floats.
Import ListNotations.
Open Scope Z_scope.

(* ------------------------------------------------------------------ *)
(* threadpool.AddRangeJob(iFrom, iTo, ...) chunking                     *)
(*   m := threads; if m > iTo-iFrom { m = iTo-iFrom }; n := (iTo-iFrom)/m
     for j := iFrom; j < iTo; j += n { [j, min(j+n, iTo)) }             *)

Fixpoint chunk_loop (fuel : nat) (j n iTo : Z) : option (list (Z * Z)) :=
  if j <? iTo then
    match fuel with
    | O => None                                    (* out of fuel: distinguishable *)
    | S f =>
      let hi := if j + n >? iTo then iTo else j + n in
      match chunk_loop f (j + n) n iTo with
      | Some r => Some ((j, hi) :: r)
      | None => None
      end
    end
  else Some [].

Definition chunks (threads iFrom iTo : Z) : option (list (Z * Z)) :=
  if iFrom >=? iTo then Some []
  else
    let m := if threads >? iTo - iFrom then iTo - iFrom else threads in
    if m =? 0 then None                            (* Go: integer division by zero panics *)
    else
      let n := Z.quot (iTo - iFrom) m in
      chunk_loop (Z.to_nat (iTo - iFrom)) iFrom n iTo.

Definition zrange (a b : Z) : list Z :=
  map (fun i => a + Z.of_nat i) (seq 0 (Z.to_nat (b - a))).

(* logisticRegression.go sagaLogisticRegressionL1.Initialize: the index slice [0,n) is
   cut into p = min(threads, n) consecutive pieces of n/p entries, the last takes the rest.
   Returned as (from, to) pairs. *)
Fixpoint saga_loop (i : nat) (p : nat) (k m n : Z) : list (Z * Z) :=
  match i with
  | O => []
  | S i' =>
    if Nat.eqb i 1 then [(k, n)]
    else (k, k + m) :: saga_loop i' p (k + m) m n
  end.
Definition saga_partition (threads n : Z) : option (list (Z * Z)) :=
  let p := if threads >? n then n else threads in
  if p =? 0 then None                              (* n/p panics *)
  else Some (saga_loop (Z.to_nat p) (Z.to_nat p) 0 (Z.quot n p) n).

(* ------------------------------------------------------------------ *)
(* accumulators                                                        *)

Section Pool.
  Variable A : Type.
  Variable op : A -> A -> A.
  Variable e : A.

  Record thr := mkThr { init : bool; acc : A }.
  Definition pool := list thr.            (* position = thread id *)

  (* "tell every thread that it needs to reset all variables": flags cleared, contents stale *)
  Definition clear_flags (p : pool) : pool := map (fun t => mkThr false (acc t)) p.
  (* Initialize(p): make + zero *)
  Definition init_pool (k : nat) : pool := repeat (mkThr true e) k.

  (* one job with contribution c executed by a thread: `if tmp.init == false {reset}; acc = acc (+) c` *)
  Definition job_lazy (c : A) (t : thr) : thr :=
    mkThr true (op (if init t then acc t else e) c).
  (* NewObservation: acc[id] += c *)
  Definition job_eager (c : A) (t : thr) : thr := mkThr (init t) (op (acc t) c).

  (* tmp[id] : None models Go's index-out-of-range panic *)
  Fixpoint upd (i : nat) (f : thr -> thr) (p : pool) : option pool :=
    match p, i with
    | [], _ => None
    | t :: r, O => Some (f t :: r)
    | t :: r, S i' => match upd i' f r with Some r' => Some (t :: r') | None => None end
    end.

  Definition event := (nat * A)%type.     (* (thread id, contribution of the job) *)

  Fixpoint run (job : A -> thr -> thr) (tr : list event) (p : pool) : option pool :=
    match tr with
    | [] => Some p
    | (i, c) :: r => match upd i (job c) p with Some p' => run job r p' | None => None end
    end.

  Definition skip_add (r : A) (t : thr) : A := if init t then op r (acc t) else r.

  Definition merge_fresh (p : pool) : A := fold_left skip_add p e.
  Definition merge_into0 (p : pool) : option A :=
    match p with
    | [] => None                                    (* tmp[0] panics *)
    | t0 :: rest => Some (fold_left skip_add rest (if init t0 then acc t0 else e))
    end.
  Definition merge_eager_fresh (p : pool) : A := fold_left (fun r t => op r (acc t)) p e.
  Definition merge_eager_into0 (p : pool) : option A :=
    match p with
    | [] => None
    | t0 :: rest => Some (fold_left (fun r t => op r (acc t)) rest (acc t0))
    end.

  (* whole steps: stale = content of tmp left by an earlier step (arbitrary) *)
  Definition step_lazy_fresh (stale : pool) (tr : list event) : option A :=
    match run job_lazy tr (clear_flags stale) with Some p => Some (merge_fresh p) | None => None end.
  Definition step_lazy_into0 (stale : pool) (tr : list event) : option A :=
    match run job_lazy tr (clear_flags stale) with Some p => merge_into0 p | None => None end.
  Definition step_eager_fresh (k : nat) (tr : list event) : option A :=
    match run job_eager tr (init_pool k) with Some p => Some (merge_eager_fresh p) | None => None end.
  Definition step_eager_into0 (k : nat) (tr : list event) : option A :=
    match run job_eager tr (init_pool k) with Some p => merge_eager_into0 p | None => None end.

  (* sequential reference: the k = 1 result, jobs in list order on thread 0 *)
  Definition bigop (cs : list A) : A := fold_left op cs e.

  (* a range job: a schedule of chunks (thread, (from,to)) expands to element events,
     the elements of one chunk in ascending order on that chunk's thread *)
  Definition expand (c : Z -> A) (sch : list (nat * (Z * Z))) : list event :=
    flat_map (fun tc => map (fun i => (fst tc, c i)) (zrange (fst (snd tc)) (snd (snd tc)))) sch.

  (* ---------------------------------------------------------------- *)
  (* error propagation                                                 *)

  Inductive jres := JOk (c : A) | JErr.
  Definition jevent := (nat * jres)%type.

  (* k = 1 (threadpool.Nil): AddJob runs the job at once and returns its error; the caller
     returns on the first error; Wait returns nil. *)
  Fixpoint seq_run (js : list jres) (t : thr) : option thr :=
    match js with
    | [] => Some t
    | JErr :: _ => None
    | JOk c :: r => seq_run r (job_lazy c t)
    end.

  (* k > 1: the job group's error slot; polls = the job body starts with `if erf() != nil {return nil}` *)
  Fixpoint par_run (polls : bool) (tr : list jevent) (p : pool) (err : bool) : option (pool * bool) :=
    match tr with
    | [] => Some (p, err)
    | (i, j) :: r =>
      if polls && err then par_run polls r p err
      else match j with
           | JErr => par_run polls r p true         (* setError(jobGroup, err) *)
           | JOk c => match upd i (job_lazy c) p with
                      | Some p' => par_run polls r p' err
                      | None => None
                      end
           end
    end.

  Inductive sres := SOk (a : A) | SErr | SPanic.

  (* BaumWelchStep / EmStep at HEAD (after fix 3a744c6): `if err := p.Wait(g); err != nil {return ..., err}` *)
  Definition step_with_errors (polls : bool) (k : nat) (stale : pool) (tr : list jevent) : sres :=
    if Nat.eqb k 1 then
      match clear_flags stale with
      | [] => SPanic
      | t0 :: _ =>
        match seq_run (map snd tr) t0 with
        | None => SErr
        | Some t => match merge_into0 [t] with Some a => SOk a | None => SPanic end
        end
      end
    else
      match par_run polls tr (clear_flags stale) false with
      | None => SPanic
      | Some (p, true) => SErr
      | Some (p, false) => match merge_into0 p with Some a => SOk a | None => SPanic end
      end.

  (* the code before the fix: Wait's error dropped *)
  Definition step_with_errors_prefix (polls : bool) (k : nat) (stale : pool) (tr : list jevent) : sres :=
    if Nat.eqb k 1 then step_with_errors polls k stale tr
    else
      match par_run polls tr (clear_flags stale) false with
      | None => SPanic
      | Some (p, _) => match merge_into0 p with Some a => SOk a | None => SPanic end
      end.

  (* The threadpool at the pinned version (threadpool.go AddJob/worker): the job wrapper runs
     `defer wg.Done()` BEFORE the worker calls setError(jobGroup, err), so Wait can pass its
     wait group and read the error slot before the error of a failing job is stored.
     late = that failing job's setError lands after Wait's getError.  step_with_errors above is
     the model under the assumption that no failure is late. *)
  Fixpoint par_run_late (polls : bool) (tr : list (jevent * bool)) (p : pool) (err : bool) : option (pool * bool) :=
    match tr with
    | [] => Some (p, err)
    | ((i, j), late) :: r =>
      if polls && err then par_run_late polls r p err
      else match j with
           | JErr => par_run_late polls r p (if late then err else true)
           | JOk c => match upd i (job_lazy c) p with
                      | Some p' => par_run_late polls r p' err
                      | None => None
                      end
           end
    end.
  Definition step_with_errors_late (polls : bool) (k : nat) (stale : pool) (tr : list (jevent * bool)) : sres :=
    if Nat.eqb k 1 then step_with_errors polls k stale (map fst tr)
    else
      match par_run_late polls tr (clear_flags stale) false with
      | None => SPanic
      | Some (p, true) => SErr
      | Some (p, false) => match merge_into0 p with Some a => SOk a | None => SPanic end
      end.

  (* call sites that discard the result of AddRangeJob/AddJob and only test Wait
     (matrixEstimator/shapeHmm_data.go:115; scalarEstimator/numeric.go:117,143 discards both):
     on the nil pool (k = 1) the error of a job is returned by AddJob and lost; the jobs queued
     after it still run (the loop over records continues), Wait returns nil *)
  Fixpoint seq_run_ignoring (js : list jres) (t : thr) : thr :=
    match js with
    | [] => t
    | JErr :: r => seq_run_ignoring r t
    | JOk c :: r => seq_run_ignoring r (job_lazy c t)
    end.
  Definition step_addjob_result_ignored (polls : bool) (k : nat) (stale : pool) (tr : list jevent) : sres :=
    if Nat.eqb k 1 then
      match clear_flags stale with
      | [] => SPanic
      | t0 :: _ => match merge_into0 [seq_run_ignoring (map snd tr) t0] with Some a => SOk a | None => SPanic end
      end
    else step_with_errors polls k stale tr.
End Pool.

Arguments mkThr {A}. Arguments init {A}. Arguments acc {A}.
Arguments JOk {A}. Arguments JErr {A}.
Arguments SOk {A}. Arguments SErr {A}. Arguments SPanic {A}.

(* ------------------------------------------------------------------ *)
(* the "written by exactly one job" accumulators: gamma[c][l].
   Log-add where one side is -Inf is exact in Go (LOGADD returns the other operand);
   two finite operands would need exp/log1p: that is a Clash here. *)
Inductive cellv (V : Type) := NegInf | Val (v : V) | Clash.
Arguments NegInf {V}. Arguments Val {V}. Arguments Clash {V}.
Definition cell_op {V} (a b : cellv V) : cellv V :=
  match a, b with
  | NegInf, x => x
  | x, NegInf => x
  | _, _ => Clash
  end.


(* ------------------------------------------------------------------ *)
(* scalarEstimator.NormalEstimator.updateEstimate after the per-thread sums were merged:
     s1 := sum_m/sum_g; s2 := sum_s/sum_g; sigma := sqrt(s2 - s1*s1)
     if IsNaN(sigma) || sigma < SigmaMin { sigma = SigmaMin }                       *)
Definition normal_update (sum_m sum_s sum_g sigmaMin : float) : float * float :=
  let s1 := PrimFloat.div sum_m sum_g in
  let s2 := PrimFloat.div sum_s sum_g in
  let sigma := PrimFloat.sqrt (PrimFloat.sub s2 (PrimFloat.mul s1 s1)) in
  let sigma := if PrimFloat.is_nan sigma || PrimFloat.ltb sigma sigmaMin then sigmaMin else sigma in
  (s1, sigma).
