(* C17 (round 6) — the batch estimators' per-thread partial sums: every accepted description returns the sum. *)
From Coq Require Import List Bool Arith Lia Permutation Reals ZArith String.
From ADV Require Import C17.Model C17.Spec C17.Carriers C17.ProofsMerge C17.ModelAccum.
Import ListNotations.

Definition monoid_hom (A B : Type) (opA : A -> A -> A) (eA : A) (opB : B -> B -> B) (eB : B) (h : A -> B) : Prop :=
  h eA = eB /\ forall a b, h (opA a b) = opB (h a) (h b).

Section Sound.
  Variables A B : Type.
  Variable opA : A -> A -> A.  Variable eA : A.
  Variable opB : B -> B -> B.  Variable eB : B.
  Variable h : A -> B.
  Variable zA : A.  Variable zB : B.
  Hypothesis HA : commutative_monoid A opA eA.
  Hypothesis HB : commutative_monoid B opB eB.
  Hypothesis Hh : monoid_hom A B opA eA opB eB h.

  Let totalA := total A opA eA (@acc A).

  Lemma opB_e_r b : opB b eB = b.
  Proof. destruct HB as [_ [Hc He]]. rewrite Hc. apply He. Qed.

  Lemma fold_h p : forall b, fold_left (fun r t => opB r (h (acc t))) p b = opB b (h (totalA p)).
  Proof.
    destruct Hh as [He Hop]. destruct HB as [Has _].
    induction p as [|t r IH]; intro b; simpl.
    - unfold totalA; simpl. rewrite He. now rewrite opB_e_r.
    - rewrite IH. unfold totalA; simpl. rewrite Hop. now rewrite Has.
  Qed.

  Lemma acc_run_sound s k tr :
    shape_ok s = true -> (1 <= k)%nat -> Forall (fun ev => (fst ev < k)%nat) tr ->
    acc_run A B opA eA opB eB h zA zB s k tr = Some (h (bigop A opA eA (map snd tr))).
  Proof.
    destruct HA as [Has [Hco Hel]].
    destruct s as [ii st ti]. unfold shape_ok; simpl.
    destruct ii; [|discriminate]. simpl.
    intros Hs Hk Htr. unfold acc_run, acc_cells; simpl.
    change (repeat (mkThr true eA) k) with (init_pool A eA k).
    destruct (run_some A (job_eager A opA) tr (init_pool A eA k)) as [p' E].
    { now rewrite init_length. }
    rewrite E.
    destruct (run_total A opA eA Has Hco Hel (@acc A) (job_eager A opA) (job_eager_spec A opA) _ _ _ E) as [H1 H2].
    rewrite (total_init A opA eA Hel), Hel in H1. rewrite init_length in H2.
    unfold acc_merge; simpl.
    destruct st as [|[|st]]; destruct ti; try discriminate.
    - (* s := e; for i := 0 *)
      simpl. rewrite fold_h. unfold totalA. rewrite H1.
      destruct HB as [_ [_ HeB]]. now rewrite HeB.
    - (* s := F[0]; for i := 1 *)
      destruct p' as [|t0 rest]; [simpl in H2; lia|]. simpl.
      rewrite fold_h. destruct Hh as [_ Hop]. rewrite <- Hop.
      f_equal. f_equal. exact H1.
  Qed.

  (* in terms of a schedule of a job list *)
  Lemma acc_run_schedule s (J : Type) (c : J -> A) k jobs sch :
    shape_ok s = true -> (1 <= k)%nat -> schedule_of J k jobs sch ->
    acc_run A B opA eA opB eB h zA zB s k (events A J c sch) = Some (h (sum_of A opA eA J c jobs)).
  Proof.
    intros Hs Hk [P F]. destruct HA as [Has [Hco Hel]].
    rewrite acc_run_sound; auto.
    - f_equal. f_equal. unfold sum_of. apply (sched_sum A opA eA Has Hco Hel J c jobs sch P).
    - apply (events_of_fst A J c k sch F).
  Qed.
End Sound.

(* ---------------------------------------------------------------- the carriers of the three accepted combinations *)
Lemma nat_plus_monoid : commutative_monoid nat Nat.add 0%nat.
Proof. repeat split; intros; lia. Qed.

Lemma id_hom (A : Type) (op : A -> A -> A) (e : A) : monoid_hom A A op e op e (fun a => a).
Proof. split; reflexivity. Qed.

(* s = LogAdd(s, math.Log(float64(n))): the counts enter the log domain through n |-> log n, log 0 = -Inf *)
Definition logcount (n : nat) : lval := if Nat.eqb n 0 then None else Some (ln (INR n)).

Lemma logcount_hom : monoid_hom nat lval Nat.add 0%nat logadd None logcount.
Proof.
  split; [reflexivity|]. intros a b. unfold logcount.
  destruct a as [|a]; [reflexivity|]. destruct b as [|b].
  - rewrite Nat.add_0_r. reflexivity.
  - assert (Ha : (0 < INR (S a))%R) by (apply lt_0_INR; lia).
    assert (Hb : (0 < INR (S b))%R) by (apply lt_0_INR; lia).
    change (Some (ln (INR (S a + S b))) = Some (ln (exp (ln (INR (S a))) + exp (ln (INR (S b)))))).
    rewrite !exp_ln by assumption. now rewrite plus_INR.
Qed.

(* exp of the transferred count is the count: the merged value denotes sum of exp(weights) + number of unweighted observations *)
Lemma lexp_logcount n : lexp (logcount n) = INR n.
Proof.
  unfold logcount. destruct n as [|n]; [reflexivity|]. simpl Nat.eqb. cbv iota. simpl lexp.
  apply exp_ln. apply lt_0_INR. lia.
Qed.

(* ---------------------------------------------------------------- from the decision on the generated description *)
Lemma gaccum_ok_shape a : gaccum_ok a = true ->
  exists s m, a_merge a = [m] /\ shape_of a = Some s /\ shape_ok s = true /\
              transfer_ok (upd_op a) (m_transfer m) (m_op m) = true /\ forallb u_tid (a_upd a) = true.
Proof.
  unfold gaccum_ok. intro H.
  apply andb_prop in H; destruct H as [H H4]. apply andb_prop in H; destruct H as [H H3].
  apply andb_prop in H; destruct H as [_ _].
  destruct (a_merge a) as [|m [|m2 r]] eqn:Em; try discriminate.
  destruct (shape_of a) as [s|] eqn:Es; try discriminate.
  apply andb_prop in H4; destruct H4 as [H4 H6]. apply andb_prop in H4; destruct H4 as [H4 _].
  exists s, m. repeat split; auto.
Qed.

(* the accepted combinations are exactly the three for which a homomorphism is proved above *)
Lemma transfer_ok_cases uop t mop : transfer_ok uop t mop = true ->
  (uop = OPlus /\ t = TId /\ mop = OPlus) \/ (uop = OLogAdd /\ t = TId /\ mop = OLogAdd) \/
  (uop = OPlus /\ t = TLogCount /\ mop = OLogAdd).
Proof. destruct uop, t, mop; simpl; try discriminate; auto. Qed.

Theorem accepted_accumulator_sound a : gaccum_ok a = true ->
  exists s, shape_of a = Some s /\
  forall (A B : Type) opA eA opB eB (h : A -> B) zA zB,
    commutative_monoid A opA eA -> commutative_monoid B opB eB -> monoid_hom A B opA eA opB eB h ->
  forall (J : Type) (c : J -> A) (k : nat) (jobs : list J) (sch : list (nat * J)),
    (1 <= k)%nat -> schedule_of J k jobs sch ->
    acc_run A B opA eA opB eB h zA zB s k (events A J c sch) = Some (h (sum_of A opA eA J c jobs)).
Proof.
  intro H. destruct (gaccum_ok_shape a H) as [s [m [_ [Es [Hs _]]]]].
  exists s. split; [exact Es|]. intros. now apply acc_run_schedule.
Qed.

(* ---------------------------------------------------------------- what the decision excludes, on (Z, +, 0), junk value 1 *)
Definition zrun (s : shape) (k : nat) (tr : list (event Z)) : option Z :=
  acc_run Z Z Z.add 0%Z Z.add 0%Z (fun x => x) 1%Z 1%Z s k tr.

(* two jobs (10 on thread 0, 20 on thread 1) on a pool of two threads: the sum is 30 *)
Lemma rejected_shapes_lose_or_duplicate :
  let tr := [(0%nat, 10%Z); (1%nat, 20%Z)] in
  zrun (mkShape true 0 TinIdentity) 2 tr = Some 30%Z /\      (* accepted *)
  zrun (mkShape true 1 TinAcc0) 2 tr = Some 30%Z /\          (* accepted *)
  zrun (mkShape true 1 TinIdentity) 2 tr = Some 20%Z /\      (* the fold starts at 1: thread 0's partial sum is lost *)
  zrun (mkShape true 0 TinAcc0) 2 tr = Some 40%Z /\          (* s := F[0] and the fold starts at 0: thread 0 counted twice *)
  zrun (mkShape true 2 TinAcc0) 2 tr = Some 10%Z /\          (* the fold starts at 2: thread 1 lost *)
  zrun (mkShape false 0 TinIdentity) 2 tr = Some 32%Z /\     (* cells not initialised to the neutral element (or not all of them) *)
  zrun (mkShape true 0 TinOther) 2 tr = Some 31%Z.           (* the target is not initialised to the neutral element *)
Proof. vm_compute. repeat split. Qed.

Lemma shape_ok_only_two s : shape_ok s = true -> s = mkShape true 0 TinIdentity \/ s = mkShape true 1 TinAcc0.
Proof.
  destruct s as [ii st ti]. unfold shape_ok; simpl. destruct ii; [|discriminate]. simpl.
  destruct st as [|[|st]]; destruct ti; try discriminate; auto.
Qed.

(* a description with no fold or two folds of the same accumulator is rejected *)
Lemma unmerged_rejected a : a_merge a = [] -> gaccum_ok a = false.
Proof. intro E. unfold gaccum_ok. rewrite E. now rewrite !andb_false_r. Qed.
Lemma twice_merged_rejected a m1 m2 r : a_merge a = m1 :: m2 :: r -> gaccum_ok a = false.
Proof. intro E. unfold gaccum_ok. rewrite E. now rewrite !andb_false_r. Qed.

(* an update that is not indexed by the thread id of the method's own pool handle is rejected *)
Lemma foreign_index_rejected a : existsb (fun u => negb (u_tid u)) (a_upd a) = true -> gaccum_ok a = false.
Proof.
  intro E. unfold gaccum_ok.
  assert (F : forallb u_tid (a_upd a) = false).
  { apply existsb_exists in E. destruct E as [u [Hin Hu]].
    destruct (forallb u_tid (a_upd a)) eqn:Ef; [|reflexivity].
    rewrite forallb_forall in Ef. rewrite (Ef u Hin) in Hu. discriminate. }
  rewrite F. now rewrite andb_false_r.
Qed.

(* non-vacuity: an accepted description (the count accumulator of the Exponential / Geometric / Poisson estimators) and a
   run of the vector NormalEstimator's shape: 3 jobs on 4 threads, threads 0 and 3 never used *)
Lemma accumulator_example_proof :
  gaccum_ok (mkGAccum "sum_c" "[]int" true VZero true [mkGUpd OPlus true]
                      [mkGMerge "updateEstimate" "sum_g" OLogAdd TLogCount 0 BLen INegInf]) = true /\
  schedule_of nat 4 [0; 1; 2]%nat [(2, 1); (1, 0); (2, 2)]%nat /\
  acc_run nat nat Nat.add 0%nat Nat.add 0%nat (fun x => x) 7%nat 7%nat (mkShape true 1 TinAcc0) 4
          (events nat nat (fun j => (10 ^ j)%nat) [(2, 1); (1, 0); (2, 2)]%nat) = Some 111%nat.
Proof.
  split; [vm_compute; reflexivity|]. split; [|vm_compute; reflexivity].
  split; simpl.
  - apply perm_trans with [1; 0; 2]%nat; [|apply perm_swap]. apply Permutation_refl.
  - repeat constructor; simpl; lia.
Qed.

Lemma accumulator_carriers :
  commutative_monoid nat Nat.add 0%nat /\ monoid_hom nat lval Nat.add 0%nat logadd None logcount /\
  (forall n, lexp (logcount n) = INR n) /\
  (forall (A : Type) (op : A -> A -> A) (e : A), monoid_hom A A op e op e (fun a => a)).
Proof. exact (conj nat_plus_monoid (conj logcount_hom (conj lexp_logcount id_hom))). Qed.

Lemma rejected_descriptions :
  (forall a, a_merge a = [] -> gaccum_ok a = false) /\
  (forall a m1 m2 r, a_merge a = m1 :: m2 :: r -> gaccum_ok a = false) /\
  (forall a, existsb (fun u => negb (u_tid u)) (a_upd a) = true -> gaccum_ok a = false).
Proof. exact (conj unmerged_rejected (conj twice_merged_rejected foreign_index_rejected)). Qed.
