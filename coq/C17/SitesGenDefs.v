(* C17 (round 2) — the access lists of the job closures as DERIVED from the Go source by
   /verif/go2coq_c17 (Sites_gen.v), and the decision procedure of write-set disjointness on them.
   No proofs in this file.

   An access is an assignment or a method call inside a job closure (or inside a same-package
   callee followed from it) whose target is not a variable of the closure.  Its path carries
   the classification of every index: IJob (the job's own index or a value derived from it),
   ITid true (GetThreadId() of the closure's OWN pool handle), ITid false (GetThreadId() of
   some other handle - e.g. the submitting thread's), IAny (anything else). *)
From Coq Require Import List String Bool.
From ADV Require Import C17.Spec C17.Sites.
Import ListNotations.
Open Scope string_scope.

Inductive idx := IJob | ITid (own : bool) | IAny.
Inductive hnd := HNone | HOwn | HForeign.

Record gaccess := mkGAcc {
  g_write : bool;            (* assignment (true) / method or function call (false) *)
  g_root : string;           (* the captured variable the path starts from *)
  g_path : string;           (* printable path *)
  g_local : bool;            (* the root object is created inside the closure *)
  g_idx : list idx;          (* classification of every index on the path *)
  g_method : string;         (* "=" for assignments *)
  g_handle : hnd;            (* a pool handle passed to the callee: none, the closure's own, a foreign one *)
  g_followed : bool          (* the callee's body was analysed in place (its accesses are listed) *)
}.

Record gsite := mkGSite { gs_name : string; gs_kind : string; gs_acc : list gaccess }.

Definition idx_owned (i : idx) : bool := match i with IJob => true | ITid true => true | _ => false end.
Definition idx_foreign (i : idx) : bool := match i with ITid false => true | _ => false end.

(* calls on shared objects that only read (decided by reading the callees):
   data.GetRecord / data.LogPdf (HmmDataSet / MixtureDataSet: the log-pdf table filled before the step),
   obj.R.GetFloat64 (negative binomial parameter), p.At(.,.).GetFloat64 (probability table) *)
Definition shared_readonly : list (string * string) :=
  [("data", "GetRecord"); ("data", "LogPdf"); ("obj", "GetFloat64"); ("p", "GetFloat64")].

Definition pair_in (r m : string) (l : list (string * string)) : bool :=
  existsb (fun rm => String.eqb (fst rm) r && String.eqb (snd rm) m) l.

(* owned: job local, reached through the job's index or the executing thread's id, or a call
   that hands the closure's own pool handle to the callee (which indexes by its thread id) or
   whose body is listed *)
Definition gacc_owned (a : gaccess) : bool :=
  g_local a || existsb idx_owned (g_idx a) ||
  (negb (g_write a) && (match g_handle a with HOwn => true | _ => false end || g_followed a)).

Definition gacc_ok (a : gaccess) : bool :=
  negb (existsb idx_foreign (g_idx a)) &&
  match g_handle a with HForeign => false | _ => true end &&
  (gacc_owned a || (negb (g_write a) && pair_in (g_root a) (g_method a) shared_readonly)).

Definition gsite_ok (s : gsite) : bool := forallb gacc_ok (gs_acc s).

Definition gsite_offenders (s : gsite) : list string :=
  map (fun a => (gs_name s ++ ": " ++ g_path a ++ " " ++ g_method a)%string) (filter (fun a => negb (gacc_ok a)) (gs_acc s)).

(* the closures of each modelled call site, by source file *)
Definition site_files (s : site) : list string :=
  match s with
  | S_EmStep => ["statistics/generic/mixture_em.go:"]
  | S_BaumWelchStep => ["statistics/generic/hmm_baumWelch.go:"]
  | S_ScalarNormal => ["statistics/scalarEstimator/normal.go:"]
  | S_VectorNormal => ["statistics/vectorEstimator/normal.go:"]
  | S_HmmEvaluateLogPdf => ["statistics/vectorEstimator/hmm_data.go:"; "statistics/matrixEstimator/hmm_data.go:";
                            "statistics/matrixEstimator/shapeHmm_data.go:"]
  | S_MixtureEvaluateLogPdf => ["statistics/scalarEstimator/mixture_data.go:"; "statistics/vectorEstimator/mixture_data.go:";
                                "statistics/matrixEstimator/mixture_data.go:"]
  | S_HmmEmissions => ["statistics/vectorEstimator/hmm.go:"; "statistics/matrixEstimator/hmm.go:"; "statistics/matrixEstimator/shapeHmm.go:"]
  | S_MixtureEmissions => ["statistics/scalarEstimator/mixture.go:"; "statistics/vectorEstimator/mixture.go:"; "statistics/matrixEstimator/mixture.go:"]
  | S_ScalarBatchEstimators => ["statistics/scalarEstimator/categorical.go:"; "statistics/scalarEstimator/exponential.go:";
                                "statistics/scalarEstimator/geometric.go:"; "statistics/scalarEstimator/logTransform.go:";
                                "statistics/scalarEstimator/negativeBinomial.go:"; "statistics/scalarEstimator/poisson.go:";
                                "statistics/scalarEstimator/translation.go:"]
  | S_NumericEstimator => ["statistics/scalarEstimator/numeric.go:"]
  | S_SagaLogistic => ["statistics/vectorEstimator/logisticRegression.go:"]
  end.

Definition all_files : list string := flat_map site_files all_sites.

(* every modelled file has a closure in the generated list, and every generated closure belongs
   to a modelled call site (a new parallel call site in the library is not silently ignored) *)
Definition coverage_ok (gen : list gsite) : bool :=
  forallb (fun f => existsb (fun g => String.prefix f (gs_name g)) gen) all_files &&
  forallb (fun g => existsb (fun f => String.prefix f (gs_name g)) all_files) gen.

(* the thread-id expression of every accumulator write is the closure's own *)
Definition thread_writes (s : gsite) : list gaccess :=
  filter (fun a => existsb (fun i => match i with ITid _ => true | _ => false end) (g_idx a)) (gs_acc s).
