(* C17 — top-level lemmas assembled for Props.v. *)
From Coq Require Import ZArith List Bool Permutation Reals Lra Lia.
From ADV Require Import C17.Model C17.Spec C17.Sites C17.Carriers C17.ProofsMerge C17.ProofsChunks C17.ProofsErr.
From ADV Require Export C17.Sites.
Import ListNotations.

Section Top.
  Variable A : Type.
  Variable op : A -> A -> A.
  Variable e : A.
  Hypothesis M : commutative_monoid A op e.

  Let assoc := proj1 M.
  Let comm := proj1 (proj2 M).
  Let e_l := proj2 (proj2 M).

  Lemma events_eq J (c : J -> A) sch : events A J c sch = events_of A J c sch.
  Proof. reflexivity. Qed.

  Lemma merge_all_styles_sec :
    forall (J : Type) (c : J -> A) (k : nat) (stale : pool A) (jobs : list J) (sch : list (nat * J)),
    (1 <= k)%nat -> length stale = k -> schedule_of J k jobs sch ->
    step_lazy_fresh A op e stale (events A J c sch) = Some (sum_of A op e J c jobs) /\
    step_lazy_into0 A op e stale (events A J c sch) = Some (sum_of A op e J c jobs) /\
    step_eager_fresh A op e k (events A J c sch) = Some (sum_of A op e J c jobs) /\
    step_eager_into0 A op e k (events A J c sch) = Some (sum_of A op e J c jobs).
  Proof.
    intros J c k stale jobs sch Hk Hl [HP HF]. unfold sum_of.
    rewrite <- (sched_sum A op e assoc comm e_l J c jobs sch HP).
    rewrite events_eq.
    assert (F : Forall (fun ev => (fst ev < k)%nat) (events_of A J c sch)) by (now apply events_of_fst).
    repeat split.
    - apply step_lazy_fresh_sum; auto. now rewrite Hl.
    - apply step_lazy_into0_sum; auto; rewrite Hl; auto.
    - apply step_eager_fresh_sum; auto.
    - apply step_eager_into0_sum; auto.
  Qed.

  Lemma range_merge_sec :
    forall (c : Z -> A) (k : nat) (stale : pool A) (iFrom iTo : Z) (sch : list (nat * (Z * Z))),
    (1 <= k)%nat -> length stale = k -> (iFrom <= iTo)%Z -> range_schedule_of k iFrom iTo sch ->
    step_lazy_fresh A op e stale (expand A c sch) = Some (bigop A op e (map c (zrange iFrom iTo))) /\
    step_lazy_into0 A op e stale (expand A c sch) = Some (bigop A op e (map c (zrange iFrom iTo))) /\
    step_eager_fresh A op e k (expand A c sch) = Some (bigop A op e (map c (zrange iFrom iTo))) /\
    step_eager_into0 A op e k (expand A c sch) = Some (bigop A op e (map c (zrange iFrom iTo))).
  Proof.
    intros c k stale iFrom iTo sch Hk Hl Hle [chs [Hc [HP HF]]].
    destruct (chunks_partition (Z.of_nat k) iFrom iTo) as [l [Hl' [Hcat _]]]; [lia|lia|].
    rewrite Hc in Hl'. inversion Hl'; subst l.
    rewrite <- (expand_sum A op e assoc comm e_l c sch chs iFrom iTo HP Hcat).
    assert (F : Forall (fun ev => (fst ev < k)%nat) (expand A c sch)) by (now apply expand_fst).
    repeat split.
    - apply step_lazy_fresh_sum; auto. now rewrite Hl.
    - apply step_lazy_into0_sum; auto; rewrite Hl; auto.
    - apply step_eager_fresh_sum; auto.
    - apply step_eager_into0_sum; auto.
  Qed.
End Top.

Lemma merge_all_styles :
  forall (A : Type) (op : A -> A -> A) (e : A), commutative_monoid A op e ->
  forall (J : Type) (c : J -> A) (k : nat) (stale : pool A) (jobs : list J) (sch : list (nat * J)),
    (1 <= k)%nat -> length stale = k -> schedule_of J k jobs sch ->
    step_lazy_fresh A op e stale (events A J c sch) = Some (sum_of A op e J c jobs) /\
    step_lazy_into0 A op e stale (events A J c sch) = Some (sum_of A op e J c jobs) /\
    step_eager_fresh A op e k (events A J c sch) = Some (sum_of A op e J c jobs) /\
    step_eager_into0 A op e k (events A J c sch) = Some (sum_of A op e J c jobs).
Proof. exact merge_all_styles_sec. Qed.

Lemma range_merge_all_styles :
  forall (A : Type) (op : A -> A -> A) (e : A), commutative_monoid A op e ->
  forall (c : Z -> A) (k : nat) (stale : pool A) (iFrom iTo : Z) (sch : list (nat * (Z * Z))),
    (1 <= k)%nat -> length stale = k -> (iFrom <= iTo)%Z -> range_schedule_of k iFrom iTo sch ->
    step_lazy_fresh A op e stale (expand A c sch) = Some (bigop A op e (map c (zrange iFrom iTo))) /\
    step_lazy_into0 A op e stale (expand A c sch) = Some (bigop A op e (map c (zrange iFrom iTo))) /\
    step_eager_fresh A op e k (expand A c sch) = Some (bigop A op e (map c (zrange iFrom iTo))) /\
    step_eager_into0 A op e k (expand A c sch) = Some (bigop A op e (map c (zrange iFrom iTo))).
Proof. exact range_merge_sec. Qed.

Lemma schedule_independence :
  forall (A : Type) (op : A -> A -> A) (e : A), commutative_monoid A op e ->
  forall (J : Type) (c : J -> A) (jobs : list J)
         (k1 k2 : nat) (st1 st2 : pool A) (sch1 sch2 : list (nat * J)),
    (1 <= k1)%nat -> (1 <= k2)%nat -> length st1 = k1 -> length st2 = k2 ->
    schedule_of J k1 jobs sch1 -> schedule_of J k2 jobs sch2 ->
    step_lazy_fresh A op e st1 (events A J c sch1) = step_lazy_fresh A op e st2 (events A J c sch2) /\
    step_lazy_into0 A op e st1 (events A J c sch1) = step_lazy_into0 A op e st2 (events A J c sch2) /\
    step_eager_fresh A op e k1 (events A J c sch1) = step_eager_fresh A op e k2 (events A J c sch2) /\
    step_eager_into0 A op e k1 (events A J c sch1) = step_eager_into0 A op e k2 (events A J c sch2).
Proof.
  intros A op e M J c jobs k1 k2 st1 st2 sch1 sch2 H1 H2 L1 L2 S1 S2.
  destruct (merge_all_styles A op e M J c k1 st1 jobs sch1 H1 L1 S1) as [a1 [a2 [a3 a4]]].
  destruct (merge_all_styles A op e M J c k2 st2 jobs sch2 H2 L2 S2) as [b1 [b2 [b3 b4]]].
  repeat split; congruence.
Qed.

Lemma sequential_is_schedule J (jobs : list J) : schedule_of J 1 jobs (sequential J jobs).
Proof.
  split.
  - unfold sequential. rewrite map_map. simpl. rewrite map_id. apply Permutation_refl.
  - unfold sequential. apply Forall_map. apply Forall_forall. intros; simpl; lia.
Qed.

Lemma parallel_equals_sequential :
  forall (A : Type) (op : A -> A -> A) (e : A), commutative_monoid A op e ->
  forall (J : Type) (c : J -> A) (jobs : list J) (k : nat) (stale : pool A) (sch : list (nat * J)) (t0 : thr A),
    (1 <= k)%nat -> length stale = k -> schedule_of J k jobs sch ->
    step_lazy_into0 A op e stale (events A J c sch) =
    step_lazy_into0 A op e [t0] (events A J c (sequential J jobs)).
Proof.
  intros A op e M J c jobs k stale sch t0 Hk Hl HS.
  destruct (merge_all_styles A op e M J c k stale jobs sch Hk Hl HS) as [_ [a2 _]].
  destruct (merge_all_styles A op e M J c 1 [t0] jobs (sequential J jobs) (le_n 1) eq_refl
              (sequential_is_schedule J jobs)) as [_ [b2 _]].
  congruence.
Qed.

Lemma carriers_monoids :
  commutative_monoid R Rplus 0%R /\ commutative_monoid lval logadd None /\
  (forall V, commutative_monoid (cellv V) cell_op NegInf).
Proof.
  split; [exact Rplus_monoid|]. split.
  - split; [exact logadd_assoc|split; [exact logadd_comm|exact logadd_e_l]].
  - intro V. split; [exact cell_op_assoc|split; [exact cell_op_comm|exact cell_op_e_l]].
Qed.

Lemma out_of_range_panics :
  forall (A : Type) (op : A -> A -> A) (e : A) (stale : pool A) tr1 i c tr2,
    Forall (fun ev => (fst ev < length stale)%nat) tr1 -> (length stale <= i)%nat ->
    step_lazy_into0 A op e stale (tr1 ++ (i, c) :: tr2) = None.
Proof.
  intros A op e stale tr1 i c tr2 H Hi. unfold step_lazy_into0.
  rewrite run_out_of_range; [reflexivity| |]; unfold clear_flags; rewrite map_length; assumption.
Qed.

Lemma prefix_drops_error :
  exists (k : nat) (tr : list (jevent Z)) (a : Z),
    (exists i, In (i, JErr) tr) /\
    step_with_errors_prefix Z Z.add 0%Z true k [mkThr false 0%Z; mkThr false 0%Z] tr = SOk a.
Proof.
  exists 2%nat, [(0%nat, JOk 5%Z); (1%nat, JErr); (1%nat, JOk 7%Z)], 5%Z.
  split; [exists 1%nat; simpl; auto|reflexivity].
Qed.

Lemma all_sites_ok : forall s, In s all_sites -> site_ok s = true.
Proof.
  intros s H. unfold all_sites in H. simpl in H.
  repeat (destruct H as [H|H]; [subst s; vm_compute; reflexivity|]). destruct H.
Qed.

Lemma frame_disjoint :
  forall s, site_ok s = true ->
  forall (t1 t2 : nat) (j1 j2 : Z), t1 <> t2 -> j1 <> j2 ->
  forall w a, In w (job_writes s) -> In a (job_writes s ++ job_reads s) ->
    instantiate t1 j1 w <> instantiate t2 j2 a.
Proof.
  intros s Hok t1 t2 j1 j2 Ht Hj w a Hw Ha.
  unfold site_ok in Hok. repeat (apply andb_true_iff in Hok; destruct Hok as [Hok ?]).
  rewrite forallb_forall in Hok. specialize (Hok w Hw).
  destruct w as [nw ow], a as [na oa]. unfold instantiate; simpl in *.
  destruct ow, oa; simpl in *; try discriminate; intro E; inversion E; subst; contradiction.
Qed.

Lemma schedule_example_proof :
  schedule_of nat 4 [0; 1; 2]%nat [(2, 1); (1, 0); (2, 2)]%nat /\
  step_lazy_into0 Z Z.add 0%Z [mkThr true 99; mkThr true 98; mkThr false 97; mkThr true 96]%Z
     (events Z nat (fun j => Z.of_nat (10 ^ j)) [(2, 1); (1, 0); (2, 2)]%nat) = Some 111%Z.
Proof.
  split; [split|reflexivity].
  - simpl. apply perm_swap.
  - repeat constructor.
Qed.

(* discarding AddJob's result makes error propagation depend on the pool size *)
Lemma addjob_ignored_pool_dependent :
  exists (tr1 tr2 : list (jevent Z)) (a : Z),
    map snd tr1 = map snd tr2 /\ (exists i, In (i, JErr) tr1) /\
    step_addjob_result_ignored Z Z.add 0%Z true 1 [mkThr false 0%Z] tr1 = SOk a /\
    step_addjob_result_ignored Z Z.add 0%Z true 2 [mkThr false 0%Z; mkThr false 0%Z] tr2 = SErr.
Proof.
  exists [(0%nat, JOk 5%Z); (0%nat, JErr); (0%nat, JOk 7%Z)],
         [(0%nat, JOk 5%Z); (1%nat, JErr); (1%nat, JOk 7%Z)], 12%Z.
  repeat split; try reflexivity. exists 0%nat. simpl. auto.
Qed.

(* the threadpool's Done-before-setError order can lose the error of a failing job *)
Lemma late_error_lost :
  exists (tr : list (jevent Z * bool)) (a : Z),
    (exists i l, In ((i, JErr), l) tr) /\
    step_with_errors_late Z Z.add 0%Z true 2 [mkThr false 0%Z; mkThr false 0%Z] tr = SOk a.
Proof.
  exists [((0%nat, JOk 5%Z), false); ((1%nat, JErr), true)], 5%Z.
  split; [exists 1%nat, true; simpl; auto|reflexivity].
Qed.

Lemma par_run_late_sticky A op e polls tr : forall p p' b,
  par_run_late A op e polls tr p true = Some (p', b) -> b = true.
Proof.
  induction tr as [|[[i j] l] tr IH]; intros p p' b H; simpl in H.
  - now inversion H.
  - destruct polls; simpl in H.
    + eapply IH; eauto.
    + destruct j as [c|].
      * destruct (upd A i (job_lazy A op e c) p) as [p1|]; [eapply IH; eauto|discriminate].
      * destruct l; eapply IH; eauto.
Qed.

(* if at least one failing job stores its error in time, the step fails *)
Lemma timely_error_propagates A op e polls tr : forall p err p' b,
  (exists i, In ((i, JErr), false) tr) ->
  par_run_late A op e polls tr p err = Some (p', b) -> b = true.
Proof.
  induction tr as [|[[i j] l] tr IH]; intros p err p' b [i0 Hin] H; [destruct Hin|].
  simpl in H. destruct (polls && err) eqn:PE.
  - apply andb_true_iff in PE. destruct PE as [_ E]. subst err. eapply par_run_late_sticky; eauto.
  - destruct j as [c|].
    + destruct Hin as [Hin|Hin]; [inversion Hin|].
      destruct (upd A i (job_lazy A op e c) p) as [p1|]; [|discriminate].
      eapply IH; eauto.
    + destruct l.
      * destruct Hin as [Hin|Hin]; [inversion Hin|]. eapply IH; eauto.
      * eapply par_run_late_sticky; eauto.
Qed.
