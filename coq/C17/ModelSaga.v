(* C17 (round 7) — which samples one SAGA epoch evaluates.

   logisticRegression.go, sagaLogisticRegressionL1:
     Initialize   obj.Indices = make([]int, n); worker i gets the sub-slice Indices[a_i:b_i] of
                  Model.saga_partition (p = min(threads, n) pieces of n/p entries, the LAST takes the rest)
     Execute      per epoch: Indices[i] = rand.Intn(n) for all i (the drawn list), then one job per
                  worker: Workers[i].Iterate(epoch)
     Iterate      for i_ := 0; i_ < len(indices); i_++ { j := indices[i_]; ... f(j, x1) ... }
   The drawn list is an arbitrary list `idx` here (any n, any content); a worker's evaluation
   sequence is idx read through its sub-slice.  On the nil pool the workers run in order, so the
   global evaluation log is the concatenation; on a real pool it is some interleaving.

   No proofs in this file. *)
From Coq Require Import ZArith List Bool.
From ADV Require Import C17.Model.
Import ListNotations.
Open Scope Z_scope.

(* indices[i_] for i_ = 0 .. b-a-1 where indices = Indices[a:b]; a read outside the backing array is -1 *)
Definition saga_worker_evals (idx : list Z) (ab : Z * Z) : list Z :=
  map (fun i => nth (Z.to_nat i) idx (-1)) (zrange (fst ab) (snd ab)).

Definition saga_epoch_evals (threads : Z) (idx : list Z) : option (list (list Z)) :=
  match saga_partition threads (Z.of_nat (length idx)) with
  | Some l => Some (map (saga_worker_evals idx) l)
  | None => None
  end.

(* the global log of an epoch on the nil pool: workers in order *)
Definition saga_epoch_log_sequential (threads : Z) (idx : list Z) : option (list Z) :=
  match saga_epoch_evals threads idx with
  | Some ws => Some (concat ws)
  | None => None
  end.

(* an interleaving of the workers' sequences: the schedule names, step by step, the worker whose next
   evaluation happens; None when the schedule names a worker that has nothing left *)
Fixpoint saga_interleave (sched : list nat) (ws : list (list Z)) : option (list Z) :=
  match sched with
  | [] => Some []
  | w :: r =>
    match nth w ws [] with
    | [] => None
    | x :: rest =>
      match saga_interleave r (firstn w ws ++ rest :: skipn (S w) ws) with
      | Some l => Some (x :: l)
      | None => None
      end
    end
  end.

Fixpoint countZ (x : Z) (l : list Z) : nat :=
  match l with [] => O | y :: r => ((if Z.eqb x y then 1%nat else 0%nat) + countZ x r)%nat end.

(* same multiset, decided *)
Definition same_bag (a b : list Z) : bool :=
  Nat.eqb (length a) (length b) && forallb (fun x => Nat.eqb (countZ x a) (countZ x b)) (a ++ b).
