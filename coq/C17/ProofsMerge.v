(* C17 — the merge lemmas: merged sigma = (+)_j c_j over any commutative monoid. *)
From Coq Require Import ZArith List Bool Lia Permutation.
From ADV Require Import C17.Model.
Import ListNotations.

Section Merge.
  Variable A : Type.
  Variable op : A -> A -> A.
  Variable e : A.
  Hypothesis op_assoc : forall a b c, op (op a b) c = op a (op b c).
  Hypothesis op_comm : forall a b, op a b = op b a.
  Hypothesis op_e_l : forall a, op e a = a.

  Lemma op_e_r a : op a e = a.
  Proof. rewrite op_comm. apply op_e_l. Qed.

  Notation bigop := (bigop A op e).

  Lemma fold_left_op cs : forall a, fold_left op cs a = op a (bigop cs).
  Proof.
    unfold Model.bigop. induction cs as [|c cs IH]; intro a; simpl.
    - now rewrite op_e_r.
    - rewrite IH. rewrite (IH (op e c)). rewrite op_e_l. now rewrite op_assoc.
  Qed.

  Lemma bigop_nil : bigop [] = e.
  Proof. reflexivity. Qed.

  Lemma bigop_cons c cs : bigop (c :: cs) = op c (bigop cs).
  Proof. unfold Model.bigop at 1. simpl. rewrite fold_left_op. now rewrite op_e_l. Qed.

  Lemma bigop_app l1 l2 : bigop (l1 ++ l2) = op (bigop l1) (bigop l2).
  Proof.
    induction l1 as [|c l1 IH].
    - change (bigop l2 = op e (bigop l2)). now rewrite op_e_l.
    - change ((c :: l1) ++ l2) with (c :: (l1 ++ l2)). now rewrite !bigop_cons, IH, op_assoc.
  Qed.

  Lemma bigop_perm l1 l2 : Permutation l1 l2 -> bigop l1 = bigop l2.
  Proof.
    induction 1 as [|x l l' _ IH|x y l|l l' l'' _ IH1 _ IH2].
    - reflexivity.
    - now rewrite !bigop_cons, IH.
    - rewrite !bigop_cons, <- !op_assoc. now rewrite (op_comm y x).
    - now rewrite IH1.
  Qed.

  (* ---- generic accumulator argument: v = value a thread stands for, f = job body *)
  Section Generic.
    Variable v : thr A -> A.
    Variable f : A -> thr A -> thr A.
    Hypothesis f_spec : forall c t, v (f c t) = op (v t) c.

    Definition total (p : pool A) : A := fold_right (fun t r => op (v t) r) e p.

    Lemma upd_total i c : forall p p', upd A i (f c) p = Some p' -> total p' = op (total p) c.
    Proof.
      induction i as [|i IH]; intros [|t r] p' H; simpl in H; try discriminate.
      - inversion H; subst; clear H. simpl. rewrite f_spec.
        rewrite !op_assoc. f_equal. apply op_comm.
      - destruct (upd A i (f c) r) as [r'|] eqn:E; try discriminate.
        inversion H; subst; clear H. simpl. rewrite (IH _ _ E). now rewrite op_assoc.
    Qed.

    Lemma upd_length i g : forall p p', upd A i g p = Some p' -> length p' = length p.
    Proof.
      induction i as [|i IH]; intros [|t r] p' H; simpl in H; try discriminate.
      - inversion H; reflexivity.
      - destruct (upd A i g r) as [r'|] eqn:E; try discriminate.
        inversion H; subst. simpl. now rewrite (IH _ _ E).
    Qed.

    Lemma upd_some i g : forall p, (i < length p)%nat -> exists p', upd A i g p = Some p'.
    Proof.
      induction i as [|i IH]; intros [|t r] H; simpl in H; try lia.
      - eexists; reflexivity.
      - destruct (IH r) as [r' E]; [lia|]. simpl. rewrite E. eexists; reflexivity.
    Qed.

    Lemma upd_none i g : forall p, (length p <= i)%nat -> upd A i g p = None.
    Proof.
      induction i as [|i IH]; intros [|t r] H; simpl in *; try reflexivity; try lia.
      rewrite IH; [reflexivity|lia].
    Qed.

    Lemma run_total tr : forall p p', run A f tr p = Some p' ->
      total p' = op (total p) (bigop (map snd tr)) /\ length p' = length p.
    Proof.
      induction tr as [|[i c] tr IH]; intros p p' H; simpl in H.
      - inversion H; subst. split; [|reflexivity]. cbn. now rewrite op_e_r.
      - destruct (upd A i (f c) p) as [p1|] eqn:E; try discriminate.
        destruct (IH _ _ H) as [H1 H2]. split.
        + rewrite H1, (upd_total _ _ _ _ E).
          change (map snd ((i, c) :: tr)) with (c :: map snd tr). now rewrite bigop_cons, op_assoc.
        + rewrite H2. eapply upd_length; eauto.
    Qed.

    Lemma run_some tr : forall p, Forall (fun ev => (fst ev < length p)%nat) tr ->
      exists p', run A f tr p = Some p'.
    Proof.
      induction tr as [|[i c] tr IH]; intros p H; simpl.
      - eexists; reflexivity.
      - inversion H as [|x l Hx Hl]; subst. simpl in Hx.
        destruct (upd_some i (f c) p Hx) as [p1 E]. rewrite E.
        apply IH. rewrite (upd_length _ _ _ _ E). exact Hl.
    Qed.

    (* a thread id outside tmp: the Go code panics (index out of range) *)
    Lemma run_out_of_range tr1 i c tr2 : forall p,
      Forall (fun ev => (fst ev < length p)%nat) tr1 -> (length p <= i)%nat ->
      run A f (tr1 ++ (i, c) :: tr2) p = None.
    Proof.
      induction tr1 as [|[i1 c1] tr1 IH]; intros p H Hi; simpl.
      - now rewrite upd_none.
      - inversion H as [|x l Hx Hl]; subst. simpl in Hx.
        destruct (upd_some i1 (f c1) p Hx) as [p1 E]. rewrite E.
        apply IH; rewrite (upd_length _ _ _ _ E); assumption.
    Qed.
  End Generic.

  (* ---- lazy accumulators *)
  Definition val (t : thr A) : A := if init t then acc t else e.

  Lemma job_lazy_spec c t : val (job_lazy A op e c t) = op (val t) c.
  Proof. reflexivity. Qed.

  Lemma job_eager_spec c t : acc (job_eager A op c t) = op (acc t) c.
  Proof. reflexivity. Qed.

  Lemma skip_add_val a t : skip_add A op a t = op a (val t).
  Proof. unfold skip_add, val. destruct (init t); [reflexivity|now rewrite op_e_r]. Qed.

  Lemma fold_skip p : forall a, fold_left (skip_add A op) p a = op a (total val p).
  Proof.
    induction p as [|t r IH]; intro a; simpl.
    - now rewrite op_e_r.
    - rewrite IH, skip_add_val. now rewrite op_assoc.
  Qed.

  Lemma merge_fresh_total p : merge_fresh A op e p = total val p.
  Proof. unfold merge_fresh. now rewrite fold_skip, op_e_l. Qed.

  Lemma merge_into0_total p : (1 <= length p)%nat -> merge_into0 A op e p = Some (total val p).
  Proof.
    destruct p as [|t0 rest]; simpl; [lia|]. intros _. f_equal. now rewrite fold_skip.
  Qed.

  Lemma total_clear p : total val (clear_flags A p) = e.
  Proof. induction p as [|t r IH]; simpl; [reflexivity|]. rewrite IH. unfold val; simpl. apply op_e_l. Qed.

  Lemma clear_length p : length (clear_flags A p) = length p.
  Proof. unfold clear_flags. apply map_length. Qed.

  Lemma fold_eager p : forall a, fold_left (fun r t => op r (acc t)) p a = op a (total (@acc A) p).
  Proof.
    induction p as [|t r IH]; intro a; simpl.
    - now rewrite op_e_r.
    - rewrite IH. now rewrite op_assoc.
  Qed.

  Lemma total_init k : total (@acc A) (init_pool A e k) = e.
  Proof. induction k as [|k IH]; simpl; [reflexivity|]. unfold init_pool in IH. rewrite IH. apply op_e_l. Qed.

  Lemma init_length k : length (init_pool A e k) = k.
  Proof. apply repeat_length. Qed.

  (* ---- theorem (1), per merge style *)
  Lemma step_lazy_fresh_sum stale tr :
    Forall (fun ev => (fst ev < length stale)%nat) tr ->
    step_lazy_fresh A op e stale tr = Some (bigop (map snd tr)).
  Proof.
    intro H. unfold step_lazy_fresh.
    destruct (run_some (job_lazy A op e) tr (clear_flags A stale)) as [p' E].
    { now rewrite clear_length. }
    rewrite E. destruct (run_total val (job_lazy A op e) job_lazy_spec _ _ _ E) as [H1 _].
    now rewrite merge_fresh_total, H1, total_clear, op_e_l.
  Qed.

  Lemma step_lazy_into0_sum stale tr :
    (1 <= length stale)%nat ->
    Forall (fun ev => (fst ev < length stale)%nat) tr ->
    step_lazy_into0 A op e stale tr = Some (bigop (map snd tr)).
  Proof.
    intros Hk H. unfold step_lazy_into0.
    destruct (run_some (job_lazy A op e) tr (clear_flags A stale)) as [p' E].
    { now rewrite clear_length. }
    rewrite E. destruct (run_total val (job_lazy A op e) job_lazy_spec _ _ _ E) as [H1 H2].
    rewrite merge_into0_total; [|rewrite H2, clear_length; exact Hk].
    now rewrite H1, total_clear, op_e_l.
  Qed.

  Lemma step_eager_fresh_sum k tr :
    Forall (fun ev => (fst ev < k)%nat) tr ->
    step_eager_fresh A op e k tr = Some (bigop (map snd tr)).
  Proof.
    intro H. unfold step_eager_fresh.
    destruct (run_some (job_eager A op) tr (init_pool A e k)) as [p' E].
    { now rewrite init_length. }
    rewrite E. destruct (run_total (@acc A) (job_eager A op) job_eager_spec _ _ _ E) as [H1 _].
    unfold merge_eager_fresh. now rewrite fold_eager, op_e_l, H1, total_init, op_e_l.
  Qed.

  Lemma step_eager_into0_sum k tr :
    (1 <= k)%nat ->
    Forall (fun ev => (fst ev < k)%nat) tr ->
    step_eager_into0 A op e k tr = Some (bigop (map snd tr)).
  Proof.
    intros Hk H. unfold step_eager_into0.
    destruct (run_some (job_eager A op) tr (init_pool A e k)) as [p' E].
    { now rewrite init_length. }
    rewrite E. destruct (run_total (@acc A) (job_eager A op) job_eager_spec _ _ _ E) as [H1 H2].
    destruct p' as [|t0 rest]; [rewrite init_length in H2; simpl in H2; lia|].
    simpl. f_equal. rewrite fold_eager. simpl in H1. rewrite H1. now rewrite total_init, op_e_l.
  Qed.

  (* ---- schedules of a job list *)
  Section Jobs.
    Variable J : Type.
    Variable c : J -> A.
    Definition events_of (sch : list (nat * J)) : list (event A) := map (fun tj => (fst tj, c (snd tj))) sch.

    Lemma events_of_snd sch : map snd (events_of sch) = map c (map snd sch).
    Proof. unfold events_of. rewrite !map_map. reflexivity. Qed.

    Lemma events_of_fst k sch : Forall (fun tj => (fst tj < k)%nat) sch ->
      Forall (fun ev => (fst ev < k)%nat) (events_of sch).
    Proof. unfold events_of. intro H. apply Forall_map. exact H. Qed.

    Lemma sched_sum jobs sch : Permutation (map snd sch) jobs ->
      bigop (map snd (events_of sch)) = bigop (map c jobs).
    Proof. intro P. rewrite events_of_snd. apply bigop_perm. now apply Permutation_map. Qed.
  End Jobs.

  (* ---- range jobs *)
  Lemma expand_snd c sch :
    map snd (expand A c sch) = flat_map (fun ch => map c (zrange (fst ch) (snd ch))) (map snd sch).
  Proof.
    unfold expand. induction sch as [|[t [a b]] sch IH]; simpl; [reflexivity|].
    rewrite map_app, IH, map_map. reflexivity.
  Qed.

  Lemma expand_fst k c sch : Forall (fun tc => (fst tc < k)%nat) sch ->
    Forall (fun ev => (fst ev < k)%nat) (expand A c sch).
  Proof.
    unfold expand. induction 1 as [|[t [a b]] sch Ht _ IH]; simpl; [constructor|].
    apply Forall_app; split; [|exact IH]. apply Forall_map. apply Forall_forall. intros; exact Ht.
  Qed.

  Lemma flat_map_concat_map {X Y} (g : X -> list Y) l : flat_map g l = concat (map g l).
  Proof. induction l; simpl; congruence. Qed.

  Lemma expand_sum c sch chs from to :
    Permutation (map snd sch) chs ->
    concat (map (fun ch => zrange (fst ch) (snd ch)) chs) = zrange from to ->
    bigop (map snd (expand A c sch)) = bigop (map c (zrange from to)).
  Proof.
    intros P HC. rewrite expand_snd.
    rewrite (bigop_perm _ (flat_map (fun ch => map c (zrange (fst ch) (snd ch))) chs)).
    - f_equal. rewrite <- HC. rewrite flat_map_concat_map, concat_map, map_map. reflexivity.
    - apply Permutation_flat_map. exact P.
  Qed.
End Merge.
