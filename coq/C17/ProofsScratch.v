(* C17 (round 3) — proofs about the scratch-cell extension of the write-set model
   (ModelScratch.v) and the decisions on the generated scratch pass (Scratch_gen.v). *)
From Coq Require Import List Arith Bool Lia String.
From ADV Require Import C17.ModelScratch C17.SitesGenDefs C17.Sites_gen C17.ScratchGenDefs C17.Scratch_gen C17.ProofsSitesGen.
Import ListNotations.

(* ---------------------------------------------------------------- (3) fresh clones => disjoint write sets *)

Lemma in_map_inv {A B} (f : A -> B) l y : In y (map f l) -> exists x, y = f x /\ In x l.
Proof. intro H. apply in_map_iff in H. destruct H as [x [E I]]. exists x. split; [symmetry; exact E|exact I]. Qed.

Lemma footprint_cases fp sigma used nacc nout j x :
  In x (job_footprint fp sigma used nacc nout j) ->
  (exists i, x = LAcc (sigma j) i) \/ (exists i, x = LOut j i) \/ (exists c, x = LScr c /\ In c (used j (fp (sigma j)))).
Proof.
  unfold job_footprint. intro H. apply in_app_or in H. destruct H as [H|H].
  - left. destruct (in_map_inv _ _ _ H) as [i [E _]]. exists i. exact E.
  - apply in_app_or in H. destruct H as [H|H].
    + right. left. destruct (in_map_inv _ _ _ H) as [i [E _]]. exists i. exact E.
    + right. right. destruct (in_map_inv _ _ _ H) as [c [E I]]. exists c. split; assumption.
Qed.

Lemma fresh_footprints_disjoint (fp : clone_table) (k : nat) (sigma : nat -> nat)
      (used : nat -> list scell -> list scell) (nacc nout : nat) :
  fresh_table fp k ->
  (forall j l c, In c (used j l) -> In c l) ->
  forall j1 j2, sigma j1 < k -> sigma j2 < k -> sigma j1 <> sigma j2 -> j1 <> j2 ->
  forall x, In x (job_footprint fp sigma used nacc nout j1) -> ~ In x (job_footprint fp sigma used nacc nout j2).
Proof.
  intros Hfresh Hused j1 j2 H1 H2 Hs Hj x X1 X2.
  destruct (footprint_cases _ _ _ _ _ _ _ X1) as [[i E1]|[[i E1]|[c [E1 I1]]]];
  destruct (footprint_cases _ _ _ _ _ _ _ X2) as [[i' E2]|[[i' E2]|[c' [E2 I2]]]]; subst x; try discriminate.
  - inversion E2. contradiction.
  - inversion E2. contradiction.
  - inversion E2. subst c'. apply Hused in I1. apply Hused in I2. exact (Hfresh _ _ H1 H2 Hs c I1 I2).
Qed.

(* ---------------------------------------------------------------- Clone() on cells *)

Lemma deep_S n : deep (S n) = false :: deep n.
Proof. reflexivity. Qed.

Lemma clone_cells_deep orig : forall base, clone_cells (deep (List.length orig)) orig base = seq base (List.length orig).
Proof.
  induction orig as [|o os IH]; intro base; [reflexivity|].
  change (List.length (o :: os)) with (S (List.length os)). rewrite deep_S. cbn [clone_cells seq]. rewrite IH. reflexivity.
Qed.

Lemma table_deep orig n0 t : table_of (deep (List.length orig)) orig n0 t = seq (n0 + t * List.length orig) (List.length orig).
Proof. unfold table_of. apply clone_cells_deep. Qed.

Lemma deep_table_fresh orig n0 k : fresh_table (table_of (deep (List.length orig)) orig n0) k.
Proof.
  intros t1 t2 _ _ Hne c I1 I2. rewrite table_deep in I1, I2.
  apply in_seq in I1. apply in_seq in I2.
  destruct (Nat.lt_total t1 t2) as [L|[E|L]]; [|contradiction|]; nia.
Qed.

Lemma deep_table_off_original orig n0 t :
  (forall c, In c orig -> c < n0) -> forall c, In c (table_of (deep (List.length orig)) orig n0 t) -> ~ In c orig.
Proof.
  intros Hold c I Io. rewrite table_deep in I. apply in_seq in I. specialize (Hold c Io). lia.
Qed.

Lemma shared_cell_in : forall mask orig base i,
  nth i mask false = true -> i < List.length orig -> In (nth i orig 0) (clone_cells mask orig base).
Proof.
  induction mask as [|m ms IH]; intros orig base i Hm Hi.
  - destruct i; discriminate.
  - destruct orig as [|o os]; [inversion Hi|]. destruct i as [|i].
    + simpl in Hm. subst m. cbn [nth clone_cells]. left. reflexivity.
    + simpl in Hm, Hi. cbn [nth clone_cells]. right. apply IH; [exact Hm|lia].
Qed.

(* a clone that is not deep at position i: every thread's clone holds the original's cell *)
Lemma shallow_table_shares mask orig n0 i :
  nth i mask false = true -> i < List.length orig ->
  forall t, In (nth i orig 0) (table_of mask orig n0 t).
Proof. intros Hm Hi t. unfold table_of. apply shared_cell_in; assumption. Qed.

Lemma shallow_table_not_fresh mask orig n0 i k :
  nth i mask false = true -> i < List.length orig -> 2 <= k -> ~ fresh_table (table_of mask orig n0) k.
Proof.
  intros Hm Hi Hk F.
  apply (F 0 1 ltac:(lia) ltac:(lia) ltac:(discriminate) (nth i orig 0)); apply shallow_table_shares; assumption.
Qed.

(* ... and two jobs on different threads whose evaluations use their whole footprint write the same cell *)
Lemma shallow_clone_conflict mask orig n0 i sigma nacc nout j1 j2 :
  nth i mask false = true -> i < List.length orig ->
  exists x, In x (job_footprint (table_of mask orig n0) sigma (fun _ l => l) nacc nout j1) /\
            In x (job_footprint (table_of mask orig n0) sigma (fun _ l => l) nacc nout j2).
Proof.
  intros Hm Hi. exists (LScr (nth i orig 0)). unfold job_footprint.
  split; apply in_or_app; right; apply in_or_app; right; apply in_map; apply shallow_table_shares; assumption.
Qed.

(* the two Clone() bodies of generic.Mixture over (t1, t2, t3) at addresses 10, 11, 12 *)
Lemma mixture_clone_deep_example : fresh_tableb (table_of [false; false; false] [10; 11; 12] 20) 8 = true.
Proof. vm_compute. reflexivity. Qed.
Lemma mixture_clone_struct_copy_example : fresh_tableb (table_of [true; true; true] [10; 11; 12] 20) 2 = false.
Proof. vm_compute. reflexivity. Qed.

(* ---------------------------------------------------------------- generated level *)

Lemma gen_scratch_fresh : scratch_ok gen_scratch gen_clone_fields = true.
Proof. vm_compute. reflexivity. Qed.

Lemma gen_scratch_followed : follows_generic_mixture gen_scratch = true.
Proof. vm_compute. reflexivity. Qed.

Lemma gen_expanded_ok : forallb gsite_ok (map (expand_site gen_scratch) gen_sites) = true.
Proof. vm_compute. reflexivity. Qed.

Lemma gen_expanded_nonempty : 1 <= expanded_writes gen_scratch gen_sites.
Proof. vm_compute. lia. Qed.

(* meaning: every field write behind an evaluation call of a job closure carries the closure's own thread
   id or the job index (or is job local) - so by accepted_write_separates two jobs on different threads
   write different instances, PROVIDED the instances (the per-thread clones) are different objects, which
   is gen_scratch_fresh *)
Lemma expanded_write_owned s a :
  In s gen_sites -> In a (flat_map (expand_call gen_scratch) (gs_acc s)) ->
  gacc_ok a = true /\ g_write a = true.
Proof.
  intros Hs Ha. split.
  - assert (H := gen_expanded_ok). rewrite forallb_forall in H.
    specialize (H (expand_site gen_scratch s) (in_map _ _ _ Hs)).
    unfold gsite_ok in H. rewrite forallb_forall in H. apply H. cbn [expand_site gs_acc].
    apply in_or_app. right. exact Ha.
  - apply in_flat_map in Ha. destruct Ha as [b [_ Hb]]. unfold expand_call in Hb.
    destruct (is_eval_call b); [|destruct Hb].
    apply in_flat_map in Hb. destruct Hb as [r [_ Hr]].
    destruct (String.eqb (sc_method r) (g_method b)); [|destruct Hr].
    apply in_map_iff in Hr. destruct Hr as [f [E _]]. subst a. reflexivity.
Qed.

(* the regression: struct copy in generic.Mixture.Clone - the decision rejects it *)
Lemma struct_copy_clone_rejected :
  scratch_ok [mkScratch "generic" "Mixture" "LogPdf" ["t1"; "t2"]]
             [mkCloneField "generic" "Mixture" "LogWeights" true "call"; mkCloneField "generic" "Mixture" "t1" false "copy";
              mkCloneField "generic" "Mixture" "t2" false "copy"; mkCloneField "generic" "Mixture" "t3" false "copy"] = false.
Proof. vm_compute. reflexivity. Qed.

(* an emission clone shared by all threads (d[j].LogPdf instead of d[tid][j].LogPdf): the expanded write is not owned *)
Lemma shared_emission_clone_rejected :
  gsite_ok (expand_site [mkScratch "generic" "Mixture" "LogPdf" ["t1"; "t2"]]
              (mkGSite "x" "AddRangeJob" [mkGAcc false "d" "d[*]" false [IAny] "LogPdf" HNone false])) = false.
Proof. vm_compute. reflexivity. Qed.

(* ---------------------------------------------------------------- the statements of Props.v *)

Lemma deep_clones_fresh_both :
  forall (orig : list scell) (n0 k : nat),
    fresh_table (table_of (deep (List.length orig)) orig n0) k /\
    ((forall c, In c orig -> c < n0) -> forall t c, In c (table_of (deep (List.length orig)) orig n0 t) -> ~ In c orig).
Proof. intros orig n0 k. split; [apply deep_table_fresh|intros H t; apply deep_table_off_original; exact H]. Qed.

Lemma shallow_clone_both :
  forall (mask : list bool) (orig : list scell) (n0 i : nat),
    nth i mask false = true -> i < List.length orig ->
    (forall k, 2 <= k -> ~ fresh_table (table_of mask orig n0) k) /\
    (forall sigma nacc nout j1 j2,
        exists x, In x (job_footprint (table_of mask orig n0) sigma (fun _ l => l) nacc nout j1) /\
                  In x (job_footprint (table_of mask orig n0) sigma (fun _ l => l) nacc nout j2)).
Proof.
  intros mask orig n0 i Hm Hi. split.
  - intros k Hk. exact (shallow_table_not_fresh mask orig n0 i k Hm Hi Hk).
  - intros sigma nacc nout j1 j2. exact (shallow_clone_conflict mask orig n0 i sigma nacc nout j1 j2 Hm Hi).
Qed.

Lemma expanded_write_separates :
  forall s a, In s gen_sites -> In a (flat_map (expand_call gen_scratch) (gs_acc s)) -> g_local a = false ->
  forall t1 t2 j1 j2 : nat, t1 <> t2 -> j1 <> j2 ->
    map (inst_idx t1 j1) (g_idx a) <> map (inst_idx t2 j2) (g_idx a).
Proof.
  intros s a Hs Ha Hl. destruct (expanded_write_owned s a Hs Ha) as [Hok Hw].
  exact (accepted_write_separates a Hok Hw Hl).
Qed.
