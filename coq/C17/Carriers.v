(* C17 — the commutative monoids the accumulators live in. *)
From Coq Require Import Reals Lra List QArith Qcanon.
From ADV Require Import C17.Model.
Import ListNotations.

(* likelihoods and moment sums: (R, +, 0) and (Qc, +, 0) *)
Lemma Rplus_monoid :
  (forall a b c : R, (a + b + c = a + (b + c))%R) /\ (forall a b : R, (a + b = b + a)%R) /\ (forall a : R, (0 + a = a)%R).
Proof. repeat split; intros; lra. Qed.

Lemma Qcplus_monoid :
  (forall a b c : Qc, (a + b + c = a + (b + c))%Qc) /\ (forall a b : Qc, (a + b = b + a)%Qc) /\ (forall a : Qc, (0 + a = a)%Qc).
Proof.
  repeat split; intros.
  - symmetry. apply Qcplus_assoc.
  - apply Qcplus_comm.
  - apply Qcplus_0_l.
Qed.

(* gamma / xi / pi / weights: log-domain values, None = -Inf (log 0), Some x = log-probability x.
   logadd x y = ln (exp x + exp y); Go: LogAdd returns the other operand when one is -Inf. *)
Definition lval := option R.
Definition logadd (a b : lval) : lval :=
  match a, b with
  | None, x => x
  | x, None => x
  | Some x, Some y => Some (ln (exp x + exp y))
  end.

Lemma logadd_assoc a b c : logadd (logadd a b) c = logadd a (logadd b c).
Proof.
  destruct a as [x|], b as [y|], c as [z|]; simpl; try reflexivity.
  f_equal. f_equal.
  assert (Hx := exp_pos x). assert (Hy := exp_pos y). assert (Hz := exp_pos z).
  rewrite !exp_ln by lra. lra.
Qed.

Lemma logadd_comm a b : logadd a b = logadd b a.
Proof. destruct a as [x|], b as [y|]; simpl; try reflexivity. f_equal. f_equal. lra. Qed.

Lemma logadd_e_l a : logadd None a = a.
Proof. reflexivity. Qed.

(* what the log-domain sum denotes: exp of the merged value = sum of the exp of the contributions *)
Definition lexp (a : lval) : R := match a with None => 0%R | Some x => exp x end.
Lemma lexp_logadd a b : lexp (logadd a b) = (lexp a + lexp b)%R.
Proof.
  destruct a as [x|], b as [y|]; simpl; try lra.
  assert (Hx := exp_pos x). assert (Hy := exp_pos y). rewrite exp_ln by lra. reflexivity.
Qed.
Lemma lexp_bigop cs : lexp (bigop lval logadd None cs) = fold_right Rplus 0%R (map lexp cs).
Proof.
  unfold bigop. assert (G : forall a, lexp (fold_left logadd cs a) = (lexp a + fold_right Rplus 0 (map lexp cs))%R).
  { induction cs as [|c cs IH]; intro a; simpl; [lra|]. rewrite IH, lexp_logadd. lra. }
  rewrite G. simpl. lra.
Qed.

(* cells written by exactly one job *)
Lemma cell_op_assoc {V} (a b c : cellv V) : cell_op (cell_op a b) c = cell_op a (cell_op b c).
Proof. destruct a, b, c; reflexivity. Qed.
Lemma cell_op_comm {V} (a b : cellv V) : cell_op a b = cell_op b a.
Proof. destruct a, b; reflexivity. Qed.
Lemma cell_op_e_l {V} (a : cellv V) : cell_op NegInf a = a.
Proof. reflexivity. Qed.

(* products of monoids: several accumulators updated by the same job (pi, tr, gamma, likelihood) *)
Section Prod.
  Variables (A B : Type) (opA : A -> A -> A) (opB : B -> B -> B) (eA : A) (eB : B).
  Definition op_prod (x y : A * B) : A * B := (opA (fst x) (fst y), opB (snd x) (snd y)).
  Hypothesis HA : (forall a b c, opA (opA a b) c = opA a (opA b c)) /\ (forall a b, opA a b = opA b a) /\ (forall a, opA eA a = a).
  Hypothesis HB : (forall a b c, opB (opB a b) c = opB a (opB b c)) /\ (forall a b, opB a b = opB b a) /\ (forall a, opB eB a = a).
  Lemma prod_monoid :
    (forall a b c, op_prod (op_prod a b) c = op_prod a (op_prod b c)) /\
    (forall a b, op_prod a b = op_prod b a) /\ (forall a, op_prod (eA, eB) a = a).
  Proof.
    destruct HA as [A1 [A2 A3]], HB as [B1 [B2 B3]]. unfold op_prod. repeat split; intros; simpl.
    - now rewrite A1, B1.
    - now rewrite A2, B2.
    - destruct a. now rewrite A3, B3.
  Qed.
End Prod.
