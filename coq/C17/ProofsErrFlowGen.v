(* C17, round 5 — the error-flow obligations decided on the inventory GENERATED from the Go source
   (ErrFlow_gen.v, rewritten by go2coq_c17 -errflow on every run). *)
From Coq Require Import List Bool String.
From ADV Require Import C17.ModelErrFlow C17.ProofsErrFlow C17.ErrFlow_gen.
Import ListNotations.

(* every error-carrying call on the pool's error paths returns its error, or cannot fail, or is one of
   the losses of the unchanged tree listed (and demonstrated) as known findings *)
Lemma gen_errscopes_ok : forallb escope_ok gen_errscopes = true.
Proof. vm_compute. reflexivity. Qed.

Lemma gen_errflow_coverage : errflow_coverage gen_errscopes = true.
Proof. vm_compute. reflexivity. Qed.

Lemma gen_known_present : forallb (known_present gen_errscopes) known_losses = true.
Proof. vm_compute. reflexivity. Qed.

(* the pool call sites whose results are all propagated *)
Definition clean_pool_scopes : list escope :=
  filter (fun s => has_pool_op s && forallb propagated (es_ops s)) gen_errscopes.

Lemma gen_clean_pool_scopes_many : Nat.leb 40 (List.length clean_pool_scopes) = true.
Proof. vm_compute. reflexivity. Qed.

(* so for each of them: whatever fails at run time, the scope reports it, on every pool and schedule *)
Lemma gen_clean_scope_exact s :
  forallb propagated (es_ops s) = true ->
  forall fs one polls, closed (instantiate_scope s fs) false = true ->
    flow one polls (instantiate_scope s fs) false = some_failure (instantiate_scope s fs).
Proof. intros H fs one polls Hc. exact (returned_scope_exact s fs one polls H Hc). Qed.

Lemma clean_pool_scopes_are_clean :
  forallb (fun s => forallb propagated (es_ops s)) clean_pool_scopes = true.
Proof. vm_compute. reflexivity. Qed.
