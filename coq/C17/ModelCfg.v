(* C17 (round 2) — generic.Hmm.BaumWelchStep and generic.Mixture.EmStep per CONFIGURATION of the
   optional accumulators.

   BaumWelchAlgorithm / EmAlgorithm allocate, for every thread alike,
       tmp[t].pi, tmp[t].likelihood                     always            (accumulators 1 and 4)
       tmp[t].tr (+xi)      iff OptimizeTransitions     / tmp[t].logWeights iff OptimizeWeights   (accumulator 2, "F")
       tmp[t].gamma         iff OptimizeEmissions                                                 (accumulator 3, "I")
   and the step tests `x != nil` where it uses them.  Here the configuration record says which
   exist (a nil test in Go = a test of the configuration), the thread record always carries four
   values (those of absent accumulators are never looked at by the result).

   As coded at /repo HEAD:
     job (baumWelchThread / the EmStep closure), on tmp[p.GetThreadId()]:
        if init == false { pi := e; tr.Map(..) ; gamma[c].Map(..) for c < len(gamma); likelihood := 0; init := true }
              - Baum-Welch: tr is a *DenseFloat64Matrix, tr.Map on the nil pointer dereferences it: PANIC
                when the configuration has no tr (nilF_panics);  EM: logWeights is a slice, nil.Map is a no-op
        pi (+)= c1;  if gamma != nil { gamma (+)= c3 };  if xi != nil / logWeights != nil { F (+)= c2 };  likelihood += c4
     merge after Wait:
        hmm1.Pi := fold over ALL threads with init                                   (fresh, always)
        if tmp[0].tr != nil / tmp[0].logWeights != nil { hmm1.Tr / mixture1.LogWeights := fold over ALL threads with init }
        if tmp[0].init == false { gamma[0] reset (no-op when nil); likelihood[0] := 0; init := true }
        for threadIdx >= 1 with init { for c < len(tmp[0].gamma) {gamma[0] (+)= gamma[t]};  likelihood[0] += likelihood[t] }
              - ONE loop body: the likelihood is merged whether or not gamma exists.
   No proofs in this file. *)
From Coq Require Import ZArith List Bool.
From ADV Require Import C17.Model.
Import ListNotations.

Record ocfg := mkOcfg {
  has_F : bool;         (* OptimizeTransitions (Baum-Welch) / OptimizeWeights (EM) *)
  has_I : bool;         (* OptimizeEmissions *)
  nilF_panics : bool    (* true: Baum-Welch (nil *DenseFloat64Matrix), false: EM (nil slice) *)
}.

Definition bw_cfg (optimizeEmissions optimizeTransitions : bool) : ocfg := mkOcfg optimizeTransitions optimizeEmissions true.
Definition em_cfg (optimizeEmissions optimizeWeights : bool) : ocfg := mkOcfg optimizeWeights optimizeEmissions false.

Section OptStep.
  Variables A1 A2 A3 A4 : Type.
  Variable op1 : A1 -> A1 -> A1.  Variable e1 : A1.
  Variable op2 : A2 -> A2 -> A2.  Variable e2 : A2.
  Variable op3 : A3 -> A3 -> A3.  Variable e3 : A3.
  Variable op4 : A4 -> A4 -> A4.  Variable e4 : A4.

  Record othr := mkO { o_init : bool; o_1 : A1; o_2 : A2; o_3 : A3; o_4 : A4 }.
  Record contrib := mkC { c_1 : A1; c_2 : A2; c_3 : A3; c_4 : A4 }.
  Record ores := mkR { r_1 : A1; r_2 : option A2; r_3 : option A3; r_4 : A4 }.

  (* the first job of a thread in a configuration without tr: nil pointer dereference *)
  Definition opanics (c : ocfg) (t : othr) : bool := negb (o_init t) && negb (has_F c) && nilF_panics c.

  Definition oreset (c : ocfg) (t : othr) : othr :=
    if o_init t then t
    else mkO true e1 (if has_F c then e2 else o_2 t) (if has_I c then e3 else o_3 t) e4.

  Definition ojobT (c : ocfg) (x : contrib) (t : othr) : othr :=
    let t := oreset c t in
    mkO true (op1 (o_1 t) (c_1 x))
             (if has_F c then op2 (o_2 t) (c_2 x) else o_2 t)
             (if has_I c then op3 (o_3 t) (c_3 x) else o_3 t)
             (op4 (o_4 t) (c_4 x)).

  Definition ojob (c : ocfg) (x : contrib) (t : othr) : option othr :=
    if opanics c t then None else Some (ojobT c x t).

  (* tmp[id] : None = index out of range or the job panicked *)
  Fixpoint oupd (i : nat) (f : othr -> option othr) (p : list othr) : option (list othr) :=
    match p, i with
    | [], _ => None
    | t :: r, O => match f t with Some t' => Some (t' :: r) | None => None end
    | t :: r, S i' => match oupd i' f r with Some r' => Some (t :: r') | None => None end
    end.

  Definition oevent := (nat * contrib)%type.

  Fixpoint orun (c : ocfg) (tr : list oevent) (p : list othr) : option (list othr) :=
    match tr with
    | [] => Some p
    | (i, x) :: r => match oupd i (ojob c x) p with Some p' => orun c r p' | None => None end
    end.

  Definition oskip {A} (op : A -> A -> A) (v : othr -> A) (r : A) (t : othr) : A :=
    if o_init t then op r (v t) else r.

  Definition omerge (c : ocfg) (p : list othr) : option ores :=
    match p with
    | [] => None                                         (* tmp[0] panics *)
    | t0 :: rest =>
      let r1 := fold_left (oskip op1 o_1) p e1 in
      let r2 := if has_F c then Some (fold_left (oskip op2 o_2) p e2) else None in
      let g0 := if o_init t0 then o_3 t0 else e3 in
      let l0 := if o_init t0 then o_4 t0 else e4 in
      let r3 := if has_I c then Some (fold_left (oskip op3 o_3) rest g0) else None in
      let r4 := fold_left (oskip op4 o_4) rest l0 in
      Some (mkR r1 r2 r3 r4)
    end.

  (* "tell every thread that it needs to reset all variables" *)
  Definition oclear (p : list othr) : list othr := map (fun t => mkO false (o_1 t) (o_2 t) (o_3 t) (o_4 t)) p.

  (* the whole step; stale = what an earlier step left in tmp (arbitrary) *)
  Definition ostep (c : ocfg) (stale : list othr) (tr : list oevent) : option ores :=
    match orun c tr (oclear stale) with Some p => omerge c p | None => None end.

  (* a regression of the kind "the loop that merges gamma AND the likelihood is wrapped in
     `if tmp[0].gamma != nil`": the likelihood of the worker threads is dropped when gamma is nil *)
  Definition omerge_guarded (c : ocfg) (p : list othr) : option ores :=
    match p with
    | [] => None
    | t0 :: rest =>
      let r1 := fold_left (oskip op1 o_1) p e1 in
      let r2 := if has_F c then Some (fold_left (oskip op2 o_2) p e2) else None in
      let g0 := if o_init t0 then o_3 t0 else e3 in
      let l0 := if o_init t0 then o_4 t0 else e4 in
      let r3 := if has_I c then Some (fold_left (oskip op3 o_3) rest g0) else None in
      let r4 := if has_I c then fold_left (oskip op4 o_4) rest l0 else l0 in
      Some (mkR r1 r2 r3 r4)
    end.
  Definition ostep_guarded (c : ocfg) (stale : list othr) (tr : list oevent) : option ores :=
    match orun c tr (oclear stale) with Some p => omerge_guarded c p | None => None end.
End OptStep.

Arguments mkO {A1 A2 A3 A4}. Arguments mkC {A1 A2 A3 A4}. Arguments mkR {A1 A2 A3 A4}.
Arguments o_init {A1 A2 A3 A4}. Arguments o_1 {A1 A2 A3 A4}. Arguments o_2 {A1 A2 A3 A4}.
Arguments o_3 {A1 A2 A3 A4}. Arguments o_4 {A1 A2 A3 A4}.
Arguments c_1 {A1 A2 A3 A4}. Arguments c_2 {A1 A2 A3 A4}. Arguments c_3 {A1 A2 A3 A4}. Arguments c_4 {A1 A2 A3 A4}.
Arguments r_1 {A1 A2 A3 A4}. Arguments r_2 {A1 A2 A3 A4}. Arguments r_3 {A1 A2 A3 A4}. Arguments r_4 {A1 A2 A3 A4}.

(* scalarEstimator.NumericEstimator.Estimate objective: r[id] += t (r zeroed per evaluation),
   then `for i := 1; i < r.Dim(); i++ { r[0] += r[i] }`: Model.step_eager_into0. *)

(* pointwise monoids: gamma[c][l] tables, probability vectors *)
Fixpoint zipop {A} (op : A -> A -> A) (a b : list A) : list A :=
  match a, b with
  | x :: a', y :: b' => op x y :: zipop op a' b'
  | _, _ => []
  end.

(* /repo HEAD after fix 25c790a: baumWelchThread resets tr only `if tr != nil`, so the configuration without
   transitions no longer dereferences the nil accumulator (bw_cfg above is the code before that fix, kept for the
   refutation theorem and selected by the harness probe when the panic is observed) *)
Definition bw_cfg_head (optimizeEmissions optimizeTransitions : bool) : ocfg := mkOcfg optimizeTransitions optimizeEmissions false.
