(* C17 correspondence: per configuration (site, pool size, schedule, per-job contributions
   obtained from sequential single-job runs of the Go code) the model recomputes the merge and
   every observable the Go step returned is compared with it.
     + accumulators  : exact rationals; Go must be EQUAL when every partial sum is exactly
                        representable (decided here), else within (n)*2^-52*sum|c_j|
     one-writer cells: exact (cell_op)
     log-add results : decided in the tol_*.v shards by Coq-Interval (see Corr documentation in props/c17.py)
*)
From Coq Require Import ZArith List Bool QArith Floats.
From ADV Require Import Base.Corr C17.Model.
Import ListNotations.

(* ---------------- schedules *)
Definition elems (range : bool) (k n : Z) (ji : nat) : list nat :=
  if range then
    match chunks k 0 n with
    | Some chs => match nth_error chs ji with
                  | Some (a, b) => map Z.to_nat (zrange a b)
                  | None => []
                  end
    | None => []
    end
  else [ji].

Definition njobs (range : bool) (k n : Z) : nat :=
  if range then match chunks k 0 n with Some chs => length chs | None => 0 end else Z.to_nat n.

Definition count (j : nat) (l : list nat) : nat := length (filter (Nat.eqb j) l).

(* every job exactly once, thread ids inside the pool *)
Definition valid_sch (range : bool) (k n : Z) (sch : list (nat * nat)) : bool :=
  let nj := njobs range k n in
  Nat.eqb (length sch) nj &&
  forallb (fun j => Nat.eqb (count j (map snd sch)) 1) (seq 0 nj) &&
  forallb (fun tj => Z.of_nat (fst tj) <? k) sch.

Definition events_for {A} (range : bool) (k n : Z) (sch : list (nat * nat)) (c : nat -> A) : list (event A) :=
  flat_map (fun tj => map (fun i => (fst tj, c i)) (elems range k n (snd tj))) sch.

Definition model_step {A} (op : A -> A -> A) (e : A) (style : Z) (k : Z) (staleflag : bool) (stale : A)
           (ev : list (event A)) : option A :=
  let st := repeat (mkThr staleflag stale) (Z.to_nat k) in
  if style =? 0 then step_lazy_fresh A op e st ev
  else if style =? 1 then step_lazy_into0 A op e st ev
  else if style =? 2 then step_eager_fresh A op e (Z.to_nat k) ev
  else step_eager_into0 A op e (Z.to_nat k) ev.

(* ---------------- rationals *)
Definition Qabs' (q : Q) : Q := if Qle_bool 0%Q q then q else Qopp q.
Definition qsum (l : list Q) : Q := Qred (fold_left Qplus l 0%Q).
Definition qsumabs (l : list Q) : Q := Qred (fold_left Qplus (map Qabs' l) 0%Q).

(* all contributions are multiples of 1/D (D the largest denominator, a power of two in our
   inputs) and sum|c| * D < 2^53: then every partial sum in every order is a binary64 number,
   so floating-point addition is exact and associative on this input *)
Definition maxden (l : list Q) : positive := fold_left (fun d q => Pos.max d (Qden (Qred q))) l 1%positive.
Definition summable (l : list Q) : bool :=
  let D := maxden l in
  forallb (fun q => let r := Qred q in Z.eqb (Z.pos D mod Z.pos (Qden r)) 0%Z) l &&
  Qle_bool (qsumabs l * (Z.pos D # 1))%Q ((2 ^ 53 - 1) # 1)%Q &&
  Pos.leb D (2 ^ 1000)%positive.

Definition plus_ok (cs : list Q) (go : Q) : bool :=
  let S := qsum cs in
  if summable cs then Qeq_bool go S
  else Qle_bool (Qabs' (go - S)%Q) ((Z.of_nat (length cs) # 1) * qsumabs cs * (1 # (2 ^ 52)))%Q.

(* ---------------- cells *)
Definition cell_eqb (a b : cellv Q) : bool :=
  match a, b with
  | NegInf, NegInf => true
  | Val x, Val y => Qeq_bool x y
  | Clash, Clash => true
  | _, _ => false
  end.

(* ---------------- floats (scalar NormalEstimator.updateEstimate, bit exact) *)
Definition f2q (x : float) : option Q :=
  match Prim2SF x with
  | S754_zero _ => Some 0%Q
  | S754_finite s m e =>
    let v := if (0 <=? e)%Z then ((Z.pos m * 2 ^ e) # 1)%Q else (Z.pos m # (2 ^ Z.to_pos (- e)))%Q in
    Some (if s then Qopp v else v)
  | _ => None
  end.

Definition feqb (a b : float) : bool :=
  match Prim2SF a, Prim2SF b with
  | S754_nan, S754_nan => true
  | S754_zero s1, S754_zero s2 => Bool.eqb s1 s2
  | S754_infinity s1, S754_infinity s2 => Bool.eqb s1 s2
  | S754_finite s1 m1 e1, S754_finite s2 m2 e2 => Bool.eqb s1 s2 && Pos.eqb m1 m2 && Z.eqb e1 e2
  | _, _ => false
  end.

Definition fsum (l : list float) : float := fold_left PrimFloat.add l 0%float.

Definition opt_q (l : list float) : option (list Q) :=
  fold_right (fun x r => match f2q x, r with Some q, Some r' => Some (q :: r') | _, _ => None end) (Some []) l.

(* ---------------- checks *)
Inductive chk :=
| KPlus (style : Z) (cs : list Q) (go : Q)
| KCell (style : Z) (cs : list (cellv Q)) (go : cellv Q)
| KNear (a b tol : Q)
| KErr (polls : bool) (fails : list bool) (go : bool)
| KNormal (xs : list float) (gs : list float) (sigmaMin : float) (go_mu go_sigma : float)
| KChunks (iFrom iTo : Z) (go : list (Z * Z)).

Record case := mkCase {
  c_range : bool;            (* jobs queued by AddRangeJob(0,n) (true) or one AddJob per job (false) *)
  c_k : Z;                   (* pool size *)
  c_n : Z;                   (* number of elementary jobs *)
  c_staleflag : bool;
  c_stale : Q;               (* value every per-thread accumulator held before the step *)
  c_sch : list (nat * nat);  (* (thread, job) in execution order *)
  c_checks : list chk
}.

Definition pair_eqb (a b : Z * Z) : bool := Z.eqb (fst a) (fst b) && Z.eqb (snd a) (snd b).

Definition any_in (l : list nat) (fails : list bool) : bool := existsb (fun i => nth i fails false) l.

Definition check_one (c : case) (x : chk) : bool :=
  let range := c_range c in let k := c_k c in let n := c_n c in let sch := c_sch c in
  match x with
  | KPlus style cs go =>
    Z.eqb (Z.of_nat (length cs)) n &&
    match model_step Qplus 0%Q style k (c_staleflag c) (c_stale c)
                     (events_for range k n sch (fun i => nth i cs 0%Q)) with
    | Some r => Qeq_bool r (qsum cs) && plus_ok cs go
    | None => false
    end
  | KCell style cs go =>
    Z.eqb (Z.of_nat (length cs)) n &&
    match model_step cell_op NegInf style k (c_staleflag c) (Val (c_stale c))
                     (events_for range k n sch (fun i => nth i cs NegInf)) with
    | Some r => cell_eqb r (bigop _ cell_op NegInf cs) && cell_eqb go r
    | None => false
    end
  | KNear a b tol => Qle_bool (Qabs' (a - b)%Q) tol
  | KErr polls fails go =>
    let ev := map (fun tj => (fst tj, if any_in (elems range k n (snd tj)) fails then JErr else JOk 0%Z)) sch in
    match step_with_errors Z Z.add 0%Z polls (Z.to_nat k) (repeat (mkThr (c_staleflag c) 7%Z) (Z.to_nat k)) ev with
    | SErr => go
    | SOk _ => negb go
    | SPanic => false
    end
  | KNormal xs gs sigmaMin go_mu go_sigma =>
    let weighted := negb (Nat.eqb (length gs) 0) in
    let g i := if weighted then nth i gs 0%float else 1%float in
    let idx := seq 0 (length xs) in
    let cm := map (fun i => if weighted then PrimFloat.mul (g i) (nth i xs 0%float) else nth i xs 0%float) idx in
    let cs := map (fun i => let x := nth i xs 0%float in
                            if weighted then PrimFloat.mul (PrimFloat.mul (g i) x) x else PrimFloat.mul x x) idx in
    let cg := map g idx in
    Z.eqb (Z.of_nat (length xs)) n &&
    match opt_q cm, opt_q cs, opt_q cg with
    | Some qm, Some qs, Some qg =>
      let run q := model_step Qplus 0%Q 2 k true 0%Q (events_for range k n sch (fun i => nth i q 0%Q)) in
      match run qm, run qs, run qg, f2q (fsum cm), f2q (fsum cs), f2q (fsum cg) with
      | Some rm, Some rs, Some rg, Some fm, Some fs, Some fg =>
        summable qm && summable qs && summable qg &&
        Qeq_bool rm (qsum qm) && Qeq_bool rs (qsum qs) && Qeq_bool rg (qsum qg) &&
        Qeq_bool fm rm && Qeq_bool fs rs && Qeq_bool fg rg &&
        (let '(mu, sigma) := normal_update (fsum cm) (fsum cs) (fsum cg) sigmaMin in
         feqb mu go_mu && feqb sigma go_sigma)
      | _, _, _, _, _, _ => false
      end
    | _, _, _ => false
    end
  | KChunks iFrom iTo go =>
    match chunks k iFrom iTo with
    | Some l => list_eqb pair_eqb l go
    | None => false
    end
  end.

Definition check (c : case) : bool :=
  valid_sch (c_range c) (c_k c) (c_n c) (c_sch c) && forallb (check_one c) (c_checks c).

Definition mism (cs : list case) : list nat := mismatches check cs.
(* which checks of a case fail *)
Definition failing (c : case) : list nat :=
  (if valid_sch (c_range c) (c_k c) (c_n c) (c_sch c) then [] else [999%nat]) ++
  mismatches (check_one c) (c_checks c).
