(* C17 (round 6) — the decision of ModelAccum.gest_ok on the description generated from the Go source (Accum_gen.v). *)
From Coq Require Import List Bool String Arith.
From ADV Require Import C17.ModelAccum C17.Accum_gen C17.ProofsAccum.
Import ListNotations.

Lemma gen_estimators_ok : forallb gest_ok gen_estimators = true.
Proof. vm_compute. reflexivity. Qed.

Lemma gen_accum_coverage : accum_coverage gen_estimators = true.
Proof. vm_compute. reflexivity. Qed.

Lemma gen_accumulators_many : Nat.leb 19 (List.length (accumulators gen_estimators)) = true.
Proof. vm_compute. reflexivity. Qed.

Lemma gen_accumulator_ok e a : In e gen_estimators -> In a (e_acc e) -> is_accumulator a = true -> gaccum_ok a = true.
Proof.
  intros He Ha Hi. pose proof gen_estimators_ok as H. rewrite forallb_forall in H.
  specialize (H e He). unfold gest_ok in H. rewrite forallb_forall in H. specialize (H a Ha).
  rewrite Hi in H. exact H.
Qed.
