(* C17 — what "schedule independent, nothing lost, nothing counted twice" means. *)
From Coq Require Import ZArith List Bool Permutation.
From ADV Require Import C17.Model.
Import ListNotations.

Section Spec.
  Variable A : Type.
  Variable op : A -> A -> A.
  Variable e : A.

  Definition commutative_monoid : Prop :=
    (forall a b c, op (op a b) c = op a (op b c)) /\ (forall a b, op a b = op b a) /\ (forall a, op e a = a).

  Variable J : Type.          (* job identities: a record index, an observation index *)
  Variable c : J -> A.        (* contribution of a job (a function of the job and of shared read-only state) *)

  (* sch is a schedule of the job list on k threads: every job is executed exactly once
     (what the threadpool promises), by some thread in [0,k), in some global order.
     Threads that do not occur are the "never used" ones; k may exceed the number of jobs. *)
  Definition schedule_of (k : nat) (jobs : list J) (sch : list (nat * J)) : Prop :=
    Permutation (map snd sch) jobs /\ Forall (fun tj => (fst tj < k)%nat) sch.

  Definition events (sch : list (nat * J)) : list (event A) := map (fun tj => (fst tj, c (snd tj))) sch.

  (* the sequential run: pool of one thread, jobs in list order *)
  Definition sequential (jobs : list J) : list (nat * J) := map (fun j => (0%nat, j)) jobs.

  (* the value the property promises: the monoid sum of all contributions, each exactly once *)
  Definition sum_of (jobs : list J) : A := bigop A op e (map c jobs).
End Spec.

(* a schedule of a range job AddRangeJob(from, to) on k threads: the chunks the code queues,
   each executed exactly once by some thread, in some global order *)
Definition range_schedule_of (k : nat) (iFrom iTo : Z) (sch : list (nat * (Z * Z))) : Prop :=
  exists chs, chunks (Z.of_nat k) iFrom iTo = Some chs /\ Permutation (map snd sch) chs /\
              Forall (fun tc => (fst tc < k)%nat) sch.

(* write sets: who may touch a cell written from inside a job *)
Inductive owner :=
| ThreadOwned    (* reached only through tmp[p.GetThreadId()] / sum_x[id] / d[threadId] *)
| JobOwned       (* indexed by the job's own index: p[., i], Edist[c], estimators[c], Workers[i] *)
| JobLocal       (* allocated inside the job closure *)
| Shared.        (* anything else *)

(* a concrete cell at run time: which thread's / which job's instance of a named object *)
Inductive cell :=
| CThread (name : nat) (tid : nat)
| CJob (name : nat) (job : Z)
| CLocal (name : nat) (tid : nat) (job : Z)
| CShared (name : nat).

Definition instantiate (tid : nat) (job : Z) (a : nat * owner) : cell :=
  match snd a with
  | ThreadOwned => CThread (fst a) tid
  | JobOwned => CJob (fst a) job
  | JobLocal => CLocal (fst a) tid job
  | Shared => CShared (fst a)
  end.
