(* C17, round 5 — correspondence for the error flow: per case a failure injected into a real estimator
   (a component estimator / emission density / batch estimator that returns an error), the PATH of scopes
   the error has to travel (innermost first, named by file:function as in ErrFlow_gen.v), the pool
   (zero-value or real) and the error flag the Go entry point returned.  The model evaluates the path on
   the inventory generated from the source (dispositions as coded) and must predict the flag. *)
From Coq Require Import List Bool String.
From ADV Require Import Base.Corr C17.ModelErrFlow C17.ErrFlow_gen.
Import ListNotations.

Record ecase := mkECase {
  ec_one : bool;                     (* pool of one thread (zero-value pool) *)
  ec_fired : bool;                   (* the injected failure was reached at run time *)
  ec_path : list (via * string);
  ec_go_err : bool                   (* the Go entry point returned an error *)
}.

Definition echeck (c : ecase) : bool :=
  match eval_path gen_errscopes (ec_one c) true (ec_fired c) (ec_path c) with
  | Some b => Bool.eqb b (ec_go_err c)
  | None => false
  end.

Definition emism (l : list ecase) : list nat := mismatches echeck l.
