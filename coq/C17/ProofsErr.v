(* C17 — error propagation: a failing job makes the step fail, for every pool size and schedule. *)
From Coq Require Import ZArith List Bool Lia.
From ADV Require Import C17.Model C17.ProofsMerge.
Import ListNotations.

Section Err.
  Variable A : Type.
  Variable op : A -> A -> A.
  Variable e : A.

  Lemma seq_run_err js : forall t, In JErr js -> seq_run A op e js t = None.
  Proof.
    induction js as [|j js IH]; intros t H; [destruct H|].
    destruct j as [c|]; simpl; [|reflexivity].
    destruct H as [H|H]; [discriminate|]. now apply IH.
  Qed.

  Lemma par_run_err_sticky polls tr : forall p p' b,
    par_run A op e polls tr p true = Some (p', b) -> b = true.
  Proof.
    induction tr as [|[i j] tr IH]; intros p p' b H; simpl in H.
    - now inversion H.
    - destruct polls; simpl in H.
      + eapply IH; eauto.
      + destruct j as [c|]; [|eapply IH; eauto].
        destruct (upd A i (job_lazy A op e c) p) as [p1|]; [eapply IH; eauto|discriminate].
  Qed.

  Lemma par_run_err polls tr : forall p err p' b,
    (exists i, In (i, JErr) tr) ->
    par_run A op e polls tr p err = Some (p', b) -> b = true.
  Proof.
    induction tr as [|[i j] tr IH]; intros p err p' b [i0 Hin] H; [destruct Hin|].
    simpl in H. destruct (polls && err) eqn:PE.
    - apply andb_true_iff in PE. destruct PE as [_ E]. subst err. eapply par_run_err_sticky; eauto.
    - destruct j as [c|].
      + destruct Hin as [Hin|Hin]; [inversion Hin|].
        destruct (upd A i (job_lazy A op e c) p) as [p1|]; [|discriminate].
        eapply IH; eauto.
      + eapply par_run_err_sticky; eauto.
  Qed.

  (* theorem (3) *)
  Lemma step_error_propagates polls k stale tr :
    (exists i, In (i, JErr) tr) ->
    forall a, step_with_errors A op e polls k stale tr <> SOk a.
  Proof.
    intros [i Hin] a. unfold step_with_errors.
    destruct (Nat.eqb k 1).
    - destruct (clear_flags A stale) as [|t0 r]; [discriminate|].
      rewrite seq_run_err; [discriminate|].
      change JErr with (snd (i, @JErr A)). now apply in_map.
    - destruct (par_run A op e polls tr (clear_flags A stale) false) as [[p b]|] eqn:E; [|discriminate].
      rewrite (par_run_err _ _ _ _ _ _ (ex_intro _ i Hin) E). discriminate.
  Qed.

  (* with valid thread ids the step returns exactly the error (no panic) *)
  Lemma par_run_some polls tr : forall p err,
    Forall (fun ev => (fst ev < length p)%nat) tr ->
    exists p' b, par_run A op e polls tr p err = Some (p', b) /\ length p' = length p.
  Proof.
    induction tr as [|[i j] tr IH]; intros p err H; simpl.
    - eexists; eexists; split; reflexivity.
    - inversion H as [|x l Hx Hl]; subst. simpl in Hx.
      destruct (polls && err); [now apply IH|].
      destruct j as [c|]; [|now apply IH].
      destruct (ADV.C17.ProofsMerge.upd_some A i (job_lazy A op e c) p Hx) as [p1 E]. rewrite E.
      assert (L := ADV.C17.ProofsMerge.upd_length A i _ _ _ E).
      destruct (IH p1 err) as [p' [b [H1 H2]]]; [now rewrite L|].
      exists p', b. split; [exact H1|]. now rewrite H2.
  Qed.

  Lemma step_error_exact polls k stale tr :
    (1 <= length stale)%nat ->
    Forall (fun ev => (fst ev < length stale)%nat) tr ->
    (exists i, In (i, JErr) tr) ->
    step_with_errors A op e polls k stale tr = SErr.
  Proof.
    intros Hk Hv [i Hin]. unfold step_with_errors.
    destruct (Nat.eqb k 1).
    - destruct (clear_flags A stale) as [|t0 r] eqn:C.
      + assert (L : length (clear_flags A stale) = length stale) by (unfold clear_flags; apply map_length).
        rewrite C in L. simpl in L. lia.
      + rewrite seq_run_err; [reflexivity|].
        change JErr with (snd (i, @JErr A)). now apply in_map.
    - destruct (par_run_some polls tr (clear_flags A stale) false) as [p' [b [E _]]].
      { unfold clear_flags. now rewrite map_length. }
      rewrite E. now rewrite (par_run_err _ _ _ _ _ _ (ex_intro _ i Hin) E).
  Qed.
End Err.
