(* C08/ModelS.v — sparse containers under receiver aliasing.

   Nothing is forked: sparse vectors are ADV.C11.Model (heap of cells, private
   value map, ordered key set, AT = [at_] which INSERTS a missing entry), the
   sparse / dense vector and matrix operations are ADV.C03.Model / ModelM
   ([step3], [step4]: MdotV / VdotM / MdotM with their alias-rejection guards,
   the element-wise operations with the joint iterators).

   C03.ModelM states the guard of sparse MdotV / VdotM

       if r.AT(0) == b.ConstAt(0) { panic("result and argument must be different vectors") }

   as identity of the vector HANDLES (after performing AT(0)'s insertion).  Added
   here: the same guard at the level of CELLS, as the Go expression evaluates it —
   AT(0) first creates entry 0 of r when it is missing, then the two scalars are
   compared by pointer; b.ConstAt(0) is the stored scalar of b when b has an
   entry 0 and a fresh constant otherwise (never identical to a cell) — and the
   variant with the NON-inserting accessor AT_(0) (nil scalar when absent), which
   is the regression the check must see (ProofsSparse.guard_noins_misses).
   No proofs in this file. *)
From Coq Require Import ZArith List Bool.
From ADV Require Import C11.Model C03.Model C03.ModelM.
Import ListNotations.
Open Scope Z_scope.

(* r.AT(0) == b.ConstAt(0), r = sparse vector t, b = sparse vector u of the same world:
   None = AT(0) panicked (empty receiver); else the world after the insertion and the verdict *)
Definition guard_ins (w : world) (t u : nat) : option (world * bool) :=
  match at_ (hp w) (getv w t) 0 with
  | None => None
  | Some (h', v', l) =>
      let w' := seth (setv w t v') h' in
      Some (w', match lookup 0 (vals (getv w' u)) with Some l' => Nat.eqb l l' | None => false end)
  end.
(* r.AT_(0) == b.ConstAt(0): nothing is inserted; a nil scalar equals nothing *)
Definition guard_noins (w : world) (t u : nat) : bool :=
  match lookup 0 (vals (getv w t)), lookup 0 (vals (getv w u)) with
  | Some l, Some l' => Nat.eqb l l'
  | _, _ => false
  end.

(* what a caller can observe of one sparse vector through the public API: Dim and ConstAt(i) *)
Definition pub_vec (w : world) (u : nat) : Z * list Z := (dim (getv w u), abs_vec (hp w) (getv w u)).
(* ... of a whole world of vectors and matrices: every sparse vector, every dense vector, the
   headers of the sparse matrices (their values are vectors of the world), every dense matrix *)
Definition pub_world (w : w4) : list (Z * list Z) * list (list Z) * list (nat * Z * Z) * list (list Z * Z * Z) :=
  (map (pub_vec (sw (b3 w))) (seq 0 (length (vecs (sw (b3 w))))), dn (b3 w), sms w, dms w).

(* the stored pattern of a sparse vector: (key, stored value) in map order — NOT part of [pub_vec] *)
Definition stored (w : world) (u : nat) : list (Z * Z) := map (fun kv => (fst kv, hget (hp w) (snd kv))) (vals (getv w u)).
