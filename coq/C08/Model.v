(* C08/Model.v — the models property C08 is about.

   Scalars: nothing new — the shared register-file model ADV.C01.Model (receiver,
   operands and temporaries are register ids; the combinators are sequential
   in-place loops) already is an aliasing semantics; it is imported, not forked.

   Dense matrices: ADV.C10.Model (heap of storages + headers regenerated from
   /repo, [mMdotM] with the storageLocation() test as coded and both buffered
   schedules, [mEw] for the element-wise operations) is imported, not forked.

   Added here: dense vectors as slices (location, offset, length) of a storage,
   the element-wise vector operations (VaddV / VsubV / VmulV: one ascending loop,
   read a[i], b[i], write r[i]) and MdotV / VdotM with their alias rejection
   (pointer equality of the FIRST elements only) and their read-modify-write
   accumulation into r[i].  No proofs in this file. *)
From Coq Require Import ZArith List Bool.
From ADV Require Import C10.Gen C10.Model.
Import ListNotations.
Open Scope Z_scope.

Record vec := mkVec { v_loc : nat; v_off : Z; v_len : Z }.

Definition vAT (H : heap) (v : vec) (i : Z) : R Z :=
  if (i <? 0) || (i >=? v_len v) then RPanic else get (store_of H (v_loc v)) (v_off v + i).
Definition vSET (H : heap) (v : vec) (i x : Z) : R heap :=
  if (i <? 0) || (i >=? v_len v) then RPanic else
  s <- put (store_of H (v_loc v)) (v_off v + i) x ;; ROk (set_store H (v_loc v) s).

(* r.VaddV(a, b) etc.:  for i := 0; i < a.Dim(); i++ { r.AT(i).Add(a.ConstAt(i), b.ConstAt(i)) } *)
Definition vEw (f : Z) (H : heap) (r a b : vec) : R heap :=
  if negb ((v_len a =? v_len r) && (v_len b =? v_len r)) then RPanic else
  foldR (fun H i => x <- vAT H a i ;; y <- vAT H b i ;; vSET H r i (ew_fun f x y)) (zseq (v_len a)) H.

(* r.AT(0) == b.ConstAt(0): the two Float64 values hold the same pointer *)
Definition same_first (r b : vec) : bool := Nat.eqb (v_loc r) (v_loc b) && (v_off r =? v_off b).

Section Dense.
Variable real : bool.

(* r.MdotV(a, b): r[i] is reset and then accumulated in place; b[j] is read live *)
Definition vMdotV (H : heap) (r : vec) (a : mat) (b : vec) : R heap :=
  let '(n, m) := k_dims real a in
  if negb ((v_len r =? n) && (v_len b =? m)) then RPanic else
  if (n =? 0) || (m =? 0) then ROk H else
  if same_first r b then RPanic else
  foldR (fun H i =>
    H1 <- vSET H r i 0 ;;
    foldR (fun H j => x <- mAT real H a i j ;; y <- vAT H b j ;; cur <- vAT H r i ;; vSET H r i (cur + x * y))
          (zseq m) H1) (zseq n) H.
(* r.VdotM(a, b) *)
Definition vVdotM (H : heap) (r : vec) (a : vec) (b : mat) : R heap :=
  let '(n, m) := k_dims real b in
  if negb ((v_len r =? m) && (v_len a =? n)) then RPanic else
  if (n =? 0) || (m =? 0) then ROk H else
  if same_first r a then RPanic else
  foldR (fun H i =>
    H1 <- vSET H r i 0 ;;
    foldR (fun H j => y <- vAT H a j ;; x <- mAT real H b j i ;; cur <- vAT H r i ;; vSET H r i (cur + y * x))
          (zseq n) H1) (zseq m) H.
End Dense.

(* one call on shared storage *)
Inductive mcall :=
| CMdotM (real : bool) (r a b : mat)
| CEw (real : bool) (f : Z) (r a b : mat)
| CVEw (f : Z) (r a b : vec)
| CMdotV (r : vec) (a : mat) (b : vec)
| CVdotM (r : vec) (a : vec) (b : mat).

Definition run_call (H : heap) (c : mcall) : R heap :=
  match c with
  | CMdotM real r a b => mMdotM real H r a b
  | CEw real f r a b => mEw real f H r a b
  | CVEw f r a b => vEw f H r a b
  | CMdotV r a b => vMdotV false H r a b
  | CVdotM r a b => vVdotM false H r a b
  end.
