(* C08/ProofsVecPrefix.v (round 7) — dense MdotV / VdotM (and the concrete twins MDOTV / VDOTM, same
   control flow) whose receiver and vector operand START AT THE SAME CELL but need not have the
   same length: with a NON-SQUARE matrix the receiver is a proper PREFIX SLICE of the operand
   (rows < cols for MdotV) or the operand a prefix slice of the receiver.  The code's guard
   r.AT(0) == b.ConstAt(0) compares first cells only, so it covers all of them:

   * TOTAL statement, no hypothesis on the shapes: the call ends in Panic, or a dimension of the
     matrix is 0 and the heap is returned untouched;
   * the guard is NEEDED there: the same loops WITHOUT the guard ([vMdotV_ng] / [vVdotM_ng], proved to
     be what vMdotV / vVdotM run when the guard does not fire) give a wrong product on a prefix
     slice — r[0] is reset before b[0] (the same cell) is read. *)
From Coq Require Import ZArith List Bool Lia.
From ADV Require Import C10.Gen C10.Model C08.Model.
Import ListNotations.
Open Scope Z_scope.

(* r and b start at the same cell of the same backing array; the lengths are free *)
Definition same_start (r b : vec) : Prop := v_loc r = v_loc b /\ v_off r = v_off b.

Lemma same_start_first r b : same_start r b -> same_first r b = true.
Proof. intros [L O]. unfold same_first. rewrite L, O, Nat.eqb_refl, Z.eqb_refl. reflexivity. Qed.

Lemma k_dims_eq real a : k_dims real a = (d_rows a, d_cols a).
Proof. destruct real; reflexivity. Qed.

Lemma mdotv_same_start_total real H r a b : same_start r b ->
  vMdotV real H r a b = RPanic \/ (vMdotV real H r a b = ROk H /\ (d_rows a = 0 \/ d_cols a = 0)).
Proof.
  intros S. unfold vMdotV. rewrite k_dims_eq.
  destruct (negb ((v_len r =? d_rows a) && (v_len b =? d_cols a))); [left; reflexivity|].
  destruct ((d_rows a =? 0) || (d_cols a =? 0)) eqn:Ez.
  - right. split; [reflexivity|]. apply orb_true_iff in Ez. destruct Ez as [Ez|Ez]; apply Z.eqb_eq in Ez; auto.
  - rewrite (same_start_first _ _ S). left. reflexivity.
Qed.
Lemma vdotm_same_start_total real H r a b : same_start r a ->
  vVdotM real H r a b = RPanic \/ (vVdotM real H r a b = ROk H /\ (d_rows b = 0 \/ d_cols b = 0)).
Proof.
  intros S. unfold vVdotM. rewrite k_dims_eq.
  destruct (negb ((v_len r =? d_cols b) && (v_len a =? d_rows b))); [left; reflexivity|].
  destruct ((d_rows b =? 0) || (d_cols b =? 0)) eqn:Ez.
  - right. split; [reflexivity|]. apply orb_true_iff in Ez. destruct Ez as [Ez|Ez]; apply Z.eqb_eq in Ez; auto.
  - rewrite (same_start_first _ _ S). left. reflexivity.
Qed.

(* proper prefix slice, non-square matrix, shapes as the call requires: always the rejection *)
Lemma mdotv_prefix_rejected real H r a b : same_start r b -> v_len r < v_len b ->
  v_len r = d_rows a -> v_len b = d_cols a -> 0 < d_rows a ->
  d_rows a <> d_cols a /\ vMdotV real H r a b = RPanic.
Proof.
  intros S Lt Lr Lb Pr. split; [lia|].
  destruct (mdotv_same_start_total real H r a b S) as [P|[_ [Z0|Z0]]]; [exact P|lia|lia].
Qed.
Lemma vdotm_prefix_rejected real H r a b : same_start r a -> v_len r < v_len a ->
  v_len r = d_cols b -> v_len a = d_rows b -> 0 < d_cols b ->
  d_rows b <> d_cols b /\ vVdotM real H r a b = RPanic.
Proof.
  intros S Lt Lr La Pc. split; [lia|].
  destruct (vdotm_same_start_total real H r a b S) as [P|[_ [Z0|Z0]]]; [exact P|lia|lia].
Qed.
(* ... and the operand a proper prefix of the receiver *)
Lemma mdotv_operand_prefix_rejected real H r a b : same_start r b -> v_len b < v_len r ->
  v_len r = d_rows a -> v_len b = d_cols a -> 0 < d_cols a ->
  vMdotV real H r a b = RPanic.
Proof.
  intros S Lt Lr Lb Pc.
  destruct (mdotv_same_start_total real H r a b S) as [P|[_ [Z0|Z0]]]; [exact P|lia|lia].
Qed.
Lemma vdotm_operand_prefix_rejected real H r a b : same_start r a -> v_len a < v_len r ->
  v_len r = d_cols b -> v_len a = d_rows b -> 0 < d_rows b ->
  vVdotM real H r a b = RPanic.
Proof.
  intros S Lt Lr La Pr.
  destruct (vdotm_same_start_total real H r a b S) as [P|[_ [Z0|Z0]]]; [exact P|lia|lia].
Qed.

(* ---------------------------------------------------------------- the loops without the guard *)
Section NoGuard.
Variable real : bool.
Definition vMdotV_ng (H : heap) (r : vec) (a : mat) (b : vec) : R heap :=
  let '(n, m) := k_dims real a in
  if negb ((v_len r =? n) && (v_len b =? m)) then RPanic else
  if (n =? 0) || (m =? 0) then ROk H else
  foldR (fun H i =>
    H1 <- vSET H r i 0 ;;
    foldR (fun H j => x <- mAT real H a i j ;; y <- vAT H b j ;; cur <- vAT H r i ;; vSET H r i (cur + x * y))
          (zseq m) H1) (zseq n) H.
Definition vVdotM_ng (H : heap) (r : vec) (a : vec) (b : mat) : R heap :=
  let '(n, m) := k_dims real b in
  if negb ((v_len r =? m) && (v_len a =? n)) then RPanic else
  if (n =? 0) || (m =? 0) then ROk H else
  foldR (fun H i =>
    H1 <- vSET H r i 0 ;;
    foldR (fun H j => y <- vAT H a j ;; x <- mAT real H b j i ;; cur <- vAT H r i ;; vSET H r i (cur + y * x))
          (zseq n) H1) (zseq m) H.
End NoGuard.

(* the guard is the ONLY difference between the modelled call and the unguarded loop *)
Lemma mdotv_is_guard_then_loop real H r a b :
  vMdotV real H r a b =
  (if same_first r b && (v_len r =? d_rows a) && (v_len b =? d_cols a) && negb ((d_rows a =? 0) || (d_cols a =? 0))
   then RPanic else vMdotV_ng real H r a b).
Proof.
  unfold vMdotV, vMdotV_ng. rewrite k_dims_eq.
  destruct ((v_len r =? d_rows a) && (v_len b =? d_cols a)) eqn:Ed.
  - apply andb_true_iff in Ed. destruct Ed as [E1 E2]. rewrite E1, E2. cbn [negb].
    destruct ((d_rows a =? 0) || (d_cols a =? 0)); cbn [negb]; [rewrite !andb_false_r; reflexivity|].
    rewrite !andb_true_r. destruct (same_first r b); reflexivity.
  - cbn [negb]. destruct (same_first r b && (v_len r =? d_rows a) && (v_len b =? d_cols a) && negb ((d_rows a =? 0) || (d_cols a =? 0))); reflexivity.
Qed.
Lemma vdotm_is_guard_then_loop real H r a b :
  vVdotM real H r a b =
  (if same_first r a && (v_len r =? d_cols b) && (v_len a =? d_rows b) && negb ((d_rows b =? 0) || (d_cols b =? 0))
   then RPanic else vVdotM_ng real H r a b).
Proof.
  unfold vVdotM, vVdotM_ng. rewrite k_dims_eq.
  destruct ((v_len r =? d_cols b) && (v_len a =? d_rows b)) eqn:Ed.
  - apply andb_true_iff in Ed. destruct Ed as [E1 E2]. rewrite E1, E2. cbn [negb].
    destruct ((d_rows b =? 0) || (d_cols b =? 0)); cbn [negb]; [rewrite !andb_false_r; reflexivity|].
    rewrite !andb_true_r. destruct (same_first r a); reflexivity.
  - cbn [negb]. destruct (same_first r a && (v_len r =? d_cols b) && (v_len a =? d_rows b) && negb ((d_rows b =? 0) || (d_cols b =? 0))); reflexivity.
Qed.

(* a guard that ALSO asked for equal lengths (the weakened rejection) would run the loop on a prefix slice:
   a = [[1,1]] (1 x 2), v = [1;2], r = v[0:1], b = v[0:2]:  r[0] is reset to 0 before b[0] — the same cell —
   is read: the loop leaves 0 + 1*0 + 1*2 = 2, the product is 1*1 + 1*2 = 3 *)
Lemma mdotv_guard_needed_on_prefix :
  let H := [[1; 1]; [1; 2]] in
  let a := new_mat 0 1 2 in let r := mkVec 1 0 1 in let b := mkVec 1 0 2 in
  same_start r b /\ v_len r < v_len b /\ vMdotV false H r a b = RPanic /\
  vMdotV_ng false H r a b = ROk [[1; 1]; [2; 2]] /\ 1 * 1 + 1 * 2 = 3.
Proof. vm_compute. repeat split; intros; discriminate. Qed.
(* the operand a prefix of the receiver: a = [[1],[1]] (2 x 1), v = [1;5], r = v[0:2], b = v[0:1]:
   the loop leaves [0; 0], the product is [1; 1] *)
Lemma mdotv_guard_needed_on_operand_prefix :
  let H := [[1; 1]; [1; 5]] in
  let a := new_mat 0 2 1 in let r := mkVec 1 0 2 in let b := mkVec 1 0 1 in
  same_start r b /\ v_len b < v_len r /\ vMdotV false H r a b = RPanic /\
  vMdotV_ng false H r a b = ROk [[1; 1]; [0; 0]].
Proof. vm_compute. repeat split; intros; discriminate. Qed.
Lemma vdotm_guard_needed_on_prefix :
  let H := [[1; 1]; [1; 2]] in
  let b := new_mat 0 2 1 in let r := mkVec 1 0 1 in let a := mkVec 1 0 2 in
  same_start r a /\ v_len r < v_len a /\ vVdotM false H r a b = RPanic /\
  vVdotM_ng false H r a b = ROk [[1; 1]; [2; 2]] /\ 1 * 1 + 2 * 1 = 3.
Proof. vm_compute. repeat split; intros; discriminate. Qed.
