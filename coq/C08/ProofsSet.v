(* C08/ProofsSet.v — Set / SET (copy loops), and Min / Max / Abs which are
   branches over Set / Neg / Reset: closed form and receiver independence, for an
   arbitrary carrier.  x.Set(x) is the identity up to one storage rounding, which
   a fresh receiver applies as well.  No side condition beyond the storage
   invariant [shape]: since HEAD d9fca78 Set calls Alloc BEFORE assigning Order,
   so a receiver of another Order (or N) is reallocated (F-SETORD retired). *)
From Coq Require Import ZArith List Bool Arith Lia.
From ADV Require Import Base.Fl C01.Model C08.Spec C08.ProofsList C08.ProofsComb C08.ProofsScalar.
Import ListNotations.
Local Arguments Nat.leb : simpl never.
Local Arguments Nat.eqb : simpl never.
Local Arguments Nat.ltb : simpl never.

Section SetOp.
Context {A : Type} (F : Fl A) (r32 : A -> A).
Notation StA := (@St A).
Notation gdA := (gd F).
Notation ghA := (gh F).
Notation hgetA := (hget F).
Notation z := (zero F).

(* what Set leaves in a receiver of kind k *)
Definition set_canon (k : kind) (rb : Reg A) : Reg A :=
  mkReg k (rndk r32 k (rval rb)) (rorder rb) (rn rb)
    (if 1 <=? rorder rb then map (fun i => rndk r32 k (gdA rb i)) (seq 0 (rn rb)) else [])
    (if 2 <=? rorder rb then map (fun i => map (fun j => rndk r32 k (ghA rb i j)) (seq 0 (rn rb))) (seq 0 (rn rb)) else []).

(* ---------------------------------------------------------------- the single-write Hessian copy loop *)
Definition cp_hstep (c : nat) (val : StA -> nat -> nat -> A) (s : StA) (p : nat * nat) : StA :=
  upd s c (set_h r32 (s c) (fst p) (snd p) (val s (fst p) (snd p))).

Lemma cp_hloop c val n (Hst : hstable F c val) : forall ps s,
  NoDup ps -> (forall i j, In (i, j) ps -> i < n /\ j < n) -> square n (rhess (s c)) ->
  let s' := fold_left (cp_hstep c val) ps s in
  hsim F c (fun k l => In (k, l) ps) s s' /\ square n (rhess (s' c)) /\
  forall k l, In (k, l) ps -> hgetA (rhess (s' c)) k l = rndk r32 (rk (s c)) (val s k l).
Proof.
  induction ps as [|[i j] ps IH]; intros s Hnd Hb Hsq; cbv zeta; cbn [fold_left].
  - split; [apply hsim_refl|]. split; [exact Hsq|]. intros k l [].
  - apply NoDup_cons_iff in Hnd. destruct Hnd as [Hnin Hnd'].
    destruct (Hb i j (or_introl eq_refl)) as [Hi Hj].
    set (s1 := cp_hstep c val s (i, j)).
    assert (Hc1 : s1 c = set_h r32 (s c) i j (val s i j)) by (unfold s1, cp_hstep; apply upd_same).
    assert (Hs1 : hsim F c (fun k l => (k, l) = (i, j)) s s1).
    { unfold hsim. rewrite Hc1. unfold set_h. cbn [rk rval rorder rn rderiv rhess].
      split; [intros q Hq; unfold s1, cp_hstep; apply upd_other; auto|].
      do 5 (split; [reflexivity|]). intros k l HP. apply hget_hset_other. congruence. }
    assert (Hsq1 : square n (rhess (s1 c))) by (rewrite Hc1; unfold set_h; cbn [rhess]; apply square_hset; exact Hsq).
    assert (Hv1 : hgetA (rhess (s1 c)) i j = rndk r32 (rk (s c)) (val s i j)).
    { rewrite Hc1. unfold set_h. cbn [rhess]. apply (hget_hset_same F n); auto. }
    assert (Hs1' := Hs1). destruct Hs1 as [Ho1 [Hk1 [Hval1 [Hor1 [Hn1 [Hd1 Hh1]]]]]].
    destruct (IH s1 Hnd') as [Hs' [Hsq' Hv']]; auto.
    { intros a b Hin. apply Hb. right; exact Hin. }
    set (s' := fold_left (cp_hstep c val) ps s1) in *.
    destruct Hs' as [Ho' [Hk' [Hval' [Hor' [Hn' [Hd' Hh']]]]]].
    split; [|split].
    + unfold hsim. split; [intros q Hq; rewrite Ho', Ho1; auto|].
      do 5 (split; [congruence|]).
      intros k l HP. rewrite Hh'.
      * apply Hh1. intro E. apply HP. left. congruence.
      * intro Hin. apply HP. right. exact Hin.
    + exact Hsq'.
    + intros k l [E|Hin].
      * inversion E; subst k l. rewrite Hh' by exact Hnin. exact Hv1.
      * rewrite Hv' by exact Hin. rewrite Hk1. f_equal.
        apply (Hst s s1 (fun k l => (k, l) = (i, j))); [exact Hs1'|].
        intro E. inversion E; subst. contradiction.
Qed.

Lemma NoDup_allpairs n : NoDup (allpairs n).
Proof.
  unfold allpairs.
  assert (G : forall l, NoDup l -> NoDup (flat_map (fun i : nat => map (pair i) (seq 0 n)) l)).
  { induction 1 as [|x l Hx Hl IH]; simpl; [constructor|].
    apply NoDup_app_intro; auto.
    - apply NoDup_map_pair, seq_NoDup.
    - intros [a b] Hin Hin2. apply in_map_iff in Hin. destruct Hin as [y [E _]]. inversion E; subst.
      apply in_flat_map in Hin2. destruct Hin2 as [k [Hk Hin2]].
      apply in_map_iff in Hin2. destruct Hin2 as [w [E2 _]]. inversion E2; subst. contradiction. }
  apply G, seq_NoDup.
Qed.

Lemma square_ge_of_square n (h : list (list A)) : square n h -> square_ge n h = true.
Proof.
  intros [Hl Hr]. unfold square_ge. rewrite Hl, Nat.leb_refl. simpl.
  apply forallb_forall. intros row Hin.
  rewrite <- Hl, firstn_all in Hin.
  apply (In_nth _ _ []) in Hin. destruct Hin as [i [Hi E]]. rewrite Hl in Hi.
  rewrite <- E, Hr by exact Hi. apply Nat.leb_refl.
Qed.

(* ---------------------------------------------------------------- Set, closed form *)
Theorem set_closed c b (s : StA) :
  shape (s c) ->
  exists s', set_reg F r32 c b s = Ok s' /\ (forall q, q <> c -> s' q = s q) /\ shape (s' c) /\
             norm (s' c) = set_canon (rk (s c)) (rd s b).
Proof.
  intros Hw. unfold set_reg.
  set (rb := rd s b). set (r0 := s c). set (k := rk r0).
  set (r1 := mkReg k (rndk r32 k (rval rb)) (rorder r0) (rn r0) (rderiv r0) (rhess r0)).
  set (r2 := alloc F r1 (rn rb) (rorder rb)).
  set (n := rn rb). set (o := rorder rb).
  assert (Hn2 : rn r2 = n) by apply alloc_n.
  assert (Ho2 : rorder r2 = o) by apply alloc_order.
  assert (Hk2 : rk r2 = k) by (unfold r2; rewrite (proj1 (alloc_kv F r1 _ _)); reflexivity).
  assert (Hv2 : rval r2 = rndk r32 k (rval rb)) by (unfold r2; rewrite (proj2 (alloc_kv F r1 _ _)); reflexivity).
  (* shape of r2, and what an aliased operand reads after the header update: Alloc (HEAD d9fca78: called with
     the receiver's OLD Order still in place) either changes nothing or hands out fresh zeroed storage *)
  assert (Hsh2 : shape r2 /\ (forall x, x = b -> b = Rg c -> forall i j, gdA r2 i = gdA r0 i /\ ghA r2 i j = ghA r0 i j)).
  { unfold r2, alloc. cbn [rn rorder r1].
    destruct (Nat.eqb_spec (rn r0) (rn rb)) as [En|En]; cbn [andb].
    - destruct (Nat.eqb_spec (rorder r0) (rorder rb)) as [Eo|Eo].
      + split; [exact Hw|]. intros; split; reflexivity.
      + split.
        * split; cbn [rorder rderiv rhess rn]; intro Hq.
          -- destruct (Nat.leb_spec 1 (rorder rb)); [|lia]. apply repeat_length.
          -- destruct (Nat.leb_spec 1 (rorder rb)); [|lia]. destruct (Nat.leb_spec 2 (rorder rb)); [|lia].
             apply (square_repeat F).
        * intros x _ Eb. exfalso. apply Eo. unfold rb, r0. rewrite Eb. reflexivity.
    - split.
      + split; cbn [rorder rderiv rhess rn]; intro Hq.
        * destruct (Nat.leb_spec 1 (rorder rb)); [|lia]. apply repeat_length.
        * destruct (Nat.leb_spec 1 (rorder rb)); [|lia]. destruct (Nat.leb_spec 2 (rorder rb)); [|lia].
          apply (square_repeat F).
      + intros x _ Eb. exfalso. apply En. unfold rb, r0. rewrite Eb. reflexivity. }
  destruct Hsh2 as [Hsh2 Hal].
  (* the operand as the copy loops see it *)
  set (s1 := upd s c r2).
  assert (Hrd1 : forall i j, gdA (rd s1 b) i = gdA rb i /\ ghA (rd s1 b) i j = ghA rb i j).
  { intros i j. destruct b as [q|v]; [|split; reflexivity]. cbn [rd]. unfold s1.
    destruct (Nat.eq_dec q c) as [E|E].
    - subst q. rewrite upd_same. unfold rb. cbn [rd]. fold r0. apply (Hal (Rg c)); reflexivity.
    - rewrite upd_other by exact E. split; reflexivity. }
  destruct (Nat.leb_spec 1 (rorder r2)) as [H1|H1].
  2:{ (* order 0 *)
    exists s1. split; [reflexivity|]. split; [intros q Hq; apply upd_other; exact Hq|].
    unfold s1. rewrite upd_same. split; [exact Hsh2|].
    unfold norm, set_canon. rewrite Hk2, Hv2, Ho2, Hn2. fold o n.
    destruct (Nat.leb_spec 1 o); [lia|]. destruct (Nat.leb_spec 2 o); [lia|]. reflexivity. }
  assert (Hlen : length (rderiv r2) = n) by (rewrite <- Hn2; apply Hsh2; exact H1).
  rewrite Hlen, Nat.leb_refl. cbn [negb].
  (* gradient copy loop *)
  set (gval := fun (t : StA) (i : nat) => gdA (rd t b) i).
  assert (Hgst : dstable F c gval).
  { intros t t1 P i Hs HP. unfold gval. apply (gd_dsim F c P t t1 b i Hs HP). }
  destruct (gen_gloop F r32 c gval n Hgst (seq 0 n) s1) as [Gs Gv].
  { apply seq_NoDup. } { intros i Hi. apply in_seq in Hi. lia. } { unfold s1. rewrite upd_same. exact Hlen. }
  change (fold_left (fun s i => upd s c (set_d r32 (s c) i (gdA (rd s b) i))) (seq 0 n) s1)
    with (fold_left (gen_gstep r32 c gval) (seq 0 n) s1).
  set (s2 := fold_left (gen_gstep r32 c gval) (seq 0 n) s1) in *.
  destruct Gs as [G1 [G2 [G3 [G4 [G5 [G6 [G7 G8]]]]]]].
  assert (Hc1 : s1 c = r2) by (unfold s1; apply upd_same).
  rewrite Hc1 in G2, G3, G4, G5, G6, G7, Gv.
  assert (Hoth2 : forall q, q <> c -> s2 q = s q).
  { intros q Hq. rewrite G1 by exact Hq. unfold s1. apply upd_other. exact Hq. }
  assert (Hd2 : forall i, i < n -> nth i (rderiv (s2 c)) z = rndk r32 k (gdA rb i)).
  { intros i Hi. rewrite Gv by (apply in_seq; lia). rewrite Hk2. unfold gval. rewrite (proj1 (Hrd1 i 0%nat)). reflexivity. }
  destruct (Nat.leb_spec 2 (rorder r2)) as [H2|H2].
  2:{ (* order 1 *)
    eexists. split; [reflexivity|]. split; [exact Hoth2|].
    assert (Sh : shape (s2 c)).
    { split; intro Hq; [rewrite G7, G5, Hn2; exact Hlen|rewrite G4 in Hq; lia]. }
    split; [exact Sh|].
    unfold norm, set_canon. rewrite G2, G3, G4, G5, Hk2, Hv2, Ho2, Hn2. fold o n.
    rewrite Ho2 in H1, H2.
    destruct (Nat.leb_spec 1 o); [|lia]. destruct (Nat.leb_spec 2 o); [lia|]. f_equal.
    apply (list_eq_map_nth _ z); [rewrite G7; exact Hlen|exact Hd2]. }
  (* order 2: Hessian copy loop *)
  assert (Hsq2 : square n (rhess r2)) by (rewrite <- Hn2; apply Hsh2; exact H2).
  rewrite (square_ge_of_square n _ Hsq2). cbn [negb].
  set (hval := fun (t : StA) (i j : nat) => ghA (rd t b) i j).
  assert (Hhst : hstable F c hval).
  { intros t t1 P i j Hs HP. unfold hval. apply (gh_hsim F c P t t1 b i j Hs HP). }
  destruct (cp_hloop c hval n Hhst (allpairs n) s2) as [Hs [Hsq Hv]].
  { apply NoDup_allpairs. } { intros i j Hin. apply in_allpairs in Hin. exact Hin. } { rewrite G6. exact Hsq2. }
  change (fold_left (fun s p => upd s c (set_h r32 (s c) (fst p) (snd p) (ghA (rd s b) (fst p) (snd p)))) (allpairs n) s2)
    with (fold_left (cp_hstep c hval) (allpairs n) s2).
  set (s3 := fold_left (cp_hstep c hval) (allpairs n) s2) in *.
  destruct Hs as [P1 [P2 [P3 [P4 [P5 [P6 P7]]]]]].
  eexists. split; [reflexivity|]. split; [intros q Hq; rewrite P1 by exact Hq; apply Hoth2; exact Hq|].
  assert (Sh : shape (s3 c)).
  { split; intro Hq.
    - rewrite P6, P5, G7, G5, Hn2. exact Hlen.
    - rewrite P5, G5, Hn2. exact Hsq. }
  split; [exact Sh|].
  unfold norm, set_canon. rewrite P2, P3, P4, P5, G2, G3, G4, G5, Hk2, Hv2, Ho2, Hn2. fold o n.
  rewrite Ho2 in H1, H2.
  destruct (Nat.leb_spec 1 o); [|lia]. destruct (Nat.leb_spec 2 o); [|lia]. f_equal.
  - rewrite P6. apply (list_eq_map_nth _ z); [rewrite G7; exact Hlen|exact Hd2].
  - destruct Hsq as [Sl Sr].
    apply (list_eq_map_nth _ []); [exact Sl|]. intros i Hi.
    apply (list_eq_map_nth _ z); [apply Sr; exact Hi|]. intros j Hj.
    change (nth j (nth i (rhess (s3 c)) []) z) with (hgetA (rhess (s3 c)) i j).
    rewrite Hv by (apply in_allpairs; split; assumption).
    rewrite G2, Hk2. unfold hval.
    (* the operand in s2: its Hessian is what it was in s1 (the gradient loop does not touch it) *)
    assert (E : ghA (rd s2 b) i j = ghA (rd s1 b) i j).
    { destruct b as [q|v]; [|reflexivity]. cbn [rd].
      destruct (Nat.eq_dec q c) as [Eq|Eq]; [subst q|rewrite G1 by exact Eq; reflexivity].
      unfold gh. rewrite G4, G6, Hc1. reflexivity. }
    rewrite E, (proj2 (Hrd1 i j)). reflexivity.
Qed.

Theorem set_indep c c' b (s : StA) :
  rk (s c) = rk (s c') -> shape (s c) -> shape (s c') ->
  agree c c' (set_reg F r32 c b s) (set_reg F r32 c' b s).
Proof.
  intros Hk Hc Hc'.
  destruct (set_closed c b s Hc) as [t [E [_ [_ N]]]].
  destruct (set_closed c' b s Hc') as [t' [E' [_ [_ N']]]].
  rewrite E, E'. unfold agree. rewrite N, N', Hk. reflexivity.
Qed.

(* Set never panics on a receiver satisfying the storage invariant (before HEAD d9fca78 a receiver with the
   operand's N and a LOWER Order ran into an index panic: retired finding F-SETORD) *)
Corollary set_total c b (s : StA) : shape (s c) -> exists s', set_reg F r32 c b s = Ok s'.
Proof. intro Hc. destruct (set_closed c b s Hc) as [t [E _]]. exists t. exact E. Qed.

(* ---------------------------------------------------------------- Min / Max / Abs *)
Theorem min_indep c c' a b (s : StA) :
  rk (s c) = rk (s c') -> shape (s c) -> shape (s c') ->
  agree c c' (do_min F r32 c a b s) (do_min F r32 c' a b s) /\
  agree c c' (do_max F r32 c a b s) (do_max F r32 c' a b s).
Proof.
  intros Hk Hc Hc'. unfold do_min, do_max. rewrite <- Hk.
  split.
  - destruct (fltb F _ _); apply set_indep; auto.
  - destruct (fltb F _ _); apply set_indep; auto.
Qed.

(* Abs away from 0 (at 0 the body is c.Reset(), which keeps the receiver's own Order and N:
   known finding F-C08-ABS0-ORDER) *)
Theorem abs_indep c c' a (s : StA) :
  rk (s c) = rk (s c') -> shape (s c) -> shape (s c') ->
  sign_of F (rval (rd s a)) <> 0%Z ->
  agree c c' (do_abs F r32 c a s) (do_abs F r32 c' a s).
Proof.
  intros Hk Hc Hc' Hs. unfold do_abs.
  destruct (Z.eqb_spec (sign_of F (rval (rd s a))) (-1)).
  - unfold do_mon. apply monadic_indep; auto.
  - destruct (Z.eqb_spec (sign_of F (rval (rd s a))) 0); [contradiction|]. apply set_indep; auto.
Qed.

(* the concrete twin ABS has the same body since HEAD 2fc8894 *)
Theorem ABS_concrete_is_abs c a (s : StA) : do_ABS_concrete F r32 c a s = do_abs F r32 c a s.
Proof. reflexivity. Qed.

Theorem abs_both_indep c c' a (s : StA) :
  rk (s c) = rk (s c') -> shape (s c) -> shape (s c') ->
  sign_of F (rval (rd s a)) <> 0%Z ->
  agree c c' (exec F r32 (IAbs c a) s) (exec F r32 (IAbs c' a) s) /\
  agree c c' (exec F r32 (IABSc c a) s) (exec F r32 (IABSc c' a) s).
Proof. intros. split; apply abs_indep; assumption. Qed.

End SetOp.
