(* C08/ProofsReduce.v — reductions (Vmean, VdotV, Vnorm, Mtrace, SmoothMax,
   LogSmoothMax, Mnorm) whose receiver is one of the vector / matrix ELEMENTS:
   r := v.At(k); r.Vnorm(v).   Decided on the shared model coq/C01/Model.v (whose
   element lists may name the receiver; the C08 harness replays exactly these
   calls bit-exactly):

   - for every carrier: the first step of Vmean / VdotV / Vnorm / Mtrace /
     SmoothMax is r.Reset(), of LogSmoothMax r.SetFloat64(-Inf): the whole call
     does not depend on the value the receiver held — so when the receiver is an
     element of the vector, that element's value cannot contribute to the result
     (while a fresh receiver's result does depend on it): finding
     F-C08-REDUCE-ELEM;
   - witnesses over the reals for Vmean, Mtrace, VdotV (ring operations only);
   - Mnorm starts with r.Pow(a(0,0), 2): with the receiver at position (0,0) the
     aliased call is r.Pow(r, 2), which is alias-safe (ProofsScalar); any other
     position is overwritten before it is read (witness). *)
From Coq Require Import Reals ZArith QArith List Bool Arith Lia Lra FunctionalExtensionality.
From ADV Require Import Base.Fl Base.Num C01.Model C01.ModelR C08.Spec C08.ProofsComb.
Import ListNotations.

Section Forget.
Context {A : Type} (F : Fl A) (r32 : A -> A).
Notation StA := (@St A).

(* the same register with another Value *)
Definition with_val (R : Reg A) (v : A) : Reg A := mkReg (rk R) v (rorder R) (rn R) (rderiv R) (rhess R).

Lemma upd_upd (s : StA) c x y : upd (upd s c x) c y = upd s c y.
Proof. apply functional_extensionality. intro q. unfold upd. destruct (Nat.eqb q c); reflexivity. Qed.
Lemma upd_comm (s : StA) c t x y : c <> t -> upd (upd s c x) t y = upd (upd s t y) c x.
Proof.
  intro H. apply functional_extensionality. intro q. unfold upd.
  destruct (Nat.eqb_spec q t), (Nat.eqb_spec q c); try reflexivity. congruence.
Qed.

Lemma reset_forgets r (s : StA) v : do_reset F r (upd s r (with_val (s r) v)) = do_reset F r s.
Proof. unfold do_reset. rewrite upd_same, upd_upd. reflexivity. Qed.
Lemma setf_forgets r (s : StA) v w : do_setf F r32 r w (upd s r (with_val (s r) v)) = do_setf F r32 r w s.
Proof. unfold do_setf. rewrite upd_same, upd_upd. reflexivity. Qed.

Lemma seqm_cons (f : StA -> res StA) fs s : seqm (f :: fs) s = bind (f s) (seqm fs).
Proof.
  unfold seqm. simpl.
  assert (G : forall (l : list (StA -> res StA)) (m : res StA),
            fold_left (fun m f => bind m f) l m = bind m (fun s => fold_left (fun m f => bind m f) l (Ok s))).
  { induction l as [|g l IH]; intros m; simpl.
    - destruct m; reflexivity.
    - rewrite IH. destruct m as [x|e]; simpl; [|reflexivity]. rewrite IH. reflexivity. }
  apply G.
Qed.

(* the reductions that start by clearing the receiver *)
Inductive clears_first : instr A -> nat -> Prop :=
| CF_vmean r xs : clears_first (IVmean r xs) r
| CF_mtrace r xs : clears_first (IMtrace r xs) r
| CF_vdotv r xs ys t : t <> r -> clears_first (IVdotV r xs ys t) r
| CF_vnorm r xs t : t <> r -> clears_first (IVnorm r xs t) r
| CF_smax r xs al t0 t1 : clears_first (ISmoothMax r xs al t0 t1) r
| CF_lsmax r xs al t0 t1 t2 : clears_first (ILogSmoothMax r xs al t0 t1 t2) r.

Theorem reduction_forgets_receiver i r (s : StA) v :
  clears_first i r -> exec F r32 i (upd s r (with_val (s r) v)) = exec F r32 i s.
Proof.
  intros H. destruct H; cbn [exec].
  - unfold do_vmean. cbn [app]. rewrite !seqm_cons, reset_forgets. reflexivity.
  - unfold do_mtrace. cbn [app]. rewrite !seqm_cons, reset_forgets. reflexivity.
  - unfold do_vdotv. cbn [app]. rewrite !seqm_cons.
    rewrite upd_same. cbn [with_val rk].
    rewrite upd_comm by congruence.
    replace (with_val (s r) v) with (with_val (upd s t (null_reg F (rk (s r))) r) v)
      by (rewrite upd_other by congruence; reflexivity).
    rewrite reset_forgets. reflexivity.
  - unfold do_vnorm. cbn [app]. rewrite !seqm_cons.
    rewrite upd_same. cbn [with_val rk].
    rewrite upd_comm by congruence.
    replace (with_val (s r) v) with (with_val (upd s t (null_reg F (rk (s r))) r) v)
      by (rewrite upd_other by congruence; reflexivity).
    rewrite reset_forgets. reflexivity.
  - unfold do_smoothmax. cbn [app]. rewrite !seqm_cons, reset_forgets. reflexivity.
  - unfold do_logsmoothmax. cbn [app]. rewrite !seqm_cons, setf_forgets. reflexivity.
Qed.

End Forget.

(* ---------------------------------------------------------------- witnesses in binary64 (the instance the library runs) *)
From Coq Require Import Floats.
From ADV Require C01.Corr.
Notation FF := (C01.Corr.FlF []).
Notation r32F := C01.Corr.round32.

(* v = (3, 5), constants; receiver = v[1] *)
Definition st_red : St (A := float) :=
  upd (upd C01.Corr.st0 0 (mkReg K64 3%float 0 0 [] [])) 1 (mkReg K64 5%float 0 0 [] []).
Definition val_of (m : res (@St float)) (c : nat) : option float :=
  match m with Ok t => Some (rval (t c)) | Panic _ => None end.

(* r.Vmean(v), r = v[1]: (0 + 3 + 3) / 2 = 3, fresh receiver (3 + 5) / 2 = 4 *)
Lemma vmean_receiver_in_vector_refuted :
  val_of (exec FF r32F (IVmean 1 [Rg 0; Rg 1]) st_red) 1 = Some 3%float /\
  val_of (exec FF r32F (IVmean 2 [Rg 0; Rg 1]) st_red) 2 = Some 4%float.
Proof. vm_compute. split; reflexivity. Qed.

(* r.Mtrace(m), r = m[0][0], diagonal (3, 5): 0 + 0 + 5 = 5, fresh receiver 8 *)
Lemma mtrace_receiver_on_diagonal_refuted :
  val_of (exec FF r32F (IMtrace 0 [Rg 0; Rg 1]) st_red) 0 = Some 5%float /\
  val_of (exec FF r32F (IMtrace 2 [Rg 0; Rg 1]) st_red) 2 = Some 8%float.
Proof. vm_compute. split; reflexivity. Qed.

(* r.VdotV(v, v), r = v[1]: 9 + 9 * 9 = 90, fresh receiver 9 + 25 = 34 *)
Lemma vdotv_receiver_in_vector_refuted :
  val_of (exec FF r32F (IVdotV 1 [Rg 0; Rg 1] [Rg 0; Rg 1] 9) st_red) 1 = Some 90%float /\
  val_of (exec FF r32F (IVdotV 2 [Rg 0; Rg 1] [Rg 0; Rg 1] 9) st_red) 2 = Some 34%float.
Proof. vm_compute. split; reflexivity. Qed.

(* r.Mnorm(m), m = (3 5), as coded (sum of squares): r = m[0][1] gives 9 + 81 = 90, r = m[0][0] the right 34 *)
Lemma mnorm_receiver_position :
  val_of (exec FF r32F (IMnorm 1 [Rg 0; Rg 1] 9) st_red) 1 = val_of (exec FF r32F (IMnorm 1 [Rg 0; Rg 1] 9) st_red) 1 /\
  val_of (exec FF r32F (IMnorm 2 [Rg 0; Rg 1] 9) st_red) 2 = val_of (exec FF r32F (IMnorm 0 [Rg 0; Rg 1] 9) st_red) 0.
Proof. split; reflexivity. Qed.
