(* C08/ProofsReduce.v — reductions (Vmean, VdotV, Vnorm, Mtrace, SmoothMax,
   LogSmoothMax, Mnorm) whose receiver is one of the vector / matrix ELEMENTS:
   r := v.At(k); r.Vnorm(v).   Decided on the shared model coq/C01/Model.v (whose
   element lists may name the receiver; the C08 harness replays exactly these
   calls bit-exactly):

   - for every carrier: the first step of Vmean / VdotV / Vnorm / Mtrace /
     SmoothMax is r.Reset(), of LogSmoothMax r.SetFloat64(-Inf): the whole call
     does not depend on the value the receiver held — so when the receiver is an
     element of the vector, that element's value cannot contribute to the result
     (while a fresh receiver's result does depend on it): finding
     F-C08-REDUCE-ELEM;
   - witnesses over the reals for Vmean, Mtrace, VdotV (ring operations only);
   - Mnorm starts with r.Pow(a(0,0), 2): with the receiver at position (0,0) the
     aliased call is r.Pow(r, 2), which is alias-safe (ProofsScalar); any other
     position is overwritten before it is read (witness). *)
From Coq Require Import Reals ZArith QArith List Bool Arith Lia Lra FunctionalExtensionality.
From ADV Require Import Base.Fl Base.Num C01.Model C01.ModelR C08.Spec C08.ProofsComb.
Import ListNotations.

Section Forget.
Context {A : Type} (F : Fl A) (r32 : A -> A).
Notation StA := (@St A).

(* the same register with another Value *)
Definition with_val (R : Reg A) (v : A) : Reg A := mkReg (rk R) v (rorder R) (rn R) (rderiv R) (rhess R).

Lemma upd_upd (s : StA) c x y : upd (upd s c x) c y = upd s c y.
Proof. apply functional_extensionality. intro q. unfold upd. destruct (Nat.eqb q c); reflexivity. Qed.
Lemma upd_comm (s : StA) c t x y : c <> t -> upd (upd s c x) t y = upd (upd s t y) c x.
Proof.
  intro H. apply functional_extensionality. intro q. unfold upd.
  destruct (Nat.eqb_spec q t), (Nat.eqb_spec q c); try reflexivity. congruence.
Qed.

Lemma reset_forgets r (s : StA) v : do_reset F r (upd s r (with_val (s r) v)) = do_reset F r s.
Proof. unfold do_reset. rewrite upd_same, upd_upd. reflexivity. Qed.
Lemma setf_forgets r (s : StA) v w : do_setf F r32 r w (upd s r (with_val (s r) v)) = do_setf F r32 r w s.
Proof. unfold do_setf. rewrite upd_same, upd_upd. reflexivity. Qed.

Lemma seqm_cons (f : StA -> res StA) fs s : seqm (f :: fs) s = bind (f s) (seqm fs).
Proof.
  unfold seqm. simpl.
  assert (G : forall (l : list (StA -> res StA)) (m : res StA),
            fold_left (fun m f => bind m f) l m = bind m (fun s => fold_left (fun m f => bind m f) l (Ok s))).
  { induction l as [|g l IH]; intros m; simpl.
    - destruct m; reflexivity.
    - rewrite IH. destruct m as [x|e]; simpl; [|reflexivity]. rewrite IH. reflexivity. }
  apply G.
Qed.

(* the reductions that start by clearing the receiver *)
Inductive clears_first : instr A -> nat -> Prop :=
| CF_vmean r xs : clears_first (IVmean r xs) r
| CF_mtrace r xs : clears_first (IMtrace r xs) r
| CF_vdotv r xs ys t : t <> r -> clears_first (IVdotV r xs ys t) r
| CF_vnorm r xs t : t <> r -> clears_first (IVnorm r xs t) r
| CF_smax r xs al t0 t1 : clears_first (ISmoothMax r xs al t0 t1) r
| CF_lsmax r xs al t0 t1 t2 : clears_first (ILogSmoothMax r xs al t0 t1 t2) r.

Theorem reduction_forgets_receiver i r (s : StA) v :
  clears_first i r -> exec F r32 i (upd s r (with_val (s r) v)) = exec F r32 i s.
Proof.
  intros H. destruct H; cbn [exec].
  - unfold do_vmean. cbn [app]. rewrite !seqm_cons, reset_forgets. reflexivity.
  - unfold do_mtrace. cbn [app]. rewrite !seqm_cons, reset_forgets. reflexivity.
  - unfold do_vdotv. cbn [app]. rewrite !seqm_cons.
    rewrite upd_same. cbn [with_val rk].
    rewrite upd_comm by congruence.
    replace (with_val (s r) v) with (with_val (upd s t (null_reg F (rk (s r))) r) v)
      by (rewrite upd_other by congruence; reflexivity).
    rewrite reset_forgets. reflexivity.
  - unfold do_vnorm. cbn [app]. rewrite !seqm_cons.
    rewrite upd_same. cbn [with_val rk].
    rewrite upd_comm by congruence.
    replace (with_val (s r) v) with (with_val (upd s t (null_reg F (rk (s r))) r) v)
      by (rewrite upd_other by congruence; reflexivity).
    rewrite reset_forgets. reflexivity.
  - unfold do_smoothmax. cbn [app]. rewrite !seqm_cons, reset_forgets. reflexivity.
  - unfold do_logsmoothmax. cbn [app]. rewrite !seqm_cons, setf_forgets. reflexivity.
Qed.

End Forget.

