(* C08/ProofsT.v (round 7) — the buffers tmp1 / tmp2 always fit the shape: invariant of every
   header reachable by New / Slice / T / Tip / Clone, hence the buffer slices of the matrix product
   (receiver = right factor: tmp1[0:rows]; otherwise tmp2[0:cols]) never fail; a Tip() that does
   not swap the buffers breaks exactly this. *)
From Coq Require Import ZArith List Bool Lia.
From ADV Require Import C08.ModelT.
Import ListNotations.
Open Scope Z_scope.

Definition t_inv (t : tmat) : Prop :=
  0 <= t_rows t /\ 0 <= t_cols t /\ t_l1 t = t_rows t /\ t_l2 t = t_cols t /\ t_rows t <= t_c1 t /\ t_cols t <= t_c2 t.

Definition op_valid (o : top) : Prop :=
  match o with TSlice rf rt cf ct => rf <= rt /\ cf <= ct | _ => True end.

Lemma crop_ok l c want : 0 <= l <= c -> 0 <= want ->
  exists c', crop l c want = Some (want, c') /\ want <= c'.
Proof.
  intros Hl Hw. unfold crop. destruct (l <? want) eqn:E.
  - exists want. split; [reflexivity|lia].
  - apply Z.ltb_ge in E. exists c.
    replace ((0 <=? want) && (want <=? c)) with true
      by (symmetry; apply andb_true_iff; split; apply Z.leb_le; lia).
    split; [reflexivity|lia].
Qed.

Lemma init_tmp_inv rows cols t : 0 <= t_l1 t <= t_c1 t -> 0 <= t_l2 t <= t_c2 t -> 0 <= rows -> 0 <= cols ->
  exists t', init_tmp rows cols t = Some t' /\ t_inv t' /\ t_rows t' = rows /\ t_cols t' = cols.
Proof.
  intros H1 H2 Hr Hc. unfold init_tmp.
  destruct (crop_ok _ _ rows H1 Hr) as (c1 & E1 & L1). destruct (crop_ok _ _ cols H2 Hc) as (c2 & E2 & L2).
  rewrite E1, E2. eexists. split; [reflexivity|]. unfold t_inv; cbn. repeat split; lia.
Qed.

Lemma t_new_inv n m : 0 <= n -> 0 <= m -> exists t, t_new n m = Some t /\ t_inv t /\ t_rows t = n /\ t_cols t = m.
Proof. intros Hn Hm. unfold t_new. apply init_tmp_inv; cbn; lia. Qed.

Lemma t_step_inv t o : t_inv t -> op_valid o -> exists t', t_step t o = Some t' /\ t_inv t'.
Proof.
  intros (R & C & L1 & L2 & C1 & C2) V. destruct o as [rf rt cf ct| | |]; cbn.
  - destruct V as [V1 V2].
    destruct (init_tmp_inv (rt - rf) (ct - cf) t) as (t' & E & I & _); try lia. exists t'. split; assumption.
  - eexists. split; [reflexivity|]. unfold t_inv; cbn. repeat split; lia.
  - eexists. split; [reflexivity|]. unfold t_inv; cbn. repeat split; lia.
  - eexists. split; [reflexivity|]. unfold t_inv; cbn. repeat split; lia.
Qed.

(* the last header of a trace *)
Fixpoint t_last (t : tmat) (ops : list top) : option tmat :=
  match ops with
  | [] => Some t
  | o :: rest => match t_step t o with Some t' => t_last t' rest | None => None end
  end.

Lemma t_history_inv ops : forall t, t_inv t -> Forall op_valid ops ->
  exists t', t_last t ops = Some t' /\ t_inv t' /\ ~ In None (t_trace t ops).
Proof.
  induction ops as [|o rest IH]; intros t I V.
  - exists t. cbn. split; [reflexivity|]. split; [exact I|]. intros Hx; exact Hx.
  - inversion V as [|? ? Vo Vr]; subst. destruct (t_step_inv t o I Vo) as (t1 & E & I1).
    destruct (IH t1 I1 Vr) as (t' & El & I' & Nn). exists t'. cbn. rewrite E. split; [exact El|]. split; [exact I'|].
    cbn. intros [Hx|Hx]; [discriminate|auto].
Qed.

Lemma inv_mdotm_ok t sb : t_inv t -> mdotm_tmp_ok t sb = true.
Proof.
  intros (R & C & L1 & L2 & C1 & C2). unfold mdotm_tmp_ok.
  destruct sb; apply andb_true_iff; split; apply Z.leb_le; lia.
Qed.

(* every matrix reachable from a constructor by Slice / T / Tip / Clone: the product's buffer slice succeeds,
   whether or not the receiver is the right factor *)
Theorem reachable_buffers_fit n m ops : 0 <= n -> 0 <= m -> Forall op_valid ops ->
  exists t0 t, t_new n m = Some t0 /\ t_last t0 ops = Some t /\ ~ In None (t_run n m ops) /\
               t_l1 t = t_rows t /\ t_l2 t = t_cols t /\
               forall shares_b, mdotm_tmp_ok t shares_b = true.
Proof.
  intros Hn Hm V. destruct (t_new_inv n m Hn Hm) as (t0 & E0 & I0 & _).
  destruct (t_history_inv ops t0 I0 V) as (t & El & I & Nn).
  exists t0, t. repeat split; try assumption.
  - unfold t_run. rewrite E0. cbn. intros [Hx|Hx]; [discriminate|auto].
  - apply I.
  - apply I.
  - intros sb. apply inv_mdotm_ok. exact I.
Qed.

(* Tip on a non-square matrix: what the swap is for *)
Theorem tip_swaps_buffers t : t_inv t ->
  exists t', t_step t TTip = Some t' /\ t_rows t' = t_cols t /\ t_cols t' = t_rows t /\
             t_l1 t' = t_cols t /\ t_l2 t' = t_rows t /\ mdotm_tmp_ok t' true = true /\ mdotm_tmp_ok t' false = true.
Proof.
  intros I. destruct (t_step_inv t TTip I Logic.I) as (t' & E & I').
  exists t'. cbn in E. injection E as <-.
  pose proof (inv_mdotm_ok _ true I') as M1. pose proof (inv_mdotm_ok _ false I') as M2.
  destruct I as (R & C & L1 & L2 & C1 & C2).
  split; [reflexivity|]. cbn [t_rows t_cols t_l1 t_l2]. repeat split; try assumption.
Qed.

(* without the swap: a fresh n x m matrix with n < m, transposed in place, cannot be receiver and right factor
   (tmp1[0:m] with cap n), and with n > m it cannot be receiver with another right factor (tmp2[0:n] with cap m) *)
Theorem tip_without_swap_breaks n m t : 0 <= n -> 0 <= m -> t_new n m = Some t ->
  (n < m -> mdotm_tmp_ok (t_tip_noswap t) true = false) /\
  (m < n -> mdotm_tmp_ok (t_tip_noswap t) false = false).
Proof.
  intros Hn Hm E. unfold t_new, init_tmp, crop in E. cbn in E.
  destruct (0 <? n) eqn:En; destruct (0 <? m) eqn:Em; cbn in E;
    try (apply Z.ltb_ge in En); try (apply Z.ltb_ge in Em); try (apply Z.ltb_lt in En); try (apply Z.ltb_lt in Em).
  all: try (replace ((0 <=? n) && (n <=? 0)) with true in E by (symmetry; apply andb_true_iff; split; apply Z.leb_le; lia)).
  all: try (replace ((0 <=? m) && (m <=? 0)) with true in E by (symmetry; apply andb_true_iff; split; apply Z.leb_le; lia)).
  all: injection E as <-; unfold mdotm_tmp_ok, t_tip_noswap; cbn; split; intros Hlt;
       apply andb_false_iff; right; apply Z.leb_gt; lia.
Qed.

Example tip_without_swap_witness :
  t_new 1 2 = Some (mkT 1 2 1 1 2 2) /\ mdotm_tmp_ok (t_tip_noswap (mkT 1 2 1 1 2 2)) true = false /\
  t_step (mkT 1 2 1 1 2 2) TTip = Some (mkT 2 1 2 2 1 1) /\ mdotm_tmp_ok (mkT 2 1 2 2 1 1) true = true.
Proof. vm_compute. repeat split. Qed.

(* shrinking then growing through Slice re-allocates (len, not cap, is compared) — still fits *)
Example slice_shrink_grow :
  t_run 3 2 [TSlice 0 1 0 1; TT; TSlice 0 1 0 3; TTip; TClone] =
  [Some (mkT 3 2 3 3 2 2); Some (mkT 1 1 1 3 1 2); Some (mkT 1 1 1 2 1 3); Some (mkT 1 3 1 2 3 3);
   Some (mkT 3 1 3 3 1 2); Some (mkT 3 1 3 3 1 1)].
Proof. vm_compute. reflexivity. Qed.
