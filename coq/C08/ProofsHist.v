(* C08/ProofsHist.v — a Real receiver re-used over a history of orders: stale derivative storage is never
   readable.  On the shared register model C01.Model, ANY carrier: [alloc] (Go: Real64.Alloc, called by
   AllocForOne / AllocForTwo / Set / SetVariable) either leaves the register untouched (same N and Order)
   or produces a register ALL of whose guarded getters read zero — although at order 0 the old Hessian
   slice stays in memory ([rhess] is kept), and although the combinators read the receiver through
   GetDerivative / GetHessian when it is also an operand.  Hence  c.Op(c, b)  after a re-shaping
   AllocForTwo reads zeros for c, never the Hessian of an earlier second-order result. *)
From Coq Require Import ZArith List Bool Arith Lia.
From ADV Require Import Base.Fl C01.Model.
Import ListNotations.

Section Hist.
Context {A : Type} (F : Fl A).

Lemma nth_repeat_any (x : A) n i : nth i (repeat x n) x = x.
Proof. revert i; induction n as [|n IH]; intro i; destruct i; simpl; auto. Qed.

Lemma hget_zero_square n i j : hget F (repeat (repeat (zero F) n) n) i j = zero F.
Proof.
  unfold hget. destruct (lt_dec i n) as [L|L].
  - replace (nth i (repeat (repeat (zero F) n) n) []) with (repeat (zero F) n).
    + apply nth_repeat_any.
    + symmetry. clear j. revert i L. generalize (repeat (zero F) n) as row. intro row.
      induction n as [|m IH]; intros i L; [lia|]. destruct i; simpl; [reflexivity|]. apply IH. lia.
  - rewrite (nth_overflow (repeat (repeat (zero F) n) n)) by (rewrite repeat_length; lia).
    destruct j; reflexivity.
Qed.

Theorem alloc_same_or_zero (r : Reg A) (n o : nat) :
  alloc F r n o = r \/
  (rn (alloc F r n o) = n /\ rorder (alloc F r n o) = o /\ rval (alloc F r n o) = rval r /\
   (forall i, gd F (alloc F r n o) i = zero F) /\ (forall i j, gh F (alloc F r n o) i j = zero F)).
Proof.
  unfold alloc. destruct (Nat.eqb (rn r) n && Nat.eqb (rorder r) o); [left; reflexivity|right].
  cbn [rn rorder rval]. repeat split; auto.
  - intro i. unfold gd. cbn [rorder rderiv]. destruct (1 <=? o) eqn:E1; [apply nth_repeat_any|reflexivity].
  - intros i j. unfold gh. cbn [rorder rhess]. destruct (2 <=? o) eqn:E2; [|reflexivity].
    assert (E1 : (1 <=? o) = true) by (apply Nat.leb_le; apply Nat.leb_le in E2; lia).
    rewrite E1. apply hget_zero_square.
Qed.

(* the receiver of c.Op(a, b) after AllocForTwo: untouched, or it reads zero everywhere (also when c is a or b) *)
Corollary alloc_for_two_same_or_zero (c : nat) (a b : opd A) (s : St (A := A)) :
  let s' := alloc_for_two F c a b s in
  s' c = s c \/ ((forall i, gd F (s' c) i = zero F) /\ (forall i j, gh F (s' c) i j = zero F)).
Proof.
  cbv zeta. unfold alloc_for_two, upd. rewrite Nat.eqb_refl.
  destruct (alloc_same_or_zero (s c) (Nat.max (rn (rd s a)) (rn (rd s b))) (Nat.max (rorder (rd s a)) (rorder (rd s b))))
    as [E|(_ & _ & _ & G & H)]; [left; exact E|right; split; assumption].
Qed.
End Hist.

(* non-vacuity over Z-valued... the carrier is abstract; the binary64 witness: a register of order 0 that still holds a
   Hessian slice [[7]] in memory, re-shaped to order 2, N 1: reads 0 *)
From Coq Require Import Floats.
From ADV Require Import C01.Corr.
Lemma stale_hessian_witness :
  let r := mkReg K64 1%float 0 0 [] [[7%float]] in
  rhess (alloc (FlF []) r 0 0) = [[7%float]] /\
  PrimFloat.eqb (gh (FlF []) (alloc (FlF []) r 1 2) 0 0) 0%float = true /\
  rhess (alloc (FlF []) r 1 2) = [[0%float]].
Proof. vm_compute. repeat split. Qed.
