(* C08 — results do not depend on the receiver aliasing an operand: property
   theorems (statements only; proofs in Proofs*.v).

   SCALARS: every statement is about the shared register-file model
   ADV.C01.Model, for EVERY carrier A, every operation record F : Fl A and every
   storage rounding r32 — in particular for binary64 / binary32 with Go's libm —
   every state s, every N and every Order.  [agree c c' m m']: the two outcomes
   are both a panic of the same kind or both return with the same observable
   receiver ([norm]: kind, Value, Order, N, gradient, Hessian).  The theorems say
   more than the property: ANY two receivers of the same kind give the same
   result, provided each satisfies the side condition the proof computes
   ([keeps] for AllocForTwo; none for Set since HEAD d9fca78); "receiver is an
   operand" vs. "fresh receiver" is the instance the property names.

   MATRICES / VECTORS: about ADV.C10.Model (heap + regenerated headers,
   storageLocation() as coded, both buffered schedules) and ADV.C08.Model, for
   all well-formed views, all dimensions, all contents, over Z. *)
From Coq Require Import Reals ZArith QArith List Bool Arith Lia Floats.
From ADV Require Import Base.Fl C01.Model C01.ModelR C10.Gen C10.Model C10.Spec
  C08.Spec C08.Model C08.ProofsComb C08.ProofsScalar C08.ProofsSet C08.ProofsComposite C08.ProofsRefuted
  C08.ProofsMat C08.ProofsVec C08.ProofsReduce.
Import ListNotations.

(* ------------------------------------------------------------------ (1) the combinators *)
(* read-before-write: what the sequential in-place loops leave in the receiver is a
   function of the operand as it was BEFORE the call — whatever register the receiver is,
   the operand itself included (c.Exp(c)) *)
Theorem combinator_one_operand_closed_form :
  forall A (F : Fl A) (r32 : A -> A) c a v0 (f1 f2 : unit -> A) (s : St),
  shape (s c) ->
  exists s', monadic_lazy F r32 c a v0 f1 f2 s = Ok s' /\
    (forall q, q <> c -> s' q = s q) /\ shape (s' c) /\
    norm (s' c) = canon r32 (rk (s c)) v0 (rn (rd s a)) (rorder (rd s a))
                        (mon_g F (rd s a) (f1 tt)) (mon_h F (rd s a) (f1 tt) (f2 tt)).
Proof. exact @monadic_closed. Qed.

Theorem combinator_two_operands_closed_form :
  forall A (F : Fl A) (r32 : A -> A) c a b v0 (f1 : unit -> A * A) (f2 : unit -> A * A * A) (s : St),
  shape (s c) -> keeps c a b s = true ->
  match dy_guard (rd s a) (rd s b) with
  | Some e => dyadic_lazy F r32 c a b v0 f1 f2 s = Panic e
  | None =>
    exists s', dyadic_lazy F r32 c a b v0 f1 f2 s = Ok s' /\
      (forall q, q <> c -> s' q = s q) /\ shape (s' c) /\
      norm (s' c) = canon r32 (rk (s c)) v0 (Nat.max (rn (rd s a)) (rn (rd s b)))
                          (Nat.max (rorder (rd s a)) (rorder (rd s b)))
                          (dy_g F (rd s a) (rd s b) (fst (f1 tt)) (snd (f1 tt)))
                          (dy_h F (rd s a) (rd s b) (fst (f1 tt)) (snd (f1 tt))
                                (fst (fst (f2 tt))) (snd (fst (f2 tt))) (snd (f2 tt)))
  end.
Proof. exact @dyadic_closed. Qed.

(* ------------------------------------------------------------------ (1) every single-step operation *)
(* one statement for the whole table: 20 one-operand ops (IMon), Add Sub Mul Div Pow(variable
   exponent) (IDy), Pow, Sqrt — receiver c, the same call issued on ANY other receiver c' *)
Theorem scalar_operation_receiver_independent :
  forall A (F : Fl A) (r32 : A -> A) (i : instr A) c' (s : St),
  simple i ->
  rk (s (recv i)) = rk (s c') -> shape (s (recv i)) -> shape (s c') ->
  side (recv i) i s = true -> side c' i s = true ->
  agree (recv i) c' (exec F r32 i s) (exec F r32 (with_recv c' i) s).
Proof. exact @simple_indep. Qed.

(* the alias patterns the property names *)
Theorem alias_one_operand :      (* r.Op(r) vs fresh.Op(r) *)
  forall A (F : Fl A) (r32 : A -> A) op c c' (s : St),
  shape (s c) -> fresh F c' (rk (s c)) s ->
  agree c c' (exec F r32 (IMon op c (Rg c)) s) (exec F r32 (IMon op c' (Rg c)) s).
Proof. exact @alias_monadic. Qed.

Theorem alias_two_operands :     (* r.Op(r,b), r.Op(a,r), r.Op(r,r): a, b any operands, c among them or not *)
  forall A (F : Fl A) (r32 : A -> A) op c c' a b (s : St),
  shape (s c) -> fresh F c' (rk (s c)) s -> hits c' a = false -> hits c' b = false ->
  keeps c a b s = true ->
  agree c c' (exec F r32 (IDy op c a b) s) (exec F r32 (IDy op c' a b) s).
Proof. exact @alias_dyadic. Qed.

(* where the side condition fails: x.Add(x, y), x of order 1, y of order 2 (F-ALLOC) *)
Theorem alias_mixed_order_refuted :
  keeps 0 (Rg 0) (Rg 1) st_alloc = false /\
  exists t t', exec (FlR Sp0) idR (IDy OAdd 0 (Rg 0) (Rg 1)) st_alloc = Ok t /\
               exec (FlR Sp0) idR (IDy OAdd 2 (Rg 0) (Rg 1)) st_alloc = Ok t' /\
               rval (t 0%nat) = rval (t' 2%nat) /\
               gd (FlR Sp0) (t 0%nat) 0 = 0%R /\ gd (FlR Sp0) (t' 2%nat) 0 = 1%R /\
               gd (FlR Sp0) (t 0%nat) 1 = 1%R /\ gd (FlR Sp0) (t' 2%nat) 1 = 1%R.
Proof. exact ProofsRefuted.alias_mixed_order_refuted. Qed.

(* ------------------------------------------------------------------ (2) constant receiver *)
Theorem constant_receiver_acquires_derivatives :
  forall A (F : Fl A) (r32 : A -> A) op c c' b (s : St),
  shape (s c) -> fresh F c' (rk (s c)) s -> hits c' b = false -> c' <> c ->
  rorder (s c) = 0%nat -> (rn (s c) <= rn (rd s b))%nat ->
  agree c c' (exec F r32 (IDy op c (Rg c) b) s) (exec F r32 (IDy op c' (Rg c) b) s) /\
  agree c c' (exec F r32 (IDy op c b (Rg c)) s) (exec F r32 (IDy op c' b (Rg c)) s).
Proof. exact @constant_receiver_acquires. Qed.

(* ------------------------------------------------------------------ Set, Min, Max, Abs *)
(* no side condition beyond the storage invariant: Set reallocates a receiver of another N or Order
   (HEAD d9fca78; the round-1 condition set_ok and the finding F-SETORD are retired) and never panics *)
Theorem set_receiver_independent :
  forall A (F : Fl A) (r32 : A -> A) c c' b (s : St),
  rk (s c) = rk (s c') -> shape (s c) -> shape (s c') ->
  agree c c' (exec F r32 (ISet c b) s) (exec F r32 (ISet c' b) s).
Proof. exact @set_indep. Qed.
Theorem set_never_panics :
  forall A (F : Fl A) (r32 : A -> A) c b (s : St), shape (s c) -> exists s', exec F r32 (ISet c b) s = Ok s'.
Proof. exact @set_total. Qed.

Theorem min_max_receiver_independent :
  forall A (F : Fl A) (r32 : A -> A) c c' a b (s : St),
  rk (s c) = rk (s c') -> shape (s c) -> shape (s c') ->
  agree c c' (exec F r32 (IMin c a b) s) (exec F r32 (IMin c' a b) s) /\
  agree c c' (exec F r32 (IMax c a b) s) (exec F r32 (IMax c' a b) s).
Proof. exact @min_indep. Qed.

Theorem abs_receiver_independent :     (* away from 0; at 0 Order/N are the receiver's own: F-C08-ABS0-ORDER *)
  forall A (F : Fl A) (r32 : A -> A) c c' a (s : St),
  rk (s c) = rk (s c') -> shape (s c) -> shape (s c') ->
  sign_of F (rval (rd s a)) <> 0%Z ->
  agree c c' (exec F r32 (IAbs c a) s) (exec F r32 (IAbs c' a) s) /\
  agree c c' (exec F r32 (IABSc c a) s) (exec F r32 (IABSc c' a) s).
Proof. exact @abs_both_indep. Qed.
Theorem abs_concrete_is_abs :          (* HEAD 2fc8894 *)
  forall A (F : Fl A) (r32 : A -> A) c a (s : St), exec F r32 (IABSc c a) s = exec F r32 (IAbs c a) s.
Proof. exact @ABS_concrete_is_abs. Qed.

(* ------------------------------------------------------------------ operations made of several steps *)
Theorem logistic_receiver_independent :
  forall A (F : Fl A) (r32 : A -> A) c c' a (s : St),
  shape (s c) -> shape (s c') -> rk (s c) = rk (s c') ->
  agree c c' (exec F r32 (ILogistic c a) s) (exec F r32 (ILogistic c' a) s).
Proof. exact @logistic_indep. Qed.

Theorem sigmoid_receiver_independent :   (* scratch t distinct from receiver and argument; see (2b) for t = a *)
  forall A (F : Fl A) (r32 : A -> A) c c' a t (s : St),
  shape (s c) -> shape (s c') -> shape (s t) -> rk (s c) = rk (s c') ->
  t <> c -> t <> c' -> hits t a = false ->
  agree c c' (exec F r32 (ISigmoid c a t) s) (exec F r32 (ISigmoid c' a t) s).
Proof. exact @sigmoid_indep. Qed.

(* ALL FOUR branches, c = a included, no side condition (HEAD 7035970: the branch 18 < v <= 33.3 computes
   exp(-a) in a temporary; the round-1 theorem alias_log1pexp_refuted / finding F-C08-LOG1PEXP-ALIAS are
   retired, the old witness is the regression case log1pexp_old_witness_regression) *)
Theorem log1pexp_receiver_independent :
  forall A (F : Fl A) (r32 : A -> A) c c' a (s : St),
  shape (s c) -> shape (s c') -> rk (s c) = rk (s c') ->
  agree c c' (exec F r32 (ILog1pExp c a) s) (exec F r32 (ILog1pExp c' a) s).
Proof. exact @log1pexp_indep. Qed.
Theorem alias_log1pexp :                  (* the instance the property names: c.Log1pExp(c) vs fresh.Log1pExp(c) *)
  forall A (F : Fl A) (r32 : A -> A) c c' (s : St),
  shape (s c) -> fresh F c' (rk (s c)) s ->
  agree c c' (exec F r32 (ILog1pExp c (Rg c)) s) (exec F r32 (ILog1pExp c' (Rg c)) s).
Proof. exact @ProofsComposite.alias_log1pexp. Qed.
Theorem log1pexp_old_witness_regression : (* c = 20: both receivers now hold 20 + exp(-20) (was 2 exp(-20)) *)
  exists t t', exec (FlR Sp0) idR (ILog1pExp 0 (Rg 0)) st_l1p = Ok t /\
               exec (FlR Sp0) idR (ILog1pExp 1 (Rg 0)) st_l1p = Ok t' /\
               rval (t 0%nat) = (20 + exp (- 20))%R /\ rval (t' 1%nat) = (20 + exp (- 20))%R.
Proof. exact ProofsRefuted.alias_log1pexp_old_witness. Qed.

Theorem logadd_receiver_independent :
  forall A (F : Fl A) (r32 : A -> A) c c' a b t (s : St),
  shape (s c) -> shape (s c') -> rk (s c) = rk (s c') -> t <> c -> t <> c' ->
  last_side c (la_prefix F r32 t a b) t b s = true -> last_side c' (la_prefix F r32 t a b) t b s = true ->
  last_side c (la_prefix F r32 t b a) t a s = true -> last_side c' (la_prefix F r32 t b a) t a s = true ->
  agree c c' (exec F r32 (ILogAdd c a b t) s) (exec F r32 (ILogAdd c' a b t) s).
Proof. exact @logadd_indep. Qed.

Theorem logsub_receiver_independent :
  forall A (F : Fl A) (r32 : A -> A) c c' a b t (s : St),
  shape (s c) -> shape (s c') -> rk (s c) = rk (s c') -> t <> c -> t <> c' ->
  last_side c (ls_prefix F r32 t a b) t a s = true -> last_side c' (ls_prefix F r32 t a b) t a s = true ->
  agree c c' (exec F r32 (ILogSub c a b t) s) (exec F r32 (ILogSub c' a b t) s).
Proof. exact @logsub_indep. Qed.

(* ------------------------------------------------------------------ (2b) a scratch argument that is also the operand *)
(* c.Sigmoid(x, x) leaves in the receiver what c.Sigmoid(x, t) with a separate scratch t leaves (the argument x is
   destroyed, which is not the receiver's business).  LogAdd / LogSub with the scratch aliasing an operand: safe iff the
   scratch is the operand the body does not read after its first step (LogAdd: the smaller one, LogSub: b) and [keeps]
   holds for that first step — characterised exactly by the harness (tmpExpect; hunt classes expected-safe /
   expected-unsafe, the former must agree), no theorem. *)
Theorem sigmoid_scratch_is_argument :
  forall A (F : Fl A) (r32 : A -> A) c x t (s : St),
  shape (s c) -> shape (s x) -> shape (s t) -> rk (s t) = rk (s x) ->
  c <> x -> t <> c -> t <> x ->
  agree c c (exec F r32 (ISigmoid c (Rg x) x) s) (exec F r32 (ISigmoid c (Rg x) t) s).
Proof. exact @ProofsComposite.sigmoid_scratch_is_argument. Qed.

(* ------------------------------------------------------------------ (1b) reductions with the receiver among the elements *)
(* r := v.At(k); r.Vmean(v) (VdotV, Vnorm, Mtrace, SmoothMax, LogSmoothMax alike): the first step clears the receiver,
   so for EVERY carrier, vector and state the whole call does not depend on the value the receiver held — the aliased
   element cannot contribute, while a fresh receiver's result depends on it: finding F-C08-REDUCE-ELEM *)
Theorem reduction_overwrites_receiver_element :
  forall A (F : Fl A) (r32 : A -> A) (i : instr A) r (s : St) v,
  clears_first i r -> exec F r32 i (C01.Model.upd s r (with_val (s r) v)) = exec F r32 i s.
Proof. exact @reduction_forgets_receiver. Qed.
Example reduction_receiver_may_be_an_element :   (* the statement covers the aliased call: receiver 1 = v[1] *)
  clears_first (IVmean 1 [Rg 0; Rg 1] : instr Z) 1 /\ clears_first (IVnorm 1 [Rg 0; Rg 1] 9 : instr Z) 1.
Proof. split; constructor. discriminate. Qed.
(* witnesses in binary64 (C01.Corr.FlF: the instance the library runs), v = (3, 5) *)
Theorem vmean_receiver_in_vector_refuted :      (* r = v[1]: 3 instead of 4 *)
  val_of (exec (C01.Corr.FlF []) C01.Corr.round32 (IVmean 1 [Rg 0; Rg 1]) st_red) 1 = Some 3%float /\
  val_of (exec (C01.Corr.FlF []) C01.Corr.round32 (IVmean 2 [Rg 0; Rg 1]) st_red) 2 = Some 4%float.
Proof. exact ProofsReduce.vmean_receiver_in_vector_refuted. Qed.
Theorem mtrace_receiver_on_diagonal_refuted :   (* diagonal (3, 5), r = m[0][0]: 5 instead of 8 *)
  val_of (exec (C01.Corr.FlF []) C01.Corr.round32 (IMtrace 0 [Rg 0; Rg 1]) st_red) 0 = Some 5%float /\
  val_of (exec (C01.Corr.FlF []) C01.Corr.round32 (IMtrace 2 [Rg 0; Rg 1]) st_red) 2 = Some 8%float.
Proof. exact ProofsReduce.mtrace_receiver_on_diagonal_refuted. Qed.
Theorem vdotv_receiver_in_vector_refuted :      (* r.VdotV(v, v), r = v[1]: 90 instead of 34 *)
  val_of (exec (C01.Corr.FlF []) C01.Corr.round32 (IVdotV 1 [Rg 0; Rg 1] [Rg 0; Rg 1] 9) st_red) 1 = Some 90%float /\
  val_of (exec (C01.Corr.FlF []) C01.Corr.round32 (IVdotV 2 [Rg 0; Rg 1] [Rg 0; Rg 1] 9) st_red) 2 = Some 34%float.
Proof. exact ProofsReduce.vdotv_receiver_in_vector_refuted. Qed.
(* Not proved: reductions_mnorm_first_element_partial — Mnorm with the receiver at position (0,0) (first step r.Pow(r, 2),
   alias-safe by scalar_operation_receiver_independent; the following r.Add(r, t) steps are the same in both runs) and the
   in-vector refutations for Vnorm / SmoothMax / LogSmoothMax / Mnorm(other positions) by witness: replayed bit-exactly by
   the correspondence (stream "reduction") and decided on the implementation by the hunt (class reduce:Mnorm:r=first-element
   must agree with a fresh receiver, classes reduce:r-in-vector:* are the finding). *)

(* the hypotheses are satisfiable by a non-trivial instance: x.Mul(x, y), both of order 2 over two variables *)
Example alias_hypotheses_nontrivial :
  let x := mkReg K64 5%Z 2 2 [1; 3]%Z [[2; 7]; [7; 4]]%Z in let y := mkReg K64 (-3)%Z 2 2 [4; -1]%Z [[1; 0]; [0; 6]]%Z in
  let s : @St Z := C01.Model.upd (C01.Model.upd (fun _ => mkReg K64 0%Z 0 0 [] []) 0 x) 1 y in
  shape (s 0%nat) /\ keeps 0 (Rg 0) (Rg 1) s = true /\ hits 9 (Rg 0 : opd Z) = false.
Proof.
  cbv zeta. split; [|split; reflexivity].
  split; intros _; cbn; [reflexivity|]. split; [reflexivity|]. intros [|[|i]] H; cbn; try reflexivity. lia.
Qed.

(* ------------------------------------------------------------------ (3) matrix product *)
Open Scope Z_scope.
Theorem mdotm_receiver_is_left_factor :    (* r.MdotM(r, b), b in another backing array *)
  forall real (H : heap) (r b : mat),
  wfh H r -> wfh H b -> d_values r <> d_values b ->
  d_rows b = d_cols r -> d_cols b = d_cols r -> 0 < d_rows r -> 0 < d_cols r ->
  exists H', mMdotM real H r r b = ROk H' /\
    (forall i j, in_range r i j -> mAT real H' r i j = ROk (dotZ (cell H r) (cell H b) i j (d_cols r))) /\
    (forall l, l <> d_values r -> store_of H' l = store_of H l).
Proof. exact mdotm_r_is_a. Qed.

Theorem mdotm_receiver_is_right_factor :   (* r.MdotM(a, r), a in another backing array *)
  forall real (H : heap) (r a : mat),
  wfh H r -> wfh H a -> d_values r <> d_values a ->
  d_rows a = d_rows r -> d_cols a = d_rows r -> 0 < d_rows r -> 0 < d_cols r ->
  exists H', mMdotM real H r a r = ROk H' /\
    (forall i j, in_range r i j -> mAT real H' r i j = ROk (dotZ (cell H a) (cell H r) i j (d_rows r))) /\
    (forall l, l <> d_values r -> store_of H' l = store_of H l).
Proof. exact mdotm_r_is_b. Qed.

Example mdotm_hypotheses_nontrivial :      (* r = a transposed 2x3 window of a 4x4 parent, b a 3x3 matrix *)
  let H := [[1;2;3;4;5;6;7;8;9;10;11;12;13;14;15;16]; [1;0;2;0;1;0;3;0;1]] in
  let r := k_T false (k_slice false (new_mat 0 4 4) 1 4 1 3) in let b := new_mat 1 3 3 in
  wfh H r /\ wfh H b /\ d_values r <> d_values b /\ d_rows b = d_cols r /\ d_cols b = d_cols r /\
  result_of false H r r b = Some (prod_of H r b).
Proof.
  cbv zeta. split; [|split; [|split; [|split; [|split]]]].
  - split; [cbn; lia|]. unfold wf; cbn. lia.
  - split; [cbn; lia|]. unfold wf; cbn. lia.
  - cbn. discriminate.
  - reflexivity.
  - reflexivity.
  - vm_compute. reflexivity.
Qed.

(* decided by the model: wrong products *)
Theorem mdotm_all_three_aliased_refuted :   (* r.MdotM(r, r)  (F-MDOTM-RR) *)
  let H := [[1; 2; 3; 4]] in let r := new_mat 0 2 2 in
  result_of false H r r r = Some [7; 22; 15; 46] /\ prod_of H r r = [7; 10; 15; 22].
Proof. exact mdotm_rr_refuted. Qed.
Theorem mdotm_receiver_is_transposed_right_factor_refuted :   (* r = b.T()  (F-MDOTM-T) *)
  let H := [[1; 2; 3; 4]; [1; 1; 0; 1]] in let b := new_mat 0 2 2 in let r := k_T false b in let a := new_mat 1 2 2 in
  exists l, result_of false H r a b = Some l /\ l <> prod_of H a b.
Proof. exact mdotm_rbT_refuted. Qed.
Theorem mdotm_receiver_is_transposed_left_factor_refuted :    (* r = a.T() *)
  let H := [[1; 2; 3; 4]; [1; 2; 1; 1]] in let a := new_mat 0 2 2 in let r := k_T false a in let b := new_mat 1 2 2 in
  exists l, result_of false H r a b = Some l /\ l <> prod_of H a b.
Proof. exact mdotm_raT_refuted. Qed.
Theorem mdotm_left_factor_with_right_factor_in_same_array_refuted :   (* r == a, b a disjoint view of the same array *)
  let H := [[1; 2; 3; 4; 1; 2; 1; 1]] in let p := new_mat 0 4 2 in
  let r := k_slice false p 0 2 0 2 in let b := k_slice false p 2 4 0 2 in
  exists l, result_of false H r r b = Some l /\ l <> prod_of H r b.
Proof. exact mdotm_ra_bsame_refuted. Qed.

(* MdotV / VdotM reject exactly equal first elements; a shifted overlap slips through *)
Theorem mdotv_alias_rejected : forall real H r a b,
  same_first r b = true -> 0 < d_rows a -> 0 < d_cols a -> v_len r = d_rows a -> v_len b = d_cols a ->
  vMdotV real H r a b = RPanic.
Proof. exact mdotv_rejects_same_start. Qed.
Theorem vdotm_alias_rejected : forall real H r a b,
  same_first r a = true -> 0 < d_rows b -> 0 < d_cols b -> v_len r = d_cols b -> v_len a = d_rows b ->
  vVdotM real H r a b = RPanic.
Proof. exact vdotm_rejects_same_start. Qed.
Theorem mdotv_shifted_overlap_refuted :
  let H := [[1; 1; 1; 1]; [1; 2; 3]] in
  let a := new_mat 0 2 2 in let r := mkVec 1 1 2 in let b := mkVec 1 0 2 in
  same_first r b = false /\ vMdotV false H r a b = ROk [[1; 1; 1; 1]; [1; 2; 3]] /\
  map (fun i => dotZ (cell H a) (fun k _ => vcell H b k) i 0 2) [0; 1] = [3; 3].
Proof. exact mdotv_shift_refuted. Qed.

(* ------------------------------------------------------------------ (4) element-wise operations *)
(* VaddV / VsubV / VmulV on slices of shared storage: alias-safe iff (sufficient, and the
   refutation below shows the remaining case is not) every operand lives elsewhere, or the
   receiver starts at or before it (identical slices included), or it ends before the receiver *)
Theorem elementwise_vector_alias_characterised :
  forall (f : Z) (r a b : vec) (H0 : heap),
  vwf H0 r -> vwf H0 a -> vwf H0 b -> v_len a = v_len r -> v_len b = v_len r ->
  opd_safe r a = true -> opd_safe r b = true ->
  exists H', vEw f H0 r a b = ROk H' /\
    (forall i, 0 <= i < v_len r -> vAT H' r i = ROk (ew_fun f (vcell H0 a i) (vcell H0 b i))) /\
    (forall l, l <> v_loc r -> store_of H' l = store_of H0 l).
Proof. exact vew_alias_safe. Qed.
Theorem elementwise_vector_right_shift_refuted :
  let H := [[1; 2; 3; 4]; [10; 10; 10]] in
  let r := mkVec 0 1 3 in let a := mkVec 0 0 3 in let b := mkVec 1 0 3 in
  opd_safe r a = false /\
  vEw 0 H r a b = ROk [[1; 11; 21; 31]; [10; 10; 10]] /\
  map (fun i => ew_fun 0 (vcell H a i) (vcell H b i)) [0; 1; 2] = [11; 12; 13].
Proof. exact vew_right_shift_refuted. Qed.

(* MaddM / MsubM / MmulM: every operand is the receiver's own view or lives in another backing array *)
Theorem elementwise_matrix_alias_safe :
  forall (real : bool) (f : Z) (r a b : mat) (H0 : heap),
  wfh H0 r -> opd_ok H0 r a -> opd_ok H0 r b ->
  exists H', mEw real f H0 r a b = ROk H' /\
    (forall i j, in_range r i j -> mAT real H' r i j = ROk (ew_fun f (cell H0 a i j) (cell H0 b i j))) /\
    (forall l, l <> d_values r -> store_of H' l = store_of H0 l).
Proof. exact mew_alias_safe. Qed.
Theorem elementwise_matrix_transposed_receiver_refuted :   (* r = a.T(); r.MaddM(a, 0) should leave a.T() = [1;3;2;4] *)
  let H := [[1; 2; 3; 4]; [0; 0; 0; 0]] in let a := new_mat 0 2 2 in let r := k_T false a in let b := new_mat 1 2 2 in
  exists H', mEw false 0 H r a b = ROk H' /\ read_all false H' r = ROk [1; 2; 2; 4].
Proof. exact mew_transposed_refuted. Qed.

(* Not proved (stated for the record; tied by the correspondence and searched by the hunt only):
   mdotm_disjoint_views_of_one_array_partial — r == b with a a DISJOINT view of the same backing array, and
     receivers that are disjoint from both factors inside one backing array: the product is right (the hunt's
     "safe" classes MdotM:r=b / MdotM:no-overlap include them), the theorems above require separate arrays;
   elementwise_matrix_views_partial — MaddM/MsubM/MmulM with an operand that is a DISJOINT view of the receiver's
     backing array (safe) or a shifted overlapping view (unsafe in general): replayed and hunted, no theorem;
   (reductions with the receiver among the elements: see section (1b) above.) *)
