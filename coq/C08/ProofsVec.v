(* C08/ProofsVec.v — element-wise dense vector operations (VaddV / VsubV / VmulV:
   one ascending loop, read a[i], b[i], write r[i]) on slices of shared storage.

   CHARACTERISATION of the overlaps that are safe: an operand x is harmless iff it
   lives in another backing array, or the receiver starts AT OR BEFORE it
   (identical slice included), or it ends before the receiver starts.  A receiver
   that starts strictly inside an operand (shifted to the right) reads cells it
   has already overwritten: refuted with a witness.  MdotV / VdotM: the alias
   rejection fires exactly for equal first elements; a shifted overlap is
   accepted and gives a wrong product: refuted. *)
From Coq Require Import ZArith List Bool Lia.
From ADV Require Import C10.Gen C10.Model C08.Spec C08.Model C08.ProofsMat.
Import ListNotations.
Open Scope Z_scope.

Definition vcell (H : heap) (v : vec) (i : Z) : Z := nth (Z.to_nat (v_off v + i)) (store_of H (v_loc v)) 0.
Definition vwr (H : heap) (v : vec) (i x : Z) : heap :=
  set_store H (v_loc v) (upd (Z.to_nat (v_off v + i)) x (store_of H (v_loc v))).
Definition vwf (H : heap) (v : vec) : Prop :=
  (v_loc v < length H)%nat /\ 0 <= v_off v /\ 0 <= v_len v /\ v_off v + v_len v <= zlen (store_of H (v_loc v)).

Lemma vAT_ok H v i : vwf H v -> 0 <= i < v_len v -> vAT H v i = ROk (vcell H v i).
Proof.
  intros (L & O & N & B) Hi. unfold vAT, get.
  replace ((i <? 0) || (i >=? v_len v)) with false
    by (symmetry; apply orb_false_iff; split; [apply Z.ltb_ge; lia|rewrite Z.geb_leb; apply Z.leb_gt; lia]).
  replace ((v_off v + i <? 0) || (v_off v + i >=? zlen (store_of H (v_loc v)))) with false
    by (symmetry; apply orb_false_iff; split; [apply Z.ltb_ge; lia|rewrite Z.geb_leb; apply Z.leb_gt; lia]).
  reflexivity.
Qed.
Lemma vSET_ok H v i x : vwf H v -> 0 <= i < v_len v -> vSET H v i x = ROk (vwr H v i x).
Proof.
  intros (L & O & N & B) Hi. unfold vSET, put.
  replace ((i <? 0) || (i >=? v_len v)) with false
    by (symmetry; apply orb_false_iff; split; [apply Z.ltb_ge; lia|rewrite Z.geb_leb; apply Z.leb_gt; lia]).
  replace ((v_off v + i <? 0) || (v_off v + i >=? zlen (store_of H (v_loc v)))) with false
    by (symmetry; apply orb_false_iff; split; [apply Z.ltb_ge; lia|rewrite Z.geb_leb; apply Z.leb_gt; lia]).
  reflexivity.
Qed.

Lemma store_vwr_same H v i x : (v_loc v < length H)%nat ->
  store_of (vwr H v i x) (v_loc v) = upd (Z.to_nat (v_off v + i)) x (store_of H (v_loc v)).
Proof. intro L. unfold vwr, store_of, set_store. apply nth_upd_same. exact L. Qed.
Lemma store_vwr_other H v i x l : l <> v_loc v -> store_of (vwr H v i x) l = store_of H l.
Proof. intro L. unfold vwr, store_of, set_store. apply nth_upd_other. congruence. Qed.
Lemma vwf_vwr H v i x w : (v_loc v < length H)%nat -> vwf H w -> vwf (vwr H v i x) w.
Proof.
  intros L (L' & O & N & B). unfold vwf. split; [unfold vwr, set_store; rewrite upd_length; exact L'|].
  split; [exact O|]. split; [exact N|].
  destruct (Nat.eq_dec (v_loc w) (v_loc v)) as [E|E].
  - rewrite E, store_vwr_same by exact L. unfold zlen. rewrite upd_length. rewrite <- E. exact B.
  - rewrite store_vwr_other by exact E. exact B.
Qed.

(* a cell of any slice after one write through r *)
Lemma vcell_vwr H r i x w j : vwf H r -> 0 <= i < v_len r -> 0 <= v_off w + j ->
  vcell (vwr H r i x) w j =
  if Nat.eqb (v_loc w) (v_loc r) && (v_off w + j =? v_off r + i) then x else vcell H w j.
Proof.
  intros (L & O & N & B) Hi Hj. unfold vcell.
  destruct (Nat.eqb_spec (v_loc w) (v_loc r)) as [E|E]; simpl.
  - rewrite E, store_vwr_same by exact L.
    destruct (Z.eqb_spec (v_off w + j) (v_off r + i)) as [E2|E2].
    + rewrite E2. apply nth_upd_same. unfold zlen in B. lia.
    + apply nth_upd_other. lia.
  - rewrite store_vwr_other by exact E. reflexivity.
Qed.

(* the side condition, computed from the three slices *)
Definition opd_safe (r x : vec) : bool :=
  negb (Nat.eqb (v_loc x) (v_loc r)) || (v_off r <=? v_off x) || (v_off x + v_len x <=? v_off r).

Section Ew.
Variables (f : Z) (r a b : vec) (H0 : heap).
Hypothesis Wr : vwf H0 r.
Hypothesis Wa : vwf H0 a.
Hypothesis Wb : vwf H0 b.
Hypothesis La : v_len a = v_len r.
Hypothesis Lb : v_len b = v_len r.
Hypothesis Sa : opd_safe r a = true.
Hypothesis Sb : opd_safe r b = true.

Definition res (i : Z) : Z := ew_fun f (vcell H0 a i) (vcell H0 b i).
Definition step (H : heap) (i : Z) : heap := vwr H r i (ew_fun f (vcell H a i) (vcell H b i)).

(* an operand cell at index j is not hit by the write of index i < j ... *)
Lemma safe_later x i j : opd_safe r x = true -> v_len x = v_len r -> 0 <= v_off x -> 0 <= i -> i < j -> j < v_len r ->
  Nat.eqb (v_loc x) (v_loc r) && (v_off x + j =? v_off r + i) = false.
Proof.
  intros S L O Hi Hij Hj. unfold opd_safe in S.
  destruct (Nat.eqb (v_loc x) (v_loc r)); simpl in *; [|reflexivity].
  apply Z.eqb_neq. apply orb_prop in S. destruct S as [S|S]; apply Z.leb_le in S; lia.
Qed.

Lemma loop_spec : forall k p H, Z.of_nat p + Z.of_nat k = v_len r ->
  vwf H r -> vwf H a -> vwf H b ->
  (forall j, Z.of_nat p <= j < v_len r -> vcell H a j = vcell H0 a j /\ vcell H b j = vcell H0 b j) ->
  let H' := fold_left step (map Z.of_nat (seq p k)) H in
  vwf H' r /\ (forall l, l <> v_loc r -> store_of H' l = store_of H l) /\
  (forall j, Z.of_nat p <= j < v_len r -> vcell H' r j = res j) /\
  (forall j, 0 <= j < Z.of_nat p -> vcell H' r j = vcell H r j).
Proof.
  induction k as [|k IH]; intros p H Hn W1 W2 W3 Hc; cbv zeta; simpl.
  - split; [exact W1|]. split; [reflexivity|]. split; [intros j Hj; lia|reflexivity].
  - set (i := Z.of_nat p). assert (Hi : 0 <= i < v_len r) by (unfold i; lia).
    set (H1 := step H i).
    assert (L : (v_loc r < length H)%nat) by apply W1.
    assert (V1 : vwf H1 r) by (apply vwf_vwr; auto).
    assert (V2 : vwf H1 a) by (apply vwf_vwr; auto).
    assert (V3 : vwf H1 b) by (apply vwf_vwr; auto).
    destruct (IH (S p) H1) as [A1 [A2 [A3 A4]]]; auto; try lia.
    { intros j Hj. destruct (Hc j) as [Ca Cb]; [lia|].
      unfold H1, step. rewrite !vcell_vwr by (auto; destruct Wa as (_ & ? & _), Wb as (_ & ? & _);
                                              destruct W2 as (_ & ? & _), W3 as (_ & ? & _); lia).
      rewrite (safe_later a i j), (safe_later b i j); auto; try lia; try apply W2; try apply W3. }
    cbv zeta in *.
    split; [exact A1|].
    split; [intros l Hl; rewrite A2 by exact Hl; apply store_vwr_other; exact Hl|].
    split.
    + intros j Hj. destruct (Z.eq_dec j i) as [E|E].
      * subst j. rewrite A4 by lia. unfold H1, step.
        rewrite vcell_vwr by (auto; destruct W1 as (_ & ? & _); lia).
        rewrite Nat.eqb_refl, Z.eqb_refl. simpl. unfold res.
        destruct (Hc i) as [Ca Cb]; [lia|]. rewrite Ca, Cb. reflexivity.
      * apply A3. lia.
    + intros j Hj. rewrite A4 by lia. unfold H1, step.
      rewrite vcell_vwr by (auto; destruct W1 as (_ & ? & _); lia).
      rewrite Nat.eqb_refl. simpl. destruct (Z.eqb_spec (v_off r + j) (v_off r + i)); [lia|reflexivity].
Qed.

Theorem vew_alias_safe :
  exists H', vEw f H0 r a b = ROk H' /\
    (forall i, 0 <= i < v_len r -> vAT H' r i = ROk (ew_fun f (vcell H0 a i) (vcell H0 b i))) /\
    (forall l, l <> v_loc r -> store_of H' l = store_of H0 l).
Proof.
  unfold vEw. rewrite La, Lb, !Z.eqb_refl. simpl.
  destruct (foldR_ok (fun H => vwf H r /\ vwf H a /\ vwf H b)
              (fun H i => x <- vAT H a i ;; y <- vAT H b i ;; vSET H r i (ew_fun f x y)) step (zseq (v_len r)))
    with (s := H0) as [E _]; auto.
  { intros H i Hi (W1 & W2 & W3). apply in_zseq in Hi.
    rewrite (vAT_ok H a i W2) by lia. simpl. rewrite (vAT_ok H b i W3) by lia. simpl.
    split; [apply vSET_ok; auto|].
    assert (L : (v_loc r < length H)%nat) by apply W1.
    split; [|split]; apply vwf_vwr; auto. }
  rewrite E. unfold zseq.
  assert (N : 0 <= v_len r) by apply Wr.
  destruct (loop_spec (Z.to_nat (v_len r)) 0 H0) as [A1 [A2 [A3 A4]]]; auto; try lia.
  cbv zeta in *. eexists. split; [reflexivity|]. split.
  - intros i Hi. rewrite vAT_ok by auto. f_equal. apply A3. lia.
  - exact A2.
Qed.
End Ew.

(* ---------------------------------------------------------------- refuted: receiver shifted to the right *)
(* v = [1;2;3;4], w = [10;10;10]:  v[1:4].VaddV(v[0:3], w)  gives [11;21;31], a fresh receiver [11;12;13] *)
Lemma vew_right_shift_refuted :
  let H := [[1; 2; 3; 4]; [10; 10; 10]] in
  let r := mkVec 0 1 3 in let a := mkVec 0 0 3 in let b := mkVec 1 0 3 in
  opd_safe r a = false /\
  vEw 0 H r a b = ROk [[1; 11; 21; 31]; [10; 10; 10]] /\
  map (fun i => ew_fun 0 (vcell H a i) (vcell H b i)) [0; 1; 2] = [11; 12; 13].
Proof. vm_compute. repeat split. Qed.
(* the mirrored call (receiver shifted to the LEFT) is covered by the theorem *)
Lemma vew_left_shift_ok :
  let H := [[1; 2; 3; 4]; [10; 10; 10]] in
  let r := mkVec 0 0 3 in let a := mkVec 0 1 3 in let b := mkVec 1 0 3 in
  opd_safe r a = true /\ vEw 0 H r a b = ROk [[12; 13; 14; 4]; [10; 10; 10]].
Proof. vm_compute. split; reflexivity. Qed.

(* ---------------------------------------------------------------- MdotV / VdotM *)
(* the rejection fires exactly when receiver and vector operand start at the same cell *)
Theorem mdotv_rejects_same_start real H r a b :
  same_first r b = true -> 0 < d_rows a -> 0 < d_cols a -> v_len r = d_rows a -> v_len b = d_cols a ->
  vMdotV real H r a b = RPanic.
Proof.
  intros S Pr Pc Lr Lb. unfold vMdotV.
  replace (k_dims real a) with (d_rows a, d_cols a) by (destruct real; reflexivity).
  rewrite Lr, Lb, !Z.eqb_refl. simpl.
  replace (d_rows a =? 0) with false by (symmetry; apply Z.eqb_neq; lia).
  replace (d_cols a =? 0) with false by (symmetry; apply Z.eqb_neq; lia).
  simpl. rewrite S. reflexivity.
Qed.
Theorem vdotm_rejects_same_start real H r a b :
  same_first r a = true -> 0 < d_rows b -> 0 < d_cols b -> v_len r = d_cols b -> v_len a = d_rows b ->
  vVdotM real H r a b = RPanic.
Proof.
  intros S Pr Pc Lr La. unfold vVdotM.
  replace (k_dims real b) with (d_rows b, d_cols b) by (destruct real; reflexivity).
  rewrite Lr, La, !Z.eqb_refl. simpl.
  replace (d_rows b =? 0) with false by (symmetry; apply Z.eqb_neq; lia).
  replace (d_cols b =? 0) with false by (symmetry; apply Z.eqb_neq; lia).
  simpl. rewrite S. reflexivity.
Qed.

(* a shifted overlap is NOT rejected and the product is wrong:
   a = [[1,1],[1,1]], v = [1;2;3]:  v[1:3].MdotV(a, v[0:2])  leaves r = [2;3]; a . [1;2] = [3;3] *)
Lemma mdotv_shift_refuted :
  let H := [[1; 1; 1; 1]; [1; 2; 3]] in
  let a := new_mat 0 2 2 in let r := mkVec 1 1 2 in let b := mkVec 1 0 2 in
  same_first r b = false /\ vMdotV false H r a b = ROk [[1; 1; 1; 1]; [1; 2; 3]] /\ map (fun i => dotZ (cell H a) (fun k _ => vcell H b k) i 0 2) [0; 1] = [3; 3].
Proof. vm_compute. repeat split. Qed.
