(* C08/ProofsComb.v — the read-before-write argument for the chain-rule
   combinators, for an ARBITRARY carrier (floats included): iteration (i,j),
   i <= j, of the Hessian loop reads only slots (i,j) / (i) / (j) of the operands,
   no earlier iteration wrote (i,j) or the gradient; the gradient loop reads slot
   i before writing it; the value is written last.  Hence the closed form
   [canon] of the receiver, whatever register the receiver is. *)
From Coq Require Import ZArith List Bool Arith Lia.
From ADV Require Import Base.Fl C01.Model C08.Spec C08.ProofsList.
Import ListNotations.
Local Arguments Nat.leb : simpl never.
Local Arguments Nat.eqb : simpl never.
Local Arguments Nat.ltb : simpl never.

Section Comb.
Context {A : Type} (F : Fl A) (r32 : A -> A).
Notation StA := (@St A).
Notation gdA := (gd F).
Notation ghA := (gh F).
Notation hgetA := (hget F).
Notation z := (zero F).

Lemma hget_hset_same n h i j v : square n h -> i < n -> j < n -> hgetA (hset h i j v) i j = v.
Proof.
  intros [Hl Hr] Hi Hj. unfold hget, hset.
  rewrite nth_upd_nth_same by lia. apply nth_upd_nth_same. rewrite Hr; auto.
Qed.

Lemma hget_hset_other h i j k l v : (i, j) <> (k, l) -> hgetA (hset h i j v) k l = hgetA h k l.
Proof.
  intros Hne. unfold hget, hset.
  destruct (Nat.eq_dec i k) as [E|E].
  - subst k. destruct (lt_dec i (length h)) as [Hi|Hi].
    + rewrite nth_upd_nth_same by auto. apply nth_upd_nth_other. congruence.
    + rewrite upd_nth_oob by lia. reflexivity.
  - rewrite nth_upd_nth_other by auto. reflexivity.
Qed.

Lemma square_hset n (h : list (list A)) i j v : square n h -> square n (hset h i j v).
Proof.
  intros [Hl Hr]. unfold hset. split.
  - rewrite length_upd_nth; auto.
  - intros k Hk. destruct (Nat.eq_dec i k) as [E|E].
    + subst k. rewrite nth_upd_nth_same by lia. rewrite length_upd_nth. auto.
    + rewrite nth_upd_nth_other by auto. auto.
Qed.

Lemma square_repeat n : square n (repeat (repeat z n) n).
Proof.
  split; [apply repeat_length|]. intros i Hi. rewrite nth_repeat_any by auto. apply repeat_length.
Qed.

Lemma upd_same (s : StA) c r : upd s c r c = r.
Proof. unfold upd. rewrite Nat.eqb_refl. reflexivity. Qed.
Lemma upd_other (s : StA) c r q : q <> c -> upd s c r q = s q.
Proof. intro H. unfold upd. destruct (Nat.eqb_spec q c); congruence. Qed.

(* ------------------------------------------------------------------ Hessian loop *)
Definition gen_hstep (c : nat) (val : StA -> nat -> nat -> A) (s : StA) (p : nat * nat) : StA :=
  let '(i, j) := p in
  let v := val s i j in
  let s1 := upd s c (set_h r32 (s c) i j v) in
  upd s1 c (set_h r32 (s1 c) j i (ghA (s1 c) i j)).

(* s1 is s except for the Hessian storage of c at positions in P *)
Definition hsim (c : nat) (P : nat -> nat -> Prop) (s s1 : StA) : Prop :=
  (forall q, q <> c -> s1 q = s q) /\
  rk (s1 c) = rk (s c) /\ rval (s1 c) = rval (s c) /\ rorder (s1 c) = rorder (s c) /\
  rn (s1 c) = rn (s c) /\ rderiv (s1 c) = rderiv (s c) /\
  forall k l, ~ P k l -> hgetA (rhess (s1 c)) k l = hgetA (rhess (s c)) k l.

Lemma hsim_refl c P s : hsim c P s s.
Proof. unfold hsim. repeat (split; [reflexivity|]). reflexivity. Qed.

(* [val] reads the receiver's Hessian only at the position it is asked for *)
Definition hstable (c : nat) (val : StA -> nat -> nat -> A) : Prop :=
  forall s s1 P k l, hsim c P s s1 -> ~ P k l -> val s1 k l = val s k l.

Lemma minmax_pair i j k l : i <= j -> (Nat.min k l, Nat.max k l) = (i, j) -> (k, l) = (i, j) \/ (k, l) = (j, i).
Proof. intros H E. inversion E. destruct (le_lt_dec k l); [left|right]; f_equal; lia. Qed.

Lemma gh_set_h_same n (r : Reg A) i j v :
  2 <= rorder r -> square n (rhess r) -> i < n -> j < n -> ghA (set_h r32 r i j v) i j = rndk r32 (rk r) v.
Proof.
  intros Ho Hsq Hi Hj. unfold gh, set_h. cbn [rorder rhess].
  destruct (Nat.leb_spec 2 (rorder r)); [|lia]. apply (hget_hset_same n); auto.
Qed.

Lemma gen_hstep_c c val (s : StA) i j :
  gen_hstep c val s (i, j) c =
  set_h r32 (set_h r32 (s c) i j (val s i j)) j i (ghA (set_h r32 (s c) i j (val s i j)) i j).
Proof. unfold gen_hstep. rewrite !upd_same. reflexivity. Qed.

Notation rr k v := (rndk r32 k (rndk r32 k v)).

Lemma gen_hstep_facts c val n s i j :
  i <= j < n -> 2 <= rorder (s c) -> square n (rhess (s c)) ->
  let s1 := gen_hstep c val s (i, j) in
  hsim c (fun k l => (k, l) = (i, j) \/ (k, l) = (j, i)) s s1 /\ square n (rhess (s1 c)) /\
  hgetA (rhess (s1 c)) i j = hround r32 (rk (s c)) i j (val s i j) /\
  hgetA (rhess (s1 c)) j i = rr (rk (s c)) (val s i j).
Proof.
  intros Hij Ho Hsq. cbv zeta.
  assert (Hoth : forall q, q <> c -> gen_hstep c val s (i, j) q = s q).
  { intros q Hq. unfold gen_hstep. rewrite !upd_other by auto. reflexivity. }
  unfold hsim. rewrite gen_hstep_c. rewrite (gh_set_h_same n) by (auto; lia).
  set (v := val s i j).
  unfold set_h. cbn [rk rval rorder rn rderiv rhess].
  split; [|split; [|split]].
  - split; [exact Hoth|]. do 5 (split; [reflexivity|]).
    intros k l HP. rewrite !hget_hset_other; auto; intro E; apply HP; inversion E; auto.
  - apply square_hset, square_hset; apply Hsq.
  - unfold hround. destruct (Nat.eq_dec i j) as [E|E].
    + subst j. destruct (Nat.ltb_spec i i); [lia|]. apply (hget_hset_same n); try lia. apply square_hset; auto.
    + destruct (Nat.ltb_spec i j); [|lia].
      rewrite hget_hset_other by congruence. apply (hget_hset_same n); auto; lia.
  - apply (hget_hset_same n); try lia. apply square_hset; auto.
Qed.

Lemma gen_hloop c val n (Hst : hstable c val) : forall ps s,
  NoDup ps -> (forall i j, In (i, j) ps -> i <= j < n) ->
  2 <= rorder (s c) -> square n (rhess (s c)) ->
  let s' := fold_left (gen_hstep c val) ps s in
  hsim c (fun k l => In (Nat.min k l, Nat.max k l) ps) s s' /\ square n (rhess (s' c)) /\
  forall k l, In (Nat.min k l, Nat.max k l) ps ->
    hgetA (rhess (s' c)) k l = hround r32 (rk (s c)) k l (val s (Nat.min k l) (Nat.max k l)).
Proof.
  induction ps as [|[i j] ps IH]; intros s Hnd Hb Ho Hsq; cbv zeta; cbn [fold_left].
  - split; [apply hsim_refl|]. split; [exact Hsq|]. intros k l [].
  - apply NoDup_cons_iff in Hnd. destruct Hnd as [Hnin Hnd'].
    assert (Hij : i <= j < n) by (apply Hb; simpl; auto).
    destruct (gen_hstep_facts c val n s i j Hij Ho Hsq) as [Hs1 [Hsq1 [Hv1 Hv2]]].
    set (s1 := gen_hstep c val s (i, j)) in *.
    assert (Hs1' := Hs1).
    destruct Hs1 as [Ho1 [Hk1 [Hval1 [Hor1 [Hn1 [Hd1 Hh1]]]]]].
    destruct (IH s1 Hnd') as [Hs' [Hsq' Hv']].
    { intros a b Hin. apply Hb. simpl; auto. }
    { rewrite Hor1; auto. }
    { auto. }
    set (s' := fold_left (gen_hstep c val) ps s1) in *.
    destruct Hs' as [Ho' [Hk' [Hval' [Hor' [Hn' [Hd' Hh']]]]]].
    split; [|split].
    + unfold hsim. split; [intros q Hq; rewrite Ho', Ho1; auto|].
      split; [congruence|]. split; [congruence|]. split; [congruence|]. split; [congruence|]. split; [congruence|].
      intros k l HP. rewrite Hh'.
      * apply Hh1. intros [E|E]; apply HP; left; inversion E; subst.
        -- rewrite Nat.min_l, Nat.max_r by lia. reflexivity.
        -- rewrite Nat.min_r, Nat.max_l by lia. reflexivity.
      * intro Hin. apply HP. right. exact Hin.
    + exact Hsq'.
    + intros k l [E|Hin].
      * (* the pair processed first; never touched again *)
        assert (Hnin' : ~ In (Nat.min k l, Nat.max k l) ps) by (rewrite <- E; exact Hnin).
        rewrite Hh' by exact Hnin'.
        inversion E as [[E1 E2]].
        destruct (minmax_pair i j k l (proj1 Hij) (eq_sym E)) as [E3|E3]; inversion E3; subst k l.
        -- rewrite <- E1, <- E2. exact Hv1.
        -- rewrite Hv2. unfold hround.
           destruct (Nat.ltb_spec j i); [lia|]. rewrite <- E1, <- E2. reflexivity.
      * rewrite Hv' by exact Hin. rewrite Hk1. f_equal.
        apply (Hst s s1 (fun k l => (k, l) = (i, j) \/ (k, l) = (j, i))); [exact Hs1'|].
        intros [E|E].
        -- apply Hnin. rewrite <- E. exact Hin.
        -- inversion E as [[E1 E2]]. assert (Eij : i = j) by lia. apply Hnin.
           replace (i, j) with (Nat.min k l, Nat.max k l); [exact Hin|]. rewrite E1, E2. f_equal; lia.
Qed.

(* ------------------------------------------------------------------ gradient loop *)
Definition gen_gstep (c : nat) (val : StA -> nat -> A) (s : StA) (i : nat) : StA :=
  upd s c (set_d r32 (s c) i (val s i)).

Definition dsim (c : nat) (P : nat -> Prop) (s s1 : StA) : Prop :=
  (forall q, q <> c -> s1 q = s q) /\
  rk (s1 c) = rk (s c) /\ rval (s1 c) = rval (s c) /\ rorder (s1 c) = rorder (s c) /\
  rn (s1 c) = rn (s c) /\ rhess (s1 c) = rhess (s c) /\ length (rderiv (s1 c)) = length (rderiv (s c)) /\
  forall k, ~ P k -> nth k (rderiv (s1 c)) z = nth k (rderiv (s c)) z.

Lemma dsim_refl c P s : dsim c P s s.
Proof. unfold dsim. repeat (split; [reflexivity|]). reflexivity. Qed.

Definition dstable (c : nat) (val : StA -> nat -> A) : Prop :=
  forall s s1 P k, dsim c P s s1 -> ~ P k -> val s1 k = val s k.

Lemma gen_gloop c val n (Hst : dstable c val) : forall l s,
  NoDup l -> (forall i, In i l -> i < n) -> length (rderiv (s c)) = n ->
  let s' := fold_left (gen_gstep c val) l s in
  dsim c (fun k => In k l) s s' /\
  forall k, In k l -> nth k (rderiv (s' c)) z = rndk r32 (rk (s c)) (val s k).
Proof.
  induction l as [|i l IH]; intros s Hnd Hb Hlen; cbv zeta; cbn [fold_left].
  - split; [apply dsim_refl|]. intros k [].
  - apply NoDup_cons_iff in Hnd. destruct Hnd as [Hnin Hnd'].
    set (s1 := gen_gstep c val s i).
    assert (Hc1 : s1 c = set_d r32 (s c) i (val s i)) by (unfold s1, gen_gstep; apply upd_same).
    assert (Hs1 : dsim c (fun k => k = i) s s1).
    { unfold dsim. rewrite Hc1. unfold set_d. cbn [rk rval rorder rn rderiv rhess].
      split; [intros q Hq; unfold s1, gen_gstep; apply upd_other; auto|].
      do 5 (split; [reflexivity|]). split; [apply length_upd_nth|].
      intros k Hk. apply nth_upd_nth_other. congruence. }
    assert (Hvi : nth i (rderiv (s1 c)) z = rndk r32 (rk (s c)) (val s i)).
    { rewrite Hc1. unfold set_d. cbn [rderiv]. apply nth_upd_nth_same.
      rewrite Hlen. apply Hb. simpl; auto. }
    assert (Hs1' := Hs1).
    destruct Hs1 as [Ho1 [Hk1 [Hval1 [Hor1 [Hn1 [Hh1 [Hl1 Hd1]]]]]]].
    destruct (IH s1 Hnd') as [Hs' Hv'].
    { intros a Ha. apply Hb; simpl; auto. }
    { rewrite Hl1; auto. }
    set (s' := fold_left (gen_gstep c val) l s1) in *.
    destruct Hs' as [Ho' [Hk' [Hval' [Hor' [Hn' [Hh' [Hl' Hd']]]]]]].
    split.
    + unfold dsim. split; [intros q Hq; rewrite Ho', Ho1; auto|].
      do 6 (split; [congruence|]).
      intros k HP. rewrite Hd'.
      * apply Hd1. intro E. apply HP. left. auto.
      * intro Hin. apply HP. right. auto.
    + intros k [E|Hin].
      * subst k. rewrite Hd' by exact Hnin. exact Hvi.
      * rewrite Hv' by exact Hin. rewrite Hk1. f_equal.
        apply (Hst s s1 (fun k => k = i)); [exact Hs1'|].
        intro E. subst. contradiction.
Qed.

(* ------------------------------------------------------------------ reads of operands *)
Lemma gd_hsim c P s s1 (a : opd A) i : hsim c P s s1 -> gdA (rd s1 a) i = gdA (rd s a) i.
Proof.
  intros [Ho [Hk [Hv [Hor [Hn [Hd Hh]]]]]]. destruct a as [q|v]; simpl; auto.
  destruct (Nat.eq_dec q c) as [E|E]; [subst q|rewrite Ho; auto].
  unfold gd. rewrite Hor, Hd. reflexivity.
Qed.
Lemma gh_hsim c P s s1 (a : opd A) k l : hsim c P s s1 -> ~ P k l -> ghA (rd s1 a) k l = ghA (rd s a) k l.
Proof.
  intros [Ho [Hk [Hv [Hor [Hn [Hd Hh]]]]]] HP. destruct a as [q|v]; simpl; auto.
  destruct (Nat.eq_dec q c) as [E|E]; [subst q|rewrite Ho; auto].
  unfold gh. rewrite Hor. destruct (2 <=? rorder (s c)); auto.
Qed.
Lemma gd_dsim c P s s1 (a : opd A) k : dsim c P s s1 -> ~ P k -> gdA (rd s1 a) k = gdA (rd s a) k.
Proof.
  intros [Ho [Hk [Hv [Hor [Hn [Hh [Hl Hd]]]]]]] HP. destruct a as [q|v]; simpl; auto.
  destruct (Nat.eq_dec q c) as [E|E]; [subst q|rewrite Ho; auto].
  unfold gd. rewrite Hor. destruct (1 <=? rorder (s c)); auto.
Qed.

(* ------------------------------------------------------------------ Alloc *)
Lemma shape_alloc r n o : shape r -> shape (alloc F r n o).
Proof.
  intros Hw. unfold alloc. destruct (Nat.eqb (rn r) n && Nat.eqb (rorder r) o); auto.
  split; simpl; intro Ho.
  - destruct (Nat.leb_spec 1 o); [|lia]. apply repeat_length.
  - destruct (Nat.leb_spec 1 o); [|lia]. destruct (Nat.leb_spec 2 o); [|lia]. apply square_repeat.
Qed.
Lemma alloc_n r n o : rn (alloc F r n o) = n.
Proof.
  unfold alloc. destruct (Nat.eqb_spec (rn r) n); simpl; auto.
  destruct (Nat.eqb_spec (rorder r) o); simpl; auto.
Qed.
Lemma alloc_order r n o : rorder (alloc F r n o) = o.
Proof.
  unfold alloc. destruct (Nat.eqb_spec (rn r) n); simpl; auto.
  destruct (Nat.eqb_spec (rorder r) o); simpl; auto.
Qed.
Lemma alloc_kv r n o : rk (alloc F r n o) = rk r /\ rval (alloc F r n o) = rval r.
Proof. unfold alloc. destruct (Nat.eqb (rn r) n && Nat.eqb (rorder r) o); simpl; auto. Qed.
Lemma alloc_noop r : alloc F r (rn r) (rorder r) = r.
Proof. unfold alloc. rewrite !Nat.eqb_refl. reflexivity. Qed.
(* a register that IS reallocated reads as all-zero derivatives *)
Lemma alloc_fresh_gd r n o i : (rn r =? n) && (rorder r =? o) = false -> gdA (alloc F r n o) i = z.
Proof.
  intro H. unfold alloc. rewrite H. unfold gd. cbn [rorder rderiv].
  destruct (1 <=? o); [|reflexivity]. apply nth_repeat_dflt.
Qed.
Lemma alloc_fresh_gh r n o i j : (rn r =? n) && (rorder r =? o) = false -> ghA (alloc F r n o) i j = z.
Proof.
  intro H. unfold alloc. rewrite H. unfold gh. cbn [rorder rhess].
  destruct (Nat.leb_spec 2 o) as [H2|H2]; [|reflexivity].
  destruct (Nat.leb_spec 1 o); [|lia]. unfold hget.
  destruct (lt_dec i n) as [Hi|Hi].
  - rewrite nth_repeat_any by exact Hi. apply nth_repeat_dflt.
  - rewrite (nth_overflow (repeat (repeat z n) n) []); [destruct j; reflexivity|rewrite repeat_length; lia].
Qed.

(* ------------------------------------------------------------------ the two loops *)
Lemma body_spec c (hval : StA -> nat -> nat -> A) (gval : StA -> nat -> A) (s0 : StA) :
  hstable c hval -> dstable c gval ->
  (forall P s s1 i, hsim c P s s1 -> gval s1 i = gval s i) ->
  shape (s0 c) ->
  let o := rorder (s0 c) in let n := rn (s0 c) in let k := rk (s0 c) in
  let sg := if 1 <=? o then
              fold_left (gen_gstep c gval) (seq 0 n)
                (if 2 <=? o then fold_left (gen_hstep c hval) (upairs n) s0 else s0)
            else s0 in
  (forall q, q <> c -> sg q = s0 q) /\ rk (sg c) = k /\ rval (sg c) = rval (s0 c) /\
  rorder (sg c) = o /\ rn (sg c) = n /\ shape (sg c) /\
  (1 <= o -> forall i, i < n -> nth i (rderiv (sg c)) z = rndk r32 k (gval s0 i)) /\
  (2 <= o -> forall i j, i < n -> j < n ->
     hgetA (rhess (sg c)) i j = hround r32 k i j (hval s0 (Nat.min i j) (Nat.max i j))).
Proof.
  intros Hhst Hdst Hgh Hw0 o n k. cbv zeta.
  destruct (Nat.leb_spec 1 o) as [H1|H1].
  2:{ split; [auto|]. do 4 (split; [reflexivity|]). split; [exact Hw0|]. split; intros; lia. }
  set (sh := if 2 <=? o then fold_left (gen_hstep c hval) (upairs n) s0 else s0).
  assert (Hsh : hsim c (fun k l => 2 <= o /\ k < n /\ l < n) s0 sh /\
                (2 <= o -> square n (rhess (sh c)) /\
                   forall i j, i < n -> j < n ->
                     hgetA (rhess (sh c)) i j = hround r32 k i j (hval s0 (Nat.min i j) (Nat.max i j)))).
  { unfold sh. destruct (Nat.leb_spec 2 o) as [H2|H2].
    - destruct (gen_hloop c hval n Hhst (upairs n) s0) as [Hs [Hsq Hv]].
      + apply NoDup_upairs.
      + intros i j Hin. apply in_upairs; auto.
      + exact H2.
      + destruct Hw0 as [_ Hw0]. apply Hw0. exact H2.
      + split.
        * destruct Hs as [Q1 [Q2 [Q3 [Q4 [Q5 [Q6 Q7]]]]]]. unfold hsim. do 6 (split; [assumption|]).
          intros i j HP. apply Q7. intro Hin. apply in_upairs in Hin. apply HP. split; [exact H2|]. lia.
        * intros _. split; [exact Hsq|]. intros i j Hi Hj. apply Hv. apply in_upairs. lia.
    - split; [apply hsim_refl|intros; lia]. }
  destruct Hsh as [Hsim Hhv].
  assert (Hsim' := Hsim).
  destruct Hsim as [P1 [P2 [P3 [P4 [P5 [P6 P7]]]]]].
  assert (Hlen : length (rderiv (sh c)) = n).
  { rewrite P6. destruct Hw0 as [Hw0 _]. apply Hw0. exact H1. }
  destruct (gen_gloop c gval n Hdst (seq 0 n) sh) as [Hgs Hgv].
  { apply seq_NoDup. } { intros i Hi. apply in_seq in Hi. lia. } { exact Hlen. }
  set (sg := fold_left (gen_gstep c gval) (seq 0 n) sh) in *.
  destruct Hgs as [G1 [G2 [G3 [G4 [G5 [G6 [G7 G8]]]]]]].
  split; [intros q Hq; rewrite G1, P1; auto|].
  split; [unfold k; congruence|]. split; [congruence|]. split; [unfold o; congruence|]. split; [unfold n; congruence|].
  split.
  { split.
    - intros _. rewrite G7, G5, P5. exact Hlen.
    - intros H2. rewrite G4, P4 in H2. rewrite G6, G5, P5. apply Hhv. exact H2. }
  split.
  - intros _ i Hi. rewrite Hgv by (apply in_seq; lia). rewrite P2. f_equal. apply (Hgh _ s0 sh i Hsim').
  - intros H2 i j Hi Hj. rewrite G6. apply Hhv; auto.
Qed.

(* the receiver after the loops, in closed form *)
Lemma norm_canon (r : Reg A) k v0 n o g h :
  rk r = k -> rval r = rndk r32 k v0 -> rorder r = o -> rn r = n -> shape r ->
  (1 <= o -> forall i, i < n -> nth i (rderiv r) z = rndk r32 k (g i)) ->
  (2 <= o -> forall i j, i < n -> j < n -> hgetA (rhess r) i j = hround r32 k i j (h (Nat.min i j) (Nat.max i j))) ->
  norm r = canon r32 k v0 n o g h.
Proof.
  intros Hk Hv Ho Hn [Sd Sh] Hg Hh. unfold norm, canon. rewrite Hk, Hv, Ho, Hn. f_equal.
  - destruct (Nat.leb_spec 1 o) as [H1|H1]; [|reflexivity].
    apply (list_eq_map_nth _ z).
    + rewrite <- Hn. apply Sd. lia.
    + intros i Hi. apply Hg; auto.
  - destruct (Nat.leb_spec 2 o) as [H2|H2]; [|reflexivity].
    destruct Sh as [Sl Sr]; [lia|]. rewrite Hn in Sl, Sr.
    apply (list_eq_map_nth _ []); [exact Sl|].
    intros i Hi. apply (list_eq_map_nth _ z); [apply Sr; exact Hi|].
    intros j Hj. apply (Hh H2 i j Hi Hj).
Qed.

Lemma canon_ext k v0 n o g g' h h' :
  (forall i, i < n -> g i = g' i) -> (forall i j, i < n -> j < n -> h i j = h' i j) ->
  canon r32 k v0 n o g h = canon r32 k v0 n o g' h'.
Proof.
  intros Hg Hh. unfold canon. f_equal.
  - destruct (1 <=? o); [|reflexivity]. apply map_ext_in. intros i Hi. apply in_seq in Hi. rewrite Hg by lia. reflexivity.
  - destruct (2 <=? o); [|reflexivity]. apply map_ext_in. intros i Hi. apply in_seq in Hi.
    apply map_ext_in. intros j Hj. apply in_seq in Hj. rewrite Hh by lia. reflexivity.
Qed.

Lemma shape_set_v r v : shape r -> shape (set_v r32 r v). Proof. intro H. exact H. Qed.

(* ------------------------------------------------------------------ monadic *)
Definition mon_val (a : opd A) (v1 v2 : A) (s : StA) (i j : nat) : A := mon_h F (rd s a) v1 v2 i j.
Definition mon_gval (a : opd A) (v1 : A) (s : StA) (i : nat) : A := mon_g F (rd s a) v1 i.

Lemma mon_hstep_gen c a v1 v2 : mon_hstep F r32 c a v1 v2 = gen_hstep c (mon_val a v1 v2).
Proof. reflexivity. Qed.
Lemma mon_gstep_gen c a v1 : mon_gstep F r32 c a v1 = gen_gstep c (mon_gval a v1).
Proof. reflexivity. Qed.

Lemma mon_val_stable c a v1 v2 : hstable c (mon_val a v1 v2).
Proof.
  intros s s1 P k l Hs HP. unfold mon_val, mon_h.
  rewrite !(gd_hsim c P s s1 a _ Hs), (gh_hsim c P s s1 a k l Hs HP). reflexivity.
Qed.
Lemma mon_gval_stable c a v1 : dstable c (mon_gval a v1).
Proof. intros s s1 P k Hs HP. unfold mon_gval, mon_g. rewrite (gd_dsim c P s s1 a k Hs HP). reflexivity. Qed.

Lemma rd_alloc_for_one c (a : opd A) s : rd (alloc_for_one F c a s) a = rd s a.
Proof.
  unfold alloc_for_one. destruct a as [q|v]; simpl; auto.
  destruct (Nat.eq_dec q c) as [E|E]; [subst q|apply upd_other; auto].
  rewrite upd_same. apply alloc_noop.
Qed.

(* THE ONE-OPERAND COMBINATOR, closed form — for every receiver c, the operand
   a included (c.Exp(c)): the result is a function of the operand alone. *)
Theorem monadic_closed c a v0 (f1 f2 : unit -> A) (s : StA) :
  shape (s c) ->
  exists s', monadic_lazy F r32 c a v0 f1 f2 s = Ok s' /\
    (forall q, q <> c -> s' q = s q) /\ shape (s' c) /\
    norm (s' c) = canon r32 (rk (s c)) v0 (rn (rd s a)) (rorder (rd s a))
                        (mon_g F (rd s a) (f1 tt)) (mon_h F (rd s a) (f1 tt) (f2 tt)).
Proof.
  intros Hwc. unfold monadic_lazy.
  set (s0 := alloc_for_one F c a s).
  set (RA := rd s a) in *.
  assert (HA0 : rd s0 a = RA) by apply rd_alloc_for_one.
  assert (Hc0 : s0 c = alloc F (s c) (rn RA) (rorder RA)) by (unfold s0, alloc_for_one; apply upd_same).
  assert (Hn0 : rn (s0 c) = rn RA) by (rewrite Hc0; apply alloc_n).
  assert (Ho0 : rorder (s0 c) = rorder RA) by (rewrite Hc0; apply alloc_order).
  assert (Hw0 : shape (s0 c)) by (rewrite Hc0; apply shape_alloc; auto).
  assert (Hoth0 : forall q, q <> c -> s0 q = s q) by (intros q Hq; unfold s0, alloc_for_one; apply upd_other; auto).
  assert (Hk0 : rk (s0 c) = rk (s c)) by (rewrite Hc0; apply alloc_kv).
  destruct (body_spec c (mon_val a (f1 tt) (f2 tt)) (mon_gval a (f1 tt)) s0
              (mon_val_stable c a (f1 tt) (f2 tt)) (mon_gval_stable c a (f1 tt)))
    as [B1 [B2 [B3 [B4 [B5 [B6 [B7 B8]]]]]]].
  { intros P t t1 i Hs. unfold mon_gval, mon_g. rewrite (gd_hsim c P t t1 a i Hs). reflexivity. }
  { exact Hw0. }
  cbv zeta in B1, B2, B3, B4, B5, B6, B7, B8.
  rewrite <- mon_hstep_gen, <- mon_gstep_gen in *.
  cbv zeta.
  match goal with |- context [upd ?X c (set_v r32 (?X c) v0)] => set (sg := X) in * end.
  eexists. split; [reflexivity|].
  split; [intros q Hq; rewrite upd_other by auto; rewrite B1, Hoth0; auto|].
  rewrite upd_same. split; [apply shape_set_v; exact B6|].
  apply norm_canon.
  - cbn [set_v rk]. congruence.
  - cbn [set_v rval]. rewrite B2, Hk0. reflexivity.
  - cbn [set_v rorder]. congruence.
  - cbn [set_v rn]. congruence.
  - apply shape_set_v. exact B6.
  - intros H1 i Hi. cbn [set_v rderiv]. rewrite B7 by (rewrite ?Ho0, ?Hn0; auto).
    rewrite Hk0. unfold mon_gval. rewrite HA0. reflexivity.
  - intros H2 i j Hi Hj. cbn [set_v rhess]. rewrite B8 by (rewrite ?Ho0, ?Hn0; auto).
    rewrite Hk0. unfold mon_val. rewrite HA0. reflexivity.
Qed.

(* ------------------------------------------------------------------ dyadic *)
Definition dy_val (a b : opd A) (v10 v01 v11 v20 v02 : A) (s : StA) (i j : nat) : A :=
  dy_h F (rd s a) (rd s b) v10 v01 v11 v20 v02 i j.
Definition dy_gval (a b : opd A) (v10 v01 : A) (s : StA) (i : nat) : A := dy_g F (rd s a) (rd s b) v10 v01 i.

Lemma dy_hstep_gen c a b v10 v01 v11 v20 v02 :
  dy_hstep F r32 c a b v10 v01 v11 v20 v02 = gen_hstep c (dy_val a b v10 v01 v11 v20 v02).
Proof. reflexivity. Qed.
Lemma dy_gstep_gen c a b v10 v01 : dy_gstep F r32 c a b v10 v01 = gen_gstep c (dy_gval a b v10 v01).
Proof. reflexivity. Qed.
Lemma dy_val_stable c a b v10 v01 v11 v20 v02 : hstable c (dy_val a b v10 v01 v11 v20 v02).
Proof.
  intros s s1 P k l Hs HP. unfold dy_val, dy_h.
  rewrite !(gd_hsim c P s s1 a _ Hs), !(gd_hsim c P s s1 b _ Hs),
          (gh_hsim c P s s1 a k l Hs HP), (gh_hsim c P s s1 b k l Hs HP). reflexivity.
Qed.
Lemma dy_gval_stable c a b v10 v01 : dstable c (dy_gval a b v10 v01).
Proof.
  intros s s1 P k Hs HP. unfold dy_gval, dy_g.
  rewrite (gd_dsim c P s s1 a k Hs HP), (gd_dsim c P s s1 b k Hs HP). reflexivity.
Qed.

(* what an operand looks like after AllocForTwo resized the receiver, under [keeps] *)
Lemma hits_spec c (x : opd A) : hits c x = true <-> x = Rg c.
Proof.
  destruct x as [k|v]; simpl; [|split; discriminate].
  destruct (Nat.eqb_spec k c); split; intro H; try congruence; try discriminate; try (inversion H; congruence).
Qed.

Lemma keeps_operand c (a b x : opd A) s :
  keeps c a b s = true -> (x = a \/ x = b) ->
  let s0 := alloc_for_two F c a b s in
  rn (rd s0 x) = (if hits c x then Nat.max (rn (rd s a)) (rn (rd s b)) else rn (rd s x)) /\
  rorder (rd s0 x) = (if hits c x then Nat.max (rorder (rd s a)) (rorder (rd s b)) else rorder (rd s x)) /\
  (forall i, gdA (rd s0 x) i = gdA (rd s x) i) /\ (forall i j, ghA (rd s0 x) i j = ghA (rd s x) i j).
Proof.
  intros Hk Hx. cbv zeta. unfold alloc_for_two.
  set (n := Nat.max (rn (rd s a)) (rn (rd s b))). set (o := Nat.max (rorder (rd s a)) (rorder (rd s b))).
  destruct (hits c x) eqn:Hh.
  - apply hits_spec in Hh. subst x. cbn [rd]. rewrite upd_same.
    split; [apply alloc_n|]. split; [apply alloc_order|].
    unfold keeps in Hk. fold n o in Hk.
    assert (Hab : hits c a || hits c b = true).
    { destruct Hx as [E|E]; rewrite <- E; simpl; rewrite Nat.eqb_refl; auto using orb_true_r. }
    rewrite Hab in Hk. cbn [negb orb] in Hk.
    destruct ((rn (s c) =? n) && (rorder (s c) =? o)) eqn:E1.
    + apply andb_prop in E1. destruct E1 as [E1 E2]. apply Nat.eqb_eq in E1, E2.
      rewrite <- E1, <- E2, alloc_noop. split; reflexivity.
    + cbn [orb] in Hk. apply andb_prop in Hk. destruct Hk as [E3 _]. apply Nat.eqb_eq in E3.
      split; [intro i|intros i j].
      * rewrite alloc_fresh_gd by exact E1. unfold gd. rewrite E3. reflexivity.
      * rewrite alloc_fresh_gh by exact E1. unfold gh. rewrite E3. reflexivity.
  - assert (Hne : forall k, x = Rg k -> k <> c).
    { intros k E Ekc. subst. simpl in Hh. rewrite Nat.eqb_refl in Hh. discriminate. }
    assert (Hrd : rd (upd s c (alloc F (s c) n o)) x = rd s x).
    { destruct x as [k|v]; simpl; auto. apply upd_other. apply Hne; auto. }
    rewrite Hrd. repeat split; reflexivity.
Qed.

Lemma keeps_guard c (a b : opd A) s :
  keeps c a b s = true ->
  let s0 := alloc_for_two F c a b s in dy_guard (rd s0 a) (rd s0 b) = dy_guard (rd s a) (rd s b).
Proof.
  intros Hk. cbv zeta.
  destruct (keeps_operand c a b a s Hk (or_introl eq_refl)) as [Na [Oa _]].
  destruct (keeps_operand c a b b s Hk (or_intror eq_refl)) as [Nb [Ob _]].
  cbv zeta in Na, Oa, Nb, Ob. unfold dy_guard. rewrite Na, Oa, Nb, Ob.
  unfold keeps in Hk.
  destruct (hits c a) eqn:Ha; destruct (hits c b) eqn:Hb; cbn [orb negb] in Hk; try reflexivity.
  - (* both operands are the receiver *)
    apply hits_spec in Ha, Hb. subst a b. cbn [rd] in *. rewrite (Nat.max_id (rorder (s c))). rewrite !Nat.max_id. reflexivity.
  - apply hits_spec in Ha. subst a. cbn [rd] in *.
    set (nb := rn (rd s b)) in *. set (ob := rorder (rd s b)) in *.
    set (nc := rn (s c)) in *. set (oc := rorder (s c)) in *.
    apply orb_prop in Hk. destruct Hk as [Hk|Hk]; apply andb_prop in Hk; destruct Hk as [K1 K2].
    + apply Nat.eqb_eq in K1, K2.
      assert (M1 : Nat.max nc nb = nc) by lia. assert (M2 : Nat.max oc ob = oc) by lia.
      rewrite !M1, !M2. reflexivity.
    + apply Nat.eqb_eq in K1. apply Nat.leb_le in K2. rewrite K1.
      assert (M1 : Nat.max nc nb = nb) by lia. rewrite !M1, !Nat.max_0_l, !Nat.max_id.
      replace (1 <=? 0) with false by reflexivity.
      destruct (Nat.leb_spec 1 ob) as [H1|H1]; [|reflexivity].
      rewrite Nat.eqb_refl. destruct (Nat.ltb_spec nb nb); [lia|]. cbn [andb negb orb]. reflexivity.
  - apply hits_spec in Hb. subst b. cbn [rd] in *.
    set (na := rn (rd s a)) in *. set (oa := rorder (rd s a)) in *.
    set (nc := rn (s c)) in *. set (oc := rorder (s c)) in *.
    apply orb_prop in Hk. destruct Hk as [Hk|Hk]; apply andb_prop in Hk; destruct Hk as [K1 K2].
    + apply Nat.eqb_eq in K1, K2.
      assert (M1 : Nat.max na nc = nc) by lia. assert (M2 : Nat.max oa oc = oc) by lia.
      rewrite !M1, !M2. reflexivity.
    + apply Nat.eqb_eq in K1. apply Nat.leb_le in K2. rewrite K1.
      assert (M1 : Nat.max na nc = na) by lia. rewrite !M1, !Nat.max_0_r, !Nat.max_id.
      replace (1 <=? 0) with false by reflexivity.
      destruct (Nat.leb_spec 1 oa) as [H1|H1]; [|reflexivity].
      rewrite Nat.eqb_refl. destruct (Nat.ltb_spec na na); [lia|]. cbn [andb negb orb].
      rewrite ?andb_false_r. reflexivity.
Qed.

(* THE TWO-OPERAND COMBINATOR, closed form — for every receiver c satisfying the
   computed side condition [keeps] (always true when c is not an operand) *)
Theorem dyadic_closed c a b v0 (f1 : unit -> A * A) (f2 : unit -> A * A * A) (s : StA) :
  shape (s c) -> keeps c a b s = true ->
  match dy_guard (rd s a) (rd s b) with
  | Some e => dyadic_lazy F r32 c a b v0 f1 f2 s = Panic e
  | None =>
    exists s', dyadic_lazy F r32 c a b v0 f1 f2 s = Ok s' /\
      (forall q, q <> c -> s' q = s q) /\ shape (s' c) /\
      norm (s' c) = canon r32 (rk (s c)) v0 (Nat.max (rn (rd s a)) (rn (rd s b)))
                          (Nat.max (rorder (rd s a)) (rorder (rd s b)))
                          (dy_g F (rd s a) (rd s b) (fst (f1 tt)) (snd (f1 tt)))
                          (dy_h F (rd s a) (rd s b) (fst (f1 tt)) (snd (f1 tt))
                                (fst (fst (f2 tt))) (snd (fst (f2 tt))) (snd (f2 tt)))
  end.
Proof.
  intros Hwc Hkeep. unfold dyadic_lazy.
  set (s0 := alloc_for_two F c a b s).
  assert (Hg := keeps_guard c a b s Hkeep). cbv zeta in Hg. fold s0 in Hg. rewrite Hg.
  destruct (dy_guard (rd s a) (rd s b)) as [e|]; [reflexivity|].
  destruct (keeps_operand c a b a s Hkeep (or_introl eq_refl)) as [_ [_ [GA HA]]].
  destruct (keeps_operand c a b b s Hkeep (or_intror eq_refl)) as [_ [_ [GB HB]]].
  cbv zeta in GA, HA, GB, HB. fold s0 in GA, HA, GB, HB.
  set (n := Nat.max (rn (rd s a)) (rn (rd s b))). set (o := Nat.max (rorder (rd s a)) (rorder (rd s b))).
  assert (Hc0 : s0 c = alloc F (s c) n o) by (unfold s0, alloc_for_two; apply upd_same).
  assert (Hn0 : rn (s0 c) = n) by (rewrite Hc0; apply alloc_n).
  assert (Ho0 : rorder (s0 c) = o) by (rewrite Hc0; apply alloc_order).
  assert (Hw0 : shape (s0 c)) by (rewrite Hc0; apply shape_alloc; auto).
  assert (Hoth0 : forall q, q <> c -> s0 q = s q) by (intros q Hq; unfold s0, alloc_for_two; apply upd_other; auto).
  assert (Hk0 : rk (s0 c) = rk (s c)) by (rewrite Hc0; apply alloc_kv).
  destruct (f1 tt) as [v10 v01] eqn:E1. destruct (f2 tt) as [[v11 v20] v02] eqn:E2. cbn [fst snd].
  destruct (body_spec c (dy_val a b v10 v01 v11 v20 v02) (dy_gval a b v10 v01) s0
              (dy_val_stable c a b v10 v01 v11 v20 v02) (dy_gval_stable c a b v10 v01))
    as [B1 [B2 [B3 [B4 [B5 [B6 [B7 B8]]]]]]].
  { intros P t t1 i Hs. unfold dy_gval, dy_g. rewrite (gd_hsim c P t t1 a i Hs), (gd_hsim c P t t1 b i Hs). reflexivity. }
  { exact Hw0. }
  cbv zeta in B1, B2, B3, B4, B5, B6, B7, B8.
  rewrite <- dy_hstep_gen, <- dy_gstep_gen in *.
  cbv zeta.
  match goal with |- context [upd ?X c (set_v r32 (?X c) v0)] => set (sg := X) in * end.
  eexists. split; [reflexivity|].
  split; [intros q Hq; rewrite upd_other by auto; rewrite B1, Hoth0; auto|].
  rewrite upd_same. split; [apply shape_set_v; exact B6|].
  rewrite (canon_ext _ _ _ _ _ (dy_g F (rd s0 a) (rd s0 b) v10 v01) _ (dy_h F (rd s0 a) (rd s0 b) v10 v01 v11 v20 v02)).
  2:{ intros i _. unfold dy_g. rewrite GA, GB. reflexivity. }
  2:{ intros i j _ _. unfold dy_h. rewrite !GA, !GB, HA, HB. reflexivity. }
  apply norm_canon.
  - cbn [set_v rk]. congruence.
  - cbn [set_v rval]. rewrite B2, Hk0. reflexivity.
  - cbn [set_v rorder]. congruence.
  - cbn [set_v rn]. congruence.
  - apply shape_set_v. exact B6.
  - intros H1 i Hi. cbn [set_v rderiv]. rewrite B7 by (rewrite ?Ho0, ?Hn0; auto).
    rewrite Hk0. reflexivity.
  - intros H2 i j Hi Hj. cbn [set_v rhess]. rewrite B8 by (rewrite ?Ho0, ?Hn0; auto).
    rewrite Hk0. reflexivity.
Qed.

End Comb.
