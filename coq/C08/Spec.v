(* C08/Spec.v — what property C08 says.

   Scalars.  The shared register-file model of C01/Model.v is an aliasing
   semantics: receiver, operands and temporaries are register ids, and the
   combinators read their operands THROUGH the state while they overwrite the
   receiver slot by slot.  Everything below is stated for an ARBITRARY carrier
   [A] with arbitrary operations [F : Fl A] and an arbitrary storage rounding
   [r32] — so the theorems of Props.v hold for binary64 / binary32 arithmetic
   exactly as the library computes, not only for the reals: alias independence
   is a read-before-write fact, no ring law is used.

   [norm r]    the observable part of a Go scalar object: kind, Value, Order, N,
               the gradient slice iff Order >= 1, the Hessian iff Order >= 2
               (stale storage kept by Alloc at lower order is not observable).
   [shape r]   the storage invariant of a Go Real object (every operation
               preserves it): len Derivative = N, Hessian N x N where present.
   [agree]     two outcomes of one operation issued with two different
               receivers agree: both panic with the same kind, or both return
               and the receivers hold the same observable state.
   [canon]     the closed form of what a combinator leaves in the receiver.

   Matrices / vectors: storage is a list of cells, a matrix is a header
   (C10/Gen.v, regenerated from /repo) over a storage location; the product of
   the element lists is [mat_prod]. *)
From Coq Require Import ZArith List Bool Arith.
From ADV Require Import Base.Fl C01.Model.
From ADV Require C10.Model.
Import ListNotations.

Section ScalarSpec.
Context {A : Type} (F : Fl A) (r32 : A -> A).

Definition norm (r : Reg A) : Reg A :=
  mkReg (rk r) (rval r) (rorder r) (rn r)
        (if 1 <=? rorder r then rderiv r else [])
        (if 2 <=? rorder r then rhess r else []).

Definition square (n : nat) (h : list (list A)) : Prop :=
  length h = n /\ forall i, i < n -> length (nth i h []) = n.
Definition shape (r : Reg A) : Prop :=
  (1 <= rorder r -> length (rderiv r) = rn r) /\ (2 <= rorder r -> square (rn r) (rhess r)).

(* outcome of  op(c, ...)  on s  versus  op(c', ...)  on s' *)
Definition agree (c c' : nat) (m m' : res (@St A)) : Prop :=
  match m, m' with
  | Ok t, Ok t' => norm (t c) = norm (t' c')
  | Panic e, Panic e' => e = e'
  | _, _ => False
  end.

(* storage rounding of the Hessian slots: (i,j) with i < j is stored once, the
   mirror slot (j,i) and the diagonal are read back and stored again *)
Definition hround (k : kind) (i j : nat) (v : A) : A :=
  if i <? j then rndk r32 k v else rndk r32 k (rndk r32 k v).

Definition canon (k : kind) (v0 : A) (n o : nat) (g : nat -> A) (h : nat -> nat -> A) : Reg A :=
  mkReg k (rndk r32 k v0) o n
    (if 1 <=? o then map (fun i => rndk r32 k (g i)) (seq 0 n) else [])
    (if 2 <=? o then map (fun i => map (fun j => hround k i j (h (Nat.min i j) (Nat.max i j))) (seq 0 n)) (seq 0 n)
     else []).

(* chain rule slots, as the Go loops write them (operation order of the float expressions kept) *)
Definition mon_g (ra : Reg A) (v1 : A) (i : nat) : A := fmul F (gd F ra i) v1.
Definition mon_h (ra : Reg A) (v1 v2 : A) (i j : nat) : A :=
  fadd F (fmul F (fmul F (gd F ra i) (gd F ra j)) v2) (fmul F (gh F ra i j) v1).
Definition dy_g (ra rb : Reg A) (v10 v01 : A) (i : nat) : A :=
  fadd F (fmul F (gd F ra i) v10) (fmul F (gd F rb i) v01).
Definition dy_h (ra rb : Reg A) (v10 v01 v11 v20 v02 : A) (i j : nat) : A :=
  fadd F (fadd F (fadd F (fadd F (fadd F
    (fmul F (gh F ra i j) v10) (fmul F (gh F rb i j) v01))
    (fmul F (fmul F (gd F ra i) (gd F ra j)) v20)) (fmul F (fmul F (gd F rb i) (gd F rb j)) v02))
    (fmul F (fmul F (gd F ra i) (gd F rb j)) v11)) (fmul F (fmul F (gd F rb i) (gd F ra j)) v11).

(* the operand is the receiver itself *)
Definition hits (c : nat) (x : opd A) : bool := match x with Rg k => Nat.eqb k c | Im _ => false end.

(* THE SIDE CONDITION under which a two-operand combinator does not depend on
   the receiver being one of its operands.  AllocForTwo resizes the receiver to
   (max N, max Order) BEFORE anything is read; when the receiver is an operand
   this is harmless iff
     - nothing is reallocated (receiver already has max N and max Order), or
     - the receiver is a constant (Order 0): the zeroed gradient it gets is the
       gradient its getters returned before (theorem 2: a constant receiver
       acquiring derivatives from the other, magic, operand);
   otherwise the operand's own derivatives are cleared (F-ALLOC). *)
Definition keeps (c : nat) (a b : opd A) (s : @St A) : bool :=
  let n := Nat.max (rn (rd s a)) (rn (rd s b)) in
  let o := Nat.max (rorder (rd s a)) (rorder (rd s b)) in
  negb (hits c a || hits c b)
  || (Nat.eqb (rn (s c)) n && Nat.eqb (rorder (s c)) o)
  || (Nat.eqb (rorder (s c)) 0 && (rn (s c) <=? rn (rd s (if hits c a then b else a)))).

(* Set (HEAD d9fca78: Alloc before Order is assigned) needs no side condition: every receiver
   satisfying [shape] is reallocated to the operand's N and Order when they differ.  The round-1
   condition set_ok (equal N implies equal Order, F-SETORD) is retired. *)

(* two operands (possibly in two different states) look the same to every getter *)
Definition jet_eq (ra rb : Reg A) : Prop :=
  rval ra = rval rb /\ rn ra = rn rb /\ rorder ra = rorder rb /\
  (forall i, gd F ra i = gd F rb i) /\ (forall i j, gh F ra i j = gh F rb i j).

End ScalarSpec.

(* ------------------------------------------------------------------ matrices *)
Local Open Scope Z_scope.
(* entry (i,j) of the product of two matrices given as functions, summed in the order of the Go loop *)
Definition dotZ (a b : Z -> Z -> Z) (i j m1 : Z) : Z :=
  fold_left (fun t k => t + a i k * b k j) (C10.Model.zseq m1) 0.
