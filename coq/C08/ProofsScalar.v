(* C08/ProofsScalar.v — receiver independence of every single-step scalar
   operation of C01's table, for an arbitrary carrier, from the closed forms of
   ProofsComb.v.  "Receiver independence" is stronger than the alias statement
   of the property: for ANY two receivers c, c' of the same kind whose storage
   satisfies the invariant and the computed side condition, the observable
   result is the same — in particular for c an operand and c' a fresh scalar. *)
From Coq Require Import ZArith List Bool Arith Lia.
From ADV Require Import Base.Fl C01.Model C08.Spec C08.ProofsList C08.ProofsComb.
Import ListNotations.
Local Arguments Nat.leb : simpl never.
Local Arguments Nat.eqb : simpl never.
Local Arguments Nat.ltb : simpl never.

Section Scalar.
Context {A : Type} (F : Fl A) (r32 : A -> A).
Notation StA := (@St A).

Lemma monadic_indep c c' a v0 f1 f2 (s : StA) :
  rk (s c) = rk (s c') -> shape (s c) -> shape (s c') ->
  agree c c' (monadic_lazy F r32 c a v0 f1 f2 s) (monadic_lazy F r32 c' a v0 f1 f2 s).
Proof.
  intros Hk Hc Hc'.
  destruct (monadic_closed F r32 c a v0 f1 f2 s Hc) as [t [E [_ [_ N]]]].
  destruct (monadic_closed F r32 c' a v0 f1 f2 s Hc') as [t' [E' [_ [_ N']]]].
  rewrite E, E'. unfold agree. rewrite N, N', Hk. reflexivity.
Qed.

Lemma dyadic_indep c c' a b v0 f1 f2 (s : StA) :
  rk (s c) = rk (s c') -> shape (s c) -> shape (s c') ->
  keeps c a b s = true -> keeps c' a b s = true ->
  agree c c' (dyadic_lazy F r32 c a b v0 f1 f2 s) (dyadic_lazy F r32 c' a b v0 f1 f2 s).
Proof.
  intros Hk Hc Hc' K K'.
  assert (D := dyadic_closed F r32 c a b v0 f1 f2 s Hc K).
  assert (D' := dyadic_closed F r32 c' a b v0 f1 f2 s Hc' K').
  destruct (dy_guard (rd s a) (rd s b)) as [e|].
  - rewrite D, D'. reflexivity.
  - destruct D as [t [E [_ [_ N]]]]. destruct D' as [t' [E' [_ [_ N']]]].
    rewrite E, E'. unfold agree. rewrite N, N', Hk. reflexivity.
Qed.

(* the receiver is not an operand: the side condition is trivially true *)
Lemma keeps_fresh c (a b : opd A) s : hits c a = false -> hits c b = false -> keeps c a b s = true.
Proof. intros Ha Hb. unfold keeps. rewrite Ha, Hb. reflexivity. Qed.

(* ---------------------------------------------------------------- the op table *)
(* single-step instructions built on one combinator call *)
Inductive simple : instr A -> Prop :=
| S_mon op c a : simple (IMon op c a)
| S_dy op c a b : simple (IDy op c a b)
| S_pow c a k : simple (IPow c a k)
| S_sqrt c a : simple (ISqrt c a).

Definition recv (i : instr A) : nat :=
  match i with
  | IMon _ c _ | IDy _ c _ _ | IPow c _ _ | ISqrt c _ => c
  | _ => 0
  end.
(* the same call issued on receiver c'; operands are left as they are (they may name the old receiver) *)
Definition with_recv (c' : nat) (i : instr A) : instr A :=
  match i with
  | IMon op _ a => IMon op c' a
  | IDy op _ a b => IDy op c' a b
  | IPow _ a k => IPow c' a k
  | ISqrt _ a => ISqrt c' a
  | _ => i
  end.
(* the side condition, computed from the instruction and the state *)
Definition side (c : nat) (i : instr A) (s : StA) : bool :=
  match i with
  | IDy _ _ a b => keeps c a b s
  | IPow _ a k => if 1 <=? rorder (rd s k) then keeps c a k s else true
  | _ => true
  end.

Theorem simple_indep i c' (s : StA) :
  simple i ->
  rk (s (recv i)) = rk (s c') -> shape (s (recv i)) -> shape (s c') ->
  side (recv i) i s = true -> side c' i s = true ->
  agree (recv i) c' (exec F r32 i s) (exec F r32 (with_recv c' i) s).
Proof.
  intros Hs Hk Hc Hc' K K'. destruct Hs; cbn [recv with_recv exec side] in *.
  - unfold do_mon. apply monadic_indep; auto.
  - unfold do_dy. apply dyadic_indep; auto.
  - unfold do_pow. destruct (1 <=? rorder (rd s k)).
    + unfold do_dy. apply dyadic_indep; auto.
    + unfold do_mon. apply monadic_indep; auto.
  - unfold do_sqrt, do_pow. cbn [rd bare rorder].
    replace (1 <=? 0) with false by reflexivity. unfold do_mon. apply monadic_indep; auto.
Qed.

(* ---------------------------------------------------------------- the alias patterns of the property *)
Definition fresh (c' : nat) (k : kind) (s : StA) : Prop := s c' = null_reg F k.

Lemma shape_null k : shape (null_reg F k).
Proof. split; cbn; intro H; lia. Qed.

(* r.Op(r): every one-operand operation *)
Corollary alias_monadic op c c' (s : StA) :
  shape (s c) -> fresh c' (rk (s c)) s ->
  agree c c' (exec F r32 (IMon op c (Rg c)) s) (exec F r32 (IMon op c' (Rg c)) s).
Proof.
  intros Hc Hf. apply (simple_indep (IMon op c (Rg c)) c' s); auto using simple.
  - rewrite Hf. reflexivity.
  - rewrite Hf. apply shape_null.
Qed.

(* r.Op(r,b), r.Op(a,r), r.Op(r,r): a, b range over ALL operands, the receiver included *)
Corollary alias_dyadic op c c' a b (s : StA) :
  shape (s c) -> fresh c' (rk (s c)) s -> hits c' a = false -> hits c' b = false ->
  keeps c a b s = true ->
  agree c c' (exec F r32 (IDy op c a b) s) (exec F r32 (IDy op c' a b) s).
Proof.
  intros Hc Hf Ha Hb K. apply (simple_indep (IDy op c a b) c' s); auto using simple.
  - rewrite Hf. reflexivity.
  - rewrite Hf. apply shape_null.
  - cbn [side]. apply keeps_fresh; auto.
Qed.

(* theorem 2 of the design: a CONSTANT receiver (Order 0) that is an operand
   acquires the derivatives of the other, magic, operand exactly as a fresh
   receiver does — although AllocForTwo reallocates it *)
Corollary constant_receiver_acquires op c c' b (s : StA) :
  shape (s c) -> fresh c' (rk (s c)) s -> hits c' b = false -> c' <> c ->
  rorder (s c) = 0 -> rn (s c) <= rn (rd s b) ->
  agree c c' (exec F r32 (IDy op c (Rg c) b) s) (exec F r32 (IDy op c' (Rg c) b) s) /\
  agree c c' (exec F r32 (IDy op c b (Rg c)) s) (exec F r32 (IDy op c' b (Rg c)) s).
Proof.
  intros Hc Hf Hb Hne Ho Hn.
  assert (Hcc : hits c' (Rg c : opd A) = false).
  { simpl. destruct (Nat.eqb_spec c c'); congruence. }
  split; apply alias_dyadic; auto; unfold keeps; cbn [hits rd]; rewrite Nat.eqb_refl; cbn [orb negb].
  - rewrite Ho. replace (0 =? 0) with true by reflexivity. cbn [andb].
    apply Nat.leb_le in Hn. rewrite Hn. apply orb_true_r.
  - rewrite Ho. replace (0 =? 0) with true by reflexivity. cbn [andb].
    destruct (hits c b) eqn:Hh.
    + apply hits_spec in Hh. subst b. cbn [rd]. rewrite Nat.leb_refl. apply orb_true_r.
    + apply Nat.leb_le in Hn. rewrite Hn. apply orb_true_r.
Qed.

End Scalar.
