(* C08/SpecS.v — what "the call leaves the world observably unchanged" means for the
   worlds of ADV.C03.ModelM (sparse vectors = C11 cells + private map, dense vectors,
   sparse matrices = header over a sparse vector, dense matrices).

   [same_obs w w']: no object was created, every header and every dense object is
   identical, and every sparse vector has the same Dim and reads the same at EVERY
   index (absent = 0).  The private stored pattern may differ: the alias-rejection
   guards call AT(0), which inserts an explicit zero entry before the panic. *)
From Coq Require Import ZArith List Bool.
From ADV Require Import C11.Model C03.Model C03.ModelM C08.ModelS.
Import ListNotations.
Open Scope Z_scope.

Definition same_obs (w w' : w4) : Prop :=
  sms w' = sms w /\ dms w' = dms w /\ dn (b3 w') = dn (b3 w) /\
  length (vecs (sw (b3 w'))) = length (vecs (sw (b3 w))) /\
  (forall u, dim (getv (sw (b3 w')) u) = dim (getv (sw (b3 w)) u)) /\
  (forall u k, peek (hp (sw (b3 w'))) (getv (sw (b3 w')) u) k = peek (hp (sw (b3 w))) (getv (sw (b3 w)) u) k).

(* outcome of a call *)
Definition kind_of (r : w4 * (Z * list Z)) : Z := fst (snd r).
