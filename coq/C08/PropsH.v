(* C08 — a Real receiver re-used over a history of orders (second-order result, then a first-order or
   order-0 result, then SetFloat64 / Reset, then an in-place operation with an order-2 operand): stale
   derivative storage is never read.  Statements only; proofs in ProofsHist.v.  Shared register model
   C01.Model (Alloc keeps the Hessian slice in memory at order 0: [rhess] survives), ANY carrier.
   Tie: every step of such histories is replayed bit-exactly from Go's own pre-state (raw slices, stale
   storage included) by C01.Corr.check (stream "cases", pattern history-step). *)
From Coq Require Import ZArith List Bool Arith Floats.
From ADV Require Import Base.Fl C01.Model C01.Corr C08.ProofsHist.
Import ListNotations.

(* Alloc(n, order): the register is untouched (same N and Order), or every guarded getter reads zero *)
Theorem alloc_never_exposes_stale_storage : forall (A : Type) (F : Fl A) (r : Reg A) (n o : nat),
  alloc F r n o = r \/
  (rn (alloc F r n o) = n /\ rorder (alloc F r n o) = o /\ rval (alloc F r n o) = rval r /\
   (forall i, gd F (alloc F r n o) i = zero F) /\ (forall i j, gh F (alloc F r n o) i j = zero F)).
Proof. exact @alloc_same_or_zero. Qed.

(* the receiver slot after AllocForTwo (the first action of every dyadic operation, c among the operands or
   not): as before, or all derivatives read zero *)
Theorem inplace_receiver_same_or_zero : forall (A : Type) (F : Fl A) (c : nat) (a b : opd A) (s : St (A := A)),
  let s' := alloc_for_two F c a b s in
  s' c = s c \/ ((forall i, gd F (s' c) i = zero F) /\ (forall i j, gh F (s' c) i j = zero F)).
Proof. exact @alloc_for_two_same_or_zero. Qed.

(* non-vacuity: an order-0 register that still holds the Hessian slice [[7]]: kept in memory by Alloc(0,0),
   zero after re-shaping to order 2 *)
Example stale_hessian_is_not_read :
  let r := mkReg K64 1%float 0 0 [] [[7%float]] in
  rhess (alloc (FlF []) r 0 0) = [[7%float]] /\
  PrimFloat.eqb (gh (FlF []) (alloc (FlF []) r 1 2) 0 0) 0%float = true /\
  rhess (alloc (FlF []) r 1 2) = [[0%float]].
Proof. exact stale_hessian_witness. Qed.
