(* C08/ProofsComposite.v — operations implemented as several internal steps
   (Logistic, Sigmoid, Log1pExp, LogAdd, LogSub) with the receiver as an operand:
   relational versions of the closed forms (two runs, operands related by
   [jet_eq] across two states) chained through the programs of C01/Model.v.
   Arbitrary carrier. *)
From Coq Require Import ZArith QArith List Bool Arith Lia.
From ADV Require Import Base.Fl C01.Model C08.Spec C08.ProofsList C08.ProofsComb C08.ProofsScalar C08.ProofsSet.
Import ListNotations.
Local Arguments Nat.leb : simpl never.
Local Arguments Nat.eqb : simpl never.
Local Arguments Nat.ltb : simpl never.

Section Composite.
Context {A : Type} (F : Fl A) (r32 : A -> A).
Notation StA := (@St A).

Lemma norm_jet (r r' : Reg A) : norm r = norm r' -> jet_eq F r r'.
Proof.
  intro E. unfold norm in E. injection E; intros Eh Ed En Eo Ev Ek. unfold jet_eq.
  split; [exact Ev|]. split; [exact En|]. split; [exact Eo|]. rewrite <- Eo in Ed, Eh. split.
  - intro i. unfold gd. rewrite <- Eo. destruct (1 <=? rorder r); [rewrite Ed|]; reflexivity.
  - intros i j. unfold gh. rewrite <- Eo. destruct (2 <=? rorder r); [rewrite Eh|]; reflexivity.
Qed.
Lemma jet_refl (r : Reg A) : jet_eq F r r.
Proof. unfold jet_eq. repeat split; reflexivity. Qed.
Lemma norm_fields (r r' : Reg A) : norm r = norm r' -> rk r = rk r' /\ rn r = rn r' /\ rorder r = rorder r'.
Proof. intro E. unfold norm in E. injection E; intros. auto. Qed.
Lemma canon_fields (r : Reg A) k v0 n o g h : norm r = canon r32 k v0 n o g h -> rk r = k /\ rn r = n /\ rorder r = o.
Proof. intro E. unfold norm, canon in E. injection E; intros. auto. Qed.

(* one step of two runs: receivers c / c', states s / s' *)
Definition stepres (c c' : nat) (s s' : StA) (m m' : res StA) : Prop :=
  match m, m' with
  | Ok t, Ok t' => (forall q, q <> c -> t q = s q) /\ (forall q, q <> c' -> t' q = s' q) /\
                   shape (t c) /\ shape (t' c') /\ norm (t c) = norm (t' c')
  | Panic e, Panic e' => e = e'
  | _, _ => False
  end.

Lemma mon_rel op c a (s : StA) c' a' (s' : StA) :
  shape (s c) -> shape (s' c') -> rk (s c) = rk (s' c') -> jet_eq F (rd s a) (rd s' a') ->
  stepres c c' s s' (do_mon F r32 op c a s) (do_mon F r32 op c' a' s') /\
  (forall t, do_mon F r32 op c a s = Ok t -> rn (t c) = rn (rd s a) /\ rorder (t c) = rorder (rd s a)).
Proof.
  intros Hc Hc' Hk (Jv & Jn & Jo & Jg & Jh). unfold do_mon.
  destruct (monadic_closed F r32 c a (m_v0 F op (rval (rd s a))) (fun _ => m_f1 F op (rval (rd s a)))
              (fun _ => m_f2 F op (rval (rd s a))) s Hc) as [t [E [Fr [Sh N]]]].
  destruct (monadic_closed F r32 c' a' (m_v0 F op (rval (rd s' a'))) (fun _ => m_f1 F op (rval (rd s' a')))
              (fun _ => m_f2 F op (rval (rd s' a'))) s' Hc') as [t' [E' [Fr' [Sh' N']]]].
  rewrite E, E'. split.
  - unfold stepres. do 4 (split; [assumption|]). rewrite N, N', <- Jv, <- Jn, <- Jo, Hk.
    apply canon_ext.
    + intros i _. unfold mon_g. rewrite Jg. reflexivity.
    + intros i j _ _. unfold mon_h. rewrite !Jg, Jh. reflexivity.
  - intros t0 E0. inversion E0; subst t0. apply canon_fields in N. destruct N as [_ [N1 N2]]. auto.
Qed.

Lemma guard_jet (ra rb ra' rb' : Reg A) : jet_eq F ra ra' -> jet_eq F rb rb' -> dy_guard ra rb = dy_guard ra' rb'.
Proof. intros (_ & Jn & Jo & _) (_ & Kn & Ko & _). unfold dy_guard. rewrite Jn, Jo, Kn, Ko. reflexivity. Qed.

Lemma dy_rel op c a b (s : StA) c' a' b' (s' : StA) :
  shape (s c) -> shape (s' c') -> rk (s c) = rk (s' c') ->
  jet_eq F (rd s a) (rd s' a') -> jet_eq F (rd s b) (rd s' b') ->
  keeps c a b s = true -> keeps c' a' b' s' = true ->
  stepres c c' s s' (do_dy F r32 op c a b s) (do_dy F r32 op c' a' b' s') /\
  (forall t, do_dy F r32 op c a b s = Ok t ->
     rn (t c) = Nat.max (rn (rd s a)) (rn (rd s b)) /\ rorder (t c) = Nat.max (rorder (rd s a)) (rorder (rd s b))).
Proof.
  intros Hc Hc' Hk Ja Jb K K'. unfold do_dy.
  assert (G := guard_jet _ _ _ _ Ja Jb).
  destruct Ja as (Jv & Jn & Jo & Jg & Jh). destruct Jb as (Kv & Kn & Ko & Kg & Kh).
  set (x := rval (rd s a)) in *. set (y := rval (rd s b)) in *.
  assert (D := dyadic_closed F r32 c a b (d_v0 F op x y) (fun _ => (d_f10 F op x y, d_f01 F op x y))
                 (fun _ => (d_f11 F op x y, d_f20 F op x y, d_f02 F op x y)) s Hc K).
  assert (D' := dyadic_closed F r32 c' a' b' (d_v0 F op x y) (fun _ => (d_f10 F op x y, d_f01 F op x y))
                 (fun _ => (d_f11 F op x y, d_f20 F op x y, d_f02 F op x y)) s' Hc' K').
  rewrite <- Jv, <- Kv. rewrite <- G in D'.
  destruct (dy_guard (rd s a) (rd s b)) as [e|].
  - rewrite D, D'. split; [reflexivity|]. intros t Ht. discriminate.
  - destruct D as [t [E [Fr [Sh N]]]]. destruct D' as [t' [E' [Fr' [Sh' N']]]]. rewrite E, E'. split.
    + unfold stepres. do 4 (split; [assumption|]). rewrite N, N', <- Jn, <- Jo, <- Kn, <- Ko, Hk. cbn [fst snd].
      apply canon_ext.
      * intros i _. unfold dy_g. rewrite Jg, Kg. reflexivity.
      * intros i j _ _. unfold dy_h. rewrite !Jg, !Kg, Jh, Kh. reflexivity.
    + intros t0 E0. inversion E0; subst t0. apply canon_fields in N. destruct N as [_ [N1 N2]]. auto.
Qed.

Lemma set_rel c b (s : StA) c' b' (s' : StA) :
  shape (s c) -> shape (s' c') -> rk (s c) = rk (s' c') -> jet_eq F (rd s b) (rd s' b') ->
  stepres c c' s s' (set_reg F r32 c b s) (set_reg F r32 c' b' s') /\
  (forall t, set_reg F r32 c b s = Ok t -> rn (t c) = rn (rd s b) /\ rorder (t c) = rorder (rd s b)).
Proof.
  intros Hc Hc' Hk (Jv & Jn & Jo & Jg & Jh).
  destruct (set_closed F r32 c b s Hc) as [t [E [Fr [Sh N]]]].
  destruct (set_closed F r32 c' b' s' Hc' ) as [t' [E' [Fr' [Sh' N']]]].
  rewrite E, E'. split.
  - unfold stepres. do 4 (split; [assumption|]). rewrite N, N', Hk. unfold set_canon. rewrite <- Jv, <- Jn, <- Jo. f_equal.
    + destruct (1 <=? rorder (rd s b)); [|reflexivity]. apply map_ext. intro i. rewrite Jg. reflexivity.
    + destruct (2 <=? rorder (rd s b)); [|reflexivity]. apply map_ext. intro i. apply map_ext. intro j. rewrite Jh. reflexivity.
  - intros t0 E0. inversion E0; subst t0. unfold norm, set_canon in N. inversion N. auto.
Qed.

(* [keeps] when the only register operand is the receiver itself and the other operand is a constant *)
Lemma keeps_self_im_r c v (s : StA) : keeps c (Rg c) (Im v) s = true.
Proof.
  unfold keeps. cbn [hits rd bare rn rorder]. rewrite Nat.eqb_refl. cbn [orb negb].
  rewrite !Nat.max_0_r, !Nat.eqb_refl. reflexivity.
Qed.
Lemma keeps_self_im_l c v (s : StA) : keeps c (Im v) (Rg c) s = true.
Proof.
  unfold keeps. cbn [hits rd bare rn rorder]. rewrite Nat.eqb_refl. cbn [orb negb].
  rewrite !Nat.max_0_l, !Nat.eqb_refl. reflexivity.
Qed.
Lemma jet_im v (s s' : StA) : jet_eq F (rd s (Im v)) (rd s' (Im v)).
Proof. apply jet_refl. Qed.

(* the invariant carried along a program that, after its first step, touches only the receiver *)
Definition I1 (c c' : nat) (t t' : StA) : Prop :=
  shape (t c) /\ shape (t' c') /\ norm (t c) = norm (t' c').

Ltac use_step R t t' :=
  match type of R with
  | stepres _ _ _ _ ?m ?m' =>
      destruct m as [t|?e] eqn:?Em; destruct m' as [t'|?e'] eqn:?Em'; cbn [stepres] in R;
      [ | contradiction | contradiction | subst; cbn; reflexivity ]
  end.

(* steps on the receiver alone *)
Lemma self_mon op c c' (t t' : StA) : I1 c c' t t' ->
  stepres c c' t t' (do_mon F r32 op c (Rg c) t) (do_mon F r32 op c' (Rg c') t').
Proof.
  intros (S1 & S2 & N). apply mon_rel; auto.
  - apply norm_fields in N. tauto.
  - cbn [rd]. apply norm_jet. exact N.
Qed.
Lemma self_dy_r op v c c' (t t' : StA) : I1 c c' t t' ->
  stepres c c' t t' (do_dy F r32 op c (Rg c) (Im v) t) (do_dy F r32 op c' (Rg c') (Im v) t').
Proof.
  intros (S1 & S2 & N). apply dy_rel; auto using keeps_self_im_r, jet_im.
  - apply norm_fields in N. tauto.
  - cbn [rd]. apply norm_jet. exact N.
Qed.
Lemma self_dy_l op v c c' (t t' : StA) : I1 c c' t t' ->
  stepres c c' t t' (do_dy F r32 op c (Im v) (Rg c) t) (do_dy F r32 op c' (Im v) (Rg c') t').
Proof.
  intros (S1 & S2 & N). apply dy_rel; auto using keeps_self_im_l, jet_im.
  - apply norm_fields in N. tauto.
  - cbn [rd]. apply norm_jet. exact N.
Qed.
Lemma stepres_I1 c c' s s' t t' : stepres c c' s s' (Ok t) (Ok t') -> I1 c c' t t'.
Proof. intros (_ & _ & S1 & S2 & N). split; [|split]; assumption. Qed.
Lemma stepres_agree c c' s s' m m' : stepres c c' s s' m m' -> agree c c' m m'.
Proof. unfold stepres, agree. destruct m, m'; tauto. Qed.

(* first step of every program below: op(c, a) with the ORIGINAL operand, receivers c and c' on the same state *)
Lemma first_mon op c c' a (s : StA) :
  shape (s c) -> shape (s c') -> rk (s c) = rk (s c') ->
  stepres c c' s s (do_mon F r32 op c a s) (do_mon F r32 op c' a s).
Proof. intros. apply mon_rel; auto using jet_refl. Qed.

(* ---------------------------------------------------------------- Logistic *)
Theorem logistic_indep c c' a (s : StA) :
  shape (s c) -> shape (s c') -> rk (s c) = rk (s c') ->
  agree c c' (do_logistic F r32 c a s) (do_logistic F r32 c' a s).
Proof.
  intros Hc Hc' Hk. unfold do_logistic, seqm. cbn [fold_left bind].
  assert (R1 := first_mon ONeg c c' a s Hc Hc' Hk). use_step R1 t1 t1'. cbn [bind].
  assert (R2 := self_mon OExp c c' t1 t1' (stepres_I1 _ _ _ _ _ _ R1)). use_step R2 t2 t2'. cbn [bind].
  assert (R3 := self_dy_l OAdd (one F) c c' t2 t2' (stepres_I1 _ _ _ _ _ _ R2)). use_step R3 t3 t3'. cbn [bind].
  assert (R4 := self_dy_l ODiv (one F) c c' t3 t3' (stepres_I1 _ _ _ _ _ _ R3)).
  apply (stepres_agree _ _ _ _ _ _ R4).
Qed.

(* ---------------------------------------------------------------- Log1pExp *)
(* all four branches.  Branch 18 < v <= 33.3 (HEAD 7035970): t := fresh 0; t.Neg(a); t.Exp(t); c.Add(a, t) —
   the two runs use two DIFFERENT temporaries (the model picks a register above the receiver and the
   argument), related step by step; the final Add needs no side condition: t has exactly the N and Order of
   a, so when c = a AllocForTwo reallocates nothing. *)
Definition opd_ix (a : opd A) : nat := match a with Rg i => i | Im _ => 0 end.
Lemma rd_upd_above (s : StA) (a : opd A) t r : (opd_ix a < t)%nat -> rd (upd s t r) a = rd s a.
Proof. destruct a as [i|v]; cbn [opd_ix rd]; intro H; [apply upd_other; lia|reflexivity]. Qed.
Lemma rd_frame (s s1 : StA) (a : opd A) t : (forall q, q <> t -> s1 q = s q) -> (opd_ix a < t)%nat -> rd s1 a = rd s a.
Proof. destruct a as [i|v]; cbn [opd_ix rd]; intros Fr H; [apply Fr; lia|reflexivity]. Qed.

Theorem log1pexp_indep c c' a (s : StA) :
  shape (s c) -> shape (s c') -> rk (s c) = rk (s c') ->
  agree c c' (do_log1pexp F r32 c a s) (do_log1pexp F r32 c' a s).
Proof.
  intros Hc Hc' Hk. unfold do_log1pexp. set (v := rval (rd s a)).
  destruct (fleb F v (lit F (-37))).
  - apply stepres_agree with (s := s) (s' := s). apply first_mon; auto.
  - destruct (fleb F v (lit F 18)) eqn:E18.
    + unfold seqm. cbn [fold_left bind].
      assert (R1 := first_mon OExp c c' a s Hc Hc' Hk). use_step R1 t1 t1'. cbn [bind].
      assert (R2 := self_mon OLog1p c c' t1 t1' (stepres_I1 _ _ _ _ _ _ R1)).
      apply (stepres_agree _ _ _ _ _ _ R2).
    + destruct (fleb F v (fofQ F (333 # 10)%Q)); [|apply set_indep; auto].
      fold (opd_ix a).
      set (t := S (Nat.max c (opd_ix a))). set (t' := S (Nat.max c' (opd_ix a))).
      assert (Htc : t <> c) by (unfold t; lia). assert (Hta : (opd_ix a < t)%nat) by (unfold t; lia).
      assert (Htc' : t' <> c') by (unfold t'; lia). assert (Hta' : (opd_ix a < t')%nat) by (unfold t'; lia).
      set (s0 := upd s t (null_reg F (rk (s c)))). set (s0' := upd s t' (null_reg F (rk (s c')))).
      unfold seqm. cbn [fold_left bind].
      (* t.Neg(a) *)
      destruct (mon_rel ONeg t a s0 t' a s0') as [R1 Sz1].
      { unfold s0. rewrite upd_same. apply shape_null. } { unfold s0'. rewrite upd_same. apply shape_null. }
      { unfold s0, s0'. rewrite !upd_same. cbn [null_reg rk]. exact Hk. }
      { unfold s0, s0'. rewrite !rd_upd_above by assumption. apply jet_refl. }
      use_step R1 s1 s1'. cbn [bind]. destruct (Sz1 s1 eq_refl) as [Zn Zo].
      unfold s0 in Zn, Zo. rewrite rd_upd_above in Zn, Zo by assumption.
      (* t.Exp(t) *)
      destruct (mon_rel OExp t (Rg t) s1 t' (Rg t') s1') as [R2 Sz2].
      { apply R1. } { apply R1. } { destruct R1 as (_ & _ & _ & _ & N). apply norm_fields in N. tauto. }
      { cbn [rd]. apply norm_jet. apply R1. }
      use_step R2 s2 s2'. cbn [bind]. destruct (Sz2 s2 eq_refl) as [Yn Yo]. cbn [rd] in Yn, Yo.
      destruct R1 as (Fr1 & Fr1' & _ & _ & _). destruct R2 as (Fr2 & Fr2' & Sh2 & Sh2' & N2).
      assert (Fr : forall q, q <> t -> s2 q = s q).
      { intros q Hq. rewrite Fr2, Fr1 by exact Hq. unfold s0. apply upd_other. exact Hq. }
      assert (Fr' : forall q, q <> t' -> s2' q = s q).
      { intros q Hq. rewrite Fr2', Fr1' by exact Hq. unfold s0'. apply upd_other. exact Hq. }
      assert (Ea : rd s2 a = rd s a) by (apply (rd_frame s s2 a t); assumption).
      assert (Ea' : rd s2' a = rd s a) by (apply (rd_frame s s2' a t'); assumption).
      assert (Ec : s2 c = s c) by (apply Fr; congruence). assert (Ec' : s2' c' = s c') by (apply Fr'; congruence).
      (* [keeps] for the final Add holds by itself: the temporary has the N and Order of the argument *)
      assert (KK : forall (d u : nat) (w : StA), u <> d -> rd w a = rd s a -> w d = s d ->
                   rn (w u) = rn (rd s a) -> rorder (w u) = rorder (rd s a) -> keeps d a (Rg u) w = true).
      { intros d u w Hud Ha Hd Hn Ho. unfold keeps. cbn [hits rd].
        destruct (Nat.eqb_spec u d) as [E|_]; [contradiction|]. rewrite orb_false_r.
        destruct (hits d a) eqn:Hh; cbn [negb orb]; [|reflexivity].
        apply hits_spec in Hh. subst a. cbn [rd] in *. rewrite Ha, Hn, Ho, !Nat.max_id, !Nat.eqb_refl. reflexivity. }
      (* c.Add(a, t) *)
      destruct (dy_rel OAdd c a (Rg t) s2 c' a (Rg t') s2') as [R3 _].
      { rewrite Ec; exact Hc. } { rewrite Ec'; exact Hc'. } { rewrite Ec, Ec'; exact Hk. }
      { rewrite Ea, Ea'. apply jet_refl. } { cbn [rd]. apply norm_jet. exact N2. }
      { apply KK; auto; congruence. }
      { destruct (norm_fields _ _ N2) as [_ [En Eo]]. apply KK; auto; congruence. }
      use_step R3 s3 s3'. unfold agree.
      rewrite !upd_other by congruence. apply R3.
Qed.

Corollary alias_log1pexp c c' (s : StA) :
  shape (s c) -> fresh F c' (rk (s c)) s ->
  agree c c' (do_log1pexp F r32 c (Rg c) s) (do_log1pexp F r32 c' (Rg c) s).
Proof.
  intros Hc Hf. apply log1pexp_indep; [exact Hc| |]; rewrite Hf; [apply shape_null|reflexivity].
Qed.

(* ---------------------------------------------------------------- Sigmoid *)
Theorem sigmoid_indep c c' a t (s : StA) :
  shape (s c) -> shape (s c') -> shape (s t) -> rk (s c) = rk (s c') ->
  t <> c -> t <> c' -> hits t a = false ->
  agree c c' (do_sigmoid F r32 c a t s) (do_sigmoid F r32 c' a t s).
Proof.
  intros Hc Hc' Ht Hk Htc Htc' Hta. unfold do_sigmoid.
  destruct (fleb F (zero F) (rval (rd s a))).
  - unfold seqm. cbn [fold_left bind].
    assert (R1 := first_mon ONeg c c' a s Hc Hc' Hk). use_step R1 t1 t1'. cbn [bind].
    assert (R2 := self_mon OExp c c' t1 t1' (stepres_I1 _ _ _ _ _ _ R1)). use_step R2 t2 t2'. cbn [bind].
    assert (R3 := self_dy_r OAdd (one F) c c' t2 t2' (stepres_I1 _ _ _ _ _ _ R2)). use_step R3 t3 t3'. cbn [bind].
    assert (R4 := self_dy_l ODiv (one F) c c' t3 t3' (stepres_I1 _ _ _ _ _ _ R3)).
    apply (stepres_agree _ _ _ _ _ _ R4).
  - (* t.Exp(a); c.Set(t); t.Add(t, 1); c.Div(c, t) *)
    unfold seqm. cbn [fold_left bind].
    destruct (mon_rel OExp t a s t a s Ht Ht eq_refl (jet_refl _)) as [R1 Sz].
    destruct (do_mon F r32 OExp t a s) as [s1|e] eqn:E1; [|reflexivity]. cbn [bind].
    destruct R1 as (Fr1 & _ & Sh1 & _ & _). destruct (Sz s1 eq_refl) as [Zn Zo].
    assert (C1 : s1 c = s c) by (apply Fr1; congruence).
    assert (C1' : s1 c' = s c') by (apply Fr1; congruence).
    destruct (set_rel c (Rg t) s1 c' (Rg t) s1) as [R2 Sz2]; auto using jet_refl; try (rewrite ?C1, ?C1'; auto).
    use_step R2 u u'. cbn [bind].
    destruct R2 as (Fu & Fu' & Su & Su' & Nu).
    assert (Ut : u t = s1 t) by (apply Fu; exact Htc). assert (Ut' : u' t = s1 t) by (apply Fu'; exact Htc').
    destruct (dy_rel OAdd t (Rg t) (Im (one F)) u t (Rg t) (Im (one F)) u') as [R3 Sz3];
      auto using keeps_self_im_r, jet_im; try (rewrite ?Ut, ?Ut'; auto).
    { cbn [rd]. rewrite Ut, Ut'. apply jet_refl. }
    use_step R3 w w'. cbn [bind].
    destruct R3 as (Fw & Fw' & Sw & Sw' & Nw).
    assert (Wc : w c = u c) by (apply Fw; congruence). assert (Wc' : w' c' = u' c') by (apply Fw'; congruence).
    destruct (Sz2 u eq_refl) as [Un Uo]. cbn [rd] in Un, Uo.
    destruct (Sz3 w eq_refl) as [Wn Wo]. cbn [rd bare rn rorder] in Wn, Wo. rewrite Nat.max_0_r in Wn, Wo.
    (* in both runs the receiver and t have the same N and Order: Alloc does nothing *)
    assert (KD : keeps c (Rg c) (Rg t) w = true).
    { unfold keeps. cbn [hits rd]. rewrite Nat.eqb_refl. cbn [orb negb].
      rewrite Wc, Wn, Wo, Ut, <- Un, <- Uo, !Nat.max_id, !Nat.eqb_refl. reflexivity. }
    assert (Nwu : norm (w c) = norm (w' c')) by (rewrite Wc, Wc'; exact Nu).
    assert (KD' : keeps c' (Rg c') (Rg t) w' = true).
    { unfold keeps. cbn [hits rd]. rewrite Nat.eqb_refl. cbn [orb negb].
      destruct (norm_fields _ _ Nwu) as [_ [E1n E1o]]. destruct (norm_fields _ _ Nw) as [_ [E2n E2o]].
      rewrite <- E1n, <- E1o, <- E2n, <- E2o.
      rewrite Wc, Wn, Wo, Ut, <- Un, <- Uo, !Nat.max_id, !Nat.eqb_refl. reflexivity. }
    destruct (dy_rel ODiv c (Rg c) (Rg t) w c' (Rg c') (Rg t) w') as [R4 _]; auto.
    { rewrite Wc; exact Su. } { rewrite Wc'; exact Su'. } { apply norm_fields in Nwu. tauto. }
    { cbn [rd]. apply norm_jet. exact Nwu. } { cbn [rd]. apply norm_jet. exact Nw. }
    apply (stepres_agree _ _ _ _ _ _ R4).
Qed.

(* ---------------------------------------------------------------- (2) a scratch argument that is also the operand *)
(* c.Sigmoid(x, x): the scratch argument IS the argument.  The receiver ends exactly as with a separate
   scratch scalar (the branch a >= 0 never touches t; the branch a < 0 starts with t.Exp(a) and never reads
   a again) — what differs is that the ARGUMENT x is destroyed (it holds exp(x) + 1 afterwards), which the
   signature (a ConstScalar) does not announce. *)
Lemma agree_refl c (m : res StA) : agree c c m m.
Proof. destruct m; cbn; reflexivity. Qed.

Theorem sigmoid_scratch_is_argument c x t (s : StA) :
  shape (s c) -> shape (s x) -> shape (s t) -> rk (s t) = rk (s x) ->
  c <> x -> t <> c -> t <> x ->
  agree c c (do_sigmoid F r32 c (Rg x) x s) (do_sigmoid F r32 c (Rg x) t s).
Proof.
  intros Hc Hx Ht Hk Hcx Htc Htx. unfold do_sigmoid.
  destruct (fleb F (zero F) (rval (rd s (Rg x)))); [apply agree_refl|].
  unfold seqm. cbn [fold_left bind].
  (* x.Exp(x) | t.Exp(x) *)
  destruct (mon_rel OExp x (Rg x) s t (Rg x) s Hx Ht (eq_sym Hk) (jet_refl _)) as [R1 _].
  use_step R1 s1 s1'. cbn [bind].
  destruct R1 as (Fr1 & Fr1' & Sh1 & Sh1' & N1).
  (* c.Set(x) | c.Set(t) *)
  destruct (set_rel c (Rg x) s1 c (Rg t) s1') as [R2 Sz2].
  { rewrite Fr1 by congruence. exact Hc. } { rewrite Fr1' by congruence. exact Hc. }
  { rewrite Fr1, Fr1' by congruence. reflexivity. }
  { cbn [rd]. apply norm_jet. exact N1. }
  use_step R2 u u'. cbn [bind].
  destruct R2 as (Fu & Fu' & Su & Su' & Nu).
  destruct (Sz2 u eq_refl) as [Un Uo]. cbn [rd] in Un, Uo.
  (* x.Add(x, 1) | t.Add(t, 1) *)
  destruct (dy_rel OAdd x (Rg x) (Im (one F)) u t (Rg t) (Im (one F)) u') as [R3 Sz3];
    auto using keeps_self_im_r, jet_im.
  { rewrite Fu by congruence. exact Sh1. } { rewrite Fu' by congruence. exact Sh1'. }
  { rewrite Fu, Fu' by congruence. apply norm_fields in N1. tauto. }
  { cbn [rd]. rewrite Fu, Fu' by congruence. apply norm_jet. exact N1. }
  use_step R3 w w'. cbn [bind].
  destruct R3 as (Fw & Fw' & Sw & Sw' & Nw).
  destruct (Sz3 w eq_refl) as [Wn Wo]. cbn [rd bare rn rorder] in Wn, Wo. rewrite Nat.max_0_r in Wn, Wo.
  assert (Wc : w c = u c) by (apply Fw; congruence). assert (Wc' : w' c = u' c) by (apply Fw'; congruence).
  assert (Ux : u x = s1 x) by (apply Fu; congruence).
  (* receiver and scratch have the same N and Order in both runs: AllocForTwo does nothing *)
  assert (KD : keeps c (Rg c) (Rg x) w = true).
  { unfold keeps. cbn [hits rd]. rewrite Nat.eqb_refl. cbn [orb negb].
    rewrite Wc, Wn, Wo, Ux, Un, Uo, !Nat.max_id, !Nat.eqb_refl. reflexivity. }
  assert (Nwu : norm (w c) = norm (w' c)) by (rewrite Wc, Wc'; exact Nu).
  assert (KD' : keeps c (Rg c) (Rg t) w' = true).
  { unfold keeps. cbn [hits rd]. rewrite Nat.eqb_refl. cbn [orb negb].
    destruct (norm_fields _ _ Nwu) as [_ [E1n E1o]]. destruct (norm_fields _ _ Nw) as [_ [E2n E2o]].
    rewrite <- E1n, <- E1o, <- E2n, <- E2o.
    rewrite Wc, Wn, Wo, Ux, Un, Uo, !Nat.max_id, !Nat.eqb_refl. reflexivity. }
  destruct (dy_rel ODiv c (Rg c) (Rg x) w c (Rg c) (Rg t) w') as [R4 _]; auto.
  { rewrite Wc; exact Su. } { rewrite Wc'; exact Su'. } { apply norm_fields in Nwu. tauto. }
  { cbn [rd]. apply norm_jet. exact Nwu. } { cbn [rd]. apply norm_jet. exact Nw. }
  apply (stepres_agree _ _ _ _ _ _ R4).
Qed.

(* ---------------------------------------------------------------- LogAdd / LogSub *)
(* every step before the last writes the temporary only; so the two runs coincide up to the
   last step, which is one combinator call on the common intermediate state *)
Definition la_prefix (t : nat) (a b : opd A) : list (StA -> res StA) :=
  [do_dy F r32 OSub t a b; do_mon F r32 OExp t (Rg t); do_mon F r32 OLog1p t (Rg t)].
Definition ls_prefix (t : nat) (a b : opd A) : list (StA -> res StA) :=
  [do_dy F r32 OSub t b a; do_mon F r32 OExp t (Rg t); do_mon F r32 ONeg t (Rg t); do_mon F r32 OLog1p t (Rg t)].
(* the side condition, computed: [keeps] for the final Add on the intermediate state *)
Definition last_side (c : nat) (pre : list (StA -> res StA)) (t : nat) (b : opd A) (s : StA) : bool :=
  match seqm pre s with Ok s3 => keeps c (Rg t) b s3 | Panic _ => true end.

Lemma seqm_app (l1 l2 : list (StA -> res StA)) s : seqm (l1 ++ l2) s = bind (seqm l1 s) (seqm l2).
Proof.
  unfold seqm. rewrite fold_left_app.
  assert (G : forall (l : list (StA -> res StA)) (m : res StA),
            fold_left (fun m f => bind m f) l m = bind m (fun s => fold_left (fun m f => bind m f) l (Ok s))).
  { induction l as [|f l IH]; intros m; simpl.
    - destruct m; reflexivity.
    - rewrite IH. destruct m as [x|e]; simpl; [|reflexivity]. rewrite IH. reflexivity. }
  apply G.
Qed.

(* frame of the combinator steps: a step on receiver t leaves every other register alone *)
Lemma mon_frame op t a (s s1 : StA) q : do_mon F r32 op t a s = Ok s1 -> q <> t -> s1 q = s q.
Proof.
  unfold do_mon, monadic_lazy. intro E. inversion E as [E1]. clear E E1. intro Hq.
  rewrite upd_other by exact Hq.
  set (s0 := alloc_for_one F t a s).
  assert (H0 : s0 q = s q) by (unfold s0, alloc_for_one; apply upd_other; exact Hq).
  rewrite <- H0. clearbody s0. clear H0.
  assert (G1 : forall v1 l (u : StA), fold_left (mon_gstep F r32 t a v1) l u q = u q).
  { intros v1 l. induction l as [|i l IH]; intro u; simpl; [reflexivity|]. rewrite IH. unfold mon_gstep. apply upd_other. exact Hq. }
  assert (G2 : forall v1 v2 l (u : StA), fold_left (mon_hstep F r32 t a v1 v2) l u q = u q).
  { intros v1 v2 l. induction l as [|[i j] l IH]; intro u; simpl; [reflexivity|]. rewrite IH. unfold mon_hstep.
    rewrite !upd_other by exact Hq. reflexivity. }
  destruct (1 <=? rorder (s0 t)); [|reflexivity]. rewrite G1.
  destruct (2 <=? rorder (s0 t)); [apply G2|reflexivity].
Qed.
Lemma dy_frame op t a b (s s1 : StA) q : do_dy F r32 op t a b s = Ok s1 -> q <> t -> s1 q = s q.
Proof.
  unfold do_dy, dyadic_lazy. set (s0 := alloc_for_two F t a b s).
  destruct (dy_guard (rd s0 a) (rd s0 b)); [discriminate|]. intro E. inversion E as [E1]. clear E E1. intro Hq.
  rewrite upd_other by exact Hq.
  assert (H0 : s0 q = s q) by (unfold s0, alloc_for_two; apply upd_other; exact Hq).
  rewrite <- H0. clearbody s0. clear H0.
  assert (G1 : forall v10 v01 l (u : StA), fold_left (dy_gstep F r32 t a b v10 v01) l u q = u q).
  { intros v10 v01 l. induction l as [|i l IH]; intro u; simpl; [reflexivity|]. rewrite IH. unfold dy_gstep. apply upd_other. exact Hq. }
  assert (G2 : forall v10 v01 v11 v20 v02 l (u : StA), fold_left (dy_hstep F r32 t a b v10 v01 v11 v20 v02) l u q = u q).
  { intros v10 v01 v11 v20 v02 l. induction l as [|[i j] l IH]; intro u; simpl; [reflexivity|]. rewrite IH. unfold dy_hstep.
    rewrite !upd_other by exact Hq. reflexivity. }
  destruct (1 <=? rorder (s0 t)); [|reflexivity]. rewrite G1.
  destruct (2 <=? rorder (s0 t)); [apply G2|reflexivity].
Qed.

Lemma la_prefix_frame t a b (s s3 : StA) q : seqm (la_prefix t a b) s = Ok s3 -> q <> t -> s3 q = s q.
Proof.
  unfold la_prefix, seqm. cbn [fold_left bind]. intros E Hq.
  destruct (do_dy F r32 OSub t a b s) as [s1|] eqn:E1; [|discriminate]. cbn [bind] in E.
  destruct (do_mon F r32 OExp t (Rg t) s1) as [s2|] eqn:E2; [|discriminate]. cbn [bind] in E.
  rewrite (mon_frame _ _ _ _ _ q E Hq), (mon_frame _ _ _ _ _ q E2 Hq). apply (dy_frame _ _ _ _ _ _ q E1 Hq).
Qed.
Lemma ls_prefix_frame t a b (s s3 : StA) q : seqm (ls_prefix t a b) s = Ok s3 -> q <> t -> s3 q = s q.
Proof.
  unfold ls_prefix, seqm. cbn [fold_left bind]. intros E Hq.
  destruct (do_dy F r32 OSub t b a s) as [s1|] eqn:E1; [|discriminate]. cbn [bind] in E.
  destruct (do_mon F r32 OExp t (Rg t) s1) as [s2|] eqn:E2; [|discriminate]. cbn [bind] in E.
  destruct (do_mon F r32 ONeg t (Rg t) s2) as [s2'|] eqn:E2'; [|discriminate]. cbn [bind] in E.
  rewrite (mon_frame _ _ _ _ _ q E Hq), (mon_frame _ _ _ _ _ q E2' Hq), (mon_frame _ _ _ _ _ q E2 Hq).
  apply (dy_frame _ _ _ _ _ _ q E1 Hq).
Qed.

Lemma last_step_indep c c' t b pre (s : StA) :
  (forall s3 q, seqm pre s = Ok s3 -> q <> t -> s3 q = s q) ->
  shape (s c) -> shape (s c') -> rk (s c) = rk (s c') -> t <> c -> t <> c' ->
  last_side c pre t b s = true -> last_side c' pre t b s = true ->
  agree c c' (seqm (pre ++ [do_dy F r32 OAdd c (Rg t) b]) s) (seqm (pre ++ [do_dy F r32 OAdd c' (Rg t) b]) s).
Proof.
  intros Fr Hc Hc' Hk Htc Htc' K K'. rewrite !seqm_app. unfold last_side in K, K'.
  destruct (seqm pre s) as [s3|e] eqn:E; [|reflexivity]. cbn [bind]. unfold seqm. cbn [fold_left bind].
  assert (C : s3 c = s c) by (apply (Fr s3 c eq_refl); congruence).
  assert (C' : s3 c' = s c') by (apply (Fr s3 c' eq_refl); congruence).
  unfold do_dy. apply dyadic_indep; rewrite ?C, ?C'; auto.
Qed.

Theorem logadd_indep c c' a b t (s : StA) :
  shape (s c) -> shape (s c') -> rk (s c) = rk (s c') -> t <> c -> t <> c' ->
  last_side c (la_prefix t a b) t b s = true -> last_side c' (la_prefix t a b) t b s = true ->
  last_side c (la_prefix t b a) t a s = true -> last_side c' (la_prefix t b a) t a s = true ->
  agree c c' (do_logadd F r32 c a b t s) (do_logadd F r32 c' a b t s).
Proof.
  intros Hc Hc' Hk Htc Htc' L1 L2 L3 L4. unfold do_logadd.
  destruct (fltb F _ _).
  - destruct (is_inf F (rval (rd s b))); [apply set_indep; auto|].
    apply (last_step_indep c c' t a (la_prefix t b a) s); auto. intros s3 q. apply la_prefix_frame.
  - destruct (is_inf F (rval (rd s a))); [apply set_indep; auto|].
    apply (last_step_indep c c' t b (la_prefix t a b) s); auto. intros s3 q. apply la_prefix_frame.
Qed.

Theorem logsub_indep c c' a b t (s : StA) :
  shape (s c) -> shape (s c') -> rk (s c) = rk (s c') -> t <> c -> t <> c' ->
  last_side c (ls_prefix t a b) t a s = true -> last_side c' (ls_prefix t a b) t a s = true ->
  agree c c' (do_logsub F r32 c a b t s) (do_logsub F r32 c' a b t s).
Proof.
  intros Hc Hc' Hk Htc Htc' L1 L2. unfold do_logsub.
  destruct (fisinf F (rval (rd s b)) (-1)); [apply set_indep; auto|].
  apply (last_step_indep c c' t a (ls_prefix t a b) s); auto. intros s3 q. apply ls_prefix_frame.
Qed.

End Composite.
