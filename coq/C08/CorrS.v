(* C08 correspondence for sparse containers: a history (construction of the world, then one call
   under an alias pattern) is replayed by the shared models C11.Model / C03.Model / C03.ModelM;
   per step the outcome kind (0 returned, 1 panicked), the payload and a checksum of the
   observation of the WHOLE world ([obs4]: every sparse vector with Dim, ConstAt of every index,
   private map, AVL index keys, iteration sequence of a clone; every dense vector; the headers of
   the sparse matrices; every dense matrix) are compared. *)
From Coq Require Import ZArith List Bool.
From ADV Require Import Base.Corr C11.Model C03.Model C03.ModelM.
Import ListNotations.
Open Scope Z_scope.

Definition sout := (Z * list Z * Z)%type.
Definition sout_eqb (a b : sout) : bool :=
  let '(k1, p1, h1) := a in
  let '(k2, p2, h2) := b in
  (k1 =? k2) && list_eqb Z.eqb p1 p2 && (h1 =? h2).
Fixpoint srun_obs (y : ty) (w : w4) (ops : list mop4) : list sout :=
  match ops with
  | [] => []
  | o :: r => let '(w', (k, p)) := step4 y w o in (k, p, hash (obs4 w')) :: srun_obs y w' r
  end.
Definition scase := (ty * list mop4 * list sout)%type.
Definition scheck (c : scase) : bool :=
  let '(y, ops, outs) := c in list_eqb sout_eqb (srun_obs y init4 ops) outs.
Definition smism (cs : list scase) : list nat := mismatches scheck cs.
(* diagnostics *)
Definition sdiverge (c : scase) : option nat :=
  let '(y, ops, outs) := c in first_diff sout_eqb 0 (srun_obs y init4 ops) outs.
Definition sobs_after (n : nat) (c : scase) : list Z :=
  let '(y, ops, _) := c in obs4 (run4 y init4 (firstn n ops)).
Definition skinds (c : scase) : list Z :=
  let '(y, ops, _) := c in map (fun o => fst (fst o)) (srun_obs y init4 ops).
