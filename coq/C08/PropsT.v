(* C08/PropsT.v (round 7) — statements only; proofs in ProofsT.v.  The buffers tmp1 / tmp2 that the
   Real matrix product slices when its receiver is a factor (model C08/ModelT.v, tied to the library by
   the buffer stream of the correspondence). *)
From Coq Require Import ZArith List Bool.
From ADV Require Import C08.ModelT C08.ProofsT.
Import ListNotations.
Open Scope Z_scope.

(* every header reachable from a constructor by Slice / T / Tip / Clone (any history): no step panics, the
   buffers have the lengths of the shape, and the product's buffer slice succeeds whether or not the receiver
   is the right factor — r.MdotM(a, r) / r.MdotM(r, b) cannot die on tmp1[0:n] / tmp2[0:m] *)
Theorem product_buffers_fit_after_any_history : forall n m ops, 0 <= n -> 0 <= m -> Forall op_valid ops ->
  exists t0 t, t_new n m = Some t0 /\ t_last t0 ops = Some t /\ ~ In None (t_run n m ops) /\
               t_l1 t = t_rows t /\ t_l2 t = t_cols t /\
               forall shares_b, mdotm_tmp_ok t shares_b = true.
Proof. exact reachable_buffers_fit. Qed.
Example product_buffers_history_instance :
  Forall op_valid [TSlice 0 1 0 1; TT; TSlice 0 1 0 3; TTip; TClone] /\
  t_last (mkT 3 2 3 3 2 2) [TSlice 0 1 0 1; TT; TSlice 0 1 0 3; TTip; TClone] = Some (mkT 3 1 3 3 1 1).
Proof. split; [repeat constructor; cbn; auto with zarith|vm_compute; reflexivity]. Qed.

(* the in-place transpose swaps the buffers with the shape ... *)
Theorem tip_swaps_buffers_with_shape : forall t, t_inv t ->
  exists t', t_step t TTip = Some t' /\ t_rows t' = t_cols t /\ t_cols t' = t_rows t /\
             t_l1 t' = t_cols t /\ t_l2 t' = t_rows t /\ mdotm_tmp_ok t' true = true /\ mdotm_tmp_ok t' false = true.
Proof. exact tip_swaps_buffers. Qed.
(* ... and a Tip() that does not would break the aliased product of EVERY non-square fresh matrix *)
Theorem tip_without_buffer_swap_breaks_aliased_product : forall n m t, 0 <= n -> 0 <= m -> t_new n m = Some t ->
  (n < m -> mdotm_tmp_ok (t_tip_noswap t) true = false) /\
  (m < n -> mdotm_tmp_ok (t_tip_noswap t) false = false).
Proof. exact tip_without_swap_breaks. Qed.
Example tip_without_buffer_swap_witness :
  t_new 1 2 = Some (mkT 1 2 1 1 2 2) /\ mdotm_tmp_ok (t_tip_noswap (mkT 1 2 1 1 2 2)) true = false /\
  t_step (mkT 1 2 1 1 2 2) TTip = Some (mkT 2 1 2 2 1 1) /\ mdotm_tmp_ok (mkT 2 1 2 2 1 1) true = true.
Proof. exact tip_without_swap_witness. Qed.
