(* C08/ModelSc.v — vector-scalar / matrix-scalar operations whose SCALAR operand is a
   reference into storage (round 6):

       r.VmulS(a, r.At(k))      v.VdivS(v, v.At(0))      m.MaddS(m, m.At(i, j))   ...

   In Go the scalar argument of VaddS / VsubS / VmulS / VdivS (and the concrete twins
   VADDS ... whose parameter is a Float64 = struct{ptr *float64}, and the matrix
   operations MaddS ... / MADDS ...) is a REFERENCE: the loop body

       for i := 0; i < a.Dim(); i++ { r.AT(i).Mul(a.ConstAt(i), s) }

   reads the scalar again in every iteration.  When the scalar is a cell of the
   receiver, the positions up to and including that cell see the old value and the
   positions after it see the value just written.

   1. [sc_loop]: the loop on an abstract memory  address -> value  for ANY carrier and
      ANY binary operation, over the receiver's and the operand's cells listed in
      iteration order, the scalar an address; [sc_copy]: the same call on a deep copy of
      the scalar (its value is read once, before the loop).
   2. the dense instances on the shared heap / header model C10.Model + C08.Model:
      [vEwS] (dense vector slices), [mEwS] (dense matrix views, row-major in VIEW
      coordinates); the scalar is [SVec v k] = v.At(k) or [SMat m i j] = m.At(i, j),
      resolved to a storage cell through the regenerated index function of C10.Gen.
   (the sparse instances are in C08/ModelScS.v)
   No proofs in this file. *)
From Coq Require Import ZArith List Bool Arith.
From ADV Require Import C10.Gen C10.Model C08.Model.
Import ListNotations.

(* ------------------------------------------------------------------ 1. abstract cells *)
Section Cells.
Context {A : Type}.
Definition addr := (nat * nat)%type.                       (* storage, index *)
Definition addr_eqb (x y : addr) : bool := Nat.eqb (fst x) (fst y) && Nat.eqb (snd x) (snd y).
Definition mem := addr -> A.
Definition mupd (h : mem) (c : addr) (v : A) : mem := fun x => if addr_eqb x c then v else h x.

(* one iteration with the scalar obtained by [g] from the CURRENT memory *)
Definition sc_step_g (f : A -> A -> A) (g : mem -> A) (h : mem) (p : addr * addr) : mem :=
  mupd h (fst p) (f (h (snd p)) (g h)).
(* r.<op>S(a, s): the scalar is the cell s, read in every iteration *)
Definition sc_loop (f : A -> A -> A) (rc ac : list addr) (s : addr) (h : mem) : mem :=
  fold_left (sc_step_g f (fun h => h s)) (combine rc ac) h.
(* the same call with a deep copy of the scalar *)
Definition sc_copy (f : A -> A -> A) (rc ac : list addr) (s : addr) (h : mem) : mem :=
  let v := h s in fold_left (sc_step_g f (fun _ => v)) (combine rc ac) h.
End Cells.

(* ------------------------------------------------------------------ 2. dense containers *)
Open Scope Z_scope.

Inductive sref := SVec (v : vec) (k : Z) | SMat (m : mat) (i j : Z).

Section DenseSc.
Variable real : bool.

(* the storage cell behind v.At(k) / m.At(i, j) *)
Definition s_cell (s : sref) : R (nat * Z) :=
  match s with
  | SVec v k => if (k <? 0) || (k >=? v_len v) then RPanic else ROk (v_loc v, v_off v + k)
  | SMat m i j => k <- idx real m i j ;; ROk (d_values m, k)
  end.
Definition rd_cell (H : heap) (c : nat * Z) : R Z := get (store_of H (fst c)) (snd c).

(* binary operations: 0 add, 1 sub, 2 mul (ew_fun) *)
(* r.VaddS / VsubS / VmulS (a, s) and VADDS ...: the scalar argument is evaluated by the CALLER (s.At(k)
   may panic before the call), then one ascending loop *)
Definition vEwS (f : Z) (H : heap) (r a : vec) (s : sref) : R heap :=
  c <- s_cell s ;;
  if negb (v_len a =? v_len r) then RPanic else
  foldR (fun H i => x <- vAT H a i ;; y <- rd_cell H c ;; vSET H r i (ew_fun f x y)) (zseq (v_len a)) H.

(* r.MaddS / MsubS / MmulS (a, s) and MADDS ...: row-major over the VIEW positions of r *)
Definition mEwS (f : Z) (H : heap) (r a : mat) (s : sref) : R heap :=
  c <- s_cell s ;;
  if negb (dims_eq real r a) then RPanic else
  foldR (fun H p => _ <- idx real r (fst p) (snd p) ;;
                    x <- mAT real H a (fst p) (snd p) ;; y <- rd_cell H c ;;
                    mSET real H r (fst p) (snd p) (ew_fun f x y)) (mpos real r) H.
End DenseSc.

Inductive sccall :=
| CVEwS (f : Z) (r a : vec) (s : sref)
| CMEwS (real : bool) (f : Z) (r a : mat) (s : sref).
Definition run_sc (H : heap) (c : sccall) : R heap :=
  match c with
  | CVEwS f r a s => vEwS false f H r a s
  | CMEwS real f r a s => mEwS real f H r a s
  end.

(* the cells of a slice / a view in iteration order (addresses of the abstract model) *)
Definition vcells (v : vec) : list addr := map (fun i => (v_loc v, Z.to_nat (v_off v + i))) (zseq (v_len v)).

