(* C08/ProofsSparse.v — the alias-rejection guards of the sparse (and dense) in-place
   products on the models C11.Model / C03.ModelM (imported, not forked). *)
From Coq Require Import ZArith List Bool Lia Arith.
From ADV Require Import C11.Model C03.Model C03.ModelM C08.ModelS C08.SpecS.
Import ListNotations.
Open Scope Z_scope.

(* ------------------------------------------------------------------ lists, heap, map *)
Lemma hget_app0 h l : hget (h ++ [0]) l = hget h l.
Proof.
  unfold hget. destruct (Nat.lt_ge_cases l (length h)) as [Hl|Hl].
  - apply app_nth1; exact Hl.
  - rewrite (nth_overflow h) by lia. rewrite app_nth2 by lia.
    destruct (l - length h)%nat as [|k]; [reflexivity|]. destruct k; reflexivity.
Qed.
Lemma upd_length {X} (x : X) : forall l n, length (upd n x l) = length l.
Proof. induction l as [|y l IH]; intros [|n]; simpl; auto. Qed.
Lemma nth_upd_eq {X} (x d : X) : forall l n, (n < length l)%nat -> nth n (upd n x l) d = x.
Proof. induction l as [|y l IH]; intros [|n] Hn; simpl in *; try lia; auto. apply IH. lia. Qed.
Lemma nth_upd_neq {X} (x d : X) : forall l n m, m <> n -> nth m (upd n x l) d = nth m l d.
Proof. induction l as [|y l IH]; intros [|n] [|m] Hn; simpl; auto; try congruence. Qed.
Lemma upd_overflow {X} (x : X) : forall l n, (length l <= n)%nat -> upd n x l = l.
Proof. induction l as [|y l IH]; intros [|n] Hn; simpl in *; auto; try lia. f_equal. apply IH. lia. Qed.

Lemma lookup_remove_neq k i : forall m, i <> k -> lookup i (remove k m) = lookup i m.
Proof.
  induction m as [|[k' v] m IH]; simpl; intros Hik; [reflexivity|].
  destruct (k' =? k) eqn:E.
  - apply Z.eqb_eq in E. subst k'. destruct (k =? i) eqn:E2; [apply Z.eqb_eq in E2; lia|]. apply IH; exact Hik.
  - simpl. destruct (k' =? i); [reflexivity|]. apply IH; exact Hik.
Qed.
Lemma lookup_insert_eq k v m : lookup k (insert k v m) = Some v.
Proof. unfold insert. simpl. rewrite Z.eqb_refl. reflexivity. Qed.
Lemma lookup_insert_neq k i v m : i <> k -> lookup i (insert k v m) = lookup i m.
Proof.
  intros Hik. unfold insert. simpl. destruct (k =? i) eqn:E; [apply Z.eqb_eq in E; lia|].
  apply lookup_remove_neq; exact Hik.
Qed.

(* ------------------------------------------------------------------ AT(i) *)
(* AT(i) on an index in range returns a cell of the vector; what the vector reads at EVERY
   index, its Dim and every cell of the heap are as before — the only change is the stored
   pattern (an explicit zero at i when nothing was stored there) *)
Lemma at_spec h v i h' v' l : at_ h v i = Some (h', v', l) ->
  in_bounds v i = true /\ dim v' = dim v /\ lookup i (vals v') = Some l /\
  (forall c, hget h' c = hget h c) /\ (forall k, peek h' v' k = peek h v k) /\
  (forall k, k <> i -> lookup k (vals v') = lookup k (vals v)) /\
  (lookup i (vals v) = None -> hget h' l = 0 /\ l = length h).
Proof.
  unfold at_. destruct (in_bounds v i); [|discriminate].
  destruct (lookup i (vals v)) as [l0|] eqn:El.
  - intros E. inversion E; subst. split; [reflexivity|]. split; [reflexivity|]. split; [exact El|].
    split; [reflexivity|]. split; [reflexivity|]. split; [reflexivity|]. intros HN. congruence.
  - unfold halloc. intros E. inversion E; subst. clear E. cbn [vals dim].
    split; [reflexivity|]. split; [reflexivity|]. split; [apply lookup_insert_eq|].
    split; [intros c; apply hget_app0|]. split.
    + intros k. unfold peek. cbn [vals]. destruct (Z.eq_dec k i) as [->|Hk].
      * rewrite lookup_insert_eq, El. rewrite hget_app0. unfold hget. apply nth_overflow. lia.
      * rewrite lookup_insert_neq by exact Hk. destruct (lookup k (vals v)); [apply hget_app0|reflexivity].
    + split; [intros k Hk; apply lookup_insert_neq; exact Hk|].
      intros _. split; [|reflexivity]. rewrite hget_app0. unfold hget. apply nth_overflow. lia.
Qed.
Lemma at_some h v i : in_bounds v i = true -> exists h' v' l, at_ h v i = Some (h', v', l).
Proof.
  intros Hb. unfold at_. rewrite Hb. destruct (lookup i (vals v)); [eauto|]. unfold halloc. eauto.
Qed.
Lemma in_bounds_nil i : in_bounds (nil_vec 0) i = false.
Proof. unfold in_bounds, nil_vec. cbn. destruct (0 <=? i) eqn:A, (i <? 0) eqn:B; auto. apply Z.leb_le in A. apply Z.ltb_lt in B. lia. Qed.
Lemma in_bounds_has w t i : in_bounds (getv w t) i = true -> (t < length (vecs w))%nat.
Proof.
  intros Hb. destruct (Nat.lt_ge_cases t (length (vecs w))) as [H|H]; [exact H|].
  unfold getv in Hb. rewrite nth_overflow in Hb by exact H. rewrite in_bounds_nil in Hb. discriminate.
Qed.
Lemma in_bounds_dim v v' i : dim v' = dim v -> in_bounds v' i = in_bounds v i.
Proof. unfold in_bounds. intros ->. reflexivity. Qed.

(* the world after AT(i) on vector t *)
Lemma at_world s t i h' v' l : at_ (hp s) (getv s t) i = Some (h', v', l) ->
  let s' := seth (setv s t v') h' in
  length (vecs s') = length (vecs s) /\ getv s' t = v' /\ (forall u, u <> t -> getv s' u = getv s u) /\
  (forall u, dim (getv s' u) = dim (getv s u)) /\
  (forall u k, peek (hp s') (getv s' u) k = peek (hp s) (getv s u) k).
Proof.
  intros E. destruct (at_spec _ _ _ _ _ _ E) as (Hb & Hd & _ & Hh & Hp & _).
  pose proof (in_bounds_has _ _ _ Hb) as Ht. cbn zeta.
  assert (G1 : getv (seth (setv s t v') h') t = v') by (unfold getv, seth, setv; cbn; apply nth_upd_eq; exact Ht).
  assert (G2 : forall u, u <> t -> getv (seth (setv s t v') h') u = getv s u)
    by (intros u Hu; unfold getv, seth, setv; cbn; apply nth_upd_neq; exact Hu).
  split; [unfold seth, setv; cbn; apply upd_length|]. split; [exact G1|]. split; [exact G2|]. split.
  - intros u. destruct (Nat.eq_dec u t) as [->|Hu]; [rewrite G1; exact Hd|rewrite G2 by exact Hu; reflexivity].
  - intros u k. replace (hp (seth (setv s t v') h')) with h' by reflexivity.
    destruct (Nat.eq_dec u t) as [->|Hu]; [rewrite G1; apply Hp|]. rewrite G2 by exact Hu.
    unfold peek. destruct (lookup k (vals (getv s u))); [apply Hh|reflexivity].
Qed.

(* ------------------------------------------------------------------ observational equality *)
Lemma same_obs_refl w : same_obs w w.
Proof. unfold same_obs. repeat (split; [reflexivity|]). split; reflexivity. Qed.
Lemma same_obs_trans w1 w2 w3 : same_obs w1 w2 -> same_obs w2 w3 -> same_obs w1 w3.
Proof.
  intros (A1 & A2 & A3 & A4 & A5 & A6) (B1 & B2 & B3 & B4 & B5 & B6). unfold same_obs.
  split; [congruence|]. split; [congruence|]. split; [congruence|]. split; [congruence|].
  split; [intros u; rewrite B5; apply A5|intros u k; rewrite B6; apply A6].
Qed.
Lemma same_obs_at w t i h' v' l :
  at_ (hp (sw (b3 w))) (getv (sw (b3 w)) t) i = Some (h', v', l) ->
  same_obs w (setsw w (seth (setv (sw (b3 w)) t v') h')).
Proof.
  intros E. destruct (at_world _ _ _ _ _ _ E) as (L & _ & _ & D & P). unfold same_obs.
  split; [reflexivity|]. split; [reflexivity|]. split; [reflexivity|]. split; [exact L|]. split; [exact D|exact P].
Qed.
(* what [same_obs] says about the public observation *)
Lemma same_obs_public w w' : same_obs w w' -> pub_world w' = pub_world w.
Proof.
  intros (A1 & A2 & A3 & A4 & A5 & A6). unfold pub_world. rewrite A1, A2, A3, A4. f_equal. f_equal. f_equal.
  apply map_ext. intros u. unfold pub_vec, abs_vec. rewrite A5. f_equal. apply map_ext. intros k. apply A6.
Qed.

(* ------------------------------------------------------------------ sparse MdotV / VdotM, r IS the vector operand *)
(* For EVERY world (any stored pattern of r: nothing at index 0, an explicit zero at 0, empty, ...),
   every matrix operand, every element type: the call panics — or r is the empty vector (n = m = 0:
   the guard is not reached, nothing is computed, nothing to alias) — and the world reads as before. *)
Lemma sparse_mdotv_self y w t a :
  let r := step4 y w (MdotV (RS t) a (RS t)) in
  (kind_of r = K_PANIC \/ (snd r = (K_OK, []) /\ fst r = w /\ vlen w (RS t) = 0)) /\ same_obs w (fst r).
Proof.
  cbn zeta. unfold kind_of. cbn [step4]. destruct (mdims w a) as [n m].
  destruct ((vlen w (RS t) =? n) && (vlen w (RS t) =? m)) eqn:Ed; cbn [negb].
  2:{ unfold panic. cbn. split; [left; reflexivity|apply same_obs_refl]. }
  apply andb_true_iff in Ed. destruct Ed as [E1 E2]. apply Z.eqb_eq in E1. apply Z.eqb_eq in E2.
  destruct ((n =? 0) || (m =? 0)) eqn:Ez.
  { unfold okm. cbn [fst snd]. split; [|apply same_obs_refl]. right. split; [reflexivity|]. split; [reflexivity|].
    apply orb_true_iff in Ez. destruct Ez as [Ez|Ez]; apply Z.eqb_eq in Ez; lia. }
  rewrite Nat.eqb_refl.
  destruct (at_ (hp (sw (b3 w))) (getv (sw (b3 w)) t) 0) as [[[h' v'] l]|] eqn:Ea.
  - unfold panic. cbn [fst snd]. split; [left; reflexivity|]. eapply same_obs_at; exact Ea.
  - unfold panic. cbn. split; [left; reflexivity|apply same_obs_refl].
Qed.
Lemma sparse_vdotm_self y w t b :
  let r := step4 y w (VdotM (RS t) (RS t) b) in
  (kind_of r = K_PANIC \/ (snd r = (K_OK, []) /\ fst r = w /\ vlen w (RS t) = 0)) /\ same_obs w (fst r).
Proof.
  cbn zeta. unfold kind_of. cbn [step4]. destruct (mdims w b) as [n m].
  destruct ((vlen w (RS t) =? m) && (vlen w (RS t) =? n)) eqn:Ed; cbn [negb].
  2:{ unfold panic. cbn. split; [left; reflexivity|apply same_obs_refl]. }
  apply andb_true_iff in Ed. destruct Ed as [E1 E2]. apply Z.eqb_eq in E1. apply Z.eqb_eq in E2.
  destruct ((n =? 0) || (m =? 0)) eqn:Ez.
  { unfold okm. cbn [fst snd]. split; [|apply same_obs_refl]. right. split; [reflexivity|]. split; [reflexivity|].
    apply orb_true_iff in Ez. destruct Ez as [Ez|Ez]; apply Z.eqb_eq in Ez; lia. }
  rewrite Nat.eqb_refl.
  destruct (at_ (hp (sw (b3 w))) (getv (sw (b3 w)) t) 0) as [[[h' v'] l]|] eqn:Ea.
  - unfold panic. cbn [fst snd]. split; [left; reflexivity|]. eapply same_obs_at; exact Ea.
  - unfold panic. cbn. split; [left; reflexivity|apply same_obs_refl].
Qed.
(* in range the guard is reached and fires: 0 < Dim(r) and matching dimensions give Panic *)
Lemma sparse_mdotv_self_panics y w t a n :
  mdims w a = (n, n) -> vlen w (RS t) = n -> 0 < n -> kind_of (step4 y w (MdotV (RS t) a (RS t))) = K_PANIC.
Proof.
  intros Ea En Hn. destruct (sparse_mdotv_self y w t a) as [[H|(_ & _ & H)] _]; [exact H|lia].
Qed.
Lemma sparse_vdotm_self_panics y w t b n :
  mdims w b = (n, n) -> vlen w (RS t) = n -> 0 < n -> kind_of (step4 y w (VdotM (RS t) (RS t) b)) = K_PANIC.
Proof.
  intros Ea En Hn. destruct (sparse_vdotm_self y w t b) as [[H|(_ & _ & H)] _]; [exact H|lia].
Qed.

(* dense receivers of the same model (whole dense vectors, identity = the handle): same statement *)
Lemma dense_mdotv_self y w k a :
  let r := step4 y w (MdotV (RD k) a (RD k)) in
  (kind_of r = K_PANIC \/ (snd r = (K_OK, []) /\ vlen w (RD k) = 0)) /\ fst r = w.
Proof.
  cbn zeta. unfold kind_of. cbn [step4]. destruct (mdims w a) as [n m].
  destruct ((vlen w (RD k) =? n) && (vlen w (RD k) =? m)) eqn:Ed; cbn [negb].
  2:{ unfold panic. cbn. split; [left; reflexivity|reflexivity]. }
  apply andb_true_iff in Ed. destruct Ed as [E1 E2]. apply Z.eqb_eq in E1. apply Z.eqb_eq in E2.
  destruct ((n =? 0) || (m =? 0)) eqn:Ez.
  { unfold okm. cbn [fst snd]. split; [|reflexivity]. right. split; [reflexivity|].
    apply orb_true_iff in Ez. destruct Ez as [Ez|Ez]; apply Z.eqb_eq in Ez; lia. }
  rewrite Nat.eqb_refl. unfold panic. cbn. split; [left; reflexivity|reflexivity].
Qed.
Lemma dense_vdotm_self y w k b :
  let r := step4 y w (VdotM (RD k) (RD k) b) in
  (kind_of r = K_PANIC \/ (snd r = (K_OK, []) /\ vlen w (RD k) = 0)) /\ fst r = w.
Proof.
  cbn zeta. unfold kind_of. cbn [step4]. destruct (mdims w b) as [n m].
  destruct ((vlen w (RD k) =? m) && (vlen w (RD k) =? n)) eqn:Ed; cbn [negb].
  2:{ unfold panic. cbn. split; [left; reflexivity|reflexivity]. }
  apply andb_true_iff in Ed. destruct Ed as [E1 E2]. apply Z.eqb_eq in E1. apply Z.eqb_eq in E2.
  destruct ((n =? 0) || (m =? 0)) eqn:Ez.
  { unfold okm. cbn [fst snd]. split; [|reflexivity]. right. split; [reflexivity|].
    apply orb_true_iff in Ez. destruct Ez as [Ez|Ez]; apply Z.eqb_eq in Ez; lia. }
  rewrite Nat.eqb_refl. unfold panic. cbn. split; [left; reflexivity|reflexivity].
Qed.

(* ------------------------------------------------------------------ sparse MdotM: the storageLocation() test *)
(* storageLocation() of a sparse matrix is values.AT(0): it inserts entry 0 of the values vector *)
Definition mvec4 (w : w4) (k : nat) : nat := fst (fst (getsm w k)).
Definition loc_id (w : w4) (x : mref) : bool * nat :=
  match x with XS k => (true, mvec4 w k) | XD k => (false, k) end.

Lemma sloc_spec w x w' lx : sloc w x = Some (w', lx) -> same_obs w w' /\ lx = loc_id w x.
Proof.
  destruct x as [k|k]; unfold sloc, loc_id, mvec4.
  - destruct (getsm w k) as [[u r] c]. cbn [fst].
    destruct (at_ (hp (sw (b3 w))) (getv (sw (b3 w)) u) 0) as [[[h' v'] l]|] eqn:Ea; [|discriminate].
    intros E. inversion E; subst. split; [eapply same_obs_at; exact Ea|reflexivity].
  - destruct (getdm w k) as [[d r] c]. destruct (zlen d =? 0); [discriminate|].
    intros E. inversion E; subst. split; [apply same_obs_refl|reflexivity].
Qed.
(* once it succeeded on a sparse matrix it succeeds in every world that reads the same *)
Lemma sloc_sparse_again w k w1 l w2 :
  sloc w (XS k) = Some (w1, l) -> same_obs w w2 -> exists w3, sloc w2 (XS k) = Some (w3, l) /\ same_obs w2 w3.
Proof.
  intros E (A1 & _ & _ & _ & A5 & _). pose proof (sloc_spec _ _ _ _ E) as [_ Hl].
  unfold sloc in *. unfold getsm in *. rewrite A1. destruct (nth k (sms w) (0%nat, 0, 0)) as [[u r] c] eqn:Eg.
  destruct (at_ (hp (sw (b3 w))) (getv (sw (b3 w)) u) 0) as [[[h' v'] l0]|] eqn:Ea; [|discriminate].
  destruct (at_spec _ _ _ _ _ _ Ea) as (Hb & _).
  assert (Hb2 : in_bounds (getv (sw (b3 w2)) u) 0 = true) by (rewrite (in_bounds_dim (getv (sw (b3 w)) u)); [exact Hb|apply A5]).
  destruct (at_some (hp (sw (b3 w2))) _ _ Hb2) as (h2 & v2 & l2 & Ea2). rewrite Ea2.
  eexists. split; [|eapply same_obs_at; exact Ea2]. f_equal. f_equal. rewrite Hl. unfold loc_id, mvec4, getsm. rewrite Eg. reflexivity.
Qed.
Lemma same_loc_refl l : same_loc l l = true.
Proof. unfold same_loc. rewrite Bool.eqb_reflx, Nat.eqb_refl. reflexivity. Qed.

(* r.MdotM(r, b): for every world, every b, every element type the call panics and the world reads as before *)
Lemma sparse_mdotm_r_is_a y w k b :
  let r := step4 y w (MdotM (XS k) (XS k) b) in kind_of r = K_PANIC /\ same_obs w (fst r).
Proof.
  cbn zeta. unfold kind_of. cbn [step4].
  destruct (mdims w (XS k)) as [n m]. destruct (mdims w b) as [n2 m2].
  destruct (negb ((n =? n) && (m2 =? m) && (m =? n2))).
  { unfold panic. cbn. split; [reflexivity|apply same_obs_refl]. }
  destruct (getsm w k) as [[t r0] c0] eqn:Eg.
  destruct (sloc w (XS k)) as [[w1 lr]|] eqn:E1.
  2:{ unfold panic. cbn. split; [reflexivity|apply same_obs_refl]. }
  destruct (sloc_spec _ _ _ _ E1) as [O1 _].
  destruct (sloc_sparse_again _ _ _ _ w1 E1 O1) as (w2 & E2 & O2). rewrite E2, same_loc_refl.
  unfold panic. cbn. split; [reflexivity|eapply same_obs_trans; eassumption].
Qed.
(* r.MdotM(a, r) *)
Lemma sparse_mdotm_r_is_b y w k a :
  let r := step4 y w (MdotM (XS k) a (XS k)) in kind_of r = K_PANIC /\ same_obs w (fst r).
Proof.
  cbn zeta. unfold kind_of. cbn [step4].
  destruct (mdims w (XS k)) as [n m]. destruct (mdims w a) as [n1 m1].
  destruct (negb ((n1 =? n) && (m =? m) && (m1 =? n))).
  { unfold panic. cbn. split; [reflexivity|apply same_obs_refl]. }
  destruct (getsm w k) as [[t r0] c0] eqn:Eg.
  destruct (sloc w (XS k)) as [[w1 lr]|] eqn:E1.
  2:{ unfold panic. cbn. split; [reflexivity|apply same_obs_refl]. }
  destruct (sloc_spec _ _ _ _ E1) as [O1 _].
  destruct (sloc w1 a) as [[w2 la]|] eqn:E2.
  2:{ unfold panic. cbn. split; [reflexivity|exact O1]. }
  destruct (sloc_spec _ _ _ _ E2) as [O2 _].
  assert (O12 : same_obs w w2) by (eapply same_obs_trans; eassumption).
  destruct (same_loc lr la).
  { unfold panic. cbn. split; [reflexivity|exact O12]. }
  destruct (sloc_sparse_again _ _ _ _ w2 E1 O12) as (w3 & E3 & O3). rewrite E3, same_loc_refl.
  unfold panic. cbn. split; [reflexivity|eapply same_obs_trans; eassumption].
Qed.

(* ------------------------------------------------------------------ the guard at the level of cells *)
(* r.AT(0) == r.ConstAt(0) is TRUE in every state of r with 0 < Dim — because AT(0) inserts the entry *)
Lemma guard_ins_self w t : 0 < dim (getv w t) ->
  exists w', guard_ins w t t = Some (w', true) /\
             (forall u k, peek (hp w') (getv w' u) k = peek (hp w) (getv w u) k) /\
             (forall u, dim (getv w' u) = dim (getv w u)).
Proof.
  intros Hd. assert (Hb : in_bounds (getv w t) 0 = true)
    by (unfold in_bounds; apply andb_true_iff; split; [reflexivity|apply Z.ltb_lt; exact Hd]).
  destruct (at_some (hp w) _ _ Hb) as (h' & v' & l & Ea). unfold guard_ins. rewrite Ea.
  destruct (at_world _ _ _ _ _ _ Ea) as (_ & G & _ & D & P). cbn zeta in G, D, P.
  destruct (at_spec _ _ _ _ _ _ Ea) as (_ & _ & Hl & _).
  eexists. split; [|split; [exact P|exact D]]. rewrite G, Hl, Nat.eqb_refl. reflexivity.
Qed.
(* with the NON-inserting accessor (r.AT_(0) == r.ConstAt(0)) the guard misses r == b whenever nothing
   is stored at index 0: the regression *)
Lemma guard_noins_misses w t : lookup 0 (vals (getv w t)) = None -> guard_noins w t t = false.
Proof. intros H. unfold guard_noins. rewrite H. reflexivity. Qed.
(* two vectors that do not share the cell of entry 0 are never rejected (whatever is stored) *)
Lemma guard_ins_distinct w t u w' b : u <> t ->
  (forall l, lookup 0 (vals (getv w u)) = Some l -> (l < length (hp w))%nat /\ lookup 0 (vals (getv w t)) <> Some l) ->
  guard_ins w t u = Some (w', b) -> b = false.
Proof.
  intros Hu Hs. unfold guard_ins.
  destruct (at_ (hp w) (getv w t) 0) as [[[h' v'] l]|] eqn:Ea; [|discriminate].
  destruct (at_world _ _ _ _ _ _ Ea) as (_ & _ & G & _). cbn zeta in G.
  destruct (at_spec _ _ _ _ _ _ Ea) as (_ & _ & Hl & _ & _ & _ & Hnew).
  intros E. inversion E; subst. rewrite G by exact Hu.
  destruct (lookup 0 (vals (getv w u))) as [l'|] eqn:Eu; [|reflexivity].
  destruct (Hs l' eq_refl) as [Hlt Hne]. apply Nat.eqb_neq. intros ->.
  destruct (lookup 0 (vals (getv w t))) as [l0|] eqn:Et.
  - unfold at_ in Ea. destruct (in_bounds (getv w t) 0); [|discriminate]. rewrite Et in Ea. inversion Ea; subst. congruence.
  - destruct (Hnew eq_refl) as [_ ->]. lia.
Qed.
