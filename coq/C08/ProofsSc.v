(* C08/ProofsSc.v — the scalar operand of a vector-scalar / matrix-scalar operation is a cell.
   Closed form of the loop for ANY carrier and ANY operation (no algebraic law is used, so the
   binary64 / binary32 / integer instances are covered), for every receiver cell list without
   repetition and every operand that is never read after it was overwritten (identical
   container, another container, left-shifted overlap):

     scalar = k-th cell of the receiver:
        positions  i <= k   hold  f a[i] s            (s = the scalar's value before the call)
        positions  i >  k   hold  f a[i] (f a[k] s)   (the value position k received)
        nothing outside the receiver changes;
     scalar outside the receiver: every position holds  f a[i] s;
     deep copy of the scalar: every position holds  f a[i] s.

   Hence the EXACT condition under which the aliased call agrees with the call on a deep copy of
   the scalar ([sc_alias_iff]): the positions after k do not distinguish  f a[k] s  from  s. *)
From Coq Require Import ZArith List Bool Arith Lia.
From ADV Require Import C08.ModelSc.
Import ListNotations.

Lemma addr_eqb_spec (x y : addr) : reflect (x = y) (addr_eqb x y).
Proof.
  destruct x as [a b], y as [c d]. unfold addr_eqb. simpl.
  destruct (Nat.eqb_spec a c) as [E1|E1]; destruct (Nat.eqb_spec b d) as [E2|E2]; simpl; constructor; congruence.
Qed.
Lemma mupd_same {A} (h : @mem A) c v : mupd h c v c = v.
Proof. unfold mupd. destruct (addr_eqb_spec c c); congruence. Qed.
Lemma mupd_other {A} (h : @mem A) c v x : x <> c -> mupd h c v x = h x.
Proof. unfold mupd. intro N. destruct (addr_eqb_spec x c); congruence. Qed.

Lemma firstn_succ_nth {X} (l : list X) d : forall m, (m < length l)%nat -> firstn (S m) l = firstn m l ++ [nth m l d].
Proof.
  induction l as [|x l IH]; intros m Hm; simpl in Hm; [lia|].
  destruct m as [|m]; [reflexivity|]. simpl. f_equal. apply IH. lia.
Qed.

Section Loop.
Context {A : Type}.
Variable f : A -> A -> A.
Variables rc ac : list addr.
Variable h : @mem A.
Let d : addr := (O, O).
Let n := length rc.
Hypothesis Len : length ac = n.
Hypothesis ND : NoDup rc.
(* read before write: the operand cell of position j is not a receiver cell of an EARLIER position *)
Hypothesis RBW : forall i j, (i < j)%nat -> (j < n)%nat -> nth i rc d <> nth j ac d.

Let l := combine rc ac.
Lemma len_l : length l = n.
Proof. unfold l. rewrite combine_length, Len. apply Nat.min_id. Qed.
Lemma nth_l m : (m < n)%nat -> nth m l (d, d) = (nth m rc d, nth m ac d).
Proof. intro Hm. unfold l. apply combine_nth. symmetry. exact Len. Qed.

(* generic invariant: [g] yields the value [sv m] at the beginning of iteration m *)
Section Generic.
Variable g : @mem A -> A.
Variable sv : nat -> A.
Definition ev (i : nat) : A := f (h (nth i ac d)) (sv i).
Definition Inv (m : nat) (hm : @mem A) : Prop :=
  (forall i, (i < m)%nat -> hm (nth i rc d) = ev i) /\
  (forall c, (forall i, (i < m)%nat -> c <> nth i rc d) -> hm c = h c).
Hypothesis G : forall m hm, (m < n)%nat -> Inv m hm -> g hm = sv m.

Lemma inv_prefix : forall m, (m <= n)%nat -> Inv m (fold_left (sc_step_g f g) (firstn m l) h).
Proof.
  induction m as [|m IH]; intro Hm.
  - simpl. split; [intros i Hi; lia|reflexivity].
  - assert (Hm' : (m < n)%nat) by lia.
    rewrite (firstn_succ_nth l (d, d)) by (rewrite len_l; exact Hm').
    rewrite fold_left_app. simpl. set (hm := fold_left (sc_step_g f g) (firstn m l) h).
    assert (I : Inv m hm) by (apply IH; lia).
    rewrite (nth_l m Hm'). unfold sc_step_g. simpl.
    rewrite (G m hm Hm' I).
    destruct I as [I1 I2].
    assert (Ea : hm (nth m ac d) = h (nth m ac d)).
    { apply I2. intros i Hi E. apply (RBW i m Hi Hm'). symmetry. exact E. }
    rewrite Ea. fold (ev m).
    split.
    + intros i Hi. destruct (Nat.eq_dec i m) as [E|E].
      * subst i. apply mupd_same.
      * rewrite mupd_other; [apply I1; lia|].
        intro E2. apply E. apply (proj1 (NoDup_nth rc d) ND); unfold n in *; try lia. exact E2.
    + intros c Hc. rewrite mupd_other by (apply Hc; lia). apply I2. intros i Hi. apply Hc. lia.
Qed.
Lemma inv_full : Inv n (fold_left (sc_step_g f g) l h).
Proof.
  pose proof (inv_prefix n (le_n n)) as I. rewrite firstn_all2 in I by (rewrite len_l; lia). exact I.
Qed.
End Generic.

(* ------------------------------------------------ the scalar is the k-th receiver cell *)
Section Inside.
Variable k : nat.
Hypothesis Hk : (k < n)%nat.
Let s := nth k rc d.
Definition sv_in (m : nat) : A := if (m <=? k)%nat then h s else f (h (nth k ac d)) (h s).

Lemma g_inside m hm : (m < n)%nat -> Inv sv_in m hm -> hm s = sv_in m.
Proof.
  intros Hm [I1 I2]. unfold sv_in. destruct (Nat.leb_spec m k) as [L|L].
  - apply I2. intros i Hi E. unfold s in E.
    assert (k = i) by (apply (proj1 (NoDup_nth rc d) ND); unfold n in *; try lia; exact E). lia.
  - unfold s. rewrite I1 by lia. unfold ev, sv_in. rewrite Nat.leb_refl. reflexivity.
Qed.

Theorem sc_loop_inside :
  let h' := sc_loop f rc ac s h in
  (forall i, (i <= k)%nat -> h' (nth i rc d) = f (h (nth i ac d)) (h s)) /\
  (forall i, (k < i)%nat -> (i < n)%nat -> h' (nth i rc d) = f (h (nth i ac d)) (f (h (nth k ac d)) (h s))) /\
  (forall c, ~ In c rc -> h' c = h c).
Proof.
  cbv zeta. unfold sc_loop. fold l.
  destruct (inv_full (fun hm => hm s) sv_in g_inside) as [I1 I2].
  split; [|split].
  - intros i Hi. rewrite I1 by lia. unfold ev, sv_in. destruct (Nat.leb_spec i k); [reflexivity|lia].
  - intros i Hi Hn. rewrite I1 by lia. unfold ev, sv_in. destruct (Nat.leb_spec i k); [lia|reflexivity].
  - intros c Hc. apply I2. intros i Hi E. apply Hc. rewrite E. apply nth_In. exact Hi.
Qed.
End Inside.

(* ------------------------------------------------ the scalar is NOT a receiver cell *)
Theorem sc_loop_outside s : ~ In s rc ->
  let h' := sc_loop f rc ac s h in
  (forall i, (i < n)%nat -> h' (nth i rc d) = f (h (nth i ac d)) (h s)) /\
  (forall c, ~ In c rc -> h' c = h c).
Proof.
  intro Hs. cbv zeta. unfold sc_loop. fold l.
  destruct (inv_full (fun hm => hm s) (fun _ => h s)) as [I1 I2].
  { intros m hm Hm [_ J2]. apply J2. intros i Hi E. apply Hs. rewrite E. apply nth_In. unfold n in *. lia. }
  split.
  - intros i Hi. rewrite I1 by exact Hi. reflexivity.
  - intros c Hc. apply I2. intros i Hi E. apply Hc. rewrite E. apply nth_In. exact Hi.
Qed.

(* ------------------------------------------------ deep copy of the scalar *)
Theorem sc_copy_closed s :
  let h' := sc_copy f rc ac s h in
  (forall i, (i < n)%nat -> h' (nth i rc d) = f (h (nth i ac d)) (h s)) /\
  (forall c, ~ In c rc -> h' c = h c).
Proof.
  cbv zeta. unfold sc_copy. fold l.
  destruct (inv_full (fun _ => h s) (fun _ => h s)) as [I1 I2]; [reflexivity|].
  split.
  - intros i Hi. rewrite I1 by exact Hi. reflexivity.
  - intros c Hc. apply I2. intros i Hi E. apply Hc. rewrite E. apply nth_In. exact Hi.
Qed.

(* ------------------------------------------------ aliased call vs deep copy: the exact condition *)
Theorem sc_alias_iff k : (k < n)%nat ->
  let s := nth k rc d in
  (forall c, sc_loop f rc ac s h c = sc_copy f rc ac s h c) <->
  (forall i, (k < i)%nat -> (i < n)%nat ->
     f (h (nth i ac d)) (f (h (nth k ac d)) (h s)) = f (h (nth i ac d)) (h s)).
Proof.
  intros Hk s.
  destruct (sc_loop_inside k Hk) as [L1 [L2 L3]]. fold s in L1, L2, L3.
  destruct (sc_copy_closed s) as [C1 C2].
  split.
  - intros E i Hi Hn. rewrite <- (L2 i Hi Hn), <- (C1 i Hn). apply E.
  - intros E c. destruct (in_dec (fun x y => reflect_dec _ _ (addr_eqb_spec x y)) c rc) as [Hin|Hout].
    + destruct (In_nth rc c d Hin) as [i [Hi Ei]]. subst c. fold n in Hi.
      destruct (Nat.leb_spec i k) as [Le|Gt].
      * rewrite L1 by exact Le. rewrite C1 by exact Hi. reflexivity.
      * rewrite L2 by assumption. rewrite C1 by exact Hi. apply E; assumption.
    + rewrite L3, C2 by exact Hout. reflexivity.
Qed.

(* the scalar is the LAST cell of the receiver: nothing is computed after it was overwritten *)
Corollary sc_alias_last : (0 < n)%nat ->
  forall c, sc_loop f rc ac (nth (n - 1) rc d) h c = sc_copy f rc ac (nth (n - 1) rc d) h c.
Proof. intro Hn. apply (proj2 (sc_alias_iff (n - 1) ltac:(lia))). intros i Hi Hi2. lia. Qed.
(* the value written at position k equals the scalar (x * 1, x + 0, ...) *)
Corollary sc_alias_fixed k : (k < n)%nat -> f (h (nth k ac d)) (h (nth k rc d)) = h (nth k rc d) ->
  forall c, sc_loop f rc ac (nth k rc d) h c = sc_copy f rc ac (nth k rc d) h c.
Proof. intros Hk E. apply (proj2 (sc_alias_iff k Hk)). intros i _ _. rewrite E. reflexivity. Qed.
(* the scalar lives outside the receiver (another object, or a cell of the operand only) *)
Corollary sc_alias_outside s : ~ In s rc -> forall c, sc_loop f rc ac s h c = sc_copy f rc ac s h c.
Proof.
  intros Hs c. destruct (sc_loop_outside s Hs) as [L1 L2]. destruct (sc_copy_closed s) as [C1 C2].
  destruct (in_dec (fun x y => reflect_dec _ _ (addr_eqb_spec x y)) c rc) as [Hin|Hout].
  - destruct (In_nth rc c d Hin) as [i [Hi Ei]]. subst c. rewrite L1, C1 by exact Hi. reflexivity.
  - rewrite L2, C2 by exact Hout. reflexivity.
Qed.
End Loop.

(* ------------------------------------------------ operands that satisfy read-before-write *)
Lemma rbw_identical (rc : list addr) : NoDup rc ->
  forall i j, (i < j)%nat -> (j < length rc)%nat -> nth i rc (O, O) <> nth j rc (O, O).
Proof. intros ND i j Hij Hj E. assert (i = j) by (apply (proj1 (NoDup_nth rc (O, O)) ND); try lia; exact E). lia. Qed.
Lemma rbw_disjoint (rc ac : list addr) : length ac = length rc -> (forall c, In c ac -> ~ In c rc) ->
  forall i j, (i < j)%nat -> (j < length rc)%nat -> nth i rc (O, O) <> nth j ac (O, O).
Proof.
  intros Len Dj i j Hij Hj E. apply (Dj (nth j ac (O, O))); [apply nth_In; lia|].
  rewrite <- E. apply nth_In. lia.
Qed.

(* ------------------------------------------------ refuted: aliased call differs from the deep copy *)
(* v = [2;3;4;5]:  v.VmulS(v, v.At(1))  leaves [6;9;36;45]  (positions 0,1 multiplied by 3, positions 2,3
   by 9); with a copy of the scalar: [6;9;12;15].  Carrier Z. *)
Definition zmem (l : list Z) : @mem Z := fun c => if Nat.eqb (fst c) 0 then nth (snd c) l 0%Z else 0%Z.
Definition cells4 : list addr := [(O, 0%nat); (O, 1%nat); (O, 2%nat); (O, 3%nat)].
Lemma sc_alias_refuted :
  map (sc_loop Z.mul cells4 cells4 (O, 1%nat) (zmem [2; 3; 4; 5]%Z)) cells4 = [6; 9; 36; 45]%Z /\
  map (sc_copy Z.mul cells4 cells4 (O, 1%nat) (zmem [2; 3; 4; 5]%Z)) cells4 = [6; 9; 12; 15]%Z.
Proof. vm_compute. split; reflexivity. Qed.
(* the loop ORDER is part of the semantics: the descending loop over the same cells gives [18;9;12;15]
   (now position 0 sees the new value) *)
Lemma sc_order_matters :
  map (sc_loop Z.mul (rev cells4) (rev cells4) (O, 1%nat) (zmem [2; 3; 4; 5]%Z)) cells4 = [18; 9; 12; 15]%Z.
Proof. vm_compute. reflexivity. Qed.
Lemma sc_hyps_sat :
  length cells4 = length cells4 /\ NoDup cells4 /\
  (forall i j : nat, (i < j)%nat -> (j < length cells4)%nat -> nth i cells4 (O, O) <> nth j cells4 (O, O)) /\
  (1 < length cells4)%nat.
Proof.
  assert (ND : NoDup cells4) by (repeat constructor; simpl; intuition congruence).
  split; [reflexivity|]. split; [exact ND|]. split; [exact (rbw_identical cells4 ND)|simpl; auto with arith].
Qed.
