(* C08 correspondence, buffer stream (round 7): a Real64 / Real32 dense matrix is built by a constructor and
   taken through Slice / T / Tip / Clone; after every step the harness reads rows, cols and (len, cap) of
   tmp1 / tmp2 from the library object; the whole trace is compared with [t_run] of C08/ModelT.v
   (shape + "the buffer holds the shape" per step). *)
From Coq Require Import ZArith List Bool.
From ADV Require Import Base.Corr C08.ModelT.
Import ListNotations.
Open Scope Z_scope.

Record tcase := mkTC { tc_n : Z; tc_m : Z; tc_ops : list top; tc_trace : list (option tmat) }.
(* compared: the shape and whether each buffer can hold it (what the product's slices tmp1[0:rows] /
   tmp2[0:cols] depend on) — not the exact len / cap, which a harmless change of the re-use policy may alter *)
Definition tmat_eqb (x y : tmat) : bool :=
  (t_rows x =? t_rows y) && (t_cols x =? t_cols y) &&
  Bool.eqb (t_rows x <=? t_c1 x) (t_rows y <=? t_c1 y) && Bool.eqb (t_cols x <=? t_c2 x) (t_cols y <=? t_c2 y).
(* exact comparison (diagnostics) *)
Definition tmat_eqb_exact (x y : tmat) : bool :=
  (t_rows x =? t_rows y) && (t_cols x =? t_cols y) && (t_l1 x =? t_l1 y) && (t_c1 x =? t_c1 y) &&
  (t_l2 x =? t_l2 y) && (t_c2 x =? t_c2 y).
Definition otmat_eqb (x y : option tmat) : bool :=
  match x, y with Some a, Some b => tmat_eqb a b | None, None => true | _, _ => false end.
Fixpoint trace_eqb (x y : list (option tmat)) : bool :=
  match x, y with
  | [], [] => true
  | a :: x', b :: y' => otmat_eqb a b && trace_eqb x' y'
  | _, _ => false
  end.
Definition tcheck (c : tcase) : bool := trace_eqb (t_run (tc_n c) (tc_m c) (tc_ops c)) (tc_trace c).
Definition tmism (cs : list tcase) : list nat := mismatches tcheck cs.
