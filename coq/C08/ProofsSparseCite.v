(* C08/ProofsSparseCite.v — sparse receivers whose aliasing is NOT rejected, and sparse products on
   distinct operands: corollaries of property C03's theorems (cited, not re-proved):
     C03.PropsR2.aliased_receiver_elementwise   r.VopV(a, b), a / b ANY vector of r's dimension, r included:
                                                closed form from the values held BEFORE the call
     C03.PropsM.sparse_vector_mdotv / _vdotm    r = matvec / vecmat for ANY coherent prior state of r
     C03.PropsM.sparse_matrix_mdotm             r = matmul for ANY coherent prior state of r
   A closed form that does not mention the receiver's prior state IS receiver independence: the aliased
   call and the call on any other (fresh) receiver leave the same values. *)
From Coq Require Import ZArith List Bool Lia.
From ADV Require Import C11.Model C03.Model C03.ModelM C03.Spec C03.SpecM C03.ProofsM C03.ProofsOps C03.ProofsAlias2 C03.PropsR2 C03.PropsM.
Import ListNotations.
Open Scope Z_scope.

(* r.VaddV(r, b), r.VsubV(a, r), r.VmulV(r, r), ...: t is the aliased receiver (a, b may be RS t),
   t' any other receiver of the same dimension *)
Lemma sparse_elementwise_alias_vs_fresh y f w t t' a b :
  Good3 w t -> Good3 w t' -> operand3a w t a -> operand3a w t b -> operand3a w t' a -> operand3a w t' b ->
  snd (step3 y w (VopV f (RS t) a b)) = (K_OK, []) /\ snd (step3 y w (VopV f (RS t') a b)) = (K_OK, []) /\
  abs3 (fst (step3 y w (VopV f (RS t) a b))) (RS t) = abs3 (fst (step3 y w (VopV f (RS t') a b))) (RS t').
Proof.
  intros G G' A B A' B'.
  destruct (aliased_receiver_elementwise y f w t a b G A B) as (O1 & _ & _ & R1).
  destruct (aliased_receiver_elementwise y f w t' a b G' A' B') as (O2 & _ & _ & R2).
  split; [exact O1|]. split; [exact O2|]. rewrite R1, R2. reflexivity.
Qed.

(* sparse MdotV / VdotM / MdotM on operands stored elsewhere: any two receivers agree (a fresh one included) *)
Lemma sparse_mdotv_receiver_independent y w t t' a b n m :
  Good (sw (b3 w)) t -> Good (sw (b3 w)) t' -> mwf w a -> mother w t a -> mother w t' a ->
  vwf w b -> vother t b -> vother t' b ->
  mdims w a = (n, m) -> vlen w (RS t) = n -> vlen w (RS t') = n -> vlen w b = m -> 0 < n -> 0 < m ->
  ok_out4 (step4 y w (MdotV (RS t) a b)) /\ ok_out4 (step4 y w (MdotV (RS t') a b)) /\
  abs3 (b3 (fst (step4 y w (MdotV (RS t) a b)))) (RS t) = abs3 (b3 (fst (step4 y w (MdotV (RS t') a b)))) (RS t').
Proof.
  intros G G' Wa Oa Oa' Wb Ob Ob' Da Dt Dt' Db Hn Hm.
  destruct (sparse_vector_mdotv y w t a b n m G Wa Oa Wb Ob Da Dt Db Hn Hm) as (O1 & _ & _ & R1).
  destruct (sparse_vector_mdotv y w t' a b n m G' Wa Oa' Wb Ob' Da Dt' Db Hn Hm) as (O2 & _ & _ & R2).
  split; [exact O1|]. split; [exact O2|]. rewrite R1, R2. reflexivity.
Qed.
Lemma sparse_vdotm_receiver_independent y w t t' a b n m :
  Good (sw (b3 w)) t -> Good (sw (b3 w)) t' -> vwf w a -> vother t a -> vother t' a ->
  mwf w b -> mother w t b -> mother w t' b ->
  mdims w b = (n, m) -> vlen w (RS t) = m -> vlen w (RS t') = m -> vlen w a = n -> 0 < n -> 0 < m ->
  ok_out4 (step4 y w (VdotM (RS t) a b)) /\ ok_out4 (step4 y w (VdotM (RS t') a b)) /\
  abs3 (b3 (fst (step4 y w (VdotM (RS t) a b)))) (RS t) = abs3 (b3 (fst (step4 y w (VdotM (RS t') a b)))) (RS t').
Proof.
  intros G G' Wa Oa Oa' Wb Ob Ob' Db Dt Dt' Da Hn Hm.
  destruct (sparse_vector_vdotm y w t a b n m G Wa Oa Wb Ob Db Dt Da Hn Hm) as (O1 & _ & _ & R1).
  destruct (sparse_vector_vdotm y w t' a b n m G' Wa Oa' Wb Ob' Db Dt' Da Hn Hm) as (O2 & _ & _ & R2).
  split; [exact O1|]. split; [exact O2|]. rewrite R1, R2. reflexivity.
Qed.
Lemma sparse_mdotm_receiver_independent y w k k' a b n m p :
  GoodM w k -> GoodM w k' -> mwf w a -> mwf w b ->
  mother w (mvec w k) a -> mother w (mvec w k) b -> mother w (mvec w k') a -> mother w (mvec w k') b ->
  mdims w (XS k) = (n, p) -> mdims w (XS k') = (n, p) -> mdims w a = (n, m) -> mdims w b = (m, p) ->
  0 < n -> 0 < m -> 0 < p ->
  ok_out4 (step4 y w (MdotM (XS k) a b)) /\ ok_out4 (step4 y w (MdotM (XS k') a b)) /\
  mabs (fst (step4 y w (MdotM (XS k) a b))) (XS k) = mabs (fst (step4 y w (MdotM (XS k') a b))) (XS k').
Proof.
  intros G G' Wa Wb Oa Ob Oa' Ob' Dk Dk' Da Db Hn Hm Hp.
  destruct (sparse_matrix_mdotm y w k a b n m p G Wa Wb Oa Ob Dk Da Db Hn Hm Hp) as (O1 & _ & _ & R1).
  destruct (sparse_matrix_mdotm y w k' a b n m p G' Wa Wb Oa' Ob' Dk' Da Db Hn Hm Hp) as (O2 & _ & _ & R2).
  split; [exact O1|]. split; [exact O2|]. rewrite R1, R2. reflexivity.
Qed.
