(* C08 correspondence, scalar-cell stream: one call r.V<op>S(a, s) / r.M<op>S(a, s) on a heap of shared
   storages, the scalar a storage cell (x.At(k) / m.At(i, j), or a lone scalar object = a storage of
   length 1); the WHOLE heap after the call is compared with [vEwS] / [mEwS] of C08/ModelSc.v (the matrix
   headers are the ones the library built; the cell behind m.At(i, j) is computed by the regenerated index
   function of C10.Gen). *)
From Coq Require Import ZArith List Bool.
From ADV Require Import Base.Corr C10.Gen C10.Model C08.Model C08.ModelSc C08.Corr.
Import ListNotations.
Open Scope Z_scope.

Record sccase := mkSc { sc_heap : heap; sc_call : sccall; sc_out : option heap }.
Definition sccheck (c : sccase) : bool :=
  match run_sc (sc_heap c) (sc_call c), sc_out c with
  | ROk H', Some E => heap_eqb H' E
  | RPanic, None => true
  | _, _ => false
  end.
Definition scmism (cs : list sccase) : list nat := mismatches sccheck cs.
(* diagnostics *)
Definition sc_model_out (c : sccase) : option heap :=
  match run_sc (sc_heap c) (sc_call c) with ROk H' => Some H' | _ => None end.
