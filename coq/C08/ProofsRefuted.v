(* C08/ProofsRefuted.v — alias patterns on which the faithful model (and the
   library at HEAD: see corpus/C08 and the hunt) does NOT give what a fresh
   receiver would hold.  Carrier: the reals (C01/ModelR.v). *)
From Coq Require Import Reals ZArith QArith Qreals List Bool Lra Lia.
From ADV Require Import Base.Fl Base.Num C01.Model C01.ModelR C08.Spec.
Import ListNotations.
Open Scope R_scope.

Notation FR := (FlR Sp0).

(* F-ALLOC: x.Add(x, y) with x of order 1 and y of order 2 over the same two
   variables: AllocForTwo reallocates x (the receiver AND the first operand) to
   order 2 before anything is read; d/dx0 comes out 0 instead of 1. *)
Definition st_alloc : St (A := R) :=
  upd (upd stR0 0 (mkReg K64 3 1 2 [1; 0] [])) 1 (mkReg K64 5 2 2 [0; 1] [[0; 0]; [0; 0]]).

Lemma alias_mixed_order_refuted :
  keeps 0 (Rg 0) (Rg 1) st_alloc = false /\
  exists t t', exec FR idR (IDy OAdd 0 (Rg 0) (Rg 1)) st_alloc = Ok t /\
               exec FR idR (IDy OAdd 2 (Rg 0) (Rg 1)) st_alloc = Ok t' /\
               rval (t 0%nat) = rval (t' 2%nat) /\
               gd FR (t 0%nat) 0 = 0 /\ gd FR (t' 2%nat) 0 = 1 /\
               gd FR (t 0%nat) 1 = 1 /\ gd FR (t' 2%nat) 1 = 1.
Proof.
  split; [reflexivity|].
  eexists. eexists. split; [reflexivity|]. split; [reflexivity|].
  unfold gd. cbn. repeat split; lra.
Qed.

(* the same call is fine when the orders agree ([keeps] holds) *)
Lemma alias_same_order_keeps :
  keeps 0 (Rg 0) (Rg 1) (upd st_alloc 0 (mkReg K64 3 2 2 [1; 0] [[0; 0]; [0; 0]])) = true.
Proof. reflexivity. Qed.

(* Regression case (retired finding F-C08-LOG1PEXP-ALIAS, fixed by HEAD 7035970): c.Log1pExp(c) for
   18 < c <= 33.3 used to run c.Neg(c); c.Exp(c); c.Add(c, c) = 2 exp(-x).  Now the intermediate lives in a
   temporary and the old witness gives x + exp(-x) on the aliased and on the fresh receiver. *)
Definition st_l1p : St (A := R) := upd stR0 0 (mkReg K64 20 0 0 [] []).

Lemma cmp1 : Rleb 20 (-37) = false. Proof. unfold Rleb. destruct (Rle_dec 20 (-37)); [lra|reflexivity]. Qed.
Lemma cmp2 : Rleb 20 18 = false. Proof. unfold Rleb. destruct (Rle_dec 20 18); [lra|reflexivity]. Qed.
Lemma cmp3 : Rleb 20 (Q2R (333 # 10)) = true.
Proof. unfold Rleb. destruct (Rle_dec 20 (Q2R (333 # 10))) as [H|H]; [reflexivity|]. exfalso. apply H. unfold Q2R. simpl. lra. Qed.

Lemma alias_log1pexp_old_witness :
  exists t t', exec FR idR (ILog1pExp 0 (Rg 0)) st_l1p = Ok t /\
               exec FR idR (ILog1pExp 1 (Rg 0)) st_l1p = Ok t' /\
               rval (t 0%nat) = 20 + exp (- 20) /\
               rval (t' 1%nat) = 20 + exp (- 20).
Proof.
  unfold exec, do_log1pexp.
  change (rval (rd st_l1p (Rg 0))) with 20.
  change (fleb FR 20 (lit FR (-37))) with (Rleb 20 (-37)). rewrite cmp1.
  change (fleb FR 20 (lit FR 18)) with (Rleb 20 18). rewrite cmp2.
  change (fleb FR 20 (fofQ FR (333 # 10))) with (Rleb 20 (Q2R (333 # 10))). rewrite cmp3.
  eexists. eexists. split; [reflexivity|]. split; [reflexivity|].
  cbn. unfold idR. replace (-20) with (- (20)) by lra.
  split; reflexivity.
Qed.
