(* C08/ProofsScDense.v — the dense VECTOR instance of the scalar-cell loop: on well-formed slices
   of the shared heap the executable model [vEwS] (what the correspondence replays against Go) never
   panics and IS the abstract loop [sc_loop] over the slices' cells; hence the closed form and the
   exact alias condition of ProofsSc.v hold for r.VaddS / VsubS / VmulS (a, s) with the scalar a cell
   of the receiver, the operand the receiver itself or a vector in another backing array. *)
From Coq Require Import ZArith List Bool Arith Lia FinFun.
From ADV Require Import C10.Gen C10.Model C08.Spec C08.Model C08.ProofsMat C08.ProofsVec C08.ModelSc C08.ProofsSc.
Import ListNotations.
Open Scope Z_scope.

Definition absH (H : heap) : @mem Z := fun c => nth (snd c) (store_of H (fst c)) 0.
Definition vaddr (v : vec) (i : Z) : addr := (v_loc v, Z.to_nat (v_off v + i)).

Lemma absH_vwr H r i x c : vwf H r -> 0 <= i < v_len r ->
  absH (vwr H r i x) c = mupd (absH H) (vaddr r i) x c.
Proof.
  intros (L & O & N & B) Hi. destruct c as [l k]. unfold absH, vaddr. simpl.
  destruct (Nat.eq_dec l (v_loc r)) as [E|E].
  - subst l. rewrite store_vwr_same by exact L.
    destruct (Nat.eq_dec k (Z.to_nat (v_off r + i))) as [E2|E2].
    + subst k. rewrite mupd_same. apply nth_upd_same. unfold zlen in B. lia.
    + rewrite mupd_other by congruence. simpl. apply nth_upd_other. congruence.
  - rewrite store_vwr_other by exact E. rewrite mupd_other by congruence. reflexivity.
Qed.
Lemma zlen_store_vwr H r i x l : (v_loc r < length H)%nat -> zlen (store_of (vwr H r i x) l) = zlen (store_of H l).
Proof.
  intro L. destruct (Nat.eq_dec l (v_loc r)) as [E|E].
  - subst l. rewrite store_vwr_same by exact L. unfold zlen. rewrite upd_length. reflexivity.
  - rewrite store_vwr_other by exact E. reflexivity.
Qed.

Lemma combine_map2 {X Y Z0} (g : X -> Y) (h : X -> Z0) l : combine (map g l) (map h l) = map (fun i => (g i, h i)) l.
Proof. induction l; simpl; congruence. Qed.

Section VecLink.
Variables (f : Z) (r a : vec) (sl : nat) (sk : Z) (H0 : heap).
Hypothesis Wr : vwf H0 r.
Hypothesis Wa : vwf H0 a.
Hypothesis La : v_len a = v_len r.
Hypothesis Sk : 0 <= sk < zlen (store_of H0 sl).
Let sa : addr := (sl, Z.to_nat sk).

Definition vstep (H : heap) (i : Z) : heap := vwr H r i (ew_fun f (vcell H a i) (absH H sa)).
Definition vP (H : heap) : Prop := vwf H r /\ vwf H a /\ zlen (store_of H sl) = zlen (store_of H0 sl).

Lemma vstep_ok H i : In i (zseq (v_len a)) -> vP H ->
  (x <- vAT H a i ;; y <- rd_cell H (sl, sk) ;; vSET H r i (ew_fun f x y)) = ROk (vstep H i) /\ vP (vstep H i).
Proof.
  intros Hi (W1 & W2 & Z1). apply in_zseq in Hi.
  rewrite (vAT_ok H a i W2) by lia. simpl.
  unfold rd_cell, get. simpl fst. simpl snd. rewrite Z1.
  replace ((sk <? 0) || (sk >=? zlen (store_of H0 sl))) with false
    by (symmetry; apply orb_false_iff; split; [apply Z.ltb_ge; lia|rewrite Z.geb_leb; apply Z.leb_gt; lia]).
  simpl. assert (L : (v_loc r < length H)%nat) by apply W1.
  split; [apply vSET_ok; [exact W1|lia]|].
  unfold vstep. split; [apply vwf_vwr; auto|]. split; [apply vwf_vwr; auto|].
  rewrite zlen_store_vwr by exact L. exact Z1.
Qed.

Lemma abs_fold : forall l H hm, (forall i, In i l -> 0 <= i < v_len r) -> vP H -> (forall c, absH H c = hm c) ->
  forall c, absH (fold_left vstep l H) c =
            fold_left (sc_step_g (ew_fun f) (fun h => h sa)) (map (fun i => (vaddr r i, vaddr a i)) l) hm c.
Proof.
  induction l as [|i l IH]; intros H hm Hl P E c; simpl; [apply E|].
  assert (Hi : 0 <= i < v_len r) by (apply Hl; left; reflexivity).
  apply IH.
  - intros j Hj. apply Hl. right. exact Hj.
  - apply (vstep_ok H i); [apply in_zseq; lia|exact P].
  - intro c'. unfold vstep. destruct P as (W1 & _ & _). rewrite absH_vwr by assumption.
    unfold sc_step_g, mupd. simpl fst. simpl snd. destruct (addr_eqb c' (vaddr r i)); [|apply E].
    rewrite <- !E. reflexivity.
Qed.

Theorem vews_is_sc_loop :
  exists H', vEwS false f H0 r a (SVec (mkVec sl 0 (zlen (store_of H0 sl))) sk) = ROk H' /\
    forall c, absH H' c = sc_loop (ew_fun f) (vcells r) (vcells a) sa (absH H0) c.
Proof.
  unfold vEwS, s_cell. simpl v_len. simpl v_off. simpl v_loc.
  replace ((sk <? 0) || (sk >=? zlen (store_of H0 sl))) with false
    by (symmetry; apply orb_false_iff; split; [apply Z.ltb_ge; lia|rewrite Z.geb_leb; apply Z.leb_gt; lia]).
  simpl. rewrite La, Z.eqb_refl. simpl.
  destruct (foldR_ok vP (fun H i => x <- vAT H a i ;; y <- rd_cell H (sl, sk) ;; vSET H r i (ew_fun f x y)) vstep
                     (zseq (v_len r))) with (s := H0) as [E _].
  { intros H i Hi P. apply vstep_ok; [rewrite La; exact Hi|exact P]. }
  { split; [exact Wr|]. split; [exact Wa|reflexivity]. }
  rewrite E. eexists. split; [reflexivity|].
  intro c. unfold sc_loop, vcells. rewrite La.
  rewrite combine_map2.
  apply abs_fold; [intros i Hi; apply in_zseq; exact Hi| |reflexivity].
  split; [exact Wr|]. split; [exact Wa|reflexivity].
Qed.
End VecLink.

(* the cells of a well-formed slice: no repetition, the i-th one is [vaddr v i] *)
Lemma vcells_nth v i : 0 <= i < v_len v -> nth (Z.to_nat i) (vcells v) (O, O) = vaddr v i.
Proof.
  intros Hi. unfold vcells, zseq. rewrite map_map.
  set (g := fun x : nat => (v_loc v, Z.to_nat (v_off v + Z.of_nat x))).
  rewrite (nth_indep _ (O, O) (g O)) by (rewrite map_length, seq_length; lia).
  rewrite (map_nth g). rewrite seq_nth by lia. unfold g, vaddr. simpl. rewrite Z2Nat.id by lia. reflexivity.
Qed.
Lemma vcells_length v : length (vcells v) = Z.to_nat (v_len v).
Proof. unfold vcells, zseq. rewrite !map_length, seq_length. reflexivity. Qed.
Lemma vcells_NoDup v : 0 <= v_off v -> NoDup (vcells v).
Proof.
  intro O. unfold vcells, zseq. rewrite map_map. apply Injective_map_NoDup; [|apply seq_NoDup].
  intros x y E. inversion E. lia.
Qed.
Lemma vcells_other_store r a : v_loc a <> v_loc r -> forall c, In c (vcells a) -> ~ In c (vcells r).
Proof.
  intros N c Ha Hr. unfold vcells in *. apply in_map_iff in Ha, Hr.
  destruct Ha as [x [Ex _]], Hr as [y [Ey _]]. subst c. inversion Ey. congruence.
Qed.

(* ---------------------------------------------------------------- the concrete statements *)
(* r.V<op>S(a, r.At(k)) on well-formed slices, a = r or a in another backing array *)
Theorem vews_scalar_in_receiver f (r a : vec) (k : Z) (H0 : heap) :
  vwf H0 r -> vwf H0 a -> v_len a = v_len r -> (a = r \/ v_loc a <> v_loc r) -> 0 <= k < v_len r ->
  let s := vcell H0 r k in
  exists H', vEwS false f H0 r a (SVec (mkVec (v_loc r) 0 (zlen (store_of H0 (v_loc r)))) (v_off r + k)) = ROk H' /\
    (forall i, 0 <= i <= k -> vcell H' r i = ew_fun f (vcell H0 a i) s) /\
    (forall i, k < i < v_len r -> vcell H' r i = ew_fun f (vcell H0 a i) (ew_fun f (vcell H0 a k) s)) /\
    (forall c, ~ In c (vcells r) -> absH H' c = absH H0 c).
Proof.
  intros Wr Wa La Opd Hk s.
  assert (Sk : 0 <= v_off r + k < zlen (store_of H0 (v_loc r))) by (destruct Wr as (_ & ? & _ & ?); lia).
  destruct (vews_is_sc_loop f r a (v_loc r) (v_off r + k) H0 Wr Wa La Sk) as [H' [E Abs]].
  exists H'. split; [exact E|].
  assert (ND : NoDup (vcells r)) by (apply vcells_NoDup; apply Wr).
  assert (Len : length (vcells a) = length (vcells r)) by (rewrite !vcells_length, La; reflexivity).
  assert (RBW : forall i j, (i < j)%nat -> (j < length (vcells r))%nat -> nth i (vcells r) (O, O) <> nth j (vcells a) (O, O)).
  { destruct Opd as [Ea|Ea]; [subst a; apply rbw_identical; exact ND|].
    apply rbw_disjoint; [exact Len|apply vcells_other_store; exact Ea]. }
  assert (Kn : (Z.to_nat k < length (vcells r))%nat) by (rewrite vcells_length; lia).
  pose proof (sc_loop_inside (ew_fun f) (vcells r) (vcells a) (absH H0) Len ND RBW (Z.to_nat k) Kn) as T.
  cbv zeta in T. rewrite (vcells_nth r k Hk) in T. rewrite (vcells_nth a k) in T by lia.
  destruct T as [T1 [T2 T3]].
  assert (Es : absH H0 (vaddr r k) = s) by reflexivity.
  split; [|split].
  - intros i Hi. specialize (T1 (Z.to_nat i) ltac:(lia)).
    rewrite (vcells_nth r i) in T1 by lia. rewrite (vcells_nth a i) in T1 by lia.
    change (vcell H' r i) with (absH H' (vaddr r i)). rewrite Abs. exact T1.
  - intros i Hi. specialize (T2 (Z.to_nat i) ltac:(lia) ltac:(rewrite vcells_length; lia)).
    rewrite (vcells_nth r i) in T2 by lia. rewrite (vcells_nth a i) in T2 by lia.
    change (vcell H' r i) with (absH H' (vaddr r i)). rewrite Abs. exact T2.
  - intros c Hc. rewrite Abs. apply T3. exact Hc.
Qed.

(* non-vacuity + the witness of the known finding on the executable model:
   v = [2;3;4;5], v.VmulS(v, v.At(1)) = [6;9;36;45] *)
Lemma vews_witness :
  vEwS false 2 [[2; 3; 4; 5]] (mkVec 0 0 4) (mkVec 0 0 4) (SVec (mkVec 0 0 4) 1) = ROk [[6; 9; 36; 45]].
Proof. vm_compute. reflexivity. Qed.
(* ... of a matrix view: m = [[1,2],[3,4]], m.T().MmulS(m.T(), m.T().At(0,1))  (the scalar is storage cell 2 = 3):
   view order (0,0) (0,1) (1,0) (1,1) = storage 0, 2, 1, 3:  1*3, 3*3 = 9, then 2*9, 4*9 *)
Lemma mews_witness :
  let mT := mkDense 0%nat 2 2 0 2 0 2 true in
  mEwS false 2 [[1; 2; 3; 4]] mT mT (SMat mT 0 1) = ROk [[3; 18; 9; 36]].
Proof. vm_compute. reflexivity. Qed.
