(* C08 correspondence.
   Scalars: the single-step bit-exact replay of ADV.C01.Corr ([check] on cases
   (pre-state, instruction, libm oracle, outcome, post-state)) — the C08 harness
   feeds it every operation under every alias pattern of receiver / operands /
   temporaries.
   Matrices and vectors: one call on a heap of shared storages; the whole heap
   after the call is compared (so a write outside the receiver is seen too). *)
From Coq Require Import ZArith List Bool.
From ADV Require Import Base.Corr C10.Gen C10.Model C08.Model.
Import ListNotations.
Open Scope Z_scope.

Record mcase := mkM { m_heap : heap; m_call : mcall; m_out : option heap }.

Definition heap_eqb (a b : heap) : bool := list_eqb (list_eqb Z.eqb) a b.
Definition mcheck (c : mcase) : bool :=
  match run_call (m_heap c) (m_call c), m_out c with
  | ROk H', Some E => heap_eqb H' E
  | RPanic, None => true
  | _, _ => false
  end.
Definition mmism (cs : list mcase) : list nat := mismatches mcheck cs.

(* diagnostics *)
Definition model_out (c : mcase) : option heap :=
  match run_call (m_heap c) (m_call c) with ROk H' => Some H' | _ => None end.
