(* C08/ProofsList.v — list / matrix update lemmas (same statements as C01/ProofsList.v; kept local so that C08 imports only Model files of other properties). *)
From Coq Require Import ZArith List Bool Arith Lia.
From ADV Require Import Base.Fl C01.Model.
Import ListNotations.

Section L.
Context {X : Type}.

Lemma length_upd_nth (i : nat) (x : X) l : length (upd_nth i x l) = length l.
Proof. revert i; induction l as [|h t IH]; intros [|i]; simpl; auto. Qed.

Lemma nth_upd_nth_same (i : nat) (x d : X) l : i < length l -> nth i (upd_nth i x l) d = x.
Proof. revert i; induction l as [|h t IH]; intros [|i] H; simpl in *; try lia; auto. apply IH; lia. Qed.

Lemma nth_upd_nth_other (i j : nat) (x d : X) l : i <> j -> nth j (upd_nth i x l) d = nth j l d.
Proof.
  revert i j; induction l as [|h t IH]; intros [|i] [|j] H; simpl; auto; try congruence.
Qed.

Lemma upd_nth_oob (i : nat) (x : X) l : length l <= i -> upd_nth i x l = l.
Proof. revert i; induction l as [|h t IH]; intros [|i] H; simpl in *; auto; try lia. f_equal; apply IH; lia. Qed.
End L.

Lemma nth_repeat_any {X} (x : X) n i d : i < n -> nth i (repeat x n) d = x.
Proof. revert i; induction n; intros [|i] H; simpl; try lia; auto. apply IHn; lia. Qed.

(* the pairs of the upper-triangle loop *)
Lemma in_upairs n i j : In (i, j) (upairs n) <-> i <= j < n.
Proof.
  unfold upairs. rewrite in_flat_map. split.
  - intros [k [Hk Hin]]. apply in_seq in Hk. apply in_map_iff in Hin. destruct Hin as [l [E Hl]].
    inversion E; subst. apply in_seq in Hl. lia.
  - intros H. exists i. split; [apply in_seq; lia|]. apply in_map_iff. exists j. split; auto. apply in_seq. lia.
Qed.

Lemma NoDup_map_pair (i : nat) (l : list nat) : NoDup l -> NoDup (map (pair i) l).
Proof.
  induction 1 as [|x l Hx Hl IH]; simpl; constructor; auto.
  intro Hin. apply in_map_iff in Hin. destruct Hin as [y [E Hy]]. inversion E; subst. contradiction.
Qed.

Lemma NoDup_app_intro {X} (a b : list X) :
  NoDup a -> NoDup b -> (forall x, In x a -> ~ In x b) -> NoDup (a ++ b).
Proof.
  induction 1 as [|x a Hx Ha IH]; intros Hb Hd; simpl; auto.
  constructor.
  - rewrite in_app_iff. intros [H|H]; [contradiction|]. apply (Hd x); simpl; auto.
  - apply IH; auto. intros y Hy. apply Hd. simpl; auto.
Qed.

Lemma NoDup_upairs n : NoDup (upairs n).
Proof.
  unfold upairs.
  assert (G : forall l, NoDup l -> NoDup (flat_map (fun i => map (pair i) (seq i (n - i))) l)).
  { induction 1 as [|x l Hx Hl IH]; simpl; [constructor|].
    apply NoDup_app_intro; auto.
    - apply NoDup_map_pair, seq_NoDup.
    - intros [a b] Hin Hin2. apply in_map_iff in Hin. destruct Hin as [y [E _]]. inversion E; subst.
      apply in_flat_map in Hin2. destruct Hin2 as [k [Hk Hin2]].
      apply in_map_iff in Hin2. destruct Hin2 as [z [E2 _]]. inversion E2; subst. contradiction. }
  apply G, seq_NoDup.
Qed.

Lemma in_allpairs n i j : In (i, j) (allpairs n) <-> i < n /\ j < n.
Proof.
  unfold allpairs. rewrite in_flat_map. split.
  - intros [k [Hk Hin]]. apply in_seq in Hk. apply in_map_iff in Hin. destruct Hin as [l [E Hl]].
    inversion E; subst. apply in_seq in Hl. lia.
  - intros H. exists i. split; [apply in_seq; lia|]. apply in_map_iff. exists j. split; auto. apply in_seq. lia.
Qed.

Lemma nth_repeat_dflt {X} (x : X) n i : nth i (repeat x n) x = x.
Proof. revert i; induction n; intros [|i]; simpl; auto. Qed.

(* a list is the map of its own nth over seq *)
Lemma list_eq_map_nth {X} (l : list X) (d : X) n (f : nat -> X) :
  length l = n -> (forall i, i < n -> nth i l d = f i) -> l = map f (seq 0 n).
Proof.
  intros Hl Hn. apply (nth_ext _ _ d (f 0)).
  - rewrite map_length, seq_length. exact Hl.
  - intros i Hi. rewrite Hl in Hi. rewrite Hn by exact Hi.
    rewrite (map_nth f (seq 0 n) 0 i). rewrite seq_nth by exact Hi. reflexivity.
Qed.
