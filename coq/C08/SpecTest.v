(* Executable sanity tests of the C08 statements (tests, not proofs: they guard
   Spec.v / Props.v against typos).  Carrier: Z with ring operations and dummy
   transcendental functions — alias independence does not depend on what the
   operations compute. *)
From Coq Require Import ZArith QArith List Bool.
From ADV Require Import Base.Fl Base.Corr C01.Model C08.Spec.
Import ListNotations.
Open Scope Z_scope.

Definition FlZ : Fl Z :=
  let f1 := fun x : Z => 2 * x + 1 in let f2 := fun x y : Z => x + 3 * y in
  mkFl Z Z.add Z.sub Z.mul Z.quot Z.opp Z.ltb Z.leb Z.eqb
    (fun q => Qnum q / Zpos (Qden q)) (fun z => z) 0 (fun sg => 1000000 * sg) (fun _ => false)
    (fun x sg => if sg =? 0 then (Z.abs x =? 1000000) else (x =? 1000000 * sg))
    Z.abs Z.sqrt f1 f1 f1 f1 f1 f1 f1 f1 f1 f1 f1 f1 f1 (fun _ => 1) f2 (fun b z => b + z) f1 3 2
    f1 f1 f1 (fun x k => x + k) f2 f2 f2 f2 f2.
Definition idZ (x : Z) : Z := x.

Definition zl := list_eqb Z.eqb.
Definition reg_eqb (a b : Reg Z) : bool :=
  match rk a, rk b with K64, K64 | K32, K32 | KBare, KBare => true | _, _ => false end &&
  (rval a =? rval b) && Nat.eqb (rorder a) (rorder b) && Nat.eqb (rn a) (rn b) &&
  zl (rderiv a) (rderiv b) && list_eqb zl (rhess a) (rhess b).
Definition agreeb (c c' : nat) (m m' : res (@St Z)) : bool :=
  match m, m' with
  | Ok t, Ok t' => reg_eqb (norm (t c)) (norm (t' c'))
  | Panic EDiffN, Panic EDiffN | Panic EIndex, Panic EIndex => true
  | _, _ => false
  end.

Definition st0 : @St Z := fun _ => null_reg FlZ K64.
Definition x2 := mkReg K64 5 2 2 [1; 3] [[2; 7]; [7; 4]].
Definition y2 := mkReg K64 (-3) 2 2 [4; -1] [[1; 0]; [0; 6]].
Definition x1 := mkReg K64 5 1 2 [1; 3] [].
Definition s22 := upd (upd st0 0 x2) 1 y2.
Definition s12 := upd (upd st0 0 x1) 1 y2.
Definition alias_vs_fresh (i : nat -> instr Z) (s : @St Z) : bool :=
  agreeb 0 9 (exec FlZ idZ (i 0%nat) s) (exec FlZ idZ (i 9%nat) s).

(* every alias pattern of a two-operand combinator, same shapes: agree; keeps holds *)
Example t_dy_alias :
  forallb (fun op => alias_vs_fresh (fun c => IDy op c (Rg 0) (Rg 1)) s22 && alias_vs_fresh (fun c => IDy op c (Rg 1) (Rg 0)) s22 &&
                     alias_vs_fresh (fun c => IDy op c (Rg 0) (Rg 0)) s22 && keeps 0 (Rg 0) (Rg 1) s22)
          [OAdd; OSub; OMul; ODiv; OPowV] = true.
Proof. vm_compute. reflexivity. Qed.
(* mixed orders: keeps fails and so does the agreement (F-ALLOC) *)
Example t_dy_mixed : keeps 0 (Rg 0) (Rg 1) s12 = false /\ alias_vs_fresh (fun c => IDy OMul c (Rg 0) (Rg 1)) s12 = false.
Proof. vm_compute. split; reflexivity. Qed.
(* ... unless the receiver is a constant *)
Example t_dy_const :
  let s := upd (upd st0 0 (mkReg K64 5 0 0 [] [])) 1 y2 in
  keeps 0 (Rg 0) (Rg 1) s = true /\ alias_vs_fresh (fun c => IDy OMul c (Rg 0) (Rg 1)) s = true.
Proof. vm_compute. split; reflexivity. Qed.
Example t_mon_alias :
  forallb (fun op => alias_vs_fresh (fun c => IMon op c (Rg 0)) s22) [ONeg; OExp; OLog; OTanh; OPowC 3; OMlgamma 2] = true.
Proof. vm_compute. reflexivity. Qed.
Example t_set_self : alias_vs_fresh (fun c => ISet c (Rg 0)) s22 = true.
Proof. vm_compute. reflexivity. Qed.
(* Set onto receivers of equal N and lower / higher Order, other N: all reallocate (HEAD d9fca78), none panics *)
Example t_set_any_receiver :
  forallb (fun r => agreeb 0 9 (exec FlZ idZ (ISet 0 (Rg 1)) (upd s22 0 r)) (exec FlZ idZ (ISet 9 (Rg 1)) s22))
          [x1; x2; mkReg K64 5 0 2 [] []; mkReg K64 5 1 3 [1; 2; 3] []; mkReg K64 1 2 1 [1] [[1]]] = true.
Proof. vm_compute. reflexivity. Qed.
Example t_composites :
  alias_vs_fresh (fun c => ILogistic c (Rg 0)) s22 && alias_vs_fresh (fun c => ISigmoid c (Rg 0) 3) s22 &&
  alias_vs_fresh (fun c => ILog1pExp c (Rg 0)) s22 && alias_vs_fresh (fun c => ILogAdd c (Rg 0) (Rg 1) 3) s22 &&
  alias_vs_fresh (fun c => ILogAdd c (Rg 1) (Rg 0) 3) s22 && alias_vs_fresh (fun c => ILogSub c (Rg 0) (Rg 1) 3) s22 &&
  alias_vs_fresh (fun c => IMin c (Rg 0) (Rg 1)) s22 && alias_vs_fresh (fun c => IMax c (Rg 0) (Rg 1)) s22 &&
  alias_vs_fresh (fun c => IAbs c (Rg 0)) s22 = true.
Proof. vm_compute. reflexivity. Qed.
(* Log1pExp third branch (18 < v <= 33.3) with the receiver as argument: agrees since HEAD 7035970 *)
Example t_log1pexp_branch3 :
  alias_vs_fresh (fun c => ILog1pExp c (Rg 0)) (upd st0 0 (mkReg K64 20 1 1 [1] [])) = true.
Proof. vm_compute. reflexivity. Qed.

(* reductions with the receiver among the elements: all differ from a fresh receiver, except Mnorm at position (0,0) *)
Definition s3 := upd (upd (upd st0 0 x2) 1 y2) 2 (mkReg K64 2 2 2 [1; 1] [[0; 1]; [1; 0]]).
Example t_reductions_receiver_in_vector :
  map (fun i => alias_vs_fresh i s3)
      [(fun c => IVmean c [Rg 0; Rg 1; Rg 2]); (fun c => IVdotV c [Rg 0; Rg 1] [Rg 1; Rg 2] 7); (fun c => IVnorm c [Rg 0; Rg 1] 7);
       (fun c => IMtrace c [Rg 0; Rg 1]); (fun c => ISmoothMax c [Rg 0; Rg 1] 2 5 6)]
  = [false; false; false; false; false].
Proof. vm_compute. reflexivity. Qed.
Example t_mnorm_receiver_first_element :
  alias_vs_fresh (fun c => IMnorm c [Rg 0; Rg 1; Rg 2] 7) s3 = true /\
  agreeb 1 9 (exec FlZ idZ (IMnorm 1 [Rg 0; Rg 1; Rg 2] 7) s3) (exec FlZ idZ (IMnorm 9 [Rg 0; Rg 1; Rg 2] 7) s3) = false.
Proof. vm_compute. split; reflexivity. Qed.
(* Sigmoid with the scratch argument equal to the argument: receiver as with a separate scratch (branch x < 0) *)
Example t_sigmoid_scratch_is_argument :
  let s := upd s22 0 (mkReg K64 (-5) 2 2 [1; 3] [[2; 7]; [7; 4]]) in
  agreeb 4 4 (exec FlZ idZ (ISigmoid 4 (Rg 0) 0) s) (exec FlZ idZ (ISigmoid 4 (Rg 0) 3) s) = true.
Proof. vm_compute. reflexivity. Qed.
