(* C08/ModelT.v (round 7) — the per-matrix buffers tmp1 / tmp2 of the Real dense matrices
   (matrix_dense_real64.go / matrix_dense_real32.go), which the matrix product slices when the
   receiver is a factor:   r.storageLocation() == b.storageLocation()  ->  t3 := r.tmp1[0:n]
                           otherwise                                    ->  t3 := r.tmp2[0:m]
   (n, m = r.Dims()).  Only the SHAPE data is modelled: rows, cols and (len, cap) of both buffers.

     initTmp():  if len(tmp1) < rows { tmp1 = new(rows) } else { tmp1 = tmp1[0:rows] }   (same for tmp2 / cols)
     New / Null: fresh header, initTmp            SLICE: rows = rto-rfrom, cols = cto-cfrom, initTmp
     T():   rows <-> cols, tmp1 <-> tmp2          Tip(): rows <-> cols, tmp1 <-> tmp2
     Clone(): both buffers cloned (cap = len)

   A slice expression x[0:k] with k < 0 or k > cap(x) is a run-time panic (None).  No proofs here. *)
From Coq Require Import ZArith List Bool.
Import ListNotations.
Open Scope Z_scope.

Record tmat := mkT { t_rows : Z; t_cols : Z; t_l1 : Z; t_c1 : Z; t_l2 : Z; t_c2 : Z }.

(* one buffer under initTmp: (len, cap) -> wanted length -> new (len, cap) *)
Definition crop (l c want : Z) : option (Z * Z) :=
  if l <? want then Some (want, want)
  else if (0 <=? want) && (want <=? c) then Some (want, c) else None.

Definition init_tmp (rows cols : Z) (t : tmat) : option tmat :=
  match crop (t_l1 t) (t_c1 t) rows, crop (t_l2 t) (t_c2 t) cols with
  | Some (l1, c1), Some (l2, c2) => Some (mkT rows cols l1 c1 l2 c2)
  | _, _ => None
  end.

Inductive top :=
| TSlice (rf rt cf ct : Z)
| TT
| TTip
| TClone.

Definition t_new (n m : Z) : option tmat := init_tmp n m (mkT n m 0 0 0 0).

Definition t_step (t : tmat) (o : top) : option tmat :=
  match o with
  | TSlice rf rt cf ct => init_tmp (rt - rf) (ct - cf) t
  | TT | TTip => Some (mkT (t_cols t) (t_rows t) (t_l2 t) (t_c2 t) (t_l1 t) (t_c1 t))
  | TClone => Some (mkT (t_rows t) (t_cols t) (t_l1 t) (t_l1 t) (t_l2 t) (t_l2 t))
  end.

(* the trace of headers the harness logs: after New and after every operation *)
Fixpoint t_trace (t : tmat) (ops : list top) : list (option tmat) :=
  match ops with
  | [] => []
  | o :: rest => match t_step t o with
                 | Some t' => Some t' :: t_trace t' rest
                 | None => [None]
                 end
  end.
Definition t_run (n m : Z) (ops : list top) : list (option tmat) :=
  match t_new n m with Some t => Some t :: t_trace t ops | None => [None] end.

(* r.MdotM(a, b): does the buffer slice succeed?  shares_b = (r.storageLocation() == b.storageLocation()) *)
Definition mdotm_tmp_ok (r : tmat) (shares_b : bool) : bool :=
  if shares_b then (0 <=? t_rows r) && (t_rows r <=? t_c1 r) else (0 <=? t_cols r) && (t_cols r <=? t_c2 r).

(* counterfactual used by the theorems only: Tip() that forgets to swap the buffers *)
Definition t_tip_noswap (t : tmat) : tmat := mkT (t_cols t) (t_rows t) (t_l1 t) (t_c1 t) (t_l2 t) (t_c2 t).
