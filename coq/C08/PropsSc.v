(* C08 — results do not depend on the receiver aliasing an operand: the SCALAR operand of a
   vector-scalar / matrix-scalar operation is a reference into the receiver's own storage

       r.VmulS(a, r.At(k))    v.VdivS(v, v.At(0))    m.MaddS(m, m.At(i, j))    VADDS ... MDIVS

   (an operand aliasing PART of the receiver).  Statements only; proofs in ProofsSc.v (any carrier,
   any binary operation — no algebraic law is used, so binary64, binary32 and the integer types are
   instances) and ProofsScDense.v (the dense vector model that the correspondence replays IS the
   abstract loop).

   [sc_loop f rc ac s h]: the Go loop  for p in positions { r.cell(p) = f(a.cell(p), *s) }  on a memory
   h : address -> value; rc / ac = the receiver's / operand's cells in ITERATION order; the scalar is
   re-read in every iteration.  [sc_copy]: the same call on a deep copy of the scalar.
   Hypotheses on the containers: the receiver's cells are pairwise distinct, and the operand is never
   read after it was overwritten (position j of the operand is no receiver cell of a position i < j:
   true for the receiver itself, for another container, for a left-shifted overlap). *)
From Coq Require Import ZArith List Bool Arith.
From ADV Require Import C10.Gen C10.Model C08.Model C08.ProofsVec C08.ModelSc C08.ProofsSc C08.ProofsScDense.
Import ListNotations.

Definition rbw (rc ac : list addr) : Prop :=
  forall i j : nat, (i < j)%nat -> (j < length rc)%nat -> nth i rc (O, O) <> nth j ac (O, O).

(* closed form, scalar = k-th cell of the receiver: up to k the old scalar, after k the value position k
   received; nothing outside the receiver changes *)
Theorem scalar_in_receiver_closed_form : forall (A : Type) (f : A -> A -> A) (rc ac : list addr) (h : mem),
  length ac = length rc -> NoDup rc -> rbw rc ac ->
  forall k : nat, (k < length rc)%nat ->
  let h' := sc_loop f rc ac (nth k rc (O, O)) h in
  (forall i : nat, (i <= k)%nat -> h' (nth i rc (O, O)) = f (h (nth i ac (O, O))) (h (nth k rc (O, O)))) /\
  (forall i : nat, (k < i)%nat -> (i < length rc)%nat ->
     h' (nth i rc (O, O)) = f (h (nth i ac (O, O))) (f (h (nth k ac (O, O))) (h (nth k rc (O, O))))) /\
  (forall c : addr, ~ In c rc -> h' c = h c).
Proof. exact @sc_loop_inside. Qed.

(* the call on a deep copy of the scalar: every position holds  f a[i] s *)
Theorem scalar_deep_copy_closed_form : forall (A : Type) (f : A -> A -> A) (rc ac : list addr) (h : mem),
  length ac = length rc -> NoDup rc -> rbw rc ac ->
  forall s : addr,
  let h' := sc_copy f rc ac s h in
  (forall i : nat, (i < length rc)%nat -> h' (nth i rc (O, O)) = f (h (nth i ac (O, O))) (h s)) /\
  (forall c : addr, ~ In c rc -> h' c = h c).
Proof. exact @sc_copy_closed. Qed.

(* THE alias statement for this pattern: the aliased call agrees with the deep copy (on every cell of the
   memory) IF AND ONLY IF the positions after k do not distinguish  f a[k] s  from  s *)
Theorem scalar_in_receiver_agrees_iff : forall (A : Type) (f : A -> A -> A) (rc ac : list addr) (h : mem),
  length ac = length rc -> NoDup rc -> rbw rc ac ->
  forall k : nat, (k < length rc)%nat ->
  let s := nth k rc (O, O) in
  (forall c : addr, sc_loop f rc ac s h c = sc_copy f rc ac s h c) <->
  (forall i : nat, (k < i)%nat -> (i < length rc)%nat ->
     f (h (nth i ac (O, O))) (f (h (nth k ac (O, O))) (h s)) = f (h (nth i ac (O, O))) (h s)).
Proof. exact @sc_alias_iff. Qed.

(* safe instances: the scalar is the LAST cell; the value written at k equals the scalar; the scalar is
   not a cell of the receiver (a lone scalar, a cell of the operand only) *)
Theorem scalar_is_last_cell_safe : forall (A : Type) (f : A -> A -> A) (rc ac : list addr) (h : mem),
  length ac = length rc -> NoDup rc -> rbw rc ac -> (0 < length rc)%nat ->
  forall c : addr, sc_loop f rc ac (nth (length rc - 1) rc (O, O)) h c = sc_copy f rc ac (nth (length rc - 1) rc (O, O)) h c.
Proof. exact @sc_alias_last. Qed.
Theorem scalar_fixed_point_safe : forall (A : Type) (f : A -> A -> A) (rc ac : list addr) (h : mem),
  length ac = length rc -> NoDup rc -> rbw rc ac ->
  forall k : nat, (k < length rc)%nat -> f (h (nth k ac (O, O))) (h (nth k rc (O, O))) = h (nth k rc (O, O)) ->
  forall c : addr, sc_loop f rc ac (nth k rc (O, O)) h c = sc_copy f rc ac (nth k rc (O, O)) h c.
Proof. exact @sc_alias_fixed. Qed.
Theorem scalar_outside_receiver_safe : forall (A : Type) (f : A -> A -> A) (rc ac : list addr) (h : mem),
  length ac = length rc -> NoDup rc -> rbw rc ac ->
  forall s : addr, ~ In s rc -> forall c : addr, sc_loop f rc ac s h c = sc_copy f rc ac s h c.
Proof. exact @sc_alias_outside. Qed.

(* the receiver itself and a container in other cells satisfy the operand hypothesis *)
Theorem operand_is_receiver_rbw : forall rc : list addr, NoDup rc -> rbw rc rc.
Proof. exact rbw_identical. Qed.
Theorem operand_disjoint_rbw : forall rc ac : list addr, length ac = length rc -> (forall c, In c ac -> ~ In c rc) -> rbw rc ac.
Proof. exact rbw_disjoint. Qed.

(* refuted (known finding F-C08-SCALAR-ELEM): v = [2;3;4;5], v.VmulS(v, v.At(1)) leaves [6;9;36;45], with a
   copy of the scalar [6;9;12;15]; and the loop ORDER is part of the semantics *)
Theorem scalar_in_receiver_refuted :
  map (sc_loop Z.mul cells4 cells4 (O, 1%nat) (zmem [2; 3; 4; 5]%Z)) cells4 = [6; 9; 36; 45]%Z /\
  map (sc_copy Z.mul cells4 cells4 (O, 1%nat) (zmem [2; 3; 4; 5]%Z)) cells4 = [6; 9; 12; 15]%Z.
Proof. exact sc_alias_refuted. Qed.
Theorem scalar_loop_order_matters :
  map (sc_loop Z.mul (rev cells4) (rev cells4) (O, 1%nat) (zmem [2; 3; 4; 5]%Z)) cells4 = [18; 9; 12; 15]%Z.
Proof. exact sc_order_matters. Qed.

(* non-vacuity of the hypotheses: four cells, operand = receiver, k = 1 *)
Example scalar_hypotheses_satisfiable :
  length cells4 = length cells4 /\ NoDup cells4 /\ rbw cells4 cells4 /\ (1 < length cells4)%nat.
Proof. exact sc_hyps_sat. Qed.

(* ------------------------------------------------------------------ dense vectors on the shared heap *)
Open Scope Z_scope.
(* the executable model replayed against Go never panics on well-formed slices and is the abstract loop *)
Theorem dense_vector_model_is_the_loop : forall (f : Z) (r a : vec) (sl : nat) (sk : Z) (H0 : heap),
  vwf H0 r -> vwf H0 a -> v_len a = v_len r -> 0 <= sk < zlen (store_of H0 sl) ->
  exists H' : heap,
    vEwS false f H0 r a (SVec (mkVec sl 0 (zlen (store_of H0 sl))) sk) = ROk H' /\
    (forall c : addr, absH H' c = sc_loop (ew_fun f) (vcells r) (vcells a) (sl, Z.to_nat sk) (absH H0) c).
Proof. exact vews_is_sc_loop. Qed.
(* r.V<op>S(a, r.At(k)), a = r or a in another backing array: the closed form on the heap *)
Theorem dense_vector_scalar_in_receiver : forall (f : Z) (r a : vec) (k : Z) (H0 : heap),
  vwf H0 r -> vwf H0 a -> v_len a = v_len r -> (a = r \/ v_loc a <> v_loc r) -> 0 <= k < v_len r ->
  let s := vcell H0 r k in
  exists H' : heap,
    vEwS false f H0 r a (SVec (mkVec (v_loc r) 0 (zlen (store_of H0 (v_loc r)))) (v_off r + k)) = ROk H' /\
    (forall i, 0 <= i <= k -> vcell H' r i = ew_fun f (vcell H0 a i) s) /\
    (forall i, k < i < v_len r -> vcell H' r i = ew_fun f (vcell H0 a i) (ew_fun f (vcell H0 a k) s)) /\
    (forall c : addr, ~ In c (vcells r) -> absH H' c = absH H0 c).
Proof. exact vews_scalar_in_receiver. Qed.
Example dense_vector_witness :
  vEwS false 2 [[2; 3; 4; 5]] (mkVec 0 0 4) (mkVec 0 0 4) (SVec (mkVec 0 0 4) 1) = ROk [[6; 9; 36; 45]].
Proof. exact vews_witness. Qed.
Example dense_matrix_view_witness :
  let mT := mkDense 0%nat 2 2 0 2 0 2 true in
  mEwS false 2 [[1; 2; 3; 4]] mT mT (SMat mT 0 1) = ROk [[3; 18; 9; 36]].
Proof. exact mews_witness. Qed.
