(* C08/ProofsVecSelf.v — dense MdotV / VdotM with the receiver IDENTICAL to the vector operand
   (same slice of the same backing array), all lengths INCLUDING the empty vector: the guard
   r.AT(0) == b.ConstAt(0) sits after  if n == 0 || m == 0 { return r }, so on an empty vector
   it is never evaluated (AT(0) would be out of range) — the call returns with the heap untouched,
   which is the fresh-receiver result (an empty vector); in every other case the call panics. *)
From Coq Require Import ZArith List Bool Lia.
From ADV Require Import C10.Gen C10.Model C08.Model.
Import ListNotations.
Open Scope Z_scope.

Lemma same_first_refl r : same_first r r = true.
Proof. unfold same_first. rewrite Nat.eqb_refl, Z.eqb_refl. reflexivity. Qed.

Lemma dense_mdotv_identical real H r a :
  vMdotV real H r a r = RPanic \/ (vMdotV real H r a r = ROk H /\ v_len r = 0).
Proof.
  unfold vMdotV. destruct (k_dims real a) as [n m].
  destruct ((v_len r =? n) && (v_len r =? m)) eqn:Ed; cbn [negb]; [|left; reflexivity].
  apply andb_true_iff in Ed. destruct Ed as [E1 E2]. apply Z.eqb_eq in E1. apply Z.eqb_eq in E2.
  destruct ((n =? 0) || (m =? 0)) eqn:Ez.
  - right. split; [reflexivity|]. apply orb_true_iff in Ez. destruct Ez as [Ez|Ez]; apply Z.eqb_eq in Ez; lia.
  - rewrite same_first_refl. left. reflexivity.
Qed.
Lemma dense_vdotm_identical real H r b :
  vVdotM real H r r b = RPanic \/ (vVdotM real H r r b = ROk H /\ v_len r = 0).
Proof.
  unfold vVdotM. destruct (k_dims real b) as [n m].
  destruct ((v_len r =? m) && (v_len r =? n)) eqn:Ed; cbn [negb]; [|left; reflexivity].
  apply andb_true_iff in Ed. destruct Ed as [E1 E2]. apply Z.eqb_eq in E1. apply Z.eqb_eq in E2.
  destruct ((n =? 0) || (m =? 0)) eqn:Ez.
  - right. split; [reflexivity|]. apply orb_true_iff in Ez. destruct Ez as [Ez|Ez]; apply Z.eqb_eq in Ez; lia.
  - rewrite same_first_refl. left. reflexivity.
Qed.
