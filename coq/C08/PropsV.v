(* C08/PropsV.v (round 7) — statements only; proofs in ProofsVecPrefix.v.

   Dense MdotV / VdotM / MDOTV / VDOTM with receiver and vector operand starting at the SAME CELL
   but of DIFFERENT lengths (non-square matrix: the receiver is a prefix slice of the operand, or
   the operand a prefix slice of the receiver): this aliasing is explicitly rejected, whatever the
   lengths; and the rejection is needed — the unguarded loop gives a wrong product there. *)
From Coq Require Import ZArith List Bool.
From ADV Require Import C10.Gen C10.Model C08.Model C08.ProofsVecPrefix.
Import ListNotations.
Open Scope Z_scope.

(* no hypothesis on shapes or lengths: same first cell => Panic, or a dimension is 0 and nothing is touched *)
Theorem mdotv_same_start_rejected_or_empty : forall real H r a b, same_start r b ->
  vMdotV real H r a b = RPanic \/ (vMdotV real H r a b = ROk H /\ (d_rows a = 0 \/ d_cols a = 0)).
Proof. exact mdotv_same_start_total. Qed.
Theorem vdotm_same_start_rejected_or_empty : forall real H r a b, same_start r a ->
  vVdotM real H r a b = RPanic \/ (vVdotM real H r a b = ROk H /\ (d_rows b = 0 \/ d_cols b = 0)).
Proof. exact vdotm_same_start_total. Qed.

(* the receiver is a proper prefix slice of the operand (the matrix is then non-square) *)
Theorem mdotv_prefix_slice_rejected : forall real H r a b, same_start r b -> v_len r < v_len b ->
  v_len r = d_rows a -> v_len b = d_cols a -> 0 < d_rows a ->
  d_rows a <> d_cols a /\ vMdotV real H r a b = RPanic.
Proof. exact mdotv_prefix_rejected. Qed.
Theorem vdotm_prefix_slice_rejected : forall real H r a b, same_start r a -> v_len r < v_len a ->
  v_len r = d_cols b -> v_len a = d_rows b -> 0 < d_cols b ->
  d_rows b <> d_cols b /\ vVdotM real H r a b = RPanic.
Proof. exact vdotm_prefix_rejected. Qed.
(* the operand is a proper prefix slice of the receiver *)
Theorem mdotv_operand_prefix_slice_rejected : forall real H r a b, same_start r b -> v_len b < v_len r ->
  v_len r = d_rows a -> v_len b = d_cols a -> 0 < d_cols a ->
  vMdotV real H r a b = RPanic.
Proof. exact mdotv_operand_prefix_rejected. Qed.
Theorem vdotm_operand_prefix_slice_rejected : forall real H r a b, same_start r a -> v_len a < v_len r ->
  v_len r = d_cols b -> v_len a = d_rows b -> 0 < d_rows b ->
  vVdotM real H r a b = RPanic.
Proof. exact vdotm_operand_prefix_rejected. Qed.
(* non-vacuity: a 1 x 2 matrix, r = v[0:1], b = v[0:2] *)
Example prefix_slice_hypotheses_satisfiable :
  let a := new_mat 0 1 2 in let r := mkVec 1 0 1 in let b := mkVec 1 0 2 in
  same_start r b /\ v_len r < v_len b /\ v_len r = d_rows a /\ v_len b = d_cols a /\ 0 < d_rows a /\
  vMdotV false [[1; 1]; [1; 2]] r a b = RPanic.
Proof. vm_compute. repeat split. Qed.
Example operand_prefix_hypotheses_satisfiable :
  let b := new_mat 0 1 2 in let r := mkVec 1 0 2 in let a := mkVec 1 0 1 in
  same_start r a /\ v_len a < v_len r /\ v_len r = d_cols b /\ v_len a = d_rows b /\ 0 < d_rows b /\
  vVdotM false [[1; 1]; [1; 2]] r a b = RPanic.
Proof. vm_compute. repeat split. Qed.

(* the call IS: the guard (first cells equal, shapes fit, no dimension 0), then the plain loops *)
Theorem mdotv_is_guard_then_loop : forall real H r a b,
  vMdotV real H r a b =
  (if same_first r b && (v_len r =? d_rows a) && (v_len b =? d_cols a) && negb ((d_rows a =? 0) || (d_cols a =? 0))
   then RPanic else vMdotV_ng real H r a b).
Proof. exact ProofsVecPrefix.mdotv_is_guard_then_loop. Qed.
Theorem vdotm_is_guard_then_loop : forall real H r a b,
  vVdotM real H r a b =
  (if same_first r a && (v_len r =? d_cols b) && (v_len a =? d_rows b) && negb ((d_rows b =? 0) || (d_cols b =? 0))
   then RPanic else vVdotM_ng real H r a b).
Proof. exact ProofsVecPrefix.vdotm_is_guard_then_loop. Qed.

(* ... and on a prefix slice the plain loops are WRONG (so a rejection that also asked for equal
   lengths would silently return a wrong product): witnesses *)
Theorem mdotv_guard_needed_on_prefix_slice :
  let H := [[1; 1]; [1; 2]] in
  let a := new_mat 0 1 2 in let r := mkVec 1 0 1 in let b := mkVec 1 0 2 in
  same_start r b /\ v_len r < v_len b /\ vMdotV false H r a b = RPanic /\
  vMdotV_ng false H r a b = ROk [[1; 1]; [2; 2]] /\ 1 * 1 + 1 * 2 = 3.
Proof. exact mdotv_guard_needed_on_prefix. Qed.
Theorem mdotv_guard_needed_on_operand_prefix_slice :
  let H := [[1; 1]; [1; 5]] in
  let a := new_mat 0 2 1 in let r := mkVec 1 0 2 in let b := mkVec 1 0 1 in
  same_start r b /\ v_len b < v_len r /\ vMdotV false H r a b = RPanic /\
  vMdotV_ng false H r a b = ROk [[1; 1]; [0; 0]].
Proof. exact mdotv_guard_needed_on_operand_prefix. Qed.
Theorem vdotm_guard_needed_on_prefix_slice :
  let H := [[1; 1]; [1; 2]] in
  let b := new_mat 0 2 1 in let r := mkVec 1 0 1 in let a := mkVec 1 0 2 in
  same_start r a /\ v_len r < v_len a /\ vVdotM false H r a b = RPanic /\
  vVdotM_ng false H r a b = ROk [[1; 1]; [2; 2]] /\ 1 * 1 + 2 * 1 = 3.
Proof. exact vdotm_guard_needed_on_prefix. Qed.
