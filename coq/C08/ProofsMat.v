(* C08/ProofsMat.v — the matrix product MdotM / MDOTM of coq/C10/Model.v
   ([mMdotM]: storageLocation() test as coded, column-buffered schedule when the
   receiver shares its backing array with the right factor, row-buffered
   otherwise) with the receiver aliasing a factor.

   Proved for all well-formed headers (any Slice / T view), all dimensions, all
   contents:  r == a (b in another backing array)  and  r == b (a in another
   backing array)  leave in r the product of the ORIGINAL matrices.
   Decided by the model with witnesses (vm_compute):  r == a == b,  r = b.T(),
   r = a.T(),  r == a with b a disjoint view of the same backing array,
   r an overlapping shifted view — all wrong. *)
From Coq Require Import ZArith List Bool Lia FinFun.
From ADV Require Import C10.Gen C10.Model C10.Spec C08.Spec.
Import ListNotations.
Open Scope Z_scope.

(* ---------------------------------------------------------------- lists *)
Lemma upd_length {X} (l : list X) n v : length (upd n v l) = length l.
Proof. revert n; induction l; intros [|n]; simpl; auto. Qed.
Lemma nth_upd_same {X} (l : list X) n v d : (n < length l)%nat -> nth n (upd n v l) d = v.
Proof. revert n; induction l; intros [|n] H; simpl in *; try lia; auto. apply IHl; lia. Qed.
Lemma nth_upd_other {X} (l : list X) n k v d : n <> k -> nth k (upd n v l) d = nth k l d.
Proof. revert n k; induction l; intros [|n] [|k] H; simpl; auto; try congruence. Qed.
Lemma in_zseq n x : In x (zseq n) <-> 0 <= x < n.
Proof.
  unfold zseq. rewrite in_map_iff. split.
  - intros [k [E Hk]]. apply in_seq in Hk. lia.
  - intros H. exists (Z.to_nat x). split; [lia|]. apply in_seq. lia.
Qed.
Lemma NoDup_zseq n : NoDup (zseq n).
Proof.
  unfold zseq. apply Injective_map_NoDup; [|apply seq_NoDup].
  intros a b E. lia.
Qed.

(* ---------------------------------------------------------------- monadic folds that cannot fail *)
Lemma foldR_ok {X S} (P : S -> Prop) (f : S -> X -> R S) (g : S -> X -> S) l :
  (forall s x, In x l -> P s -> f s x = ROk (g s x) /\ P (g s x)) ->
  forall s, P s -> foldR f l s = ROk (fold_left g l s) /\ P (fold_left g l s).
Proof.
  induction l as [|x l IH]; intros Hf s Hs; simpl; [auto|].
  destruct (Hf s x (or_introl eq_refl) Hs) as [E Hp]. rewrite E. simpl.
  apply IH; auto. intros s' y Hy. apply Hf. right; auto.
Qed.
Lemma mapR_ok {X Y} (f : X -> R Y) (g : X -> Y) l :
  (forall x, In x l -> f x = ROk (g x)) -> mapR f l = ROk (map g l).
Proof.
  induction l as [|x l IH]; intros Hf; simpl; [auto|].
  rewrite (Hf x (or_introl eq_refl)). simpl. rewrite IH; auto. intros y Hy. apply Hf. right; auto.
Qed.

(* ---------------------------------------------------------------- index *)
Section Idx.
Implicit Types h : mat.

Definition lidx h (i j : Z) : Z :=
  if d_transposed h then (d_colOffset h + j) * d_rowMax h + (d_rowOffset h + i)
  else (d_rowOffset h + i) * d_colMax h + (d_colOffset h + j).

Lemma k_index_some real h i j : in_range h i j -> k_index real h i j = Some (lidx h i j).
Proof.
  intros [Hi Hj]. unfold k_index, lidx.
  assert (E : DenseR.index h i j = DenseP.index h i j) by reflexivity.
  destruct real; rewrite ?E; unfold DenseP.index;
  replace (i <? 0) with false by (symmetry; apply Z.ltb_ge; lia);
  replace (j <? 0) with false by (symmetry; apply Z.ltb_ge; lia);
  replace (i >=? d_rows h) with false by (symmetry; rewrite Z.geb_leb; apply Z.leb_gt; lia);
  replace (j >=? d_cols h) with false by (symmetry; rewrite Z.geb_leb; apply Z.leb_gt; lia);
  simpl; destruct (d_transposed h); reflexivity.
Qed.

Lemma lidx_bounds len h i j : wf len h -> in_range h i j -> 0 <= lidx h i j < len.
Proof.
  intros (Hr & Hc & Hro & Hco & Hrm & Hcm & Hl) [Hi Hj]. unfold lidx. subst len.
  destruct (d_transposed h); nia.
Qed.

Lemma lidx_inj len h i j i' j' : wf len h -> in_range h i j -> in_range h i' j' ->
  lidx h i j = lidx h i' j' -> i = i' /\ j = j'.
Proof.
  intros (Hr & Hc & Hro & Hco & Hrm & Hcm & Hl) [Hi Hj] [Hi' Hj']. unfold lidx.
  destruct (d_transposed h); intro E.
  - assert (d_colOffset h + j = d_colOffset h + j') by nia. split; nia.
  - assert (d_rowOffset h + i = d_rowOffset h + i') by nia. split; nia.
Qed.
End Idx.

(* ---------------------------------------------------------------- pure cell semantics *)
Definition cell (H : heap) (m : mat) (i j : Z) : Z :=
  nth (Z.to_nat (lidx m i j)) (store_of H (d_values m)) 0.
Definition wr (H : heap) (m : mat) (i j v : Z) : heap :=
  set_store H (d_values m) (upd (Z.to_nat (lidx m i j)) v (store_of H (d_values m))).
(* the header is well formed over its storage, which exists *)
Definition wfh (H : heap) (m : mat) : Prop :=
  (d_values m < length H)%nat /\ wf (zlen (store_of H (d_values m))) m.

Lemma store_wr_same H m i j v : (d_values m < length H)%nat ->
  store_of (wr H m i j v) (d_values m) = upd (Z.to_nat (lidx m i j)) v (store_of H (d_values m)).
Proof. intro Hl. unfold wr, store_of, set_store. apply nth_upd_same. exact Hl. Qed.
Lemma store_wr_other H m i j v l : l <> d_values m -> store_of (wr H m i j v) l = store_of H l.
Proof. intro Hl. unfold wr, store_of, set_store. apply nth_upd_other. congruence. Qed.
Lemma length_wr H m i j v : length (wr H m i j v) = length H.
Proof. unfold wr, set_store. apply upd_length. Qed.
Lemma zlen_store_wr H m i j v l : (d_values m < length H)%nat ->
  zlen (store_of (wr H m i j v) l) = zlen (store_of H l).
Proof.
  intro Hl. destruct (Nat.eq_dec l (d_values m)) as [E|E].
  - subst l. rewrite store_wr_same by exact Hl. unfold zlen. rewrite upd_length. reflexivity.
  - rewrite store_wr_other by exact E. reflexivity.
Qed.
Lemma wfh_wr H m i j v m' : (d_values m < length H)%nat -> wfh H m' -> wfh (wr H m i j v) m'.
Proof. intros Hl [L W]. split; [rewrite length_wr; exact L|]. rewrite zlen_store_wr by exact Hl. exact W. Qed.

Lemma mAT_ok real H m i j : wfh H m -> in_range m i j -> mAT real H m i j = ROk (cell H m i j).
Proof.
  intros [L W] Hr. unfold mAT, idx. rewrite (k_index_some real m i j Hr). simpl.
  assert (B := lidx_bounds _ m i j W Hr). unfold get.
  replace (lidx m i j <? 0) with false by (symmetry; apply Z.ltb_ge; lia).
  replace (lidx m i j >=? zlen (store_of H (d_values m))) with false
    by (symmetry; rewrite Z.geb_leb; apply Z.leb_gt; lia).
  reflexivity.
Qed.
Lemma mSET_ok real H m i j v : wfh H m -> in_range m i j -> mSET real H m i j v = ROk (wr H m i j v).
Proof.
  intros [L W] Hr. unfold mSET, idx. rewrite (k_index_some real m i j Hr). simpl.
  assert (B := lidx_bounds _ m i j W Hr). unfold put.
  replace (lidx m i j <? 0) with false by (symmetry; apply Z.ltb_ge; lia).
  replace (lidx m i j >=? zlen (store_of H (d_values m))) with false
    by (symmetry; rewrite Z.geb_leb; apply Z.leb_gt; lia).
  reflexivity.
Qed.

Lemma cell_wr_same H m i j v i' j' : wfh H m -> in_range m i j -> in_range m i' j' ->
  cell (wr H m i j v) m i' j' = if (i =? i') && (j =? j') then v else cell H m i' j'.
Proof.
  intros [L W] Hr Hr'. unfold cell. rewrite store_wr_same by exact L.
  assert (B := lidx_bounds _ m i j W Hr).
  destruct ((i =? i') && (j =? j')) eqn:E.
  - apply andb_prop in E. destruct E as [E1 E2]. apply Z.eqb_eq in E1, E2. subst i' j'.
    apply nth_upd_same. unfold zlen in B. lia.
  - apply nth_upd_other. intro E'.
    assert (B' := lidx_bounds _ m i' j' W Hr').
    assert (E2 : lidx m i j = lidx m i' j') by lia.
    destruct (lidx_inj _ m i j i' j' W Hr Hr' E2) as [-> ->].
    rewrite !Z.eqb_refl in E. discriminate.
Qed.
Lemma cell_wr_other H m i j v m' i' j' : d_values m' <> d_values m -> cell (wr H m i j v) m' i' j' = cell H m' i' j'.
Proof. intro Hl. unfold cell. rewrite store_wr_other by exact Hl. reflexivity. Qed.

(* ---------------------------------------------------------------- the dot product *)
Lemma dotZ_ext (fa fb fa' fb' : Z -> Z -> Z) i j m1 :
  (forall k, 0 <= k < m1 -> fa i k = fa' i k) -> (forall k, 0 <= k < m1 -> fb k j = fb' k j) ->
  dotZ fa fb i j m1 = dotZ fa' fb' i j m1.
Proof.
  intros Ha Hb. unfold dotZ.
  assert (G : forall l t, (forall k, In k l -> 0 <= k < m1) ->
            fold_left (fun t k => t + fa i k * fb k j) l t = fold_left (fun t k => t + fa' i k * fb' k j) l t).
  { induction l as [|k l IH]; intros t Hl; simpl; [reflexivity|].
    rewrite Ha, Hb by (apply Hl; left; reflexivity). apply IH. intros k' Hk'. apply Hl. right; exact Hk'. }
  apply G. intros k Hk. apply in_zseq in Hk. exact Hk.
Qed.

Lemma dot_ok real H a b i j m1 :
  wfh H a -> wfh H b -> 0 <= i < d_rows a -> 0 <= j < d_cols b -> m1 = d_cols a -> m1 = d_rows b ->
  dot real H a b i j m1 = ROk (dotZ (cell H a) (cell H b) i j m1).
Proof.
  intros Wa Wb Hi Hj Ea Eb. unfold dot, dotZ.
  destruct (foldR_ok (fun _ : Z => True)
              (fun t2 k => x <- mAT real H a i k ;; y <- mAT real H b k j ;; ROk (t2 + x * y))
              (fun t k => t + cell H a i k * cell H b k j) (zseq m1)) with (s := 0) as [E _]; auto.
  intros t k Hk _. apply in_zseq in Hk. split; [|exact I].
  rewrite (mAT_ok real H a i k Wa) by (split; lia). simpl.
  rewrite (mAT_ok real H b k j Wb) by (split; lia). reflexivity.
Qed.

(* ---------------------------------------------------------------- one buffered line *)
(* writing a line of r: positions (pos o i), i in is, with values g i *)
Section Sched.
Variable r : mat.
Variable pos : Z -> Z -> Z * Z.          (* line o, element i |-> (row, column) of r *)

Definition wline (H : heap) (o : Z) (is : list Z) (g : Z -> Z) : heap :=
  fold_left (fun H i => wr H r (fst (pos o i)) (snd (pos o i)) (g i)) is H.

Definition pos_ok (os is : list Z) : Prop :=
  (forall o i, In o os -> In i is -> in_range r (fst (pos o i)) (snd (pos o i))) /\
  (forall o i o' i', In o os -> In i is -> In o' os -> In i' is -> pos o i = pos o' i' -> o = o' /\ i = i').

Lemma wline_spec os is_all : pos_ok os is_all -> forall is H o g,
  In o os -> incl is is_all -> NoDup is -> wfh H r ->
  let H' := wline H o is g in
  wfh H' r /\ length H' = length H /\
  (forall l, l <> d_values r -> store_of H' l = store_of H l) /\
  (forall m', wfh H m' -> wfh H' m') /\
  (forall i, In i is -> cell H' r (fst (pos o i)) (snd (pos o i)) = g i) /\
  (forall o' i', In o' os -> In i' is_all -> ~ (o' = o /\ In i' is) ->
     cell H' r (fst (pos o' i')) (snd (pos o' i')) = cell H r (fst (pos o' i')) (snd (pos o' i'))).
Proof.
  intros [Pr Pi]. induction is as [|i is IH]; intros H o g Ho Hin Hnd W; cbv zeta; simpl.
  - split; [exact W|]. split; [reflexivity|]. split; [reflexivity|]. split; [auto|]. split; [intros i []|reflexivity].
  - apply NoDup_cons_iff in Hnd. destruct Hnd as [Hni Hnd].
    assert (Hi : In i is_all) by (apply Hin; left; reflexivity).
    assert (Hin' : incl is is_all) by (intros x Hx; apply Hin; right; exact Hx).
    set (H1 := wr H r (fst (pos o i)) (snd (pos o i)) (g i)).
    assert (W1 : wfh H1 r) by (apply wfh_wr; [apply W|exact W]).
    destruct (IH H1 o g Ho Hin' Hnd W1) as [A1 [A2 [A3 [A4 [A5 A6]]]]]. cbv zeta in *.
    split; [exact A1|]. split; [rewrite A2; apply length_wr|].
    split; [intros l Hl; rewrite A3 by exact Hl; apply store_wr_other; exact Hl|].
    split; [intros m' Wm; apply A4; apply wfh_wr; [apply W|exact Wm]|].
    split.
    + intros i' [E|Hi'].
      * subst i'. rewrite A6; auto; [|intros [_ Hc]; contradiction].
        unfold H1. rewrite cell_wr_same by (auto; apply Pr; auto). rewrite !Z.eqb_refl. reflexivity.
      * apply A5. exact Hi'.
    + intros o' i' Ho' Hi' Hn. rewrite A6; auto.
      * unfold H1. rewrite cell_wr_same by (auto; apply Pr; auto).
        destruct ((fst (pos o i) =? fst (pos o' i')) && (snd (pos o i) =? snd (pos o' i'))) eqn:E; [|reflexivity].
        exfalso. apply andb_prop in E. destruct E as [E1 E2]. apply Z.eqb_eq in E1, E2.
        assert (Ep : pos o i = pos o' i') by (destruct (pos o i), (pos o' i'); simpl in *; congruence).
        destruct (Pi o i o' i' Ho Hi Ho' Hi' Ep) as [-> ->]. apply Hn. split; [reflexivity|left; reflexivity].
      * intros [Eo Hc]. apply Hn. split; [exact Eo|right; exact Hc].
Qed.

(* the whole schedule: for every line o, compute all of g H o . on the heap as it is when the
   line starts, then write the line *)
Variable g : heap -> Z -> Z -> Z.
Definition sched (os is : list Z) (H : heap) : heap :=
  fold_left (fun H o => wline H o is (g H o)) os H.

(* [g H o i] reads r only on line o, and anything outside r's backing array *)
Definition g_local (os is : list Z) : Prop :=
  forall H1 H2 o i, In o os -> In i is ->
    (forall i', In i' is -> cell H1 r (fst (pos o i')) (snd (pos o i')) = cell H2 r (fst (pos o i')) (snd (pos o i'))) ->
    (forall l, l <> d_values r -> store_of H1 l = store_of H2 l) ->
    g H1 o i = g H2 o i.

Lemma sched_spec os_all is : pos_ok os_all is -> NoDup is -> g_local os_all is -> forall H0 os H,
  incl os os_all -> NoDup os -> wfh H r ->
  (forall l, l <> d_values r -> store_of H l = store_of H0 l) ->
  (forall o i, In o os -> In i is ->
     cell H r (fst (pos o i)) (snd (pos o i)) = cell H0 r (fst (pos o i)) (snd (pos o i))) ->
  let H' := sched os is H in
  wfh H' r /\ length H' = length H /\
  (forall l, l <> d_values r -> store_of H' l = store_of H0 l) /\
  (forall m', wfh H m' -> wfh H' m') /\
  (forall o i, In o os -> In i is -> cell H' r (fst (pos o i)) (snd (pos o i)) = g H0 o i) /\
  (forall o i, In o os_all -> In i is -> ~ In o os ->
     cell H' r (fst (pos o i)) (snd (pos o i)) = cell H r (fst (pos o i)) (snd (pos o i))).
Proof.
  intros Pok Hndi Hloc H0. induction os as [|o os IH]; intros H Hin Hnd W Hst Hcell; cbv zeta; simpl.
  - split; [exact W|]. split; [reflexivity|]. split; [exact Hst|]. split; [auto|]. split; [intros o i []|reflexivity].
  - apply NoDup_cons_iff in Hnd. destruct Hnd as [Hno Hnd].
    assert (Ho : In o os_all) by (apply Hin; left; reflexivity).
    assert (Hin' : incl os os_all) by (intros x Hx; apply Hin; right; exact Hx).
    destruct (wline_spec os_all is Pok is H o (g H o) Ho (incl_refl _) Hndi W) as [B1 [B2 [B3 [B4 [B5 B6]]]]].
    cbv zeta in *. set (H1 := wline H o is (g H o)) in *.
    assert (Hg : forall i, In i is -> g H o i = g H0 o i).
    { intros i Hi. apply Hloc; auto. intros i' Hi'. apply Hcell; auto. left; reflexivity. }
    destruct (IH H1 Hin' Hnd B1) as [C1 [C2 [C3 [C4 [C5 C6]]]]].
    { intros l Hl. rewrite B3 by exact Hl. apply Hst. exact Hl. }
    { intros o' i' Ho' Hi'. rewrite B6; auto.
      - apply Hcell; auto. right; exact Ho'.
      - intros [E _]. subst o'. contradiction. }
    cbv zeta in *.
    split; [exact C1|]. split; [rewrite C2; exact B2|]. split; [exact C3|].
    split; [intros m' Wm; apply C4, B4; exact Wm|].
    split.
    + intros o' i' [E|Ho'] Hi'.
      * subst o'. rewrite C6; auto. rewrite B5 by exact Hi'. apply Hg. exact Hi'.
      * apply C5; auto.
    + intros o' i' Ho' Hi' Hn. rewrite (C6 o' i' Ho' Hi') by (intro Hc; apply Hn; right; exact Hc).
      apply B6; auto. intros [E _]. apply Hn. left. congruence.
Qed.
End Sched.

(* ---------------------------------------------------------------- the model's schedules are [sched] *)
Lemma combine_map_self {X Y} (f : X -> Y) l : combine l (map f l) = map (fun x => (x, f x)) l.
Proof. induction l; simpl; congruence. Qed.
Lemma fold_left_map {X Y S} (f : S -> Y -> S) (h : X -> Y) l s :
  fold_left f (map h l) s = fold_left (fun s x => f s (h x)) l s.
Proof. revert s; induction l; intros s; simpl; auto. Qed.

Definition rowpos (o i : Z) : Z * Z := (o, i).
Definition colpos (o i : Z) : Z * Z := (i, o).

Lemma rowpos_ok (r : mat) : pos_ok r rowpos (zseq (d_rows r)) (zseq (d_cols r)).
Proof.
  split.
  - intros o i Ho Hi. apply in_zseq in Ho, Hi. split; simpl; lia.
  - intros o i o' i' _ _ _ _ E. inversion E. auto.
Qed.
Lemma colpos_ok (r : mat) : pos_ok r colpos (zseq (d_cols r)) (zseq (d_rows r)).
Proof.
  split.
  - intros o i Ho Hi. apply in_zseq in Ho, Hi. split; simpl; lia.
  - intros o i o' i' _ _ _ _ E. inversion E. auto.
Qed.

(* row-buffered branch (receiver does not share the right factor's backing array) *)
Lemma row_branch_ok real (r a b : mat) m1 :
  d_rows a = d_rows r -> d_cols b = d_cols r -> m1 = d_cols a -> m1 = d_rows b ->
  forall os H, incl os (zseq (d_rows r)) -> wfh H r -> wfh H a -> wfh H b ->
  foldR (fun H i =>
      t3 <- mapR (fun j => dot real H a b i j m1) (zseq (d_cols r)) ;;
      foldR (fun H jt => mSET real H r i (fst jt) (snd jt)) (combine (zseq (d_cols r)) t3) H) os H
  = ROk (sched r rowpos (fun H i j => dotZ (cell H a) (cell H b) i j m1) os (zseq (d_cols r)) H).
Proof.
  intros Da Db Ea Eb. induction os as [|i os IH]; intros H Hin Wr Wa Wb; simpl; [reflexivity|].
  assert (Hi : 0 <= i < d_rows r) by (apply in_zseq, Hin; left; reflexivity).
  rewrite (mapR_ok _ (fun j => dotZ (cell H a) (cell H b) i j m1)).
  2:{ intros j Hj. apply in_zseq in Hj. apply dot_ok; auto; lia. }
  simpl. rewrite combine_map_self.
  set (gl := fun j => dotZ (cell H a) (cell H b) i j m1).
  destruct (foldR_ok (fun H' => wfh H' r /\ wfh H' a /\ wfh H' b)
              (fun H jt => mSET real H r i (fst jt) (snd jt)) (fun H jt => wr H r i (fst jt) (snd jt) )
              (map (fun x => (x, gl x)) (zseq (d_cols r)))) with (s := H) as [E [W1 [W2 W3]]]; auto.
  { intros H' [j v] Hjv [X1 [X2 X3]]. apply in_map_iff in Hjv. destruct Hjv as [j' [Ej Hj']]. inversion Ej; subst j' v.
    apply in_zseq in Hj'. simpl. split; [apply mSET_ok; auto; split; lia|].
    split; [|split]; apply wfh_wr; auto; apply X1. }
  unfold gl in *. cbv beta in E. rewrite E. simpl. rewrite fold_left_map in *. simpl in *.
  unfold sched at 1. simpl. unfold wline at 1. unfold rowpos at 1 2. simpl.
  apply IH; auto. intros x Hx. apply Hin. right; exact Hx.
Qed.

(* column-buffered branch (receiver shares the right factor's backing array) *)
Lemma col_branch_ok real (r a b : mat) m1 :
  d_rows a = d_rows r -> d_cols b = d_cols r -> m1 = d_cols a -> m1 = d_rows b ->
  forall os H, incl os (zseq (d_cols r)) -> wfh H r -> wfh H a -> wfh H b ->
  foldR (fun H j =>
      t3 <- mapR (fun i => dot real H a b i j m1) (zseq (d_rows r)) ;;
      foldR (fun H it => mSET real H r (fst it) j (snd it)) (combine (zseq (d_rows r)) t3) H) os H
  = ROk (sched r colpos (fun H j i => dotZ (cell H a) (cell H b) i j m1) os (zseq (d_rows r)) H).
Proof.
  intros Da Db Ea Eb. induction os as [|j os IH]; intros H Hin Wr Wa Wb; simpl; [reflexivity|].
  assert (Hj : 0 <= j < d_cols r) by (apply in_zseq, Hin; left; reflexivity).
  rewrite (mapR_ok _ (fun i => dotZ (cell H a) (cell H b) i j m1)).
  2:{ intros i Hi. apply in_zseq in Hi. apply dot_ok; auto; lia. }
  simpl. rewrite combine_map_self.
  set (gl := fun i => dotZ (cell H a) (cell H b) i j m1).
  destruct (foldR_ok (fun H' => wfh H' r /\ wfh H' a /\ wfh H' b)
              (fun H it => mSET real H r (fst it) j (snd it)) (fun H it => wr H r (fst it) j (snd it))
              (map (fun x => (x, gl x)) (zseq (d_rows r)))) with (s := H) as [E [W1 [W2 W3]]]; auto.
  { intros H' [i v] Hiv [X1 [X2 X3]]. apply in_map_iff in Hiv. destruct Hiv as [i' [Ei Hi']]. inversion Ei; subst i' v.
    apply in_zseq in Hi'. simpl. split; [apply mSET_ok; auto; split; lia|].
    split; [|split]; apply wfh_wr; auto; apply X1. }
  unfold gl in *. cbv beta in E. rewrite E. simpl. rewrite fold_left_map in *. simpl in *.
  unfold sched at 1. simpl. unfold wline at 1. unfold colpos at 1 2. simpl.
  apply IH; auto. intros x Hx. apply Hin. right; exact Hx.
Qed.

Lemma storage_location_ok H m : wfh H m -> 0 < d_rows m -> 0 < d_cols m -> storage_location H m = ROk (d_values m).
Proof.
  intros [L (Hr & Hc & Hro & Hco & Hrm & Hcm & Hl)] Pr Pc. unfold storage_location.
  replace (zlen (store_of H (d_values m)) =? 0) with false; [reflexivity|].
  symmetry. apply Z.eqb_neq. nia.
Qed.

(* ---------------------------------------------------------------- r == a *)
Theorem mdotm_r_is_a real (H : heap) (r b : mat) :
  wfh H r -> wfh H b -> d_values r <> d_values b ->
  d_rows b = d_cols r -> d_cols b = d_cols r -> 0 < d_rows r -> 0 < d_cols r ->
  exists H', mMdotM real H r r b = ROk H' /\
    (forall i j, in_range r i j -> mAT real H' r i j = ROk (dotZ (cell H r) (cell H b) i j (d_cols r))) /\
    (forall l, l <> d_values r -> store_of H' l = store_of H l).
Proof.
  intros Wr Wb Hl Eb1 Eb2 Pr Pc. unfold mMdotM.
  assert (Ed : forall m : mat, k_dims real m = (d_rows m, d_cols m)) by (intro m; destruct real; reflexivity).
  rewrite !Ed. rewrite !Z.eqb_refl. rewrite Eb2, Z.eqb_refl. rewrite <- Eb1, Z.eqb_refl. simpl.
  rewrite (storage_location_ok H r Wr Pr Pc), (storage_location_ok H b Wb) by lia. simpl.
  destruct (Nat.eqb_spec (d_values r) (d_values b)) as [E|_]; [contradiction|].
  rewrite Eb1.
  rewrite (row_branch_ok real r r b (d_cols r)) by (auto using incl_refl).
  set (g := fun H i j => dotZ (cell H r) (cell H b) i j (d_cols r)).
  destruct (sched_spec r rowpos g (zseq (d_rows r)) (zseq (d_cols r)) (rowpos_ok r) (NoDup_zseq _)) with
    (H0 := H) (os := zseq (d_rows r)) (H := H) as [C1 [C2 [C3 [C4 [C5 C6]]]]]; auto using incl_refl, NoDup_zseq.
  { (* locality: entry (i,j) of the product reads row i of r and b only *)
    intros H1 H2 i j Hi Hj Hrow Hoth. unfold g. apply dotZ_ext.
    - intros k Hk. apply (Hrow k). apply in_zseq. exact Hk.
    - intros k Hk. unfold cell. rewrite Hoth by congruence. reflexivity. }
  cbv zeta in *. eexists. split; [reflexivity|]. split.
  - intros i j [Hi Hj]. rewrite mAT_ok by (auto; split; auto).
    f_equal. apply (C5 i j); apply in_zseq; auto.
  - exact C3.
Qed.

(* ---------------------------------------------------------------- r == b *)
Theorem mdotm_r_is_b real (H : heap) (r a : mat) :
  wfh H r -> wfh H a -> d_values r <> d_values a ->
  d_rows a = d_rows r -> d_cols a = d_rows r -> 0 < d_rows r -> 0 < d_cols r ->
  exists H', mMdotM real H r a r = ROk H' /\
    (forall i j, in_range r i j -> mAT real H' r i j = ROk (dotZ (cell H a) (cell H r) i j (d_rows r))) /\
    (forall l, l <> d_values r -> store_of H' l = store_of H l).
Proof.
  intros Wr Wa Hl Ea1 Ea2 Pr Pc. unfold mMdotM.
  assert (Ed : forall m : mat, k_dims real m = (d_rows m, d_cols m)) by (intro m; destruct real; reflexivity).
  rewrite !Ed. rewrite Ea1, Ea2, !Z.eqb_refl. simpl.
  rewrite (storage_location_ok H r Wr Pr Pc). simpl. rewrite Nat.eqb_refl.
  rewrite (col_branch_ok real r a r (d_rows r)) by (auto using incl_refl).
  set (g := fun H j i => dotZ (cell H a) (cell H r) i j (d_rows r)).
  destruct (sched_spec r colpos g (zseq (d_cols r)) (zseq (d_rows r)) (colpos_ok r) (NoDup_zseq _)) with
    (H0 := H) (os := zseq (d_cols r)) (H := H) as [C1 [C2 [C3 [C4 [C5 C6]]]]]; auto using incl_refl, NoDup_zseq.
  { (* locality: entry (i,j) of the product reads a and column j of r only *)
    intros H1 H2 j i Hj Hi Hcol Hoth. unfold g. apply dotZ_ext.
    - intros k Hk. unfold cell. rewrite Hoth by congruence. reflexivity.
    - intros k Hk. apply (Hcol k). apply in_zseq. exact Hk. }
  cbv zeta in *. eexists. split; [reflexivity|]. split.
  - intros i j [Hi Hj]. rewrite mAT_ok by (auto; split; auto).
    f_equal. apply (C5 j i); apply in_zseq; auto.
  - exact C3.
Qed.

(* ---------------------------------------------------------------- decided by the model: wrong *)
Definition prod_of (H : heap) (a b : mat) : list Z :=
  map (fun p => dotZ (cell H a) (cell H b) (fst p) (snd p) (d_cols a)) (positions (d_rows a) (d_cols b)).
Definition result_of (real : bool) (H : heap) (r a b : mat) : option (list Z) :=
  match mMdotM real H r a b with
  | ROk H' => match read_all real H' r with ROk l => Some l | _ => None end
  | _ => None
  end.

(* r.MdotM(r, r) *)
Lemma mdotm_rr_refuted :
  let H := [[1; 2; 3; 4]] in let r := new_mat 0 2 2 in
  result_of false H r r r = Some [7; 22; 15; 46] /\ prod_of H r r = [7; 10; 15; 22].
Proof. vm_compute. split; reflexivity. Qed.

(* r = b.T():  r.MdotM(a, b) *)
Lemma mdotm_rbT_refuted :
  let H := [[1; 2; 3; 4]; [1; 1; 0; 1]] in let b := new_mat 0 2 2 in let r := k_T false b in let a := new_mat 1 2 2 in
  exists l, result_of false H r a b = Some l /\ l <> prod_of H a b.
Proof. vm_compute. eexists. split; [reflexivity|discriminate]. Qed.

(* r = a.T():  r.MdotM(a, b) *)
Lemma mdotm_raT_refuted :
  let H := [[1; 2; 3; 4]; [1; 2; 1; 1]] in let a := new_mat 0 2 2 in let r := k_T false a in let b := new_mat 1 2 2 in
  exists l, result_of false H r a b = Some l /\ l <> prod_of H a b.
Proof. vm_compute. eexists. split; [reflexivity|discriminate]. Qed.

(* r == a, b a DISJOINT view of the same backing array: the column-buffered schedule is chosen *)
Lemma mdotm_ra_bsame_refuted :
  let H := [[1; 2; 3; 4; 1; 2; 1; 1]] in let p := new_mat 0 4 2 in
  let r := k_slice false p 0 2 0 2 in let b := k_slice false p 2 4 0 2 in
  exists l, result_of false H r r b = Some l /\ l <> prod_of H r b.
Proof. vm_compute. eexists. split; [reflexivity|discriminate]. Qed.

(* the same three calls with every matrix in its own backing array are right *)
Lemma mdotm_separate_ok :
  let H := [[1; 2; 3; 4]; [1; 1; 0; 1]; [0; 0; 0; 0]] in
  let a := new_mat 0 2 2 in let b := new_mat 1 2 2 in let r := new_mat 2 2 2 in
  result_of false H r a b = Some (prod_of H a b).
Proof. vm_compute. reflexivity. Qed.

(* ---------------------------------------------------------------- element-wise matrix operations *)
(* MaddM / MsubM / MmulM ([mEw]): one row-major sweep, read a(i,j), b(i,j), write r(i,j).
   Alias-safe when every operand is the receiver's own view (identical header) or lives in
   another backing array. *)
Lemma in_positions n m i j : In (i, j) (positions n m) <-> 0 <= i < n /\ 0 <= j < m.
Proof.
  unfold positions. rewrite in_flat_map. split.
  - intros [x [Hx Hin]]. apply in_map_iff in Hin. destruct Hin as [y [E Hy]]. inversion E; subst.
    apply in_zseq in Hx, Hy. lia.
  - intros [Hi Hj]. exists i. split; [apply in_zseq; lia|]. apply in_map_iff. exists j. split; [reflexivity|apply in_zseq; lia].
Qed.
Lemma NoDup_app_disj {X} (a b : list X) :
  NoDup a -> NoDup b -> (forall x, In x a -> ~ In x b) -> NoDup (a ++ b).
Proof.
  induction 1 as [|x a Hx Ha IH]; intros Hb Hd; simpl; auto.
  constructor.
  - rewrite in_app_iff. intros [H|H]; [contradiction|]. apply (Hd x); simpl; auto.
  - apply IH; auto. intros y Hy. apply Hd. simpl; auto.
Qed.
Lemma NoDup_positions n m : NoDup (positions n m).
Proof.
  unfold positions.
  assert (G : forall l, NoDup l -> NoDup (flat_map (fun i : Z => map (fun j : Z => (i, j)) (zseq m)) l)).
  { induction 1 as [|x l Hx Hl IH]; simpl; [constructor|].
    apply NoDup_app_disj; [| exact IH |].
    - apply Injective_map_NoDup; [|apply NoDup_zseq]. intros p q E. inversion E. reflexivity.
    - intros [p q] Hin Hin2. apply in_map_iff in Hin. destruct Hin as [y [E _]]. inversion E; subst.
      apply in_flat_map in Hin2. destruct Hin2 as [k [Hk Hin2]].
      apply in_map_iff in Hin2. destruct Hin2 as [w [E2 _]]. inversion E2; subst. contradiction. }
  apply G, NoDup_zseq.
Qed.

Definition opd_ok (H : heap) (r x : mat) : Prop :=
  x = r \/ (wfh H x /\ d_values x <> d_values r /\ d_rows x = d_rows r /\ d_cols x = d_cols r).

Section Ewm.
Variables (real : bool) (f : Z) (r a b : mat) (H0 : heap).
Hypothesis Wr : wfh H0 r.
Hypothesis Oa : opd_ok H0 r a.
Hypothesis Ob : opd_ok H0 r b.

Definition eres (p : Z * Z) : Z := ew_fun f (cell H0 a (fst p) (snd p)) (cell H0 b (fst p) (snd p)).
Definition estep (H : heap) (p : Z * Z) : heap :=
  wr H r (fst p) (snd p) (ew_fun f (cell H a (fst p) (snd p)) (cell H b (fst p) (snd p))).

Lemma opd_wfh H x : (forall m', wfh H0 m' -> wfh H m') -> opd_ok H0 r x -> wfh H x.
Proof. intros K [->|[W _]]; apply K; assumption. Qed.
Lemma opd_range x i j : opd_ok H0 r x -> in_range r i j -> in_range x i j.
Proof. intros [->|(_ & _ & E1 & E2)] Hr; [exact Hr|]. unfold in_range in *. rewrite E1, E2. exact Hr. Qed.
Lemma cell_wr_opd H x i j v i' j' : wfh H r -> opd_ok H0 r x -> in_range r i j -> in_range r i' j' -> (i, j) <> (i', j') ->
  cell (wr H r i j v) x i' j' = cell H x i' j'.
Proof.
  intros W [->|(_ & L & _)] Hr Hr' Hne.
  - rewrite cell_wr_same by assumption.
    destruct ((i =? i') && (j =? j')) eqn:E; [|reflexivity].
    apply andb_prop in E. destruct E as [E1 E2]. apply Z.eqb_eq in E1, E2. congruence.
  - apply cell_wr_other. exact L.
Qed.

Lemma ew_loop : forall ps H, NoDup ps -> (forall p, In p ps -> in_range r (fst p) (snd p)) ->
  wfh H r -> (forall m', wfh H0 m' -> wfh H m') ->
  (forall p, In p ps -> cell H a (fst p) (snd p) = cell H0 a (fst p) (snd p) /\ cell H b (fst p) (snd p) = cell H0 b (fst p) (snd p)) ->
  let H' := fold_left estep ps H in
  wfh H' r /\ (forall m', wfh H0 m' -> wfh H' m') /\
  (forall l, l <> d_values r -> store_of H' l = store_of H l) /\
  (forall p, In p ps -> cell H' r (fst p) (snd p) = eres p) /\
  (forall i j, in_range r i j -> ~ In (i, j) ps -> cell H' r i j = cell H r i j).
Proof.
  induction ps as [|[i j] ps IH]; intros H Hnd Hb W K Hc; cbv zeta; simpl.
  - split; [exact W|]. split; [exact K|]. split; [reflexivity|]. split; [intros p []|reflexivity].
  - apply NoDup_cons_iff in Hnd. destruct Hnd as [Hnin Hnd].
    assert (Hr : in_range r i j) by (apply (Hb (i, j)); left; reflexivity).
    set (H1 := estep H (i, j)).
    assert (L : (d_values r < length H)%nat) by apply W.
    assert (W1 : wfh H1 r) by (apply wfh_wr; assumption).
    assert (K1 : forall m', wfh H0 m' -> wfh H1 m') by (intros m' Wm; apply wfh_wr; [exact L|apply K; exact Wm]).
    destruct (IH H1 Hnd) as [A1 [A2 [A3 [A4 A5]]]]; auto.
    { intros p Hp. apply Hb. right; exact Hp. }
    { intros [i' j'] Hp. simpl. assert (Hr' : in_range r i' j') by (apply (Hb (i', j')); right; exact Hp).
      assert (Hne : (i, j) <> (i', j')) by (intro E; inversion E; subst; contradiction).
      unfold H1, estep. simpl. rewrite !cell_wr_opd by assumption. apply (Hc (i', j')). right; exact Hp. }
    cbv zeta in *.
    split; [exact A1|]. split; [exact A2|].
    split; [intros l Hl; rewrite A3 by exact Hl; apply store_wr_other; exact Hl|].
    split.
    + intros p [E|Hp]; [|apply A4; exact Hp]. subst p. simpl.
      rewrite A5 by assumption. unfold H1, estep. simpl.
      rewrite cell_wr_same by assumption. rewrite !Z.eqb_refl. simpl. unfold eres. simpl.
      destruct (Hc (i, j)) as [Ca Cb]; [left; reflexivity|]. simpl in Ca, Cb. rewrite Ca, Cb. reflexivity.
    + intros i' j' Hr' Hn. rewrite A5; [|exact Hr'|intro Hp; apply Hn; right; exact Hp].
      unfold H1, estep. simpl. rewrite cell_wr_same by assumption.
      destruct ((i =? i') && (j =? j')) eqn:E; [|reflexivity].
      apply andb_prop in E. destruct E as [E1 E2]. apply Z.eqb_eq in E1, E2. subst. exfalso. apply Hn. left; reflexivity.
Qed.

Theorem mew_alias_safe :
  exists H', mEw real f H0 r a b = ROk H' /\
    (forall i j, in_range r i j -> mAT real H' r i j = ROk (ew_fun f (cell H0 a i j) (cell H0 b i j))) /\
    (forall l, l <> d_values r -> store_of H' l = store_of H0 l).
Proof.
  unfold mEw.
  assert (Ed : forall m : mat, k_dims real m = (d_rows m, d_cols m)) by (intro m; destruct real; reflexivity).
  assert (Dx : forall x, opd_ok H0 r x -> dims_eq real r x = true).
  { intros x Hx. unfold dims_eq. rewrite !Ed. destruct Hx as [->|(_ & _ & E1 & E2)]; [|rewrite E1, E2]; rewrite !Z.eqb_refl; reflexivity. }
  rewrite (Dx a Oa), (Dx b Ob). simpl.
  unfold mpos. rewrite Ed.
  destruct (foldR_ok (fun H => wfh H r /\ forall m', wfh H0 m' -> wfh H m')
              (fun H p => _ <- idx real r (fst p) (snd p) ;; x <- mAT real H a (fst p) (snd p) ;;
                          y <- mAT real H b (fst p) (snd p) ;; mSET real H r (fst p) (snd p) (ew_fun f x y))
              estep (positions (d_rows r) (d_cols r))) with (s := H0) as [E _]; auto.
  { intros H [i j] Hp [W K]. apply in_positions in Hp. assert (Hr : in_range r i j) by exact Hp. simpl.
    unfold idx. rewrite (k_index_some real r i j Hr). simpl.
    rewrite (mAT_ok real H a i j) by (auto using opd_wfh, opd_range). simpl.
    rewrite (mAT_ok real H b i j) by (auto using opd_wfh, opd_range). simpl.
    split; [apply mSET_ok; assumption|].
    assert (L : (d_values r < length H)%nat) by apply W.
    split; [apply wfh_wr; assumption|]. intros m' Wm. apply wfh_wr; [exact L|apply K; exact Wm]. }
  rewrite E.
  destruct (ew_loop (positions (d_rows r) (d_cols r)) H0) as [A1 [A2 [A3 [A4 A5]]]]; auto using NoDup_positions.
  { intros [i j] Hp. apply in_positions in Hp. exact Hp. }
  cbv zeta in *. eexists. split; [reflexivity|]. split.
  - intros i j Hr. rewrite mAT_ok by assumption. f_equal. apply (A4 (i, j)). apply in_positions. exact Hr.
  - exact A3.
Qed.
End Ewm.

(* a transposed view of an operand as receiver: wrong (decided by the model) *)
Lemma mew_transposed_refuted :
  let H := [[1; 2; 3; 4]; [0; 0; 0; 0]] in let a := new_mat 0 2 2 in let r := k_T false a in let b := new_mat 1 2 2 in
  exists H', mEw false 0 H r a b = ROk H' /\ read_all false H' r = ROk [1; 2; 2; 4].
Proof. vm_compute. eexists. split; reflexivity. Qed.
