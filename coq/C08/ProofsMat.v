(* C08/ProofsMat.v — the matrix product MdotM / MDOTM of coq/C10/Model.v
   ([mMdotM]: storageLocation() test as coded, column-buffered schedule when the
   receiver shares its backing array with the right factor, row-buffered
   otherwise) with the receiver aliasing a factor.

   Proved for all well-formed headers (any Slice / T view), all dimensions, all
   contents:  r == a (b in another backing array)  and  r == b (a in another
   backing array)  leave in r the product of the ORIGINAL matrices.
   Decided by the model with witnesses (vm_compute):  r == a == b,  r = b.T(),
   r = a.T(),  r == a with b a disjoint view of the same backing array,
   r an overlapping shifted view — all wrong. *)
From Coq Require Import ZArith List Bool Lia FinFun.
From ADV Require Import C10.Gen C10.Model C10.Spec C08.Spec.
Import ListNotations.
Open Scope Z_scope.

(* ---------------------------------------------------------------- lists *)
Lemma upd_length {X} (l : list X) n v : length (upd n v l) = length l.
Proof. revert n; induction l; intros [|n]; simpl; auto. Qed.
Lemma nth_upd_same {X} (l : list X) n v d : (n < length l)%nat -> nth n (upd n v l) d = v.
Proof. revert n; induction l; intros [|n] H; simpl in *; try lia; auto. apply IHl; lia. Qed.
Lemma nth_upd_other {X} (l : list X) n k v d : n <> k -> nth k (upd n v l) d = nth k l d.
Proof. revert n k; induction l; intros [|n] [|k] H; simpl; auto; try congruence. Qed.
Lemma in_zseq n x : In x (zseq n) <-> 0 <= x < n.
Proof.
  unfold zseq. rewrite in_map_iff. split.
  - intros [k [E Hk]]. apply in_seq in Hk. lia.
  - intros H. exists (Z.to_nat x). split; [lia|]. apply in_seq. lia.
Qed.
Lemma NoDup_zseq n : NoDup (zseq n).
Proof.
  unfold zseq. apply Injective_map_NoDup; [|apply seq_NoDup].
  intros a b E. lia.
Qed.

(* ---------------------------------------------------------------- monadic folds that cannot fail *)
Lemma foldR_ok {X S} (P : S -> Prop) (f : S -> X -> R S) (g : S -> X -> S) l :
  (forall s x, In x l -> P s -> f s x = ROk (g s x) /\ P (g s x)) ->
  forall s, P s -> foldR f l s = ROk (fold_left g l s) /\ P (fold_left g l s).
Proof.
  induction l as [|x l IH]; intros Hf s Hs; simpl; [auto|].
  destruct (Hf s x (or_introl eq_refl) Hs) as [E Hp]. rewrite E. simpl.
  apply IH; auto. intros s' y Hy. apply Hf. right; auto.
Qed.
Lemma mapR_ok {X Y} (f : X -> R Y) (g : X -> Y) l :
  (forall x, In x l -> f x = ROk (g x)) -> mapR f l = ROk (map g l).
Proof.
  induction l as [|x l IH]; intros Hf; simpl; [auto|].
  rewrite (Hf x (or_introl eq_refl)). simpl. rewrite IH; auto. intros y Hy. apply Hf. right; auto.
Qed.

(* ---------------------------------------------------------------- index *)
Section Idx.
Implicit Types h : mat.

Definition lidx h (i j : Z) : Z :=
  if d_transposed h then (d_colOffset h + j) * d_rowMax h + (d_rowOffset h + i)
  else (d_rowOffset h + i) * d_colMax h + (d_colOffset h + j).

Lemma k_index_some real h i j : in_range h i j -> k_index real h i j = Some (lidx h i j).
Proof.
  intros [Hi Hj]. unfold k_index, lidx.
  assert (E : DenseR.index h i j = DenseP.index h i j) by reflexivity.
  destruct real; rewrite ?E; unfold DenseP.index;
  replace (i <? 0) with false by (symmetry; apply Z.ltb_ge; lia);
  replace (j <? 0) with false by (symmetry; apply Z.ltb_ge; lia);
  replace (i >=? d_rows h) with false by (symmetry; rewrite Z.geb_leb; apply Z.leb_gt; lia);
  replace (j >=? d_cols h) with false by (symmetry; rewrite Z.geb_leb; apply Z.leb_gt; lia);
  simpl; destruct (d_transposed h); reflexivity.
Qed.

Lemma lidx_bounds len h i j : wf len h -> in_range h i j -> 0 <= lidx h i j < len.
Proof.
  intros (Hr & Hc & Hro & Hco & Hrm & Hcm & Hl) [Hi Hj]. unfold lidx. subst len.
  destruct (d_transposed h); nia.
Qed.

Lemma lidx_inj len h i j i' j' : wf len h -> in_range h i j -> in_range h i' j' ->
  lidx h i j = lidx h i' j' -> i = i' /\ j = j'.
Proof.
  intros (Hr & Hc & Hro & Hco & Hrm & Hcm & Hl) [Hi Hj] [Hi' Hj']. unfold lidx.
  destruct (d_transposed h); intro E.
  - assert (d_colOffset h + j = d_colOffset h + j') by nia. split; nia.
  - assert (d_rowOffset h + i = d_rowOffset h + i') by nia. split; nia.
Qed.
End Idx.

(* ---------------------------------------------------------------- pure cell semantics *)
Definition cell (H : heap) (m : mat) (i j : Z) : Z :=
  nth (Z.to_nat (lidx m i j)) (store_of H (d_values m)) 0.
Definition wr (H : heap) (m : mat) (i j v : Z) : heap :=
  set_store H (d_values m) (upd (Z.to_nat (lidx m i j)) v (store_of H (d_values m))).
(* the header is well formed over its storage, which exists *)
Definition wfh (H : heap) (m : mat) : Prop :=
  (d_values m < length H)%nat /\ wf (zlen (store_of H (d_values m))) m.

Lemma store_wr_same H m i j v : (d_values m < length H)%nat ->
  store_of (wr H m i j v) (d_values m) = upd (Z.to_nat (lidx m i j)) v (store_of H (d_values m)).
Proof. intro Hl. unfold wr, store_of, set_store. apply nth_upd_same. exact Hl. Qed.
Lemma store_wr_other H m i j v l : l <> d_values m -> store_of (wr H m i j v) l = store_of H l.
Proof. intro Hl. unfold wr, store_of, set_store. apply nth_upd_other. congruence. Qed.
Lemma length_wr H m i j v : length (wr H m i j v) = length H.
Proof. unfold wr, set_store. apply upd_length. Qed.
Lemma zlen_store_wr H m i j v l : (d_values m < length H)%nat ->
  zlen (store_of (wr H m i j v) l) = zlen (store_of H l).
Proof.
  intro Hl. destruct (Nat.eq_dec l (d_values m)) as [E|E].
  - subst l. rewrite store_wr_same by exact Hl. unfold zlen. rewrite upd_length. reflexivity.
  - rewrite store_wr_other by exact E. reflexivity.
Qed.
Lemma wfh_wr H m i j v m' : (d_values m < length H)%nat -> wfh H m' -> wfh (wr H m i j v) m'.
Proof. intros Hl [L W]. split; [rewrite length_wr; exact L|]. rewrite zlen_store_wr by exact Hl. exact W. Qed.

Lemma mAT_ok real H m i j : wfh H m -> in_range m i j -> mAT real H m i j = ROk (cell H m i j).
Proof.
  intros [L W] Hr. unfold mAT, idx. rewrite (k_index_some real m i j Hr). simpl.
  assert (B := lidx_bounds _ m i j W Hr). unfold get.
  replace (lidx m i j <? 0) with false by (symmetry; apply Z.ltb_ge; lia).
  replace (lidx m i j >=? zlen (store_of H (d_values m))) with false
    by (symmetry; rewrite Z.geb_leb; apply Z.leb_gt; lia).
  reflexivity.
Qed.
Lemma mSET_ok real H m i j v : wfh H m -> in_range m i j -> mSET real H m i j v = ROk (wr H m i j v).
Proof.
  intros [L W] Hr. unfold mSET, idx. rewrite (k_index_some real m i j Hr). simpl.
  assert (B := lidx_bounds _ m i j W Hr). unfold put.
  replace (lidx m i j <? 0) with false by (symmetry; apply Z.ltb_ge; lia).
  replace (lidx m i j >=? zlen (store_of H (d_values m))) with false
    by (symmetry; rewrite Z.geb_leb; apply Z.leb_gt; lia).
  reflexivity.
Qed.

Lemma cell_wr_same H m i j v i' j' : wfh H m -> in_range m i j -> in_range m i' j' ->
  cell (wr H m i j v) m i' j' = if (i =? i') && (j =? j') then v else cell H m i' j'.
Proof.
  intros [L W] Hr Hr'. unfold cell. rewrite store_wr_same by exact L.
  assert (B := lidx_bounds _ m i j W Hr).
  destruct ((i =? i') && (j =? j')) eqn:E.
  - apply andb_prop in E. destruct E as [E1 E2]. apply Z.eqb_eq in E1, E2. subst i' j'.
    apply nth_upd_same. unfold zlen in B. lia.
  - apply nth_upd_other. intro E'.
    assert (B' := lidx_bounds _ m i' j' W Hr').
    assert (E2 : lidx m i j = lidx m i' j') by lia.
    destruct (lidx_inj _ m i j i' j' W Hr Hr' E2) as [-> ->].
    rewrite !Z.eqb_refl in E. discriminate.
Qed.
Lemma cell_wr_other H m i j v m' i' j' : d_values m' <> d_values m -> cell (wr H m i j v) m' i' j' = cell H m' i' j'.
Proof. intro Hl. unfold cell. rewrite store_wr_other by exact Hl. reflexivity. Qed.

(* ---------------------------------------------------------------- the dot product *)
Lemma dotZ_ext (fa fb fa' fb' : Z -> Z -> Z) i j m1 :
  (forall k, 0 <= k < m1 -> fa i k = fa' i k) -> (forall k, 0 <= k < m1 -> fb k j = fb' k j) ->
  dotZ fa fb i j m1 = dotZ fa' fb' i j m1.
Proof.
  intros Ha Hb. unfold dotZ.
  assert (G : forall l t, (forall k, In k l -> 0 <= k < m1) ->
            fold_left (fun t k => t + fa i k * fb k j) l t = fold_left (fun t k => t + fa' i k * fb' k j) l t).
  { induction l as [|k l IH]; intros t Hl; simpl; [reflexivity|].
    rewrite Ha, Hb by (apply Hl; left; reflexivity). apply IH. intros k' Hk'. apply Hl. right; exact Hk'. }
  apply G. intros k Hk. apply in_zseq in Hk. exact Hk.
Qed.

Lemma dot_ok real H a b i j m1 :
  wfh H a -> wfh H b -> 0 <= i < d_rows a -> 0 <= j < d_cols b -> m1 = d_cols a -> m1 = d_rows b ->
  dot real H a b i j m1 = ROk (dotZ (cell H a) (cell H b) i j m1).
Proof.
  intros Wa Wb Hi Hj Ea Eb. unfold dot, dotZ.
  destruct (foldR_ok (fun _ : Z => True)
              (fun t2 k => x <- mAT real H a i k ;; y <- mAT real H b k j ;; ROk (t2 + x * y))
              (fun t k => t + cell H a i k * cell H b k j) (zseq m1)) with (s := 0) as [E _]; auto.
  intros t k Hk _. apply in_zseq in Hk. split; [|exact I].
  rewrite (mAT_ok real H a i k Wa) by (split; lia). simpl.
  rewrite (mAT_ok real H b k j Wb) by (split; lia). reflexivity.
Qed.

(* ---------------------------------------------------------------- one buffered line *)
(* writing a line of r: positions (pos o i), i in is, with values g i *)
Section Sched.
Variable r : mat.
Variable pos : Z -> Z -> Z * Z.          (* line o, element i |-> (row, column) of r *)

Definition wline (H : heap) (o : Z) (is : list Z) (g : Z -> Z) : heap :=
  fold_left (fun H i => wr H r (fst (pos o i)) (snd (pos o i)) (g i)) is H.

Definition pos_ok (os is : list Z) : Prop :=
  (forall o i, In o os -> In i is -> in_range r (fst (pos o i)) (snd (pos o i))) /\
  (forall o i o' i', In o os -> In i is -> In o' os -> In i' is -> pos o i = pos o' i' -> o = o' /\ i = i').

Lemma wline_spec os is_all : pos_ok os is_all -> forall is H o g,
  In o os -> incl is is_all -> NoDup is -> wfh H r ->
  let H' := wline H o is g in
  wfh H' r /\ length H' = length H /\
  (forall l, l <> d_values r -> store_of H' l = store_of H l) /\
  (forall m', wfh H m' -> wfh H' m') /\
  (forall i, In i is -> cell H' r (fst (pos o i)) (snd (pos o i)) = g i) /\
  (forall o' i', In o' os -> In i' is_all -> ~ (o' = o /\ In i' is) ->
     cell H' r (fst (pos o' i')) (snd (pos o' i')) = cell H r (fst (pos o' i')) (snd (pos o' i'))).
Proof.
  intros [Pr Pi]. induction is as [|i is IH]; intros H o g Ho Hin Hnd W; cbv zeta; simpl.
  - split; [exact W|]. split; [reflexivity|]. split; [reflexivity|]. split; [auto|]. split; [intros i []|reflexivity].
  - apply NoDup_cons_iff in Hnd. destruct Hnd as [Hni Hnd].
    assert (Hi : In i is_all) by (apply Hin; left; reflexivity).
    assert (Hin' : incl is is_all) by (intros x Hx; apply Hin; right; exact Hx).
    set (H1 := wr H r (fst (pos o i)) (snd (pos o i)) (g i)).
    assert (W1 : wfh H1 r) by (apply wfh_wr; [apply W|exact W]).
    destruct (IH H1 o g Ho Hin' Hnd W1) as [A1 [A2 [A3 [A4 [A5 A6]]]]]. cbv zeta in *.
    split; [exact A1|]. split; [rewrite A2; apply length_wr|].
    split; [intros l Hl; rewrite A3 by exact Hl; apply store_wr_other; exact Hl|].
    split; [intros m' Wm; apply A4; apply wfh_wr; [apply W|exact Wm]|].
    split.
    + intros i' [E|Hi'].
      * subst i'. rewrite A6; auto; [|intros [_ Hc]; contradiction].
        unfold H1. rewrite cell_wr_same by (auto; apply Pr; auto). rewrite !Z.eqb_refl. reflexivity.
      * apply A5. exact Hi'.
    + intros o' i' Ho' Hi' Hn. rewrite A6; auto.
      * unfold H1. rewrite cell_wr_same by (auto; apply Pr; auto).
        destruct ((fst (pos o i) =? fst (pos o' i')) && (snd (pos o i) =? snd (pos o' i'))) eqn:E; [|reflexivity].
        exfalso. apply andb_prop in E. destruct E as [E1 E2]. apply Z.eqb_eq in E1, E2.
        assert (Ep : pos o i = pos o' i') by (destruct (pos o i), (pos o' i'); simpl in *; congruence).
        destruct (Pi o i o' i' Ho Hi Ho' Hi' Ep) as [-> ->]. apply Hn. split; [reflexivity|left; reflexivity].
      * intros [Eo Hc]. apply Hn. split; [exact Eo|right; exact Hc].
Qed.

(* the whole schedule: for every line o, compute all of g H o . on the heap as it is when the
   line starts, then write the line *)
Variable g : heap -> Z -> Z -> Z.
Definition sched (os is : list Z) (H : heap) : heap :=
  fold_left (fun H o => wline H o is (g H o)) os H.

(* [g H o i] reads r only on line o, and anything outside r's backing array *)
Definition g_local (os is : list Z) : Prop :=
  forall H1 H2 o i, In o os -> In i is ->
    (forall i', In i' is -> cell H1 r (fst (pos o i')) (snd (pos o i')) = cell H2 r (fst (pos o i')) (snd (pos o i'))) ->
    (forall l, l <> d_values r -> store_of H1 l = store_of H2 l) ->
    g H1 o i = g H2 o i.

Lemma sched_spec os_all is : pos_ok os_all is -> NoDup is -> g_local os_all is -> forall H0 os H,
  incl os os_all -> NoDup os -> wfh H r ->
  (forall l, l <> d_values r -> store_of H l = store_of H0 l) ->
  (forall o i, In o os -> In i is ->
     cell H r (fst (pos o i)) (snd (pos o i)) = cell H0 r (fst (pos o i)) (snd (pos o i))) ->
  let H' := sched os is H in
  wfh H' r /\ length H' = length H /\
  (forall l, l <> d_values r -> store_of H' l = store_of H0 l) /\
  (forall m', wfh H m' -> wfh H' m') /\
  (forall o i, In o os -> In i is -> cell H' r (fst (pos o i)) (snd (pos o i)) = g H0 o i) /\
  (forall o i, In o os_all -> In i is -> ~ In o os ->
     cell H' r (fst (pos o i)) (snd (pos o i)) = cell H r (fst (pos o i)) (snd (pos o i))).
Proof.
  intros Pok Hndi Hloc H0. induction os as [|o os IH]; intros H Hin Hnd W Hst Hcell; cbv zeta; simpl.
  - split; [exact W|]. split; [reflexivity|]. split; [exact Hst|]. split; [auto|]. split; [intros o i []|reflexivity].
  - apply NoDup_cons_iff in Hnd. destruct Hnd as [Hno Hnd].
    assert (Ho : In o os_all) by (apply Hin; left; reflexivity).
    assert (Hin' : incl os os_all) by (intros x Hx; apply Hin; right; exact Hx).
    destruct (wline_spec os_all is Pok is H o (g H o) Ho (incl_refl _) Hndi W) as [B1 [B2 [B3 [B4 [B5 B6]]]]].
    cbv zeta in *. set (H1 := wline H o is (g H o)) in *.
    assert (Hg : forall i, In i is -> g H o i = g H0 o i).
    { intros i Hi. apply Hloc; auto. intros i' Hi'. apply Hcell; auto. left; reflexivity. }
    destruct (IH H1 Hin' Hnd B1) as [C1 [C2 [C3 [C4 [C5 C6]]]]].
    { intros l Hl. rewrite B3 by exact Hl. apply Hst. exact Hl. }
    { intros o' i' Ho' Hi'. rewrite B6; auto.
      - apply Hcell; auto. right; exact Ho'.
      - intros [E _]. subst o'. contradiction. }
    cbv zeta in *.
    split; [exact C1|]. split; [rewrite C2; exact B2|]. split; [exact C3|].
    split; [intros m' Wm; apply C4, B4; exact Wm|].
    split.
    + intros o' i' [E|Ho'] Hi'.
      * subst o'. rewrite C6; auto. rewrite B5 by exact Hi'. apply Hg. exact Hi'.
      * apply C5; auto.
    + intros o' i' Ho' Hi' Hn. rewrite (C6 o' i' Ho' Hi') by (intro Hc; apply Hn; right; exact Hc).
      apply B6; auto. intros [E _]. apply Hn. left. congruence.
Qed.
End Sched.

(* ---------------------------------------------------------------- the model's schedules are [sched] *)
Lemma combine_map_self {X Y} (f : X -> Y) l : combine l (map f l) = map (fun x => (x, f x)) l.
Proof. induction l; simpl; congruence. Qed.
Lemma fold_left_map {X Y S} (f : S -> Y -> S) (h : X -> Y) l s :
  fold_left f (map h l) s = fold_left (fun s x => f s (h x)) l s.
Proof. revert s; induction l; intros s; simpl; auto. Qed.

Definition rowpos (o i : Z) : Z * Z := (o, i).
Definition colpos (o i : Z) : Z * Z := (i, o).

Lemma rowpos_ok (r : mat) : pos_ok r rowpos (zseq (d_rows r)) (zseq (d_cols r)).
Proof.
  split.
  - intros o i Ho Hi. apply in_zseq in Ho, Hi. split; simpl; lia.
  - intros o i o' i' _ _ _ _ E. inversion E. auto.
Qed.
Lemma colpos_ok (r : mat) : pos_ok r colpos (zseq (d_cols r)) (zseq (d_rows r)).
Proof.
  split.
  - intros o i Ho Hi. apply in_zseq in Ho, Hi. split; simpl; lia.
  - intros o i o' i' _ _ _ _ E. inversion E. auto.
Qed.

(* row-buffered branch (receiver does not share the right factor's backing array) *)
Lemma row_branch_ok real (r a b : mat) m1 :
  d_rows a = d_rows r -> d_cols b = d_cols r -> m1 = d_cols a -> m1 = d_rows b ->
  forall os H, incl os (zseq (d_rows r)) -> wfh H r -> wfh H a -> wfh H b ->
  foldR (fun H i =>
      t3 <- mapR (fun j => dot real H a b i j m1) (zseq (d_cols r)) ;;
      foldR (fun H jt => mSET real H r i (fst jt) (snd jt)) (combine (zseq (d_cols r)) t3) H) os H
  = ROk (sched r rowpos (fun H i j => dotZ (cell H a) (cell H b) i j m1) os (zseq (d_cols r)) H).
Proof.
  intros Da Db Ea Eb. induction os as [|i os IH]; intros H Hin Wr Wa Wb; simpl; [reflexivity|].
  assert (Hi : 0 <= i < d_rows r) by (apply in_zseq, Hin; left; reflexivity).
  rewrite (mapR_ok _ (fun j => dotZ (cell H a) (cell H b) i j m1)).
  2:{ intros j Hj. apply in_zseq in Hj. apply dot_ok; auto; lia. }
  simpl. rewrite combine_map_self.
  set (gl := fun j => dotZ (cell H a) (cell H b) i j m1).
  destruct (foldR_ok (fun H' => wfh H' r /\ wfh H' a /\ wfh H' b)
              (fun H jt => mSET real H r i (fst jt) (snd jt)) (fun H jt => wr H r i (fst jt) (snd jt) )
              (map (fun x => (x, gl x)) (zseq (d_cols r)))) with (s := H) as [E [W1 [W2 W3]]]; auto.
  { intros H' [j v] Hjv [X1 [X2 X3]]. apply in_map_iff in Hjv. destruct Hjv as [j' [Ej Hj']]. inversion Ej; subst j' v.
    apply in_zseq in Hj'. simpl. split; [apply mSET_ok; auto; split; lia|].
    split; [|split]; apply wfh_wr; auto; apply X1. }
  unfold gl in *. cbv beta in E. rewrite E. simpl. rewrite fold_left_map in *. simpl in *.
  unfold sched at 1. simpl. unfold wline at 1. unfold rowpos at 1 2. simpl.
  apply IH; auto. intros x Hx. apply Hin. right; exact Hx.
Qed.

(* column-buffered branch (receiver shares the right factor's backing array) *)
Lemma col_branch_ok real (r a b : mat) m1 :
  d_rows a = d_rows r -> d_cols b = d_cols r -> m1 = d_cols a -> m1 = d_rows b ->
  forall os H, incl os (zseq (d_cols r)) -> wfh H r -> wfh H a -> wfh H b ->
  foldR (fun H j =>
      t3 <- mapR (fun i => dot real H a b i j m1) (zseq (d_rows r)) ;;
      foldR (fun H it => mSET real H r (fst it) j (snd it)) (combine (zseq (d_rows r)) t3) H) os H
  = ROk (sched r colpos (fun H j i => dotZ (cell H a) (cell H b) i j m1) os (zseq (d_rows r)) H).
Proof.
  intros Da Db Ea Eb. induction os as [|j os IH]; intros H Hin Wr Wa Wb; simpl; [reflexivity|].
  assert (Hj : 0 <= j < d_cols r) by (apply in_zseq, Hin; left; reflexivity).
  rewrite (mapR_ok _ (fun i => dotZ (cell H a) (cell H b) i j m1)).
  2:{ intros i Hi. apply in_zseq in Hi. apply dot_ok; auto; lia. }
  simpl. rewrite combine_map_self.
  set (gl := fun i => dotZ (cell H a) (cell H b) i j m1).
  destruct (foldR_ok (fun H' => wfh H' r /\ wfh H' a /\ wfh H' b)
              (fun H it => mSET real H r (fst it) j (snd it)) (fun H it => wr H r (fst it) j (snd it))
              (map (fun x => (x, gl x)) (zseq (d_rows r)))) with (s := H) as [E [W1 [W2 W3]]]; auto.
  { intros H' [i v] Hiv [X1 [X2 X3]]. apply in_map_iff in Hiv. destruct Hiv as [i' [Ei Hi']]. inversion Ei; subst i' v.
    apply in_zseq in Hi'. simpl. split; [apply mSET_ok; auto; split; lia|].
    split; [|split]; apply wfh_wr; auto; apply X1. }
  unfold gl in *. cbv beta in E. rewrite E. simpl. rewrite fold_left_map in *. simpl in *.
  unfold sched at 1. simpl. unfold wline at 1. unfold colpos at 1 2. simpl.
  apply IH; auto. intros x Hx. apply Hin. right; exact Hx.
Qed.

Lemma storage_location_ok H m : wfh H m -> 0 < d_rows m -> 0 < d_cols m -> storage_location H m = ROk (d_values m).
Proof.
  intros [L (Hr & Hc & Hro & Hco & Hrm & Hcm & Hl)] Pr Pc. unfold storage_location.
  replace (zlen (store_of H (d_values m)) =? 0) with false; [reflexivity|].
  symmetry. apply Z.eqb_neq. nia.
Qed.

(* ---------------------------------------------------------------- r == a *)
Theorem mdotm_r_is_a real (H : heap) (r b : mat) :
  wfh H r -> wfh H b -> d_values r <> d_values b ->
  d_rows b = d_cols r -> d_cols b = d_cols r -> 0 < d_rows r -> 0 < d_cols r ->
  exists H', mMdotM real H r r b = ROk H' /\
    (forall i j, in_range r i j -> mAT real H' r i j = ROk (dotZ (cell H r) (cell H b) i j (d_cols r))) /\
    (forall l, l <> d_values r -> store_of H' l = store_of H l).
Proof.
  intros Wr Wb Hl Eb1 Eb2 Pr Pc. unfold mMdotM.
  assert (Ed : forall m : mat, k_dims real m = (d_rows m, d_cols m)) by (intro m; destruct real; reflexivity).
  rewrite !Ed. rewrite !Z.eqb_refl. rewrite Eb2, Z.eqb_refl. rewrite <- Eb1, Z.eqb_refl. simpl.
  rewrite (storage_location_ok H r Wr Pr Pc), (storage_location_ok H b Wb) by lia. simpl.
  destruct (Nat.eqb_spec (d_values r) (d_values b)) as [E|_]; [contradiction|].
  rewrite Eb1.
  rewrite (row_branch_ok real r r b (d_cols r)) by (auto using incl_refl).
  set (g := fun H i j => dotZ (cell H r) (cell H b) i j (d_cols r)).
  destruct (sched_spec r rowpos g (zseq (d_rows r)) (zseq (d_cols r)) (rowpos_ok r) (NoDup_zseq _)) with
    (H0 := H) (os := zseq (d_rows r)) (H := H) as [C1 [C2 [C3 [C4 [C5 C6]]]]]; auto using incl_refl, NoDup_zseq.
  { (* locality: entry (i,j) of the product reads row i of r and b only *)
    intros H1 H2 i j Hi Hj Hrow Hoth. unfold g. apply dotZ_ext.
    - intros k Hk. apply (Hrow k). apply in_zseq. exact Hk.
    - intros k Hk. unfold cell. rewrite Hoth by congruence. reflexivity. }
  cbv zeta in *. eexists. split; [reflexivity|]. split.
  - intros i j [Hi Hj]. rewrite mAT_ok by (auto; split; auto).
    f_equal. apply (C5 i j); apply in_zseq; auto.
  - exact C3.
Qed.

(* ---------------------------------------------------------------- r == b *)
Theorem mdotm_r_is_b real (H : heap) (r a : mat) :
  wfh H r -> wfh H a -> d_values r <> d_values a ->
  d_rows a = d_rows r -> d_cols a = d_rows r -> 0 < d_rows r -> 0 < d_cols r ->
  exists H', mMdotM real H r a r = ROk H' /\
    (forall i j, in_range r i j -> mAT real H' r i j = ROk (dotZ (cell H a) (cell H r) i j (d_rows r))) /\
    (forall l, l <> d_values r -> store_of H' l = store_of H l).
Proof.
  intros Wr Wa Hl Ea1 Ea2 Pr Pc. unfold mMdotM.
  assert (Ed : forall m : mat, k_dims real m = (d_rows m, d_cols m)) by (intro m; destruct real; reflexivity).
  rewrite !Ed. rewrite Ea1, Ea2, !Z.eqb_refl. simpl.
  rewrite (storage_location_ok H r Wr Pr Pc). simpl. rewrite Nat.eqb_refl.
  rewrite (col_branch_ok real r a r (d_rows r)) by (auto using incl_refl).
  set (g := fun H j i => dotZ (cell H a) (cell H r) i j (d_rows r)).
  destruct (sched_spec r colpos g (zseq (d_cols r)) (zseq (d_rows r)) (colpos_ok r) (NoDup_zseq _)) with
    (H0 := H) (os := zseq (d_cols r)) (H := H) as [C1 [C2 [C3 [C4 [C5 C6]]]]]; auto using incl_refl, NoDup_zseq.
  { (* locality: entry (i,j) of the product reads a and column j of r only *)
    intros H1 H2 j i Hj Hi Hcol Hoth. unfold g. apply dotZ_ext.
    - intros k Hk. unfold cell. rewrite Hoth by congruence. reflexivity.
    - intros k Hk. apply (Hcol k). apply in_zseq. exact Hk. }
  cbv zeta in *. eexists. split; [reflexivity|]. split.
  - intros i j [Hi Hj]. rewrite mAT_ok by (auto; split; auto).
    f_equal. apply (C5 j i); apply in_zseq; auto.
  - exact C3.
Qed.

(* ---------------------------------------------------------------- decided by the model: wrong *)
Definition prod_of (H : heap) (a b : mat) : list Z :=
  map (fun p => dotZ (cell H a) (cell H b) (fst p) (snd p) (d_cols a)) (positions (d_rows a) (d_cols b)).
Definition result_of (real : bool) (H : heap) (r a b : mat) : option (list Z) :=
  match mMdotM real H r a b with
  | ROk H' => match read_all real H' r with ROk l => Some l | _ => None end
  | _ => None
  end.

(* r.MdotM(r, r) *)
Lemma mdotm_rr_refuted :
  let H := [[1; 2; 3; 4]] in let r := new_mat 0 2 2 in
  result_of false H r r r = Some [7; 22; 15; 46] /\ prod_of H r r = [7; 10; 15; 22].
Proof. vm_compute. split; reflexivity. Qed.

(* r = b.T():  r.MdotM(a, b) *)
Lemma mdotm_rbT_refuted :
  let H := [[1; 2; 3; 4]; [1; 1; 0; 1]] in let b := new_mat 0 2 2 in let r := k_T false b in let a := new_mat 1 2 2 in
  exists l, result_of false H r a b = Some l /\ l <> prod_of H a b.
Proof. vm_compute. eexists. split; [reflexivity|discriminate]. Qed.

(* r = a.T():  r.MdotM(a, b) *)
Lemma mdotm_raT_refuted :
  let H := [[1; 2; 3; 4]; [1; 2; 1; 1]] in let a := new_mat 0 2 2 in let r := k_T false a in let b := new_mat 1 2 2 in
  exists l, result_of false H r a b = Some l /\ l <> prod_of H a b.
Proof. vm_compute. eexists. split; [reflexivity|discriminate]. Qed.

(* r == a, b a DISJOINT view of the same backing array: the column-buffered schedule is chosen *)
Lemma mdotm_ra_bsame_refuted :
  let H := [[1; 2; 3; 4; 1; 2; 1; 1]] in let p := new_mat 0 4 2 in
  let r := k_slice false p 0 2 0 2 in let b := k_slice false p 2 4 0 2 in
  exists l, result_of false H r r b = Some l /\ l <> prod_of H r b.
Proof. vm_compute. eexists. split; [reflexivity|discriminate]. Qed.

(* the same three calls with every matrix in its own backing array are right *)
Lemma mdotm_separate_ok :
  let H := [[1; 2; 3; 4]; [1; 1; 0; 1]; [0; 0; 0; 0]] in
  let a := new_mat 0 2 2 in let b := new_mat 1 2 2 in let r := new_mat 2 2 2 in
  result_of false H r a b = Some (prod_of H a b).
Proof. vm_compute. reflexivity. Qed.
