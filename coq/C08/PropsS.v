(* C08 — results do not depend on the receiver aliasing an operand: SPARSE containers (and the
   identical-vector / empty-vector cases of the dense MdotV / VdotM guard).  Statements only;
   proofs in ProofsSparse.v, ProofsSparseCite.v, ProofsVecSelf.v.

   Models (imported, not forked): sparse vectors ADV.C11.Model (heap of cells, private value map,
   ordered index, AT = [at_] INSERTS a missing entry), vector / matrix operations ADV.C03.Model /
   ADV.C03.ModelM ([step3] / [step4]; element type [y]: float, integer or Real instantiations — the
   nine Go types), tied to /repo by C08.CorrS (stream "sp").  [same_obs w w']: nothing was created
   and every object of the world reads as before at every index (C08.SpecS); the private stored
   pattern may differ (AT(0) leaves an explicit zero behind).

   The property's clause: aliasing gives the fresh-receiver result OR is rejected with a panic.
   (a) rejected: sparse MdotV / VdotM with r the vector operand, sparse MdotM with r = a or r = b —
       for EVERY world, i.e. every stored pattern of r (nothing stored at index 0, an explicit zero
       at 0, nothing stored at all, ...), every other operand, every element type;
   (b) not rejected: the sparse element-wise operations with r = a, r = b, r = a = b, and the
       products on distinct operands: any two receivers agree (corollaries of C03's theorems). *)
From Coq Require Import ZArith List Bool Lia.
From ADV Require Import C11.Model C03.Model C03.ModelM C03.Spec C03.SpecM C03.ProofsM C03.ProofsOps C03.ProofsAlias2
  C08.ModelS C08.SpecS C08.ProofsSparse C08.ProofsSparseCite.
From ADV Require C10.Gen C10.Model C08.Model C08.ProofsVecSelf.
Import ListNotations.
Open Scope Z_scope.

(* ------------------------------------------------------------------ (a) rejected aliasing *)
(* r.MdotV(A, r): Panic — or r is the EMPTY vector (n = m = 0: the guard sits behind
   `if n == 0 || m == 0 { return r }`; nothing is computed, the world is literally unchanged) — and
   the world reads as before *)
Theorem sparse_mdotv_receiver_is_operand_rejected : forall y w t a,
  let r := step4 y w (MdotV (RS t) a (RS t)) in
  (kind_of r = K_PANIC \/ (snd r = (K_OK, []) /\ fst r = w /\ vlen w (RS t) = 0)) /\ same_obs w (fst r).
Proof. exact sparse_mdotv_self. Qed.
Theorem sparse_vdotm_receiver_is_operand_rejected : forall y w t b,
  let r := step4 y w (VdotM (RS t) (RS t) b) in
  (kind_of r = K_PANIC \/ (snd r = (K_OK, []) /\ fst r = w /\ vlen w (RS t) = 0)) /\ same_obs w (fst r).
Proof. exact sparse_vdotm_self. Qed.
(* in range the guard is reached and fires *)
Theorem sparse_mdotv_receiver_is_operand_panics : forall y w t a n,
  mdims w a = (n, n) -> vlen w (RS t) = n -> 0 < n -> kind_of (step4 y w (MdotV (RS t) a (RS t))) = K_PANIC.
Proof. exact sparse_mdotv_self_panics. Qed.
Theorem sparse_vdotm_receiver_is_operand_panics : forall y w t b n,
  mdims w b = (n, n) -> vlen w (RS t) = n -> 0 < n -> kind_of (step4 y w (VdotM (RS t) (RS t) b)) = K_PANIC.
Proof. exact sparse_vdotm_self_panics. Qed.
(* "reads as before" is what a caller can observe through the public API *)
Theorem same_obs_is_public_equality : forall w w', same_obs w w' -> pub_world w' = pub_world w.
Proof. exact same_obs_public. Qed.

(* WHY it is rejected in every state: at the level of cells the guard r.AT(0) == b.ConstAt(0) with r == b
   is true for every stored pattern, BECAUSE AT(0) inserts the entry it then compares ... *)
Theorem alias_guard_fires_for_every_stored_pattern : forall w t, 0 < dim (getv w t) ->
  exists w', guard_ins w t t = Some (w', true) /\
             (forall u k, peek (hp w') (getv w' u) k = peek (hp w) (getv w u) k) /\
             (forall u, dim (getv w' u) = dim (getv w u)).
Proof. exact guard_ins_self. Qed.
(* ... with the non-inserting accessor (r.AT_(0) == b.ConstAt(0)) it misses r == b whenever nothing is stored
   at index 0: the regression this section was written for *)
Theorem alias_guard_without_insertion_refuted : forall w t,
  lookup 0 (vals (getv w t)) = None -> guard_noins w t t = false.
Proof. exact guard_noins_misses. Qed.
Example alias_guard_without_insertion_witness :    (* r = 4:[1:2, 3:5] *)
  let w := fst (step init (New [1; 3] [2; 5] 4)) in
  guard_noins w 0 0 = false /\ (exists w', guard_ins w 0 0 = Some (w', true)) /\
  kind_of (step4 TFloat (fst (step4 TFloat (fst (step4 TFloat init4 (V (NewS [1; 3] [2; 5] 4))))
                                    (NewDM [1; 2; 0; 1; 0; 1; 3; 0; 2; 0; 1; 1; 1; 1; 0; 2] 4 4)))
                 (MdotV (RS 0) (XD 0) (RS 0))) = K_PANIC.
Proof. cbv zeta. split; [reflexivity|]. split; [eexists; vm_compute; reflexivity|vm_compute; reflexivity]. Qed.
(* distinct vectors that do not share the cell of entry 0 are never rejected *)
Theorem alias_guard_silent_on_distinct_vectors : forall w t u w' b, u <> t ->
  (forall l, lookup 0 (vals (getv w u)) = Some l -> (l < length (hp w))%nat /\ lookup 0 (vals (getv w t)) <> Some l) ->
  guard_ins w t u = Some (w', b) -> b = false.
Proof. exact guard_ins_distinct. Qed.

(* sparse MdotM: r.storageLocation() == a.storageLocation() || ... == b.storageLocation(); storageLocation() is
   values.AT(0) (inserts; panics on an empty matrix): ALWAYS Panic, world reads as before *)
Theorem sparse_mdotm_receiver_is_left_factor_rejected : forall y w k b,
  let r := step4 y w (MdotM (XS k) (XS k) b) in kind_of r = K_PANIC /\ same_obs w (fst r).
Proof. exact sparse_mdotm_r_is_a. Qed.
Theorem sparse_mdotm_receiver_is_right_factor_rejected : forall y w k a,
  let r := step4 y w (MdotM (XS k) a (XS k)) in kind_of r = K_PANIC /\ same_obs w (fst r).
Proof. exact sparse_mdotm_r_is_b. Qed.

(* the same model's whole DENSE vectors (identity = the handle), the empty vector included *)
Theorem dense_mdotv_receiver_is_operand_rejected : forall y w k a,
  let r := step4 y w (MdotV (RD k) a (RD k)) in
  (kind_of r = K_PANIC \/ (snd r = (K_OK, []) /\ vlen w (RD k) = 0)) /\ fst r = w.
Proof. exact dense_mdotv_self. Qed.
Theorem dense_vdotm_receiver_is_operand_rejected : forall y w k b,
  let r := step4 y w (VdotM (RD k) (RD k) b) in
  (kind_of r = K_PANIC \/ (snd r = (K_OK, []) /\ vlen w (RD k) = 0)) /\ fst r = w.
Proof. exact dense_vdotm_self. Qed.
(* dense vectors as SLICES of shared storage (C08.Model on the C10 heap; first-element identity): receiver and
   operand the same slice, ALL lengths — on the empty vector the guard is not evaluated (AT(0) would be out of
   range) and the call returns with the heap untouched *)
Theorem dense_slice_mdotv_identical_rejected : forall real H r a,
  C08.Model.vMdotV real H r a r = C10.Model.RPanic \/
  (C08.Model.vMdotV real H r a r = C10.Model.ROk H /\ C08.Model.v_len r = 0).
Proof. exact C08.ProofsVecSelf.dense_mdotv_identical. Qed.
Theorem dense_slice_vdotm_identical_rejected : forall real H r b,
  C08.Model.vVdotM real H r r b = C10.Model.RPanic \/
  (C08.Model.vVdotM real H r r b = C10.Model.ROk H /\ C08.Model.v_len r = 0).
Proof. exact C08.ProofsVecSelf.dense_vdotm_identical. Qed.

(* ------------------------------------------------------------------ (b) aliasing that is not rejected; distinct operands *)
(* r.VaddV / VsubV / VmulV (a, b) with a, b ANY vectors of r's dimension (RS t itself included: r = a, r = b,
   r = a = b) against any other receiver t' — cites C03.PropsR2.aliased_receiver_elementwise *)
Theorem sparse_elementwise_aliased_equals_fresh : forall y f w t t' a b,
  Good3 w t -> Good3 w t' -> operand3a w t a -> operand3a w t b -> operand3a w t' a -> operand3a w t' b ->
  snd (step3 y w (VopV f (RS t) a b)) = (K_OK, []) /\ snd (step3 y w (VopV f (RS t') a b)) = (K_OK, []) /\
  abs3 (fst (step3 y w (VopV f (RS t) a b))) (RS t) = abs3 (fst (step3 y w (VopV f (RS t') a b))) (RS t').
Proof. exact sparse_elementwise_alias_vs_fresh. Qed.
(* products on operands stored elsewhere: every coherent prior state of the receiver gives the same result —
   cites C03.PropsM.sparse_vector_mdotv / sparse_vector_vdotm / sparse_matrix_mdotm *)
Theorem sparse_mdotv_distinct_operands_receiver_independent : forall y w t t' a b n m,
  Good (sw (b3 w)) t -> Good (sw (b3 w)) t' -> mwf w a -> mother w t a -> mother w t' a ->
  vwf w b -> vother t b -> vother t' b ->
  mdims w a = (n, m) -> vlen w (RS t) = n -> vlen w (RS t') = n -> vlen w b = m -> 0 < n -> 0 < m ->
  ok_out4 (step4 y w (MdotV (RS t) a b)) /\ ok_out4 (step4 y w (MdotV (RS t') a b)) /\
  abs3 (b3 (fst (step4 y w (MdotV (RS t) a b)))) (RS t) = abs3 (b3 (fst (step4 y w (MdotV (RS t') a b)))) (RS t').
Proof. exact sparse_mdotv_receiver_independent. Qed.
Theorem sparse_vdotm_distinct_operands_receiver_independent : forall y w t t' a b n m,
  Good (sw (b3 w)) t -> Good (sw (b3 w)) t' -> vwf w a -> vother t a -> vother t' a ->
  mwf w b -> mother w t b -> mother w t' b ->
  mdims w b = (n, m) -> vlen w (RS t) = m -> vlen w (RS t') = m -> vlen w a = n -> 0 < n -> 0 < m ->
  ok_out4 (step4 y w (VdotM (RS t) a b)) /\ ok_out4 (step4 y w (VdotM (RS t') a b)) /\
  abs3 (b3 (fst (step4 y w (VdotM (RS t) a b)))) (RS t) = abs3 (b3 (fst (step4 y w (VdotM (RS t') a b)))) (RS t').
Proof. exact sparse_vdotm_receiver_independent. Qed.
Theorem sparse_mdotm_distinct_operands_receiver_independent : forall y w k k' a b n m p,
  GoodM w k -> GoodM w k' -> mwf w a -> mwf w b ->
  mother w (mvec w k) a -> mother w (mvec w k) b -> mother w (mvec w k') a -> mother w (mvec w k') b ->
  mdims w (XS k) = (n, p) -> mdims w (XS k') = (n, p) -> mdims w a = (n, m) -> mdims w b = (m, p) ->
  0 < n -> 0 < m -> 0 < p ->
  ok_out4 (step4 y w (MdotM (XS k) a b)) /\ ok_out4 (step4 y w (MdotM (XS k') a b)) /\
  mabs (fst (step4 y w (MdotM (XS k) a b))) (XS k) = mabs (fst (step4 y w (MdotM (XS k') a b))) (XS k').
Proof. exact sparse_mdotm_receiver_independent. Qed.

(* Not proved (correspondence stream "sp" + hunt only): sparse_matrix_elementwise_alias_partial — MaddM / MsubM /
   MmulM with a sparse matrix receiver among its operands (C03 proves the element-wise MATRIX operations for operands
   stored elsewhere only; the aliased runs are replayed by the model for every stored pattern and element type, and
   the hunt compares them with a fresh receiver); sparse vectors that SHARE cells without being the same object
   (r = b.Slice(..): known finding C11-SLICEWT territory) are outside this section. *)
