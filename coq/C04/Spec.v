(* C04 — abstract specification: what "satisfy their defining equations" means.
   Everything is stated over an ARBITRARY field K (record [fld]: carrier,
   operations and Coq's [field_theory] for Leibniz equality).  The model of
   Model.v is instantiated at K through [NumK]; absolute value, the comparison
   used for pivoting and sqrt are arbitrary functions (the theorems hold for
   every pivoting rule), [is_nan] is constantly false (a field has no NaN), so
   over K the singular exits never fire and "no pivot is zero" is a hypothesis
   about the ghost pivot log [gj_pivots]. *)
From Coq Require Import List Bool Arith ZArith Field Permutation.
From ADV Require Import Base.Num C04.Model.
Import ListNotations.

Record fld := mkFld {
  F :> Type;
  f0 : F; f1 : F;
  fadd : F -> F -> F; fmul : F -> F -> F; fsub : F -> F -> F; fopp : F -> F;
  fdiv : F -> F -> F; finv : F -> F;
  Fth : field_theory f0 f1 fadd fmul fsub fopp fdiv finv (@eq F);
  (* uninterpreted: any pivoting order / sqrt *)
  fabs : F -> F; fsqrt : F -> F; fltb : F -> F -> bool; fleb : F -> F -> bool; feqb : F -> F -> bool;
  fofZ : Z -> F
}.

Definition NumK (K : fld) : Num K :=
  mkNum K (f0 K) (f1 K) (fadd K) (fsub K) (fmul K) (fdiv K) (fopp K) (fabs K) (fsqrt K)
        (fltb K) (fleb K) (feqb K) (fofZ K) (fun _ => false).

Section Spec.
Variable K : fld.
Notation N := (NumK K).

(* shapes *)
Definition wf_vec (n : nat) (v : list K) : Prop := length v = n.
Definition wf_mat (n : nat) (m : list (list K)) : Prop := length m = n /\ Forall (fun r => length r = n) m.
Definition wf_st (n : nat) (s : st (A:=K)) : Prop := wf_mat n (sa s) /\ wf_mat n (sx s) /\ wf_vec n (sb s).

(* permutations of 0..n-1 as index lists *)
Definition is_perm (n : nat) (p : list nat) : Prop := Permutation p (seq 0 n).

(* sums over an index list *)
Fixpoint sumL (ks : list nat) (f : nat -> K) : K :=
  match ks with [] => f0 K | k :: r => fadd K (f k) (sumL r f) end.
Fixpoint prodL (ks : list nat) (f : nat -> K) : K :=
  match ks with [] => f1 K | k :: r => fmul K (f k) (prodL r f) end.

Definition delta (i j : nat) : K := if Nat.eqb i j then f1 K else f0 K.
(* (A * X)[i,j] restricted to the selected indices S = idxs msk 0 n *)
Definition mulS (ks : list nat) (a x : list (list K)) (i j : nat) : K :=
  sumL ks (fun k => fmul K (mget N a i k) (mget N x k j)).
Definition mulSv (ks : list nat) (a : list (list K)) (x : list K) (i : nat) : K :=
  sumL ks (fun k => fmul K (mget N a i k) (vget N x k)).

(* the defining equations of gaussJordan.Run(a, x, b, Submatrix{msk}) on the
   selected sub-matrix: A_S * x' = x0_S, A_S * b' = b0_S, a' = I_S, and the rows
   outside the selection are untouched *)
Definition gj_spec (n : nat) (msk : list bool) (s0 s' : st (A:=K)) : Prop :=
  let S := idxs msk 0 n in
  (forall i j, In i S -> In j S -> mulS S (sa s0) (sx s') i j = mget N (sx s0) i j) /\
  (forall i, In i S -> mulSv S (sa s0) (sb s') i = vget N (sb s0) i) /\
  (forall i j, In i S -> In j S -> mget N (sa s') i j = delta i j) /\
  (forall i, i < n -> sel msk i = false ->
       row (sa s') i = row (sa s0) i /\ row (sx s') i = row (sx s0) i /\ vget N (sb s') i = vget N (sb s0) i).

(* triangular shapes *)
Definition upper_tri (n : nat) (a : list (list K)) : Prop :=
  forall i j, j < i -> i < n -> mget N a i j = f0 K.
Definition lower_tri (n : nat) (a : list (list K)) : Prop :=
  forall i j, i < j -> j < n -> mget N a i j = f0 K.
Definition diag_nonzero (n : nat) (a : list (list K)) : Prop :=
  forall i, i < n -> mget N a i i <> f0 K.

(* the determinant: Laplace expansion along the first row, det of the empty matrix = 1 *)
Definition sgn (j : nat) (x : K) : K := if Nat.even j then x else fopp K x.
Fixpoint det_laplace (n : nat) (a : list (list K)) : K :=
  match n with
  | O => f1 K
  | S n' => sumL (seq 0 n) (fun j => sgn j (fmul K (mget N a 0 j) (det_laplace n' (minor0 a j))))
  end.

(* zero row / zero column / identical rows inside the selection *)
Definition zero_row (S : list nat) (a : list (list K)) (r : nat) : Prop :=
  In r S /\ forall k, In k S -> mget N a r k = f0 K.
Definition zero_col (S : list nat) (a : list (list K)) (c : nat) : Prop :=
  In c S /\ forall k, In k S -> mget N a k c = f0 K.
Definition same_rows (S : list nat) (a : list (list K)) (r1 r2 : nat) : Prop :=
  In r1 S /\ In r2 S /\ r1 <> r2 /\ forall k, In k S -> mget N a r1 k = mget N a r2 k.

End Spec.

(* ------------------------------------------------------------------ round 2: the full contract of gaussJordan.Run *)
Section Spec2.
Variable K : fld.
Notation N := (NumK K).

(* [gj_spec] plus what the code does with everything [gj_spec] leaves open:
   - the result is well-shaped;
   - QUIRK: the entries (r, k) of a and x with r selected and k NOT selected are never
     read or written by the elimination, but the final row gather "row r := row p[r]" (p the
     accumulated pivot permutation, which fixes the unselected rows) moves them along with
     their rows: a'[r,k] = a0[p[r],k], x'[r,k] = x0[p[r],k];
   - when x0 is the identity on the selection, x' is also a LEFT inverse: x'_S * A_S = I_S. *)
Definition gj_spec_full (n : nat) (msk : list bool) (p : list nat) (s0 s' : st (A:=K)) : Prop :=
  let S := idxs msk 0 n in
  wf_st K n s' /\
  gj_spec K n msk s0 s' /\
  (forall r k, In r S -> k < n -> sel msk k = false ->
      mget N (sa s') r k = mget N (sa s0) (pget p r) k /\ mget N (sx s') r k = mget N (sx s0) (pget p r) k) /\
  ((forall i j, In i S -> In j S -> mget N (sx s0) i j = delta K i j) ->
     forall i j, In i S -> In j S -> mulS K S (sx s') (sa s0) i j = delta K i j).

(* upper triangular / non-zero diagonal restricted to the selection *)
Definition upper_tri_S (S : list nat) (a : list (list K)) : Prop :=
  forall r c, In r S -> In c S -> c < r -> mget N a r c = f0 K.
Definition diag_nonzero_S (S : list nat) (a : list (list K)) : Prop :=
  forall c, In c S -> mget N a c c <> f0 K.

(* X is the inverse of the selected block of m (both sides), the identity elsewhere:
   the contract of matrixInverse.Run(m, Submatrix{msk}) *)
Definition inv_spec (n : nat) (msk : list bool) (m X : list (list K)) : Prop :=
  let S := idxs msk 0 n in
  wf_mat K n X /\
  (forall i j, In i S -> In j S -> mulS K S m X i j = delta K i j) /\
  (forall i j, In i S -> In j S -> mulS K S X m i j = delta K i j) /\
  (forall i, i < n -> sel msk i = false -> row X i = row (ident N n) i) /\
  (forall r k, In r S -> k < n -> sel msk k = false -> mget N X r k = f0 K).

(* the mask selects exactly a leading block 0..q-1 *)
Definition prefix_mask (n q : nat) (msk : list bool) : Prop :=
  q <= n /\ forall k, k < n -> sel msk k = (k <? q).

End Spec2.

(* ------------------------------------------------------------------ round 2: a NaN-aware carrier over a field *)
(* option K: [None] stands for every non-finite value (NaN and the infinities are not
   distinguished); x / 0 = None, None is absorbing for + - * /, comparisons with None are false,
   and [is_nan None = true] — so on this carrier the model's "computationally singular" exits
   are live, as they are on binary64.  [isz] is a decision procedure for x = 0. *)
Section SpecNaN.
Variable K : fld.
Variable isz : K -> bool.

Definition olift2 (f : K -> K -> K) (a b : option K) : option K :=
  match a, b with Some x, Some y => Some (f x y) | _, _ => None end.
Definition odiv (a b : option K) : option K :=
  match a, b with Some x, Some y => if isz y then None else Some (fdiv K x y) | _, _ => None end.
Definition ocmp (f : K -> K -> bool) (a b : option K) : bool :=
  match a, b with Some x, Some y => f x y | _, _ => false end.

Definition NumO : Num (option K) :=
  mkNum (option K) (Some (f0 K)) (Some (f1 K)) (olift2 (fadd K)) (olift2 (fsub K)) (olift2 (fmul K)) odiv
        (option_map (fopp K)) (option_map (fabs K)) (option_map (fsqrt K))
        (ocmp (fltb K)) (ocmp (fleb K)) (ocmp (feqb K))
        (fun z => Some (fofZ K z)) (fun a => match a with None => true | Some _ => false end).

(* embedding of finite data *)
Definition lv (v : list K) : list (option K) := map Some v.
Definition lm (m : list (list K)) : list (list (option K)) := map lv m.
Definition lst (s : st (A:=K)) : st (A:=option K) := mkSt (lm (sa s)) (lm (sx s)) (lv (sb s)).

(* both outputs are visibly damaged: some entry of rows < n of x is non-finite, and so is
   some entry of b *)
Definition nonfinite (n : nat) (s : st (A:=option K)) : Prop :=
  (exists r k, r < n /\ mget NumO (sx s) r k = None) /\
  (exists r, r < n /\ vget NumO (sb s) r = None).

End SpecNaN.
