(* C04 — Gauss-Jordan: row-operation invariant.
   Every step of the model is an elementary row operation on the selected
   sub-matrix whose inverse is again a row operation, so any y solving the
   current system [a | rhs] solves the original one ("imp"); the shape
   invariants (zeros below / above the pivots) give a' = I at the end. *)
From Coq Require Import List Bool Arith Lia Field Permutation.
From ADV Require Import Base.Num C04.Model C04.Spec C04.ProofsList C04.ProofsDet C04.ProofsPerm.
Import ListNotations.

Section GJ.
Variable K : fld.
Add Field KF3 : (Fth K).
Notation N := (NumK K).
Notation "0" := (f0 K). Notation "1" := (f1 K).
Infix "+" := (fadd K). Infix "*" := (fmul K). Infix "-" := (fsub K). Infix "/" := (fdiv K).

(* ------------------------------------------------------------------ pointwise loops over selected columns *)
Definition pmap (g : nat -> K -> K) (ks : list nat) (r : list K) : list K :=
  fold_left (fun r k => upd r k (g k (vget N r k))) ks r.

Lemma pmap_cons g k t r : pmap g (k :: t) r = pmap g t (upd r k (g k (vget N r k))).
Proof. reflexivity. Qed.

Lemma pmap_length g ks r : length (pmap g ks r) = length r.
Proof. revert r; induction ks as [|k t IH]; intros r; [reflexivity|]. rewrite pmap_cons, IH, length_upd. auto. Qed.

Lemma pmap_notin g ks r k : ~ In k ks -> vget N (pmap g ks r) k = vget N r k.
Proof.
  revert r; induction ks as [|h t IH]; intros r Hn; [reflexivity|].
  rewrite pmap_cons, IH by (intros H; apply Hn; right; auto).
  unfold vget. apply nth_upd_other. intros ->. apply Hn. left; auto.
Qed.

Lemma pmap_in g ks r k : NoDup ks -> In k ks -> k < length r -> vget N (pmap g ks r) k = g k (vget N r k).
Proof.
  revert r; induction ks as [|h t IH]; intros r HN Hin Hk; [destruct Hin|].
  inversion HN as [|? ? Hnot HN']; subst. rewrite pmap_cons.
  destruct Hin as [->|Hin].
  - rewrite pmap_notin by auto. unfold vget. apply nth_upd_same. auto.
  - rewrite IH; auto; [|rewrite length_upd; auto].
    assert (h <> k) by (intros ->; auto).
    f_equal. unfold vget. apply nth_upd_other. auto.
Qed.

Lemma axpy_pmap ks rj ri c : axpy_cols N ks rj ri c = pmap (fun k v => v - vget N ri k * c) ks rj.
Proof. reflexivity. Qed.
Lemma scale_pmap ks r c : scale_cols N ks r c = pmap (fun _ v => v / c) ks r.
Proof. reflexivity. Qed.

Lemma bs_xrow_pmap ks aji c rj ri :
  bs_xrow N ks aji c rj ri = Some (pmap (fun k v => v - aji * vget N ri k / c) ks rj).
Proof.
  unfold bs_xrow. revert rj; induction ks as [|k t IH]; intros rj; [reflexivity|].
  rewrite pmap_cons. cbn [fold_left]. cbn [is_nan NumK]. apply IH.
Qed.

Lemma bs_arow_cons k t i c rj ri :
  bs_arow N (k :: t) i c rj ri = bs_arow N t i c (upd rj k (vget N rj k - vget N rj i * vget N ri k / c)) ri.
Proof. reflexivity. Qed.

Lemma bs_arow_pmap ks i c rj ri : ~ In i ks ->
  bs_arow N ks i c rj ri = Some (pmap (fun k v => v - vget N rj i * vget N ri k / c) ks rj).
Proof.
  revert rj; induction ks as [|k t IH]; intros rj Hn; [reflexivity|].
  rewrite bs_arow_cons, pmap_cons.
  rewrite IH by (intros H; apply Hn; right; auto).
  assert (Hki : k <> i) by (intros ->; apply Hn; left; auto).
  assert (E : vget N (upd rj k (vget N rj k - vget N rj i * vget N ri k / c)) i = vget N rj i).
  { unfold vget. apply nth_upd_other. auto. }
  rewrite E. reflexivity.
Qed.

Lemma bs_arow_app ks1 ks2 i c rj ri r1 :
  bs_arow N ks1 i c rj ri = Some r1 -> bs_arow N (ks1 ++ ks2) i c rj ri = bs_arow N ks2 i c r1 ri.
Proof. unfold bs_arow. intros H. rewrite fold_left_app, H. reflexivity. Qed.

(* ------------------------------------------------------------------ entries of updated matrices *)
Lemma row_upd (m : list (list K)) r r' v : r < length m ->
  row (upd m r v) r' = if Nat.eqb r r' then v else row m r'.
Proof.
  intros H. unfold row. destruct (Nat.eqb_spec r r') as [->|Hne].
  - apply nth_upd_same; auto.
  - apply nth_upd_other; auto.
Qed.

(* ------------------------------------------------------------------ systems and the implication invariant *)
Variable n : nat.
Variable msk : list bool.
Notation S := (idxs msk 0 n).

Definition dot (r : list K) (y : nat -> K) : K := sumL K S (fun k => vget N r k * y k).

Definition rhs (s : st (A:=K)) (c : option nat) (r : nat) : K :=
  match c with None => vget N (sb s) r | Some j => mget N (sx s) r j end.
Definition okcol (c : option nat) : Prop := match c with None => True | Some j => In j S end.
Definition solves (s : st (A:=K)) (c : option nat) (y : nat -> K) : Prop :=
  forall r, In r S -> dot (row (sa s) r) y = rhs s c r.
(* every solution of the system s is a solution of the system s0 *)
Definition imp (s s0 : st (A:=K)) : Prop := forall c y, okcol c -> solves s c y -> solves s0 c y.

Lemma imp_refl s : imp s s. Proof. intros c y _ H; exact H. Qed.
Lemma imp_trans s1 s2 s3 : imp s1 s2 -> imp s2 s3 -> imp s1 s3.
Proof. intros H1 H2 c y Hc H. apply H2; auto. Qed.

Lemma sumL_lin ks (f g : nat -> K) m : sumL K ks (fun k => f k + m * g k) = sumL K ks f + m * sumL K ks g.
Proof. induction ks as [|k t IH]; simpl; [ring|]. rewrite IH. ring. Qed.

(* row t := row t - m * row u  (t <> u): the new system implies the old one *)
Lemma imp_axpy s s' t u m :
  In t S -> In u S -> t <> u ->
  (forall r, In r S -> r <> t -> row (sa s') r = row (sa s) r /\ forall c, okcol c -> rhs s' c r = rhs s c r) ->
  (forall k, In k S -> mget N (sa s') t k = mget N (sa s) t k - m * mget N (sa s) u k) ->
  (forall c, okcol c -> rhs s' c t = rhs s c t - m * rhs s c u) ->
  imp s' s.
Proof.
  intros Ht Hu Htu Hsame Ha Hr c y Hc Hs r Hrin.
  destruct (Nat.eq_dec r t) as [->|Hne].
  - unfold dot. rewrite (sumL_ext K S _ (fun k => vget N (row (sa s') t) k * y k + m * (vget N (row (sa s) u) k * y k))).
    2:{ intros k Hk. specialize (Ha k Hk). unfold mget in Ha. rewrite Ha. ring. }
    rewrite sumL_lin. fold (dot (row (sa s') t) y). fold (dot (row (sa s) u) y).
    rewrite (Hs t Ht). destruct (Hsame u Hu ltac:(auto)) as (Hrow & Hrhs).
    rewrite <- Hrow. rewrite (Hs u Hu). rewrite Hr by auto. rewrite Hrhs by auto. ring.
  - destruct (Hsame r Hrin Hne) as (Hrow & Hrhs). rewrite <- Hrow, <- Hrhs by auto. apply Hs; auto.
Qed.

(* row t := row t / c  (c <> 0) *)
Lemma imp_scale s s' t c0 :
  In t S -> c0 <> 0 ->
  (forall r, In r S -> r <> t -> row (sa s') r = row (sa s) r /\ forall c, okcol c -> rhs s' c r = rhs s c r) ->
  (forall k, In k S -> mget N (sa s') t k = mget N (sa s) t k / c0) ->
  (forall c, okcol c -> rhs s' c t = rhs s c t / c0) ->
  imp s' s.
Proof.
  intros Ht Hc0 Hsame Ha Hr c y Hc Hs r Hrin.
  destruct (Nat.eq_dec r t) as [->|Hne].
  - unfold dot. rewrite (sumL_ext K S _ (fun k => 0 + c0 * (vget N (row (sa s') t) k * y k))).
    2:{ intros k Hk. specialize (Ha k Hk). unfold mget in Ha. rewrite Ha. field. auto. }
    rewrite sumL_lin. fold (dot (row (sa s') t) y). rewrite (Hs t Ht). rewrite Hr by auto.
    rewrite sumL_zero by auto. field. auto.
  - destruct (Hsame r Hrin Hne) as (Hrow & Hrhs). rewrite <- Hrow, <- Hrhs by auto. apply Hs; auto.
Qed.


(* ------------------------------------------------------------------ shapes *)
Lemma Forall_upd {X} (P : X -> Prop) (l : list X) i v : Forall P l -> P v -> Forall P (upd l i v).
Proof.
  intros HF Hv. revert i; induction HF as [|h t Hh Ht IH]; intros [|i]; simpl; auto.
Qed.

Lemma wf_row_len (m : list (list K)) r : wf_mat K n m -> r < n -> length (row m r) = n.
Proof.
  intros [HL HF] Hr. unfold row. rewrite Forall_forall in HF. apply HF. apply nth_In. lia.
Qed.

Lemma wf_upd_row (m : list (list K)) r v : wf_mat K n m -> length v = n -> wf_mat K n (upd m r v).
Proof. intros [HL HF] Hv. split; [rewrite length_upd; auto| apply Forall_upd; auto]. Qed.

(* ------------------------------------------------------------------ one elimination step, entrywise *)
Lemma elim_row_spec p s i j :
  wf_st K n s -> pget p j < n -> pget p i < n -> pget p i <> pget p j ->
  let pj := pget p j in let pi := pget p i in
  let c := mget N (sa s) pj i / mget N (sa s) pi i in
  let s' := elim_row N n i msk p s j in
  wf_st K n s' /\
  (forall r, r <> pj -> row (sa s') r = row (sa s) r /\ row (sx s') r = row (sx s) r /\ vget N (sb s') r = vget N (sb s) r) /\
  (forall k, k < n -> mget N (sa s') pj k =
       if (sel msk k && (i <=? k))%bool then mget N (sa s) pj k - mget N (sa s) pi k * c else mget N (sa s) pj k) /\
  (forall k, k < n -> mget N (sx s') pj k =
       if sel msk k then mget N (sx s) pj k - mget N (sx s) pi k * c else mget N (sx s) pj k) /\
  vget N (sb s') pj = vget N (sb s) pj - vget N (sb s) pi * c.
Proof.
  intros (Ha & Hx & Hb) Hpj Hpi Hne pj pi c s'.
  assert (HLa : length (sa s) = n) by apply Ha. assert (HLx : length (sx s) = n) by apply Hx.
  unfold wf_vec in Hb.
  assert (Hra : length (row (sa s) pj) = n) by (apply wf_row_len; auto).
  assert (Hrx : length (row (sx s) pj) = n) by (apply wf_row_len; auto).
  unfold s', elim_row. fold pj pi. cbn [sa sx sb].
  change (div N (mget N (sa s) pj i) (mget N (sa s) pi i)) with c.
  split; [|split; [|split; [|split]]].
  - split; [|split]; cbn [sa sx sb].
    + apply wf_upd_row; auto. rewrite axpy_pmap, pmap_length; auto.
    + apply wf_upd_row; auto. rewrite axpy_pmap, pmap_length; auto.
    + unfold wf_vec. rewrite length_upd; auto.
  - intros r Hr. rewrite !row_upd by lia.
    destruct (Nat.eqb_spec pj r); [congruence|]. split; [auto|split; [auto|]].
    unfold vget. apply nth_upd_other. auto.
  - intros k Hk. unfold mget at 1. rewrite row_upd by lia. rewrite Nat.eqb_refl. rewrite axpy_pmap.
    destruct (sel msk k) eqn:Hs; simpl; [destruct (Nat.leb_spec i k)|].
    + rewrite pmap_in; [reflexivity|apply NoDup_idxs|apply in_idxs; split; [lia|auto]|lia].
    + rewrite pmap_notin; [reflexivity|]. rewrite in_idxs. lia.
    + rewrite pmap_notin; [reflexivity|]. rewrite in_idxs. intros [_ H]. congruence.
  - intros k Hk. unfold mget at 1. rewrite row_upd by lia. rewrite Nat.eqb_refl. rewrite axpy_pmap.
    destruct (sel msk k) eqn:Hs.
    + rewrite pmap_in; [reflexivity|apply NoDup_idxs|apply in_idxs; split; [lia|auto]|lia].
    + rewrite pmap_notin; [reflexivity|]. rewrite in_idxs. intros [_ H]. congruence.
  - unfold vget at 1. rewrite nth_upd_same by lia. reflexivity.
Qed.

Lemma inS k : In k S <-> k < n /\ sel msk k = true.
Proof. rewrite in_idxs. split; intros [H1 H2]; split; auto; lia. Qed.

(* the elimination step is the row operation row pj -= c * row pi on the whole
   selected range, because row pi is zero left of column i *)
Lemma elim_row_imp p s i j :
  wf_st K n s -> In (pget p j) S -> In (pget p i) S -> pget p i <> pget p j ->
  (forall k, In k S -> k < i -> mget N (sa s) (pget p i) k = 0) ->
  imp (elim_row N n i msk p s j) s.
Proof.
  intros Hwf Hpj Hpi Hne Hz.
  destruct (proj1 (inS _) Hpj) as [Hpjn _]. destruct (proj1 (inS _) Hpi) as [Hpin _].
  destruct (elim_row_spec p s i j Hwf Hpjn Hpin Hne) as (_ & Hsame & Ha & Hx & Hb).
  apply (imp_axpy s _ (pget p j) (pget p i) (mget N (sa s) (pget p j) i / mget N (sa s) (pget p i) i)); auto.
  - intros r Hr Hrne. destruct (Hsame r Hrne) as (H1 & H2 & H3). split; [exact H1|].
    intros [c|] Hc; cbn [rhs]; [unfold mget; rewrite H2; reflexivity| exact H3].
  - intros k Hk. destruct (proj1 (inS _) Hk) as [Hkn Hks]. rewrite Ha by auto. rewrite Hks. simpl.
    destruct (Nat.leb_spec i k) as [Hle|Hlt]; [ring|]. rewrite (Hz k Hk Hlt). ring.
  - intros [c|] Hc; cbn [rhs okcol] in *.
    + destruct (proj1 (inS _) Hc) as [Hcn Hcs]. rewrite Hx by auto. rewrite Hcs. ring.
    + rewrite Hb. ring.
Qed.

Lemma elim_row_zero p s i j :
  wf_st K n s -> pget p j < n -> pget p i < n -> pget p i <> pget p j -> In i S ->
  mget N (sa s) (pget p i) i <> 0 ->
  mget N (sa (elim_row N n i msk p s j)) (pget p j) i = 0.
Proof.
  intros Hwf Hpjn Hpin Hne Hi Hpiv. destruct (proj1 (inS _) Hi) as [Hin His].
  destruct (elim_row_spec p s i j Hwf Hpjn Hpin Hne) as (_ & _ & Ha & _).
  rewrite Ha by auto. rewrite His, Nat.leb_refl. simpl. field. auto.
Qed.

(* ------------------------------------------------------------------ the virtual permutation *)
Definition pfix (p : list nat) : Prop :=
  Permutation p (seq 0 n) /\ forall r, r < n -> sel msk r = false -> pget p r = r.

Lemma pfix_inj p a b : pfix p -> a < n -> b < n -> pget p a = pget p b -> a = b.
Proof. intros [HP _] Ha Hb. destruct (perm_facts n p HP) as (HL & HN & _). apply NoDup_pget_inj; auto; lia. Qed.

Lemma pfix_S p r : pfix p -> In r S -> In (pget p r) S.
Proof.
  intros Hp Hr. destruct (proj1 (inS _) Hr) as [Hrn Hrs]. destruct Hp as [HP Hfix].
  destruct (perm_facts n p HP) as (HL & HN & Hrange & _).
  apply inS. split; [auto|]. destruct (sel msk (pget p r)) eqn:E; auto. exfalso.
  assert (pget p (pget p r) = pget p r) by (apply Hfix; auto).
  assert (pget p r = r) by (apply (pfix_inj p); auto; split; auto).
  congruence.
Qed.

Lemma find_max_range a p i : In i S -> let mr := find_max N a p msk n i in In mr S /\ i <= mr.
Proof.
  intros Hi. unfold find_max.
  assert (G : forall js acc, (forall j, In j js -> In j S /\ i <= j) -> (In acc S /\ i <= acc) ->
     let r := fold_left (fun mr j => if ltb N (nabs N (mget N a (pget p mr) i)) (nabs N (mget N a (pget p j) i)) then j else mr) js acc in
     In r S /\ i <= r).
  { induction js as [|h t IH]; intros acc Hjs Hacc; simpl; auto.
    apply IH; [intros; apply Hjs; right; auto|].
    match goal with |- context [if ?b then _ else _] => destruct b end; [apply Hjs; left; auto|auto]. }
  apply G; [|split; auto].
  intros j Hj. apply in_idxs in Hj. destruct Hj as [H1 H2]. split; [apply inS; split; [lia|auto]|lia].
Qed.

Lemma pfix_swap p i mr : pfix p -> In i S -> In mr S -> pfix (swap_l O p i mr).
Proof.
  intros [HP Hfix] Hi Hmr. destruct (perm_facts n p HP) as (HL & _).
  destruct (proj1 (inS _) Hi) as [Hin His]. destruct (proj1 (inS _) Hmr) as [Hmn Hms].
  split.
  - eapply Permutation_trans; [apply swap_l_Permutation; lia|exact HP].
  - intros r Hr Hs. unfold pget. rewrite nth_swap_l by lia.
    destruct (Nat.eqb_spec r mr); [congruence|]. destruct (Nat.eqb_spec r i); [congruence|]. apply Hfix; auto.
Qed.

Lemma pget_swap p i mr r : i < length p -> mr < length p ->
  pget (swap_l O p i mr) r = pget p (if Nat.eqb r mr then i else if Nat.eqb r i then mr else r).
Proof.
  intros Hi Hm. unfold pget. rewrite nth_swap_l by auto.
  destruct (Nat.eqb r mr); [reflexivity|]. destruct (Nat.eqb r i); reflexivity.
Qed.

(* the forward phase keeps p a permutation of 0..n-1 that fixes the unselected indices *)
Lemma fwd_step_pfix f i : pfix (fp f) -> In i S -> pfix (fp (fwd_step N n msk f i)).
Proof.
  intros Hp Hi. unfold fwd_step. cbn [fp].
  destruct (find_max_range (sa (fs f)) (fp f) i Hi) as [Hm _]. apply pfix_swap; auto.
Qed.

Lemma pfix_id : pfix (seq 0 n).
Proof. split; [apply Permutation_refl|]. intros r Hr _. unfold pget. rewrite seq_nth; auto. Qed.

Lemma fwd_pfix s : pfix (fp (fwd N n msk s)).
Proof.
  unfold fwd.
  assert (G : forall js f, (forall j, In j js -> In j S) -> pfix (fp f) -> pfix (fp (fold_left (fwd_step N n msk) js f))).
  { induction js as [|h t IH]; intros f Hjs Hf; simpl; auto.
    apply IH; [intros; apply Hjs; right; auto|]. apply fwd_step_pfix; auto. apply Hjs; left; auto. }
  apply G; [auto|]. cbn [fp]. apply pfix_id.
Qed.

End GJ.
