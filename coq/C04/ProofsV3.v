(* C04 round 6 — (a) the Gauss-Jordan contract for operands that are views of larger workspaces (over every
   field), with the frame clause; (b) LogScale: the log-determinant IS the logarithm of the determinant (over R). *)
From Coq Require Import List Bool Arith ZArith Lia Reals Lra.
From ADV Require Import Base.Num C04.Model C04.Model2 C04.ModelV C04.Spec C04.ProofsList C04.ProofsBuf C04.ProofsGJ4
     C04.ProofsEx C04.ProofsV C04.ProofsV2 C10.Gen.
Import ListNotations.
Local Open Scope nat_scope.

Section ViewsK.
Variable K : fld.
Notation N := (NumK K).

Lemma load_wf_st n ha hx (v : vst (A:=K)) : length (vb v) = n -> wf_st K n (load_st N n ha hx v).
Proof. intros Hb. split; [apply tab_wfm|]. split; [apply tab_wfm|exact Hb]. Qed.

Lemma gj_on_views_correct (dense : bool) (n : nat) (msk : list bool) (lena lenx : nat) (ha hx : hdr) (v v' : vst (A:=K)) :
  view_ok lena n ha = true -> view_ok lenx n hx = true ->
  length (wa v) = lena -> length (wx v) = lenx -> length (vb v) = n ->
  (forall c, In c (gj_pivots N n msk (load_st N n ha hx v)) -> c <> f0 K) ->
  gj_run_v N dense false n msk ha hx v = Ok v' ->
  gj_spec_full K n msk (fp (fwd N n msk (load_st N n ha hx v))) (load_st N n ha hx v) (load_st N n ha hx v') /\
  length (wa v') = lena /\ length (wx v') = lenx /\
  (forall k, nohit n ha k -> nth k (wa v') (zero N) = nth k (wa v) (zero N)) /\
  (forall k, nohit n hx k -> nth k (wx v') (zero N) = nth k (wx v) (zero N)).
Proof.
  intros Hoka Hokx Ha Hx Hb Hnz E.
  assert (Hv : okv lena lenx v) by (split; assumption).
  rewrite (gj_run_v_eq N lena lenx n ha hx Hoka Hokx dense false msk v Hv) in E.
  destruct (gj_run N dense false n msk (load_st N n ha hx v)) as [t| | | | | |] eqn:ER; simpl in E; try discriminate.
  inversion E; subst v'. clear E.
  pose proof (gj_run_correct K dense n msk _ t (load_wf_st n ha hx v Hb) Hnz ER) as Hspec.
  assert (Hwt : wfs n t) by (destruct Hspec as ((W1 & W2 & _) & _); split; assumption).
  rewrite (load_store N lena lenx n ha hx Hoka Hokx v t Hv Hwt).
  destruct (store_st_okv N lena lenx n ha hx v t Hv) as [L1 L2].
  destruct (store_st_frame N lena lenx n ha hx v t Hv) as [F1 F2].
  split; [exact Hspec|]. split; [exact L1|]. split; [exact L2|]. split; [exact F1|exact F2].
Qed.

Lemma gj_on_views_total (dense : bool) (n : nat) (msk : list bool) (lena lenx : nat) (ha hx : hdr) (v : vst (A:=K)) :
  view_ok lena n ha = true -> view_ok lenx n hx = true ->
  length (wa v) = lena -> length (wx v) = lenx -> length (vb v) = n ->
  (forall c, In c (gj_pivots N n msk (load_st N n ha hx v)) -> c <> f0 K) ->
  exists v', gj_run_v N dense false n msk ha hx v = Ok v'.
Proof.
  intros Hoka Hokx Ha Hx Hb Hnz.
  assert (Hv : okv lena lenx v) by (split; assumption).
  rewrite (gj_run_v_eq N lena lenx n ha hx Hoka Hokx dense false msk v Hv).
  destruct (gj_run_total K dense n msk _ (load_wf_st n ha hx v Hb) Hnz) as (t & ->). simpl. eexists; reflexivity.
Qed.

Lemma gj_ut_on_views_correct (dense : bool) (n : nat) (msk : list bool) (lena lenx : nat) (ha hx : hdr) (v v' : vst (A:=K)) :
  view_ok lena n ha = true -> view_ok lenx n hx = true ->
  length (wa v) = lena -> length (wx v) = lenx -> length (vb v) = n ->
  upper_tri_S K (idxs msk 0 n) (vload N n (wa v) ha) -> diag_nonzero_S K (idxs msk 0 n) (vload N n (wa v) ha) ->
  upper_tri_S K (idxs msk 0 n) (vload N n (wx v) hx) ->
  gj_run_v N dense true n msk ha hx v = Ok v' ->
  gj_spec_full K n msk (seq 0 n) (load_st N n ha hx v) (load_st N n ha hx v') /\
  length (wa v') = lena /\ length (wx v') = lenx /\
  (forall k, nohit n ha k -> nth k (wa v') (zero N) = nth k (wa v) (zero N)) /\
  (forall k, nohit n hx k -> nth k (wx v') (zero N) = nth k (wx v) (zero N)).
Proof.
  intros Hoka Hokx Ha Hx Hb HU HD HX E.
  assert (Hv : okv lena lenx v) by (split; assumption).
  rewrite (gj_run_v_eq N lena lenx n ha hx Hoka Hokx dense true msk v Hv) in E.
  destruct (gj_run N dense true n msk (load_st N n ha hx v)) as [t| | | | | |] eqn:ER; simpl in E; try discriminate.
  inversion E; subst v'. clear E.
  pose proof (gj_run_ut_correct K dense n msk _ t (load_wf_st n ha hx v Hb) HU HD HX ER) as Hspec.
  assert (Hwt : wfs n t) by (destruct Hspec as ((W1 & W2 & _) & _); split; assumption).
  rewrite (load_store N lena lenx n ha hx Hoka Hokx v t Hv Hwt).
  destruct (store_st_okv N lena lenx n ha hx v t Hv) as [L1 L2].
  destruct (store_st_frame N lena lenx n ha hx v t Hv) as [F1 F2].
  split; [exact Hspec|]. split; [exact L1|]. split; [exact L2|]. split; [exact F1|exact F2].
Qed.

End ViewsK.

(* ---------------------------------------------------------------- a non-trivial instance *)
(* a = transposed 3 x 3 window at (1,2) of a 5 x 6 workspace, x = window at (1,0) of the TRANSPOSE of a 4 x 4
   workspace; content: the witness W0 whose pivot order is the 3-cycle [2;0;1] *)
Definition HA0 : hdr := view_of 5 6 [VS 1 4 2 5; VT].
Definition HX0 : hdr := view_of 4 4 [VT; VS 1 4 0 3].
Definition V0 : vst (A:=QcK) :=
  store_st (NumK QcK) 3 HA0 HX0 (mkV (repeat (f1 QcK) 30) (repeat (f1 QcK) 16) []) W0.

Lemma HA0_ok : view_ok 30 3 HA0 = true. Proof. reflexivity. Qed.
Lemma HX0_ok : view_ok 16 3 HX0 = true. Proof. reflexivity. Qed.

Lemma V0_instance :
  view_ok 30 3 HA0 = true /\ view_ok 16 3 HX0 = true /\
  d_transposed HA0 = true /\ (0 < d_rowOffset HA0)%Z /\ (0 < d_colOffset HA0)%Z /\
  length (wa V0) = 30 /\ length (wx V0) = 16 /\ length (vb V0) = 3 /\
  load_st (NumK QcK) 3 HA0 HX0 V0 = W0 /\
  (forall c, In c (gj_pivots (NumK QcK) 3 (all_true 3) (load_st (NumK QcK) 3 HA0 HX0 V0)) -> c <> f0 QcK) /\
  fp (fwd (NumK QcK) 3 (all_true 3) (load_st (NumK QcK) 3 HA0 HX0 V0)) = [2; 0; 1].
Proof.
  assert (Hv : okv 30 16 (mkV (repeat (f1 QcK) 30) (repeat (f1 QcK) 16) ([] : list QcK))).
  { split; reflexivity. }
  assert (Hw : wfs 3 W0) by (destruct W0_wf as (W1 & W2 & _); split; assumption).
  assert (EL : load_st (NumK QcK) 3 HA0 HX0 V0 = W0).
  { unfold V0. apply (load_store (NumK QcK) 30 16 3 HA0 HX0 HA0_ok HX0_ok _ W0 Hv Hw). }
  split; [exact HA0_ok|]. split; [exact HX0_ok|]. split; [reflexivity|]. split; [reflexivity|]. split; [reflexivity|].
  destruct (store_st_okv (NumK QcK) 30 16 3 HA0 HX0 _ W0 Hv) as [L1 L2].
  split; [exact L1|]. split; [exact L2|]. split; [destruct W0_wf as (_ & _ & W3); exact W3|].
  split; [exact EL|]. rewrite EL. split; [exact W0_pivots|exact W0_perm].
Qed.

(* SwapRows on a transposed offset view, computed: rows 0 and 2 of the view = COLUMNS 2 and 4 (rows 1..3) of
   the 5 x 6 workspace; every other cell keeps its value *)
Lemma v_swap_rows_instance :
  v_swap_rows NumZ 3 (map Z.of_nat (seq 0 30)) HA0 0 2 =
  Some (map Z.of_nat [0;1;2;3;4;5;  6;7;10;9;8;11;  12;13;16;15;14;17;  18;19;22;21;20;23;  24;25;26;27;28;29]).
Proof. reflexivity. Qed.

(* ---------------------------------------------------------------- LogScale over R *)
Section LogDet.
Local Open Scope R_scope.

Lemma log_prod_loops (L : list (list R)) : forall (l : list nat) (accp accl : R),
  (forall i, In i l -> 0 < mget NumR L i i) -> 0 < accp -> accl = ln accp ->
  let p := fold_left (fun r i => mul NumR r (mget NumR L i i)) l accp in
  0 < p /\ fold_left (fun r i => add NumR r (ln (mget NumR L i i))) l accl = ln p.
Proof.
  induction l as [|i l IH]; intros accp accl Hpos Hp Hl; simpl.
  - split; assumption.
  - assert (Hi : 0 < mget NumR L i i) by (apply Hpos; left; reflexivity).
    apply IH.
    + intros k Hk. apply Hpos. right. exact Hk.
    + apply Rmult_lt_0_compat; assumption.
    + rewrite Hl. symmetry. apply ln_mult; assumption.
Qed.

(* determinant.Run(a, PositiveDefinite{true}, LogScale{true}) = ln of determinant.Run(a, PositiveDefinite{true}),
   for every n and every Cholesky factor with positive diagonal (whatever InSitu.Cholesky.L held) *)
Lemma log_det_is_ln_det (n : nat) (m : list (list R)) (bufL : option (list (list R))) (L : list (list R)) :
  cholesky NumR n m (buf_m NumR n bufL) = Ok L -> (forall i, (i < n)%nat -> 0 < mget NumR L i i) ->
  exists d, det_pd_insitu NumR ln false n bufL m = Ok d /\ 0 < d /\ det_pd_insitu NumR ln true n bufL m = Ok (ln d).
Proof.
  intros HC Hpos. unfold det_pd_insitu. rewrite HC.
  destruct (log_prod_loops L (seq 0 n) 1 0) as [Hp Hl].
  - intros i Hi. apply in_seq in Hi. apply Hpos. lia.
  - exact Rlt_0_1.
  - symmetry. exact ln_1.
  - simpl in Hp, Hl. eexists. split; [reflexivity|]. split.
    + apply Rmult_lt_0_compat; exact Hp.
    + simpl. f_equal. change (zero NumR) with 0. change (one NumR) with 1 in *. rewrite Hl. symmetry. apply ln_mult; exact Hp.
Qed.

(* instance: m = diag(4, 9): L = diag(2, 3), det = 36 *)
Lemma log_det_instance :
  cholesky NumR 2 [[4; 0]; [0; 9]] (buf_m NumR 2 None) = Ok [[2; 0]; [0; 3]] /\
  (forall i, (i < 2)%nat -> 0 < mget NumR [[2; 0]; [0; 3]] i i).
Proof.
  split.
  - unfold cholesky, buf_m, zmat, zeros, chol_row, Rltb. simpl. unfold mget, mset, row, vget. simpl.
    replace (4 - 0) with (2 * 2) by lra.
    unfold Rltb at 1. destruct (Rlt_dec (2 * 2) 0); [exfalso; lra|]. rewrite sqrt_square by lra. simpl.
    replace ((0 - 0) / 2) with 0 by lra.
    replace (9 - (0 + 0 * 0)) with (3 * 3) by lra.
    unfold Rltb. destruct (Rlt_dec (3 * 3) 0); [exfalso; lra|]. rewrite sqrt_square by lra. reflexivity.
  - intros [|[|i]] Hi; unfold mget, row, vget; simpl; try lra. lia.
Qed.

End LogDet.
