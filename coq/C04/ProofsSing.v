(* C04 — structurally singular input: over a field a zero row, a zero column or two
   identical rows inside the selected sub-matrix force a ZERO PIVOT (the ghost pivot log
   cannot be all non-zero), and no state whatsoever satisfies the defining equations. *)
From Coq Require Import List Bool Arith Lia Field Permutation.
From ADV Require Import Base.Num C04.Model C04.Spec C04.ProofsList C04.ProofsDet C04.ProofsPerm C04.ProofsGJ
                        C04.ProofsGJ2 C04.ProofsGJ3 C04.ProofsGJ4.
Import ListNotations.

(* ------------------------------------------------------------------ the pivots depend on a only (any carrier) *)
Section Indep.
Context {A : Type} (N : Num A).

Lemma elim_row_sa n i msk p (s s' : st (A:=A)) j :
  sa s = sa s' -> sa (elim_row N n i msk p s j) = sa (elim_row N n i msk p s' j).
Proof. intros E. unfold elim_row. cbn [sa]. rewrite E. reflexivity. Qed.

Lemma elim_fold_sa n i msk p js : forall (s s' : st (A:=A)),
  sa s = sa s' -> sa (fold_left (elim_row N n i msk p) js s) = sa (fold_left (elim_row N n i msk p) js s').
Proof.
  induction js as [|j t IH]; intros s s' E; cbn [fold_left]; auto.
  apply IH. apply elim_row_sa. exact E.
Qed.

Definition same_a (f f' : fst_ (A:=A)) : Prop := fp f = fp f' /\ sa (fs f) = sa (fs f') /\ fpiv f = fpiv f'.

Lemma fwd_step_same_a n msk f f' i : same_a f f' -> same_a (fwd_step N n msk f i) (fwd_step N n msk f' i).
Proof.
  intros (E1 & E2 & E3). unfold fwd_step. rewrite E1, E2, E3.
  split; [reflexivity|]. split; [|reflexivity]. cbn [fs]. apply elim_fold_sa. exact E2.
Qed.

Lemma fwd_same_a n msk (s s' : st (A:=A)) : sa s = sa s' -> same_a (fwd N n msk s) (fwd N n msk s').
Proof.
  intros E. unfold fwd.
  assert (G : forall l f f', same_a f f' -> same_a (fold_left (fwd_step N n msk) l f) (fold_left (fwd_step N n msk) l f')).
  { induction l as [|i t IH]; intros f f' H; cbn [fold_left]; auto. apply IH. apply fwd_step_same_a. exact H. }
  apply G. split; [reflexivity|]. split; [exact E|reflexivity].
Qed.

Lemma gj_pivots_a_only n msk (s s' : st (A:=A)) : sa s = sa s' -> gj_pivots N n msk s = gj_pivots N n msk s'.
Proof. intros E. unfold gj_pivots. destruct (fwd_same_a n msk s s' E) as (_ & _ & E3). rewrite E3. reflexivity. Qed.

End Indep.

Section Sing.
Variable K : fld.
Add Field KF7 : (Fth K).
Notation N := (NumK K).
Notation "0" := (f0 K). Notation "1" := (f1 K).
Infix "+" := (fadd K). Infix "*" := (fmul K). Infix "-" := (fsub K). Infix "/" := (fdiv K).

Lemma one_neq_zero : 1 <> 0.
Proof. exact (F_1_neq_0 (Fth K)). Qed.

(* ------------------------------------------------------------------ the identity matrix *)
Lemma nth_map_seq {X} (f : nat -> X) n i d : i < n -> nth i (map f (seq 0 n)) d = f i.
Proof.
  intros H. rewrite (nth_indep _ d (f O)) by (rewrite map_length, seq_length; auto).
  rewrite (map_nth f (seq 0 n) O i). rewrite seq_nth; auto.
Qed.

Lemma mget_ident n i j : i < n -> j < n -> mget N (ident N n) i j = delta K i j.
Proof.
  intros Hi Hj. unfold mget, row, vget, ident. rewrite nth_map_seq by auto. rewrite nth_map_seq by auto. reflexivity.
Qed.

Lemma ident_wf n : wf_mat K n (ident N n).
Proof.
  split; [unfold ident; rewrite map_length, seq_length; auto|].
  apply Forall_forall. intros r Hr. unfold ident in Hr. apply in_map_iff in Hr.
  destruct Hr as (i & <- & _). rewrite map_length, seq_length. auto.
Qed.

Variable n : nat.
Variable msk : list bool.
Notation S := (idxs msk 0 n).

(* ------------------------------------------------------------------ no right / left inverse exists at all *)
Lemma zero_row_no_right_inverse (a x : list (list K)) r :
  zero_row K S a r -> mulS K S a x r r <> 1.
Proof.
  intros [Hr Hz] E. apply one_neq_zero. rewrite <- E. unfold mulS. apply sumL_zero.
  intros k Hk. rewrite Hz by auto. ring.
Qed.

Lemma same_rows_no_right_inverse (a x : list (list K)) r1 r2 :
  same_rows K S a r1 r2 -> ~ (mulS K S a x r1 r1 = 1 /\ mulS K S a x r2 r1 = 0).
Proof.
  intros (H1 & H2 & Hne & Heq) [E1 E2]. apply one_neq_zero. rewrite <- E1, <- E2.
  unfold mulS. apply sumL_ext. intros k Hk. rewrite Heq by auto. reflexivity.
Qed.

Lemma zero_col_no_left_inverse (a x : list (list K)) c :
  zero_col K S a c -> mulS K S x a c c <> 1.
Proof.
  intros [Hc Hz] E. apply one_neq_zero. rewrite <- E. unfold mulS. apply sumL_zero.
  intros k Hk. rewrite Hz by auto. ring.
Qed.

(* ------------------------------------------------------------------ hence a zero pivot *)
Variable s0 : st (A:=K).
Hypothesis Hwf : wf_st K n s0.

(* run the elimination on [a | I | b]: same pivots *)
Let s1 : st (A:=K) := mkSt (sa s0) (ident N n) (sb s0).

Lemma s1_inverse : (forall c, In c (gj_pivots N n msk s0) -> c <> 0) ->
  exists X, (forall i j, In i S -> In j S -> mulS K S (sa s0) X i j = delta K i j) /\
            (forall i j, In i S -> In j S -> mulS K S X (sa s0) i j = delta K i j).
Proof.
  intros Hnz.
  assert (Hwf1 : wf_st K n s1).
  { destruct Hwf as (Ha & _ & Hb). split; [exact Ha|]. split; [apply ident_wf|exact Hb]. }
  assert (Hnz1 : forall c, In c (gj_pivots N n msk s1) -> c <> 0).
  { intros c Hc. apply Hnz. rewrite (gj_pivots_a_only N n msk s0 s1 eq_refl). exact Hc. }
  destruct (gj_core_correct K n msk s1 Hwf1 Hnz1) as (s' & _ & (_ & (HX & _) & _ & HL)).
  exists (sx s'). split.
  - intros i j Hi Hj. transitivity (mget N (sx s1) i j); [exact (HX i j Hi Hj)|]. cbn [s1 sx].
    apply inS in Hi, Hj. apply mget_ident; tauto.
  - apply HL. intros i j Hi Hj. cbn [s1 sx]. apply inS in Hi, Hj. apply mget_ident; tauto.
Qed.

Lemma zero_row_zero_pivot r : zero_row K S (sa s0) r -> ~ (forall c, In c (gj_pivots N n msk s0) -> c <> 0).
Proof.
  intros Hz Hnz. destruct (s1_inverse Hnz) as (X & HR & _).
  apply (zero_row_no_right_inverse (sa s0) X r Hz). destruct Hz as [Hr _].
  rewrite HR by auto. unfold delta. rewrite Nat.eqb_refl. reflexivity.
Qed.

Lemma same_rows_zero_pivot r1 r2 : same_rows K S (sa s0) r1 r2 -> ~ (forall c, In c (gj_pivots N n msk s0) -> c <> 0).
Proof.
  intros Hs Hnz. destruct (s1_inverse Hnz) as (X & HR & _).
  apply (same_rows_no_right_inverse (sa s0) X r1 r2 Hs). destruct Hs as (H1 & H2 & Hne & _).
  rewrite !HR by auto. unfold delta. rewrite Nat.eqb_refl.
  destruct (Nat.eqb_spec r2 r1); [congruence|]. auto.
Qed.

Lemma zero_col_zero_pivot c : zero_col K S (sa s0) c -> ~ (forall c, In c (gj_pivots N n msk s0) -> c <> 0).
Proof.
  intros Hz Hnz. destruct (s1_inverse Hnz) as (X & _ & HL).
  apply (zero_col_no_left_inverse (sa s0) X c Hz). destruct Hz as [Hc _].
  rewrite HL by auto. unfold delta. rewrite Nat.eqb_refl. reflexivity.
Qed.

End Sing.
