(* C04 round 3 — caller-supplied in-situ buffers: what the copy / reset loops of Model2 compute, for
   EVERY carrier (no arithmetic involved): a well-shaped buffer's prior content never survives. *)
From Coq Require Import List Bool Arith Lia.
From ADV Require Import Base.Num C04.Model C04.Model2 C04.ProofsList.
Import ListNotations.

Section Buf.
Context {A : Type} (N : Num A).

Definition wfm (n : nat) (m : list (list A)) : Prop := length m = n /\ Forall (fun r => length r = n) m.
Definition tab (n : nat) (f : nat -> nat -> A) : list (list A) :=
  map (fun i => map (fun j => f i j) (seq 0 n)) (seq 0 n).

Lemma nth_map_seq' {X} (f : nat -> X) n i d : i < n -> nth i (map f (seq 0 n)) d = f i.
Proof.
  intros H. rewrite (nth_indep _ d (f O)) by (rewrite map_length, seq_length; auto).
  rewrite (map_nth f (seq 0 n) O i). rewrite seq_nth; auto.
Qed.

Lemma wfm_row n m r : wfm n m -> r < n -> length (row m r) = n.
Proof. intros [HL HF] Hr. unfold row. rewrite Forall_forall in HF. apply HF. apply nth_In. lia. Qed.

Lemma Forall_upd' {X} (P : X -> Prop) (l : list X) i v : Forall P l -> P v -> Forall P (upd l i v).
Proof. intros HF Hv. revert i; induction HF as [|h t Hh Ht IH]; intros [|i]; simpl; auto. Qed.

Lemma wfm_mset n m i j x : wfm n m -> wfm n (mset m i j x).
Proof.
  intros Hw. unfold mset. destruct (Nat.lt_ge_cases i n) as [Hi|Hi].
  - destruct Hw as [HL HF]. split; [rewrite length_upd; auto|]. apply Forall_upd'; auto.
    rewrite length_upd. apply wfm_row; [split; auto|auto].
  - rewrite upd_overflow; [exact Hw|]. destruct Hw as [HL _]. lia.
Qed.

Lemma mget_mset n m i j x i' j' : wfm n m -> i < n -> j < n ->
  mget N (mset m i j x) i' j' = if (Nat.eqb i i' && Nat.eqb j j')%bool then x else mget N m i' j'.
Proof.
  intros Hw Hi Hj. assert (HL : length m = n) by apply Hw.
  unfold mget, mset, vget, row. rewrite nth_upd.
  destruct (Nat.eqb_spec i i') as [<-|Hne]; simpl; [|reflexivity].
  assert (Hlt : (i <? length m) = true) by (apply Nat.ltb_lt; lia). rewrite Hlt.
  rewrite nth_upd. destruct (Nat.eqb_spec j j') as [<-|Hne]; simpl; [|reflexivity].
  assert (Hlr : (j <? length (nth i m [])) = true).
  { apply Nat.ltb_lt. change (nth i m []) with (row m i). rewrite (wfm_row n); auto. }
  rewrite Hlr. reflexivity.
Qed.

Lemma tab_wfm n f : wfm n (tab n f).
Proof.
  split; [unfold tab; rewrite map_length, seq_length; auto|].
  apply Forall_forall. intros r Hr. unfold tab in Hr. apply in_map_iff in Hr.
  destruct Hr as (i & <- & _). rewrite map_length, seq_length. auto.
Qed.

Lemma mget_tab n f i j : i < n -> j < n -> mget N (tab n f) i j = f i j.
Proof. intros Hi Hj. unfold mget, row, vget, tab. rewrite nth_map_seq' by auto. rewrite nth_map_seq' by auto. reflexivity. Qed.

Lemma mat_ext n (a b : list (list A)) : wfm n a -> wfm n b ->
  (forall i j, i < n -> j < n -> mget N a i j = mget N b i j) -> a = b.
Proof.
  intros Ha Hb H. apply (nth_ext_eq []); [destruct Ha, Hb; congruence|].
  intros k Hk. assert (Hkn : k < n) by (destruct Ha; lia).
  apply (nth_ext_eq (zero N)).
  - change (length (row a k) = length (row b k)). rewrite (wfm_row n a), (wfm_row n b); auto.
  - intros l Hl. change (l < length (row a k)) in Hl. rewrite (wfm_row n a) in Hl by auto. apply (H k l Hkn Hl).
Qed.

(* the generic loop: for i, j < n: if c i j { d[i,j] = f i j } *)
Definition cfill (n : nat) (c : nat -> nat -> bool) (f : nat -> nat -> A) (dst : list (list A)) : list (list A) :=
  fold_left (fun d i => fold_left (fun d j => if c i j then mset d i j (f i j) else d) (seq 0 n) d) (seq 0 n) dst.

Lemma cfill_row n (c : nat -> nat -> bool) (f : nat -> nat -> A) i : i < n -> forall js d, wfm n d -> (forall j, In j js -> j < n) ->
  let R := fold_left (fun d j => if c i j then mset d i j (f i j) else d) js d in
  wfm n R /\ forall i' j', mget N R i' j' =
     if (Nat.eqb i i' && existsb (Nat.eqb j') js && c i j')%bool then f i j' else mget N d i' j'.
Proof.
  intros Hi. induction js as [|j t IH]; intros d Hw Hjs; cbn zeta.
  - simpl. split; [exact Hw|]. intros i' j'. rewrite andb_false_r. reflexivity.
  - cbn [fold_left].
    assert (Hj : j < n) by (apply Hjs; left; reflexivity).
    set (d' := if c i j then mset d i j (f i j) else d).
    assert (Hw' : wfm n d') by (unfold d'; destruct (c i j); [apply wfm_mset|]; auto).
    destruct (IH d' Hw' (fun k Hk => Hjs k (or_intror Hk))) as [HwR HR]. split; [exact HwR|].
    intros i' j'. rewrite HR. cbn [existsb].
    assert (Hd' : mget N d' i' j' = if (c i j && Nat.eqb i i' && Nat.eqb j j')%bool then f i j else mget N d i' j').
    { unfold d'. destruct (c i j); simpl; [apply (mget_mset n); auto|reflexivity]. }
    rewrite Hd'.
    destruct (Nat.eqb_spec i i') as [<-|Hne]; simpl; [|rewrite andb_false_r; reflexivity].
    destruct (Nat.eqb_spec j' j) as [->|Hne]; simpl.
    + rewrite Nat.eqb_refl. destruct (existsb (Nat.eqb j) t), (c i j); reflexivity.
    + destruct (Nat.eqb_spec j j') as [E|_]; [congruence|]. rewrite andb_false_r. reflexivity.
Qed.

Lemma existsb_seq n j : j < n -> existsb (Nat.eqb j) (seq 0 n) = true.
Proof. intros H. apply existsb_exists. exists j. split; [apply in_seq; lia|apply Nat.eqb_refl]. Qed.

Lemma cfill_rows n (c : nat -> nat -> bool) (f : nat -> nat -> A) : forall is d, wfm n d -> (forall i, In i is -> i < n) ->
  let R := fold_left (fun d i => fold_left (fun d j => if c i j then mset d i j (f i j) else d) (seq 0 n) d) is d in
  wfm n R /\ forall i' j', j' < n -> mget N R i' j' =
     if (existsb (Nat.eqb i') is && c i' j')%bool then f i' j' else mget N d i' j'.
Proof.
  induction is as [|i t IH]; intros d Hw His; cbn zeta.
  - simpl. split; [exact Hw|reflexivity].
  - cbn [fold_left].
    assert (Hi : i < n) by (apply His; left; reflexivity).
    destruct (cfill_row n c f i Hi (seq 0 n) d Hw) as [Hw' Hd']; [intros j Hj; apply in_seq in Hj; lia|].
    cbn zeta in Hw', Hd'.
    destruct (IH _ Hw' (fun k Hk => His k (or_intror Hk))) as [HwR HR]. split; [exact HwR|].
    intros i' j' Hj'. rewrite HR by auto. rewrite Hd'. rewrite existsb_seq by auto. cbn [existsb].
    destruct (Nat.eqb_spec i' i) as [->|Hne]; simpl.
    + rewrite Nat.eqb_refl. simpl. destruct (existsb (Nat.eqb i) t), (c i j'); reflexivity.
    + destruct (Nat.eqb_spec i i') as [E|_]; [congruence|]. reflexivity.
Qed.

Lemma cfill_tab n (c : nat -> nat -> bool) (f : nat -> nat -> A) d : wfm n d ->
  cfill n c f d = tab n (fun i j => if c i j then f i j else mget N d i j).
Proof.
  intros Hw. destruct (cfill_rows n c f (seq 0 n) d Hw) as [HwR HR]; [intros i Hi; apply in_seq in Hi; lia|].
  cbn zeta in HwR, HR. apply (mat_ext n); [exact HwR|apply tab_wfm|].
  intros i j Hi Hj. rewrite mget_tab by auto. unfold cfill. rewrite HR by auto. rewrite existsb_seq by auto. reflexivity.
Qed.

Lemma tab_mget n m : wfm n m -> tab n (mget N m) = m.
Proof. intros Hw. apply (mat_ext n); [apply tab_wfm|exact Hw|]. intros i j Hi Hj. apply mget_tab; auto. Qed.

(* ------------------------------------------------------------------ the loops of Model2 *)
(* dst.Set(src): whatever dst held, it now holds src *)
Lemma mat_set_eq n dst src : wfm n dst -> wfm n src -> mat_set N n dst src = src.
Proof.
  intros Hd Hs. change (mat_set N n dst src) with (cfill n (fun _ _ => true) (mget N src) dst).
  rewrite cfill_tab by auto. apply tab_mget; auto.
Qed.

Lemma reset_ident_eq n dst : wfm n dst -> reset_ident N n dst = ident N n.
Proof.
  intros Hd. change (reset_ident N n dst) with (cfill n (fun _ _ => true) (fun i j => if Nat.eqb i j then one N else zero N) dst).
  rewrite cfill_tab by auto. reflexivity.
Qed.

Definition masked (n : nat) (s : list bool) (m : list (list A)) : list (list A) :=
  tab n (fun i j => if (negb (sel s i) || negb (sel s j))%bool then (if Nat.eqb i j then one N else zero N) else mget N m i j).

Lemma mask_ident_eq n s buf m : wfm n buf -> wfm n m -> mask_ident N n s buf m = masked n s m.
Proof.
  intros Hb Hm. unfold mask_ident. rewrite (mat_set_eq n buf m Hb Hm).
  change (cfill n (fun i j => negb (sel s i) || negb (sel s j))%bool (fun i j => if Nat.eqb i j then one N else zero N) m = masked n s m).
  rewrite cfill_tab by auto. reflexivity.
Qed.

Lemma zmat_wfm n : wfm n (zmat N n).
Proof.
  unfold zmat, zeros. split; [apply repeat_length|]. apply Forall_forall. intros r Hr.
  apply repeat_spec in Hr. subst. apply repeat_length.
Qed.

(* for i < n: b[i] = 1 *)
Lemma fold_upd_const (c : A) : forall is (v : list A),
  let R := fold_left (fun d i => upd d i c) is v in
  length R = length v /\ forall k, nth k R (zero N) = if (existsb (Nat.eqb k) is && (k <? length v))%bool then c else nth k v (zero N).
Proof.
  induction is as [|i t IH]; intros v; cbn zeta.
  - simpl. split; reflexivity.
  - cbn [fold_left]. destruct (IH (upd v i c)) as [HL HR]. cbn zeta in HL, HR. rewrite length_upd in *.
    split; [exact HL|]. intros k. rewrite HR. rewrite nth_upd. cbn [existsb].
    destruct (Nat.eqb_spec k i) as [->|Hne]; simpl.
    + rewrite Nat.eqb_refl. simpl. destruct (existsb (Nat.eqb i) t), (i <? length v); reflexivity.
    + destruct (Nat.eqb_spec i k) as [E|_]; [congruence|]. reflexivity.
Qed.

Lemma reset_ones_eq n v : length v = n -> reset_ones N n v = ones N n.
Proof.
  intros HL. destruct (fold_upd_const (one N) (seq 0 n) v) as [HLR HR]. cbn zeta in HLR, HR.
  unfold reset_ones, ones. apply (nth_ext_eq (zero N)); [rewrite HLR, repeat_length; auto|].
  intros k Hk. rewrite HLR, HL in Hk. rewrite HR, HL. rewrite existsb_seq by auto.
  assert (E : (k <? n) = true) by (apply Nat.ltb_lt; auto). rewrite E. simpl.
  symmetry. rewrite (nth_indep _ (zero N) (one N)) by (rewrite repeat_length; auto). apply nth_repeat.
Qed.

End Buf.
