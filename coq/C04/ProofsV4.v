(* C04 round 6 — matrixInverse.Run with caller-supplied InSitu.A / InSitu.Id buffers that are views of larger
   workspaces: the run on views is the logical inverse written through InSitu.Id; frame for both workspaces. *)
From Coq Require Import List Bool Arith ZArith Lia.
From ADV Require Import Base.Num C04.Model C04.Model2 C04.ModelV C04.ModelV2 C04.Spec C04.ProofsList C04.ProofsBuf
     C04.ProofsHist C04.ProofsInv C04.ProofsV C04.ProofsV2 C04.ProofsV3 C04.ProofsEx C04.ProofsSing C04.ProofsGJ4 C10.Gen.
Import ListNotations.
Local Open Scope nat_scope.

Section InvV.
Context {A : Type} (N : Num A).
Variables (lenA lenI n : nat) (hA hId : hdr).
Hypothesis HokA : view_ok lenA n hA = true.
Hypothesis HokI : view_ok lenI n hId = true.

Lemma ident_wfm : wfm n (ident N n).
Proof. change (ident N n) with (tab n (fun i j => if Nat.eqb i j then one N else zero N)). apply tab_wfm. Qed.

Lemma m_inverse_v_eq dense ut omsk (wA wId : list A) (bB : option (list A)) (m : list (list A)) :
  length wA = lenA -> length wId = lenI -> (forall b, bB = Some b -> length b = n) -> wfm n m ->
  m_inverse_v N dense ut n omsk hA hId wA wId bB m =
  lift_v N n hA hId (mkV wA wId [])
         (gj_run N dense ut n (match omsk with Some s => s | None => all_true n end) (mkSt m (ident N n) (ones N n))).
Proof.
  intros HA HI HB Hm. unfold m_inverse_v.
  set (msk := match omsk with Some s => s | None => all_true n end).
  assert (E1 : mat_set N n (vload N n wA hA) m = m) by (apply mat_set_eq; [apply tab_wfm|exact Hm]).
  assert (E2 : reset_ident N n (vload N n wId hId) = ident N n) by (apply reset_ident_eq; apply tab_wfm).
  assert (E3 : reset_ones N n (buf_v N n bB) = ones N n).
  { apply reset_ones_eq. destruct bB as [b|]; simpl; [apply HB; reflexivity|apply repeat_length]. }
  rewrite E1, E2, E3.
  rewrite (gj_run_v_eq N lenA lenI n hA hId HokA HokI dense ut msk) by (split; simpl; rewrite vstore_length; assumption).
  unfold load_st. cbn [wa wx vb].
  rewrite (vload_vstore N lenA n hA HokA) by assumption.
  rewrite (vload_vstore N lenI n hId HokI) by (auto; apply ident_wfm).
  destruct (gj_run N dense ut n msk (mkSt m (ident N n) (ones N n))) as [t| | | | | |]; try reflexivity.
  unfold lift_v, store_st. cbn [wa wx vb].
  rewrite (vstore_vstore N lenA n hA HokA) by assumption. rewrite (vstore_vstore N lenI n hId HokI) by assumption.
  reflexivity.
Qed.

End InvV.

Section InvVK.
Variable K : fld.
Notation N := (NumK K).

(* plain mode, Submatrix{msk}: the matrix the view InSitu.Id denotes after the run is the inverse of the selected block
   (full contract inv_spec); no cell of either workspace outside the views changes *)
Lemma inverse_on_view_buffers_correct (dense : bool) (n : nat) (msk : list bool) (lenA lenI : nat) (hA hId : hdr)
      (wA wId : list K) (bB : option (list K)) (m : list (list K)) (v' : vst (A:=K)) :
  view_ok lenA n hA = true -> view_ok lenI n hId = true ->
  length wA = lenA -> length wId = lenI -> (forall b, bB = Some b -> length b = n) -> wf_mat K n m ->
  (forall c, In c (gj_pivots N n msk (mkSt m (ident N n) (ones N n))) -> c <> f0 K) ->
  m_inverse_v N dense false n (Some msk) hA hId wA wId bB m = Ok v' ->
  inv_spec K n msk m (vload N n (wx v') hId) /\
  length (wa v') = lenA /\ length (wx v') = lenI /\
  (forall k, nohit n hA k -> nth k (wa v') (zero N) = nth k wA (zero N)) /\
  (forall k, nohit n hId k -> nth k (wx v') (zero N) = nth k wId (zero N)).
Proof.
  intros HokA HokI HA HI HB Hm Hnz E.
  rewrite (m_inverse_v_eq N lenA lenI n hA hId HokA HokI dense false (Some msk) wA wId bB m HA HI HB Hm) in E.
  destruct (gj_run N dense false n msk (mkSt m (ident N n) (ones N n))) as [t| | | | | |] eqn:ER; simpl in E; try discriminate.
  inversion E; subst v'. clear E.
  assert (EI : m_inverse N dense InvPlain n msk m = Ok (sx t)) by (unfold m_inverse; rewrite ER; reflexivity).
  pose proof (inverse_plain_correct K n msk dense m (sx t) Hm Hnz EI) as Hspec.
  assert (Hwx : wfm n (sx t)) by (destruct Hspec as (W & _); exact W).
  unfold store_st. cbn [wa wx vb].
  rewrite (vload_vstore N lenI n hId HokI) by assumption.
  split; [exact Hspec|]. rewrite !vstore_length. split; [exact HA|]. split; [exact HI|].
  split; intros k Hn; apply vstore_other; exact Hn.
Qed.

Lemma inverse_ut_on_view_buffers_correct (dense : bool) (n : nat) (msk : list bool) (lenA lenI : nat) (hA hId : hdr)
      (wA wId : list K) (bB : option (list K)) (m : list (list K)) (v' : vst (A:=K)) :
  view_ok lenA n hA = true -> view_ok lenI n hId = true ->
  length wA = lenA -> length wId = lenI -> (forall b, bB = Some b -> length b = n) -> wf_mat K n m ->
  upper_tri_S K (idxs msk 0 n) m -> diag_nonzero_S K (idxs msk 0 n) m ->
  m_inverse_v N dense true n (Some msk) hA hId wA wId bB m = Ok v' ->
  inv_spec K n msk m (vload N n (wx v') hId) /\
  length (wa v') = lenA /\ length (wx v') = lenI /\
  (forall k, nohit n hA k -> nth k (wa v') (zero N) = nth k wA (zero N)) /\
  (forall k, nohit n hId k -> nth k (wx v') (zero N) = nth k wId (zero N)).
Proof.
  intros HokA HokI HA HI HB Hm HU HD E.
  rewrite (m_inverse_v_eq N lenA lenI n hA hId HokA HokI dense true (Some msk) wA wId bB m HA HI HB Hm) in E.
  destruct (gj_run N dense true n msk (mkSt m (ident N n) (ones N n))) as [t| | | | | |] eqn:ER; simpl in E; try discriminate.
  inversion E; subst v'. clear E.
  assert (EI : m_inverse N dense InvUT n msk m = Ok (sx t)) by (unfold m_inverse; rewrite ER; reflexivity).
  pose proof (inverse_ut_correct K n msk dense m (sx t) Hm HU HD EI) as Hspec.
  assert (Hwx : wfm n (sx t)) by (destruct Hspec as (W & _); exact W).
  unfold store_st. cbn [wa wx vb].
  rewrite (vload_vstore N lenI n hId HokI) by assumption.
  split; [exact Hspec|]. rewrite !vstore_length. split; [exact HA|]. split; [exact HI|].
  split; intros k Hn; apply vstore_other; exact Hn.
Qed.

End InvVK.

(* ---------------------------------------------------------------- a non-trivial instance: InSitu.A = the transposed
   offset window HA0 of a 5 x 6 workspace, InSitu.Id = the window HX0 of the transpose of a 4 x 4 workspace, the
   matrix whose pivot order is a 3-cycle *)
Lemma inverse_view_instance :
  view_ok 30 3 HA0 = true /\ view_ok 16 3 HX0 = true /\ wf_mat QcK 3 (qc Wz) /\
  (forall c, In c (gj_pivots (NumK QcK) 3 (all_true 3) (mkSt (qc Wz) (ident (NumK QcK) 3) (ones (NumK QcK) 3))) -> c <> f0 QcK) /\
  exists v', m_inverse_v (NumK QcK) true false 3 (Some (all_true 3)) HA0 HX0 (repeat (f1 QcK) 30) (repeat (f1 QcK) 16) None (qc Wz) = Ok v'.
Proof.
  assert (Hm : wf_mat QcK 3 (qc Wz)) by (destruct W0_wf as (W & _); exact W).
  assert (Hp : forall c, In c (gj_pivots (NumK QcK) 3 (all_true 3) (mkSt (qc Wz) (ident (NumK QcK) 3) (ones (NumK QcK) 3))) -> c <> f0 QcK).
  { rewrite (gj_pivots_a_only (NumK QcK) 3 (all_true 3) _ W0) by reflexivity. exact W0_pivots. }
  split; [exact HA0_ok|]. split; [exact HX0_ok|]. split; [exact Hm|]. split; [exact Hp|].
  rewrite (m_inverse_v_eq (NumK QcK) 30 16 3 HA0 HX0 HA0_ok HX0_ok true false (Some (all_true 3)) _ _ None (qc Wz));
    [|reflexivity|reflexivity|discriminate|exact Hm].
  destruct (gj_run_total QcK true 3 (all_true 3) _ (init_wf QcK 3 (qc Wz) Hm) Hp) as (t & ->). simpl. eexists; reflexivity.
Qed.
