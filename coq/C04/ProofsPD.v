(* C04 round 3 — matrixInverse.Run(m, PositiveDefinite{true}, Submatrix{msk}) at /repo HEAD (8a0efbb)
   for EVERY mask: the matrix is masked to the identity outside the selection S BEFORE the Cholesky
   step.  Block-diagonal argument: M = P m P + (I - P) (P the mask projector).  If M = L L^T with L
   lower triangular and non-zero diagonal, then L is itself block diagonal w.r.t. (S, complement of S)
   [L_block], hence m_S = L_S L_S^T, and R = X X^T with X = (L^T)^-1 on S, X = I outside S is
   m_S^-1 (+) I: the full contract inv_spec of the inverse. *)
From Coq Require Import List Bool Arith Lia Field Permutation.
From ADV Require Import Base.Num C04.Model C04.Model2 C04.Spec C04.ProofsList C04.ProofsDet C04.ProofsPerm C04.ProofsGJ
                        C04.ProofsGJ2 C04.ProofsGJ3 C04.ProofsGJ4 C04.ProofsSing C04.ProofsInv C04.ProofsBuf.
Import ListNotations.

Section PD.
Variable K : fld.
Add Field KF9 : (Fth K).
Notation N := (NumK K).
Notation "0" := (f0 K). Notation "1" := (f1 K).
Infix "+" := (fadd K). Infix "*" := (fmul K). Infix "-" := (fsub K). Infix "/" := (fdiv K).

Variable n : nat.
Variable msk : list bool.
Notation S := (idxs msk 0 n).

Lemma sumL_single ks r (f : nat -> K) : NoDup ks -> In r ks ->
  (forall k, In k ks -> k <> r -> f k = 0) -> sumL K ks f = f r.
Proof.
  induction ks as [|a t IH]; intros Hnd Hin Hz; [destruct Hin|].
  inversion Hnd as [|? ? Hna Hnt]; subst. simpl.
  destruct (Nat.eq_dec a r) as [->|Hne].
  - rewrite (sumL_zero K t f); [ring|]. intros k Hk. apply Hz; [right; exact Hk|]. intros ->. contradiction.
  - destruct Hin as [E|Hin]; [congruence|].
    rewrite (Hz a (or_introl eq_refl) Hne). rewrite IH; auto; [ring|]. intros k Hk. apply Hz. right. exact Hk.
Qed.

Lemma mul_zero_l (x y : K) : x * y = 0 -> y <> 0 -> x = 0.
Proof.
  intros H Hy. assert (E : x = (x * y) / y) by (field; exact Hy). rewrite E, H. field. exact Hy.
Qed.

Lemma masked_get (m : list (list K)) i j : i < n -> j < n ->
  mget N (masked N n msk m) i j = if (negb (sel msk i) || negb (sel msk j))%bool then delta K i j else mget N m i j.
Proof. intros Hi Hj. unfold masked. rewrite (mget_tab N) by auto. reflexivity. Qed.

Section Factor.
Variables (m L : list (list K)).
Hypothesis HLT : lower_tri K n L.
Hypothesis HD : diag_nonzero K n L.
Hypothesis HLL : forall i j, i < n -> j < n ->
  sumL K (seq 0 n) (fun k => mget N L i k * mget N L j k) = mget N (masked N n msk m) i j.

(* the factor of the masked matrix is block diagonal: below the diagonal, every entry with an
   unselected row or column index is zero (strong induction on the column) *)
Lemma L_block_lower : forall j i, j < i -> i < n -> sel msk i = false \/ sel msk j = false -> mget N L i j = 0.
Proof.
  induction j as [j IH] using lt_wf_ind. intros i Hji Hin Hs.
  assert (Hjn : j < n) by lia.
  assert (HM : mget N (masked N n msk m) i j = 0).
  { rewrite masked_get by auto. replace (negb (sel msk i) || negb (sel msk j))%bool with true.
    - unfold delta. destruct (Nat.eqb_spec i j); [lia|reflexivity].
    - destruct Hs as [-> | ->]; simpl; [reflexivity|rewrite orb_true_r; reflexivity]. }
  assert (E := HLL i j Hin Hjn). rewrite HM in E.
  rewrite (sumL_single (seq 0 n) j) in E; [apply (mul_zero_l _ _ E); apply HD; auto|apply seq_NoDup|apply in_seq; lia|].
  intros k Hk Hne. apply in_seq in Hk.
  destruct (Nat.lt_ge_cases k j) as [Hlt|Hge].
  - destruct Hs as [Hs|Hs].
    + rewrite (IH k Hlt i); [ring|lia|auto|left; exact Hs].
    + rewrite (IH k Hlt j Hlt Hjn); [ring|left; exact Hs].
  - rewrite (HLT j k); [ring|lia|lia].
Qed.

Lemma L_block i k : i < n -> k < n -> i <> k -> sel msk i = false \/ sel msk k = false -> mget N L i k = 0.
Proof.
  intros Hi Hk Hne Hs. destruct (Nat.lt_ge_cases i k) as [Hlt|Hge].
  - apply HLT; auto.
  - apply L_block_lower; [lia|auto|exact Hs].
Qed.

(* so the selected block of m is factorised by the selected block of L *)
Lemma block_factor i j : In i S -> In j S ->
  mget N m i j = sumL K S (fun k => mget N L i k * mget N L j k).
Proof.
  intros Hi Hj. apply inS in Hi, Hj. destruct Hi as [Hi Hsi], Hj as [Hj Hsj].
  rewrite <- (sumL_sel K n msk).
  - rewrite HLL by auto. rewrite masked_get by auto. rewrite Hsi, Hsj. reflexivity.
  - intros k Hk Hs. rewrite (L_block i k); [ring|auto|auto| |right; exact Hs]. intros ->. congruence.
Qed.

End Factor.

Lemma mul_xxt_wf (X : list (list K)) : wf_mat K n (mul_xxt N n X).
Proof. exact (tab_wfm n _). Qed.

Lemma mul_xxt_sym (X : list (list K)) i j : i < n -> j < n ->
  mget N (mul_xxt N n X) i j = mget N (mul_xxt N n X) j i.
Proof. intros Hi Hj. rewrite !(mget_mul_xxt K n) by auto. apply sumL_ext. intros k _. ring. Qed.

Lemma zeros_len : length (zeros N n) = n.
Proof. apply repeat_length. Qed.

Lemma inverse_pd_every_mask dense (m L R : list (list K)) :
  wf_mat K n m ->
  lower_tri K n L -> diag_nonzero K n L ->
  (forall i j, i < n -> j < n ->
     sumL K (seq 0 n) (fun k => mget N L i k * mget N L j k) = mget N (masked N n msk m) i j) ->
  cholesky N n (masked N n msk m) (zmat N n) = Ok L ->
  m_inverse_v2 N dense InvPD n (Some msk) m = Ok R ->
  inv_spec K n msk m R.
Proof.
  intros Hwf HLT HD HLL Hch E.
  unfold m_inverse_v2, m_inverse_insitu, no_bufs in E. cbn [bId bA bB bL buf_m buf_v] in E.
  rewrite (reset_ones_eq N n (zeros N n) zeros_len) in E.
  rewrite (mask_ident_eq N n msk (zmat N n) m (zmat_wfm N n) Hwf) in E.
  rewrite Hch in E.
  set (U := transpose N n L) in *.
  destruct (gj_run N dense true n msk (mkSt U (ident N n) (ones N n))) as [s'| | | | | |] eqn:Er; try discriminate.
  cbn [lift_st] in E. inversion E; subst R. clear E.
  assert (HSn : forall k, In k S -> k < n) by (intros k Hk; apply inS in Hk; tauto).
  assert (HUS : upper_tri_S K S U).
  { intros r c Hr Hc Hlt. unfold U. rewrite (mget_transpose K n) by auto. apply HLT; auto. }
  assert (HUD : diag_nonzero_S K S U).
  { intros c Hc. unfold U. rewrite (mget_transpose K n) by auto. apply HD; auto. }
  assert (Hinv : inv_spec K n msk U (sx s')).
  { apply (spec_full_inv K n msk (seq 0 n)); [apply pfix_id|].
    apply (gj_run_ut_correct K dense); auto; [apply init_wf; apply transpose_wf|apply ident_upper]. }
  destruct Hinv as (HwfX & HR & HLinv & Hrows & Hzero).
  set (X := sx s') in *.
  set (Lf := mget N L). set (Uf := fun k j => mget N L j k). set (Xf := mget N X). set (XTf := fun k j => mget N X j k).
  assert (HRf : forall k j, In k S -> In j S -> mget N (mul_xxt N n X) k j = mm K n msk Xf XTf k j).
  { intros k j Hk Hj. rewrite (mget_mul_xxt K n) by auto. unfold mm. apply sumL_sel.
    intros l Hl Hs. unfold Xf, XTf. rewrite (Hzero k l Hk Hl Hs). ring. }
  assert (Hmf : forall i k, In i S -> In k S -> mget N m i k = mm K n msk Lf Uf i k).
  { intros i k Hi Hk. rewrite (block_factor m L HLT HD HLL i k Hi Hk). reflexivity. }
  assert (HUX : forall l r, In l S -> In r S -> mm K n msk Uf Xf l r = delta K l r).
  { intros l r Hl Hr. rewrite <- (HR l r Hl Hr). unfold mulS, mm. apply sumL_ext. intros k Hk.
    unfold Uf, U. rewrite (mget_transpose K n) by auto. reflexivity. }
  assert (HXU : forall l r, In l S -> In r S -> mm K n msk Xf Uf l r = delta K l r).
  { intros l r Hl Hr. rewrite <- (HLinv l r Hl Hr). unfold mulS, mm. apply sumL_ext. intros k Hk.
    unfold Uf, U. rewrite (mget_transpose K n) by auto. reflexivity. }
  (* right inverse on the selection *)
  assert (Hright : forall i j, In i S -> In j S -> mulS K S m (mul_xxt N n X) i j = delta K i j).
  { intros i j Hi Hj.
    change (mulS K S m (mul_xxt N n X) i j) with (mm K n msk (mget N m) (mget N (mul_xxt N n X)) i j).
    rewrite (mm_ext K n msk _ (mm K n msk Lf Uf) _ (mm K n msk Xf XTf) i j);
      [|intros k Hk; apply Hmf; auto|intros k Hk; apply HRf; auto].
    rewrite mm_assoc.
    rewrite (mm_ext K n msk Lf Lf _ (mm K n msk (mm K n msk Uf Xf) XTf) i j); [|reflexivity|intros k Hk; symmetry; apply mm_assoc].
    rewrite (mm_ext K n msk Lf Lf _ XTf i j); [|reflexivity|].
    2:{ intros k Hk. rewrite (mm_ext K n msk _ (delta K) XTf XTf k j); [apply mm_delta_l; auto| |reflexivity].
        intros r Hr. apply HUX; auto. }
    rewrite delta_sym. rewrite <- (HXU j i Hj Hi). unfold mm. apply sumL_ext. intros l _.
    unfold Lf, XTf, Xf, Uf. ring. }
  (* rows outside the selection are rows of the identity *)
  assert (Hout : forall i j, i < n -> j < n -> sel msk i = false -> mget N (mul_xxt N n X) i j = delta K i j).
  { intros i j Hi Hj Hs. rewrite (mget_mul_xxt K n) by auto.
    rewrite (sumL_ext K _ _ (fun k => delta K i k * mget N X j k)).
    2:{ intros k Hk. apply in_seq in Hk. unfold mget at 1. rewrite (Hrows i Hi Hs).
        change (vget N (row (ident N n) i) k) with (mget N (ident N n) i k). rewrite mget_ident by (auto; lia). reflexivity. }
    rewrite sumL_delta; [|apply seq_NoDup|apply in_seq; lia].
    destruct (sel msk j) eqn:Hsj.
    - rewrite (Hzero j i); [|apply inS; auto|auto|auto]. unfold delta. destruct (Nat.eqb_spec i j) as [->|]; [congruence|reflexivity].
    - unfold mget. rewrite (Hrows j Hj Hsj). change (vget N (row (ident N n) j) i) with (mget N (ident N n) j i).
      rewrite mget_ident by auto. apply delta_sym. }
  split; [apply mul_xxt_wf|]. split; [exact Hright|]. split; [|split].
  - (* left inverse: R and the selected block of m are symmetric *)
    intros i j Hi Hj. rewrite delta_sym. rewrite <- (Hright j i Hj Hi). unfold mulS. apply sumL_ext. intros k Hk.
    rewrite (mul_xxt_sym X i k) by auto. rewrite (Hmf k j Hk Hj), (Hmf j k Hj Hk).
    replace (mm K n msk Lf Uf k j) with (mm K n msk Lf Uf j k); [ring|].
    unfold mm. apply sumL_ext. intros l _. unfold Lf, Uf. ring.
  - intros i Hi Hs. apply (nth_ext_eq 0).
    + rewrite (wf_row_len K n _ i (mul_xxt_wf X) Hi), (wf_row_len K n _ i (ident_wf K n) Hi). reflexivity.
    + intros k Hk. rewrite (wf_row_len K n _ i (mul_xxt_wf X) Hi) in Hk.
      change (mget N (mul_xxt N n X) i k = mget N (ident N n) i k). rewrite mget_ident by auto. apply Hout; auto.
  - intros r k Hr Hk Hs. rewrite mul_xxt_sym by auto. rewrite Hout by auto.
    unfold delta. destruct (Nat.eqb_spec k r) as [->|]; [|reflexivity]. apply inS in Hr. destruct Hr. congruence.
Qed.

(* converse direction of the block-diagonal argument: a factorisation of the selected block extends
   to one of the masked matrix (identity outside the selection) *)
Lemma masked_factor_extends (m Ls : list (list K)) :
  (forall i j, In i S -> In j S -> mget N m i j = sumL K S (fun k => mget N Ls i k * mget N Ls j k)) ->
  let Lx := fun i k => if (sel msk i && sel msk k)%bool then mget N Ls i k else delta K i k in
  forall i j, i < n -> j < n ->
    sumL K (seq 0 n) (fun k => Lx i k * Lx j k) = mget N (masked N n msk m) i j.
Proof.
  intros Hf Lx i j Hi Hj. rewrite masked_get by auto. unfold Lx.
  destruct (sel msk i) eqn:Hsi; simpl.
  - destruct (sel msk j) eqn:Hsj; simpl.
    + rewrite Hf by (apply inS; auto). rewrite (sumL_sel K n msk).
      * apply sumL_ext. intros k Hk. apply inS in Hk. destruct Hk as [_ Hs]. rewrite Hs. reflexivity.
      * intros k Hk Hs. rewrite Hs. unfold delta. destruct (Nat.eqb_spec i k) as [->|]; [congruence|ring].
    + rewrite (sumL_ext K _ _ (fun k => delta K j k * (if sel msk k then mget N Ls i k else delta K i k))).
      2:{ intros k _. ring. }
      rewrite sumL_delta; [|apply seq_NoDup|apply in_seq; lia]. rewrite Hsj. reflexivity.
  - rewrite (sumL_delta K (seq 0 n) i (fun k => if (sel msk j && sel msk k)%bool then mget N Ls j k else delta K j k)); [|apply seq_NoDup|apply in_seq; lia]. rewrite Hsi, andb_false_r. apply delta_sym.
Qed.

End PD.

(* back substitution with caller-supplied buffers (HEAD, 175f3f7): R * x = b whatever InSitu.A / InSitu.X held *)
From ADV Require Import C04.ProofsBS C04.ProofsHist.
Lemma backsub_insitu_correct (K : fld) (n : nat) (R : list (list K)) (b : list K) (buf : option (list (list K))) (x0 : list K) :
  wf_mat K n R -> (forall bf, buf = Some bf -> wf_mat K n bf) ->
  upper_tri K n R -> diag_nonzero K n R -> length x0 = n ->
  forall i, i < n -> mulSv K (seq 0 n) R (backsub_run_v2 (NumK K) n R (Some b) buf x0) i = vget (NumK K) b i.
Proof.
  intros HR Hb HU HD H0 i Hi.
  rewrite (backsub_run_v2_indep (NumK K) n R (Some b) buf x0 x0 HR Hb H0 H0).
  unfold backsub_run_v2. apply backsub_correct; auto.
Qed.

(* a non-trivial instance over Qc (whose fsqrt is the identity, so the factor must have unit
   diagonal): selection {1,2} — NOT a leading block — of a 3x3 matrix; block [[1,2],[2,5]], inverse [[5,-2],[-2,1]] *)
From Coq Require Import ZArith QArith Qcanon.
From ADV Require Import C04.ProofsEx.
Local Open Scope nat_scope.
Definition Mpd := qc [[7;3;4];[3;1;2];[4;2;5]]%Z.
Definition Lpd := qc [[1;0;0];[0;1;0];[0;2;1]]%Z.
Lemma pd_instance :
  wf_mat QcK 3 Mpd /\
  lower_tri QcK 3 Lpd /\ diag_nonzero QcK 3 Lpd /\
  (forall i j, i < 3 -> j < 3 ->
     sumL QcK (seq 0 3) (fun k => fmul QcK (mget (NumK QcK) Lpd i k) (mget (NumK QcK) Lpd j k))
     = mget (NumK QcK) (masked (NumK QcK) 3 [false;true;true] Mpd) i j) /\
  (exists L, cholesky (NumK QcK) 3 (masked (NumK QcK) 3 [false;true;true] Mpd) (zmat (NumK QcK) 3) = Ok L /\
             map (map this) L = map (map this) Lpd) /\
  (exists R, m_inverse_v2 (NumK QcK) true InvPD 3 (Some [false;true;true]) Mpd = Ok R /\
             map (map this) R = map (map this) (qc [[1;0;0];[0;5;-2];[0;-2;1]]%Z)).
Proof.
  split; [repeat split; cbn; repeat constructor|].
  split; [intros i j Hij Hj; destruct j as [|[|[|j]]]; destruct i as [|[|i]]; try lia; reflexivity|].
  split; [intros i Hi; destruct i as [|[|[|i]]]; try lia; apply Qc_nonzero_b; reflexivity|].
  split; [intros i j Hi Hj; destruct i as [|[|[|i]]]; try lia; destruct j as [|[|[|j]]]; try lia;
          apply Qc_is_canon; vm_compute; reflexivity|].
  split; eexists; (split; [vm_compute; reflexivity|vm_compute; reflexivity]).
Qed.
