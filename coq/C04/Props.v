(* C04 — property theorems (statements only; proofs live in Proofs*.v).
   K ranges over ALL fields (Spec.fld); n, matrices, masks, permutations are
   universally quantified, no bounds. *)
From Coq Require Import List Bool Arith ZArith Permutation.
From ADV Require Import Base.Num C04.Model C04.Spec C04.ProofsDet C04.ProofsBS C04.ProofsPerm C04.ProofsGJ.
Import ListNotations.

(* ---- (4) determinant ---- *)
Theorem determinant_naive_is_laplace :
  forall (K : fld) (n : nat) (a : list (list K)), 1 <= n ->
    det_naive (NumK K) n a = det_laplace K n a.
Proof. exact det_naive_laplace. Qed.

Theorem determinant_2x2 :
  forall (K : fld) (a : list (list K)),
    det_naive (NumK K) 2 a =
    fsub K (fmul K (mget (NumK K) a 0 0) (mget (NumK K) a 1 1)) (fmul K (mget (NumK K) a 1 0) (mget (NumK K) a 0 1)).
Proof. intros; reflexivity. Qed.

Theorem determinant_3x3 :
  forall (K : fld) (a : list (list K)),
    let g := mget (NumK K) a in
    det_naive (NumK K) 3 a =
    fadd K (fsub K (fmul K (g 0 0) (fsub K (fmul K (g 1 1) (g 2 2)) (fmul K (g 1 2) (g 2 1))))
                   (fmul K (g 0 1) (fsub K (fmul K (g 1 0) (g 2 2)) (fmul K (g 1 2) (g 2 0)))))
           (fmul K (g 0 2) (fsub K (fmul K (g 1 0) (g 2 1)) (fmul K (g 1 1) (g 2 0)))).
Proof. intros. unfold g. rewrite det_naive_laplace by auto. apply det_laplace_3. Qed.

Theorem determinant_upper_triangular :
  forall (K : fld) (n : nat) (a : list (list K)), 1 <= n -> upper_tri K n a ->
    det_naive (NumK K) n a = prodL K (seq 0 n) (fun i => mget (NumK K) a i i).
Proof. intros. rewrite det_naive_laplace by auto. apply det_upper_tri; auto. Qed.

Theorem determinant_lower_triangular :
  forall (K : fld) (n : nat) (a : list (list K)), 1 <= n -> lower_tri K n a ->
    det_naive (NumK K) n a = prodL K (seq 0 n) (fun i => mget (NumK K) a i i).
Proof. intros. rewrite det_naive_laplace by auto. apply det_lower_tri; auto. Qed.

Theorem determinant_zero_first_row :
  forall (K : fld) (n : nat) (a : list (list K)), 1 <= n ->
    (forall j, j < n -> mget (NumK K) a 0 j = f0 K) -> det_naive (NumK K) n a = f0 K.
Proof. intros. rewrite det_naive_laplace by auto. apply det_first_row_zero; auto. Qed.

Theorem determinant_pd_is_squared_cholesky_diagonal :
  forall (K : fld) (n : nat) (m L : list (list K)),
    cholesky (NumK K) n m (zmat (NumK K) n) = Ok L ->
    det_pd (NumK K) n m = Ok (let d := prodL K (seq 0 n) (fun i => mget (NumK K) L i i) in fmul K d d).
Proof. exact det_pd_value. Qed.

(* ---- (1) permutation bookkeeping ---- *)
(* permuteRows(a, x, b, p) is exactly the gather "row i := old row p[i]", for EVERY
   permutation p, every carrier and every size; its chase loop never exhausts the fuel.
   (This is where the repaired defect a0ceb1f lived.) *)
Theorem permute_rows_is_gather :
  forall (A : Type) (N : Num A) (n : nat) (p : list nat) (s : st (A:=A)),
    Permutation p (seq 0 n) -> length (sa s) = n -> length (sx s) = n -> length (sb s) = n ->
    permute_rows N s p = Some (gather_st N s p).
Proof. exact permute_rows_gather. Qed.

Example permute_rows_is_gather_nontrivial :
  permute_rows NumZ (mkSt [[10];[11];[12]] [[20];[21];[22]] [30;31;32])%Z [2;0;1]
  = Some (mkSt [[12];[10];[11]] [[22];[20];[21]] [32;30;31])%Z.
Proof. reflexivity. Qed.

(* the virtual row permutation of the forward phase stays a permutation of 0..n-1
   (and fixes the rows outside the selected sub-matrix), whatever the pivoting rule decides *)
Theorem forward_phase_keeps_permutation :
  forall (K : fld) (n : nat) (msk : list bool) (s : st (A:=K)),
    let p := fp (fwd (NumK K) n msk s) in
    Permutation p (seq 0 n) /\ (forall r, r < n -> sel msk r = false -> pget p r = r).
Proof. intros K n msk s. exact (fwd_pfix K n msk s). Qed.

(* what the containers' PermuteRows(pi) computes: a rearrangement of the rows for every
   in-range pi (product of the interchanges (i pi[i]), pi[i] > i) ... *)
Theorem container_permute_rows_rearranges :
  forall (A : Type) (n : nat) (pi : list nat) (m : list (list A)),
    length m = n -> (forall i, i < n -> pget pi i < n) ->
    exists m', mat_permute_rows n pi m = Ok m' /\ Permutation m' m.
Proof. exact mat_permute_rows_rearranges. Qed.

(* ... which is not the gather by pi (3-cycle), and whose guard admits pi[i] = n *)
Theorem container_permute_rows_is_not_gather_refuted :
  mat_permute_rows 3 [2;0;1] [[0];[1];[2]] = Ok [[2];[1];[0]] /\
  gather [] [[0];[1];[2]] [2;0;1] = [[2];[0];[1]].
Proof. exact mat_permute_rows_not_gather. Qed.

(* ---- (2) back substitution ---- *)
Theorem back_substitution_correct :
  forall (K : fld) (n : nat) (R : list (list K)) (b x0 : list K),
    upper_tri K n R -> diag_nonzero K n R -> length x0 = n ->
    forall i, i < n -> mulSv K (seq 0 n) R (backsub (NumK K) n R (Some b) x0) i = vget (NumK K) b i.
Proof. exact backsub_correct. Qed.

Theorem back_substitution_nil_rhs :
  forall (K : fld) (n : nat) (R : list (list K)) (x0 : list K),
    upper_tri K n R -> diag_nonzero K n R -> length x0 = n ->
    forall i, i < n -> mulSv K (seq 0 n) R (backsub (NumK K) n R None x0) i = f0 K.
Proof. exact backsub_nil_correct. Qed.

(* ---- (3) Gauss-Jordan: the row-operation invariant, step level ----
   PARTIAL.  Proved: every elimination step "row p[j] -= c * row p[i]" of the forward phase,
   as coded (columns k >= i of the selection only), preserves the solution set of
   [a | x | b] on the selected sub-matrix for EVERY multiplier c, provided row p[i] is zero
   left of column i (the shape the earlier steps establish), and with a non-zero pivot it
   zeroes a[p[j],i].  Missing for the full statement gj_spec (A_S x' = x0_S, A_S b' = b0_S,
   a' = I_S): the induction over the column loop and the shape invariant of the back phase;
   until then the defining equations are decided per sampled case by the exact rational
   residual goals KRes/KResV of the correspondence. *)
Theorem gauss_jordan_elimination_step_sound_partial :
  forall (K : fld) (n : nat) (msk : list bool) (p : list nat) (s : st (A:=K)) (i j : nat),
    wf_st K n s ->
    In (pget p j) (idxs msk 0 n) -> In (pget p i) (idxs msk 0 n) -> pget p i <> pget p j ->
    (forall k, In k (idxs msk 0 n) -> k < i -> mget (NumK K) (sa s) (pget p i) k = f0 K) ->
    imp K n msk (elim_row (NumK K) n i msk p s j) s.
Proof. exact elim_row_imp. Qed.

Theorem gauss_jordan_elimination_step_zeroes_partial :
  forall (K : fld) (n : nat) (msk : list bool) (p : list nat) (s : st (A:=K)) (i j : nat),
    wf_st K n s -> pget p j < n -> pget p i < n -> pget p i <> pget p j -> In i (idxs msk 0 n) ->
    mget (NumK K) (sa s) (pget p i) i <> f0 K ->
    mget (NumK K) (sa (elim_row (NumK K) n i msk p s j)) (pget p j) i = f0 K.
Proof. exact elim_row_zero. Qed.

(* the generic row operations behind it: subtracting a multiple of another row, and
   dividing a row by a non-zero scalar, never lose solutions *)
Theorem row_axpy_preserves_solutions :
  forall (K : fld) (n : nat) (msk : list bool) (s s' : st (A:=K)) (t u : nat) (m : K),
    In t (idxs msk 0 n) -> In u (idxs msk 0 n) -> t <> u ->
    (forall r, In r (idxs msk 0 n) -> r <> t ->
        row (sa s') r = row (sa s) r /\ forall c, okcol n msk c -> rhs K s' c r = rhs K s c r) ->
    (forall k, In k (idxs msk 0 n) ->
        mget (NumK K) (sa s') t k = fsub K (mget (NumK K) (sa s) t k) (fmul K m (mget (NumK K) (sa s) u k))) ->
    (forall c, okcol n msk c -> rhs K s' c t = fsub K (rhs K s c t) (fmul K m (rhs K s c u))) ->
    imp K n msk s' s.
Proof. exact imp_axpy. Qed.

Theorem row_scale_preserves_solutions :
  forall (K : fld) (n : nat) (msk : list bool) (s s' : st (A:=K)) (t : nat) (c0 : K),
    In t (idxs msk 0 n) -> c0 <> f0 K ->
    (forall r, In r (idxs msk 0 n) -> r <> t ->
        row (sa s') r = row (sa s) r /\ forall c, okcol n msk c -> rhs K s' c r = rhs K s c r) ->
    (forall k, In k (idxs msk 0 n) -> mget (NumK K) (sa s') t k = fdiv K (mget (NumK K) (sa s) t k) c0) ->
    (forall c, okcol n msk c -> rhs K s' c t = fdiv K (rhs K s c t) c0) ->
    imp K n msk s' s.
Proof. exact imp_scale. Qed.
