(* C04 — property theorems (statements only; proofs live in Proofs*.v).
   K ranges over ALL fields (Spec.fld); n, matrices, masks, permutations are
   universally quantified, no bounds. *)
From Coq Require Import List Bool Arith ZArith Permutation Lia.
From ADV Require Import Base.Num C04.Model C04.Spec C04.ProofsDet C04.ProofsBS C04.ProofsPerm C04.ProofsGJ.
From ADV Require Import C04.ProofsGJ2 C04.ProofsGJ3 C04.ProofsGJ4 C04.ProofsSing C04.ProofsInv C04.ProofsDet2 C04.ProofsEx.
From ADV Require Import C04.ProofsNaN C04.ProofsNaN2 C04.ProofsDet3.
From ADV Require Import C04.Model2 C04.ProofsBuf C04.ProofsHist C04.ProofsPD.
From Coq Require Import Reals.
From ADV Require Import C10.Gen C04.ModelV C04.ModelV2 C04.ProofsV C04.ProofsV2 C04.ProofsV3 C04.ProofsV4.
From ADV Require Import C04.Model3 C04.ProofsAl.
Import ListNotations.
Local Open Scope nat_scope.

(* ---- (4) determinant ---- *)
Theorem determinant_naive_is_laplace :
  forall (K : fld) (n : nat) (a : list (list K)), 1 <= n ->
    det_naive (NumK K) n a = det_laplace K n a.
Proof. exact det_naive_laplace. Qed.

Theorem determinant_2x2 :
  forall (K : fld) (a : list (list K)),
    det_naive (NumK K) 2 a =
    fsub K (fmul K (mget (NumK K) a 0 0) (mget (NumK K) a 1 1)) (fmul K (mget (NumK K) a 1 0) (mget (NumK K) a 0 1)).
Proof. intros; reflexivity. Qed.

Theorem determinant_3x3 :
  forall (K : fld) (a : list (list K)),
    let g := mget (NumK K) a in
    det_naive (NumK K) 3 a =
    fadd K (fsub K (fmul K (g 0 0) (fsub K (fmul K (g 1 1) (g 2 2)) (fmul K (g 1 2) (g 2 1))))
                   (fmul K (g 0 1) (fsub K (fmul K (g 1 0) (g 2 2)) (fmul K (g 1 2) (g 2 0)))))
           (fmul K (g 0 2) (fsub K (fmul K (g 1 0) (g 2 1)) (fmul K (g 1 1) (g 2 0)))).
Proof. intros. unfold g. rewrite det_naive_laplace by auto. apply det_laplace_3. Qed.

Theorem determinant_upper_triangular :
  forall (K : fld) (n : nat) (a : list (list K)), 1 <= n -> upper_tri K n a ->
    det_naive (NumK K) n a = prodL K (seq 0 n) (fun i => mget (NumK K) a i i).
Proof. intros. rewrite det_naive_laplace by auto. apply det_upper_tri; auto. Qed.

Theorem determinant_lower_triangular :
  forall (K : fld) (n : nat) (a : list (list K)), 1 <= n -> lower_tri K n a ->
    det_naive (NumK K) n a = prodL K (seq 0 n) (fun i => mget (NumK K) a i i).
Proof. intros. rewrite det_naive_laplace by auto. apply det_lower_tri; auto. Qed.

Theorem determinant_zero_first_row :
  forall (K : fld) (n : nat) (a : list (list K)), 1 <= n ->
    (forall j, j < n -> mget (NumK K) a 0 j = f0 K) -> det_naive (NumK K) n a = f0 K.
Proof. intros. rewrite det_naive_laplace by auto. apply det_first_row_zero; auto. Qed.

Theorem determinant_pd_is_squared_cholesky_diagonal :
  forall (K : fld) (n : nat) (m L : list (list K)),
    cholesky (NumK K) n m (zmat (NumK K) n) = Ok L ->
    det_pd (NumK K) n m = Ok (let d := prodL K (seq 0 n) (fun i => mget (NumK K) L i i) in fmul K d d).
Proof. exact det_pd_value. Qed.

(* ---- (1) permutation bookkeeping ---- *)
(* permuteRows(a, x, b, p) is exactly the gather "row i := old row p[i]", for EVERY
   permutation p, every carrier and every size; its chase loop never exhausts the fuel.
   (This is where the repaired defect a0ceb1f lived.) *)
Theorem permute_rows_is_gather :
  forall (A : Type) (N : Num A) (n : nat) (p : list nat) (s : st (A:=A)),
    Permutation p (seq 0 n) -> length (sa s) = n -> length (sx s) = n -> length (sb s) = n ->
    permute_rows N s p = Some (gather_st N s p).
Proof. exact permute_rows_gather. Qed.

Example permute_rows_is_gather_nontrivial :
  permute_rows NumZ (mkSt [[10];[11];[12]] [[20];[21];[22]] [30;31;32])%Z [2;0;1]
  = Some (mkSt [[12];[10];[11]] [[22];[20];[21]] [32;30;31])%Z.
Proof. reflexivity. Qed.

(* the virtual row permutation of the forward phase stays a permutation of 0..n-1
   (and fixes the rows outside the selected sub-matrix), whatever the pivoting rule decides *)
Theorem forward_phase_keeps_permutation :
  forall (K : fld) (n : nat) (msk : list bool) (s : st (A:=K)),
    let p := fp (fwd (NumK K) n msk s) in
    Permutation p (seq 0 n) /\ (forall r, r < n -> sel msk r = false -> pget p r = r).
Proof. intros K n msk s. exact (fwd_pfix K n msk s). Qed.

(* what the containers' PermuteRows(pi) computes: a rearrangement of the rows for every
   in-range pi (product of the interchanges (i pi[i]), pi[i] > i) ... *)
Theorem container_permute_rows_rearranges :
  forall (A : Type) (n : nat) (pi : list nat) (m : list (list A)),
    length m = n -> (forall i, i < n -> pget pi i < n) ->
    exists m', mat_permute_rows n pi m = Ok m' /\ Permutation m' m.
Proof. exact mat_permute_rows_rearranges. Qed.

(* ... which is not the gather by pi (3-cycle), and whose guard admits pi[i] = n *)
Theorem container_permute_rows_is_not_gather_refuted :
  mat_permute_rows 3 [2;0;1] [[0];[1];[2]] = Ok [[2];[1];[0]] /\
  gather [] [[0];[1];[2]] [2;0;1] = [[2];[0];[1]].
Proof. exact mat_permute_rows_not_gather. Qed.

(* ---- (2) back substitution ---- *)
Theorem back_substitution_correct :
  forall (K : fld) (n : nat) (R : list (list K)) (b x0 : list K),
    upper_tri K n R -> diag_nonzero K n R -> length x0 = n ->
    forall i, i < n -> mulSv K (seq 0 n) R (backsub (NumK K) n R (Some b) x0) i = vget (NumK K) b i.
Proof. exact backsub_correct. Qed.

Theorem back_substitution_nil_rhs :
  forall (K : fld) (n : nat) (R : list (list K)) (x0 : list K),
    upper_tri K n R -> diag_nonzero K n R -> length x0 = n ->
    forall i, i < n -> mulSv K (seq 0 n) R (backsub (NumK K) n R None x0) i = f0 K.
Proof. exact backsub_nil_correct. Qed.

(* ---- (3) Gauss-Jordan: the full theorem ----
   gaussJordan.Run(a, x, b, Submatrix{msk}) over an arbitrary field, every n, every input, every
   mask, every pivoting rule (fabs / fltb are uninterpreted): if no pivot is zero, the run returns
   and its result satisfies the whole contract gj_spec_full:
     A_S * x' = x0_S,  A_S * b' = b0_S,  a'_S = I_S,  unselected rows untouched, result well-shaped,
     entries (r selected, k unselected) of a and x are moved with their rows by the final gather
     (a'[r,k] = a0[p[r],k], x'[r,k] = x0[p[r],k], p = the accumulated pivot permutation), and for
     x0_S = I_S also x'_S * A_S = I_S.
   Over a field [is_nan] is constantly false, so "the Go code does not take a singular exit" is
   the hypothesis "no logged pivot is zero" (ghost log gj_pivots; see singular_* below for
   what happens otherwise and SpecTest for the float exits). *)
Theorem gauss_jordan_correct :
  forall (K : fld) (dense : bool) (n : nat) (msk : list bool) (s0 s' : st (A:=K)),
    wf_st K n s0 -> (forall c, In c (gj_pivots (NumK K) n msk s0) -> c <> f0 K) ->
    gj_run (NumK K) dense false n msk s0 = Ok s' ->
    gj_spec_full K n msk (fp (fwd (NumK K) n msk s0)) s0 s'.
Proof. exact gj_run_correct. Qed.

Theorem gauss_jordan_returns :
  forall (K : fld) (dense : bool) (n : nat) (msk : list bool) (s0 : st (A:=K)),
    wf_st K n s0 -> (forall c, In c (gj_pivots (NumK K) n msk s0) -> c <> f0 K) ->
    exists s', gj_run (NumK K) dense false n msk s0 = Ok s'.
Proof. exact gj_run_total. Qed.

(* the hypotheses are satisfiable: the witness matrix of the repaired defect (pivot order = a
   3-cycle), and a sub-matrix selection whose pivoting swaps rows inside the selection *)
Example gauss_jordan_correct_nontrivial :
  wf_st QcK 3 W0 /\ (forall c, In c (gj_pivots (NumK QcK) 3 (all_true 3) W0) -> c <> f0 QcK) /\
  fp (fwd (NumK QcK) 3 (all_true 3) W0) = [2; 0; 1] /\
  wf_st QcK 3 W1 /\ (forall c, In c (gj_pivots (NumK QcK) 3 [true;false;true] W1) -> c <> f0 QcK) /\
  fp (fwd (NumK QcK) 3 [true;false;true] W1) = [2; 1; 0].
Proof. exact (conj W0_wf (conj W0_pivots (conj W0_perm (conj W1_wf (conj W1_pivots W1_perm))))). Qed.

(* gaussJordan.Run(..., UpperTriangular{true}): a upper triangular with non-zero diagonal on the
   selection, x0 upper triangular on the selection (the code normalises x[i,k] only for k >= i) *)
Theorem gauss_jordan_upper_triangular_correct :
  forall (K : fld) (dense : bool) (n : nat) (msk : list bool) (s0 s' : st (A:=K)),
    wf_st K n s0 ->
    upper_tri_S K (idxs msk 0 n) (sa s0) -> diag_nonzero_S K (idxs msk 0 n) (sa s0) ->
    upper_tri_S K (idxs msk 0 n) (sx s0) ->
    gj_run (NumK K) dense true n msk s0 = Ok s' ->
    gj_spec_full K n msk (seq 0 n) s0 s'.
Proof. exact gj_run_ut_correct. Qed.

Theorem gauss_jordan_upper_triangular_returns :
  forall (K : fld) (dense : bool) (n : nat) (msk : list bool) (s0 : st (A:=K)),
    wf_st K n s0 ->
    upper_tri_S K (idxs msk 0 n) (sa s0) -> diag_nonzero_S K (idxs msk 0 n) (sa s0) ->
    upper_tri_S K (idxs msk 0 n) (sx s0) ->
    exists s', gj_run (NumK K) dense true n msk s0 = Ok s'.
Proof. exact gj_run_ut_total. Qed.

(* the two loop invariants the theorem is assembled from.
   FORWARD: after the whole column loop (non-zero pivots) the invariant FInv holds at n: the state
   is row-equivalent to the input (every solution of it solves the input system, for every
   right-hand side column of x and for b), nothing outside the selection is written, p is a
   permutation fixing the unselected rows, a is zero below the virtual diagonal, and the diagonal
   entries are the logged pivots. *)
Theorem forward_phase_invariant :
  forall (K : fld) (n : nat) (msk : list bool) (s0 : st (A:=K)),
    wf_st K n s0 -> (forall c, In c (gj_pivots (NumK K) n msk s0) -> c <> f0 K) ->
    FInv K n msk s0 n (fwd (NumK K) n msk s0).
Proof. exact fwd_FInv. Qed.

(* BACK: from "upper triangular with non-zero diagonal in the virtual row order p" (BInv at n)
   the back phase returns (no NaN exit over a field) a state with a_S = I_S in the virtual row
   order (BInv at 0), again row-equivalent to the input; for every permutation p fixing the
   unselected rows and both normalisation bounds (xlo = 0 / xlo = i). *)
Theorem back_phase_invariant :
  forall (K : fld) (n : nat) (msk : list bool) (p : list nat),
    pfix n msk p ->
    forall xlo : nat -> nat,
    (forall j i, In j (idxs msk 0 n) -> In i (idxs msk 0 n) -> j < i -> xlo j <= xlo i) ->
    forall s0 s : st (A:=K),
    BInv K n msk p xlo s0 n s ->
    exists s', back (NumK K) n msk p xlo s = Some s' /\ BInv K n msk p xlo s0 0 s'.
Proof. exact back_correct. Qed.

(* step level (round 1): every elimination step "row p[j] -= c * row p[i]" as coded (columns
   k >= i of the selection only) preserves the solution set for EVERY multiplier c provided row
   p[i] is zero left of column i, and with a non-zero pivot it zeroes a[p[j],i] *)
Theorem gauss_jordan_elimination_step_sound :
  forall (K : fld) (n : nat) (msk : list bool) (p : list nat) (s : st (A:=K)) (i j : nat),
    wf_st K n s ->
    In (pget p j) (idxs msk 0 n) -> In (pget p i) (idxs msk 0 n) -> pget p i <> pget p j ->
    (forall k, In k (idxs msk 0 n) -> k < i -> mget (NumK K) (sa s) (pget p i) k = f0 K) ->
    imp K n msk (elim_row (NumK K) n i msk p s j) s.
Proof. exact elim_row_imp. Qed.

Theorem gauss_jordan_elimination_step_zeroes :
  forall (K : fld) (n : nat) (msk : list bool) (p : list nat) (s : st (A:=K)) (i j : nat),
    wf_st K n s -> pget p j < n -> pget p i < n -> pget p i <> pget p j -> In i (idxs msk 0 n) ->
    mget (NumK K) (sa s) (pget p i) i <> f0 K ->
    mget (NumK K) (sa (elim_row (NumK K) n i msk p s j)) (pget p j) i = f0 K.
Proof. exact elim_row_zero. Qed.

(* the generic row operations behind it: subtracting a multiple of another row, and
   dividing a row by a non-zero scalar, never lose solutions *)
Theorem row_axpy_preserves_solutions :
  forall (K : fld) (n : nat) (msk : list bool) (s s' : st (A:=K)) (t u : nat) (m : K),
    In t (idxs msk 0 n) -> In u (idxs msk 0 n) -> t <> u ->
    (forall r, In r (idxs msk 0 n) -> r <> t ->
        row (sa s') r = row (sa s) r /\ forall c, okcol n msk c -> rhs K s' c r = rhs K s c r) ->
    (forall k, In k (idxs msk 0 n) ->
        mget (NumK K) (sa s') t k = fsub K (mget (NumK K) (sa s) t k) (fmul K m (mget (NumK K) (sa s) u k))) ->
    (forall c, okcol n msk c -> rhs K s' c t = fsub K (rhs K s c t) (fmul K m (rhs K s c u))) ->
    imp K n msk s' s.
Proof. exact imp_axpy. Qed.

Theorem row_scale_preserves_solutions :
  forall (K : fld) (n : nat) (msk : list bool) (s s' : st (A:=K)) (t : nat) (c0 : K),
    In t (idxs msk 0 n) -> c0 <> f0 K ->
    (forall r, In r (idxs msk 0 n) -> r <> t ->
        row (sa s') r = row (sa s) r /\ forall c, okcol n msk c -> rhs K s' c r = rhs K s c r) ->
    (forall k, In k (idxs msk 0 n) -> mget (NumK K) (sa s') t k = fdiv K (mget (NumK K) (sa s) t k) c0) ->
    (forall c, okcol n msk c -> rhs K s' c t = fdiv K (rhs K s c t) c0) ->
    imp K n msk s' s.
Proof. exact imp_scale. Qed.

(* ---- (5) structurally singular input ----
   Over a field: a zero row, a zero column or two identical rows in the selected sub-matrix make
   it impossible that all logged pivots are non-zero — the elimination meets a zero pivot (the
   place where the Go code divides 0/0 and takes its "computationally singular" exit, see
   SpecTest.singular_float_dense, singular_float_generic).  The pivots depend on a only, so this holds for every x, b. *)
Theorem singular_zero_row_hits_zero_pivot :
  forall (K : fld) (n : nat) (msk : list bool) (s0 : st (A:=K)), wf_st K n s0 ->
    forall r, zero_row K (idxs msk 0 n) (sa s0) r ->
    ~ (forall c, In c (gj_pivots (NumK K) n msk s0) -> c <> f0 K).
Proof. exact zero_row_zero_pivot. Qed.

Theorem singular_zero_column_hits_zero_pivot :
  forall (K : fld) (n : nat) (msk : list bool) (s0 : st (A:=K)), wf_st K n s0 ->
    forall c, zero_col K (idxs msk 0 n) (sa s0) c ->
    ~ (forall c, In c (gj_pivots (NumK K) n msk s0) -> c <> f0 K).
Proof. exact zero_col_zero_pivot. Qed.

Theorem singular_identical_rows_hit_zero_pivot :
  forall (K : fld) (n : nat) (msk : list bool) (s0 : st (A:=K)), wf_st K n s0 ->
    forall r1 r2, same_rows K (idxs msk 0 n) (sa s0) r1 r2 ->
    ~ (forall c, In c (gj_pivots (NumK K) n msk s0) -> c <> f0 K).
Proof. exact same_rows_zero_pivot. Qed.

(* and whatever a run returns on such input, it is not a solution: no right inverse exists for a
   zero row / identical rows, no left inverse for a zero column *)
Theorem singular_zero_row_no_inverse :
  forall (K : fld) (n : nat) (msk : list bool) (a x : list (list K)) r,
    zero_row K (idxs msk 0 n) a r -> mulS K (idxs msk 0 n) a x r r <> f1 K.
Proof. exact zero_row_no_right_inverse. Qed.

Theorem singular_identical_rows_no_inverse :
  forall (K : fld) (n : nat) (msk : list bool) (a x : list (list K)) r1 r2,
    same_rows K (idxs msk 0 n) a r1 r2 ->
    ~ (mulS K (idxs msk 0 n) a x r1 r1 = f1 K /\ mulS K (idxs msk 0 n) a x r2 r1 = f0 K).
Proof. exact same_rows_no_right_inverse. Qed.

Theorem singular_zero_column_no_inverse :
  forall (K : fld) (n : nat) (msk : list bool) (a x : list (list K)) c,
    zero_col K (idxs msk 0 n) a c -> mulS K (idxs msk 0 n) x a c c <> f1 K.
Proof. exact zero_col_no_left_inverse. Qed.

(* ---- (3') matrixInverse.Run ---- *)
(* plain mode: X is a two-sided inverse of the selected block, identity rows outside, zero in
   the (selected row, unselected column) entries *)
Theorem matrix_inverse_correct :
  forall (K : fld) (n : nat) (msk : list bool) (dense : bool) (m X : list (list K)),
    wf_mat K n m ->
    (forall c, In c (gj_pivots (NumK K) n msk (mkSt m (ident (NumK K) n) (ones (NumK K) n))) -> c <> f0 K) ->
    m_inverse (NumK K) dense InvPlain n msk m = Ok X -> inv_spec K n msk m X.
Proof. exact inverse_plain_correct. Qed.

Theorem matrix_inverse_returns :
  forall (K : fld) (n : nat) (msk : list bool) (dense : bool) (m : list (list K)),
    wf_mat K n m ->
    (forall c, In c (gj_pivots (NumK K) n msk (mkSt m (ident (NumK K) n) (ones (NumK K) n))) -> c <> f0 K) ->
    exists X, m_inverse (NumK K) dense InvPlain n msk m = Ok X.
Proof. exact inverse_plain_total. Qed.

(* no Submatrix option: A * X = I and X * A = I *)
Theorem matrix_inverse_whole_matrix :
  forall (K : fld) (dense : bool) (n : nat) (m X : list (list K)),
    wf_mat K n m ->
    (forall c, In c (gj_pivots (NumK K) n (all_true n) (mkSt m (ident (NumK K) n) (ones (NumK K) n))) -> c <> f0 K) ->
    m_inverse (NumK K) dense InvPlain n (all_true n) m = Ok X ->
    (forall i j, i < n -> j < n -> mulS K (seq 0 n) m X i j = delta K i j) /\
    (forall i j, i < n -> j < n -> mulS K (seq 0 n) X m i j = delta K i j).
Proof. exact inverse_plain_full. Qed.

Theorem matrix_inverse_upper_triangular_correct :
  forall (K : fld) (n : nat) (msk : list bool) (dense : bool) (m X : list (list K)),
    wf_mat K n m -> upper_tri_S K (idxs msk 0 n) m -> diag_nonzero_S K (idxs msk 0 n) m ->
    m_inverse (NumK K) dense InvUT n msk m = Ok X -> inv_spec K n msk m X.
Proof. exact inverse_ut_correct. Qed.

Theorem matrix_inverse_upper_triangular_returns :
  forall (K : fld) (n : nat) (msk : list bool) (dense : bool) (m : list (list K)),
    wf_mat K n m -> upper_tri_S K (idxs msk 0 n) m -> diag_nonzero_S K (idxs msk 0 n) m ->
    exists X, m_inverse (NumK K) dense InvUT n msk m = Ok X.
Proof. exact inverse_ut_total. Qed.

(* PositiveDefinite mode: (L L^T)^-1 through X = (L^T)^-1, R = X X^T.  HYPOTHESES about the Cholesky
   factor (the subject of C05, not proved here): L lower triangular with non-zero diagonal and
   L * L^T = m.  This is the statement about Model.m_inverse, the model of the code BEFORE 8a0efbb (kept:
   other properties import it; it agrees with HEAD when no Submatrix option is given), which is only
   right for a LEADING BLOCK (prefix_mask n q msk).  For /repo HEAD see
   matrix_inverse_positive_definite_correct_every_mask below. *)
Theorem matrix_inverse_positive_definite_correct :
  forall (K : fld) (n : nat) (msk : list bool) (dense : bool) (q : nat) (m L R : list (list K)),
    lower_tri K n L -> diag_nonzero K n L ->
    (forall i j, i < n -> j < n ->
        sumL K (seq 0 n) (fun k => fmul K (mget (NumK K) L i k) (mget (NumK K) L j k)) = mget (NumK K) m i j) ->
    prefix_mask n q msk ->
    cholesky (NumK K) n m (zmat (NumK K) n) = Ok L ->
    m_inverse (NumK K) dense InvPD n msk m = Ok R ->
    forall i j, In i (idxs msk 0 n) -> In j (idxs msk 0 n) -> mulS K (idxs msk 0 n) m R i j = delta K i j.
Proof. exact inverse_pd_correct. Qed.

(* ---- (4') determinantNaive IS the determinant: multilinear in every row, alternating for adjacent
   rows (hence for all pairs of rows), and det I = 1 — the characterisation of det ---- *)
Theorem determinant_linear_in_first_row :
  forall (K : fld) (n : nat) (r1 r2 r3 : list K) (c : K) (rest : list (list K)), 1 <= n ->
    (forall j, j < n -> vget (NumK K) r3 j = fadd K (vget (NumK K) r1 j) (fmul K c (vget (NumK K) r2 j))) ->
    det_naive (NumK K) n (r3 :: rest) =
    fadd K (det_naive (NumK K) n (r1 :: rest)) (fmul K c (det_naive (NumK K) n (r2 :: rest))).
Proof. intros. rewrite !det_naive_laplace by auto. apply det_first_row_linear; auto. Qed.

Theorem determinant_identity :
  forall (K : fld) (n : nat), 1 <= n -> det_naive (NumK K) n (ident (NumK K) n) = f1 K.
Proof. intros. rewrite det_naive_laplace by auto. apply det_ident. Qed.

(* ---- (5') the singular exits, on a NaN-aware carrier ----
   Over a field [is_nan] is constantly false and the model's "computationally singular" exits are
   dead code.  Spec.NumO K isz is the carrier [option K]: None = any non-finite value, x / 0 = None,
   None absorbing, is_nan None = true, isz any decision procedure for x = 0 — the exits are live,
   as on binary64.  Embedding finite input (lst), the run of the SAME model text satisfies: *)

(* non-zero pivots: no singular exit; the result is the (finite) embedding of the field result,
   which satisfies the contract by gauss_jordan_correct *)
Theorem gauss_jordan_nan_aware_returns :
  forall (K : fld) (isz : K -> bool), (forall x, isz x = true <-> x = f0 K) ->
  forall (n : nat) (msk : list bool) (dense : bool) (s0 : st (A:=K)),
    wf_st K n s0 -> (forall c, In c (gj_pivots (NumK K) n msk s0) -> c <> f0 K) ->
    exists s', gj_run (NumK K) dense false n msk s0 = Ok s' /\
               gj_run (NumO K isz) dense false n msk (lst K s0) = Ok (lst K s').
Proof. exact gj_run_nan_aware. Qed.

Theorem gauss_jordan_upper_triangular_nan_aware_returns :
  forall (K : fld) (isz : K -> bool), (forall x, isz x = true <-> x = f0 K) ->
  forall (n : nat) (msk : list bool) (dense : bool) (s0 : st (A:=K)),
    wf_st K n s0 ->
    upper_tri_S K (idxs msk 0 n) (sa s0) -> diag_nonzero_S K (idxs msk 0 n) (sa s0) ->
    upper_tri_S K (idxs msk 0 n) (sx s0) ->
    exists s', gj_run (NumK K) dense true n msk s0 = Ok s' /\
               gj_run (NumO K isz) dense true n msk (lst K s0) = Ok (lst K s').
Proof. exact gj_run_ut_nan_aware. Qed.

(* every run is one of: all pivots non-zero and the finite field result  /  the singular exit
   (the error "system is computationally singular" on BOTH paths at HEAD: /repo 74e12ad turned the
   generic path's panic into the fast path's error)  /  Ok with a non-finite entry in x AND in b *)
Theorem gauss_jordan_nan_aware_trichotomy :
  forall (K : fld) (isz : K -> bool), (forall x, isz x = true <-> x = f0 K) ->
  forall (n : nat) (msk : list bool) (dense : bool) (s0 : st (A:=K)), wf_st K n s0 ->
    ((forall c, In c (gj_pivots (NumK K) n msk s0) -> c <> f0 K) /\
     exists s', gj_run (NumK K) dense false n msk s0 = Ok s' /\
                gj_run (NumO K isz) dense false n msk (lst K s0) = Ok (lst K s'))
    \/ gj_run (NumO K isz) dense false n msk (lst K s0) = ErrSingular
    \/ exists s', gj_run (NumO K isz) dense false n msk (lst K s0) = Ok s' /\ nonfinite K isz n s'.
Proof. exact gj_nan_aware_cases. Qed.

(* a finite Ok result is the field result, and then no pivot was zero: "returns Ok finite" => contract *)
Theorem gauss_jordan_nan_aware_finite_result_sound :
  forall (K : fld) (isz : K -> bool), (forall x, isz x = true <-> x = f0 K) ->
  forall (n : nat) (msk : list bool) (dense : bool) (s0 : st (A:=K)) (so : st (A:=option K)),
    wf_st K n s0 ->
    gj_run (NumO K isz) dense false n msk (lst K s0) = Ok so -> ~ nonfinite K isz n so ->
    (forall c, In c (gj_pivots (NumK K) n msk s0) -> c <> f0 K) /\
    exists s', gj_run (NumK K) dense false n msk s0 = Ok s' /\ so = lst K s'.
Proof. exact gj_nan_aware_finite_sound. Qed.

(* structurally singular input (zero row / zero column / two identical rows in the selected
   sub-matrix): the run takes the singular exit or returns non-finite entries — never a finite
   result presented as the answer *)
Theorem singular_structure_never_finite :
  forall (K : fld) (isz : K -> bool), (forall x, isz x = true <-> x = f0 K) ->
  forall (n : nat) (msk : list bool) (dense : bool) (s0 : st (A:=K)), wf_st K n s0 ->
    (exists r, zero_row K (idxs msk 0 n) (sa s0) r) \/ (exists c, zero_col K (idxs msk 0 n) (sa s0) c) \/
    (exists r1 r2, same_rows K (idxs msk 0 n) (sa s0) r1 r2) ->
    gj_run (NumO K isz) dense false n msk (lst K s0) = ErrSingular \/
    exists s', gj_run (NumO K isz) dense false n msk (lst K s0) = Ok s' /\ nonfinite K isz n s'.
Proof. exact singular_never_finite. Qed.

Theorem matrix_inverse_singular_never_finite :
  forall (K : fld) (isz : K -> bool), (forall x, isz x = true <-> x = f0 K) ->
  forall (n : nat) (msk : list bool) (dense : bool) (m : list (list K)), wf_mat K n m ->
    (exists r, zero_row K (idxs msk 0 n) m r) \/ (exists c, zero_col K (idxs msk 0 n) m c) \/
    (exists r1 r2, same_rows K (idxs msk 0 n) m r1 r2) ->
    m_inverse (NumO K isz) dense InvPlain n msk (lm K m) = ErrSingular \/
    exists X, m_inverse (NumO K isz) dense InvPlain n msk (lm K m) = Ok X /\
              exists r k, r < n /\ mget (NumO K isz) X r k = None.
Proof. exact inverse_singular_never_finite. Qed.

Theorem matrix_inverse_nan_aware_returns :
  forall (K : fld) (isz : K -> bool), (forall x, isz x = true <-> x = f0 K) ->
  forall (n : nat) (msk : list bool) (dense : bool) (m : list (list K)), wf_mat K n m ->
    (forall c, In c (gj_pivots (NumK K) n msk (mkSt m (ident (NumK K) n) (ones (NumK K) n))) -> c <> f0 K) ->
    exists X, m_inverse (NumK K) dense InvPlain n msk m = Ok X /\
              m_inverse (NumO K isz) dense InvPlain n msk (lm K m) = Ok (lm K X).
Proof. exact inverse_nan_aware. Qed.

(* instances: the decision procedure exists for Qc; zero column -> error (dense path), identical rows ->
   the same error (generic path), regular input -> Ok *)
Example nan_aware_instances :
  (forall x : QcK, qisz x = true <-> x = f0 QcK) /\
  gj_run (NumO QcK qisz) true false 2 (all_true 2)
         (lst QcK (mkSt (qc [[0;1];[0;2]]%Z) (ident (NumK QcK) 2) (qcv [1;1]%Z))) = ErrSingular /\
  gj_run (NumO QcK qisz) false false 3 (all_true 3)
         (lst QcK (mkSt (qc [[1;2;3];[4;5;6];[1;2;3]]%Z) (ident (NumK QcK) 3) (qcv [1;1;1]%Z))) = ErrSingular /\
  exists s', gj_run (NumO QcK qisz) true false 3 (all_true 3) (lst QcK W0) = Ok s'.
Proof. exact (conj qisz_spec (conj nan_aware_zero_column_exit (conj nan_aware_identical_rows_exit nan_aware_regular_ok))). Qed.

(* ---- (4'') multilinear in every row, alternating for adjacent rows ---- *)
Theorem determinant_linear_in_every_row :
  forall (K : fld) (i n : nat) (a b c : list (list K)) (l : K), i < n ->
    (forall r j, r < n -> j < n -> r <> i ->
        mget (NumK K) a r j = mget (NumK K) c r j /\ mget (NumK K) b r j = mget (NumK K) c r j) ->
    (forall j, j < n -> mget (NumK K) c i j = fadd K (mget (NumK K) a i j) (fmul K l (mget (NumK K) b i j))) ->
    det_naive (NumK K) n c = fadd K (det_naive (NumK K) n a) (fmul K l (det_naive (NumK K) n b)).
Proof. intros. rewrite !det_naive_laplace by lia. apply (det_row_linear K i); auto. Qed.

Theorem determinant_alternating_adjacent_rows :
  forall (K : fld) (i n : nat) (a : list (list K)), S i < n ->
    (forall j, j < n -> mget (NumK K) a i j = mget (NumK K) a (S i) j) ->
    det_naive (NumK K) n a = f0 K.
Proof. intros. rewrite det_naive_laplace by lia. apply (det_adjacent_rows_equal K i); auto. Qed.

(* ==================================================================== round 3: /repo HEAD after 175f3f7, 8a0efbb *)

(* ---- (3'') PositiveDefinite + Submatrix for EVERY mask (Model2.m_inverse_v2) ----
   At HEAD the matrix is masked to the identity outside the selection S before the Cholesky step:
   M = masked m (M[i,j] = m[i,j] for i,j in S, identity entries elsewhere).  HYPOTHESES about the
   Cholesky factor of M (the subject of C05): L lower triangular, non-zero diagonal, L * L^T = M.
   CONCLUSION: the full contract of the inverse — R is a two-sided inverse of the selected block of m,
   rows outside S are identity rows, entries (selected row, unselected column) are zero — for every
   n, every mask (no prefix hypothesis), every field. *)
Theorem matrix_inverse_positive_definite_correct_every_mask :
  forall (K : fld) (n : nat) (msk : list bool) (dense : bool) (m L R : list (list K)),
    wf_mat K n m ->
    lower_tri K n L -> diag_nonzero K n L ->
    (forall i j, i < n -> j < n ->
        sumL K (seq 0 n) (fun k => fmul K (mget (NumK K) L i k) (mget (NumK K) L j k))
        = mget (NumK K) (masked (NumK K) n msk m) i j) ->
    cholesky (NumK K) n (masked (NumK K) n msk m) (zmat (NumK K) n) = Ok L ->
    m_inverse_v2 (NumK K) dense InvPD n (Some msk) m = Ok R ->
    inv_spec K n msk m R.
Proof. exact inverse_pd_every_mask. Qed.

(* the hypotheses are satisfiable by a selection that is NOT a leading block: {1,2} of a 3x3 matrix over Qc *)
Example matrix_inverse_positive_definite_every_mask_nontrivial :
  wf_mat QcK 3 Mpd /\ lower_tri QcK 3 Lpd /\ diag_nonzero QcK 3 Lpd /\
  (forall i j, i < 3 -> j < 3 ->
     sumL QcK (seq 0 3) (fun k => fmul QcK (mget (NumK QcK) Lpd i k) (mget (NumK QcK) Lpd j k))
     = mget (NumK QcK) (masked (NumK QcK) 3 [false;true;true] Mpd) i j) /\
  (exists L, cholesky (NumK QcK) 3 (masked (NumK QcK) 3 [false;true;true] Mpd) (zmat (NumK QcK) 3) = Ok L /\
             map (map Qcanon.this) L = map (map Qcanon.this) Lpd) /\
  (exists R, m_inverse_v2 (NumK QcK) true InvPD 3 (Some [false;true;true]) Mpd = Ok R /\
             map (map Qcanon.this) R = map (map Qcanon.this) (qc [[1;0;0];[0;5;-2];[0;-2;1]]%Z)).
Proof. exact pd_instance. Qed.

(* the block-diagonal argument, both directions.  (=>) any factor L of the masked matrix is block
   diagonal w.r.t. (S, complement): every off-diagonal entry with an unselected row or column index
   vanishes, hence the selected block of m is factorised by the selected block of L ... *)
Theorem masked_cholesky_factor_is_block_diagonal :
  forall (K : fld) (n : nat) (msk : list bool) (m L : list (list K)),
    lower_tri K n L -> diag_nonzero K n L ->
    (forall i j, i < n -> j < n ->
        sumL K (seq 0 n) (fun k => fmul K (mget (NumK K) L i k) (mget (NumK K) L j k))
        = mget (NumK K) (masked (NumK K) n msk m) i j) ->
    (forall i k, i < n -> k < n -> i <> k -> sel msk i = false \/ sel msk k = false -> mget (NumK K) L i k = f0 K) /\
    (forall i j, In i (idxs msk 0 n) -> In j (idxs msk 0 n) ->
        mget (NumK K) m i j = sumL K (idxs msk 0 n) (fun k => fmul K (mget (NumK K) L i k) (mget (NumK K) L j k))).
Proof.
  intros K n msk m L HLT HD HLL. split.
  - exact (L_block K n msk m L HLT HD HLL).
  - exact (block_factor K n msk m L HLT HD HLL).
Qed.

(* ... (<=) and every factorisation Ls Ls^T of the selected block extends (by the identity outside S)
   to a factorisation of the masked matrix: the masked matrix has a Cholesky-type factorisation iff
   the selected block has one *)
Theorem masked_matrix_factorisation_extends :
  forall (K : fld) (n : nat) (msk : list bool) (m Ls : list (list K)),
    (forall i j, In i (idxs msk 0 n) -> In j (idxs msk 0 n) ->
        mget (NumK K) m i j = sumL K (idxs msk 0 n) (fun k => fmul K (mget (NumK K) Ls i k) (mget (NumK K) Ls j k))) ->
    let Lx := fun i k => if (sel msk i && sel msk k)%bool then mget (NumK K) Ls i k else delta K i k in
    forall i j, i < n -> j < n ->
      sumL K (seq 0 n) (fun k => fmul K (Lx i k) (Lx j k)) = mget (NumK K) (masked (NumK K) n msk m) i j.
Proof. exact masked_factor_extends. Qed.

(* ---- (2') back substitution with caller-supplied buffers (HEAD: A is copied into InSitu.A) ----
   R * x = b whatever a well-shaped InSitu.A / InSitu.X held before *)
Theorem back_substitution_insitu_correct :
  forall (K : fld) (n : nat) (R : list (list K)) (b : list K) (buf : option (list (list K))) (x0 : list K),
    wf_mat K n R -> (forall bf, buf = Some bf -> wf_mat K n bf) ->
    upper_tri K n R -> diag_nonzero K n R -> length x0 = n ->
    forall i, i < n -> mulSv K (seq 0 n) R (backsub_run_v2 (NumK K) n R (Some b) buf x0) i = vget (NumK K) b i.
Proof. exact backsub_insitu_correct. Qed.

(* ---- (6) HISTORY INDEPENDENCE: the routines are pure functions of their arguments ----
   For EVERY carrier (binary64 and binary32 floats included; no arithmetic law is used), the result
   does not depend on the prior content of well-shaped caller-supplied buffers ... *)
Theorem back_substitution_buffer_independent :
  forall (A : Type) (N : Num A) (n : nat) (Am : list (list A)) (b : option (list A))
         (buf : option (list (list A))) (x0 x0' : list A),
    wfm n Am -> (forall bf, buf = Some bf -> wfm n bf) -> length x0 = n -> length x0' = n ->
    backsub_run_v2 N n Am b buf x0 = backsub_run_v2 N n Am b None x0'.
Proof. exact @backsub_run_v2_indep. Qed.

(* (InSitu.Id, InSitu.A, InSitu.B of matrixInverse, all three modes, with or without Submatrix;
   wf_inv_bufs excludes a caller-supplied Cholesky.L: see history_independence) *)
Theorem matrix_inverse_buffer_independent :
  forall (A : Type) (N : Num A) (dense : bool) (mode : inv_mode) (n : nat) (omsk : option (list bool))
         (bf : inv_bufs (A:=A)) (m : list (list A)),
    wfm n m -> wf_inv_bufs n bf ->
    m_inverse_insitu N dense mode n omsk bf m = m_inverse_v2 N dense mode n omsk m.
Proof. exact @m_inverse_insitu_indep. Qed.

(* ... hence not on the HISTORY of calls.  A history: the calls cs (inverse in any mode, solve, back
   substitution, determinant naive / PD / LogScale, any mix) are made one after the other; before each
   call an adversarial environment fills the caller's buffers with anything well-shaped, as a function
   of all results returned so far.  Every result equals that of the same call made FIRST, without
   buffers.  The model has no other state (no package-level variables): this is the statement the tie
   tests on the implementation with sequences of calls of different element types and routines in one
   process.  (Cholesky.L buffers are outside this theorem — exec passes none; the tie supplies dirty ones.) *)
Theorem history_independence :
  forall (A : Type) (N : Num A) (lg : A -> A) (n : nat) (env : list (result (A:=A)) -> hbufs (A:=A)),
    (forall past, wf_hbufs n (env past)) ->
    forall (cs : list (call (A:=A))) (past : list (result (A:=A))), Forall (wf_call n) cs ->
      run_hist N lg n env past cs = map (exec N lg n (fresh (A:=A))) cs.
Proof. exact @run_hist_indep. Qed.

(* ==================================================================== round 6: views of a larger workspace; LogScale *)

(* ---- (7) operands / caller-supplied in-situ buffers that are VIEWS of a larger workspace ----
   A workspace is the storage list of a dense matrix, a view is a header over it; index / Slice / T are the
   definitions REGENERATED from /repo (C10.Gen); view_ok len n h = "h is a well-formed n x n view of a storage of
   len cells" (any chain of Slice with row and column offsets, T, views of views).  For EVERY carrier: *)

(* what is written through a view is what is read back through it, ... *)
Theorem view_write_then_read :
  forall (A : Type) (N : Num A) (len n : nat) (h : hdr), view_ok len n h = true ->
  forall (s : list A) (m : list (list A)), length s = len -> wfm n m -> vload N n (vstore N n s h m) h = m.
Proof. exact @vload_vstore. Qed.

(* ... it lands in the cell index() computes, and every cell the view does not address keeps its value (frame) *)
Theorem view_write_frame :
  forall (A : Type) (N : Num A) (len n : nat) (h : hdr), view_ok len n h = true ->
  forall (s : list A) (m : list (list A)), length s = len ->
    length (vstore N n s h m) = len /\
    (forall i j k d, sidx h i j = Some k -> nth k (vstore N n s h m) d = mget N m i j) /\
    (forall k d, nohit n h k -> nth k (vstore N n s h m) d = nth k s d).
Proof. exact @vstore_frame_all. Qed.

Theorem view_read_then_write :
  forall (A : Type) (N : Num A) (len n : nat) (h : hdr), view_ok len n h = true ->
  forall (s : list A), length s = len -> vstore N n s h (vload N n s h) = s.
Proof. exact @vstore_vload. Qed.

(* (matrix).SwapRows(i, j) on a view — the element-level loop over Swap(i,k,j,k) through index() — IS the swap of
   the rows i, j of the matrix the view denotes, written through; hence (view_write_frame) no cell outside the view
   moves, whatever the offsets and the transposition flag *)
Theorem swap_rows_on_view_is_logical_swap :
  forall (A : Type) (N : Num A) (len n : nat) (h : hdr), view_ok len n h = true ->
  forall (s : list A) (i j : nat), length s = len -> i < n -> j < n ->
    v_swap_rows N n s h i j = Some (vstore N n s h (swap_l [] (vload N n s h) i j)).
Proof. exact @v_swap_rows_spec. Qed.

Example swap_rows_on_view_nontrivial :
  view_ok 30 3 HA0 = true /\ d_transposed HA0 = true /\ (0 < d_rowOffset HA0)%Z /\ (0 < d_colOffset HA0)%Z /\
  v_swap_rows NumZ 3 (map Z.of_nat (seq 0 30)) HA0 0 2 =
  Some (map Z.of_nat [0;1;2;3;4;5;  6;7;10;9;8;11;  12;13;16;15;14;17;  18;19;22;21;20;23;  24;25;26;27;28;29]).
Proof. exact (conj HA0_ok (conj eq_refl (conj eq_refl (conj eq_refl v_swap_rows_instance)))). Qed.

(* gaussJordan.Run on views a, x (of two workspaces), modelled at the element level for the one non-At access
   (permuteRows: SwapRows on the storages), IS: load the denoted matrices, run the logical model (the one all
   theorems above are about), write the result through the views — for every carrier (binary64 / binary32 included),
   both variants, every mask, every outcome *)
Theorem gauss_jordan_on_views_is_logical_run :
  forall (A : Type) (N : Num A) (lena lenx n : nat) (ha hx : hdr),
    view_ok lena n ha = true -> view_ok lenx n hx = true ->
  forall (dense ut : bool) (msk : list bool) (v : vst (A:=A)), okv lena lenx v ->
    gj_run_v N dense ut n msk ha hx v = lift_v N n ha hx v (gj_run N dense ut n msk (load_st N n ha hx v)).
Proof. exact @gj_run_v_eq. Qed.

(* hence the FULL contract on views, over every field: the matrices the views denote after the run satisfy
   gj_spec_full w.r.t. the ones they denoted before (p = the accumulated pivot permutation: row interchanges
   included), and no other cell of either workspace changes *)
Theorem gauss_jordan_on_views_correct :
  forall (K : fld) (dense : bool) (n : nat) (msk : list bool) (lena lenx : nat) (ha hx : hdr) (v v' : vst (A:=K)),
    view_ok lena n ha = true -> view_ok lenx n hx = true ->
    length (wa v) = lena -> length (wx v) = lenx -> length (vb v) = n ->
    (forall c, In c (gj_pivots (NumK K) n msk (load_st (NumK K) n ha hx v)) -> c <> f0 K) ->
    gj_run_v (NumK K) dense false n msk ha hx v = Ok v' ->
    gj_spec_full K n msk (fp (fwd (NumK K) n msk (load_st (NumK K) n ha hx v)))
                 (load_st (NumK K) n ha hx v) (load_st (NumK K) n ha hx v') /\
    length (wa v') = lena /\ length (wx v') = lenx /\
    (forall k, nohit n ha k -> nth k (wa v') (zero (NumK K)) = nth k (wa v) (zero (NumK K))) /\
    (forall k, nohit n hx k -> nth k (wx v') (zero (NumK K)) = nth k (wx v) (zero (NumK K))).
Proof. exact gj_on_views_correct. Qed.

Theorem gauss_jordan_on_views_returns :
  forall (K : fld) (dense : bool) (n : nat) (msk : list bool) (lena lenx : nat) (ha hx : hdr) (v : vst (A:=K)),
    view_ok lena n ha = true -> view_ok lenx n hx = true ->
    length (wa v) = lena -> length (wx v) = lenx -> length (vb v) = n ->
    (forall c, In c (gj_pivots (NumK K) n msk (load_st (NumK K) n ha hx v)) -> c <> f0 K) ->
    exists v', gj_run_v (NumK K) dense false n msk ha hx v = Ok v'.
Proof. exact gj_on_views_total. Qed.

Theorem gauss_jordan_upper_triangular_on_views_correct :
  forall (K : fld) (dense : bool) (n : nat) (msk : list bool) (lena lenx : nat) (ha hx : hdr) (v v' : vst (A:=K)),
    view_ok lena n ha = true -> view_ok lenx n hx = true ->
    length (wa v) = lena -> length (wx v) = lenx -> length (vb v) = n ->
    upper_tri_S K (idxs msk 0 n) (vload (NumK K) n (wa v) ha) -> diag_nonzero_S K (idxs msk 0 n) (vload (NumK K) n (wa v) ha) ->
    upper_tri_S K (idxs msk 0 n) (vload (NumK K) n (wx v) hx) ->
    gj_run_v (NumK K) dense true n msk ha hx v = Ok v' ->
    gj_spec_full K n msk (seq 0 n) (load_st (NumK K) n ha hx v) (load_st (NumK K) n ha hx v') /\
    length (wa v') = lena /\ length (wx v') = lenx /\
    (forall k, nohit n ha k -> nth k (wa v') (zero (NumK K)) = nth k (wa v) (zero (NumK K))) /\
    (forall k, nohit n hx k -> nth k (wx v') (zero (NumK K)) = nth k (wx v) (zero (NumK K))).
Proof. exact gj_ut_on_views_correct. Qed.

(* the hypotheses are satisfiable by views with non-zero row AND column offsets, one of them transposed, the other a
   window of a transpose, on input whose pivoting interchanges rows in a 3-cycle (the witness of the repaired defect) *)
Example gauss_jordan_on_views_nontrivial :
  view_ok 30 3 HA0 = true /\ view_ok 16 3 HX0 = true /\
  d_transposed HA0 = true /\ (0 < d_rowOffset HA0)%Z /\ (0 < d_colOffset HA0)%Z /\
  length (wa V0) = 30 /\ length (wx V0) = 16 /\ length (vb V0) = 3 /\
  load_st (NumK QcK) 3 HA0 HX0 V0 = W0 /\
  (forall c, In c (gj_pivots (NumK QcK) 3 (all_true 3) (load_st (NumK QcK) 3 HA0 HX0 V0)) -> c <> f0 QcK) /\
  fp (fwd (NumK QcK) 3 (all_true 3) (load_st (NumK QcK) 3 HA0 HX0 V0)) = [2; 0; 1].
Proof. exact V0_instance. Qed.

(* ---- (3v) matrixInverse.Run with caller-supplied InSitu.A / InSitu.Id that are views of larger workspaces ----
   m_inverse_v (ModelV2): Id is reset to the identity THROUGH its view, the matrix is copied into InSitu.A THROUGH its
   view, gaussJordan.Run runs on the two views (gj_run_v).  For every carrier this is the logical run on
   (m, I, 1), written through — whatever the workspaces held (the buffers' prior content never matters) ... *)
Theorem matrix_inverse_on_view_buffers_is_logical_run :
  forall (A : Type) (N : Num A) (lenA lenI n : nat) (hA hId : hdr),
    view_ok lenA n hA = true -> view_ok lenI n hId = true ->
  forall (dense ut : bool) (omsk : option (list bool)) (wA wId : list A) (bB : option (list A)) (m : list (list A)),
    length wA = lenA -> length wId = lenI -> (forall b, bB = Some b -> length b = n) -> wfm n m ->
    m_inverse_v N dense ut n omsk hA hId wA wId bB m =
    lift_v N n hA hId (mkV wA wId [])
           (gj_run N dense ut n (match omsk with Some s => s | None => all_true n end) (mkSt m (ident N n) (ones N n))).
Proof. exact @m_inverse_v_eq. Qed.

(* ... hence over every field the matrix InSitu.Id denotes after the run satisfies the full inverse contract, and
   no cell of either workspace outside the views changes (plain mode; then the UpperTriangular mode) *)
Theorem matrix_inverse_on_view_buffers_correct :
  forall (K : fld) (dense : bool) (n : nat) (msk : list bool) (lenA lenI : nat) (hA hId : hdr)
         (wA wId : list K) (bB : option (list K)) (m : list (list K)) (v' : vst (A:=K)),
    view_ok lenA n hA = true -> view_ok lenI n hId = true ->
    length wA = lenA -> length wId = lenI -> (forall b, bB = Some b -> length b = n) -> wf_mat K n m ->
    (forall c, In c (gj_pivots (NumK K) n msk (mkSt m (ident (NumK K) n) (ones (NumK K) n))) -> c <> f0 K) ->
    m_inverse_v (NumK K) dense false n (Some msk) hA hId wA wId bB m = Ok v' ->
    inv_spec K n msk m (vload (NumK K) n (wx v') hId) /\
    length (wa v') = lenA /\ length (wx v') = lenI /\
    (forall k, nohit n hA k -> nth k (wa v') (zero (NumK K)) = nth k wA (zero (NumK K))) /\
    (forall k, nohit n hId k -> nth k (wx v') (zero (NumK K)) = nth k wId (zero (NumK K))).
Proof. exact inverse_on_view_buffers_correct. Qed.

Theorem matrix_inverse_upper_triangular_on_view_buffers_correct :
  forall (K : fld) (dense : bool) (n : nat) (msk : list bool) (lenA lenI : nat) (hA hId : hdr)
         (wA wId : list K) (bB : option (list K)) (m : list (list K)) (v' : vst (A:=K)),
    view_ok lenA n hA = true -> view_ok lenI n hId = true ->
    length wA = lenA -> length wId = lenI -> (forall b, bB = Some b -> length b = n) -> wf_mat K n m ->
    upper_tri_S K (idxs msk 0 n) m -> diag_nonzero_S K (idxs msk 0 n) m ->
    m_inverse_v (NumK K) dense true n (Some msk) hA hId wA wId bB m = Ok v' ->
    inv_spec K n msk m (vload (NumK K) n (wx v') hId) /\
    length (wa v') = lenA /\ length (wx v') = lenI /\
    (forall k, nohit n hA k -> nth k (wa v') (zero (NumK K)) = nth k wA (zero (NumK K))) /\
    (forall k, nohit n hId k -> nth k (wx v') (zero (NumK K)) = nth k wId (zero (NumK K))).
Proof. exact inverse_ut_on_view_buffers_correct. Qed.

Example matrix_inverse_on_view_buffers_nontrivial :
  view_ok 30 3 HA0 = true /\ view_ok 16 3 HX0 = true /\ wf_mat QcK 3 (qc Wz) /\
  (forall c, In c (gj_pivots (NumK QcK) 3 (all_true 3) (mkSt (qc Wz) (ident (NumK QcK) 3) (ones (NumK QcK) 3))) -> c <> f0 QcK) /\
  exists v', m_inverse_v (NumK QcK) true false 3 (Some (all_true 3)) HA0 HX0 (repeat (f1 QcK) 30) (repeat (f1 QcK) 16) None (qc Wz) = Ok v'.
Proof. exact inverse_view_instance. Qed.

(* ---- (4''') LogScale ---- determinant.Run(a, PositiveDefinite{true}, LogScale{true}) over R (math.Log := ln): the
   value is the natural logarithm of what the product form returns, for every n, every input, every prior content
   of InSitu.Cholesky.L.  HYPOTHESIS (the subject of C05): the Cholesky factor has a positive diagonal.  No range
   restriction: over R the product never leaves the range — on floats it does (size x scale), which is what the
   correspondence and the oracle exercise. *)
Theorem log_determinant_is_log_of_determinant :
  forall (n : nat) (m : list (list R)) (bufL : option (list (list R))) (L : list (list R)),
    cholesky NumR n m (buf_m NumR n bufL) = Ok L -> (forall i, i < n -> (0 < mget NumR L i i)%R) ->
    exists d, det_pd_insitu NumR ln false n bufL m = Ok d /\ (0 < d)%R /\ det_pd_insitu NumR ln true n bufL m = Ok (ln d).
Proof. exact log_det_is_ln_det. Qed.

Example log_determinant_nontrivial :
  cholesky NumR 2 [[4; 0]; [0; 9]]%R (buf_m NumR 2 None) = Ok [[2; 0]; [0; 3]]%R /\
  (forall i, i < 2 -> (0 < mget NumR [[2; 0]; [0; 3]]%R i i)%R).
Proof. exact log_det_instance. Qed.

(* ---- (2'') round 7: back substitution IN PLACE — backSubstitution.Run(R, b, &InSitu{X: b}) ----
   The result buffer is the right-hand side itself; backsub_alias_run is the single-buffer model (every At / ConstAt
   of the Go loop is a read / write of that one buffer, in the order of the Go text).  For EVERY carrier (binary64 /
   binary32 floats included; no arithmetic law is used) the in-place call returns exactly what the call with a separate
   result buffer returns from the ORIGINAL right-hand side, whatever InSitu.A was (A itself, a dirty buffer, nil) ... *)
Theorem back_substitution_in_place_equals_out_of_place :
  forall (A : Type) (N : Num A) (n : nat) (Am : list (list A)) (aliasA : bool)
         (buf : option (list (list A))) (b x0 : list A),
    wfm n Am -> (forall bf, buf = Some bf -> wfm n bf) -> length b = n -> length x0 = n ->
    backsub_alias_run N n Am aliasA buf b = backsub_run_v2 N n Am (Some b) None x0.
Proof. exact @backsub_alias_run_eq. Qed.

(* ... hence over a field R * x = b (the ORIGINAL b) for upper-triangular R with non-zero diagonal; the buffer keeps its length *)
Theorem back_substitution_in_place_correct :
  forall (K : fld) (n : nat) (R : list (list K)) (aliasA : bool) (buf : option (list (list K))) (b : list K),
    wf_mat K n R -> (forall bf, buf = Some bf -> wf_mat K n bf) ->
    upper_tri K n R -> diag_nonzero K n R -> length b = n ->
    forall i, i < n -> mulSv K (seq 0 n) R (backsub_alias_run (NumK K) n R aliasA buf b) i = vget (NumK K) b i.
Proof. exact backsub_alias_correct. Qed.

Example back_substitution_in_place_nontrivial :
  let R := qc [[2;1;1];[0;3;1];[0;0;4]]%Z in let b := qcv [7;9;12]%Z in
  wf_mat QcK 3 R /\ upper_tri QcK 3 R /\ diag_nonzero QcK 3 R /\ length b = 3 /\
  map Qcanon.this (backsub_alias_run (NumK QcK) 3 R true None b) = map Qcanon.this (qcv [1;2;3]%Z) /\
  map Qcanon.this (backsub_alias_run (NumK QcK) 3 R false (Some (qc [[9;9;9];[9;9;9];[9;9;9]]%Z)) b) = map Qcanon.this (qcv [1;2;3]%Z).
Proof. exact backsub_alias_instance. Qed.
