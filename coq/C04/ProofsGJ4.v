(* C04 — Gauss-Jordan, round 2: the full theorem.  Forward invariant + back
   invariant + final gather  ==>  gj_spec_full, for gaussJordan and for
   gaussJordanUpperTriangular. *)
From Coq Require Import List Bool Arith Lia Field Permutation.
From ADV Require Import Base.Num C04.Model C04.Spec C04.ProofsList C04.ProofsDet C04.ProofsPerm C04.ProofsGJ
                        C04.ProofsGJ2 C04.ProofsGJ3.
Import ListNotations.

Section GJ4.
Variable K : fld.
Add Field KF6 : (Fth K).
Notation N := (NumK K).
Notation "0" := (f0 K). Notation "1" := (f1 K).
Infix "+" := (fadd K). Infix "*" := (fmul K). Infix "-" := (fsub K). Infix "/" := (fdiv K).

Variable n : nat.
Variable msk : list bool.
Notation S := (idxs msk 0 n).

Lemma mget_rows (a a' : list (list K)) r r' k : row a' r' = row a r -> mget N a' r' k = mget N a r k.
Proof. intros H. unfold mget. rewrite H. reflexivity. Qed.

(* ------------------------------------------------------------------ sums against the identity *)
Lemma sumL_delta_notin ks r (f : nat -> K) : ~ In r ks -> sumL K ks (fun k => delta K r k * f k) = 0.
Proof.
  intros H. apply sumL_zero. intros k Hk. unfold delta.
  destruct (Nat.eqb_spec r k) as [->|]; [contradiction|ring].
Qed.

Lemma sumL_delta ks r (f : nat -> K) : NoDup ks -> In r ks -> sumL K ks (fun k => delta K r k * f k) = f r.
Proof.
  induction ks as [|h t IH]; intros HN Hin; [destruct Hin|].
  inversion HN as [|? ? Hnot HN']; subst. cbn [sumL]. destruct Hin as [->|Hin].
  - rewrite sumL_delta_notin by auto. unfold delta. rewrite Nat.eqb_refl. ring.
  - rewrite IH by auto. unfold delta. destruct (Nat.eqb_spec r h) as [->|]; [contradiction|ring].
Qed.

Lemma sumL_delta_r ks r (f : nat -> K) : NoDup ks -> In r ks -> sumL K ks (fun k => f k * delta K k r) = f r.
Proof.
  intros HN Hin. rewrite <- (sumL_delta ks r f HN Hin). apply sumL_ext. intros k _.
  unfold delta. rewrite (Nat.eqb_sym k r). ring.
Qed.

(* ------------------------------------------------------------------ the virtual permutation is onto the selection *)
Lemma pfix_onto p t : pfix n msk p -> In t S -> exists r, In r S /\ pget p r = t.
Proof.
  intros Hp Ht. destruct (proj1 (inS n msk _) Ht) as [Htn Hts]. destruct Hp as [HP Hfix].
  destruct (perm_facts n p HP) as (HL & _ & _ & Hall).
  destruct (In_nth p t O (Hall t Htn)) as (r & Hr & E). exists r. split; [|exact E].
  apply inS. split; [lia|]. destruct (sel msk r) eqn:Hs; [reflexivity|].
  assert (pget p r = r) by (apply Hfix; auto; lia). unfold pget in H. congruence.
Qed.

(* ------------------------------------------------------------------ from the final back-phase invariant to the contract *)
Variable s0 : st (A:=K).

Definition gathered (p : list nat) (s2 s3 : st (A:=K)) : Prop :=
  forall r, r < n -> row (sa s3) r = row (sa s2) (pget p r) /\ row (sx s3) r = row (sx s2) (pget p r) /\
                     vget N (sb s3) r = vget N (sb s2) (pget p r).

Lemma final_spec p xlo s2 s3 :
  pfix n msk p -> BInv K n msk p xlo s0 O s2 -> gathered p s2 s3 -> wf_st K n s3 ->
  gj_spec_full K n msk p s0 s3.
Proof.
  intros Hp ((Hwf2 & Himp & (Ho1 & Ho2) & Hlinv) & _ & _ & _ & Hdone) Hg Hwf3.
  assert (Hpn : forall r, r < n -> pget p r < n).
  { destruct Hp as [HP _]. apply (perm_facts n p HP). }
  (* the solution read off the reduced system *)
  assert (Hsol : forall c, okcol n msk c ->
            solves K n msk s2 c (fun k => rhs K s2 c (pget p k))).
  { intros c Hc t Ht. destruct (pfix_onto p t Hp Ht) as (r & Hr & <-).
    unfold dot. rewrite (sumL_ext K S _ (fun k => delta K r k * rhs K s2 c (pget p k))).
    - apply (sumL_delta S r (fun k => rhs K s2 c (pget p k))); auto. apply NoDup_idxs.
    - intros k Hk. fold (mget N (sa s2) (pget p r) k). rewrite Hdone by (auto; lia). reflexivity. }
  split; [exact Hwf3|]. split; [split; [|split; [|split]]|split].
  - intros i j Hi Hj. assert (Hc : okcol n msk (Some j)) by exact Hj.
    specialize (Himp (Some j) _ Hc (Hsol _ Hc) i Hi). cbn [rhs] in Himp. rewrite <- Himp.
    unfold mulS, dot. apply sumL_ext. intros k Hk. destruct (proj1 (inS n msk _) Hk) as [Hkn _].
    destruct (Hg k Hkn) as (_ & G2 & _). rewrite (mget_rows _ _ _ _ _ G2). reflexivity.
  - intros i Hi. assert (Hc : okcol n msk None) by exact I.
    specialize (Himp None _ Hc (Hsol _ Hc) i Hi). cbn [rhs] in Himp. rewrite <- Himp.
    unfold mulSv, dot. apply sumL_ext. intros k Hk. destruct (proj1 (inS n msk _) Hk) as [Hkn _].
    destruct (Hg k Hkn) as (_ & _ & G3). rewrite G3. reflexivity.
  - intros i j Hi Hj. destruct (proj1 (inS n msk _) Hi) as [Hin _].
    destruct (Hg i Hin) as (G1 & _). rewrite (mget_rows _ _ _ _ _ G1). apply Hdone; auto. lia.
  - intros i Hi Hs. destruct (Hg i Hi) as (G1 & G2 & G3).
    assert (E : pget p i = i) by (destruct Hp as [_ Hfix]; apply Hfix; auto).
    rewrite E in *. destruct (Ho1 i Hi Hs) as (F1 & F2 & F3). rewrite G1, G2, G3. auto.
  - intros r k Hr Hk Hs. destruct (proj1 (inS n msk _) Hr) as [Hrn _].
    destruct (Hg r Hrn) as (G1 & G2 & _).
    rewrite (mget_rows _ _ _ _ _ G1), (mget_rows _ _ _ _ _ G2). apply Ho2; auto.
  - intros Hid i j Hi Hj. destruct (proj1 (inS n msk _) Hi) as [Hin _].
    assert (HL0 : linv K n msk s0 s0).
    { intros t c Ht Hc. rewrite (sumL_ext K S _ (fun k => delta K t k * mget N (sa s0) k c)).
      - apply (sumL_delta S t (fun k => mget N (sa s0) k c)); auto. apply NoDup_idxs.
      - intros k Hk. rewrite Hid by auto. reflexivity. }
    specialize (Hlinv HL0 (pget p i) j (pfix_S n msk p i Hp Hi) Hj).
    rewrite Hdone in Hlinv by (auto; lia). rewrite <- Hlinv.
    unfold mulS. apply sumL_ext. intros k _.
    destruct (Hg i Hin) as (_ & G2 & _). rewrite (mget_rows _ _ _ _ _ G2). reflexivity.
Qed.

(* ------------------------------------------------------------------ the gather *)
Lemma nth_gather {X} (d : X) (l : list X) (p : list nat) r : r < length p -> nth r (gather d l p) d = nth (pget p r) l d.
Proof.
  intros Hr. unfold gather, pget.
  rewrite (nth_indep _ d (nth O l d)) by (rewrite map_length; auto).
  apply (map_nth (fun k0 => nth k0 l d) p O r).
Qed.

Lemma gather_gathered p s2 : length p = n -> gathered p s2 (gather_st N s2 p).
Proof.
  intros HL r Hr. unfold gather_st, row, vget. cbn [sa sx sb].
  rewrite !nth_gather by lia. auto.
Qed.

Lemma gather_wf p s2 : pfix n msk p -> wf_st K n s2 -> wf_st K n (gather_st N s2 p).
Proof.
  intros [HP _] (Ha & Hx & Hb). destruct (perm_facts n p HP) as (HL & _ & Hrange & _).
  assert (G : forall m : list (list K), wf_mat K n m -> wf_mat K n (gather [] m p)).
  { intros m Hm. split; [unfold gather; rewrite map_length; exact HL|].
    apply Forall_forall. intros x Hx'. unfold gather in Hx'. apply in_map_iff in Hx'.
    destruct Hx' as (k & <- & Hk). apply (wf_row_len K n m k Hm).
    destruct (In_nth p k O Hk) as (r & Hr & <-). apply Hrange. lia. }
  split; [|split]; unfold gather_st; cbn [sa sx sb]; auto.
  unfold wf_vec, gather. rewrite map_length. exact HL.
Qed.

(* ------------------------------------------------------------------ gaussJordan *)
Lemma FInv_init : wf_st K n s0 -> FInv K n msk s0 O (mkF (seq 0 n) s0 []).
Proof.
  intros Hwf. split; [|split; [apply pfix_id|split]]; cbn [fs fp fpiv].
  - split; [exact Hwf|]. split; [apply imp_refl|]. split; [split; auto|auto].
  - intros; lia.
  - intros; lia.
Qed.

Lemma fwd_FInv : wf_st K n s0 -> (forall c, In c (gj_pivots N n msk s0) -> c <> 0) ->
  FInv K n msk s0 n (fwd N n msk s0).
Proof.
  intros Hwf Hnz. unfold fwd.
  apply (fwd_fold K n msk s0 n O); [lia|lia|apply FInv_init; auto|].
  intros c Hc. apply Hnz. unfold gj_pivots, fwd. apply -> in_rev. exact Hc.
Qed.

Lemma FInv_BInv f : FInv K n msk s0 n f -> (forall c, In c (fpiv f) -> c <> 0) ->
  BInv K n msk (fp f) (fun _ => O) s0 n (fs f).
Proof.
  intros (HR & Hp & Hz & Hl) Hnz. split; [exact HR|]. split; [|split; [|split]].
  - intros r k _ _ H. lia.
  - intros r c Hr Hc Hcn Hcr. apply Hz; auto.
  - intros c Hc Hcn. apply Hnz. apply Hl; auto.
  - intros r c Hr Hc Hnc. destruct (proj1 (inS n msk _) Hc). lia.
Qed.

Lemma gj_core_correct :
  wf_st K n s0 -> (forall c, In c (gj_pivots N n msk s0) -> c <> 0) ->
  exists s', gj_core N n msk s0 = CoreOk s' /\ gj_spec_full K n msk (fp (fwd N n msk s0)) s0 s'.
Proof.
  intros Hwf Hnz. assert (HF := fwd_FInv Hwf Hnz).
  set (f := fwd N n msk s0) in *.
  assert (Hnz' : forall c, In c (fpiv f) -> c <> 0).
  { intros c Hc. apply Hnz. unfold gj_pivots. fold f. apply -> in_rev. exact Hc. }
  assert (HB := FInv_BInv f HF Hnz').
  assert (Hp : pfix n msk (fp f)) by apply HF.
  destruct (back_correct K n msk (fp f) Hp (fun _ => O) ltac:(intros; lia) s0 (fs f) HB) as (s2 & E2 & HB2).
  unfold gj_core. fold f. rewrite E2.
  assert (Hwf2 : wf_st K n s2) by apply HB2.
  destruct Hwf2 as ((HLa & _) & (HLx & _) & HLb).
  destruct Hp as [HP Hfix].
  rewrite (permute_rows_gather K N n (fp f) s2 HP HLa HLx HLb).
  eexists. split; [reflexivity|].
  apply (final_spec (fp f) (fun _ => O) s2); auto.
  - split; auto.
  - apply gather_gathered. apply (perm_facts n _ HP).
  - apply gather_wf; [split; auto|apply HB2].
Qed.

(* ------------------------------------------------------------------ gaussJordanUpperTriangular *)
Lemma gj_ut_core_correct :
  wf_st K n s0 -> upper_tri_S K S (sa s0) -> diag_nonzero_S K S (sa s0) -> upper_tri_S K S (sx s0) ->
  exists s', gj_ut_core N n msk s0 = CoreOk s' /\ gj_spec_full K n msk (seq 0 n) s0 s'.
Proof.
  intros Hwf HU HD HXU.
  assert (Hid : forall r, r < n -> pget (seq 0 n) r = r) by (intros r Hr; unfold pget; apply seq_nth; auto).
  assert (HidS : forall r, In r S -> pget (seq 0 n) r = r) by (intros r Hr; apply Hid; apply inS in Hr; tauto).
  assert (HB : BInv K n msk (seq 0 n) (fun i => i) s0 n s0).
  { split; [|split; [|split; [|split]]].
    - split; [exact Hwf|]. split; [apply imp_refl|]. split; [split; auto|auto].
    - intros r k Hr Hk Hkr. rewrite HidS by auto. apply HXU; auto.
    - intros r c Hr Hc _ Hcr. rewrite HidS by auto. apply HU; auto.
    - intros c Hc _. rewrite HidS by auto. apply HD; auto.
    - intros r c Hr Hc Hnc. destruct (proj1 (inS n msk _) Hc). lia. }
  destruct (back_correct K n msk (seq 0 n) (pfix_id n msk) (fun i => i) ltac:(intros; lia) s0 s0 HB) as (s2 & E2 & HB2).
  unfold gj_ut_core. rewrite E2. exists s2. split; [reflexivity|].
  apply (final_spec (seq 0 n) (fun i => i) s2); auto.
  - apply pfix_id.
  - intros r Hr. rewrite Hid by auto. auto.
  - apply HB2.
Qed.

End GJ4.

(* ------------------------------------------------------------------ at the level of gaussJordan.Run *)
Lemma gj_run_correct (K : fld) (dense : bool) (n : nat) (msk : list bool) (s0 s' : st (A:=K)) :
  wf_st K n s0 -> (forall c, In c (gj_pivots (NumK K) n msk s0) -> c <> f0 K) ->
  gj_run (NumK K) dense false n msk s0 = Ok s' ->
  gj_spec_full K n msk (fp (fwd (NumK K) n msk s0)) s0 s'.
Proof.
  intros Hwf Hnz E. destruct (gj_core_correct K n msk s0 Hwf Hnz) as (s3 & E3 & Hspec).
  unfold gj_run in E. rewrite E3 in E. inversion E; subst. exact Hspec.
Qed.

Lemma gj_run_total (K : fld) (dense : bool) (n : nat) (msk : list bool) (s0 : st (A:=K)) :
  wf_st K n s0 -> (forall c, In c (gj_pivots (NumK K) n msk s0) -> c <> f0 K) ->
  exists s', gj_run (NumK K) dense false n msk s0 = Ok s'.
Proof.
  intros Hwf Hnz. destruct (gj_core_correct K n msk s0 Hwf Hnz) as (s3 & E3 & _).
  exists s3. unfold gj_run. rewrite E3. reflexivity.
Qed.

Lemma gj_run_ut_correct (K : fld) (dense : bool) (n : nat) (msk : list bool) (s0 s' : st (A:=K)) :
  wf_st K n s0 ->
  upper_tri_S K (idxs msk 0 n) (sa s0) -> diag_nonzero_S K (idxs msk 0 n) (sa s0) -> upper_tri_S K (idxs msk 0 n) (sx s0) ->
  gj_run (NumK K) dense true n msk s0 = Ok s' ->
  gj_spec_full K n msk (seq 0 n) s0 s'.
Proof.
  intros Hwf HU HD HX E. destruct (gj_ut_core_correct K n msk s0 Hwf HU HD HX) as (s3 & E3 & Hspec).
  unfold gj_run in E. rewrite E3 in E. inversion E; subst. exact Hspec.
Qed.

Lemma gj_run_ut_total (K : fld) (dense : bool) (n : nat) (msk : list bool) (s0 : st (A:=K)) :
  wf_st K n s0 ->
  upper_tri_S K (idxs msk 0 n) (sa s0) -> diag_nonzero_S K (idxs msk 0 n) (sa s0) -> upper_tri_S K (idxs msk 0 n) (sx s0) ->
  exists s', gj_run (NumK K) dense true n msk s0 = Ok s'.
Proof.
  intros Hwf HU HD HX. destruct (gj_ut_core_correct K n msk s0 Hwf HU HD HX) as (s3 & E3 & _).
  exists s3. unfold gj_run. rewrite E3. reflexivity.
Qed.
