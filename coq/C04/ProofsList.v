(* C04 — list / index lemmas shared by the proofs. *)
From Coq Require Import List Bool Arith Lia Permutation.
From ADV Require Import Base.Num C04.Model.
Import ListNotations.

Lemma length_upd {X} (l : list X) i x : length (upd l i x) = length l.
Proof. revert i; induction l as [|h t IH]; intros [|i]; simpl; auto. Qed.

Lemma nth_upd_same {X} (l : list X) i x d : i < length l -> nth i (upd l i x) d = x.
Proof. revert i; induction l as [|h t IH]; intros [|i] H; simpl in *; try lia; auto. apply IH; lia. Qed.

Lemma nth_upd_other {X} (l : list X) i j x d : i <> j -> nth j (upd l i x) d = nth j l d.
Proof. revert i j; induction l as [|h t IH]; intros [|i] [|j] H; simpl; auto; try lia. Qed.

Lemma nth_upd {X} (l : list X) i j x d :
  nth j (upd l i x) d = if (Nat.eqb i j && Nat.ltb i (length l))%bool then x else nth j l d.
Proof.
  destruct (Nat.eqb_spec i j) as [->|Hne]; simpl.
  - destruct (Nat.ltb_spec j (length l)).
    + apply nth_upd_same; auto.
    + rewrite !nth_overflow; auto. rewrite length_upd; auto.
  - apply nth_upd_other; auto.
Qed.

Lemma upd_overflow {X} (l : list X) i x : length l <= i -> upd l i x = l.
Proof. revert i; induction l as [|h t IH]; intros [|i] H; simpl in *; auto; try lia. f_equal; apply IH; lia. Qed.

Lemma swap_l_length {X} (d : X) (l : list X) i j : length (swap_l d l i j) = length l.
Proof. unfold swap_l. rewrite !length_upd. auto. Qed.

Lemma nth_swap_l {X} (d : X) (l : list X) i j k : i < length l -> j < length l ->
  nth k (swap_l d l i j) d = if Nat.eqb k j then nth i l d else if Nat.eqb k i then nth j l d else nth k l d.
Proof.
  intros Hi Hj. unfold swap_l.
  destruct (Nat.eqb_spec k j) as [->|Hkj].
  - apply nth_upd_same. rewrite length_upd; auto.
  - rewrite nth_upd_other by auto.
    destruct (Nat.eqb_spec k i) as [->|Hki].
    + apply nth_upd_same; auto.
    + apply nth_upd_other; auto.
Qed.

(* two lists of equal length with equal nth are equal *)
Lemma nth_ext_eq {X} (d : X) (l1 l2 : list X) :
  length l1 = length l2 -> (forall k, k < length l1 -> nth k l1 d = nth k l2 d) -> l1 = l2.
Proof. intros HL H. apply (nth_ext l1 l2 d d); auto. Qed.

(* selected indices *)
Lemma in_idxs msk lo hi k : In k (idxs msk lo hi) <-> lo <= k < hi /\ sel msk k = true.
Proof.
  unfold idxs. rewrite filter_In, in_seq. split; intros [H1 H2]; split; auto; lia.
Qed.

Lemma idxs_split msk lo mid hi : lo <= mid <= hi -> idxs msk lo hi = idxs msk lo mid ++ idxs msk mid hi.
Proof.
  intros H. unfold idxs. rewrite <- filter_app. f_equal.
  replace (hi - lo) with ((mid - lo) + (hi - mid)) by lia.
  rewrite seq_app. do 2 f_equal. lia.
Qed.

Lemma idxs_cons msk lo hi : lo < hi -> idxs msk lo hi = if sel msk lo then lo :: idxs msk (S lo) hi else idxs msk (S lo) hi.
Proof.
  intros H. unfold idxs. replace (hi - lo) with (S (hi - S lo)) by lia. simpl. reflexivity.
Qed.

Lemma idxs_nil msk lo hi : hi <= lo -> idxs msk lo hi = [].
Proof. intros H. unfold idxs. replace (hi - lo) with 0 by lia. reflexivity. Qed.

Lemma NoDup_idxs msk lo hi : NoDup (idxs msk lo hi).
Proof. unfold idxs. apply NoDup_filter, seq_NoDup. Qed.

Lemma nth_firstn_lt {X} (l : list X) j k d : k < j -> nth k (firstn j l) d = nth k l d.
Proof. revert j k; induction l as [|h t IH]; intros [|j] [|k] H; simpl; auto; try lia. apply IH; lia. Qed.

Lemma nth_skipn_add {X} (l : list X) j k d : nth k (skipn j l) d = nth (j + k) l d.
Proof. revert j; induction l as [|h t IH]; intros [|j]; simpl; auto. destruct k; auto. Qed.
