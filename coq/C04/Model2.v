(* C04 — round 3 additions to the executable model (Model.v is left untouched: other
   properties import it).  Models /repo HEAD after
     175f3f7  backSubstitution.Run copies A into a caller-supplied InSitu.A buffer
     8a0efbb  matrixInverse PositiveDefinite + gaussJordan.Submatrix: the matrix is copied into
              inSitu.A with the excluded rows/columns replaced by those of the identity BEFORE the
              Cholesky step
   and makes the caller-supplied in-situ buffers (matrixInverse.InSitu{Id, A, B, Cholesky.L},
   backSubstitution.InSitu{A, X}, determinant.InSitu{Cholesky.L}) explicit inputs, so that
   "the result does not depend on what the buffers held before" is a statement about the model.
   No proofs in this file. *)
From Coq Require Import List Bool Arith.
From ADV Require Import Base.Num C04.Model.
Import ListNotations.

Section Alg2.
Context {A : Type} (N : Num A).

(* dst.Set(src) of the dense matrices: for i, j < n: dst[i,j] = src[i,j] *)
Definition mat_set (n : nat) (dst src : mat (A:=A)) : mat (A:=A) :=
  fold_left (fun d i => fold_left (fun d j => mset d i j (mget N src i j)) (seq 0 n) d) (seq 0 n) dst.

(* for i, j < n: if i == j { m[i,j] = 1 } else { m[i,j] = 0 }   (matrixInverse.Run on a supplied Id) *)
Definition reset_ident (n : nat) (dst : mat (A:=A)) : mat (A:=A) :=
  fold_left (fun d i => fold_left (fun d j => mset d i j (if Nat.eqb i j then one N else zero N)) (seq 0 n) d)
            (seq 0 n) dst.

(* for i < n: b[i] = 1 *)
Definition reset_ones (n : nat) (dst : vec (A:=A)) : vec (A:=A) :=
  fold_left (fun d i => upd d i (one N)) (seq 0 n) dst.

(* the buffer a routine works on: the caller's, or a freshly allocated null matrix / vector *)
Definition buf_m (n : nat) (o : option (mat (A:=A))) : mat (A:=A) := match o with Some b => b | None => zmat N n end.
Definition buf_v (n : nat) (o : option (vec (A:=A))) : vec (A:=A) := match o with Some b => b | None => zeros N n end.

(* ------------------------------------------------------------------ backSubstitution.Run at HEAD *)
(* InSitu.A == nil: A.CloneMatrix(); else inSitu.A.Set(A) (the buffer is a different object) *)
Definition backsub_run_v2 (n : nat) (Am : mat) (b : option vec) (bufA : option mat) (x0 : vec) : vec :=
  backsub N n (match bufA with Some buf => mat_set n buf Am | None => Am end) b x0.

(* ------------------------------------------------------------------ matrixInverse.Run at HEAD *)
(* mInversePositiveDefinite with Submatrix{s}: inSitu.A.Set(matrix); then every (i,j) with !s[i] || !s[j]
   is overwritten by the identity's entry *)
Definition mask_ident (n : nat) (s : list bool) (buf m : mat (A:=A)) : mat (A:=A) :=
  fold_left (fun d i => fold_left (fun d j =>
      if negb (sel s i) || negb (sel s j)
      then mset d i j (if Nat.eqb i j then one N else zero N) else d) (seq 0 n) d)
    (seq 0 n) (mat_set n buf m).

Record inv_bufs := mkBufs { bId : option (mat (A:=A)); bA : option (mat (A:=A)); bB : option (vec (A:=A)); bL : option (mat (A:=A)) }.
Definition no_bufs : inv_bufs := mkBufs None None None None.

(* omsk = None: no gaussJordan.Submatrix option (or Submatrix{nil}) *)
Definition m_inverse_insitu (dense : bool) (mode : inv_mode) (n : nat) (omsk : option (list bool))
           (bf : inv_bufs) (m : mat) : outcome mat :=
  let msk := match omsk with Some s => s | None => all_true n end in
  let x0 := match bId bf with Some b => reset_ident n b | None => ident N n end in
  let b0 := reset_ones n (buf_v n (bB bf)) in
  match mode with
  | InvPlain => lift_st sx (gj_run N dense false n msk (mkSt (mat_set n (buf_m n (bA bf)) m) x0 b0))
  | InvUT    => lift_st sx (gj_run N dense true n msk (mkSt (mat_set n (buf_m n (bA bf)) m) x0 b0))
  | InvPD    =>
      let m' := match omsk with Some s => mask_ident n s (buf_m n (bA bf)) m | None => m end in
      match cholesky N n m' (buf_m n (bL bf)) with
      | Ok L => lift_st (fun s => mul_xxt N n (sx s))
                        (gj_run N dense true n msk (mkSt (transpose N n L) x0 b0))
      | _ => ErrNotPD
      end
  end.

(* the call without caller-supplied buffers *)
Definition m_inverse_v2 (dense : bool) (mode : inv_mode) (n : nat) (omsk : option (list bool)) (m : mat) : outcome mat :=
  m_inverse_insitu dense mode n omsk no_bufs m.

(* ------------------------------------------------------------------ determinant.Run(a, PositiveDefinite{true} [, LogScale{true}]) *)
(* lg = the carrier's natural logarithm (math.Log / the scalar's Log); bufL = InSitu.Cholesky.L *)
Definition det_pd_insitu (lg : A -> A) (logscale : bool) (n : nat) (bufL : option mat) (m : mat) : outcome A :=
  match cholesky N n m (buf_m n bufL) with
  | Ok L =>
      if logscale then
        let r := fold_left (fun r i => add N r (lg (mget N L i i))) (seq 0 n) (zero N) in Ok (add N r r)
      else
        let r := fold_left (fun r i => mul N r (mget N L i i)) (seq 0 n) (one N) in Ok (mul N r r)
  | _ => ErrNotPD
  end.

End Alg2.
