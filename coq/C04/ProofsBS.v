(* C04 — back substitution: R upper triangular with non-zero diagonal => R x = b. *)
From Coq Require Import List Bool Arith Lia Field.
From ADV Require Import Base.Num C04.Model C04.Spec C04.ProofsList C04.ProofsDet.
Import ListNotations.

Section BS.
Variable K : fld.
Add Field KF2 : (Fth K).
Notation N := (NumK K).
Notation "0" := (f0 K). Notation "1" := (f1 K).
Infix "+" := (fadd K). Infix "*" := (fmul K). Infix "-" := (fsub K). Infix "/" := (fdiv K).

Lemma sub_loop ks (g : nat -> K) acc :
  fold_left (fun a j => sub N a (g j)) ks acc = acc - sumL K ks g.
Proof. revert acc; induction ks as [|k r IH]; intros acc; simpl; [ring|]. rewrite IH. ring. Qed.

Variable n : nat.
Variable Am : list (list K).
Variable b : list K.

(* row i of the triangular system, summed from the diagonal *)
Definition rowsum (x : list K) (i : nat) : K :=
  sumL K (seq i (n - i)) (fun k => mget N Am i k * vget N x k).

Definition bs_step (bo : option (list K)) (x : list K) (i : nat) : list K :=
  let xi0 := match bo with None => zero N | Some bv => vget N bv i end in
  let xi := fold_left (fun acc j => sub N acc (mul N (mget N Am i j) (vget N x j))) (seq (S i) (n - S i)) xi0 in
  upd x i (div N xi (mget N Am i i)).

Lemma backsub_unfold bo x0 : backsub N n Am bo x0 = fold_left (bs_step bo) (rev (seq 0 n)) x0.
Proof. reflexivity. Qed.

Lemma rowsum_ext x y i : (forall k, i <= k -> vget N x k = vget N y k) -> rowsum x i = rowsum y i.
Proof. intros H. unfold rowsum. apply sumL_ext. intros k Hk. apply in_seq in Hk. rewrite H by lia. reflexivity. Qed.

Lemma backsub_inv (rhs : nat -> K) (bo : option (list K)) :
  (forall i, (match bo with None => zero N | Some bv => vget N bv i end) = rhs i) ->
  diag_nonzero K n Am ->
  forall m x, m <= n -> length x = n ->
    (forall i, m <= i < n -> rowsum x i = rhs i) ->
    let x' := fold_left (bs_step bo) (rev (seq 0 m)) x in
    length x' = n /\ (forall i, i < n -> rowsum x' i = rhs i) /\ (forall k, m <= k -> vget N x' k = vget N x k).
Proof.
  intros Hrhs Hd. induction m as [|m IH]; intros x Hm Hx Hsolved.
  - simpl. split; [auto|]. split; [intros; apply Hsolved; lia| auto].
  - rewrite seq_S, rev_app_distr. simpl.
    change (bs_step bo x m) with (bs_step bo x m). set (x1 := bs_step bo x m).
    assert (Hx1 : length x1 = n) by (unfold x1, bs_step; rewrite length_upd; auto).
    assert (Hsame : forall k, k <> m -> vget N x1 k = vget N x k).
    { intros k Hk. unfold x1, bs_step, vget. apply nth_upd_other. auto. }
    assert (Hsolved1 : forall i, m <= i < n -> rowsum x1 i = rhs i).
    { intros i Hi. destruct (Nat.eq_dec i m) as [->|Hne].
      - unfold rowsum. replace (n - m)%nat with (S (n - S m))%nat by lia. simpl sumL.
        rewrite (sumL_ext K _ _ (fun k => mget N Am m k * vget N x k)).
        2:{ intros k Hk. apply in_seq in Hk. rewrite Hsame by lia. reflexivity. }
        unfold x1, bs_step. unfold vget at 1. rewrite nth_upd_same by lia.
        rewrite (sub_loop (seq (S m) (n - S m)) (fun j => mget N Am m j * vget N x j)).
        rewrite Hrhs. simpl. field. apply Hd; lia.
      - rewrite (rowsum_ext x1 x). + apply Hsolved; lia. + intros k Hk. apply Hsame. lia. }
    destruct (IH x1 ltac:(lia) Hx1 Hsolved1) as (HL & HR & HK).
    split; [exact HL|]. split; [exact HR|].
    intros k Hk. rewrite HK by lia. apply Hsame. lia.
Qed.

(* (2) R x = b, row sums taken from the diagonal: needs only the non-zero diagonal *)
Lemma backsub_solves x0 :
  diag_nonzero K n Am -> length x0 = n ->
  forall i, i < n -> rowsum (backsub N n Am (Some b) x0) i = vget N b i.
Proof.
  intros Hd Hx i Hi. rewrite backsub_unfold.
  destruct (backsub_inv (fun i => vget N b i) (Some b) ltac:(auto) Hd n x0 ltac:(lia) Hx ltac:(intros; lia)) as (_ & HR & _).
  apply HR; auto.
Qed.

(* for an upper triangular R the sum over the whole row is the same *)
Lemma full_row_sum x i : upper_tri K n Am -> i < n ->
  mulSv K (seq 0 n) Am x i = rowsum x i.
Proof.
  intros HU Hi. unfold mulSv, rowsum.
  replace n with (i + (n - i))%nat at 1 by lia. rewrite seq_app.
  assert (Happ : forall l1 l2 (f : nat -> K), sumL K (l1 ++ l2) f = sumL K l1 f + sumL K l2 f).
  { induction l1 as [|h t IHl]; intros; simpl; [ring|]. rewrite IHl. ring. }
  rewrite Happ. rewrite sumL_zero.
  - simpl. ring.
  - intros k Hk. apply in_seq in Hk. rewrite HU by lia. ring.
Qed.

Lemma backsub_correct x0 :
  upper_tri K n Am -> diag_nonzero K n Am -> length x0 = n ->
  forall i, i < n -> mulSv K (seq 0 n) Am (backsub N n Am (Some b) x0) i = vget N b i.
Proof. intros HU Hd Hx i Hi. rewrite full_row_sum by auto. apply backsub_solves; auto. Qed.

(* b == nil: the homogeneous system *)
Lemma backsub_nil_correct x0 :
  upper_tri K n Am -> diag_nonzero K n Am -> length x0 = n ->
  forall i, i < n -> mulSv K (seq 0 n) Am (backsub N n Am None x0) i = 0.
Proof.
  intros HU Hd Hx i Hi. rewrite full_row_sum by auto. rewrite backsub_unfold.
  destruct (backsub_inv (fun _ => 0) None ltac:(auto) Hd n x0 ltac:(lia) Hx ltac:(intros; lia)) as (_ & HR & _).
  apply HR; auto.
Qed.

End BS.
