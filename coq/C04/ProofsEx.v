(* C04 — a concrete field (canonical rationals Qc, Leibniz equality) on which the
   hypotheses of the round-2 theorems are exhibited by non-trivial instances. *)
From Coq Require Import List Bool Arith ZArith QArith Qabs Qcanon Field Lia.
From ADV Require Import Base.Num C04.Model C04.Spec.
Import ListNotations.

Definition QcK : fld :=
  mkFld Qc 0%Qc 1%Qc Qcplus Qcmult Qcminus Qcopp Qcdiv Qcinv Qcft
        (fun x => Q2Qc (Qabs (this x))) (fun x => x)
        (fun x y => match Qcompare (this x) (this y) with Lt => true | _ => false end)
        (fun x y => match Qcompare (this x) (this y) with Gt => false | _ => true end)
        (fun x y => Qeq_bool (this x) (this y))
        (fun z => Q2Qc (inject_Z z)).

Definition qc (m : list (list Z)) : list (list Qc) := map (map (fun z => Q2Qc (inject_Z z))) m.
Definition qcv (v : list Z) : list Qc := map (fun z => Q2Qc (inject_Z z)) v.

Lemma Qc_nonzero_b (c : Qc) : Qeq_bool (this c) 0 = false -> c <> 0%Qc.
Proof. intros H E. subst c. discriminate H. Qed.

Lemma all_nonzero_b (l : list Qc) : forallb (fun c => negb (Qeq_bool (this c) 0)) l = true ->
  forall c, In c l -> c <> 0%Qc.
Proof.
  intros H c Hc. rewrite forallb_forall in H. specialize (H c Hc).
  apply Qc_nonzero_b. destruct (Qeq_bool (this c) 0); [discriminate|reflexivity].
Qed.

(* the witness matrix of the repaired defect: its pivot order is a 3-cycle *)
Definition Wz := [[1;5;1];[2;1;7];[4;1;1]]%Z.
Definition W0 : st (A:=QcK) := mkSt (qc Wz) (ident (NumK QcK) 3) (qcv [1;2;3]%Z).

Lemma W0_wf : wf_st QcK 3 W0.
Proof. repeat split; cbn; repeat constructor. Qed.

Lemma W0_pivots : forall c, In c (gj_pivots (NumK QcK) 3 (all_true 3) W0) -> c <> f0 QcK.
Proof. apply all_nonzero_b. vm_compute. reflexivity. Qed.

Lemma W0_perm : fp (fwd (NumK QcK) 3 (all_true 3) W0) = [2; 0; 1]%nat.
Proof. vm_compute. reflexivity. Qed.

Lemma W0_ok : exists s', gj_run (NumK QcK) true false 3 (all_true 3) W0 = Ok s'.
Proof. eexists. vm_compute. reflexivity. Qed.

(* a sub-matrix selection with a pivot swap inside the selection *)
Definition W1 : st (A:=QcK) := mkSt (qc [[1;50;2];[60;70;80];[3;90;4]]%Z) (ident (NumK QcK) 3) (qcv [1;2;3]%Z).
Lemma W1_wf : wf_st QcK 3 W1.
Proof. repeat split; cbn; repeat constructor. Qed.
Lemma W1_pivots : forall c, In c (gj_pivots (NumK QcK) 3 [true;false;true] W1) -> c <> f0 QcK.
Proof. apply all_nonzero_b. vm_compute. reflexivity. Qed.
Lemma W1_perm : fp (fwd (NumK QcK) 3 [true;false;true] W1) = [2; 1; 0]%nat.
Proof. vm_compute. reflexivity. Qed.

(* upper triangular instance *)
Definition U0 : st (A:=QcK) := mkSt (qc [[2;1;1];[0;3;1];[0;0;4]]%Z) (ident (NumK QcK) 3) (qcv [7;10;8]%Z).
Lemma U0_wf : wf_st QcK 3 U0.
Proof. repeat split; cbn; repeat constructor. Qed.

(* ---- the NaN-aware carrier over Qc ---- *)
Definition qisz (x : Qc) : bool := Qeq_bool (this x) 0.
Lemma qisz_spec : forall x : QcK, qisz x = true <-> x = f0 QcK.
Proof.
  intros x. unfold qisz. split.
  - intros H. apply Qeq_bool_iff in H. apply Qc_is_canon. exact H.
  - intros ->. reflexivity.
Qed.

(* zero column, DenseFloat64-style path: error; identical rows, generic path: the same error (HEAD, /repo 74e12ad) *)
Lemma nan_aware_zero_column_exit :
  gj_run (NumO QcK qisz) true false 2 (all_true 2)
         (lst QcK (mkSt (qc [[0;1];[0;2]]%Z) (ident (NumK QcK) 2) (qcv [1;1]%Z))) = ErrSingular.
Proof. vm_compute. reflexivity. Qed.
Lemma nan_aware_identical_rows_exit :
  gj_run (NumO QcK qisz) false false 3 (all_true 3)
         (lst QcK (mkSt (qc [[1;2;3];[4;5;6];[1;2;3]]%Z) (ident (NumK QcK) 3) (qcv [1;1;1]%Z))) = ErrSingular.
Proof. vm_compute. reflexivity. Qed.
(* regular input: Ok on the NaN-aware carrier *)
Lemma nan_aware_regular_ok :
  exists s', gj_run (NumO QcK qisz) true false 3 (all_true 3) (lst QcK W0) = Ok s'.
Proof. eexists. vm_compute. reflexivity. Qed.
