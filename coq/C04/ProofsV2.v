(* C04 round 6 — gaussJordan.Run on views: the element-level view run (gj_run_v: SwapRows on the
   storages) IS "load the views, run the logical model, write the result through the views", for EVERY
   carrier (floats included: no arithmetic law is used), every mask, every pair of well-formed views. *)
From Coq Require Import List Bool Arith ZArith Lia.
From ADV Require Import Base.Num C04.Model C04.ModelV C04.ProofsList C04.ProofsBuf C04.ProofsV C10.Gen.
Import ListNotations.
Local Open Scope nat_scope.

(* ---------------------------------------------------------------- shapes: the phases keep n x n matrices n x n *)
Section Shape.
Context {A : Type} (N : Num A).
Variable n : nat.

Definition wfs (s : st (A:=A)) : Prop := wfm n (sa s) /\ wfm n (sx s).

Lemma wfm_upd_row (m : list (list A)) r v : wfm n m -> (r < n -> length v = n) -> wfm n (upd m r v).
Proof.
  intros Hw Hv. destruct (Nat.lt_ge_cases r n) as [Hr|Hr].
  - destruct Hw as [HL HF]. split; [rewrite length_upd; exact HL|]. apply Forall_upd'; auto.
  - rewrite upd_overflow; [exact Hw|]. destruct Hw as [HL _]. lia.
Qed.

Lemma fold_upd_length {X} (g : list A -> X -> A) (ks : list X) (ix : X -> nat) :
  forall r, length (fold_left (fun r k => upd r (ix k) (g r k)) ks r) = length r.
Proof. induction ks as [|k ks IH]; intros r; simpl; [reflexivity|]. rewrite IH. apply length_upd. Qed.

Lemma axpy_cols_length ks rj ri c : length (axpy_cols N ks rj ri c) = length rj.
Proof. unfold axpy_cols. apply (fold_upd_length (fun r k => sub N (vget N r k) (mul N (vget N ri k) c)) ks (fun k => k)). Qed.

Lemma scale_cols_length ks r c : length (scale_cols N ks r c) = length r.
Proof. unfold scale_cols. apply (fold_upd_length (fun r k => div N (vget N r k) c) ks (fun k => k)). Qed.

Lemma fold_inv {S X} (P : S -> Prop) (f : S -> X -> S) l : (forall s x, P s -> P (f s x)) -> forall s, P s -> P (fold_left f l s).
Proof. intros Hf. induction l as [|x l IH]; intros s Hs; simpl; auto. Qed.

Lemma ofold_none {S X} (f : option S -> X -> option S) l : (forall x, f None x = None) -> fold_left f l None = None.
Proof. intros Hf. induction l as [|x l IH]; simpl; [reflexivity|]. rewrite Hf. exact IH. Qed.

Lemma ofold_inv {S X} (P : S -> Prop) (f : option S -> X -> option S) l :
  (forall x, f None x = None) -> (forall s x s', P s -> f (Some s) x = Some s' -> P s') ->
  forall s s', P s -> fold_left f l (Some s) = Some s' -> P s'.
Proof.
  intros Hn Hf. induction l as [|x l IH]; intros s s' Hs E; simpl in E.
  - inversion E; subst; exact Hs.
  - destruct (f (Some s) x) as [s1|] eqn:E1.
    + apply (IH s1 s'); [apply (Hf s x s1 Hs E1)|exact E].
    + rewrite (ofold_none f l Hn) in E. discriminate.
Qed.

Lemma elim_row_wfs i msk p s j : wfs s -> wfs (elim_row N n i msk p s j).
Proof.
  intros [Ha Hx]. unfold elim_row, wfs. simpl. split; apply wfm_upd_row; auto; intros Hr;
    rewrite axpy_cols_length; apply wfm_row; auto.
Qed.

Definition finv (f : fst_ (A:=A)) : Prop := wfs (fs f) /\ length (fp f) = n /\ Forall (fun x => x < n) (fp f).

Lemma nth_lt_of_Forall (p : list nat) k : 0 < n -> Forall (fun x => x < n) p -> nth k p 0 < n.
Proof.
  intros Hn HF. destruct (nth_in_or_default k p 0) as [Hin|E]; [|rewrite E; exact Hn].
  rewrite Forall_forall in HF. apply HF. exact Hin.
Qed.

Lemma fwd_step_finv msk f i : i < n -> finv f -> finv (fwd_step N n msk f i).
Proof.
  intros Hi (Hw & HL & HF). unfold fwd_step, finv. simpl. split; [|split].
  - apply fold_inv; [intros s x; apply elim_row_wfs|exact Hw].
  - rewrite swap_l_length. exact HL.
  - unfold swap_l. apply Forall_upd'; [apply Forall_upd'; [exact HF|]|]; apply nth_lt_of_Forall; auto; lia.
Qed.

Lemma fwd_finv msk s : wfs s -> finv (fwd N n msk s).
Proof.
  intros Hw. unfold fwd.
  assert (G : forall l f, (forall i, In i l -> i < n) -> finv f -> finv (fold_left (fwd_step N n msk) l f)).
  { induction l as [|i l IH]; intros f Hl Hf; simpl; [exact Hf|].
    apply IH; [intros k Hk; apply Hl; right; exact Hk|]. apply fwd_step_finv; [apply Hl; left; reflexivity|exact Hf]. }
  apply G.
  - intros i Hin. apply in_idxs in Hin. lia.
  - split; [exact Hw|]. simpl. split; [apply seq_length|]. apply Forall_forall. intros x Hx. apply in_seq in Hx. lia.
Qed.

Lemma bs_xrow_length ks aji c rj ri r' : bs_xrow N ks aji c rj ri = Some r' -> length r' = length rj.
Proof.
  unfold bs_xrow. apply (ofold_inv (fun r => length r = length rj)); [reflexivity| |reflexivity].
  intros s x s' Hs E. destruct (is_nan N _) in E; [discriminate|]. inversion E; subst. rewrite length_upd. exact Hs.
Qed.

Lemma bs_arow_length ks i c rj ri r' : bs_arow N ks i c rj ri = Some r' -> length r' = length rj.
Proof.
  unfold bs_arow. apply (ofold_inv (fun r => length r = length rj)); [reflexivity| |reflexivity].
  intros s x s' Hs E. destruct (is_nan N _) in E; [discriminate|]. inversion E; subst. rewrite length_upd. exact Hs.
Qed.

Lemma bs_row_wfs i msk p c s j s' : wfs s -> bs_row N n i msk p c (Some s) j = Some s' -> wfs s'.
Proof.
  intros [Ha Hx] E. unfold bs_row in E.
  destruct (is_nan N _) in E; [discriminate|].
  destruct (bs_xrow N _ _ _ _ _) as [xr|] eqn:EX; [|discriminate].
  destruct (bs_arow N _ _ _ _ _) as [ar|] eqn:EA; [|discriminate].
  inversion E; subst. unfold wfs. simpl. split; apply wfm_upd_row; auto; intros Hr.
  - rewrite (bs_arow_length _ _ _ _ _ _ EA). apply wfm_row; auto.
  - rewrite (bs_xrow_length _ _ _ _ _ _ EX). apply wfm_row; auto.
Qed.

Lemma bs_step_wfs msk p xlo s i s' : wfs s -> bs_step N n msk p xlo (Some s) i = Some s' -> wfs s'.
Proof.
  intros Hw E. unfold bs_step in E.
  destruct (fold_left _ _ (Some s)) as [s1|] eqn:E1; [|discriminate].
  assert (H1 : wfs s1).
  { revert E1. apply (ofold_inv wfs); [reflexivity| |exact Hw]. intros t x t' Ht Et. apply (bs_row_wfs _ _ _ _ _ _ _ Ht Et). }
  destruct (is_nan N _) in E; [discriminate|]. inversion E; subst. destruct H1 as [Ha Hx]. unfold wfs. simpl. split.
  - apply wfm_mset. exact Ha.
  - apply wfm_upd_row; auto. intros Hr. rewrite scale_cols_length. apply wfm_row; auto.
Qed.

Lemma back_wfs msk p xlo s s' : wfs s -> back N n msk p xlo s = Some s' -> wfs s'.
Proof.
  intros Hw. unfold back. apply (ofold_inv wfs); [reflexivity| |exact Hw].
  intros t x t' Ht Et. apply (bs_step_wfs _ _ _ _ _ _ Ht Et).
Qed.

End Shape.

(* ---------------------------------------------------------------- permuteRows on views *)
Section Sim.
Context {A : Type} (N : Num A).
Variables (lena lenx n : nat) (ha hx : hdr).
Hypothesis Hoka : view_ok lena n ha = true.
Hypothesis Hokx : view_ok lenx n hx = true.

Definition okv (v : vst (A:=A)) : Prop := length (wa v) = lena /\ length (wx v) = lenx.

Lemma store_st_okv v t : okv v -> okv (store_st N n ha hx v t).
Proof. intros [H1 H2]. unfold okv, store_st. simpl. rewrite !vstore_length. auto. Qed.

Lemma store_store v t1 t2 : okv v -> store_st N n ha hx (store_st N n ha hx v t1) t2 = store_st N n ha hx v t2.
Proof.
  intros [H1 H2]. unfold store_st. simpl.
  rewrite (vstore_vstore N lena n ha Hoka) by exact H1. rewrite (vstore_vstore N lenx n hx Hokx) by exact H2. reflexivity.
Qed.

Lemma load_store v t : okv v -> wfs n t -> load_st N n ha hx (store_st N n ha hx v t) = t.
Proof.
  intros [H1 H2] [Ha Hx]. unfold load_st, store_st. simpl.
  rewrite (vload_vstore N lena n ha Hoka) by auto. rewrite (vload_vstore N lenx n hx Hokx) by auto. destruct t; reflexivity.
Qed.

Lemma store_load v : okv v -> store_st N n ha hx v (load_st N n ha hx v) = v.
Proof.
  intros [H1 H2]. unfold load_st, store_st. simpl.
  rewrite (vstore_vload N lena n ha Hoka) by auto. rewrite (vstore_vload N lenx n hx Hokx) by auto. destruct v; reflexivity.
Qed.

Lemma load_wfs v : wfs n (load_st N n ha hx v).
Proof. split; apply tab_wfm. Qed.

Lemma chase_lt (p : list nat) i : (forall k, pget p k < n) -> forall fuel v j, v < n -> chase fuel p i v = Some j -> j < n.
Proof.
  intros Hp. induction fuel as [|f IH]; intros v j Hv E; simpl in E.
  - destruct (v <? i); [discriminate|]. inversion E; subst; exact Hv.
  - destruct (v <? i); [|inversion E; subst; exact Hv]. apply (IH (pget p v) j); [apply Hp|exact E].
Qed.

Lemma permute_step_sim (p : list nat) v0 t i : okv v0 -> wfs n t -> i < n -> (forall k, pget p k < n) ->
  permute_rows_v_step N n ha hx p (Some (store_st N n ha hx v0 t)) i =
    match permute_rows_step N p (Some t) i with Some t' => Some (store_st N n ha hx v0 t') | None => None end /\
  (forall t', permute_rows_step N p (Some t) i = Some t' -> wfs n t').
Proof.
  intros Hv [Ha Hx] Hi Hp. unfold permute_rows_v_step, permute_rows_step.
  destruct (chase (length p) p i (pget p i)) as [j|] eqn:EC; [|split; [reflexivity|discriminate]].
  assert (Hj : j < n) by (apply (chase_lt p i Hp _ _ _ (Hp i) EC)).
  destruct (j =? i); [split; [reflexivity|intros t' E; inversion E; subst; split; assumption]|].
  destruct Hv as [H1 H2]. split.
  - unfold store_st at 1 2. simpl.
    rewrite (v_swap_rows_spec N lena n ha Hoka) by (auto; rewrite vstore_length; auto).
    rewrite (v_swap_rows_spec N lenx n hx Hokx) by (auto; rewrite vstore_length; auto).
    rewrite (vload_vstore N lena n ha Hoka) by auto. rewrite (vload_vstore N lenx n hx Hokx) by auto.
    rewrite (vstore_vstore N lena n ha Hoka) by auto. rewrite (vstore_vstore N lenx n hx Hokx) by auto.
    reflexivity.
  - intros t' E. inversion E; subst. unfold swap_rows_st, wfs. simpl. split; apply wfm_swap_l; auto.
Qed.

Lemma permute_fold_sim (p : list nat) v0 : okv v0 -> (forall k, pget p k < n) ->
  forall l, (forall i, In i l -> i < n) -> forall t, wfs n t ->
  fold_left (permute_rows_v_step N n ha hx p) l (Some (store_st N n ha hx v0 t)) =
    match fold_left (permute_rows_step N p) l (Some t) with Some t' => Some (store_st N n ha hx v0 t') | None => None end.
Proof.
  intros Hv Hp. induction l as [|i l IH]; intros Hl t Ht; cbn [fold_left]; [reflexivity|].
  destruct (permute_step_sim p v0 t i Hv Ht (Hl i (or_introl eq_refl)) Hp) as [E W].
  rewrite E. destruct (permute_rows_step N p (Some t) i) as [t1|] eqn:E1.
  - apply IH; [intros k Hk; apply Hl; right; exact Hk|apply W; reflexivity].
  - rewrite (ofold_none (permute_rows_v_step N n ha hx p) l) by reflexivity.
    rewrite (ofold_none (permute_rows_step N p) l) by reflexivity. reflexivity.
Qed.

(* gaussJordan.go permuteRows on views = permuteRows on the denoted matrices, written through *)
Lemma permute_rows_v_sim (p : list nat) v0 t : okv v0 -> wfs n t -> length p = n -> Forall (fun x => x < n) p ->
  permute_rows_v N n ha hx (store_st N n ha hx v0 t) p =
    match permute_rows N t p with Some t' => Some (store_st N n ha hx v0 t') | None => None end.
Proof.
  intros Hv Ht HL HF. unfold permute_rows_v, permute_rows.
  destruct n as [|n'] eqn:En.
  - rewrite HL. reflexivity.
  - rewrite <- En in *. apply permute_fold_sim; auto.
    + intros k. apply nth_lt_of_Forall; [lia|exact HF].
    + intros i Hin. apply in_seq in Hin. lia.
Qed.

(* the whole run *)
Definition lift_v (v : vst (A:=A)) (o : outcome (st (A:=A))) : outcome (vst (A:=A)) :=
  match o with
  | Ok t => Ok (store_st N n ha hx v t)
  | ErrSingular => ErrSingular | PanicSingular => PanicSingular | ErrNotPD => ErrNotPD
  | ErrPerm => ErrPerm | PanicIndex => PanicIndex | OutOfFuel => OutOfFuel
  end.

Lemma gj_run_v_eq dense ut msk v : okv v ->
  gj_run_v N dense ut n msk ha hx v = lift_v v (gj_run N dense ut n msk (load_st N n ha hx v)).
Proof.
  intros Hv. unfold gj_run_v, gj_run, gj_ut_core, gj_core. destruct ut.
  - destruct (back N n msk (seq 0 n) (fun i => i) (load_st N n ha hx v)); reflexivity.
  - destruct (fwd_finv N n msk (load_st N n ha hx v) (load_wfs v)) as (Hw & HL & HF).
    destruct (back N n msk _ _ _) as [s2|] eqn:EB; [|reflexivity].
    rewrite (permute_rows_v_sim _ v s2 Hv (back_wfs N n _ _ _ _ _ Hw EB) HL HF).
    destruct (permute_rows N s2 _); reflexivity.
Qed.

(* frame: cells of the workspaces that the views do not address keep their values *)
Lemma store_st_frame v t : okv v ->
  (forall k, nohit n ha k -> nth k (wa (store_st N n ha hx v t)) (zero N) = nth k (wa v) (zero N)) /\
  (forall k, nohit n hx k -> nth k (wx (store_st N n ha hx v t)) (zero N) = nth k (wx v) (zero N)).
Proof.
  intros _. unfold store_st. simpl. split; intros k Hn.
  - apply vstore_other. exact Hn.
  - apply vstore_other. exact Hn.
Qed.

End Sim.
