(* C04 — determinantNaive is the Laplace expansion; closed forms; triangular matrices. *)
From Coq Require Import List Bool Arith Lia Field.
From ADV Require Import Base.Num C04.Model C04.Spec C04.ProofsList.
Import ListNotations.

Section Det.
Variable K : fld.
Add Field KF : (Fth K).
Notation N := (NumK K).
Notation "0" := (f0 K). Notation "1" := (f1 K).
Infix "+" := (fadd K). Infix "*" := (fmul K). Infix "-" := (fsub K).

(* ---- entries of the minor ---- *)
Lemma drop_col_nil j : drop_col j (@nil K) = [].
Proof. unfold drop_col. destruct j; reflexivity. Qed.

Lemma row_minor0 (a : list (list K)) j i : row (minor0 a j) i = drop_col j (row a (S i)).
Proof.
  unfold row, minor0.
  replace (nth (S i) a []) with (nth i (tl a) []) by (destruct a; simpl; auto; destruct i; auto).
  rewrite <- (drop_col_nil j) at 1. apply map_nth.
Qed.

Lemma vget_drop_col (r : list K) j k :
  vget N (drop_col j r) k = if k <? j then vget N r k else vget N r (S k).
Proof.
  unfold vget, drop_col.
  destruct (Nat.ltb_spec k j) as [Hlt|Hge].
  - destruct (Nat.le_gt_cases j (length r)) as [Hj|Hj].
    + rewrite app_nth1 by (rewrite firstn_length; lia).
      apply nth_firstn_lt; auto.
    + rewrite firstn_all2 by lia. rewrite skipn_all2 by lia. rewrite app_nil_r. auto.
  - destruct (Nat.le_gt_cases j (length r)) as [Hj|Hj].
    + rewrite app_nth2 by (rewrite firstn_length; lia).
      rewrite firstn_length, Nat.min_l by lia.
      rewrite nth_skipn_add. f_equal. lia.
    + rewrite firstn_all2 by lia. rewrite skipn_all2 by lia. rewrite app_nil_r.
      rewrite !nth_overflow by lia. auto.
Qed.

Lemma mget_minor0 (a : list (list K)) j i k :
  mget N (minor0 a j) i k = if k <? j then mget N a (S i) k else mget N a (S i) (S k).
Proof. unfold mget. rewrite row_minor0. apply vget_drop_col. Qed.

(* ---- sums ---- *)
Lemma sumL_ext ks (f g : nat -> K) : (forall k, In k ks -> f k = g k) -> sumL K ks f = sumL K ks g.
Proof. induction ks as [|k r IH]; simpl; intros H; auto. rewrite H, IH; auto. Qed.

Lemma sumL_zero ks (f : nat -> K) : (forall k, In k ks -> f k = 0) -> sumL K ks f = 0.
Proof. induction ks as [|k r IH]; simpl; intros H; auto. rewrite H, IH; auto. ring. Qed.

Lemma sumL_shift lo n (f : nat -> K) : sumL K (seq (S lo) n) f = sumL K (seq lo n) (fun k => f (S k)).
Proof. revert lo; induction n as [|n IH]; intros lo; simpl; auto. rewrite IH. auto. Qed.

Lemma prodL_shift lo n (f : nat -> K) : prodL K (seq (S lo) n) f = prodL K (seq lo n) (fun k => f (S k)).
Proof. revert lo; induction n as [|n IH]; intros lo; simpl; auto. rewrite IH. auto. Qed.

Lemma prodL_ext ks (f g : nat -> K) : (forall k, In k ks -> f k = g k) -> prodL K ks f = prodL K ks g.
Proof. induction ks as [|k r IH]; simpl; intros H; auto. rewrite H, IH; auto. Qed.

(* the accumulation loop of determinantNaive *)
Lemma det_loop ks (g : nat -> K) acc :
  fold_left (fun det j1 => if Nat.even j1 then add N det (g j1) else sub N det (g j1)) ks acc
  = acc + sumL K ks (fun j => sgn K j (g j)).
Proof.
  revert acc; induction ks as [|k r IH]; intros acc; simpl.
  - ring.
  - rewrite IH. unfold sgn. destruct (Nat.even k); ring.
Qed.

Lemma det_naive_3 m (a : list (list K)) :
  det_naive N (S (S (S m))) a =
  fold_left (fun det j1 =>
      let t1 := mul N (mget N a 0 j1) (det_naive N (S (S m)) (minor0 a j1)) in
      if Nat.even j1 then add N det t1 else sub N det t1) (seq 0 (S (S (S m)))) (zero N).
Proof. reflexivity. Qed.

Lemma det_laplace_S n (a : list (list K)) :
  det_laplace K (S n) a = sumL K (seq 0 (S n)) (fun j => sgn K j (mget N a 0 j * det_laplace K n (minor0 a j))).
Proof. reflexivity. Qed.

(* (4) determinantNaive computes the Laplace expansion, for every size n >= 1 and every matrix *)
Lemma det_naive_laplace n : forall a : list (list K), 1 <= n -> det_naive N n a = det_laplace K n a.
Proof.
  induction n as [|n IH]; intros a Hn; [lia|].
  destruct n as [|[|m]].
  - simpl. unfold sgn; simpl. ring.
  - rewrite det_laplace_S. simpl sumL.
    unfold sgn; simpl Nat.even; cbv iota. rewrite !mget_minor0. simpl. ring.
  - rewrite det_laplace_S.
    etransitivity; [exact (det_loop (seq 0 (S (S (S m)))) (fun j1 => mget N a 0 j1 * det_naive N (S (S m)) (minor0 a j1)) 0)|].
    transitivity (sumL K (seq 0 (S (S (S m)))) (fun j => sgn K j (mget N a 0 j * det_naive N (S (S m)) (minor0 a j)))).
    { ring. }
    apply sumL_ext. intros k _. rewrite IH by lia. reflexivity.
Qed.

(* quirk: determinantNaive returns 0 for the empty matrix (the Laplace determinant is 1) *)
Lemma det_naive_empty (a : list (list K)) : det_naive N 0 a = 0.
Proof. reflexivity. Qed.

(* closed forms *)
Lemma det_laplace_2 (a : list (list K)) :
  det_laplace K 2 a = mget N a 0 0 * mget N a 1 1 - mget N a 0 1 * mget N a 1 0.
Proof.
  rewrite det_laplace_S. simpl sumL.
  unfold sgn; simpl Nat.even; cbv iota. rewrite !mget_minor0. simpl. ring.
Qed.

Lemma det_laplace_3 (a : list (list K)) :
  det_laplace K 3 a =
    mget N a 0 0 * (mget N a 1 1 * mget N a 2 2 - mget N a 1 2 * mget N a 2 1)
  - mget N a 0 1 * (mget N a 1 0 * mget N a 2 2 - mget N a 1 2 * mget N a 2 0)
  + mget N a 0 2 * (mget N a 1 0 * mget N a 2 1 - mget N a 1 1 * mget N a 2 0).
Proof.
  rewrite det_laplace_S. simpl sumL.
  unfold sgn; simpl Nat.even; cbv iota. rewrite !mget_minor0. simpl. ring.
Qed.

(* ---- triangular matrices ---- *)
Lemma det_lower_tri n : forall a : list (list K),
  lower_tri K n a -> det_laplace K n a = prodL K (seq 0 n) (fun i => mget N a i i).
Proof.
  induction n as [|n IH]; intros a HL; [reflexivity|].
  rewrite det_laplace_S. simpl seq. simpl sumL. simpl prodL.
  rewrite sumL_zero.
  - unfold sgn; simpl. rewrite IH.
    + rewrite prodL_shift. rewrite (prodL_ext (seq 0 n) _ (fun k => mget N a (S k) (S k))).
      * ring.
      * intros k _. rewrite mget_minor0. reflexivity.
    + intros i j Hij Hj. rewrite mget_minor0. simpl. apply HL; lia.
  - intros k Hk. apply in_seq in Hk. rewrite (HL O k) by lia. unfold sgn. destruct (Nat.even k); ring.
Qed.

(* first column zero => determinant zero *)
Lemma det_first_col_zero n : forall a : list (list K),
  1 <= n -> (forall i, i < n -> mget N a i 0 = 0) -> det_laplace K n a = 0.
Proof.
  induction n as [|n IH]; intros a Hn Hz; [lia|].
  rewrite det_laplace_S. apply sumL_zero. intros k Hk. apply in_seq in Hk.
  destruct k as [|k].
  - rewrite Hz by lia. unfold sgn; simpl. ring.
  - rewrite IH.
    + unfold sgn. destruct (Nat.even (S k)); ring.
    + lia.
    + intros i Hi. rewrite mget_minor0. simpl. apply Hz. lia.
Qed.

Lemma det_upper_tri n : forall a : list (list K),
  upper_tri K n a -> det_laplace K n a = prodL K (seq 0 n) (fun i => mget N a i i).
Proof.
  induction n as [|n IH]; intros a HU; [reflexivity|].
  rewrite det_laplace_S. simpl seq. simpl sumL. simpl prodL.
  rewrite sumL_zero.
  - unfold sgn; simpl. rewrite IH.
    + rewrite prodL_shift. rewrite (prodL_ext (seq 0 n) _ (fun k => mget N a (S k) (S k))).
      * ring.
      * intros k _. rewrite mget_minor0. reflexivity.
    + intros i j Hij Hi. rewrite mget_minor0. simpl. apply HU; lia.
  - intros k Hk. apply in_seq in Hk. destruct k as [|k]; [lia|].
    rewrite det_first_col_zero.
    + unfold sgn. destruct (Nat.even (S k)); ring.
    + lia.
    + intros i Hi. rewrite mget_minor0. simpl. apply HU; lia.
Qed.

(* a zero first row gives determinant zero (structural singularity seen by the determinant) *)
Lemma det_first_row_zero n (a : list (list K)) :
  (forall j, j < n -> mget N a 0 j = 0) -> 1 <= n -> det_laplace K n a = 0.
Proof.
  intros Hz Hn. destruct n; [lia|]. rewrite det_laplace_S. apply sumL_zero.
  intros k Hk. apply in_seq in Hk. rewrite Hz by lia. unfold sgn. destruct (Nat.even k); ring.
Qed.

(* determinantPD (no LogScale) returns the squared product of the Cholesky diagonal *)
Lemma prod_loop ks (g : nat -> K) acc :
  fold_left (fun r i => mul N r (g i)) ks acc = acc * prodL K ks g.
Proof.
  revert acc; induction ks as [|k r IH]; intros acc; simpl; [ring|]. rewrite IH. ring.
Qed.

Lemma det_pd_value n (m L : list (list K)) :
  cholesky N n m (zmat N n) = Ok L ->
  det_pd N n m = Ok (let d := prodL K (seq 0 n) (fun i => mget N L i i) in d * d).
Proof.
  intros H. unfold det_pd. rewrite H. rewrite prod_loop. simpl. f_equal. ring.
Qed.

End Det.
