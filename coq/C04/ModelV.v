(* C04 — round 6: operands and caller-supplied in-situ buffers that are VIEWS of a larger
   workspace (Slice with row / column offsets, T(), views of views).

   A workspace is the storage list of a dense matrix ([list A], row-major R x C); a view is a
   header [DenseMatrix unit] over it.  The header arithmetic is NOT written here: index, Slice and
   T are the definitions regenerated from /repo's matrix_dense_*.go by go2coq_c10 (coq/C10/Gen.v,
   module DenseP; the Real twins are proved identical in C10).

   - vload / vstore: the logical n x n content a view denotes, and writing a logical content back
     (specification devices: the Go code never copies, it reads and writes cell by cell through
     index; vload/vstore say WHICH cells).
   - v_swap / v_swap_rows: the element-level text of (matrix).Swap and (matrix).SwapRows — the one
     non-At access gaussJordan makes to its operands (permuteRows).
   - permute_rows_v: gaussJordan.go permuteRows on a state whose a and x are views.
   - gj_run_v: gaussJordan.Run on views: forward / back phase on the denoted content (At(i,j) only),
     written through, then permute_rows_v on the storages.
   No proofs in this file. *)
From Coq Require Import List Bool Arith ZArith.
From ADV Require Import Base.Num C04.Model C10.Gen.
Import ListNotations.
Local Open Scope nat_scope.
Local Open Scope bool_scope.

Definition hdr := DenseMatrix unit.

(* view constructors, in the order they are applied to the R x C base matrix *)
Inductive vop := VS (r0 r1 c0 c1 : nat) | VT.
Definition base_hdr (R C : nat) : hdr :=
  mkDense tt (Z.of_nat R) (Z.of_nat C) 0%Z (Z.of_nat R) 0%Z (Z.of_nat C) false.
Definition apply_vop (h : hdr) (o : vop) : hdr :=
  match o with
  | VS r0 r1 c0 c1 => DenseP.Slice h (Z.of_nat r0) (Z.of_nat r1) (Z.of_nat c0) (Z.of_nat c1)
  | VT => DenseP.T h
  end.
Definition view_of (R C : nat) (ops : list vop) : hdr := fold_left apply_vop ops (base_hdr R C).

(* storage cell of the element (i, j) of the view; None = index() panics *)
Definition sidx (h : hdr) (i j : nat) : option nat :=
  match DenseP.index h (Z.of_nat i) (Z.of_nat j) with Some k => Some (Z.to_nat k) | None => None end.

(* computable well-formedness of an n x n view over a storage of len cells (C10.Spec.wf + square) *)
Definition view_ok (len n : nat) (h : hdr) : bool :=
  (d_rows h =? Z.of_nat n)%Z && (d_cols h =? Z.of_nat n)%Z &&
  (0 <=? d_rowOffset h)%Z && (0 <=? d_colOffset h)%Z &&
  (d_rowOffset h + d_rows h <=? d_rowMax h)%Z && (d_colOffset h + d_cols h <=? d_colMax h)%Z &&
  (Z.of_nat len =? d_rowMax h * d_colMax h)%Z.

(* all positions of an n x n matrix, row-major *)
Definition poss (n : nat) : list (nat * nat) := flat_map (fun i => map (fun j => (i, j)) (seq 0 n)) (seq 0 n).

Section View.
Context {A : Type} (N : Num A).

Definition cell (s : list A) (h : hdr) (i j : nat) : A :=
  match sidx h i j with Some k => nth k s (zero N) | None => zero N end.
Definition vput (s : list A) (h : hdr) (i j : nat) (v : A) : list A :=
  match sidx h i j with Some k => upd s k v | None => s end.

Definition vload (n : nat) (s : list A) (h : hdr) : mat (A:=A) :=
  map (fun i => map (fun j => cell s h i j) (seq 0 n)) (seq 0 n).
Definition vstore (n : nat) (s : list A) (h : hdr) (m : mat (A:=A)) : list A :=
  fold_left (fun s p => vput s h (fst p) (snd p) (mget N m (fst p) (snd p))) (poss n) s.

(* (matrix).Swap(i1, j1, i2, j2): k1 := index(i1,j1); k2 := index(i2,j2); values[k1], values[k2] = values[k2], values[k1] *)
Definition v_swap (s : list A) (h : hdr) (i1 j1 i2 j2 : nat) : option (list A) :=
  match sidx h i1 j1, sidx h i2 j2 with
  | Some k1, Some k2 => Some (upd (upd s k1 (nth k2 s (zero N))) k2 (nth k1 s (zero N)))
  | _, _ => None
  end.
(* (matrix).SwapRows(i, j) on a square view: for k := 0; k < m; k++ { matrix.Swap(i, k, j, k) } *)
Definition v_swap_rows (n : nat) (s : list A) (h : hdr) (i j : nat) : option (list A) :=
  fold_left (fun o k => match o with Some s => v_swap s h i k j k | None => None end) (seq 0 n) (Some s).

(* state of a Gauss-Jordan run on views: the storages of a and x, and the vector b *)
Record vst := mkV { wa : list A; wx : list A; vb : vec (A:=A) }.

(* gaussJordan.go permuteRows with a.SwapRows / x.SwapRows on the storages *)
Definition permute_rows_v_step (n : nat) (ha hx : hdr) (p : list nat) (o : option vst) (i : nat) : option vst :=
  match o with None => None | Some s =>
  match chase (length p) p i (pget p i) with
  | None => None
  | Some j =>
      if j =? i then Some s else
      match v_swap_rows n (wa s) ha i j, v_swap_rows n (wx s) hx i j with
      | Some a', Some x' => Some (mkV a' x' (swap_l (zero N) (vb s) i j))
      | _, _ => None
      end
  end end.
Definition permute_rows_v (n : nat) (ha hx : hdr) (s : vst) (p : list nat) : option vst :=
  fold_left (permute_rows_v_step n ha hx p) (seq 0 (length p)) (Some s).

Definition load_st (n : nat) (ha hx : hdr) (s : vst) : st (A:=A) :=
  mkSt (vload n (wa s) ha) (vload n (wx s) hx) (vb s).
Definition store_st (n : nat) (ha hx : hdr) (s : vst) (t : st (A:=A)) : vst :=
  mkV (vstore n (wa s) ha (sa t)) (vstore n (wx s) hx (sx t)) (sb t).

(* gaussJordan.Run(a, x, b, Submatrix{msk}, UpperTriangular{ut}) with a, x views (of different workspaces) *)
Definition gj_run_v (dense ut : bool) (n : nat) (msk : list bool) (ha hx : hdr) (s : vst) : outcome vst :=
  let s0 := load_st n ha hx s in
  if ut then
    match back N n msk (seq 0 n) (fun i => i) s0 with
    | None => ErrSingular
    | Some s2 => Ok (store_st n ha hx s s2)
    end
  else
    let f := fwd N n msk s0 in
    match back N n msk (fp f) (fun _ => 0) (fs f) with
    | None => ErrSingular
    | Some s2 =>
        match permute_rows_v n ha hx (store_st n ha hx s s2) (fp f) with
        | None => OutOfFuel
        | Some s3 => Ok s3
        end
    end.

End View.

Arguments mkV {A}.
