(* C04 — the model on the NaN-aware carrier [option K], part 2:
   a non-finite entry, once written, is never overwritten by a finite one (all updates have
   the form v := v - t or v := v / c), a zero pivot writes one or triggers the singular exit;
   hence the trichotomy [gj_nan_aware_cases]: all pivots non-zero and the run returns the
   finite field result  /  singular exit  /  Ok with a non-finite entry. *)
From Coq Require Import List Bool Arith Lia Field Permutation.
From ADV Require Import Base.Num C04.Model C04.Spec C04.ProofsList C04.ProofsDet C04.ProofsPerm C04.ProofsGJ
                        C04.ProofsGJ2 C04.ProofsGJ3 C04.ProofsGJ4 C04.ProofsSing C04.ProofsInv C04.ProofsNaN.
Import ListNotations.

(* ------------------------------------------------------------------ any carrier: p stays a permutation *)
Section AnyCarrier.
Context {A : Type} (N : Num A).

Lemma fold_pick (b : nat -> nat -> bool) js : forall acc,
  In (fold_left (fun mr j => if b mr j then j else mr) js acc) (acc :: js).
Proof.
  induction js as [|j t IH]; intros acc; cbn [fold_left]; [left; auto|].
  destruct (IH (if b acc j then j else acc)) as [E|H].
  - rewrite <- E. destruct (b acc j); [right; left; auto|left; auto].
  - right. right. exact H.
Qed.

Lemma find_max_lt a p msk n i : i < n -> find_max N a p msk n i < n.
Proof.
  intros Hi. unfold find_max.
  destruct (fold_pick (fun mr j => ltb N (nabs N (mget N a (pget p mr) i)) (nabs N (mget N a (pget p j) i)))
                      (idxs msk (S i) n) i) as [E|H].
  - rewrite <- E. exact Hi.
  - apply in_idxs in H. lia.
Qed.

Lemma fwd_perm n msk (s : st (A:=A)) : Permutation (fp (fwd N n msk s)) (seq 0 n).
Proof.
  unfold fwd.
  assert (G : forall l f, (forall i, In i l -> i < n) -> Permutation (fp f) (seq 0 n) ->
             Permutation (fp (fold_left (fwd_step N n msk) l f)) (seq 0 n)).
  { induction l as [|i t IH]; intros f Hl HP; cbn [fold_left]; auto.
    apply IH; [intros; apply Hl; right; auto|]. unfold fwd_step. cbn [fp].
    assert (HL : length (fp f) = n) by (rewrite (Permutation_length HP), seq_length; auto).
    assert (Hi : i < n) by (apply Hl; left; auto).
    eapply Permutation_trans; [apply swap_l_Permutation|exact HP].
    - lia.
    - rewrite HL. apply find_max_lt. exact Hi. }
  apply G; [|apply Permutation_refl]. intros i Hi. apply in_idxs in Hi. lia.
Qed.

Lemma fold_none {X Y} (f : option X -> Y -> option X) l : (forall y, f None y = None) -> fold_left f l None = None.
Proof. intros H. induction l as [|y t IH]; cbn [fold_left]; auto. rewrite H. exact IH. Qed.

End AnyCarrier.

Section NaN2.
Variable K : fld.
Variable isz : K -> bool.
Hypothesis isz_spec : forall x, isz x = true <-> x = f0 K.
Notation N := (NumK K).
Notation O := (NumO K isz).
Notation lF := (fun f : fst_ (A:=K) => mkF (fp f) (lst K (fs f)) (lv K (fpiv f))).
Notation ovec := (list (option K)).
Notation omat := (list (list (option K))).
Notation ost := (st (A:=option K)).

Lemma isz_zero : isz (f0 K) = true.
Proof. apply isz_spec. reflexivity. Qed.

(* ------------------------------------------------------------------ "non-finite entries stay", shapes stay *)
Definition nn (v v' : ovec) : Prop := length v' = length v /\ forall k, vget O v k = None -> vget O v' k = None.
Definition nnm (m m' : omat) : Prop := length m' = length m /\ forall r k, mget O m r k = None -> mget O m' r k = None.
Definition ext (s s' : ost) : Prop := nnm (sa s) (sa s') /\ nnm (sx s) (sx s') /\ nn (sb s) (sb s').

Lemma nn_refl v : nn v v. Proof. split; auto. Qed.
Lemma nn_trans a b c : nn a b -> nn b c -> nn a c.
Proof. intros [L1 H1] [L2 H2]. split; [congruence|auto]. Qed.
Lemma nnm_refl m : nnm m m. Proof. split; auto. Qed.
Lemma nnm_trans a b c : nnm a b -> nnm b c -> nnm a c.
Proof. intros [L1 H1] [L2 H2]. split; [congruence|auto]. Qed.
Lemma ext_refl s : ext s s. Proof. split; [apply nnm_refl|split; [apply nnm_refl|apply nn_refl]]. Qed.
Lemma ext_trans a b c : ext a b -> ext b c -> ext a c.
Proof. intros (A1 & A2 & A3) (B1 & B2 & B3). split; [eapply nnm_trans; eauto|split; [eapply nnm_trans; eauto|eapply nn_trans; eauto]]. Qed.

Lemma nn_upd (r : ovec) k v : (vget O r k = None -> v = None) -> nn r (upd r k v).
Proof.
  intros H. split; [apply length_upd|]. intros k0 H0. unfold vget in *. rewrite nth_upd.
  destruct (Nat.eqb_spec k k0) as [->|]; simpl; [|exact H0].
  destruct (Nat.ltb k0 (length r)); [auto|exact H0].
Qed.

Lemma nnm_upd (m : omat) i r' : nn (row m i) r' -> nnm m (upd m i r').
Proof.
  intros [_ H]. split; [apply length_upd|]. intros r k H0. unfold mget, row in *. rewrite nth_upd.
  destruct (Nat.eqb_spec i r) as [->|]; simpl; [|exact H0].
  destruct (Nat.ltb r (length m)); [apply H; exact H0|exact H0].
Qed.

Lemma sub_none_l y : sub O None y = None. Proof. reflexivity. Qed.
Lemma div_none_l y : div O None y = None. Proof. reflexivity. Qed.
Lemma sub_none_r x : sub O x None = None. Proof. destruct x; reflexivity. Qed.
Lemma mul_none_r x : mul O x None = None. Proof. destruct x; reflexivity. Qed.

Lemma axpy_nn ks ri c : forall rj, nn rj (axpy_cols O ks rj ri c).
Proof.
  unfold axpy_cols. induction ks as [|k t IH]; intros rj; cbn [fold_left]; [apply nn_refl|].
  eapply nn_trans; [|apply IH]. apply nn_upd. intros ->. reflexivity.
Qed.

Lemma scale_nn ks c : forall r, nn r (scale_cols O ks r c).
Proof.
  unfold scale_cols. induction ks as [|k t IH]; intros r; cbn [fold_left]; [apply nn_refl|].
  eapply nn_trans; [|apply IH]. apply nn_upd. intros ->. reflexivity.
Qed.

Lemma bs_xrow_nn ks aji c ri : forall rj r', bs_xrow O ks aji c rj ri = Some r' -> nn rj r'.
Proof.
  unfold bs_xrow. induction ks as [|k t IH]; intros rj r' E; cbn [fold_left] in E.
  - inversion E. apply nn_refl.
  - destruct (is_nan O (sub O (vget O rj k) (div O (mul O aji (vget O ri k)) c))) eqn:En.
    + rewrite fold_none in E by auto. discriminate.
    + eapply nn_trans; [|apply IH; exact E]. apply nn_upd. intros ->. reflexivity.
Qed.

Lemma bs_arow_nn ks i c ri : forall rj r', bs_arow O ks i c rj ri = Some r' -> nn rj r'.
Proof.
  unfold bs_arow. induction ks as [|k t IH]; intros rj r' E; cbn [fold_left] in E.
  - inversion E. apply nn_refl.
  - destruct (is_nan O (sub O (vget O rj k) (div O (mul O (vget O rj i) (vget O ri k)) c))) eqn:En.
    + rewrite fold_none in E by auto. discriminate.
    + eapply nn_trans; [|apply IH; exact E]. apply nn_upd. intros ->. reflexivity.
Qed.

Lemma elim_row_ext n i msk p (s : ost) j : ext s (elim_row O n i msk p s j).
Proof.
  unfold elim_row. split; [|split]; cbn [sa sx sb].
  - apply nnm_upd. apply axpy_nn.
  - apply nnm_upd. apply axpy_nn.
  - apply nn_upd. intros ->. reflexivity.
Qed.

Lemma elim_fold_ext n i msk p js : forall s : ost, ext s (fold_left (elim_row O n i msk p) js s).
Proof.
  induction js as [|j t IH]; intros s; cbn [fold_left]; [apply ext_refl|].
  eapply ext_trans; [apply elim_row_ext|apply IH].
Qed.

Lemma fwd_fold_ext n msk l : forall f : fst_ (A:=option K), ext (fs f) (fs (fold_left (fwd_step O n msk) l f)).
Proof.
  induction l as [|i t IH]; intros f; cbn [fold_left]; [apply ext_refl|].
  eapply ext_trans; [|apply IH]. unfold fwd_step. cbn [fs]. apply elim_fold_ext.
Qed.

Lemma bs_row_ext n i msk p c (s s' : ost) j : bs_row O n i msk p c (Some s) j = Some s' -> ext s s'.
Proof.
  unfold bs_row. intros E.
  destruct (is_nan O (sub O (vget O (sb s) (pget p j)) (div O (mul O (mget O (sa s) (pget p j) i) (vget O (sb s) (pget p i))) c))); [discriminate|].
  destruct (bs_xrow O (rev (idxs msk 0 n)) (mget O (sa s) (pget p j) i) c (row (sx s) (pget p j)) (row (sx s) (pget p i))) as [xr|] eqn:Ex; [|discriminate].
  destruct (bs_arow O (rev (idxs msk 0 n)) i c (row (sa s) (pget p j)) (row (sa s) (pget p i))) as [ar|] eqn:Ea; [|discriminate].
  inversion E; subst s'. split; [|split]; cbn [sa sx sb].
  - apply nnm_upd. eapply bs_arow_nn; eauto.
  - apply nnm_upd. eapply bs_xrow_nn; eauto.
  - apply nn_upd. intros ->. reflexivity.
Qed.

Lemma bs_fold_ext n i msk p c js : forall (s s' : ost),
  fold_left (bs_row O n i msk p c) js (Some s) = Some s' -> ext s s'.
Proof.
  induction js as [|j t IH]; intros s s' E; cbn [fold_left] in E.
  - inversion E. apply ext_refl.
  - destruct (bs_row O n i msk p c (Some s) j) as [s1|] eqn:E1.
    + eapply ext_trans; [eapply bs_row_ext; eauto|apply IH; exact E].
    + rewrite fold_none in E by auto. discriminate.
Qed.

Lemma bs_step_ext n msk p xlo (s s' : ost) i : bs_step O n msk p xlo (Some s) i = Some s' -> ext s s'.
Proof.
  unfold bs_step. intros E.
  destruct (fold_left (bs_row O n i msk p (mget O (sa s) (pget p i) i)) (idxs msk 0 i) (Some s)) as [s1|] eqn:E1; [|discriminate].
  destruct (is_nan O (div O (mget O (sa s1) (pget p i) i) (mget O (sa s) (pget p i) i))); [discriminate|].
  inversion E; subst s'. eapply ext_trans; [eapply bs_fold_ext; eauto|].
  split; [|split]; cbn [sa sx sb].
  - unfold mset. apply nnm_upd. apply nn_upd. intros H. unfold mget. rewrite H. reflexivity.
  - apply nnm_upd. apply scale_nn.
  - apply nn_upd. intros ->. reflexivity.
Qed.

Lemma back_fold_ext n msk p xlo l : forall (s s' : ost),
  fold_left (bs_step O n msk p xlo) l (Some s) = Some s' -> ext s s'.
Proof.
  induction l as [|i t IH]; intros s s' E; cbn [fold_left] in E.
  - inversion E. apply ext_refl.
  - destruct (bs_step O n msk p xlo (Some s) i) as [s1|] eqn:E1.
    + eapply ext_trans; [eapply bs_step_ext; eauto|apply IH; exact E].
    + rewrite fold_none in E by auto. discriminate.
Qed.

Lemma ext_nonfinite n (s s' : ost) : ext s s' -> nonfinite K isz n s -> nonfinite K isz n s'.
Proof.
  intros ((_ & Ha) & (_ & Hx) & (_ & Hb)) [(r & k & Hr & H) (r' & Hr' & H')].
  split; [exists r, k; split; auto|exists r'; split; auto].
Qed.

(* the final gather keeps a non-finite entry in rows < n *)
Lemma gather_nonfinite n (s : ost) p : Permutation p (seq 0 n) ->
  nonfinite K isz n s -> nonfinite K isz n (gather_st O s p).
Proof.
  intros HP Hnf. destruct (perm_facts n p HP) as (HL & _ & _ & Hall).
  assert (Hpre : forall r, r < n -> exists r', r' < n /\ pget p r' = r).
  { intros r Hr. destruct (In_nth p r 0%nat (Hall r Hr)) as (r' & H1 & H2). exists r'. split; [lia|exact H2]. }
  unfold gather_st. destruct Hnf as [(r & k & Hr & H) (r2 & Hr2 & H2)]. split.
  - destruct (Hpre r Hr) as (r' & Hr' & E). exists r', k. split; [auto|].
    cbn [sa sx]. unfold mget, row in *. rewrite !nth_gather by lia. rewrite E. exact H.
  - destruct (Hpre r2 Hr2) as (r' & Hr' & E). exists r'. split; [auto|].
    cbn [sb]. unfold vget in *. rewrite nth_gather by lia. rewrite E. exact H2.
Qed.

(* ------------------------------------------------------------------ a zero pivot with rows below writes a non-finite entry *)
Lemma axpy_none ks ri k : In k ks -> forall rj, k < length rj -> vget O (axpy_cols O ks rj ri None) k = None.
Proof.
  unfold axpy_cols. induction ks as [|k0 t IH]; intros Hin rj Hk; [destruct Hin|]. cbn [fold_left].
  rewrite mul_none_r, sub_none_r.
  destruct (Nat.eq_dec k0 k) as [->|Hne].
  - destruct (axpy_nn t ri None (upd rj k None)) as [_ H]. apply H.
    unfold vget. apply nth_upd_same. exact Hk.
  - destruct Hin as [->|Hin]; [congruence|]. apply IH; auto. rewrite length_upd. exact Hk.
Qed.

Variable n : nat.
Variable msk : list bool.
Notation S := (idxs msk 0 n).

Lemma elim_row_zero_pivot p (s : st (A:=K)) i j :
  wf_st K n s -> pget p j < n -> In i S -> mget N (sa s) (pget p i) i = f0 K ->
  nonfinite K isz n (elim_row O n i msk p (lst K s) j).
Proof.
  intros (_ & (HLx & HFx) & HLb) Hpj Hi Hz. destruct (proj1 (inS n msk _) Hi) as [Hin His].
  unfold wf_vec in HLb.
  unfold elim_row, lst. cbn [sa sx sb]. rewrite !mget_lm, Hz.
  cbn [div NumO odiv]. rewrite isz_zero. split.
  - exists (pget p j), i. split; [exact Hpj|]. cbn [sx].
    unfold mget, row. rewrite nth_upd_same by (unfold lm; rewrite map_length; lia).
    apply axpy_none.
    + apply in_idxs. split; [lia|auto].
    + fold (row (lm K (sx s)) (pget p j)). rewrite row_lm. unfold lv. rewrite map_length.
      rewrite (wf_row_len K n (sx s) (pget p j)); auto. split; auto.
  - exists (pget p j). split; [exact Hpj|]. cbn [sb]. unfold vget at 1.
    rewrite nth_upd_same by (unfold lv; rewrite map_length; lia).
    rewrite mul_none_r. apply sub_none_r.
Qed.

Lemma pfix_perm_n p : pfix n msk p -> forall r, r < n -> pget p r < n.
Proof. intros [HP _]. apply (perm_facts n p HP). Qed.

(* one column of the forward phase, started in lockstep *)
Lemma fwd_step_opt_cases (f : fst_ (A:=K)) i : pfix n msk (fp f) -> wf_st K n (fs f) -> In i S ->
  let p' := swap_l 0 (fp f) i (find_max N (sa (fs f)) (fp f) msk n i) in
  let piv := mget N (sa (fs f)) (pget p' i) i in
  (fwd_step O n msk (lF f) i = lF (fwd_step N n msk f i) /\ (piv <> f0 K \/ (piv = f0 K /\ idxs msk (Datatypes.S i) n = [])))
  \/ nonfinite K isz n (fs (fwd_step O n msk (lF f) i)).
Proof.
  intros Hp Hwf Hi p' piv.
  destruct (find_max_range K n msk (sa (fs f)) (fp f) i Hi) as [HmS _].
  assert (Hp' : pfix n msk p') by (apply pfix_swap; auto).
  destruct (proj1 (inS n msk _) Hi) as [Hin His].
  assert (Hne : forall j, In j (idxs msk (Datatypes.S i) n) -> pget p' j <> pget p' i).
  { intros j Hj E. apply in_idxs in Hj. apply (pfix_inj n msk p' j i Hp') in E; lia. }
  destruct (isz piv) eqn:Ez.
  - apply isz_spec in Ez. destruct (idxs msk (Datatypes.S i) n) as [|j0 t] eqn:Ejs.
    + left. split; [|right; auto]. assert (EL := fwd_step_lift K isz isz_spec n msk f i). cbv zeta in EL.
      fold p' in EL. rewrite Ejs in EL. apply EL; [intros j []|left; reflexivity].
    + right. unfold fwd_step. cbn [fp fs sa lst]. rewrite find_max_lift. fold p'. rewrite Ejs.
      cbn [fold_left].
      change (mkSt (lm K (sa (fs f))) (lm K (sx (fs f))) (lv K (sb (fs f)))) with (lst K (fs f)).
      eapply ext_nonfinite; [apply elim_fold_ext|].
      assert (Hj0 : In j0 (idxs msk (Datatypes.S i) n)) by (rewrite Ejs; left; auto).
      apply in_idxs in Hj0.
      apply elim_row_zero_pivot; auto. apply pfix_perm_n; auto; lia.
  - left. assert (Hnz : piv <> f0 K). { intros E. apply isz_spec in E. congruence. }
    split; [|left; auto]. apply (fwd_step_lift K isz isz_spec n msk f i); fold p'; auto.
Qed.

Lemma elim_fold_wf p i : pfix n msk p -> In i S -> forall js (s : st (A:=K)),
  (forall j, In j js -> In j S /\ i < j) -> wf_st K n s -> wf_st K n (fold_left (elim_row N n i msk p) js s).
Proof.
  intros Hp Hi. destruct (proj1 (inS n msk _) Hi) as [Hin _].
  induction js as [|j t IH]; intros s Hjs Hwf; cbn [fold_left]; auto.
  apply IH; [intros; apply Hjs; right; auto|].
  destruct (Hjs j (or_introl eq_refl)) as [HjS Hij]. destruct (proj1 (inS n msk _) HjS) as [Hjn _].
  apply (elim_row_spec K n msk p s i j Hwf); try (apply pfix_perm_n; auto).
  intros E. apply (pfix_inj n msk p i j Hp) in E; lia.
Qed.

Lemma fwd_step_wf (f : fst_ (A:=K)) i : pfix n msk (fp f) -> wf_st K n (fs f) -> In i S ->
  wf_st K n (fs (fwd_step N n msk f i)).
Proof.
  intros Hp Hwf Hi. unfold fwd_step. cbn [fs].
  destruct (find_max_range K n msk (sa (fs f)) (fp f) i Hi) as [HmS _].
  apply elim_fold_wf; auto; [apply pfix_swap; auto|].
  intros j Hj. apply in_idxs in Hj. split; [apply inS; split; [lia|tauto]|lia].
Qed.

(* the whole forward phase, started in lockstep:
   lockstep to the end with all new pivots non-zero, or lockstep to the end with the LAST
   column's pivot zero (no row below it: no division happened), or a non-finite entry *)
Lemma fwd_opt_cases : forall d m (f : fst_ (A:=K)), d = n - m -> m <= n -> pfix n msk (fp f) -> wf_st K n (fs f) ->
  let fk := fold_left (fwd_step N n msk) (idxs msk m n) f in
  let fo := fold_left (fwd_step O n msk) (idxs msk m n) (lF f) in
  (fo = lF fk /\ ((forall c, In c (fpiv f) -> c <> f0 K) -> forall c, In c (fpiv fk) -> c <> f0 K))
  \/ (fo = lF fk /\ exists i, In i S /\ idxs msk (Datatypes.S i) n = [] /\ mget N (sa (fs fk)) (pget (fp fk) i) i = f0 K)
  \/ nonfinite K isz n (fs fo).
Proof.
  induction d as [|d IH]; intros m f Hd Hm Hp Hwf.
  - rewrite idxs_nil by lia. cbn [fold_left]. left. split; auto.
  - rewrite idxs_cons by lia. destruct (sel msk m) eqn:Hs.
    + cbn [fold_left].
      assert (HmS : In m S) by (apply inS; split; [lia|auto]).
      destruct (fwd_step_opt_cases f m Hp Hwf HmS) as [[EL Hc]|Hnf].
      * rewrite EL.
        assert (Hp1 := fwd_step_pfix K n msk f m Hp HmS). assert (Hwf1 := fwd_step_wf f m Hp Hwf HmS).
        destruct Hc as [Hnz|[Hz Hnil]].
        -- destruct (IH (Datatypes.S m) (fwd_step N n msk f m) ltac:(lia) ltac:(lia) Hp1 Hwf1) as [[E H]|[[E H]|H]].
           ++ left. split; [exact E|]. intros Hold. apply H. unfold fwd_step. cbn [fpiv].
              intros c [<-|Hc]; [exact Hnz|apply Hold; exact Hc].
           ++ right. left. split; auto.
           ++ right. right. exact H.
        -- right. left. rewrite Hnil. cbn [fold_left]. split; [reflexivity|].
           exists m. split; [exact HmS|]. split; [exact Hnil|].
           unfold fwd_step. rewrite Hnil. cbn [fold_left fs fp]. exact Hz.
      * right. right. eapply ext_nonfinite; [apply fwd_fold_ext|exact Hnf].
    + apply (IH (Datatypes.S m)); auto; lia.
Qed.

(* ------------------------------------------------------------------ a zero pivot met first thing in the back phase: exit *)
Lemma bs_step_zero_exit p xlo (s : st (A:=K)) i : mget N (sa s) (pget p i) i = f0 K ->
  bs_step O n msk p xlo (Some (lst K s)) i = None.
Proof.
  intros Hz. unfold bs_step. cbn [lst sa]. rewrite mget_lm, Hz.
  destruct (idxs msk 0 i) as [|j t]; cbn [fold_left].
  - cbn [lst sa]. rewrite mget_lm. cbn [div NumO odiv]. rewrite isz_zero. reflexivity.
  - unfold bs_row at 2. cbn [lst sa sb]. rewrite !mget_lm, !vget_lv.
    cbn [mul div sub NumO olift2 odiv]. rewrite isz_zero. cbn [is_nan NumO].
    rewrite fold_none by auto. reflexivity.
Qed.

Lemma back_zero_exit p xlo (s : st (A:=K)) i : In i S -> idxs msk (Datatypes.S i) n = [] ->
  mget N (sa s) (pget p i) i = f0 K -> back O n msk p xlo (lst K s) = None.
Proof.
  intros Hi Hnil Hz. destruct (proj1 (inS n msk _) Hi) as [Hin His].
  unfold back. rewrite (idxs_split msk 0 i n) by lia. rewrite (idxs_cons msk i n) by lia.
  rewrite His, Hnil. rewrite rev_app_distr. cbn [rev app fold_left].
  rewrite bs_step_zero_exit by auto. apply fold_none. auto.
Qed.

(* ------------------------------------------------------------------ the trichotomy *)
(* the singular: label of BOTH paths returns the error at HEAD (/repo 74e12ad; the generic path panicked before) *)

Lemma ext_lengths (s s' : ost) : ext s s' ->
  length (sa s') = length (sa s) /\ length (sx s') = length (sx s) /\ length (sb s') = length (sb s).
Proof. intros ((H1 & _) & (H2 & _) & (H3 & _)). auto. Qed.

Lemma gj_nan_aware_cases dense (s0 : st (A:=K)) : wf_st K n s0 ->
  ((forall c, In c (gj_pivots N n msk s0) -> c <> f0 K) /\
   exists s', gj_run N dense false n msk s0 = Ok s' /\ gj_run O dense false n msk (lst K s0) = Ok (lst K s'))
  \/ gj_run O dense false n msk (lst K s0) = ErrSingular
  \/ exists s', gj_run O dense false n msk (lst K s0) = Ok s' /\ nonfinite K isz n s'.
Proof.
  intros Hwf.
  pose proof (fwd_opt_cases n 0 (mkF (seq 0 n) s0 []) ltac:(lia) ltac:(lia) (pfix_id n msk) Hwf) as HC.
  cbv beta zeta in HC. cbn [fp fs fpiv] in HC. change (lv K []) with (@nil (option K)) in HC.
  change (fold_left (fwd_step N n msk) (idxs msk 0 n) (mkF (seq 0 n) s0 [])) with (fwd N n msk s0) in HC.
  change (fold_left (fwd_step O n msk) (idxs msk 0 n) (mkF (seq 0 n) (lst K s0) [])) with (fwd O n msk (lst K s0)) in HC.
  destruct HC as [[E H]|[[E H]|H]].
  - left. assert (Hnz : forall c, In c (gj_pivots N n msk s0) -> c <> f0 K).
    { intros c Hc. unfold gj_pivots in Hc. apply in_rev in Hc. apply H; [intros ? []|exact Hc]. }
    split; [exact Hnz|]. apply (gj_run_nan_aware K isz isz_spec n msk dense s0 Hwf Hnz).
  - right. left. destruct H as (i & Hi & Hnil & Hz).
    unfold gj_run, gj_core. rewrite E. cbn [fp fs].
    rewrite (back_zero_exit _ _ _ i Hi Hnil Hz). destruct dense; reflexivity.
  - right. unfold gj_run, gj_core.
    set (fo := fwd O n msk (lst K s0)) in *.
    destruct (back O n msk (fp fo) (fun _ => 0%nat) (fs fo)) as [s2|] eqn:EB.
    + right.
      assert (HP : Permutation (fp fo) (seq 0 n)) by apply (fwd_perm O n msk (lst K s0)).
      assert (Hext0 : ext (lst K s0) (fs fo)).
      { exact (fwd_fold_ext n msk (idxs msk 0 n) (mkF (seq 0 n) (lst K s0) [])). }
      assert (Hext1 : ext (fs fo) s2) by (unfold back in EB; eapply back_fold_ext; eauto).
      destruct (ext_lengths _ _ (ext_trans _ _ _ Hext0 Hext1)) as (L1 & L2 & L3).
      destruct (lst_lengths K n s0 Hwf) as (M1 & M2 & M3).
      rewrite (permute_rows_gather (option K) O n (fp fo) s2 HP) by congruence.
      eexists. split; [reflexivity|]. apply gather_nonfinite; auto.
      eapply ext_nonfinite; [exact Hext1|exact H].
    + left. destruct dense; reflexivity.
Qed.

(* a finite Ok result of the NaN-aware run is the embedding of the field result, and no pivot was zero *)
Lemma gj_nan_aware_finite_sound dense (s0 : st (A:=K)) (so : ost) : wf_st K n s0 ->
  gj_run O dense false n msk (lst K s0) = Ok so -> ~ nonfinite K isz n so ->
  (forall c, In c (gj_pivots N n msk s0) -> c <> f0 K) /\
  exists s', gj_run N dense false n msk s0 = Ok s' /\ so = lst K s'.
Proof.
  intros Hwf E Hfin. destruct (gj_nan_aware_cases dense s0 Hwf) as [[Hnz (s' & E1 & E2)]|[E2|(s' & E2 & Hnf)]].
  - split; [exact Hnz|]. exists s'. split; [exact E1|]. rewrite E2 in E. inversion E. reflexivity.
  - rewrite E2 in E. destruct dense; discriminate.
  - rewrite E2 in E. inversion E; subst. contradiction.
Qed.

(* structurally singular input: singular exit, or a result with a non-finite entry — never a finite one *)
Lemma singular_never_finite dense (s0 : st (A:=K)) : wf_st K n s0 ->
  (exists r, zero_row K S (sa s0) r) \/ (exists c, zero_col K S (sa s0) c) \/ (exists r1 r2, same_rows K S (sa s0) r1 r2) ->
  gj_run O dense false n msk (lst K s0) = ErrSingular \/
  exists s', gj_run O dense false n msk (lst K s0) = Ok s' /\ nonfinite K isz n s'.
Proof.
  intros Hwf Hsing. destruct (gj_nan_aware_cases dense s0 Hwf) as [[Hnz _]|H]; [|exact H]. exfalso.
  destruct Hsing as [(r & H)|[(c & H)|(r1 & r2 & H)]].
  - exact (zero_row_zero_pivot K n msk s0 Hwf r H Hnz).
  - exact (zero_col_zero_pivot K n msk s0 Hwf c H Hnz).
  - exact (same_rows_zero_pivot K n msk s0 Hwf r1 r2 H Hnz).
Qed.

(* ------------------------------------------------------------------ the upper-triangular variant: no exit *)
Lemma gj_run_ut_nan_aware dense (s0 : st (A:=K)) :
  wf_st K n s0 -> upper_tri_S K S (sa s0) -> diag_nonzero_S K S (sa s0) -> upper_tri_S K S (sx s0) ->
  exists s', gj_run N dense true n msk s0 = Ok s' /\ gj_run O dense true n msk (lst K s0) = Ok (lst K s').
Proof.
  intros Hwf HU HD HXU.
  assert (HidS : forall r, In r S -> pget (seq 0 n) r = r).
  { intros r Hr. apply inS in Hr. unfold pget. apply seq_nth. tauto. }
  assert (HB : BInv K n msk (seq 0 n) (fun i => i) s0 n s0).
  { split; [|split; [|split; [|split]]].
    - split; [exact Hwf|]. split; [apply imp_refl|]. split; [split; auto|auto].
    - intros r k Hr Hk Hkr. rewrite HidS by auto. apply HXU; auto.
    - intros r c Hr Hc _ Hcr. rewrite HidS by auto. apply HU; auto.
    - intros c Hc _. rewrite HidS by auto. apply HD; auto.
    - intros r c Hr Hc Hnc. destruct (proj1 (inS n msk _) Hc). lia. }
  assert (Hmono : forall j i : nat, In j S -> In i S -> j < i -> (fun i => i) j <= (fun i => i) i) by (intros; lia).
  destruct (back_correct K n msk (seq 0 n) (pfix_id n msk) (fun i => i) Hmono s0 s0 HB) as (s2 & E2 & _).
  exists s2. unfold gj_run, gj_ut_core. rewrite E2. split; [reflexivity|].
  unfold back. rewrite (back_lift_fold K isz isz_spec n msk (seq 0 n) (pfix_id n msk) (fun i => i) Hmono s0 n s0); auto.
  unfold back in E2. rewrite E2. reflexivity.
Qed.

(* ------------------------------------------------------------------ matrixInverse.Run on the NaN-aware carrier *)
Lemma ident_lm : ident O n = lm K (ident N n).
Proof.
  unfold ident, lm, lv. rewrite map_map. apply map_ext. intros i. rewrite map_map. apply map_ext.
  intros j. destruct (Nat.eqb i j); reflexivity.
Qed.

Lemma ones_lv : ones O n = lv K (ones N n).
Proof. unfold ones, lv. generalize n as q. induction q as [|q IH]; cbn [repeat map]; [reflexivity|]. f_equal. exact IH. Qed.

Lemma inverse_init_lst (m : list (list K)) :
  mkSt (lm K m) (ident O n) (ones O n) = lst K (mkSt m (ident N n) (ones N n)).
Proof. rewrite ident_lm, ones_lv. reflexivity. Qed.

Lemma inverse_nan_aware dense (m : list (list K)) : wf_mat K n m ->
  (forall c, In c (gj_pivots N n msk (mkSt m (ident N n) (ones N n))) -> c <> f0 K) ->
  exists X, m_inverse N dense InvPlain n msk m = Ok X /\ m_inverse O dense InvPlain n msk (lm K m) = Ok (lm K X).
Proof.
  intros Hwf Hnz.
  destruct (gj_run_nan_aware K isz isz_spec n msk dense _ (init_wf K n m Hwf) Hnz) as (s' & E1 & E2).
  exists (sx s'). unfold m_inverse. rewrite inverse_init_lst, E1, E2. split; reflexivity.
Qed.

Lemma inverse_singular_never_finite dense (m : list (list K)) : wf_mat K n m ->
  (exists r, zero_row K S m r) \/ (exists c, zero_col K S m c) \/ (exists r1 r2, same_rows K S m r1 r2) ->
  m_inverse O dense InvPlain n msk (lm K m) = ErrSingular \/
  exists X, m_inverse O dense InvPlain n msk (lm K m) = Ok X /\ exists r k, r < n /\ mget O X r k = None.
Proof.
  intros Hwf Hsing. unfold m_inverse. rewrite inverse_init_lst.
  destruct (singular_never_finite dense (mkSt m (ident N n) (ones N n)) (init_wf K n m Hwf) Hsing) as [E|(s' & E & Hnf & _)].
  - left. rewrite E. destruct dense; reflexivity.
  - right. exists (sx s'). rewrite E. split; [reflexivity|exact Hnf].
Qed.

End NaN2.
