(* C04 — executable model of
     algorithm/gaussJordan/gaussJordan.go            (gaussJordan, gaussJordanUpperTriangular, permuteRows)
     algorithm/gaussJordan/gaussJordan_optimized.go  (the DenseFloat64 twins: same arithmetic, same error)
     algorithm/backSubstitution/backSubstitution.go
     algorithm/matrixInverse/matrixInverse.go        (plain / UpperTriangular / PositiveDefinite)
     algorithm/determinant/determinant.go            (determinantNaive, determinantPD without LogScale)
     algorithm/cholesky/cholesky_{generic,float64}.go (cholesky, as far as inverse/determinant use it)
     matrix_dense_*.go PermuteRows/PermuteColumns/SymmetricPermutation/SwapRows/SwapColumns,
     vector_dense_*.go Permute/Swap
   written ONCE over a carrier [Num A] (Base/Num.v).  Loop order and operand
   order follow the Go text, so the instance at Coq's primitive binary64 floats
   reproduces Go's float64 results bit for bit; the instance at an abstract
   field (Proofs*.v) carries the theorems.  No proofs in this file.

   Matrices are row lists [list (list A)]; a dense Go matrix of Dims (n,n) is
   the list of its n rows.  Where the Go code reads a row that the running
   inner loop does not write (row p[i] while row p[j] is updated; p is a
   permutation, Proofs: [fwd_perm]) the model reads that row once.  *)
From Coq Require Import List Bool Arith.
From ADV Require Import Base.Num.
Import ListNotations.

(* ------------------------------------------------------------------ outcomes *)
Inductive outcome (T : Type) : Type :=
| Ok (t : T)
| ErrSingular     (* both paths at HEAD: errors.New("system is computationally singular") *)
| PanicSingular   (* generic path BEFORE /repo 74e12ad: panic("system is computationally singular");
                     no longer produced by any model function, kept so that importers keep compiling *)
| ErrNotPD        (* cholesky: "matrix is not positive definite" *)
| ErrPerm         (* PermuteRows/...: "invalid permutation" *)
| PanicIndex      (* index out of range (PermuteRows lets pi[i] = n through its guard) *)
| OutOfFuel.      (* model fuel exhausted: never on permutations (Proofs: chase_total) *)
Arguments Ok {T}. Arguments ErrSingular {T}. Arguments PanicSingular {T}.
Arguments ErrNotPD {T}. Arguments ErrPerm {T}. Arguments PanicIndex {T}. Arguments OutOfFuel {T}.

(* ------------------------------------------------------------------ lists *)
Fixpoint upd {X} (l : list X) (i : nat) (x : X) : list X :=
  match l, i with
  | [], _ => []
  | _ :: t, O => x :: t
  | h :: t, S i' => h :: upd t i' x
  end.

(* v[i], v[j] = v[j], v[i] *)
Definition swap_l {X} (d : X) (l : list X) (i j : nat) : list X :=
  upd (upd l i (nth j l d)) j (nth i l d).

Definition pget (p : list nat) (i : nat) : nat := nth i p 0.
Definition sel (s : list bool) (i : nat) : bool := nth i s false.
(* the indices lo <= k < hi with submatrix[k] *)
Definition idxs (s : list bool) (lo hi : nat) : list nat := filter (sel s) (seq lo (hi - lo)).
Definition all_true (n : nat) : list bool := repeat true n.

Section Alg.
Context {A : Type} (N : Num A).

Definition vec := list A.
Definition mat := list (list A).
Definition vget (v : vec) (i : nat) : A := nth i v (zero N).
Definition row (m : mat) (i : nat) : vec := nth i m [].
Definition mget (m : mat) (i j : nat) : A := vget (row m i) j.
Definition mset (m : mat) (i j : nat) (x : A) : mat := upd m i (upd (row m i) j x).
Definition col (m : mat) (j : nat) : vec := map (fun r => vget r j) m.

Definition zeros (n : nat) : vec := repeat (zero N) n.
Definition ones (n : nat) : vec := repeat (one N) n.
Definition zmat (n : nat) : mat := repeat (zeros n) n.
Definition ident (n : nat) : mat :=
  map (fun i => map (fun j => if Nat.eqb i j then one N else zero N) (seq 0 n)) (seq 0 n).
Definition transpose (n : nat) (m : mat) : mat :=
  map (fun i => map (fun j => mget m j i) (seq 0 n)) (seq 0 n).

Record st := mkSt { sa : mat; sx : mat; sb : vec }.

(* ------------------------------------------------------------------ Gauss-Jordan, forward phase *)

(* maxrow search:  if math.Abs(a[p[j],i]) > math.Abs(a[p[maxrow],i]) { maxrow = j } *)
Definition find_max (a : mat) (p : list nat) (msk : list bool) (n i : nat) : nat :=
  fold_left (fun mr j =>
               if ltb N (nabs N (mget a (pget p mr) i)) (nabs N (mget a (pget p j) i)) then j else mr)
            (idxs msk (S i) n) i.

(* for k in ks:  t = ri[k]*c ; rj[k] = rj[k] - t *)
Definition axpy_cols (ks : list nat) (rj ri : vec) (c : A) : vec :=
  fold_left (fun r k => upd r k (sub N (vget r k) (mul N (vget ri k) c))) ks rj.

(* body of "for j := i+1; j < n; j++" *)
Definition elim_row (n i : nat) (msk : list bool) (p : list nat) (s : st) (j : nat) : st :=
  let pj := pget p j in
  let pi := pget p i in
  let c := div N (mget (sa s) pj i) (mget (sa s) pi i) in
  mkSt (upd (sa s) pj (axpy_cols (idxs msk i n) (row (sa s) pj) (row (sa s) pi) c))
       (upd (sx s) pj (axpy_cols (idxs msk 0 n) (row (sx s) pj) (row (sx s) pi) c))
       (upd (sb s) pj (sub N (vget (sb s) pj) (mul N (vget (sb s) pi) c))).

(* forward state: virtual row permutation, matrices, and a GHOST log of the
   pivots a[p[i],i] (after the swap), newest first; the log is not an
   observable of the Go code, it only serves to state "no pivot is zero". *)
Record fst_ := mkF { fp : list nat; fs : st; fpiv : list A }.

Definition fwd_step (n : nat) (msk : list bool) (f : fst_) (i : nat) : fst_ :=
  let mr := find_max (sa (fs f)) (fp f) msk n i in
  let p' := swap_l 0 (fp f) i mr in
  mkF p'
      (fold_left (elim_row n i msk p') (idxs msk (S i) n) (fs f))
      (mget (sa (fs f)) (pget p' i) i :: fpiv f).

Definition fwd (n : nat) (msk : list bool) (s : st) : fst_ :=
  fold_left (fwd_step n msk) (idxs msk 0 n) (mkF (seq 0 n) s []).

(* ------------------------------------------------------------------ back phase *)

(* x-loop of the back phase (k descending): t = aji*ri[k]; t = t/c; rj[k] -= t; NaN exit *)
Definition bs_xrow (ks : list nat) (aji c : A) (rj ri : vec) : option vec :=
  fold_left (fun o k => match o with
     | None => None
     | Some r => let v := sub N (vget r k) (div N (mul N aji (vget ri k)) c) in
                 if is_nan N v then None else Some (upd r k v)
     end) ks (Some rj).

(* a-loop of the back phase: a[p[j],i] is RE-READ in every iteration, i.e.
   after the iteration k = i has overwritten it *)
Definition bs_arow (ks : list nat) (i : nat) (c : A) (rj ri : vec) : option vec :=
  fold_left (fun o k => match o with
     | None => None
     | Some r => let v := sub N (vget r k) (div N (mul N (vget r i) (vget ri k)) c) in
                 if is_nan N v then None else Some (upd r k v)
     end) ks (Some rj).

(* body of "for j := 0; j < i; j++" in the back phase *)
Definition bs_row (n i : nat) (msk : list bool) (p : list nat) (c : A) (o : option st) (j : nat) : option st :=
  match o with None => None | Some s =>
  let pj := pget p j in
  let pi := pget p i in
  let aji := mget (sa s) pj i in
  let bj := sub N (vget (sb s) pj) (div N (mul N aji (vget (sb s) pi)) c) in
  if is_nan N bj then None else
  match bs_xrow (rev (idxs msk 0 n)) aji c (row (sx s) pj) (row (sx s) pi) with
  | None => None
  | Some xr =>
    match bs_arow (rev (idxs msk 0 n)) i c (row (sa s) pj) (row (sa s) pi) with
    | None => None
    | Some ar => Some (mkSt (upd (sa s) pj ar) (upd (sx s) pj xr) (upd (sb s) pj bj))
    end
  end end.

Definition scale_cols (ks : list nat) (r : vec) (c : A) : vec :=
  fold_left (fun r k => upd r k (div N (vget r k) c)) ks r.

(* body of "for i := n-1; i >= 0; i--"; xlo i = first column of the x
   normalisation loop (0 in gaussJordan, i in gaussJordanUpperTriangular) *)
Definition bs_step (n : nat) (msk : list bool) (p : list nat) (xlo : nat -> nat)
           (o : option st) (i : nat) : option st :=
  match o with None => None | Some s =>
  let pi := pget p i in
  let c := mget (sa s) pi i in
  match fold_left (bs_row n i msk p c) (idxs msk 0 i) (Some s) with
  | None => None
  | Some s1 =>
    let d := div N (mget (sa s1) pi i) c in
    if is_nan N d then None else
    Some (mkSt (mset (sa s1) pi i d)
               (upd (sx s1) pi (scale_cols (idxs msk (xlo i) n) (row (sx s1) pi) c))
               (upd (sb s1) pi (div N (vget (sb s1) pi) c)))
  end end.

Definition back (n : nat) (msk : list bool) (p : list nat) (xlo : nat -> nat) (s : st) : option st :=
  fold_left (bs_step n msk p xlo) (rev (idxs msk 0 n)) (Some s).

(* ------------------------------------------------------------------ permuteRows (gaussJordan.go) *)

(* j := p[i]; for j < i { j = p[j] } *)
Fixpoint chase (fuel : nat) (p : list nat) (i j : nat) : option nat :=
  if j <? i then
    match fuel with
    | O => None
    | S f => chase f p i (pget p j)
    end
  else Some j.

Definition swap_rows_st (s : st) (i j : nat) : st :=
  mkSt (swap_l [] (sa s) i j) (swap_l [] (sx s) i j) (swap_l (zero N) (sb s) i j).

Definition permute_rows_step (p : list nat) (o : option st) (i : nat) : option st :=
  match o with None => None | Some s =>
  match chase (length p) p i (pget p i) with
  | None => None
  | Some j => if j =? i then Some s else Some (swap_rows_st s i j)
  end end.

Definition permute_rows (s : st) (p : list nat) : option st :=
  fold_left (permute_rows_step p) (seq 0 (length p)) (Some s).

(* gather semantics: row i := old row p[i] *)
Definition gather {X} (d : X) (l : list X) (p : list nat) : list X := map (fun k => nth k l d) p.
Definition gather_st (s : st) (p : list nat) : st :=
  mkSt (gather [] (sa s) p) (gather [] (sx s) p) (gather (zero N) (sb s) p).

(* ------------------------------------------------------------------ gaussJordan / gaussJordanUpperTriangular *)

Inductive core_res := CoreOk (s : st) | CoreSingular | CoreFuel.

Definition gj_core (n : nat) (msk : list bool) (s : st) : core_res :=
  let f := fwd n msk s in
  match back n msk (fp f) (fun _ => 0) (fs f) with
  | None => CoreSingular
  | Some s2 => match permute_rows s2 (fp f) with None => CoreFuel | Some s3 => CoreOk s3 end
  end.

Definition gj_ut_core (n : nat) (msk : list bool) (s : st) : core_res :=
  match back n msk (seq 0 n) (fun i => i) s with
  | None => CoreSingular
  | Some s2 => CoreOk s2
  end.

(* gaussJordan.Run(a, x, b, Submatrix{msk}, UpperTriangular{ut}); dense = all of
   a, x, b are DenseFloat64 (fast path) else generic path; since /repo 74e12ad BOTH return
   errors.New("system is computationally singular") at their singular: label *)
Definition gj_run (dense ut : bool) (n : nat) (msk : list bool) (s : st) : outcome st :=
  match (if ut then gj_ut_core n msk s else gj_core n msk s) with
  | CoreOk s' => Ok s'
  | CoreSingular => ErrSingular
  | CoreFuel => OutOfFuel
  end.

(* ghost: the forward pivots, in elimination order *)
Definition gj_pivots (n : nat) (msk : list bool) (s : st) : list A := rev (fpiv (fwd n msk s)).

(* ------------------------------------------------------------------ backSubstitution *)

(* b = None models the nil right-hand side (x[i] starts from 0) *)
Definition backsub (n : nat) (Am : mat) (b : option vec) (x0 : vec) : vec :=
  fold_left (fun x i =>
     let xi0 := match b with None => zero N | Some bv => vget bv i end in
     let xi := fold_left (fun acc j => sub N acc (mul N (mget Am i j) (vget x j)))
                         (seq (S i) (n - S i)) xi0 in
     upd x i (div N xi (mget Am i i)))
   (rev (seq 0 n)) x0.

(* backSubstitution.Run(A, b, &InSitu{A: buf, X: x0}): when the caller supplies InSitu.A the
   routine works on THAT matrix and never copies A into it (quirk: A is then ignored) *)
Definition backsub_run (n : nat) (Am : mat) (b : option vec) (bufA : option mat) (x0 : vec) : vec :=
  backsub n (match bufA with Some buf => buf | None => Am end) b x0.

(* ------------------------------------------------------------------ cholesky (plain) *)

Definition chol_row (n : nat) (Am : mat) (o : option mat) (i : nat) : option mat :=
  match fold_left (fun o j => match o with None => None | Some L =>
           let s := fold_left (fun s k => add N s (mul N (mget L i k) (mget L j k))) (seq 0 j) (zero N) in
           let t := sub N (mget Am i j) s in
           if Nat.eqb i j then
             if ltb N t (zero N) then None else Some (mset L i j (nsqrt N t))
           else Some (mset L i j (div N t (mget L j j)))
         end) (seq 0 (S i)) o with
  | None => None
  | Some L => Some (fold_left (fun L j => mset L i j (zero N)) (seq (S i) (n - S i)) L)
  end.

Definition cholesky (n : nat) (Am : mat) (L0 : mat) : outcome mat :=
  match fold_left (chol_row n Am) (seq 0 n) (Some L0) with
  | None => ErrNotPD
  | Some L => Ok L
  end.

(* r.MdotM(x, x.T()) : t2 = 0; for k: t1 = x[i,k]*x[j,k]; t2 = t2 + t1 *)
Definition mul_xxt (n : nat) (x : mat) : mat :=
  map (fun i => map (fun j =>
        fold_left (fun t2 k => add N t2 (mul N (mget x i k) (mget x j k))) (seq 0 n) (zero N))
       (seq 0 n)) (seq 0 n).

(* ------------------------------------------------------------------ matrixInverse.Run *)
Inductive inv_mode := InvPlain | InvUT | InvPD.

Definition lift_st {T} (f : st -> T) (o : outcome st) : outcome T :=
  match o with
  | Ok s => Ok (f s) | ErrSingular => ErrSingular | PanicSingular => PanicSingular
  | ErrNotPD => ErrNotPD | ErrPerm => ErrPerm | PanicIndex => PanicIndex | OutOfFuel => OutOfFuel
  end.

Definition m_inverse (dense : bool) (mode : inv_mode) (n : nat) (msk : list bool) (m : mat) : outcome mat :=
  match mode with
  | InvPlain => lift_st sx (gj_run dense false n msk (mkSt m (ident n) (ones n)))
  | InvUT    => lift_st sx (gj_run dense true n msk (mkSt m (ident n) (ones n)))
  | InvPD    =>
      match cholesky n m (zmat n) with
      | Ok L => lift_st (fun s => mul_xxt n (sx s))
                        (gj_run dense true n msk (mkSt (transpose n L) (ident n) (ones n)))
      | _ => ErrNotPD
      end
  end.

(* ------------------------------------------------------------------ determinant *)

(* the (n-1)x(n-1) matrix m of determinantNaive: rows 1.., without column j1 *)
Definition drop_col (j1 : nat) (r : vec) : vec := firstn j1 r ++ skipn (S j1) r.
Definition minor0 (a : mat) (j1 : nat) : mat := map (drop_col j1) (tl a).

Fixpoint det_naive (n : nat) (a : mat) : A :=
  match n with
  | O => zero N
  | S O => mget a 0 0
  | S (S O) => sub N (mul N (mget a 0 0) (mget a 1 1)) (mul N (mget a 1 0) (mget a 0 1))
  | S ((S (S _)) as n1) =>
      fold_left (fun det j1 =>
          let t1 := mul N (mget a 0 j1) (det_naive n1 (minor0 a j1)) in
          if Nat.even j1 then add N det t1 else sub N det t1)
        (seq 0 n) (zero N)
  end.

(* determinantPD without LogScale: r = 1; r = r*L[i,i]; r = r*r *)
Definition det_pd (n : nat) (m : mat) : outcome A :=
  match cholesky n m (zmat n) with
  | Ok L => let r := fold_left (fun r i => mul N r (mget L i i)) (seq 0 n) (one N) in Ok (mul N r r)
  | _ => ErrNotPD
  end.

(* ------------------------------------------------------------------ Permute* of the dense containers *)

(* one generic loop: for i < n { guard; if pi[i] > i { swap i pi[i] } }.
   [hi_ok] is the guard's upper bound test: the vector's Permute rejects
   pi[i] >= n, the matrix methods only pi[i] > n (pi[i] = n then indexes out
   of range: PanicIndex).  pi is a list of naturals, so "pi[i] < 0" cannot occur. *)
Definition interchange {T} (swap : T -> nat -> nat -> T) (strict : bool) (n : nat) (pi : list nat) (t : T) : outcome T :=
  fold_left (fun o i => match o with
     | Ok t =>
         let q := pget pi i in
         if (if strict then n <=? q else n <? q) then ErrPerm
         else if i <? q then (if q <? n then Ok (swap t i q) else PanicIndex) else Ok t
     | e => e end) (seq 0 n) (Ok t).

Definition swap_cols (m : mat) (i j : nat) : mat := map (fun r => swap_l (zero N) r i j) m.
Definition vec_permute (n : nat) (pi : list nat) (v : vec) : outcome vec :=
  interchange (swap_l (zero N)) true n pi v.
Definition mat_permute_rows (n : nat) (pi : list nat) (m : mat) : outcome mat :=
  interchange (swap_l []) false n pi m.
Definition mat_permute_cols (n : nat) (pi : list nat) (m : mat) : outcome mat :=
  interchange swap_cols false n pi m.
Definition mat_sym_permute (n : nat) (pi : list nat) (m : mat) : outcome mat :=
  interchange (fun m i j => swap_cols (swap_l [] m i j) i j) false n pi m.

End Alg.

Arguments CoreOk {A}. Arguments CoreSingular {A}. Arguments CoreFuel {A}.
