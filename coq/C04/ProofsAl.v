(* C04 — round 7: backSubstitution.Run(A, b, &InSitu{X: b}) (result buffer aliases the right-hand side).
   For EVERY carrier (no arithmetic law is used) the single-buffer model [backsub_alias] computes what the
   two-object model [backsub] computes from the ORIGINAL right-hand side; hence R x = b_original over a field. *)
From Coq Require Import List Bool Arith ZArith QArith Qcanon Lia.
From ADV Require Import Base.Num C04.Model C04.Model2 C04.Model3 C04.Spec C04.ProofsList C04.ProofsDet C04.ProofsBS C04.ProofsBuf C04.ProofsHist C04.ProofsEx.
Import ListNotations.
Local Open Scope nat_scope.

Section Al.
Context {A : Type} (N : Num A).

Lemma upd_nth_id {X} (l : list X) i d : upd l i (nth i l d) = l.
Proof. revert i; induction l as [|h t IH]; intros [|i]; simpl; auto. rewrite IH. reflexivity. Qed.

Lemma upd_upd_same {X} (l : list X) i x y : upd (upd l i x) i y = upd l i y.
Proof. revert i; induction l as [|h t IH]; intros [|i]; simpl; auto. rewrite IH. reflexivity. Qed.

(* the inner j-loop only ever touches cell i, and reads cells j <> i *)
Lemma bsa_inner_fold (Am : list (list A)) (v : list A) i : i < length v ->
  forall js acc, (forall j, In j js -> j <> i) ->
    fold_left (bsa_inner N Am i) js (upd v i acc) =
    upd v i (fold_left (fun a j => sub N a (mul N (mget N Am i j) (vget N v j))) js acc).
Proof.
  intros Hi. induction js as [|j r IH]; intros acc Hjs; simpl; [reflexivity|].
  unfold bsa_inner at 2. unfold vget.
  rewrite nth_upd_same by auto.
  rewrite nth_upd_other by (apply not_eq_sym, Hjs; left; reflexivity).
  rewrite upd_upd_same. apply IH. intros k Hk. apply Hjs. right. exact Hk.
Qed.

Definition bs2_step (n : nat) (Am : list (list A)) (bo : option (list A)) (x : list A) (i : nat) : list A :=
  let xi0 := match bo with None => zero N | Some bv => vget N bv i end in
  let xi := fold_left (fun acc j => sub N acc (mul N (mget N Am i j) (vget N x j))) (seq (S i) (n - S i)) xi0 in
  upd x i (div N xi (mget N Am i i)).

Lemma bsa_step_eq n Am (b v : list A) i : i < length v -> vget N v i = vget N b i ->
  bsa_step N n Am v i = bs2_step n Am (Some b) v i.
Proof.
  intros Hi Hb. unfold bsa_step, bs2_step. cbv zeta.
  rewrite bsa_inner_fold; auto.
  2:{ intros j Hj. apply in_seq in Hj. lia. }
  rewrite upd_upd_same. unfold vget at 1. rewrite nth_upd_same by auto.
  rewrite Hb. reflexivity.
Qed.

Lemma bsa_fold_eq n Am (b : list A) : forall m v, m <= length v ->
  (forall k, k < m -> vget N v k = vget N b k) ->
  fold_left (bsa_step N n Am) (rev (seq 0 m)) v = fold_left (bs2_step n Am (Some b)) (rev (seq 0 m)) v.
Proof.
  induction m as [|m IH]; intros v Hm Hv; [reflexivity|].
  rewrite seq_S, rev_app_distr. simpl.
  rewrite (bsa_step_eq n Am b v m) by (auto; lia).
  apply IH.
  - unfold bs2_step. rewrite length_upd. lia.
  - intros k Hk. unfold bs2_step, vget. rewrite nth_upd_other by lia. apply Hv. lia.
Qed.

(* (A) any carrier: solving in place = solving into a separate buffer, from the original right-hand side *)
Lemma backsub_alias_eq n Am (b : list A) : length b = n ->
  backsub_alias N n Am b = backsub N n Am (Some b) b.
Proof.
  intros Hb. unfold backsub_alias.
  change (backsub N n Am (Some b) b) with (fold_left (bs2_step n Am (Some b)) (rev (seq 0 n)) b).
  apply bsa_fold_eq; [lia|auto].
Qed.

Lemma backsub_alias_run_eq n Am aliasA (buf : option (list (list A))) (b x0 : list A) :
  wfm n Am -> (forall bf, buf = Some bf -> wfm n bf) -> length b = n -> length x0 = n ->
  backsub_alias_run N n Am aliasA buf b = backsub_run_v2 N n Am (Some b) None x0.
Proof.
  intros HA Hbuf Hb H0. unfold backsub_alias_run.
  rewrite backsub_alias_eq.
  2:{ exact Hb. }
  destruct aliasA.
  - unfold backsub_run_v2. apply backsub_x0_indep; auto.
  - apply (backsub_run_v2_indep N n Am (Some b) buf b x0); auto.
Qed.

Lemma backsub_alias_length n Am (b : list A) : length (backsub_alias N n Am b) = length b.
Proof.
  unfold backsub_alias. generalize (rev (seq 0 n)). intros l; revert b.
  induction l as [|i r IH]; intros b; simpl; [reflexivity|].
  rewrite IH. unfold bsa_step. rewrite length_upd.
  assert (H : forall js w, length (fold_left (bsa_inner N Am i) js w) = length w).
  { induction js as [|j t IHj]; intros w; simpl; [reflexivity|]. rewrite IHj. unfold bsa_inner. apply length_upd. }
  rewrite H. apply length_upd.
Qed.

End Al.

(* (B) over a field: R * x = b_original for the in-place call *)
Lemma backsub_alias_correct (K : fld) (n : nat) (R : list (list K)) (aliasA : bool) (buf : option (list (list K))) (b : list K) :
  wf_mat K n R -> (forall bf, buf = Some bf -> wf_mat K n bf) ->
  upper_tri K n R -> diag_nonzero K n R -> length b = n ->
  forall i, i < n -> mulSv K (seq 0 n) R (backsub_alias_run (NumK K) n R aliasA buf b) i = vget (NumK K) b i.
Proof.
  intros HR Hbuf HU Hd Hb i Hi.
  rewrite (backsub_alias_run_eq (NumK K) n R aliasA buf b b); auto.
  unfold backsub_run_v2. apply backsub_correct; auto.
Qed.

(* non-vacuity: over Q, R = [[2,1,1],[0,3,1],[0,0,4]], b = [7,9,12] satisfy the hypotheses, and the in-place call
   returns the solution [1,2,3] (not b), with InSitu.A = A as well as with a dirty InSitu.A buffer *)
Lemma backsub_alias_instance :
  let R := qc [[2;1;1];[0;3;1];[0;0;4]]%Z in let b := qcv [7;9;12]%Z in
  wf_mat QcK 3 R /\ upper_tri QcK 3 R /\ diag_nonzero QcK 3 R /\ length b = 3 /\
  map this (backsub_alias_run (NumK QcK) 3 R true None b) = map this (qcv [1;2;3]%Z) /\
  map this (backsub_alias_run (NumK QcK) 3 R false (Some (qc [[9;9;9];[9;9;9];[9;9;9]]%Z)) b) = map this (qcv [1;2;3]%Z).
Proof.
  cbv zeta.
  split; [repeat split; cbn; repeat constructor|].
  split; [intros i j Hij Hj; destruct i as [|[|[|i]]]; destruct j as [|[|j]]; try lia; reflexivity|].
  split; [intros i Hi; destruct i as [|[|[|i]]]; try lia; apply Qc_nonzero_b; reflexivity|].
  split; [reflexivity|].
  split; vm_compute; reflexivity.
Qed.
