(* C04 — the model executed in exact rational arithmetic (NumQ) on small
   instances: sanity of the specification's reading of the model. *)
From Coq Require Import List Bool Arith ZArith QArith.
From ADV Require Import Base.Num C04.Model.
Import ListNotations.
Local Open Scope Q_scope.

Definition qm (m : list (list Z)) : list (list Q) := map (map inject_Z) m.
Definition qmul (n : nat) (a x : list (list Q)) : list (list Q) :=
  map (fun i => map (fun j => fold_left (fun s k => Qred (s + mget NumQ a i k * mget NumQ x k j)) (seq 0 n) 0) (seq 0 n)) (seq 0 n).

(* the witness of the repaired defect (pivot vector that is not an interchange sequence) *)
Definition W := qm [[1;5;1];[2;1;7];[4;1;1]]%Z.
Example inverse_witness :
  match m_inverse NumQ true InvPlain 3 (all_true 3) W with
  | Ok X => qmul 3 W X = ident NumQ 3
  | _ => False end.
Proof. vm_compute. reflexivity. Qed.

Example pivots_witness : gj_pivots NumQ 3 (all_true 3) (mkSt W (ident NumQ 3) (ones NumQ 3)) = [4; 19#4; 122#19].
Proof. vm_compute. reflexivity. Qed.

(* sub-matrix selection: inverse of the selected block, identity elsewhere (TestSubmatrixInverse) *)
Example inverse_submatrix :
  m_inverse NumQ true InvPlain 3 [true;true;false] (qm [[1;2;50];[3;4;60];[70;80;90]]%Z)
  = Ok [[-2; 1; 0]; [3#2; -1#2; 0]; [0; 0; 1]].
Proof. vm_compute. reflexivity. Qed.

Example det3 : det_naive NumQ 3 W = 122. Proof. vm_compute. reflexivity. Qed.
Example det4 : det_naive NumQ 4 (qm [[2;0;0;1];[0;3;0;0];[1;0;4;0];[0;0;0;5]]%Z) = 120. Proof. vm_compute. reflexivity. Qed.

Example backsub3 :
  backsub NumQ 3 (qm [[2;1;1];[0;3;1];[0;0;4]]%Z) (Some [7;10;8]) (zeros NumQ 3) = [7#6; 8#3; 2].
Proof. vm_compute. reflexivity. Qed.

(* a zero pivot over Q: no NaN in Q, the ghost pivot log shows the zero *)
Example zero_column_pivot :
  In 0 (gj_pivots NumQ 2 (all_true 2) (mkSt (qm [[0;1];[0;2]]%Z) (ident NumQ 2) (ones NumQ 2))).
Proof. vm_compute. left. reflexivity. Qed.

(* on floats the singular exits fire: the same error on both paths (HEAD, /repo 74e12ad) *)
From Coq Require Import Floats.
Example singular_float_dense :
  m_inverse NumF true InvPlain 2 (all_true 2) [[0;1];[0;2]]%float = ErrSingular.
Proof. vm_compute. reflexivity. Qed.
Example singular_float_generic :
  m_inverse NumF false InvPlain 2 (all_true 2) [[1;2];[1;2]]%float = ErrSingular.
Proof. vm_compute. reflexivity. Qed.

(* ---- two repaired defects (8a0efbb, 175f3f7): the witnesses as regression examples ----
   Model.m_inverse / Model.backsub_run are the PRE-fix models (kept because other properties import
   Model.v); Model2.m_inverse_v2 / backsub_run_v2 model /repo HEAD. *)
From ADV Require Import C04.Model2.
Local Open Scope Q_scope.
(* PositiveDefinite + Submatrix with a selection that is not a leading block: before the fix the
   result was not the inverse of the selected block [[5,3],[3,6]] ... *)
Example inverse_pd_submatrix_before_8a0efbb :
  let A := qm [[4;2;2];[2;5;3];[2;3;6]]%Z in
  match m_inverse NumQ true InvPD 3 [false;true;true] A, m_inverse NumQ true InvPlain 3 [false;true;true] A with
  | Ok X, Ok Y => mget NumQ X 1 1 = 5#16 /\ mget NumQ Y 1 1 = 2#7
  | _, _ => False end.
Proof. vm_compute. split; reflexivity. Qed.
(* ... at HEAD it is (binary64: sqrt 5 is irrational; the plain mode agrees to 1 ulp), whatever the
   caller-supplied buffers held *)
Example inverse_pd_submatrix_regression :
  let A := [[4;2;2];[2;5;3];[2;3;6]]%float in
  let D := [[7;7;7];[8;8;8];[9;9;9]]%float in
  m_inverse_v2 NumF true InvPD 3 (Some [false;true;true]) A
  = Ok [[1; 0; 0]; [0; 0x1.2492492492492p-2; -0x1.2492492492491p-3]; [0; -0x1.2492492492491p-3; 0x1.e79e79e79e79dp-3]]%float /\
  m_inverse_insitu NumF true InvPD 3 (Some [false;true;true]) (mkBufs (Some D) (Some D) (Some [5;5;5]%float) (Some D)) A
  = m_inverse_v2 NumF true InvPD 3 (Some [false;true;true]) A.
Proof. vm_compute. split; reflexivity. Qed.

(* backSubstitution.Run with a caller-supplied InSitu.A: before the fix the argument A was ignored;
   at HEAD A is copied into the buffer *)
Example backsub_insitu_a_before_175f3f7 :
  backsub_run NumQ 2 (qm [[2;1];[0;4]]%Z) (Some [4;8]) (Some (ident NumQ 2)) (zeros NumQ 2) = [4;8].
Proof. vm_compute. reflexivity. Qed.
Example backsub_insitu_a_regression :
  backsub_run_v2 NumQ 2 (qm [[2;1];[0;4]]%Z) (Some [4;8]) (Some (ident NumQ 2)) (zeros NumQ 2) = [1;2] /\
  backsub_run_v2 NumQ 2 (qm [[2;1];[0;4]]%Z) (Some [4;8]) None (zeros NumQ 2) = [1;2].
Proof. vm_compute. split; reflexivity. Qed.

(* ---- round 2: the entries (selected row, UNSELECTED column) are moved by the final row gather ----
   mask [true;false;true], pivoting swaps rows 0 and 2 (p = [2;1;0]): the middle column of a, never
   read or written by the elimination, comes back with its entries in rows 0 and 2 exchanged
   (Props.gauss_jordan_correct: a'[r,k] = a0[p[r],k]); the unselected row 1 is untouched *)
Example submatrix_gather_moves_unselected_columns :
  match gj_run NumQ true false 3 [true;false;true]
               (mkSt (qm [[1;50;2];[60;70;80];[3;90;4]]%Z) (ident NumQ 3) [1;2;3]) with
  | Ok s' => fp (fwd NumQ 3 [true;false;true] (mkSt (qm [[1;50;2];[60;70;80];[3;90;4]]%Z) (ident NumQ 3) [1;2;3])) = [2;1;0]%nat /\
             col NumQ (sa s') 1 = [90; 70; 50] /\ row (sa s') 1 = [60; 70; 80] /\
             mget NumQ (sa s') 0 0 = 1 /\ mget NumQ (sa s') 0 2 = 0 /\ mget NumQ (sa s') 2 0 = 0 /\ mget NumQ (sa s') 2 2 = 1
  | _ => False end.
Proof. vm_compute. repeat split; reflexivity. Qed.

(* ---- round 3: a history on binary64 — an environment that refills every caller-supplied buffer with
   stale data before each call; the results are those of the fresh calls (Props.history_independence) *)
From ADV Require Import C04.ProofsHist.
Example history_on_floats :
  let D := [[7;-3];[0.5;9]]%float in
  let env := fun _ : list (result (A:=float)) => mkH (mkBufs (Some D) (Some D) (Some [5;5]%float) None) (Some D) (Some [9;9]%float) in
  let cs := [CInv true InvPD (Some [false;true]) [[4;2];[2;5]]%float;
             CInv false InvPlain None [[1;5];[2;1]]%float;
             CBackSub [[2;1];[0;4]]%float (Some [4;8]%float);
             CDet [[1;5];[2;1]]%float;
             CDetPD false [[4;2];[2;5]]%float] in
  run_hist NumF (fun x => x) 2 env [] cs = map (exec NumF (fun x => x) 2 (fresh (A:=float))) cs /\
  nth 2 (run_hist NumF (fun x => x) 2 env [] cs) (RDet 0%float) = RVec [1;2]%float.
Proof. vm_compute. split; reflexivity. Qed.
