(* C04 — round 2: the Laplace determinant (= determinantNaive) is ALTERNATING for adjacent rows:
   two equal adjacent rows give determinant 0 (double expansion + the pairing (j,k) <-> (k+1,j)). *)
From Coq Require Import List Bool Arith Lia Field.
From ADV Require Import Base.Num C04.Model C04.Spec C04.ProofsList C04.ProofsDet.
Import ListNotations.

Section Det3.
Variable K : fld.
Add Field KF10 : (Fth K).
Notation N := (NumK K).
Notation "0" := (f0 K). Notation "1" := (f1 K).
Infix "+" := (fadd K). Infix "*" := (fmul K). Infix "-" := (fsub K).

(* the determinant reads the matrix through mget only *)
Lemma det_ext n : forall a b : list (list K),
  (forall i j, i < n -> j < n -> mget N a i j = mget N b i j) -> det_laplace K n a = det_laplace K n b.
Proof.
  induction n as [|n IH]; intros a b H; [reflexivity|].
  rewrite !det_laplace_S. apply sumL_ext. intros j Hj. apply in_seq in Hj.
  rewrite (H O j) by lia. rewrite (IH (minor0 a j) (minor0 b j)); [reflexivity|].
  intros i c Hi Hc. rewrite !mget_minor0. destruct (c <? j); apply H; lia.
Qed.

(* signs as factors *)
Definition sg (j : nat) : K := if Nat.even j then 1 else fopp K 1.
Lemma sgn_mul j y : sgn K j y = sg j * y.
Proof. unfold sgn, sg. destruct (Nat.even j); ring. Qed.
Lemma sg_succ k : sg (S k) = fopp K (sg k).
Proof. unfold sg. rewrite Nat.even_succ, <- Nat.negb_even. destruct (Nat.even k); simpl; ring. Qed.

(* sums *)
Lemma sumL_scal ks c (f : nat -> K) : c * sumL K ks f = sumL K ks (fun k => c * f k).
Proof. induction ks as [|k t IH]; simpl; [ring|]. rewrite <- IH. ring. Qed.
Lemma sumL_add ks (f g : nat -> K) : sumL K ks f + sumL K ks g = sumL K ks (fun k => f k + g k).
Proof. induction ks as [|k t IH]; simpl; [ring|]. rewrite <- IH. ring. Qed.
Lemma sumL_app l1 l2 (f : nat -> K) : sumL K (l1 ++ l2) f = sumL K l1 f + sumL K l2 f.
Proof. induction l1 as [|h t IH]; simpl; [ring|]. rewrite IH. ring. Qed.
Lemma sumL_exch ks ls (f : nat -> nat -> K) :
  sumL K ks (fun k => sumL K ls (fun l => f k l)) = sumL K ls (fun l => sumL K ks (fun k => f k l)).
Proof.
  induction ks as [|k t IH]; simpl.
  - symmetry. apply sumL_zero. auto.
  - rewrite IH. apply sumL_add.
Qed.
Lemma sumL_split ks (P : nat -> bool) (f : nat -> K) :
  sumL K ks f = sumL K ks (fun k => if P k then f k else 0) + sumL K ks (fun k => if P k then 0 else f k).
Proof. induction ks as [|k t IH]; simpl; [ring|]. rewrite IH. destruct (P k); ring. Qed.

(* removing the columns {j, k+1} (j <= k) in either order gives the same minor *)
Lemma minor_minor_comm n (a : list (list K)) j k : j <= k ->
  det_laplace K n (minor0 (minor0 a (S k)) j) = det_laplace K n (minor0 (minor0 a j) k).
Proof.
  intros Hjk. apply det_ext. intros i c Hi Hc. rewrite !mget_minor0.
  repeat match goal with |- context [?x <? ?y] => destruct (Nat.ltb_spec x y) end; try lia; reflexivity.
Qed.

(* rows 0 and 1 equal *)
Lemma det_rows01_equal n (a : list (list K)) :
  (forall j, j < S (S n) -> mget N a O j = mget N a 1%nat j) -> det_laplace K (S (S n)) a = 0.
Proof.
  intros Heq.
  set (t := fun j k => sg j * (mget N a 1%nat j * (sg k * ((if k <? j then mget N a 1%nat k else mget N a 1%nat (S k))
                                   * det_laplace K n (minor0 (minor0 a j) k))))).
  (* double expansion *)
  assert (E : det_laplace K (S (S n)) a = sumL K (seq 0 (S (S n))) (fun j => sumL K (seq 0 (S n)) (fun k => t j k))).
  { rewrite det_laplace_S. apply sumL_ext. intros j Hj. apply in_seq in Hj.
    rewrite sgn_mul. rewrite det_laplace_S. rewrite Heq by lia.
    rewrite !sumL_scal. apply sumL_ext. intros k Hk. unfold t. rewrite sgn_mul. rewrite mget_minor0. reflexivity. }
  rewrite E. clear E.
  (* split by k < j *)
  rewrite (sumL_ext K _ _ (fun j => sumL K (seq 0 (S n)) (fun k => if k <? j then t j k else 0)
                                  + sumL K (seq 0 (S n)) (fun k => if k <? j then 0 else t j k))).
  2:{ intros j _. apply (sumL_split (seq 0 (S n)) (fun k => k <? j)). }
  rewrite <- sumL_add.
  (* the part k < j: drop j = 0, shift, exchange *)
  assert (EA : sumL K (seq 0 (S (S n))) (fun j => sumL K (seq 0 (S n)) (fun k => if k <? j then t j k else 0))
             = sumL K (seq 0 (S n)) (fun j => sumL K (seq 0 (S n)) (fun k => if j <? S k then t (S k) j else 0))).
  { change (seq 0 (S (S n))) with (O :: seq 1 (S n)). cbn [sumL].
    rewrite (sumL_zero K (seq 0 (S n)) (fun k => if k <? O then t O k else 0)) by (intros; reflexivity).
    rewrite sumL_shift. rewrite sumL_exch. ring. }
  (* the part k >= j: the last j contributes nothing *)
  assert (EB : sumL K (seq 0 (S (S n))) (fun j => sumL K (seq 0 (S n)) (fun k => if k <? j then 0 else t j k))
             = sumL K (seq 0 (S n)) (fun j => sumL K (seq 0 (S n)) (fun k => if k <? j then 0 else t j k))).
  { rewrite (seq_S (S n) 0). rewrite sumL_app. cbn [sumL Nat.add].
    rewrite (sumL_zero K (seq 0 (S n)) (fun k => if k <? S n then 0 else t (S n) k)).
    - ring.
    - intros k Hk. apply in_seq in Hk. destruct (Nat.ltb_spec k (S n)); [reflexivity|lia]. }
  rewrite EA, EB. rewrite sumL_add. apply sumL_zero. intros j Hj. apply in_seq in Hj.
  rewrite sumL_add. apply sumL_zero. intros k Hk. apply in_seq in Hk.
  destruct (Nat.ltb_spec j (S k)) as [Hjk|Hjk]; destruct (Nat.ltb_spec k j) as [Hkj|Hkj]; try lia; [|ring].
  unfold t. destruct (Nat.ltb_spec j (S k)); [|lia]. destruct (Nat.ltb_spec k j); [lia|].
  rewrite (minor_minor_comm n a j k) by lia. rewrite sg_succ. ring.
Qed.

(* any two adjacent rows equal *)
Lemma det_adjacent_rows_equal : forall i n (a : list (list K)), S i < n ->
  (forall j, j < n -> mget N a i j = mget N a (S i) j) -> det_laplace K n a = 0.
Proof.
  induction i as [|i IH]; intros n a Hn Heq.
  - destruct n as [|[|n]]; try lia. apply det_rows01_equal. exact Heq.
  - destruct n as [|n]; [lia|]. rewrite det_laplace_S. apply sumL_zero. intros j Hj. apply in_seq in Hj.
    rewrite (IH n (minor0 a j)).
    + unfold sgn. destruct (Nat.even j); ring.
    + lia.
    + intros c Hc. rewrite !mget_minor0. destruct (c <? j); apply Heq; lia.
Qed.

(* linear in EVERY row: c = a = b outside row i, c_i = a_i + l * b_i *)
Lemma det_row_linear : forall i n (a b c : list (list K)) (l : K), i < n ->
  (forall r j, r < n -> j < n -> r <> i -> mget N a r j = mget N c r j /\ mget N b r j = mget N c r j) ->
  (forall j, j < n -> mget N c i j = mget N a i j + l * mget N b i j) ->
  det_laplace K n c = det_laplace K n a + l * det_laplace K n b.
Proof.
  induction i as [|i IH]; intros n a b c l Hi Hsame Hrow; (destruct n as [|n]; [lia|]);
    rewrite !det_laplace_S; rewrite sumL_scal, sumL_add; apply sumL_ext; intros j Hj; apply in_seq in Hj;
    rewrite !sgn_mul.
  - rewrite Hrow by lia.
    rewrite (det_ext n (minor0 a j) (minor0 c j)), (det_ext n (minor0 b j) (minor0 c j)); [ring| |].
    + intros r k Hr Hk. rewrite !mget_minor0. destruct (k <? j); apply Hsame; lia.
    + intros r k Hr Hk. rewrite !mget_minor0. destruct (k <? j); apply Hsame; lia.
  - destruct (Hsame O j ltac:(lia) ltac:(lia) ltac:(lia)) as [Ea Eb]. rewrite Ea, Eb.
    rewrite (IH n (minor0 a j) (minor0 b j) (minor0 c j) l); [ring|lia| |].
    + intros r k Hr Hk Hne. rewrite !mget_minor0. destruct (k <? j); apply Hsame; lia.
    + intros k Hk. rewrite !mget_minor0. destruct (k <? j); apply Hrow; lia.
Qed.

End Det3.
