(* C04 round 3 — HISTORY INDEPENDENCE: the routines are pure functions of their arguments.
   The only state a call can inherit from earlier calls are the caller-supplied in-situ buffers
   (matrixInverse.InSitu{Id, A, B, Cholesky.L}, backSubstitution.InSitu{A, X},
   determinant.InSitu{Cholesky.L}); the model has no other state.  For EVERY carrier (binary64 and
   binary32 floats included — no arithmetic law is used) the result of a call does not depend on
   what well-shaped buffers held before, hence not on the history of calls that filled them. *)
From Coq Require Import List Bool Arith Lia.
From ADV Require Import Base.Num C04.Model C04.Model2 C04.ProofsList C04.ProofsBuf.
Import ListNotations.

Section Hist.
Context {A : Type} (N : Num A).

Lemma fold_left_ext_in {X Y} (f g : X -> Y -> X) (l : list Y) :
  (forall y, In y l -> forall a, f a y = g a y) -> forall a, fold_left f l a = fold_left g l a.
Proof.
  induction l as [|h t IH]; intros H a; simpl; auto.
  rewrite (H h (or_introl eq_refl)). apply IH. intros y Hy. apply H. right. exact Hy.
Qed.

(* ------------------------------------------------------------------ backSubstitution: InSitu.X *)
Definition bstep (n : nat) (Am : list (list A)) (b : option (list A)) (x : list A) (i : nat) : list A :=
  let xi0 := match b with None => zero N | Some bv => vget N bv i end in
  let xi := fold_left (fun acc j => sub N acc (mul N (mget N Am i j) (vget N x j))) (seq (S i) (n - S i)) xi0 in
  upd x i (div N xi (mget N Am i i)).

Definition agree_from (n k : nat) (x x' : list A) : Prop :=
  length x = n /\ length x' = n /\ forall j, k <= j -> j < n -> nth j x (zero N) = nth j x' (zero N).

Lemma bstep_agree n Am b k x x' : S k <= n -> agree_from n (S k) x x' -> agree_from n k (bstep n Am b x k) (bstep n Am b x' k).
Proof.
  intros Hk (HL & HL' & H). unfold bstep.
  assert (E : fold_left (fun acc j => sub N acc (mul N (mget N Am k j) (vget N x j))) (seq (S k) (n - S k))
                (match b with None => zero N | Some bv => vget N bv k end) =
              fold_left (fun acc j => sub N acc (mul N (mget N Am k j) (vget N x' j))) (seq (S k) (n - S k))
                (match b with None => zero N | Some bv => vget N bv k end)).
  { apply fold_left_ext_in. intros j Hj a. apply in_seq in Hj. unfold vget. rewrite H by lia. reflexivity. }
  rewrite E. split; [rewrite length_upd; auto|]. split; [rewrite length_upd; auto|].
  intros j Hj Hjn. destruct (Nat.eq_dec j k) as [->|Hne].
  - rewrite !nth_upd_same by lia. reflexivity.
  - rewrite !nth_upd_other by auto. apply H; lia.
Qed.

Lemma bfold_agree n Am b : forall k, k <= n -> forall x x', agree_from n k x x' ->
  agree_from n 0 (fold_left (bstep n Am b) (rev (seq 0 k)) x) (fold_left (bstep n Am b) (rev (seq 0 k)) x').
Proof.
  induction k as [|k IH]; intros Hk x x' Hag; [exact Hag|].
  rewrite seq_S, rev_app_distr. simpl. apply IH; [lia|]. apply bstep_agree; auto.
Qed.

(* the result does not depend on the prior content of a caller-supplied InSitu.X *)
Lemma backsub_x0_indep n Am b x0 x0' : length x0 = n -> length x0' = n ->
  backsub N n Am b x0 = backsub N n Am b x0'.
Proof.
  intros H0 H0'.
  destruct (bfold_agree n Am b n (le_n n) x0 x0') as (HL & HL' & H).
  { split; [auto|split; [auto|]]. intros j Hj Hjn. lia. }
  change (backsub N n Am b x0) with (fold_left (bstep n Am b) (rev (seq 0 n)) x0).
  change (backsub N n Am b x0') with (fold_left (bstep n Am b) (rev (seq 0 n)) x0').
  apply (nth_ext_eq (zero N)); [congruence|]. intros k Hk. apply H; lia.
Qed.

(* ... nor on the prior content of a caller-supplied InSitu.A (HEAD, after 175f3f7) *)
Lemma backsub_run_v2_indep n Am b (buf : option (list (list A))) x0 x0' :
  wfm n Am -> (forall bf, buf = Some bf -> wfm n bf) -> length x0 = n -> length x0' = n ->
  backsub_run_v2 N n Am b buf x0 = backsub_run_v2 N n Am b None x0'.
Proof.
  intros HA Hb H0 H0'. unfold backsub_run_v2. destruct buf as [bf|].
  - rewrite (mat_set_eq N n bf Am (Hb bf eq_refl) HA). apply backsub_x0_indep; auto.
  - apply backsub_x0_indep; auto.
Qed.

(* ------------------------------------------------------------------ matrixInverse: InSitu.Id, InSitu.A, InSitu.B *)
Definition wf_inv_bufs (n : nat) (bf : inv_bufs (A:=A)) : Prop :=
  (forall b, bId bf = Some b -> wfm n b) /\ (forall b, bA bf = Some b -> wfm n b) /\
  (forall b, bB bf = Some b -> length b = n) /\ bL bf = None.

Lemma zeros_length n : length (zeros N n) = n.
Proof. apply repeat_length. Qed.

Lemma buf_m_wfm n o : (forall b, o = Some b -> wfm n b) -> wfm n (buf_m N n o).
Proof. intros H. destruct o as [b|]; simpl; [apply H; reflexivity|apply zmat_wfm]. Qed.

Lemma m_inverse_insitu_indep dense mode n omsk bf m :
  wfm n m -> wf_inv_bufs n bf ->
  m_inverse_insitu N dense mode n omsk bf m = m_inverse_v2 N dense mode n omsk m.
Proof.
  intros Hm (HId & HA & HB & HL). unfold m_inverse_v2, m_inverse_insitu, no_bufs. cbn [bId bA bB bL].
  rewrite HL.
  assert (E1 : match bId bf with Some b => reset_ident N n b | None => ident N n end = ident N n).
  { destruct (bId bf) as [b|] eqn:E; [apply reset_ident_eq; apply HId; reflexivity|reflexivity]. }
  rewrite E1.
  assert (E2 : reset_ones N n (buf_v N n (bB bf)) = reset_ones N n (buf_v N n None)).
  { rewrite !reset_ones_eq; [reflexivity|apply zeros_length|].
    destruct (bB bf) as [b|] eqn:E; simpl; [apply HB; reflexivity|apply zeros_length]. }
  rewrite E2.
  assert (E3 : mat_set N n (buf_m N n (bA bf)) m = mat_set N n (buf_m N n None) m).
  { rewrite !mat_set_eq; auto; [apply zmat_wfm|apply buf_m_wfm; exact HA]. }
  rewrite E3.
  assert (E4 : forall s, mask_ident N n s (buf_m N n (bA bf)) m = mask_ident N n s (buf_m N n None) m).
  { intros s. rewrite !mask_ident_eq; auto; [apply zmat_wfm|apply buf_m_wfm; exact HA]. }
  destruct mode; try reflexivity. destruct omsk as [s|]; [rewrite E4|]; reflexivity.
Qed.

(* ------------------------------------------------------------------ histories *)
(* one call of a routine of the property at size n *)
Inductive call :=
| CInv (dense : bool) (mode : inv_mode) (omsk : option (list bool)) (m : list (list A))
| CSolve (dense ut : bool) (msk : list bool) (a x : list (list A)) (b : list A)
| CBackSub (Am : list (list A)) (b : option (list A))
| CDet (a : list (list A))
| CDetPD (logscale : bool) (m : list (list A)).
Inductive result :=
| RInv (o : outcome (list (list A))) | RSolve (o : outcome (st (A:=A))) | RVec (v : list A) | RDet (d : A) | RDetPD (o : outcome A).

(* the caller's InSitu structs: everything an earlier call can have left behind *)
Record hbufs := mkH { hInv : inv_bufs (A:=A); hBSA : option (list (list A)); hBSX : option (list A) }.
Definition fresh : hbufs := mkH (no_bufs (A:=A)) None None.
Definition wf_hbufs (n : nat) (h : hbufs) : Prop :=
  wf_inv_bufs n (hInv h) /\ (forall b, hBSA h = Some b -> wfm n b) /\ (forall b, hBSX h = Some b -> length b = n).
Definition wf_call (n : nat) (c : call) : Prop :=
  match c with
  | CInv _ _ _ m => wfm n m | CBackSub Am _ => wfm n Am | _ => True
  end.

Variable lg : A -> A.   (* the carrier's logarithm *)
Definition exec (n : nat) (h : hbufs) (c : call) : result :=
  match c with
  | CInv dense mode omsk m => RInv (m_inverse_insitu N dense mode n omsk (hInv h) m)
  | CSolve dense ut msk a x b => RSolve (gj_run N dense ut n msk (mkSt a x b))
  | CBackSub Am b => RVec (backsub_run_v2 N n Am b (hBSA h) (buf_v N n (hBSX h)))
  | CDet a => RDet (det_naive N n a)
  | CDetPD logscale m => RDetPD (det_pd_insitu N lg logscale n None m)
  end.

Lemma exec_indep n h c : wf_hbufs n h -> wf_call n c -> exec n h c = exec n fresh c.
Proof.
  intros (HI & HA & HX) Hc. destruct c; cbn [exec fresh hInv hBSA hBSX]; try reflexivity.
  - f_equal. cbn [wf_call] in Hc. rewrite (m_inverse_insitu_indep dense mode n omsk (hInv h) m Hc HI). reflexivity.
  - f_equal. cbn [wf_call] in Hc. apply backsub_run_v2_indep; auto; [|apply zeros_length].
    destruct (hBSX h) as [b0|] eqn:E; simpl; [apply HX; reflexivity|apply zeros_length].
Qed.

(* a HISTORY: the calls cs are made one after the other; before each call an adversarial
   environment fills the caller's buffers with anything well-shaped it likes, as a function of ALL
   results returned so far (in particular: with those results).  The results are those of the
   same calls made first, in a fresh process, without buffers. *)
Fixpoint run_hist (n : nat) (env : list result -> hbufs) (past : list result) (cs : list call) : list result :=
  match cs with
  | [] => []
  | c :: t => let r := exec n (env past) c in r :: run_hist n env (past ++ [r]) t
  end.

Lemma run_hist_indep n env : (forall past, wf_hbufs n (env past)) ->
  forall cs past, Forall (wf_call n) cs -> run_hist n env past cs = map (exec n fresh) cs.
Proof.
  intros Henv. induction cs as [|c t IH]; intros past Hcs; [reflexivity|].
  inversion Hcs as [|? ? Hc Ht]; subst. cbn [run_hist map].
  rewrite (exec_indep n (env past) c (Henv past) Hc). f_equal. apply IH. exact Ht.
Qed.

End Hist.
