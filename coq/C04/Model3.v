(* C04 — round 7 addition to the executable model: backSubstitution.Run(A, b, &InSitu{X: b}), i.e. the
   caller passes the right-hand side itself as the result buffer (the documented way to solve "in place").
   b and x are then ONE storage; the model below is written at the level of that single buffer, every
   x.At(i) / x.ConstAt(j) / b.ConstAt(i) of backSubstitution.go is a read or write of a cell of [v], in
   the order of the Go text:

       for i := n-1; i >= 0; i-- {
         x.At(i).Set(b.ConstAt(i))                       v[i] = v[i]
         for j := i+1; j < n; j++ {
           t.Mul(A.ConstAt(i,j), x.ConstAt(j))           t    = A[i,j] * v[j]
           x.At(i).Sub(x.ConstAt(i), t)                  v[i] = v[i] - t
         }
         x.At(i).Div(x.ConstAt(i), A.ConstAt(i,i))       v[i] = v[i] / A[i,i]
       }

   so that a change of the read / write order inside one row (e.g. clearing x[i] before b[i] is read)
   changes the model's counterpart, and is caught by the correspondence, although it is invisible
   when x and b are different objects.  No proofs in this file. *)
From Coq Require Import List Bool Arith.
From ADV Require Import Base.Num C04.Model C04.Model2.
Import ListNotations.

Section Alg3.
Context {A : Type} (N : Num A).

Definition bsa_inner (Am : mat (A:=A)) (i : nat) (w : vec (A:=A)) (j : nat) : vec (A:=A) :=
  upd w i (sub N (vget N w i) (mul N (mget N Am i j) (vget N w j))).

Definition bsa_step (n : nat) (Am : mat (A:=A)) (v : vec (A:=A)) (i : nat) : vec (A:=A) :=
  let v1 := upd v i (vget N v i) in
  let v2 := fold_left (bsa_inner Am i) (seq (S i) (n - S i)) v1 in
  upd v2 i (div N (vget N v2 i) (mget N Am i i)).

Definition backsub_alias (n : nat) (Am : mat (A:=A)) (v0 : vec (A:=A)) : vec (A:=A) :=
  fold_left (bsa_step n Am) (rev (seq 0 n)) v0.

(* backSubstitution.Run(A, b, &InSitu{A: bufA, X: b}); aliasA = the caller passed A itself as InSitu.A
   (then "inSitu.A != A" is false and nothing is copied) *)
Definition backsub_alias_run (n : nat) (Am : mat (A:=A)) (aliasA : bool) (bufA : option (mat (A:=A))) (v0 : vec (A:=A)) : vec (A:=A) :=
  backsub_alias n (if aliasA then Am else match bufA with Some buf => mat_set N n buf Am | None => Am end) v0.

End Alg3.
