(* C04 — Gauss-Jordan, round 2: row operations as a relation, the bundle of
   invariants every row operation preserves, and the FORWARD phase invariant
   over the whole column loop. *)
From Coq Require Import List Bool Arith Lia Field Permutation.
From ADV Require Import Base.Num C04.Model C04.Spec C04.ProofsList C04.ProofsDet C04.ProofsPerm C04.ProofsGJ.
Import ListNotations.

Section GJ2.
Variable K : fld.
Add Field KF4 : (Fth K).
Notation N := (NumK K).
Notation "0" := (f0 K). Notation "1" := (f1 K).
Infix "+" := (fadd K). Infix "*" := (fmul K). Infix "-" := (fsub K). Infix "/" := (fdiv K).

Variable n : nat.
Variable msk : list bool.
Notation S := (idxs msk 0 n).
Notation impS := (imp K n msk).

(* ------------------------------------------------------------------ row operations, as relations between states *)
Definition same_off (s s' : st (A:=K)) (t : nat) : Prop :=
  forall r, r <> t ->
    row (sa s') r = row (sa s) r /\ row (sx s') r = row (sx s) r /\ vget N (sb s') r = vget N (sb s) r.

(* row t := row t - m * row u on the selected columns of a and x, and on b *)
Definition is_axpy (s s' : st (A:=K)) (t u : nat) (m : K) : Prop :=
  wf_st K n s' /\ same_off s s' t /\
  (forall k, k < n -> mget N (sa s') t k =
      if sel msk k then mget N (sa s) t k - m * mget N (sa s) u k else mget N (sa s) t k) /\
  (forall k, k < n -> mget N (sx s') t k =
      if sel msk k then mget N (sx s) t k - m * mget N (sx s) u k else mget N (sx s) t k) /\
  vget N (sb s') t = vget N (sb s) t - m * vget N (sb s) u.

(* row t := row t / c on the selected columns of a and x, and on b *)
Definition is_scale (s s' : st (A:=K)) (t : nat) (c : K) : Prop :=
  wf_st K n s' /\ same_off s s' t /\
  (forall k, k < n -> mget N (sa s') t k = if sel msk k then mget N (sa s) t k / c else mget N (sa s) t k) /\
  (forall k, k < n -> mget N (sx s') t k = if sel msk k then mget N (sx s) t k / c else mget N (sx s) t k) /\
  vget N (sb s') t = vget N (sb s) t / c.

(* ------------------------------------------------------------------ the invariants every row operation keeps *)
Variable s0 : st (A:=K).

(* nothing outside the selection is written: unselected rows, and unselected columns of every row *)
Definition outside (s : st (A:=K)) : Prop :=
  (forall r, r < n -> sel msk r = false ->
     row (sa s) r = row (sa s0) r /\ row (sx s) r = row (sx s0) r /\ vget N (sb s) r = vget N (sb s0) r) /\
  (forall r k, r < n -> k < n -> sel msk k = false ->
     mget N (sa s) r k = mget N (sa s0) r k /\ mget N (sx s) r k = mget N (sx s0) r k).

(* x_S * a0_S = a_S : the left-inverse invariant (holds initially when x0_S = I_S) *)
Definition linv (s : st (A:=K)) : Prop :=
  forall t c, In t S -> In c S ->
    sumL K S (fun k => mget N (sx s) t k * mget N (sa s0) k c) = mget N (sa s) t c.

Definition Rel (s : st (A:=K)) : Prop :=
  wf_st K n s /\ impS s s0 /\ outside s /\ (linv s0 -> linv s).

Lemma mget_row_eq (a a' : list (list K)) r k : row a' r = row a r -> mget N a' r k = mget N a r k.
Proof. intros H. unfold mget. rewrite H. reflexivity. Qed.

Lemma axpy_Rel s s' t u m :
  Rel s -> is_axpy s s' t u m -> In t S -> In u S -> t <> u -> Rel s'.
Proof.
  intros (Hwf & Himp & (Ho1 & Ho2) & Hl) (Hwf' & Hoff & Ha & Hx & Hb) Ht Hu Htu.
  destruct (proj1 (inS n msk _) Ht) as [Htn Hts]. destruct (proj1 (inS n msk _) Hu) as [Hun Hus].
  split; [exact Hwf'|]. split; [|split; [split|]].
  - apply (imp_trans K n msk s' s s0); [|exact Himp].
    apply (imp_axpy K n msk s s' t u m); auto.
    + intros r Hr Hne. destruct (Hoff r Hne) as (H1 & H2 & H3). split; [exact H1|].
      intros [c|] Hc; cbn [rhs]; [apply mget_row_eq; exact H2|exact H3].
    + intros k Hk. destruct (proj1 (inS n msk _) Hk) as [Hkn Hks]. rewrite Ha by auto. rewrite Hks. reflexivity.
    + intros [c|] Hc; cbn [rhs okcol] in *.
      * destruct (proj1 (inS n msk _) Hc) as [Hcn Hcs]. rewrite Hx by auto. rewrite Hcs. reflexivity.
      * exact Hb.
  - intros r Hr Hs. assert (r <> t) by congruence.
    destruct (Hoff r H) as (H1 & H2 & H3). destruct (Ho1 r Hr Hs) as (G1 & G2 & G3).
    rewrite H1, H2, H3. auto.
  - intros r k Hr Hk Hs. destruct (Ho2 r k Hr Hk Hs) as (G1 & G2).
    destruct (Nat.eq_dec r t) as [->|Hne].
    + rewrite Ha, Hx by auto. rewrite Hs. auto.
    + destruct (Hoff r Hne) as (H1 & H2 & _).
      rewrite (mget_row_eq _ _ r k H1), (mget_row_eq _ _ r k H2). auto.
  - intros HL0 t' c Ht' Hc. specialize (Hl HL0).
    destruct (proj1 (inS n msk _) Hc) as [Hcn Hcs].
    destruct (Nat.eq_dec t' t) as [->|Hne].
    + rewrite (sumL_ext K S _ (fun k => mget N (sx s) t k * mget N (sa s0) k c
                                       + (0 - m) * (mget N (sx s) u k * mget N (sa s0) k c))).
      2:{ intros k Hk. destruct (proj1 (inS n msk _) Hk) as [Hkn Hks]. rewrite Hx by auto. rewrite Hks. ring. }
      rewrite sumL_lin. rewrite (Hl t c Ht Hc), (Hl u c Hu Hc). rewrite Ha by auto. rewrite Hcs. ring.
    + destruct (Hoff t' Hne) as (H1 & H2 & _).
      rewrite (mget_row_eq _ _ t' c H1). rewrite <- (Hl t' c Ht' Hc).
      apply sumL_ext. intros k _. rewrite (mget_row_eq _ _ t' k H2). reflexivity.
Qed.

Lemma scale_Rel s s' t c0 :
  Rel s -> is_scale s s' t c0 -> In t S -> c0 <> 0 -> Rel s'.
Proof.
  intros (Hwf & Himp & (Ho1 & Ho2) & Hl) (Hwf' & Hoff & Ha & Hx & Hb) Ht Hc0.
  destruct (proj1 (inS n msk _) Ht) as [Htn Hts].
  split; [exact Hwf'|]. split; [|split; [split|]].
  - apply (imp_trans K n msk s' s s0); [|exact Himp].
    apply (imp_scale K n msk s s' t c0); auto.
    + intros r Hr Hne. destruct (Hoff r Hne) as (H1 & H2 & H3). split; [exact H1|].
      intros [c|] Hc; cbn [rhs]; [apply mget_row_eq; exact H2|exact H3].
    + intros k Hk. destruct (proj1 (inS n msk _) Hk) as [Hkn Hks]. rewrite Ha by auto. rewrite Hks. reflexivity.
    + intros [c|] Hc; cbn [rhs okcol] in *.
      * destruct (proj1 (inS n msk _) Hc) as [Hcn Hcs]. rewrite Hx by auto. rewrite Hcs. reflexivity.
      * exact Hb.
  - intros r Hr Hs. assert (r <> t) by congruence.
    destruct (Hoff r H) as (H1 & H2 & H3). destruct (Ho1 r Hr Hs) as (G1 & G2 & G3).
    rewrite H1, H2, H3. auto.
  - intros r k Hr Hk Hs. destruct (Ho2 r k Hr Hk Hs) as (G1 & G2).
    destruct (Nat.eq_dec r t) as [->|Hne].
    + rewrite Ha, Hx by auto. rewrite Hs. auto.
    + destruct (Hoff r Hne) as (H1 & H2 & _).
      rewrite (mget_row_eq _ _ r k H1), (mget_row_eq _ _ r k H2). auto.
  - intros HL0 t' c Ht' Hc. specialize (Hl HL0).
    destruct (proj1 (inS n msk _) Hc) as [Hcn Hcs].
    destruct (Nat.eq_dec t' t) as [->|Hne].
    + rewrite (sumL_ext K S _ (fun k => 0 + (1 / c0) * (mget N (sx s) t k * mget N (sa s0) k c))).
      2:{ intros k Hk. destruct (proj1 (inS n msk _) Hk) as [Hkn Hks]. rewrite Hx by auto. rewrite Hks. field. auto. }
      rewrite sumL_lin. rewrite (Hl t c Ht Hc). rewrite Ha by auto. rewrite Hcs.
      rewrite sumL_zero by auto. field. auto.
    + destruct (Hoff t' Hne) as (H1 & H2 & _).
      rewrite (mget_row_eq _ _ t' c H1). rewrite <- (Hl t' c Ht' Hc).
      apply sumL_ext. intros k _. rewrite (mget_row_eq _ _ t' k H2). reflexivity.
Qed.

(* ------------------------------------------------------------------ forward phase: one elimination is a row operation *)
Lemma elim_row_axpy p s i j :
  wf_st K n s -> In (pget p j) S -> In (pget p i) S -> pget p i <> pget p j ->
  (forall k, In k S -> k < i -> mget N (sa s) (pget p i) k = 0) ->
  is_axpy s (elim_row N n i msk p s j) (pget p j) (pget p i)
          (mget N (sa s) (pget p j) i / mget N (sa s) (pget p i) i).
Proof.
  intros Hwf Hpj Hpi Hne Hz.
  destruct (proj1 (inS n msk _) Hpj) as [Hpjn _]. destruct (proj1 (inS n msk _) Hpi) as [Hpin _].
  destruct (elim_row_spec K n msk p s i j Hwf Hpjn Hpin Hne) as (Hwf' & Hsame & Ha & Hx & Hb).
  split; [exact Hwf'|]. split; [exact Hsame|]. split; [|split].
  - intros k Hk. rewrite Ha by auto. destruct (sel msk k) eqn:Hs; simpl; [|reflexivity].
    destruct (Nat.leb_spec i k) as [Hle|Hlt]; [ring|].
    rewrite (Hz k) by (try apply inS; auto). ring.
  - intros k Hk. rewrite Hx by auto. destruct (sel msk k); [ring|reflexivity].
  - rewrite Hb. ring.
Qed.

(* the loop "for j := i+1; j < n; j++" of one column *)
Lemma elim_fold p i : pfix n msk p -> In i S ->
  forall js s, NoDup js -> (forall j, In j js -> In j S /\ i < j) -> Rel s ->
    mget N (sa s) (pget p i) i <> 0 ->
    (forall k, In k S -> k < i -> mget N (sa s) (pget p i) k = 0) ->
    let s' := fold_left (elim_row N n i msk p) js s in
    Rel s' /\
    (forall r, (forall j, In j js -> r <> pget p j) ->
        row (sa s') r = row (sa s) r /\ row (sx s') r = row (sx s) r /\ vget N (sb s') r = vget N (sb s) r) /\
    (forall j, In j js -> mget N (sa s') (pget p j) i = 0) /\
    (forall r k, r < n -> k < n -> k < i -> mget N (sa s') r k = mget N (sa s) r k).
Proof.
  intros Hp Hi. destruct (proj1 (inS n msk _) Hi) as [Hin His].
  induction js as [|j t IH]; intros s HN Hjs HR Hpiv Hz; cbn [fold_left].
  - split; [exact HR|]. split; [auto|]. split; [intros j []|auto].
  - inversion HN as [|? ? Hnot HN']; subst.
    destruct (Hjs j (or_introl eq_refl)) as [HjS Hij].
    destruct (proj1 (inS n msk _) HjS) as [Hjn _].
    assert (HpjS := pfix_S n msk p j Hp HjS). assert (HpiS := pfix_S n msk p i Hp Hi).
    destruct (proj1 (inS n msk _) HpjS) as [Hpjn _]. destruct (proj1 (inS n msk _) HpiS) as [Hpin _].
    assert (Hne : pget p i <> pget p j).
    { intros E. apply (pfix_inj n msk p i j Hp Hin Hjn) in E. lia. }
    assert (Hwf : wf_st K n s) by apply HR.
    assert (Hax := elim_row_axpy p s i j Hwf HpjS HpiS Hne Hz).
    destruct (elim_row_spec K n msk p s i j Hwf Hpjn Hpin Hne) as (_ & Hsame & Ha & _).
    set (s1 := elim_row N n i msk p s j) in *.
    assert (HR1 : Rel s1) by (eapply axpy_Rel; eauto).
    destruct (Hsame (pget p i) Hne) as (Hri & _).
    assert (Hpiv1 : mget N (sa s1) (pget p i) i <> 0) by (rewrite (mget_row_eq _ _ _ _ Hri); exact Hpiv).
    assert (Hz1 : forall k, In k S -> k < i -> mget N (sa s1) (pget p i) k = 0).
    { intros k Hk Hki. rewrite (mget_row_eq _ _ _ _ Hri). auto. }
    destruct (IH s1 HN' (fun j' H => Hjs j' (or_intror H)) HR1 Hpiv1 Hz1) as (HR' & Hrows & Hzero & Hleft).
    split; [exact HR'|]. split; [|split].
    + intros r Hr. destruct (Hrows r (fun j' H => Hr j' (or_intror H))) as (E1 & E2 & E3).
      destruct (Hsame r (Hr j (or_introl eq_refl))) as (F1 & F2 & F3).
      rewrite E1, E2, E3. auto.
    + intros j' [<-|Hj'].
      * assert (Hnt : forall j'', In j'' t -> pget p j <> pget p j'').
        { intros j'' Hj'' E. destruct (Hjs j'' (or_intror Hj'')) as [Hj''S _].
          destruct (proj1 (inS n msk _) Hj''S) as [Hj''n _].
          apply (pfix_inj n msk p j j'' Hp Hjn Hj''n) in E. subst j''. auto. }
        destruct (Hrows (pget p j) Hnt) as (E1 & _). rewrite (mget_row_eq _ _ _ _ E1).
        apply (elim_row_zero K n msk p s i j); auto.
      * apply Hzero; auto.
    + intros r k Hr Hk Hki. rewrite Hleft by auto.
      destruct (Nat.eq_dec r (pget p j)) as [->|Hrne].
      * rewrite Ha by auto. destruct (Nat.leb_spec i k); [lia|]. rewrite andb_false_r. reflexivity.
      * destruct (Hsame r Hrne) as (F1 & _). apply mget_row_eq; auto.
Qed.

(* ------------------------------------------------------------------ forward phase: the column loop *)
(* after the selected columns < m have been processed: zeros below the (virtual) diagonal in these
   columns, and every diagonal entry of these columns is one of the logged pivots *)
Definition FInv (m : nat) (f : fst_ (A:=K)) : Prop :=
  Rel (fs f) /\ pfix n msk (fp f) /\
  (forall r c, In r S -> In c S -> c < m -> c < r -> mget N (sa (fs f)) (pget (fp f) r) c = 0) /\
  (forall c, In c S -> c < m -> In (mget N (sa (fs f)) (pget (fp f) c) c) (fpiv f)).

Lemma FInv_skip m f : sel msk m = false -> FInv m f -> FInv (Datatypes.S m) f.
Proof.
  intros Hs (HR & Hp & Hz & Hl). split; [exact HR|]. split; [exact Hp|]. split.
  - intros r c Hr Hc Hcm Hcr. apply Hz; auto.
    destruct (proj1 (inS n msk _) Hc) as [_ Hcs]. assert (c <> m) by congruence. lia.
  - intros c Hc Hcm. apply Hl; auto.
    destruct (proj1 (inS n msk _) Hc) as [_ Hcs]. assert (c <> m) by congruence. lia.
Qed.

Lemma fwd_step_FInv f i : In i S -> FInv i f ->
  mget N (sa (fs f)) (pget (swap_l O (fp f) i (find_max N (sa (fs f)) (fp f) msk n i)) i) i <> 0 ->
  FInv (Datatypes.S i) (fwd_step N n msk f i).
Proof.
  intros Hi (HR & Hp & Hz & Hl) Hpiv.
  destruct (proj1 (inS n msk _) Hi) as [Hin His].
  destruct (find_max_range K n msk (sa (fs f)) (fp f) i Hi) as [HmS Him].
  set (mr := find_max N (sa (fs f)) (fp f) msk n i) in *.
  destruct (proj1 (inS n msk _) HmS) as [Hmn Hms].
  assert (HLp : length (fp f) = n) by (destruct Hp as [HP _]; apply (perm_facts n _ HP)).
  set (p' := swap_l O (fp f) i mr) in *.
  assert (Hp' : pfix n msk p') by (apply pfix_swap; auto).
  assert (Hpg : forall r, pget p' r = pget (fp f) (if Nat.eqb r mr then i else if Nat.eqb r i then mr else r)).
  { intros r. apply pget_swap; lia. }
  (* the row p'[i] is zero left of column i *)
  assert (Hzl : forall k, In k S -> k < i -> mget N (sa (fs f)) (pget p' i) k = 0).
  { intros k Hk Hki. rewrite Hpg. destruct (Nat.eqb_spec i mr) as [E|E].
    - apply Hz; auto.
    - rewrite Nat.eqb_refl. apply Hz; auto. lia. }
  assert (Hjs : forall j, In j (idxs msk (Datatypes.S i) n) -> In j S /\ i < j).
  { intros j Hj. apply in_idxs in Hj. split; [apply inS; split; [lia|tauto]|lia]. }
  destruct (elim_fold p' i Hp' Hi (idxs msk (Datatypes.S i) n) (fs f) (NoDup_idxs _ _ _) Hjs HR Hpiv Hzl)
    as (HR' & Hrows & Hzero & Hleft).
  unfold fwd_step. fold mr. fold p'. cbn [fs fp fpiv].
  set (s' := fold_left (elim_row N n i msk p') (idxs msk (Datatypes.S i) n) (fs f)) in *.
  split; [exact HR'|]. split; [exact Hp'|]. split.
  - intros r c Hr Hc Hcm Hcr.
    destruct (proj1 (inS n msk _) Hr) as [Hrn Hrs]. destruct (proj1 (inS n msk _) Hc) as [Hcn Hcs].
    destruct (Nat.eq_dec c i) as [->|Hci].
    + apply Hzero. apply in_idxs. split; [lia|auto].
    + assert (Hclt : c < i) by lia.
      assert (Hp'r : pget p' r < n).
      { destruct Hp' as [HP' _]. apply (perm_facts n _ HP'); auto. }
      rewrite Hleft by auto. rewrite Hpg.
      destruct (Nat.eqb_spec r mr) as [E|E]; [apply Hz; auto; lia|].
      destruct (Nat.eqb_spec r i) as [E2|E2]; [apply Hz; auto; lia|]. apply Hz; auto.
  - intros c Hc Hcm. destruct (proj1 (inS n msk _) Hc) as [Hcn Hcs].
    destruct (Nat.eq_dec c i) as [->|Hci].
    + left.
      assert (Hnt : forall j, In j (idxs msk (Datatypes.S i) n) -> pget p' i <> pget p' j).
      { intros j Hj E. destruct (Hjs j Hj) as [HjS Hlt]. destruct (proj1 (inS n msk _) HjS) as [Hjn _].
        apply (pfix_inj n msk p' i j Hp' Hin Hjn) in E. lia. }
      destruct (Hrows (pget p' i) Hnt) as (E1 & _). symmetry. apply mget_row_eq. exact E1.
    + right. assert (Hclt : c < i) by lia.
      assert (Hp'c : pget p' c < n).
      { destruct Hp' as [HP' _]. apply (perm_facts n _ HP'); auto. }
      rewrite Hleft by auto. rewrite Hpg.
      destruct (Nat.eqb_spec c mr) as [E|E]; [lia|].
      destruct (Nat.eqb_spec c i) as [E2|E2]; [lia|]. apply Hl; auto.
Qed.

Lemma fpiv_mono l : forall (f : fst_ (A:=K)) x, In x (fpiv f) -> In x (fpiv (fold_left (fwd_step N n msk) l f)).
Proof.
  induction l as [|i t IH]; intros f x Hx; cbn [fold_left]; auto.
  apply IH. unfold fwd_step. cbn [fpiv]. right. exact Hx.
Qed.

Lemma fwd_fold : forall d m f, d = Nat.sub n m -> m <= n -> FInv m f ->
  let f' := fold_left (fwd_step N n msk) (idxs msk m n) f in
  (forall c, In c (fpiv f') -> c <> 0) -> FInv n f'.
Proof.
  induction d as [|d IH]; intros m f Hd Hm HF f' Hnz.
  - assert (m = n) by lia. subst m. unfold f'. rewrite idxs_nil by lia. exact HF.
  - unfold f' in *. rewrite idxs_cons in * by lia.
    destruct (sel msk m) eqn:Hs.
    + cbn [fold_left] in *.
      assert (HmS : In m S) by (apply inS; split; [lia|auto]).
      apply (IH (Datatypes.S m)); try lia; auto.
      apply fwd_step_FInv; auto.
      apply Hnz. apply fpiv_mono. unfold fwd_step. cbn [fpiv]. left. reflexivity.
    + apply (IH (Datatypes.S m)); try lia; auto. apply FInv_skip; auto.
Qed.

End GJ2.
